(* C02/C03, ExactMatchNaive / ExactMatchBoundary: totality, soundness and completeness of the
   model's exact_match against occurs_at / boundary_at / substr_b / boundary_substr_b. *)
From Fzf Require Import Prelude AlgoSpec AlgoModel OccursBasics.
Open Scope Z_scope.

(* ====================================================================================== *)
(* Part 1: asciiFuzzyIndex never fails, and when it rejects there is no occurrence          *)
(* ====================================================================================== *)

Lemma nth_firstn_lt {A} (l : list A) i k d : (k < i)%nat -> nth k (firstn i l) d = nth k l d.
Proof.
  revert i k; induction l as [|a l IH]; intros [|i] [|k] H; cbn; try lia; auto. apply IH; lia.
Qed.

Lemma index_byte_spec l b :
  match index_byte l b with
  | Some i => (i < length l)%nat /\ forall k, (k < i)%nat -> nth k l 0 <> b
  | None => forall k, (k < length l)%nat -> nth k l 0 <> b
  end.
Proof.
  induction l as [|c l IH]; cbn [index_byte].
  - intros k Hk; cbn in Hk; lia.
  - destruct (Z.eqb_spec c b) as [E|E].
    + split; [cbn; lia|intros k Hk; lia].
    + destruct (index_byte l b) as [i|].
      * destruct IH as [H1 H2]. split; [cbn; lia|].
        intros [|k] Hk; cbn; [assumption|apply H2; lia].
      * intros [|k] Hk; cbn in *; [assumption|apply IH; lia].
Qed.

(* the (over-approximating) character relation used by trySkip *)
Definition Rm (cs : bool) (c b : Z) : Prop :=
  c = b \/ (cs = false /\ 97 <= b <= 122 /\ c = b - 32).

Lemma no_Rm arr cs b lim :
  (forall k, (k < lim)%nat -> nth k arr 0 <> b) ->
  (negb cs && (97 <=? b) && (b <=? 122) = true -> forall k, (k < lim)%nat -> nth k arr 0 <> b - 32) ->
  forall k, (k < lim)%nat -> ~ Rm cs (nth k arr 0) b.
Proof.
  intros H1 H2 k Hk [E|(Ecs & Eb & E)]; [exact (H1 k Hk E)|].
  refine (H2 _ k Hk E). subst cs. cbn [negb andb].
  apply andb_true_iff; split; [apply Z.leb_le|apply Z.leb_le]; lia.
Qed.

Lemma try_skip_spec text cs b from : (from <= length text)%nat ->
  match try_skip text cs b from with
  | Ok None => forall k, (from <= k < length text)%nat -> ~ Rm cs (nth k text 0) b
  | Ok (Some i) => (from <= i < length text)%nat /\
                   forall k, (from <= k < i)%nat -> ~ Rm cs (nth k text 0) b
  | Err _ => False
  end.
Proof.
  intros Hfrom. unfold try_skip.
  assert (Hlt : Nat.ltb (length text) from = false) by (apply Nat.ltb_ge; lia). rewrite Hlt.
  set (arr := skipn from text).
  assert (Hlen : length arr = (length text - from)%nat) by (subst arr; apply skipn_length).
  (* transfer a statement on arr to text *)
  assert (Htr : forall lim, (forall k, (k < lim)%nat -> ~ Rm cs (nth k arr 0) b) ->
                forall k, (from <= k < from + lim)%nat -> ~ Rm cs (nth k text 0) b).
  { intros lim H k Hk. specialize (H (k - from)%nat). subst arr. rewrite nth_skipn in H.
    replace (from + (k - from))%nat with k in H by lia. apply H. lia. }
  pose proof (index_byte_spec arr b) as Hib.
  set (cond := negb cs && (97 <=? b) && (b <=? 122)).
  destruct (index_byte arr b) as [[|i]|].
  - destruct Hib as [Hi _]. split; [lia|]. intros k Hk; lia.
  - destruct Hib as [Hi Hb]. destruct cond eqn:Hc.
    + pose proof (index_byte_spec (firstn (S i) arr) (b - 32)) as Hu.
      assert (Hfl : length (firstn (S i) arr) = S i) by (rewrite firstn_length; lia).
      destruct (index_byte (firstn (S i) arr) (b - 32)) as [u|].
      * destruct Hu as [Hu1 Hu2]. rewrite Hfl in Hu1. split; [lia|].
        apply Htr. apply no_Rm.
        -- intros k Hk. apply Hb. lia.
        -- intros _ k Hk. rewrite <- (nth_firstn_lt arr (S i) k 0) by lia. apply Hu2. assumption.
      * rewrite Hfl in Hu. split; [lia|].
        apply Htr. apply no_Rm.
        -- assumption.
        -- intros _ k Hk. rewrite <- (nth_firstn_lt arr (S i) k 0) by lia. apply Hu. assumption.
    + split; [lia|]. apply Htr. apply no_Rm; [assumption|]. fold cond. rewrite Hc. discriminate.
  - destruct cond eqn:Hc.
    + pose proof (index_byte_spec arr (b - 32)) as Hu.
      destruct (index_byte arr (b - 32)) as [u|].
      * destruct Hu as [Hu1 Hu2]. split; [lia|].
        apply Htr. apply no_Rm.
        -- intros k Hk. apply Hib. lia.
        -- intros _ k Hk. apply Hu2. assumption.
      * intros k Hk. apply (Htr (length arr)); [|lia]. apply no_Rm; [assumption|].
        intros _. assumption.
    + intros k Hk. apply (Htr (length arr)); [|lia]. apply no_Rm; [assumption|].
      fold cond. rewrite Hc. discriminate.
Qed.

Lemma afi_loop_total text cs : forall pat first idx fi li b, (idx <= length text)%nat ->
  exists r, afi_loop text cs pat first idx fi li b = Ok r.
Proof.
  induction pat as [|p pat IH]; intros first idx fi li b Hidx; cbn [afi_loop]; [eauto|].
  pose proof (try_skip_spec text cs p idx Hidx) as Hts.
  destruct (try_skip text cs p idx) as [[i|]|e]; [|cbn; eauto|contradiction].
  cbn [bind]. apply IH. lia.
Qed.

Lemma afi_loop_none text cs : forall pat first idx fi li b, (idx <= length text)%nat ->
  pat <> [] ->
  afi_loop text cs pat first idx fi li b = Ok None ->
  forall s, (idx <= s)%nat -> (s + length pat <= length text)%nat ->
  (forall k, (k < length pat)%nat -> Rm cs (nth (s + k) text 0) (nth k pat 0)) -> False.
Proof.
  induction pat as [|p pat IH]; intros first idx fi li b Hidx Hne H s Hs Hlen HR; [congruence|].
  cbn [afi_loop] in H. cbn [length] in Hlen.
  pose proof (try_skip_spec text cs p idx Hidx) as Hts.
  assert (HR0 : Rm cs (nth s text 0) p).
  { specialize (HR 0%nat). cbn [length nth] in HR. rewrite Nat.add_0_r in HR. apply HR. lia. }
  destruct (try_skip text cs p idx) as [[i|]|e]; [|apply (Hts s); [lia|assumption]|contradiction].
  destruct Hts as [Hi Hno]. cbn [bind] in H.
  assert (His : (i <= s)%nat).
  { destruct (Nat.le_gt_cases i s) as [|Hgt]; [assumption|]. exfalso. apply (Hno s); [lia|assumption]. }
  destruct pat as [|p' pat']; [cbn in H; discriminate|].
  refine (IH _ _ _ _ _ _ _ H (S s) _ _ _); [lia|discriminate|lia|cbn [length] in *; lia|].
  intros k Hk. specialize (HR (S k)). cbn [nth] in HR. replace (S s + k)%nat with (s + S k)%nat by lia.
  apply HR. cbn [length] in *. lia.
Qed.

Lemma afi_total is_bytes text pat cs : exists r, ascii_fuzzy_index is_bytes text pat cs = Ok r.
Proof.
  unfold ascii_fuzzy_index. destruct (negb is_bytes); [eauto|]. destruct (negb (is_ascii pat)); [eauto|].
  destruct (afi_loop_total text cs pat true 0%nat 0%nat 0%nat 0) as [r Hr]; [lia|].
  rewrite Hr. cbn [bind]. destruct r as [[[fi li] b]|]; [|eauto].
  match goal with |- context [last_occ ?a ?b ?c ?d ?e] => destruct (last_occ a b c d e) end; eauto.
Qed.

Lemma is_ascii_false pat : is_ascii pat = false ->
  exists k, (k < length pat)%nat /\ 128 <= nth k pat 0.
Proof.
  induction pat as [|p pat IH]; cbn; [discriminate|]. intros H.
  apply andb_false_iff in H as [H|H].
  - exists 0%nat. split; [lia|]. apply Z.ltb_ge in H. assumption.
  - destruct (IH H) as [k [Hk Hv]]. exists (S k). split; [lia|assumption].
Qed.

Section Fold.
Variable co : char_ops.

Lemma fold_Rm cs nm c p : 0 <= c < 128 ->
  (forall c, 0 <= c < 128 -> co_norm co c = c) ->
  fold co cs nm c = p -> Rm cs c p.
Proof.
  intros Hc Hnorm. unfold fold, lower1.
  destruct cs.
  - assert (E : (if nm then co_norm co c else c) = c) by (destruct nm; [apply Hnorm; lia|reflexivity]).
    rewrite E. intros <-. left. reflexivity.
  - destruct ((65 <=? c) && (c <=? 90)) eqn:Hup.
    + apply andb_true_iff in Hup as [H1 H2]. apply Z.leb_le in H1, H2.
      assert (E : (if nm then co_norm co (c + 32) else c + 32) = c + 32)
        by (destruct nm; [apply Hnorm; lia|reflexivity]).
      rewrite E. intros <-. right. repeat split; lia.
    + assert (Hlt : (127 <? c) = false) by (apply Z.ltb_ge; lia). rewrite Hlt.
      assert (E : (if nm then co_norm co c else c) = c) by (destruct nm; [apply Hnorm; lia|reflexivity]).
      rewrite E. intros <-. left. reflexivity.
Qed.

Lemma afi_none cs nm is_bytes text pat :
  (is_bytes = true -> Forall (fun c => 0 <= c < 128) text) ->
  (forall c, 0 <= c < 128 -> co_norm co c = c) ->
  pat <> [] ->
  ascii_fuzzy_index is_bytes text pat cs = Ok None ->
  forall s, occurs_at co cs nm text pat s = false.
Proof.
  intros Hascii Hnorm Hne H s.
  destruct (occurs_at co cs nm text pat s) eqn:Hocc; [exfalso|reflexivity].
  apply occurs_at_spec in Hocc as [Hlen Hk]; [|assumption].
  unfold ascii_fuzzy_index in H. destruct is_bytes; [|discriminate]. cbn [negb] in H.
  specialize (Hascii eq_refl).
  assert (HR : forall k, (k < length pat)%nat -> Rm cs (nth (s + k) text 0) (nth k pat 0)).
  { intros k Hlt. apply (fold_Rm cs nm); [|assumption|apply Hk; assumption].
    apply (Forall_nth (fun c => 0 <= c < 128) text); [assumption|lia]. }
  destruct (is_ascii pat) eqn:Hasc; cbn [negb] in H.
  - destruct (afi_loop text cs pat true 0%nat 0%nat 0%nat 0) as [[[[fi li] b]|]|e] eqn:Hl;
      cbn [bind] in H; [|clear H|discriminate].
    + match type of H with context [last_occ ?a ?b ?c ?d ?e] => destruct (last_occ a b c d e) end; discriminate.
    + refine (afi_loop_none text cs pat true 0%nat 0%nat 0%nat 0 _ Hne Hl s _ Hlen HR); lia.
  - destruct (is_ascii_false pat Hasc) as [k [Hlt Hv]].
    assert (Hc : 0 <= nth (s + k) text 0 < 128)
      by (apply (Forall_nth (fun c => 0 <= c < 128) text); [assumption|lia]).
    destruct (HR k Hlt) as [E|(_ & Eb & _)]; lia.
Qed.

End Fold.

(* ====================================================================================== *)
(* Part 2: one iteration of the main loop                                                  *)
(* ====================================================================================== *)

Section Loop.
Variable co : char_ops.
Variable sc : scheme.
Variables (cs nm fwd boundary : bool) (text pat : list Z).

Notation n := (length text).
Notation m := (length pat).
Notation loop f st := (exact_loop co sc f cs nm fwd boundary text pat st).
Notation iat i := (index_at i n fwd).
Notation kat k := (index_at k m fwd).

(* bonusAt without the bounds checks *)
Definition bonus_pure (i : nat) : Z :=
  match i with
  | O => s_bw sc
  | S j => bonus_for sc (class_of co sc (nth j text 0)) (class_of co sc (nth i text 0))
  end.

Lemma bonus_at_m_ok i : (i < n)%nat -> bonus_at_m co sc text i = Ok (bonus_pure i).
Proof.
  destruct i as [|j]; intros H; [reflexivity|]. cbn [bonus_at_m].
  rewrite (get_nth text j 0), (get_nth text (S j) 0) by lia. reflexivity.
Qed.

(* -- the loop body, restated with named blocks (convertible to the model's text) -- *)

Definition r_bonus (i_ k_ : nat) (ok0 : bool) (old : Z) : res Z :=
  if ok0 && Nat.eqb k_ 0 then bonus_at_m co sc text i_ else Ok old.

Definition r_left (i_ : nat) : res bool :=
  if Nat.eqb i_ 0 then Ok true
  else do a <- get text (i_ - 1); Ok (class_of co sc a <=? cDelim).

Definition r_right (i_ : nat) : res bool :=
  if Nat.eqb i_ (n - 1) then Ok true
  else do a <- get text (i_ + 1); Ok (class_of co sc a <=? cDelim).

Definition r_ok (i_ k_ : nat) (ok0 : bool) (bonus : Z) : res bool :=
  if ok0 && boundary then
    let ok := negb (Nat.eqb k_ 0) || (bonusBoundary <=? bonus) in
    do ok <- (if ok && Nat.eqb k_ 0 then r_left i_ else Ok ok);
    (if ok && Nat.eqb k_ (m - 1) then r_right i_ else Ok ok)
  else Ok ok0.

Definition tail (k : ex_state -> res ex_state) (st : ex_state) (bonus : Z) (ok : bool) : res ex_state :=
  if ok then
    let pidx := S (ex_pidx st) in
    if Nat.eqb pidx m then
      let '(bestPos, bestBonus) := if ex_bestBonus st <? bonus then (ex_index st, bonus)
                                   else (ex_bestPos st, ex_bestBonus st) in
      if bonusBoundary <=? bonus then Ok (mkEx (ex_index st) pidx bonus bestPos bestBonus)
      else k (mkEx (ex_index st - (Z.of_nat pidx - 1) + 1) O 0 bestPos bestBonus)
    else k (mkEx (ex_index st + 1) pidx bonus (ex_bestPos st) (ex_bestBonus st))
  else k (mkEx (ex_index st - Z.of_nat (ex_pidx st) + 1) O 0 (ex_bestPos st) (ex_bestBonus st)).

Definition body (k : ex_state -> res ex_state) (st : ex_state) : res ex_state :=
  if Z.of_nat n <=? ex_index st then Ok st else
  if ex_index st <? 0 then Err OutOfRange else
  let i_ := index_at (Z.to_nat (ex_index st)) n fwd in
  do c <- get text i_;
  let k_ := index_at (ex_pidx st) m fwd in
  do pchar <- get pat k_;
  let ok0 := pchar =? foldm co cs nm c in
  do bonus <- r_bonus i_ k_ ok0 (ex_bonus st);
  do ok <- r_ok i_ k_ ok0 bonus;
  tail k st bonus ok.

Lemma loop_unfold f st : loop (S f) st = body (fun s => loop f s) st.
Proof. reflexivity. Qed.

(* -- pure versions -- *)

Definition p_bonus (i_ k_ : nat) (ok0 : bool) (old : Z) : Z :=
  if ok0 && Nat.eqb k_ 0 then bonus_pure i_ else old.

(* text position i_ is an admissible match for pattern position k_ *)
Definition adm (i_ k_ : nat) : bool :=
  (nth k_ pat 0 =? foldm co cs nm (nth i_ text 0)) &&
  (if boundary then
     (if Nat.eqb k_ 0 then (bonusBoundary <=? bonus_pure i_) && left_ok co sc text i_ else true) &&
     (if Nat.eqb k_ (m - 1) then right_ok co sc text (S i_) else true)
   else true).

Lemma r_bonus_ok i_ k_ ok0 old : (i_ < n)%nat -> r_bonus i_ k_ ok0 old = Ok (p_bonus i_ k_ ok0 old).
Proof.
  intros H. unfold r_bonus, p_bonus. destruct (ok0 && Nat.eqb k_ 0); [apply bonus_at_m_ok; assumption|reflexivity].
Qed.

Lemma r_left_ok i_ : (i_ < n)%nat -> r_left i_ = Ok (left_ok co sc text i_).
Proof.
  intros H. unfold r_left, left_ok. destruct i_ as [|j]; [reflexivity|].
  cbn [Nat.eqb]. replace (S j - 1)%nat with j by lia.
  rewrite (get_nth text j 0), (nth_error_nth' text j 0) by lia. reflexivity.
Qed.

Lemma r_right_ok i_ : (i_ < n)%nat -> r_right i_ = Ok (right_ok co sc text (S i_)).
Proof.
  intros H. unfold r_right, right_ok. destruct (Nat.eqb_spec i_ (n - 1)) as [E|E].
  - rewrite nth_error_ge by lia. reflexivity.
  - replace (i_ + 1)%nat with (S i_) by lia.
    rewrite (get_nth text (S i_) 0), (nth_error_nth' text (S i_) 0) by lia. reflexivity.
Qed.

Lemma r_ok_ok i_ k_ old : (i_ < n)%nat ->
  r_ok i_ k_ (nth k_ pat 0 =? foldm co cs nm (nth i_ text 0))
       (p_bonus i_ k_ (nth k_ pat 0 =? foldm co cs nm (nth i_ text 0)) old) = Ok (adm i_ k_).
Proof.
  intros H. unfold r_ok, adm, p_bonus. rewrite r_left_ok, r_right_ok by assumption.
  destruct (nth k_ pat 0 =? foldm co cs nm (nth i_ text 0)); [|reflexivity].
  destruct boundary; [|reflexivity]. cbn [andb].
  destruct (Nat.eqb k_ 0); cbn [negb orb andb].
  - destruct (bonusBoundary <=? bonus_pure i_); cbn [andb bind];
      [destruct (left_ok co sc text i_); cbn [andb bind]|];
      destruct (Nat.eqb k_ (m - 1)); reflexivity.
  - destruct (Nat.eqb k_ (m - 1)); reflexivity.
Qed.

Lemma index_at_lt i k b : (i < k)%nat -> (index_at i k b < k)%nat.
Proof. unfold index_at. destruct b; lia. Qed.

Lemma body_ok k st : 0 <= ex_index st < Z.of_nat n -> (ex_pidx st < m)%nat ->
  body k st =
  let i_ := index_at (Z.to_nat (ex_index st)) n fwd in
  let k_ := index_at (ex_pidx st) m fwd in
  let ok0 := nth k_ pat 0 =? foldm co cs nm (nth i_ text 0) in
  tail k st (p_bonus i_ k_ ok0 (ex_bonus st)) (adm i_ k_).
Proof.
  intros Hi Hp. unfold body.
  assert (H1 : (Z.of_nat n <=? ex_index st) = false) by (apply Z.leb_gt; lia).
  assert (H2 : (ex_index st <? 0) = false) by (apply Z.ltb_ge; lia).
  rewrite H1, H2.
  assert (Hi_ : (index_at (Z.to_nat (ex_index st)) n fwd < n)%nat) by (apply index_at_lt; lia).
  assert (Hk_ : (index_at (ex_pidx st) m fwd < m)%nat) by (apply index_at_lt; lia).
  rewrite (get_nth text _ 0 Hi_). cbn [bind]. rewrite (get_nth pat _ 0 Hk_). cbn [bind].
  rewrite r_bonus_ok by assumption. cbn [bind]. rewrite r_ok_ok by assumption. reflexivity.
Qed.

(* -- the iteration as a pure step function: inl = continue, inr = break -- *)

Definition next (st : ex_state) : ex_state + ex_state :=
  let i_ := index_at (Z.to_nat (ex_index st)) n fwd in
  let k_ := index_at (ex_pidx st) m fwd in
  let ok0 := nth k_ pat 0 =? foldm co cs nm (nth i_ text 0) in
  let bonus := p_bonus i_ k_ ok0 (ex_bonus st) in
  if adm i_ k_ then
    if Nat.eqb (S (ex_pidx st)) m then
      let bpb := if ex_bestBonus st <? bonus then (ex_index st, bonus) else (ex_bestPos st, ex_bestBonus st) in
      if bonusBoundary <=? bonus then inr (mkEx (ex_index st) (S (ex_pidx st)) bonus (fst bpb) (snd bpb))
      else inl (mkEx (ex_index st - Z.of_nat (ex_pidx st) + 1) O 0 (fst bpb) (snd bpb))
    else inl (mkEx (ex_index st + 1) (S (ex_pidx st)) bonus (ex_bestPos st) (ex_bestBonus st))
  else inl (mkEx (ex_index st - Z.of_nat (ex_pidx st) + 1) O 0 (ex_bestPos st) (ex_bestBonus st)).

Lemma loop_next f st : 0 <= ex_index st < Z.of_nat n -> (ex_pidx st < m)%nat ->
  loop (S f) st = match next st with inl s1 => loop f s1 | inr s' => Ok s' end.
Proof.
  intros Hi Hp. rewrite loop_unfold, body_ok by assumption. unfold tail, next. cbv zeta.
  destruct (adm _ _); [|reflexivity].
  destruct (Nat.eqb (S (ex_pidx st)) m); [|reflexivity].
  replace (Z.of_nat (S (ex_pidx st)) - 1) with (Z.of_nat (ex_pidx st)) by lia.
  destruct (ex_bestBonus st <? _); cbn [fst snd]; destruct (bonusBoundary <=? _); reflexivity.
Qed.

Lemma loop_done f st : Z.of_nat n <= ex_index st -> loop (S f) st = Ok st.
Proof.
  intros H. rewrite loop_unfold. unfold body.
  assert (H1 : (Z.of_nat n <=? ex_index st) = true) by (apply Z.leb_le; lia). rewrite H1. reflexivity.
Qed.

(* generic invariant rule for partial correctness *)
Lemma loop_rule (I Q : ex_state -> Prop) :
  (forall st, I st -> 0 <= ex_index st /\ (ex_pidx st < m)%nat) ->
  (forall st, I st -> Z.of_nat n <= ex_index st -> Q st) ->
  (forall st, I st -> ex_index st < Z.of_nat n ->
     match next st with inl s1 => I s1 | inr s' => Q s' end) ->
  forall f st st', I st -> loop f st = Ok st' -> Q st'.
Proof.
  intros Hrange Hend Hstep. induction f as [|f IH]; intros st st' HI H; [discriminate|].
  destruct (Z.le_gt_cases (Z.of_nat n) (ex_index st)) as [Hge|Hlt].
  - rewrite loop_done in H by assumption. injection H as <-. auto.
  - destruct (Hrange st HI) as [H0 Hp]. rewrite loop_next in H by (assumption || lia).
    specialize (Hstep st HI Hlt). destruct (next st) as [s1|s'].
    + exact (IH s1 st' Hstep H).
    + injection H as <-. assumption.
Qed.

(* ---------- termination ---------- *)

Definition Rng (st : ex_state) : Prop :=
  0 <= ex_index st <= Z.of_nat n /\ (ex_pidx st < m)%nat /\ Z.of_nat (ex_pidx st) <= ex_index st.

Definition Phi (st : ex_state) : Z :=
  (Z.of_nat n - ex_index st) * (Z.of_nat m + 1) + Z.of_nat (ex_pidx st) * Z.of_nat m.

Lemma Phi_nonneg st : Rng st -> 0 <= Phi st.
Proof.
  intros (H1 & H2 & H3). unfold Phi.
  apply Z.add_nonneg_nonneg; apply Z.mul_nonneg_nonneg; lia.
Qed.

Lemma Rng_next st : Rng st -> ex_index st < Z.of_nat n ->
  match next st with inl s1 => Rng s1 /\ Phi s1 + 1 <= Phi st | inr _ => True end.
Proof.
  intros (H1 & H2 & H3) Hlt. unfold next. cbv zeta.
  destruct st as [index pidx bonus bp bb]. cbn [ex_index ex_pidx ex_bonus ex_bestPos ex_bestBonus] in *.
  destruct (adm _ _).
  - destruct (Nat.eqb_spec (S pidx) m) as [E|E].
    + destruct (bonusBoundary <=? _); [exact I|].
      unfold Rng, Phi. cbn [ex_index ex_pidx]. repeat split; try lia.
    + unfold Rng, Phi. cbn [ex_index ex_pidx]. repeat split; try lia.
  - unfold Rng, Phi. cbn [ex_index ex_pidx]. repeat split; try lia.
Qed.

Lemma loop_total : forall f st, Rng st -> Phi st < Z.of_nat f -> exists st', loop f st = Ok st'.
Proof.
  induction f as [|f IH]; intros st HR HPhi.
  - pose proof (Phi_nonneg st HR). lia.
  - destruct (Z.le_gt_cases (Z.of_nat n) (ex_index st)) as [Hge|Hlt].
    + rewrite loop_done by assumption. eauto.
    + pose proof HR as (H1 & H2 & H3). rewrite loop_next by (assumption || lia).
      pose proof (Rng_next st HR Hlt) as Hn. destruct (next st) as [s1|s']; [|eauto].
      destruct Hn as [HR1 Hdec]. apply IH; [assumption|lia].
Qed.


(* ====================================================================================== *)
(* Part 3: loop invariants                                                                 *)
(* ====================================================================================== *)

(* loop coordinates: j = candidate start (loop index of the first compared character) *)
Definition run (j p : nat) : Prop := forall k, (k < p)%nat -> adm (iat (j + k)) (kat k) = true.
Definition full (j : nat) : Prop := (j + m <= n)%nat /\ run j m.
Definition Best (bp : Z) : Prop :=
  bp = -1 \/ exists b, bp = Z.of_nat b /\ (m <= b + 1)%nat /\ full (b + 1 - m).

(* soundness invariant *)
Definition IS (st : ex_state) : Prop :=
  exists idx, ex_index st = Z.of_nat idx /\ (idx <= n)%nat /\ (ex_pidx st < m)%nat /\
    (ex_pidx st <= idx)%nat /\ run (idx - ex_pidx st) (ex_pidx st) /\ Best (ex_bestPos st).

Lemma IS_next st : IS st -> ex_index st < Z.of_nat n ->
  match next st with inl s1 => IS s1 | inr s' => Best (ex_bestPos s') end.
Proof.
  intros (idx & Hi & Hn & Hp & Hpi & Hrun & Hbest) Hlt.
  destruct st as [index pidx bonus bp bb].
  cbn [ex_index ex_pidx ex_bonus ex_bestPos ex_bestBonus] in *. subst index.
  unfold next. cbn [ex_index ex_pidx ex_bonus ex_bestPos ex_bestBonus]. cbv zeta. rewrite Nat2Z.id.
  destruct (adm (iat idx) (kat pidx)) eqn:Hadm.
  - assert (Hrun' : run (idx - pidx) (S pidx)).
    { intros k Hk. destruct (Nat.eq_dec k pidx) as [->|Hne].
      - replace (idx - pidx + pidx)%nat with idx by lia. exact Hadm.
      - apply Hrun. lia. }
    destruct (Nat.eqb_spec (S pidx) m) as [E|E].
    + assert (Hfull : full (idx - pidx)) by (split; [lia|rewrite <- E; exact Hrun']).
      match goal with |- context [if bb <? ?x then _ else _] => set (bonus' := x) end.
      assert (Hb' : Best (fst (if bb <? bonus' then (Z.of_nat idx, bonus') else (bp, bb)))).
      { destruct (bb <? bonus'); cbn [fst]; [|assumption]. right. exists idx.
        split; [reflexivity|]. split; [lia|].
        replace (idx + 1 - m)%nat with (idx - pidx)%nat by lia. assumption. }
      destruct (bonusBoundary <=? bonus'); cbn [ex_bestPos]; [assumption|].
      exists (idx - pidx + 1)%nat. cbn [ex_index ex_pidx ex_bestPos].
      split; [lia|]. split; [lia|]. split; [lia|]. split; [lia|]. split; [intros k Hk; lia|assumption].
    + exists (S idx). cbn [ex_index ex_pidx ex_bestPos].
      split; [lia|]. split; [lia|]. split; [lia|]. split; [lia|]. split; [|assumption].
      replace (S idx - S pidx)%nat with (idx - pidx)%nat by lia. exact Hrun'.
  - exists (idx - pidx + 1)%nat. cbn [ex_index ex_pidx ex_bestPos].
    split; [lia|]. split; [lia|]. split; [lia|]. split; [lia|]. split; [intros k Hk; lia|assumption].
Qed.

Definition st0 : ex_state := mkEx 0 O 0 (-1) (-1).

Lemma IS_st0 : (0 < m)%nat -> IS st0.
Proof.
  intros Hm. exists 0%nat. cbn. split; [reflexivity|]. split; [lia|]. split; [lia|]. split; [lia|].
  split; [intros k Hk; lia|left; reflexivity].
Qed.

Lemma loop_sound f st' : (0 < m)%nat -> loop f st0 = Ok st' -> Best (ex_bestPos st').
Proof.
  intros Hm H.
  refine (loop_rule IS (fun s => Best (ex_bestPos s)) _ _ IS_next f st0 st' (IS_st0 Hm) H).
  - intros st (idx & Hi & Hn & Hp & _). split; [lia|assumption].
  - intros st (idx & Hi & Hn & Hp & Hpi & Hrun & Hbest) _. assumption.
Qed.

(* completeness invariant *)
Definition IC (st : ex_state) : Prop :=
  exists idx, ex_index st = Z.of_nat idx /\ (idx <= n)%nat /\ (ex_pidx st < m)%nat /\
    (ex_pidx st <= idx)%nat /\ 0 <= ex_bonus st /\
    (0 <= ex_bestPos st \/
     (ex_bestBonus st = -1 /\ forall j, (j < idx - ex_pidx st)%nat -> ~ full j)).
Definition QC (st : ex_state) : Prop := 0 <= ex_bestPos st \/ forall j, ~ full j.

Lemma IC_next st : (forall i, 0 <= bonus_pure i) -> IC st -> ex_index st < Z.of_nat n ->
  match next st with inl s1 => IC s1 | inr s' => QC s' end.
Proof.
  intros Hbon (idx & Hi & Hn & Hp & Hpi & Hb0 & Hc) Hlt.
  destruct st as [index pidx bonus bp bb].
  cbn [ex_index ex_pidx ex_bonus ex_bestPos ex_bestBonus] in *. subst index.
  unfold next. cbn [ex_index ex_pidx ex_bonus ex_bestPos ex_bestBonus]. cbv zeta. rewrite Nat2Z.id.
  match goal with |- context [p_bonus ?a ?b ?c ?d] => set (bonus' := p_bonus a b c d) end.
  assert (Hb' : 0 <= bonus').
  { subst bonus'. unfold p_bonus. match goal with |- context [if ?c then _ else _] => destruct c end;
      [apply Hbon|assumption]. }
  destruct (adm (iat idx) (kat pidx)) eqn:Hadm.
  - destruct (Nat.eqb_spec (S pidx) m) as [E|E].
    + assert (Hbp : 0 <= fst (if bb <? bonus' then (Z.of_nat idx, bonus') else (bp, bb))).
      { destruct (Z.ltb_spec bb bonus'); cbn [fst]; [lia|]. destruct Hc as [Hc|[Hc _]]; lia. }
      destruct (bonusBoundary <=? bonus').
      * left. cbn [ex_bestPos]. assumption.
      * exists (idx - pidx + 1)%nat. cbn [ex_index ex_pidx ex_bonus ex_bestPos ex_bestBonus].
        split; [lia|]. split; [lia|]. split; [lia|]. split; [lia|]. split; [lia|]. left. assumption.
    + exists (S idx). cbn [ex_index ex_pidx ex_bonus ex_bestPos ex_bestBonus].
      split; [lia|]. split; [lia|]. split; [lia|]. split; [lia|]. split; [assumption|].
      replace (S idx - S pidx)%nat with (idx - pidx)%nat by lia. assumption.
  - exists (idx - pidx + 1)%nat. cbn [ex_index ex_pidx ex_bonus ex_bestPos ex_bestBonus].
    split; [lia|]. split; [lia|]. split; [lia|]. split; [lia|]. split; [lia|].
    destruct Hc as [Hc|[Hc1 Hc2]]; [left; assumption|right]. split; [assumption|].
    intros j Hj. destruct (Nat.eq_dec j (idx - pidx)) as [->|Hne]; [|apply Hc2; lia].
    intros [_ Hr]. specialize (Hr pidx Hp).
    replace (idx - pidx + pidx)%nat with idx in Hr by lia. congruence.
Qed.

Lemma loop_complete f st' : (0 < m)%nat -> (forall i, 0 <= bonus_pure i) ->
  loop f st0 = Ok st' -> QC st'.
Proof.
  intros Hm Hbon H.
  refine (loop_rule IC QC _ _ (fun st => IC_next st Hbon) f st0 st' _ H).
  - intros st (idx & Hi & Hn & Hp & _). split; [lia|assumption].
  - intros st (idx & Hi & Hn & Hp & Hpi & Hb0 & Hc) Hge.
    destruct Hc as [Hc|[_ Hc]]; [left; assumption|right].
    intros j [Hj Hr]. apply (Hc j); [lia|]. split; assumption.
  - exists 0%nat. cbn. split; [reflexivity|]. split; [lia|]. split; [lia|]. split; [lia|]. split; [lia|].
    right. split; [reflexivity|]. intros j Hj; lia.
Qed.

(* ====================================================================================== *)
(* Part 4: from loop coordinates to occurrences in the text                                *)
(* ====================================================================================== *)

Definition s_of (j : nat) : nat := if fwd then j else (n - j - m)%nat.

Lemma iat_kat j k : (j + m <= n)%nat -> (k < m)%nat -> iat (j + k) = (s_of j + kat k)%nat.
Proof. unfold index_at, s_of. destruct fwd; lia. Qed.

Lemma kat_lt k : (k < m)%nat -> (kat k < m)%nat.
Proof. apply index_at_lt. Qed.

Lemma kat_invol k : (k < m)%nat -> kat (kat k) = k.
Proof. unfold index_at. destruct fwd; lia. Qed.

Lemma s_of_invol s : (s + m <= n)%nat -> s_of (s_of s) = s /\ (s_of s + m <= n)%nat.
Proof. unfold s_of. destruct fwd; lia. Qed.

Lemma run_iff j : (j + m <= n)%nat ->
  (run j m <-> forall k_, (k_ < m)%nat -> adm (s_of j + k_) k_ = true).
Proof.
  intros Hj. split.
  - intros H k_ Hk. specialize (H (kat k_) (kat_lt k_ Hk)).
    rewrite iat_kat in H by (assumption || apply kat_lt; assumption).
    rewrite kat_invol in H by assumption. assumption.
  - intros H k Hk. rewrite iat_kat by assumption. apply H. apply kat_lt. assumption.
Qed.

Lemma adm_all_iff s : pat <> [] -> (s + m <= n)%nat ->
  ((forall k_, (k_ < m)%nat -> adm (s + k_) k_ = true) <->
   (occurs_at co cs nm text pat s = true /\
    (boundary = true -> left_ok co sc text s = true /\ right_ok co sc text (s + m) = true /\
                        bonusBoundary <= bonus_pure s))).
Proof.
  intros Hne Hs. assert (Hm : (0 < m)%nat) by (destruct pat; [congruence|cbn; lia]).
  split.
  - intros H. split.
    + apply occurs_at_spec; [assumption|]. split; [assumption|]. intros k Hk.
      specialize (H k Hk). unfold adm in H. apply andb_true_iff in H as [H _].
      apply Z.eqb_eq in H. rewrite foldm_eq_fold in H. symmetry. exact H.
    + intros Hb. pose proof (H 0%nat Hm) as H0. pose proof (H (m - 1)%nat ltac:(lia)) as H1.
      unfold adm in H0, H1. rewrite Hb in H0, H1. rewrite Nat.add_0_r in H0.
      rewrite Nat.eqb_refl in H1. cbn [Nat.eqb] in H0.
      apply andb_true_iff in H0 as [_ H0]. apply andb_true_iff in H0 as [H0 _].
      apply andb_true_iff in H0 as [H0a H0b].
      apply andb_true_iff in H1 as [_ H1]. apply andb_true_iff in H1 as [_ H1].
      replace (S (s + (m - 1)))%nat with (s + m)%nat in H1 by lia.
      apply Z.leb_le in H0a. auto.
  - intros [Hocc Hbd] k Hk. unfold adm. apply andb_true_iff. split.
    + apply occurs_at_spec in Hocc as [_ Hocc]; [|assumption]. apply Z.eqb_eq.
      rewrite foldm_eq_fold. symmetry. apply Hocc. assumption.
    + destruct (Bool.bool_dec boundary true) as [Hb|Hb].
      * rewrite Hb. destruct (Hbd Hb) as (HL & HR & HB). apply andb_true_iff. split.
        -- destruct (Nat.eqb_spec k 0) as [->|Hk0]; [|reflexivity]. rewrite Nat.add_0_r.
           apply andb_true_iff. split; [apply Z.leb_le; exact HB|exact HL].
        -- destruct (Nat.eqb_spec k (m - 1)) as [->|Hk1]; [|reflexivity].
           replace (S (s + (m - 1)))%nat with (s + m)%nat by lia. exact HR.
      * apply not_true_is_false in Hb. rewrite Hb. reflexivity.
Qed.

Lemma full_iff j : pat <> [] -> (j + m <= n)%nat ->
  (full j <->
   (occurs_at co cs nm text pat (s_of j) = true /\
    (boundary = true -> left_ok co sc text (s_of j) = true /\ right_ok co sc text (s_of j + m) = true /\
                        bonusBoundary <= bonus_pure (s_of j)))).
Proof.
  intros Hne Hj. destruct (s_of_invol j Hj) as [_ Hs].
  rewrite <- (adm_all_iff (s_of j) Hne Hs), <- (run_iff j Hj). unfold full. tauto.
Qed.

(* ====================================================================================== *)
(* Part 5: the code after the loop                                                         *)
(* ====================================================================================== *)

Definition finish (st : ex_state) : res mres :=
  if 0 <=? ex_bestPos st then
    let bestPos := Z.to_nat (ex_bestPos st) in
    let '(sidx, eidx) := if fwd then ((bestPos + 1 - m)%nat, (bestPos + 1)%nat)
                         else ((n - (bestPos + 1))%nat, (n - (bestPos + 1 - m))%nat) in
    if boundary then
      let bonus := ex_bonus st in
      let deduct := bonus - bonusBoundary + 1 in
      do u1 <- (if Nat.ltb 0 sidx then do a <- get text (sidx - 1); Ok (a =? 95) else Ok false);
      let score := if u1 then bonus - (deduct + 1) else bonus in
      let deduct := if u1 then 1 else deduct in
      do u2 <- (if Nat.ltb eidx n then do a <- get text eidx; Ok (a =? 95) else Ok false);
      let score := if u2 then score - deduct else score in
      Ok (Match sidx eidx (score + scoreMatch * Z.of_nat m + s_bw sc * (Z.of_nat m + 1)) None)
    else
      do sp <- calculate_score co sc cs nm text pat sidx eidx;
      Ok (Match sidx eidx (fst sp) None)
  else Ok NoMatch.

Lemma exact_match_unfold is_bytes : pat <> [] ->
  exact_match co sc cs nm fwd boundary is_bytes text pat =
  if Nat.ltb n m then Ok NoMatch else
  do afi <- ascii_fuzzy_index is_bytes text pat cs;
  match afi with
  | None => Ok NoMatch
  | Some _ => do st <- loop (S (n * S m)) st0; finish st
  end.
Proof. intros Hne. unfold exact_match, finish. destruct pat; [congruence|reflexivity]. Qed.

Lemma finish_spec st : pat <> [] -> Best (ex_bestPos st) ->
  (ex_bestPos st = -1 /\ finish st = Ok NoMatch) \/
  (exists j score, (j + m <= n)%nat /\ full j /\
     finish st = Ok (Match (s_of j) (s_of j + m) score None) /\
     (boundary = false -> score = align_score co sc text (seq (s_of j) m))).
Proof.
  intros Hne [Hbp|(b & Hbp & Hmb & Hfull)]; unfold finish; rewrite Hbp.
  - left. split; reflexivity.
  - right. pose proof Hfull as [Hj _]. set (j := (b + 1 - m)%nat) in *.
    assert (Hle : (0 <=? Z.of_nat b) = true) by (apply Z.leb_le; lia). rewrite Hle, Nat2Z.id.
    assert (Hse : (if fwd then ((b + 1 - m)%nat, (b + 1)%nat)
                   else ((n - (b + 1))%nat, (n - (b + 1 - m))%nat)) = (s_of j, (s_of j + m)%nat)).
    { unfold s_of. subst j. destruct fwd; f_equal; lia. }
    rewrite Hse. destruct (s_of_invol j Hj) as [_ Hs].
    destruct (Bool.bool_dec boundary true) as [Hb|Hb].
    + rewrite Hb. cbv zeta.
      assert (Hu1 : exists u, (if Nat.ltb 0 (s_of j) then do a <- get text (s_of j - 1); Ok (a =? 95) else Ok false)
                              = Ok u).
      { destruct (Nat.ltb_spec 0 (s_of j)); [|eauto]. rewrite (get_nth text _ 0) by lia. cbn [bind]. eauto. }
      destruct Hu1 as [u1 Hu1]. rewrite Hu1. cbn [bind].
      assert (Hu2 : exists u, (if Nat.ltb (s_of j + m) n then do a <- get text (s_of j + m)%nat; Ok (a =? 95) else Ok false)
                              = Ok u).
      { destruct (Nat.ltb_spec (s_of j + m) n); [|eauto]. rewrite (get_nth text _ 0) by lia. cbn [bind]. eauto. }
      destruct Hu2 as [u2 Hu2]. rewrite Hu2. cbn [bind].
      eexists j, _. split; [assumption|]. split; [assumption|]. split; [reflexivity|].
      intros Hb'. congruence.
    + apply not_true_is_false in Hb. rewrite Hb.
      apply (full_iff j Hne Hj) in Hfull as Hsem. destruct Hsem as [Hocc _].
      destruct (calc_on_occurrence co sc cs nm text pat (s_of j) Hne Hocc) as [ps Hps].
      rewrite Hps. cbn [bind fst].
      exists j, (align_score co sc text (seq (s_of j) m)). auto.
Qed.

End Loop.

(* ====================================================================================== *)
(* Part 6: facts about the bonus table                                                     *)
(* ====================================================================================== *)

Section Bonus.
Variable co : char_ops.
Variable sc : scheme.

Ltac split_ifs :=
  repeat match goal with
         | |- context [if ?c then _ else _] => destruct c eqn:?
         end.

Lemma bonus_for_nonneg prev cur : 0 <= s_bw sc -> 0 <= s_bd sc -> 0 <= bonus_for sc prev cur.
Proof.
  intros H1 H2. unfold bonus_for, bonusBoundary, bonusCamel, bonusNonWord. split_ifs; lia.
Qed.

Lemma bonus_pure_nonneg text i : 0 <= s_bw sc -> 0 <= s_bd sc -> 0 <= bonus_pure co sc text i.
Proof. intros H1 H2. destruct i; cbn [bonus_pure]; [assumption|apply bonus_for_nonneg; assumption]. Qed.

Lemma ascii_class_range c : 0 <= ascii_class sc c <= 6.
Proof.
  unfold ascii_class, cLower, cUpper, cNumber, cWhite, cDelim, cNonWord. split_ifs; lia.
Qed.

Lemma class_of_nonneg c : (forall c, 0 <= co_class co c) -> 0 <= class_of co sc c.
Proof.
  intros H. unfold class_of. destruct (c <=? 127); [apply ascii_class_range|apply H].
Qed.

(* the code's extra test "bonus >= bonusBoundary" at the first pattern character is implied by the
   left-boundary condition, provided both scheme bonuses are at least bonusBoundary *)
Lemma bonus_for_edge prev cur : bonusBoundary <= s_bw sc -> bonusBoundary <= s_bd sc ->
  0 <= prev <= cDelim -> 0 <= cur -> bonusBoundary <= bonus_for sc prev cur.
Proof.
  unfold bonus_for, bonusBoundary, bonusCamel, bonusNonWord, cWhite, cNonWord, cDelim, cLower, cUpper, cNumber.
  intros H1 H2 Hp Hc.
  destruct (Z.ltb_spec 1 cur) as [Hc1|Hc1]; cbn [andb].
  - destruct (Z.eqb_spec prev 0); [lia|]. destruct (Z.eqb_spec prev 2); [lia|].
    destruct (Z.eqb_spec prev 1); [lia|]. lia.
  - assert (Hn3 : (prev =? 3) = false) by (apply Z.eqb_neq; lia). rewrite Hn3. cbn [andb orb].
    assert (Hn6 : (cur =? 6) = false) by (apply Z.eqb_neq; lia). rewrite Hn6.
    rewrite andb_false_r. cbn [orb].
    destruct (Z.eqb_spec cur 1); cbn [orb]; [lia|].
    destruct (Z.eqb_spec cur 2); [lia|]. destruct (Z.eqb_spec cur 0); lia.
Qed.

Lemma bonus_ge8 text s : bonusBoundary <= s_bw sc -> bonusBoundary <= s_bd sc ->
  (forall c, 0 <= co_class co c) -> (s < length text)%nat ->
  left_ok co sc text s = true -> bonusBoundary <= bonus_pure co sc text s.
Proof.
  intros H1 H2 Hcl Hs HL. destruct s as [|j]; cbn [bonus_pure]; [assumption|].
  unfold left_ok in HL. rewrite (nth_error_nth' text j 0) in HL by lia.
  unfold edge_class in HL. apply Z.leb_le in HL.
  apply bonus_for_edge; try assumption; [split; [apply class_of_nonneg; assumption|assumption]|].
  apply class_of_nonneg; assumption.
Qed.

End Bonus.

(* exhaustive check requested in the brief: for the three schemes, every class pair with prev <= cDelim
   has bonus >= bonusBoundary *)
Example bonus_edge_all_schemes :
  forallb (fun sc => forallb (fun prev => forallb (fun cur => bonusBoundary <=? bonus_for sc prev cur)
                                                  [0;1;2;3;4;5;6]) [0;1;2])
          [scheme_default; scheme_path; scheme_history] = true.
Proof. vm_compute. reflexivity. Qed.

(* ====================================================================================== *)
(* Part 7: the property-level theorems                                                     *)
(* ====================================================================================== *)

Section Final.
Variable co : char_ops.
Variable sc : scheme.

Theorem exact_total_proof : forall cs nm fwd boundary is_bytes text pat,
  exists r, exact_match co sc cs nm fwd boundary is_bytes text pat = Ok r.
Proof.
  intros cs nm fwd boundary is_bytes text pat.
  destruct pat as [|p0 l]; [cbn; eauto|].
  assert (Hne : p0 :: l <> []) by discriminate. revert Hne. generalize (p0 :: l). intros pat Hne.
  assert (Hm : (0 < length pat)%nat) by (destruct pat; [congruence|cbn; lia]).
  rewrite exact_match_unfold by assumption.
  destruct (Nat.ltb (length text) (length pat)); [eauto|].
  destruct (afi_total is_bytes text pat cs) as [r Hr]. rewrite Hr. cbn [bind].
  destruct r as [x|]; [|eauto].
  destruct (loop_total co sc cs nm fwd boundary text pat (S (length text * S (length pat))) st0) as [st' Hst].
  { unfold Rng, st0. cbn [ex_index ex_pidx]. lia. }
  { unfold Phi, st0. cbn [ex_index ex_pidx]. lia. }
  rewrite Hst. cbn [bind].
  pose proof (loop_sound co sc cs nm fwd boundary text pat _ _ Hm Hst) as Hbest.
  destruct (finish_spec co sc cs nm fwd boundary text pat st' Hne Hbest)
    as [[_ H]|(j & score & _ & _ & H & _)]; rewrite H; eauto.
Qed.

Theorem exact_sound_proof : forall cs nm fwd boundary is_bytes text pat s e score pos,
  exact_match co sc cs nm fwd boundary is_bytes text pat = Ok (Match s e score pos) ->
  pat <> [] ->
  e = (s + length pat)%nat /\ (e <= length text)%nat /\
  occurs_at co cs nm text pat s = true /\
  (boundary = true -> boundary_at co sc cs nm text pat s = true) /\
  (boundary = false -> score = align_score co sc text (seq s (length pat))).
Proof.
  intros cs nm fwd boundary is_bytes text pat s e score pos H Hne.
  assert (Hm : (0 < length pat)%nat) by (destruct pat; [congruence|cbn; lia]).
  rewrite exact_match_unfold in H by assumption.
  destruct (Nat.ltb (length text) (length pat)); [discriminate|].
  destruct (ascii_fuzzy_index is_bytes text pat cs) as [[x|]|err]; cbn [bind] in H; try discriminate.
  destruct (exact_loop co sc (S (length text * S (length pat))) cs nm fwd boundary text pat st0)
    as [st'|err] eqn:Hst; cbn [bind] in H; [|discriminate].
  pose proof (loop_sound co sc cs nm fwd boundary text pat _ _ Hm Hst) as Hbest.
  destruct (finish_spec co sc cs nm fwd boundary text pat st' Hne Hbest)
    as [[_ Hf]|(j & score' & Hj & Hfull & Hf & Hsc)]; rewrite Hf in H; [discriminate|].
  injection H as <- <- <- <-.
  apply (full_iff co sc cs nm fwd boundary text pat j Hne Hj) in Hfull as [Hocc Hbd].
  destruct (s_of_invol fwd text pat j Hj) as [_ Hs].
  split; [reflexivity|]. split; [assumption|]. split; [assumption|]. split; [|assumption].
  intros Hb. destruct (Hbd Hb) as (HL & HR & _). unfold boundary_at. rewrite Hocc, HL, HR. reflexivity.
Qed.

(* shared part of the two completeness theorems *)
Lemma exact_nomatch_no_full cs nm fwd boundary is_bytes text pat :
  (is_bytes = true -> Forall (fun c => 0 <= c < 128) text) ->
  (forall c, 0 <= c < 128 -> co_norm co c = c) ->
  0 <= s_bw sc -> 0 <= s_bd sc ->
  exact_match co sc cs nm fwd boundary is_bytes text pat = Ok NoMatch ->
  pat <> [] /\
  ((forall s, occurs_at co cs nm text pat s = false) \/
   (forall j, ~ full co sc cs nm fwd boundary text pat j)).
Proof.
  intros Hascii Hnorm Hbw Hbd H.
  assert (Hne : pat <> []) by (intros ->; cbn in H; discriminate).
  split; [assumption|].
  assert (Hm : (0 < length pat)%nat) by (destruct pat; [congruence|cbn; lia]).
  rewrite exact_match_unfold in H by assumption.
  destruct (Nat.ltb_spec (length text) (length pat)) as [Hlt|Hge].
  { left. intros s. apply occurs_at_short; [assumption|lia]. }
  destruct (ascii_fuzzy_index is_bytes text pat cs) as [[x|]|err] eqn:Hafi; cbn [bind] in H;
    [|left; apply (afi_none co cs nm is_bytes text pat); assumption|discriminate].
  destruct (exact_loop co sc (S (length text * S (length pat))) cs nm fwd boundary text pat st0)
    as [st'|err] eqn:Hst; cbn [bind] in H; [|discriminate].
  pose proof (loop_sound co sc cs nm fwd boundary text pat _ _ Hm Hst) as Hbest.
  assert (Hbon : forall i, 0 <= bonus_pure co sc text i) by (intros i; apply bonus_pure_nonneg; assumption).
  pose proof (loop_complete co sc cs nm fwd boundary text pat _ _ Hm Hbon Hst) as HQ.
  destruct (finish_spec co sc cs nm fwd boundary text pat st' Hne Hbest)
    as [[Hbp _]|(j & score' & _ & _ & Hf & _)]; [|rewrite Hf in H; discriminate].
  destruct HQ as [HQ|HQ]; [lia|]. right. assumption.
Qed.

Theorem exact_complete_proof : forall cs nm fwd is_bytes text pat,
  (is_bytes = true -> Forall (fun c => 0 <= c < 128) text) ->
  (forall c, 0 <= c < 128 -> co_norm co c = c) ->
  0 <= s_bw sc -> 0 <= s_bd sc ->
  exact_match co sc cs nm fwd false is_bytes text pat = Ok NoMatch ->
  substr_b co cs nm text pat = false.
Proof.
  intros cs nm fwd is_bytes text pat Hascii Hnorm Hbw Hbd H.
  destruct (exact_nomatch_no_full cs nm fwd false is_bytes text pat Hascii Hnorm Hbw Hbd H) as [Hne Hno].
  unfold substr_b. apply exists_upto_false. intros s _.
  destruct Hno as [Hno|Hno]; [apply Hno|].
  destruct (occurs_at co cs nm text pat s) eqn:Hocc; [exfalso|reflexivity].
  pose proof Hocc as Hsp. apply occurs_at_spec in Hsp as [Hs _]; [|assumption].
  destruct (s_of_invol fwd text pat s Hs) as [Hinv Hj].
  apply (Hno (s_of fwd text pat s)). apply full_iff; [assumption|assumption|].
  rewrite Hinv. split; [assumption|discriminate].
Qed.

Theorem exact_boundary_complete_proof : forall cs nm fwd is_bytes text pat,
  (is_bytes = true -> Forall (fun c => 0 <= c < 128) text) ->
  (forall c, 0 <= c < 128 -> co_norm co c = c) ->
  bonusBoundary <= s_bw sc -> bonusBoundary <= s_bd sc ->
  (forall c, 0 <= co_class co c) ->
  exact_match co sc cs nm fwd true is_bytes text pat = Ok NoMatch ->
  boundary_substr_b co sc cs nm text pat = false.
Proof.
  intros cs nm fwd is_bytes text pat Hascii Hnorm Hbw Hbd Hcl H.
  assert (Hbw0 : 0 <= s_bw sc) by (unfold bonusBoundary in Hbw; lia).
  assert (Hbd0 : 0 <= s_bd sc) by (unfold bonusBoundary in Hbd; lia).
  destruct (exact_nomatch_no_full cs nm fwd true is_bytes text pat Hascii Hnorm Hbw0 Hbd0 H) as [Hne Hno].
  unfold boundary_substr_b. apply exists_upto_false. intros s _.
  unfold boundary_at.
  destruct Hno as [Hno|Hno]; [rewrite Hno; reflexivity|].
  destruct (occurs_at co cs nm text pat s) eqn:Hocc; [|reflexivity].
  destruct (left_ok co sc text s) eqn:HL; [|reflexivity].
  destruct (right_ok co sc text (s + length pat)) eqn:HR; [exfalso|reflexivity].
  pose proof Hocc as Hsp. apply occurs_at_spec in Hsp as [Hs _]; [|assumption].
  assert (Hm : (0 < length pat)%nat) by (destruct pat; [congruence|cbn; lia]).
  destruct (s_of_invol fwd text pat s Hs) as [Hinv Hj].
  apply (Hno (s_of fwd text pat s)). apply full_iff; [assumption|assumption|].
  rewrite Hinv. split; [assumption|]. intros _. split; [assumption|]. split; [assumption|].
  apply bonus_ge8; try assumption. lia.
Qed.

End Final.

Print Assumptions exact_total_proof.
Print Assumptions exact_sound_proof.
Print Assumptions exact_complete_proof.
Print Assumptions exact_boundary_complete_proof.

(* ---------- non-vacuity ---------- *)

Definition ex_co_e := mkOps (fun c => c) (fun _ => cNonWord) (fun c => c) (fun _ => false).

(* the three shipped schemes and ex_co_e satisfy the side conditions of the completeness theorems *)
Example exact_hyps_satisfiable :
  Forall (fun sc => bonusBoundary <= s_bw sc /\ bonusBoundary <= s_bd sc)
         [scheme_default; scheme_path; scheme_history] /\
  (forall c, 0 <= co_class ex_co_e c) /\ (forall c, 0 <= c < 128 -> co_norm ex_co_e c = c).
Proof.
  split; [repeat constructor; cbn; unfold bonusBoundary; lia|].
  split; [intros c; cbn; unfold cNonWord; lia|reflexivity].
Qed.

(* "foo-Bar baz" / "bar": forward and backward, naive and boundary *)
Example exact_nonvacuous :
  let text := [102;111;111;45;66;97;114;32;98;97;122] in
  let pat := [98;97;114] in
  Forall (fun c => 0 <= c < 128) text /\
  exact_match ex_co_e scheme_default false true true false true text pat
    = Ok (Match 4 7 (align_score ex_co_e scheme_default text (seq 4 3)) None) /\
  exact_match ex_co_e scheme_default false true false false true text pat
    = Ok (Match 4 7 (align_score ex_co_e scheme_default text (seq 4 3)) None) /\
  (exists score, exact_match ex_co_e scheme_default false true true true true text pat
    = Ok (Match 4 7 score None)) /\
  (exists score, exact_match ex_co_e scheme_default false true false true true text pat
    = Ok (Match 4 7 score None)) /\
  boundary_at ex_co_e scheme_default false true text pat 4 = true /\
  (* NoMatch cases, so that the completeness theorems are not vacuous either *)
  exact_match ex_co_e scheme_default false true true false true text [98;97;120] = Ok NoMatch /\
  exact_match ex_co_e scheme_default false true true true true text [97;114] = Ok NoMatch /\
  substr_b ex_co_e false true text [97;114] = true.
Proof.
  cbv zeta. split; [repeat constructor; lia|].
  repeat split; try (vm_compute; reflexivity); eexists; vm_compute; reflexivity.
Qed.

(* the side conditions are needed (for arbitrary parameters, not for fzf's tables): *)
(* a scheme whose start-of-line bonus is below bonusBoundary rejects a genuine boundary occurrence *)
Example scheme_hyp_needed :
  let sc := mkScheme 7 9 [47] cWhite in
  exact_match ex_co_e sc false true true true true [97] [97] = Ok NoMatch /\
  boundary_substr_b ex_co_e sc false true [97] [97] = true.
Proof. split; vm_compute; reflexivity. Qed.

(* a negative scheme bonus makes even the naive search miss an occurrence (bestBonus starts at -1) *)
Example scheme_nonneg_hyp_needed :
  let sc := mkScheme (-5) 9 [47] cWhite in
  exact_match ex_co_e sc false true true false true [97] [97] = Ok NoMatch /\
  substr_b ex_co_e false true [97] [97] = true.
Proof. split; vm_compute; reflexivity. Qed.

(* a character-class function leaving 0..6 breaks "left boundary => bonus >= bonusBoundary" *)
Example class_hyp_needed :
  let co := mkOps (fun c => c) (fun _ => -1) (fun c => c) (fun _ => false) in
  exact_match co scheme_default false true true true false [200; 97] [97] = Ok NoMatch /\
  boundary_substr_b co scheme_default false true [200; 97] [97] = true.
Proof. split; vm_compute; reflexivity. Qed.
