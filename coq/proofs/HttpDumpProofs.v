(* C16, second part: what an answered GET asks for and is shown.
   - the parameters that reach the getHandler are those the request line of the stream asks for, and
     they are never negative (the request-line pattern lets no sign through; Atoi bounds them by 2^63-1);
   - under that condition the copy loops of Terminal.dumpStatus never index outside the list and show
     exactly the window [offset, offset+limit) of it;
   - the body of the answer is the state (or the parser's message) byte for byte. *)
From Fzf Require Import Prelude HttpSpec HttpModel HttpProofs.
Open Scope Z_scope.

(* ---------- characters of the query string ---------- *)
Lemma forallb_rev_append {A} (P : A -> bool) a : forall b,
  forallb P (rev_append a b) = forallb P a && forallb P b.
Proof.
  induction a as [|x a IH]; intro b; [reflexivity|].
  cbn [rev_append forallb]. rewrite IH. cbn [forallb].
  destruct (P x), (forallb P a), (forallb P b); reflexivity.
Qed.

Lemma split_on_aux_all P sep : forall s cur,
  forallb P cur = true -> forallb P s = true ->
  Forall (fun p => forallb P p = true) (split_on_aux sep cur s).
Proof.
  induction s as [|c s IH]; intros cur Hc Hs; cbn [split_on_aux].
  - constructor; [|constructor]. unfold frev. rewrite forallb_rev_append, Hc. reflexivity.
  - cbn [forallb] in Hs. apply andb_true_iff in Hs as [H1 H2].
    destruct (c =? sep).
    + constructor; [unfold frev; rewrite forallb_rev_append, Hc; reflexivity|].
      apply IH; [reflexivity|exact H2].
    + apply IH; [cbn [forallb]; now rewrite H1, Hc|exact H2].
Qed.

Lemma split_first_all P sep : forall s a b, split_first sep s = Some (a, b) ->
  forallb P s = true -> forallb P a = true /\ forallb P b = true.
Proof.
  induction s as [|c s IH]; intros a b H F; [discriminate|].
  cbn [split_first] in H. cbn [forallb] in F. apply andb_true_iff in F as [F1 F2].
  destruct (c =? sep).
  - inversion H; subst. split; [reflexivity|exact F2].
  - destruct (split_first sep s) as [[a' b']|] eqn:E; [|discriminate].
    inversion H; subst. destruct (IH a' b eq_refl F2) as [Ha Hb].
    split; [cbn [forallb]; now rewrite F1, Ha|exact Hb].
Qed.

Lemma take_while_all P : forall s, forallb P (take_while P s) = true.
Proof.
  induction s as [|c s IH]; [reflexivity|]. cbn [take_while].
  destruct (P c) eqn:E; [cbn [forallb]; now rewrite E, IH|reflexivity].
Qed.

Lemma take_while_split P : forall s, s = take_while P s ++ skipn (length (take_while P s)) s.
Proof.
  induction s as [|c s IH]; [reflexivity|]. cbn [take_while].
  destruct (P c); [cbn [length skipn app]; now rewrite <- IH|reflexivity].
Qed.

Lemma take_while_stop P : forall p c r, forallb P p = true -> P c = false ->
  take_while P (p ++ c :: r) = p.
Proof.
  induction p as [|x p IH]; intros c r F N; cbn [app take_while].
  - now rewrite N.
  - cbn [forallb] in F. apply andb_true_iff in F as [F1 F2]. rewrite F1. now rewrite IH.
Qed.

(* ---------- numbers made of query characters are not negative ---------- *)
Lemma digits_val_nonneg : forall s acc v, 0 <= acc -> digits_val s acc = Some v -> 0 <= v.
Proof.
  induction s as [|c s IH]; intros acc v A H; cbn [digits_val] in H.
  - inversion H; subst; exact A.
  - destruct (digit c) eqn:D; [|discriminate].
    unfold digit in D. apply andb_true_iff in D as [D1 D2]. apply Z.leb_le in D1.
    eapply IH; [|exact H]. lia.
Qed.

Lemma atoi_qchar v z : forallb qchar v = true -> atoi v = Some z -> 0 <= z <= INT_MAX.
Proof.
  intros F H. destruct v as [|c t]; [discriminate|].
  cbn [forallb] in F. apply andb_true_iff in F as [Fc _].
  unfold atoi in H.
  destruct ((c =? 43) || (c =? 45)) eqn:Sg.
  - exfalso. unfold qchar, digit in Fc.
    apply orb_true_iff in Sg as [E|E]; apply Z.eqb_eq in E; subst c; discriminate.
  - destruct (digits_val (c :: t) 0) as [w|] eqn:Dv; [|discriminate].
    pose proof (digits_val_nonneg _ _ _ (Z.le_refl 0) Dv) as Nn.
    destruct ((- INT_MAX - 1 <=? w) && (w <=? INT_MAX)) eqn:B; [|discriminate].
    inversion H; subst. apply andb_true_iff in B as [_ B2]. apply Z.leb_le in B2. lia.
Qed.

Definition params_ok (gp : Z * Z) : Prop :=
  0 <= fst gp <= INT_MAX /\ 0 <= snd gp <= INT_MAX.

Lemma get_params_fold l : forall acc,
  Forall (fun p => forallb qchar p = true) l -> params_ok acc ->
  params_ok (fold_left (fun (acc : Z * Z) (pair : str) =>
               match split_first 61 pair with
               | None => acc
               | Some (k, v) =>
                   if str_eqb k S_LIMIT then match atoi v with Some z => (z, snd acc) | None => acc end
                   else if str_eqb k S_OFFSET then match atoi v with Some z => (fst acc, z) | None => acc end
                   else acc
               end) l acc).
Proof.
  induction l as [|p l IH]; intros acc Fa Hacc; [exact Hacc|].
  inversion Fa as [|? ? Fp Fl]; subst. cbn [fold_left]. apply IH; [exact Fl|].
  destruct (split_first 61 p) as [[k v]|] eqn:E; [|exact Hacc].
  destruct (split_first_all qchar 61 p k v E Fp) as [_ Fv].
  destruct Hacc as [H1 H2].
  destruct (str_eqb k S_LIMIT).
  - destruct (atoi v) as [z|] eqn:A; [|split; assumption].
    split; [exact (atoi_qchar v z Fv A)|exact H2].
  - destruct (str_eqb k S_OFFSET); [|split; assumption].
    destruct (atoi v) as [z|] eqn:A; [|split; assumption].
    split; [exact H1|exact (atoi_qchar v z Fv A)].
Qed.

Lemma get_params_ok q : forallb qchar q = true -> params_ok (get_params q).
Proof.
  intro F. unfold get_params. apply get_params_fold.
  - unfold split_on. apply split_on_aux_all; [reflexivity|exact F].
  - unfold params_ok, INT_MAX. cbn. lia.
Qed.

(* ---------- the request line ---------- *)
Lemma prefixb_split p : forall s, prefixb p s = true -> exists r, s = p ++ r.
Proof.
  induction p as [|x p IH]; intros s H; [exists s; reflexivity|].
  destruct s as [|y s]; [discriminate|]. cbn [prefixb] in H.
  apply andb_true_iff in H as [H1 H2]. apply Z.eqb_eq in H1. subst y.
  destruct (IH s H2) as [r ->]. exists r. reflexivity.
Qed.

Lemma prefixb_app p : forall s x, prefixb p s = true -> prefixb p (s ++ x) = true.
Proof.
  induction p as [|c p IH]; intros s x H; [reflexivity|].
  destruct s as [|y s]; [discriminate|]. cbn [prefixb app] in *.
  apply andb_true_iff in H as [H1 H2]. rewrite H1, (IH _ _ H2). reflexivity.
Qed.

Lemma get_match_qchar t q : get_match t = Some q -> forallb qchar q = true.
Proof.
  unfold get_match. destruct (prefixb S_GET t); [|discriminate].
  destruct (prefixb S_HTTP (skipn 5 t)); [intro H; inversion H; reflexivity|].
  destruct (skipn 5 t) as [|c r]; [discriminate|].
  destruct (c =? 63); [|discriminate].
  destruct (nonemptyb (take_while qchar r) && _); [|discriminate].
  intro H; inversion H. apply take_while_all.
Qed.

(* the pattern is anchored at the start only: what follows " HTTP" does not matter *)
Lemma get_match_app t x q : get_match t = Some q -> get_match (t ++ x) = Some q.
Proof.
  unfold get_match. destruct (prefixb S_GET t) eqn:G; [|discriminate].
  rewrite (prefixb_app _ _ x G). destruct (prefixb_split _ _ G) as [r ->].
  rewrite <- app_assoc. change (skipn 5 (S_GET ++ r)) with r. change (skipn 5 (S_GET ++ r ++ x)) with (r ++ x).
  destruct (prefixb S_HTTP r) eqn:Hh.
  - rewrite (prefixb_app _ _ x Hh). auto.
  - destruct r as [|c r']; [discriminate|].
    destruct (c =? 63) eqn:Q; [|discriminate]. apply Z.eqb_eq in Q. subst c.
    change (prefixb S_HTTP ((63 :: r') ++ x)) with false. cbn [app]. rewrite Z.eqb_refl.
    destruct (nonemptyb (take_while qchar r')) eqn:Ne; [|discriminate]. cbn [andb].
    destruct (prefixb S_HTTP (skipn (length (take_while qchar r')) r')) eqn:P; [|discriminate].
    intro H; inversion H; subst q; clear H.
    destruct (prefixb_split _ _ P) as [w W].
    assert (E : r' = take_while qchar r' ++ 32 :: (tl S_HTTP ++ w)).
    { rewrite (take_while_split qchar r') at 1. rewrite W. reflexivity. }
    set (p := take_while qchar r') in *.
    assert (Tw : take_while qchar (r' ++ x) = p).
    { rewrite E, <- app_assoc. cbn [app]. apply take_while_stop; [apply take_while_all|reflexivity]. }
    rewrite Tw, Ne. cbn [andb].
    assert (Sk : skipn (length p) (r' ++ x) = skipn (length p) r' ++ x).
    { rewrite skipn_app. replace (length p - length r')%nat with O; [reflexivity|].
      assert (L : (length p <= length r')%nat).
      { rewrite E. rewrite app_length. lia. }
      lia. }
    rewrite Sk, (prefixb_app _ _ x P). reflexivity.
Qed.

(* ---------- the GET parameters through the scan loop ---------- *)
(* getRequest, once set, is the query of a token at the very start of the stream *)
Definition gq (W : str) (p : pstate) : Prop :=
  match p_get p with
  | Some q => get_match W = Some q
  | None => p_section p = O
  end.

Lemma process_gq W p t x : W = t ++ x -> p_section p = O ->
  match process p t with
  | PCont p' | PBreak p' => p_section p' <> O /\ (forall q, p_get p' = Some q -> get_match W = Some q)
  | PEarly _ => True
  end.
Proof.
  intros -> S0. unfold process. rewrite S0.
  destruct (get_match t) as [q|] eqn:G.
  - cbn. split; [discriminate|]. intros q' H; inversion H; subst. now apply get_match_app.
  - destruct (prefixb S_POST t); [|exact I]. cbn. split; [discriminate|]. intros q' H; discriminate.
Qed.

Lemma process_keep p t : p_section p <> O ->
  match process p t with
  | PCont p' | PBreak p' => p_section p' <> O /\ p_get p' = p_get p
  | PEarly _ => True
  end.
Proof.
  intro Hs. unfold process. destruct (p_section p) as [|[|n]] eqn:E; [congruence| |].
  - destruct (str_eqb t CRLF).
    + destruct (p_get p) eqn:G; [split; congruence|].
      destruct (h_clen (p_h p) =? 0); [exact I|]. cbn. split; [discriminate|congruence].
    + destruct (header_line (p_h p) t); [|exact I]. cbn. split; [discriminate|reflexivity].
  - cbn. split; [discriminate|reflexivity].
Qed.

(* after the first token: getRequest never changes *)
Lemma runs_keep S p r : runs S p r -> p_section p <> O ->
  match r with inl p' => p_get p' = p_get p | inr _ => True end.
Proof.
  induction 1 as [S p|S p t x _ _|S p l S' _ _|S p l S' p' r _ P _ IH]; intro Hs.
  - reflexivity.
  - unfold after. pose proof (process_keep p t Hs) as K. destruct (process p t); tauto.
  - unfold after. pose proof (process_keep p (l ++ CRLF) Hs) as K. destruct (process p (l ++ CRLF)); tauto.
  - pose proof (process_keep p (l ++ CRLF) Hs) as K. rewrite P in K. destruct K as [K1 K2].
    specialize (IH K1). destruct r; [congruence|exact I].
Qed.

Lemma runs_first S r : runs S p_init r ->
  match r with inl p' => forall q, p_get p' = Some q -> get_match S = Some q | inr _ => True end.
Proof.
  intro R. inversion R as [S0 p|S0 p t x E _|S0 p l S' C _|S0 p l S' p' r0 C P R']; subst.
  - intros q H; discriminate.
  - unfold after. pose proof (process_gq (t ++ x) p_init t x eq_refl eq_refl) as K.
    destruct (process p_init t); tauto.
  - apply cut_line_eq in C as [E _]. unfold after.
    pose proof (process_gq S p_init (l ++ CRLF) S' ltac:(rewrite E, <- app_assoc; reflexivity) eq_refl) as K.
    destruct (process p_init (l ++ CRLF)); tauto.
  - apply cut_line_eq in C as [E _].
    pose proof (process_gq S p_init (l ++ CRLF) S' ltac:(rewrite E, <- app_assoc; reflexivity) eq_refl) as K.
    rewrite P in K. destruct K as [K1 K2].
    pose proof (runs_keep _ _ _ R' K1) as Kp. destruct r; [|exact I].
    intros q H. apply K2. congruence.
Qed.

Lemma decide_get_inv key r q : decide key r = DGet q -> exists p, r = inl p /\ p_get p = Some q.
Proof.
  unfold decide. destruct r as [p|m]; [|discriminate].
  destruct (nonemptyb key && negb (str_eqb (h_key (p_h p)) key)); [discriminate|].
  destruct (p_get p) as [q'|] eqn:G.
  - intro H; inversion H; subst. eauto.
  - destruct (_ <? _); discriminate.
Qed.

Lemma handle_get key state parse ready chunks o gp :
  handle key state parse ready chunks = Ok o -> o_get o = Some gp ->
  exists q, get_match (concat chunks) = Some q /\ gp = get_params q.
Proof.
  intros H G. apply handle_inv in H as (r & Sc & ->).
  destruct (outcome_code key state parse ready r) as [(_ & _ & N)|[(q & D & Gq & _)|(b & _ & _ & N)]];
    try (rewrite N in G; discriminate).
  rewrite Gq in G. inversion G; subst gp. exists q. split; [|reflexivity].
  apply decide_get_inv in D as (p & -> & Pg).
  apply scan_all_runs in Sc. apply runs_first in Sc. now apply Sc.
Qed.

(* An answered GET: the getHandler is given exactly what the request line at the start of the stream asks
   for, and both numbers lie in 0 .. 2^63-1. *)
Theorem get_request_params_proof : forall key state parse ready chunks o gp,
  handle key state parse ready chunks = Ok o -> o_get o = Some gp ->
  spec_get_request (concat chunks) = Some gp /\
  0 <= fst gp <= INT_MAX /\ 0 <= snd gp <= INT_MAX.
Proof.
  intros key state parse ready chunks o gp H G.
  destruct (handle_get _ _ _ _ _ _ _ H G) as (q & M & ->).
  split; [unfold spec_get_request; rewrite M; reflexivity|].
  apply get_params_ok. eapply get_match_qchar; exact M.
Qed.

(* ---------- the copy loops of dumpStatus ---------- *)
Lemma get_skipn {A} : forall (l : list A) n x r, skipn n l = x :: r -> get l n = Ok x.
Proof.
  induction l as [|y l IH]; intros n x r H.
  - destruct n; discriminate.
  - destruct n as [|n]; cbn [skipn get] in *; [inversion H; reflexivity|eauto].
Qed.

Lemma skipn_next {A} : forall (l : list A) n x r, skipn n l = x :: r -> skipn (S n) l = r.
Proof.
  induction l as [|y l IH]; intros n x r H.
  - destruct n; discriminate.
  - destruct n as [|n]; [cbn in *; now inversion H|]. cbn [skipn] in H. change (skipn (S (S n)) (y :: l)) with (skipn (S n) l). eauto.
Qed.

Lemma dump_loop_window {A} (items : list A) (offset : Z) : 0 <= offset ->
  forall cnt i, (cnt <= length (skipn (Z.to_nat offset + i) items))%nat ->
  dump_loop items offset i cnt = Ok (firstn cnt (skipn (Z.to_nat offset + i) items)).
Proof.
  intro Ho. induction cnt as [|c IH]; intros i L; [reflexivity|].
  cbn [dump_loop]. unfold get_z.
  destruct (Z.of_nat i + offset <? 0) eqn:Neg; [apply Z.ltb_lt in Neg; lia|].
  replace (Z.to_nat (Z.of_nat i + offset)) with (Z.to_nat offset + i)%nat by lia.
  destruct (skipn (Z.to_nat offset + i) items) as [|x r] eqn:Sk; [cbn in L; lia|].
  rewrite (get_skipn _ _ _ _ Sk). cbn [bind].
  assert (Sk' : skipn (Z.to_nat offset + S i) items = r).
  { replace (Z.to_nat offset + S i)%nat with (S (Z.to_nat offset + i)) by lia.
    exact (skipn_next _ _ _ _ Sk). }
  rewrite IH by (rewrite Sk'; cbn in L; lia). cbn [bind firstn]. now rewrite Sk'.
Qed.

(* with an offset that is not negative, no access of the loops is out of range, whatever the list and
   the limit, and the result is the window of the list *)
Theorem dump_window_proof : forall (A : Type) (items : list A) limit offset,
  0 <= offset -> dump_items items limit offset = Ok (spec_window items limit offset).
Proof.
  intros A items limit offset Ho. unfold dump_items, spec_window, window_count.
  set (n := Z.of_nat (length items)).
  set (cnt := Z.to_nat (Z.max 0 (Z.min limit (n - offset)))).
  assert (L : length (skipn (Z.to_nat offset) items) = (length items - Z.to_nat offset)%nat) by apply skipn_length.
  assert (C : (cnt <= length (skipn (Z.to_nat offset + 0) items))%nat).
  { rewrite Nat.add_0_r, L. unfold cnt, n. lia. }
  rewrite (dump_loop_window items offset Ho cnt O C). rewrite Nat.add_0_r. f_equal.
  destruct (Z_le_gt_dec limit (n - offset)) as [Le|Gt].
  - f_equal. unfold cnt. lia.
  - (* the limit reaches past the end: both take everything that is left *)
    rewrite !firstn_all2; [reflexivity| |]; rewrite L; unfold cnt, n in *; lia.
Qed.

(* numbers beyond the length of the list select the same window as the length itself
   (used by the wire glue, so that the extracted code never builds a unary number of 2^63) *)
Lemma spec_window_clamp {A} (items : list A) limit offset :
  spec_window items limit offset =
  spec_window items (Z.min limit (Z.of_nat (length items))) (Z.min offset (Z.of_nat (length items))).
Proof.
  unfold spec_window. set (n := Z.of_nat (length items)).
  assert (Sk : skipn (Z.to_nat offset) items = skipn (Z.to_nat (Z.min offset n)) items).
  { destruct (Z_le_gt_dec offset n) as [Le|Gt]; [now rewrite Z.min_l|].
    rewrite Z.min_r by lia. rewrite !skipn_all2; [reflexivity| |]; unfold n in *; lia. }
  rewrite <- Sk.
  destruct (Z_le_gt_dec limit n) as [Le|Gt]; [now rewrite Z.min_l|].
  rewrite Z.min_r by lia.
  assert (L : (length (skipn (Z.to_nat offset) items) <= length items)%nat) by (rewrite skipn_length; lia).
  rewrite !firstn_all2; [reflexivity| |]; unfold n in *; lia.
Qed.

(* the hypothesis is needed: a negative offset makes the loop index in front of the list *)
Lemma dump_negative_offset_fails : dump_items [1; 2; 3] 100 (-1) = Err OutOfRange.
Proof. reflexivity. Qed.

(* ---------- the body of an answer is the message, byte for byte ---------- *)
Lemma response_body_answer code extra msg : known_code code -> extra = [] \/ extra = S_CTYPE ->
  response_body (answer code extra msg) = Some (msg ++ [10]).
Proof.
  intros Kc Ex. destruct (status_text_ok code Kc) as [N _].
  unfold answer. rewrite status_line_split, <- app_assoc. unfold response_body.
  rewrite cut_line_nocr by exact N.
  set (dec := print_dec (length msg + 1)).
  assert (R : resp_headers (length (extra ++ S_CLEN_HDR ++ dec ++ CRLF ++ CRLF ++ msg ++ [10]))
                (extra ++ S_CLEN_HDR ++ dec ++ CRLF ++ CRLF ++ msg ++ [10]) None = Some (Some dec, msg ++ [10])).
  { destruct Ex as [Ex|Ex]; subst extra.
    - eapply resp_headers_fuel; [apply resp_headers_clen, print_dec_nocr|].
      cbn [app]. rewrite app_length. cbn. lia.
    - eapply resp_headers_fuel; [apply resp_headers_ctype, print_dec_nocr|].
      rewrite app_length. cbn. lia. }
  rewrite R. reflexivity.
Qed.

(* an answered GET carries the state the getHandler returned (or the time-out object), unchanged *)
Theorem get_answer_verbatim_proof : forall key state parse ready chunks o,
  handle key state parse ready chunks = Ok o -> o_get o <> None ->
  (state <> [] -> o_code o = 200 /\ response_body (o_resp o) = Some (state ++ [10])) /\
  (state = [] -> o_code o = 503 /\ response_body (o_resp o) = Some (M_TIMEOUT_JSON ++ [10])).
Proof.
  intros key state parse ready chunks o H G. apply handle_inv in H as (r & _ & ->).
  destruct (decide key r) as [o|q|b] eqn:D; cbn [finish] in *.
  - apply decide_out_fields in D as (_ & N & _). congruence.
  - destruct state as [|c s]; cbn [nonemptyb o_code o_resp]; split; intro E; try congruence;
      (split; [reflexivity|apply response_body_answer; unfold known_code; auto]).
  - exfalso. apply G. destruct (parse b); [destruct ready|..]; reflexivity.
Qed.

(* a body the action parser refuses is answered 400 with the parser's message, unchanged *)
Theorem error_reflected_proof : forall key state parse ready chunks o b m,
  handle key state parse ready chunks = Ok o ->
  pending_body key chunks = Ok (Some b) -> parse b = VError m ->
  o_code o = 400 /\ o_actions o = None /\ response_body (o_resp o) = Some (m ++ [10]).
Proof.
  intros key state parse ready chunks o b m H P E. apply handle_inv in H as (r & Sc & ->).
  unfold pending_body in P. rewrite Sc in P. cbn [bind] in P.
  destruct (decide key r) as [o|q|b'] eqn:D; try discriminate.
  inversion P; subst b'. cbn [finish]. rewrite E. cbn [bad o_code o_actions o_resp].
  split; [reflexivity|split; [reflexivity|]]. apply response_body_answer; unfold known_code; auto.
Qed.
