(* Instantiating C01's interface [matchers_decide] from the C02 theorems about the exact family and the
   anchored matchers (ExactProofs, AnchoredProofs); V1 / V2 remain parameters until their proofs land. *)
From Fzf Require Import Prelude AlgoSpec AlgoModel QuerySpec PatternModel PatternProofs OccursBasics ExactProofs AnchoredProofs.
Open Scope Z_scope.

Section Inst.
Variable co : char_ops.
Variable sc : scheme.
Hypothesis Hnorm : forall c, 0 <= c < 128 -> co_norm co c = c.
Hypothesis Hidem : forall c, co_norm co (co_norm co c) = co_norm co c.
Hypothesis Hbw : bonusBoundary <= s_bw sc.
Hypothesis Hbd : bonusBoundary <= s_bd sc.
Hypothesis Hcl : forall c, 0 <= co_class co c.

Lemma occ_substr cs nm text pat s : pat <> [] -> occurs_at co cs nm text pat s = true -> substr_b co cs nm text pat = true.
Proof.
  intros Hne H. unfold substr_b. apply exists_upto_true. exists s. split; [|exact H].
  apply occurs_at_spec in H as [H _]; [lia|assumption].
Qed.

Lemma bnd_substr cs nm text pat s : pat <> [] -> boundary_at co sc cs nm text pat s = true -> boundary_substr_b co sc cs nm text pat = true.
Proof.
  intros Hne H. unfold boundary_substr_b. apply exists_upto_true. exists s. split; [|exact H].
  unfold boundary_at in H. apply andb_true_iff in H as [H _]. apply andb_true_iff in H as [H _].
  apply occurs_at_spec in H as [H _]; [lia|assumption].
Qed.

Lemma inst_exact : forall cs nm fwd isb text pat, pat <> [] -> text_ok isb text ->
  matcher_ok (exact_match co sc cs nm fwd false isb text pat) (substr_b co cs nm text pat).
Proof.
  intros cs nm fwd isb text pat Hne Hto. apply matcher_ok_intro.
  - apply exact_total_proof.
  - intros s e score pos H. destruct (exact_sound_proof co sc _ _ _ _ _ _ _ _ _ _ _ H Hne) as [_ [_ [Hocc _]]].
    eapply occ_substr; eassumption.
  - intro H. eapply exact_complete_proof; try eassumption; unfold bonusBoundary in *; lia.
Qed.

Lemma inst_boundary : forall cs nm fwd isb text pat, pat <> [] -> text_ok isb text ->
  matcher_ok (exact_match co sc cs nm fwd true isb text pat) (boundary_substr_b co sc cs nm text pat).
Proof.
  intros cs nm fwd isb text pat Hne Hto. apply matcher_ok_intro.
  - apply exact_total_proof.
  - intros s e score pos H. destruct (exact_sound_proof co sc _ _ _ _ _ _ _ _ _ _ _ H Hne) as [_ [_ [_ [Hb _]]]].
    eapply bnd_substr; [eassumption|]. now apply Hb.
  - intro H. eapply exact_boundary_complete_proof; eassumption.
Qed.

Lemma is_some_false {A} (o : option A) : o = None -> is_some o = false.
Proof. now intros ->. Qed.

Lemma inst_prefix : forall cs nm text pat, pat <> [] ->
  matcher_ok (prefix_match co sc cs nm text pat) (is_some (prefix_spec co cs nm text pat)).
Proof.
  intros cs nm text pat Hne. apply matcher_ok_intro.
  - apply prefix_total_proof.
  - intros s e score pos H. destruct (prefix_sound_complete_proof co sc _ _ _ _ _ Hne H) as [-> _]. reflexivity.
  - intro H. apply is_some_false. exact (prefix_sound_complete_proof co sc _ _ _ _ _ Hne H).
Qed.

Lemma inst_suffix : forall cs nm text pat, pat <> [] ->
  matcher_ok (suffix_match co sc cs nm text pat) (is_some (suffix_spec co cs nm text pat)).
Proof.
  intros cs nm text pat Hne. apply matcher_ok_intro.
  - apply suffix_total_proof.
  - intros s e score pos H. destruct (suffix_sound_complete_proof co sc _ _ _ _ _ Hne H) as [-> _]. reflexivity.
  - intro H. apply is_some_false. exact (suffix_sound_complete_proof co sc _ _ _ _ _ Hne H).
Qed.

Lemma inst_equal : forall cs nm text pat, pat <> [] -> norm_fixed co nm pat ->
  matcher_ok (equal_match co sc cs nm text pat) (is_some (equal_spec co cs nm text pat)).
Proof.
  intros cs nm text pat Hne Hnf. apply matcher_ok_intro.
  - apply equal_total_proof.
  - intros s e score pos H. destruct (equal_sound_complete_proof co sc _ _ _ _ _ Hne Hnf H) as [-> _]. reflexivity.
  - intro H. apply is_some_false. exact (equal_sound_complete_proof co sc _ _ _ _ _ Hne Hnf H).
Qed.

(* C01's interface, from the exact/anchored theorems plus the two fuzzy matchers' facts *)
Theorem matchers_decide_inst :
  (forall cs nm fwd isb text pat wp, pat <> [] -> text_ok isb text ->
     matcher_ok (fuzzy_v1 co sc cs nm fwd isb text pat wp) (subseq_b co cs nm text pat)) ->
  (forall cs nm fwd isb text pat wp cap, pat <> [] -> text_ok isb text ->
     matcher_ok (fuzzy_v2 co sc cs nm fwd isb text pat wp cap) (subseq_b co cs nm text pat)) ->
  matchers_decide co sc.
Proof.
  intros Hv1 Hv2. constructor; auto using inst_exact, inst_boundary, inst_prefix, inst_suffix, inst_equal.
Qed.

End Inst.
Print Assumptions matchers_decide_inst.
