(* Theorems about MergerModel: sliceChunks partitions its input, the lazily merged list is the global sort
   whatever the probe order, PassMerger/unsorted Get return input order (reversed under tac), and filter mode
   prints exactly the spec's result list for every number of partitions. *)
From Coq Require Import Permutation Sorted.
From Fzf Require Import Prelude RankSpec RankModel MergerModel RankProofs.
Open Scope Z_scope.

(* ---- checked access vs nth_error ---- *)
Lemma get_nth_error {A} (l : list A) n x : get l n = Ok x <-> nth_error l n = Some x.
Proof.
  revert n; induction l as [|y t IH]; intros [|n]; cbn; try (split; discriminate).
  - split; intro H; inversion H; reflexivity.
  - apply IH.
Qed.

Lemma get_err {A} (l : list A) n : (length l <= n)%nat -> get l n = Err OutOfRange.
Proof. revert n; induction l as [|y t IH]; intros [|n] H; cbn in *; try reflexivity; try lia. apply IH. lia. Qed.

Lemma get_lt {A} (l : list A) n : (n < length l)%nat -> exists x, get l n = Ok x.
Proof.
  revert n; induction l as [|y t IH]; intros [|n] H; cbn in *; try lia.
  - now exists y.
  - apply IH. lia.
Qed.

Lemma getz_ok {A} (l : list A) i x : getz l i = Ok x <-> 0 <= i /\ nth_error l (Z.to_nat i) = Some x.
Proof.
  unfold getz. destruct (Z.ltb_spec i 0).
  - split; [discriminate|]. intros [? _]. lia.
  - rewrite get_nth_error. split; [intro; split; [lia|assumption]|now intros [_ ?]].
Qed.

Lemma getz_of_nat {A} (l : list A) n : getz l (Z.of_nat n) = get l n.
Proof. unfold getz. destruct (Z.ltb_spec (Z.of_nat n) 0); [lia|]. now rewrite Nat2Z.id. Qed.

Lemma zlength_nat {A} (l : list A) : zlength l = Z.of_nat (length l).
Proof. reflexivity. Qed.

Lemma get_app1 {A} (l r : list A) n : (n < length l)%nat -> get (l ++ r) n = get l n.
Proof.
  revert n; induction l as [|y t IH]; intros [|n] H; cbn in *; try lia; try reflexivity. apply IH. lia.
Qed.

Lemma get_app2 {A} (l r : list A) n : (length l <= n)%nat -> get (l ++ r) n = get r (n - length l).
Proof.
  revert n; induction l as [|y t IH]; intros n H; cbn in *.
  - now rewrite Nat.sub_0_r.
  - destruct n as [|n]; [lia|]. cbn. apply IH. lia.
Qed.

Lemma get_nth_default {A} (l : list A) n d : (n < length l)%nat -> get l n = Ok (nth n l d).
Proof. revert n; induction l as [|y t IH]; intros [|n] H; cbn in *; try lia; try reflexivity. apply IH. lia. Qed.

Lemma get_rev {A} (l : list A) n : (n < length l)%nat -> get (rev l) n = get l (length l - 1 - n).
Proof.
  intro H. destruct l as [|d t] eqn:El; [cbn in H; lia|]. rewrite <- El in *.
  rewrite (get_nth_default (rev l) n d) by (rewrite rev_length; lia).
  rewrite (get_nth_default l (length l - 1 - n) d) by lia.
  rewrite rev_nth by lia. f_equal. f_equal. lia.
Qed.

Lemma skipn_get {A} (l : list A) c x : get l c = Ok x -> skipn c l = x :: skipn (S c) l.
Proof.
  revert c; induction l as [|y t IH]; intros [|c] H; cbn in *; try discriminate.
  - now inversion H.
  - now apply IH.
Qed.

Lemma skipn_plus {A} (l : list A) a b : skipn (a + b) l = skipn b (skipn a l).
Proof. revert l; induction a as [|a IH]; intros [|x t]; cbn; try reflexivity; [now rewrite skipn_nil|apply IH]. Qed.

Lemma sum_lengths_concat {A} (ls : list (list A)) : sum_lengths ls = zlength (concat ls).
Proof.
  induction ls as [|l r IH]; cbn; [reflexivity|]. rewrite IH. unfold zlength. rewrite app_length. lia.
Qed.

(* ------------------------------------------------------------------------------------------- *)
(* Matcher.sliceChunks                                                                           *)
(* ------------------------------------------------------------------------------------------- *)
Lemma slices_from_concat {C} (chunks : list C) : forall fuel i parts per,
  Z.of_nat fuel = parts - i -> (1 <= fuel)%nat -> 0 <= i -> 0 <= per -> (parts - 1) * per <= zlength chunks ->
  exists ss, slices_from chunks fuel i parts per = Ok ss /\ length ss = fuel /\
             concat ss = skipn (Z.to_nat (i * per)) chunks.
Proof.
  induction fuel as [|f IH]; intros i parts per Hf H1 Hi Hper Hn; [lia|].
  cbn [slices_from]. destruct (Z.eqb_spec i (parts - 1)) as [E|E].
  - (* last slice *)
    assert (f = O) by lia. subst f. unfold slicez.
    assert (Hs : 0 <= i * per <= zlength chunks) by (subst i; nia).
    replace ((0 <=? i * per) && (i * per <=? zlength chunks) && (zlength chunks <=? zlength chunks)) with true
      by (symmetry; rewrite !andb_true_iff, !Z.leb_le; lia).
    cbn. eexists. split; [reflexivity|]. split; [reflexivity|]. cbn. rewrite app_nil_r.
    apply firstn_all2. rewrite skipn_length. unfold zlength in *. lia.
  - assert (Hs : 0 <= i * per /\ i * per + per <= zlength chunks) by nia.
    unfold slicez at 1.
    replace ((0 <=? i * per) && (i * per <=? i * per + per) && (i * per + per <=? zlength chunks)) with true
      by (symmetry; rewrite !andb_true_iff, !Z.leb_le; lia).
    destruct (IH (i + 1) parts per) as (ss & Hss & Hl & Hc); try lia.
    rewrite Hss. cbn. eexists. split; [reflexivity|]. split; [cbn; lia|]. cbn. rewrite Hc.
    replace (i * per + per - i * per) with per by lia.
    replace (Z.to_nat ((i + 1) * per)) with (Z.to_nat (i * per) + Z.to_nat per)%nat by nia.
    rewrite skipn_plus. apply firstn_skipn.
Qed.

Theorem slice_chunks_partition_proof {C} : forall (k : Z) (chunks : list C), 1 <= k ->
  exists ss, slice_chunks k chunks = Ok ss /\ concat ss = chunks /\ zlength ss <= k.
Proof.
  intros k chunks Hk. unfold slice_chunks.
  destruct (Z.leb_spec k 0); [lia|].
  set (n := zlength chunks). assert (Hn : 0 <= n) by (unfold n, zlength; lia).
  pose proof (Z.quot_pos n k Hn ltac:(lia)) as Hq.
  pose proof (Z.mul_quot_le n k Hn ltac:(lia)) as Hm.
  destruct (Z.eqb_spec (Z.quot n k) 0) as [E|E].
  - (* fewer chunks than partitions: one chunk per slice *)
    assert (n < k) by (apply Z.quot_small_iff in E; lia).
    destruct (Z.eq_dec n 0) as [Z0|NZ].
    + rewrite Z0. cbn. exists []. destruct chunks; [cbn; split; [reflexivity|split; [reflexivity|lia]]|unfold n, zlength in Z0; cbn in Z0; lia].
    + destruct (slices_from_concat chunks (Z.to_nat n) 0 n 1) as (ss & Hss & Hl & Hc); try lia.
      exists ss. split; [exact Hss|]. split; [rewrite Hc; reflexivity|]. unfold zlength. lia.
  - destruct (slices_from_concat chunks (Z.to_nat k) 0 k (Z.quot n k)) as (ss & Hss & Hl & Hc); try lia.
    exists ss. split; [exact Hss|]. split; [rewrite Hc; reflexivity|]. unfold zlength. lia.
Qed.

(* ------------------------------------------------------------------------------------------- *)
(* the merger                                                                                    *)
(* ------------------------------------------------------------------------------------------- *)
Section MergerProofs.
Variable I A : Type.
Variable mk : I -> A.
Variable less : A -> A -> bool.
Variable chunk_size : Z.
Variable ltb : A -> A -> bool.
Hypothesis ST : strict_total ltb.
Hypothesis LS : less_sound ltb less.

Notation lew := (le ltb).
Notation sorted := (StronglySorted (le ltb)).
Notation sort := (isort ltb).

(* --- state of a sorted merger --- *)
Definition cursor_ok (l : list A) (c : Z) : Prop := c = -1 \/ 0 <= c <= zlength l.
Definition rem (l : list A) (c : Z) : list A := if c <? 0 then [] else skipn (Z.to_nat c) l.
Fixpoint rems (ls : list (list A)) (cs : list Z) : list (list A) :=
  match ls, cs with
  | l :: ls', c :: cs' => rem l c :: rems ls' cs'
  | _, _ => []
  end.

Lemma sorted_skipn n (l : list A) : sorted l -> sorted (skipn n l).
Proof.
  revert l; induction n as [|n IH]; intros l S; [exact S|].
  destruct l as [|x t]; [exact S|]. cbn. apply IH. now apply StronglySorted_inv in S.
Qed.

Lemma rem_sorted l c : sorted l -> sorted (rem l c).
Proof. intro S. unfold rem. destruct (c <? 0); [constructor|now apply sorted_skipn]. Qed.

Lemma Forall_le_head x t : sorted (x :: t) -> Forall (lew x) (x :: t).
Proof. intro S. apply StronglySorted_inv in S as [_ F]. constructor; [apply le_refl, ST|exact F]. Qed.

(* one pass over the lists: see MergerModel.scan_heads *)
Lemma scan_heads_spec : forall ls cs k mi mr,
  Forall2 cursor_ok ls cs -> Forall sorted ls ->
  match mr with Some _ => 0 <= mi | None => mi = -1 end -> 0 <= k -> mi < k ->
  exists cs' mi' mr',
    scan_heads A less ls cs k mi mr = Ok (cs', mi', mr') /\
    Forall2 cursor_ok ls cs' /\ rems ls cs' = rems ls cs /\
    ((mi' = mi /\ mr' = mr) \/
     (exists i l c m', mi' = k + Z.of_nat i /\ nth_error ls i = Some l /\ nth_error cs' i = Some c /\
                       0 <= c /\ getz l c = Ok m' /\ mr' = Some m')) /\
    (forall m, mr = Some m -> exists m', mr' = Some m' /\ lew m' m) /\
    (forall m', mr' = Some m' -> Forall (Forall (lew m')) (rems ls cs)) /\
    (mr' = None -> mr = None /\ Forall (fun r => r = []) (rems ls cs)).
Proof.
  destruct LS as [L1 L2].
  induction ls as [|l ls IH]; intros cs k mi mr F2 FS Hmr Hk Hmi.
  - inversion F2; subst. cbn. exists [], mi, mr. split; [reflexivity|]. split; [constructor|]. split; [reflexivity|].
    split; [now left|]. split; [intros m ->; exists m; split; [reflexivity|apply le_refl, ST]|].
    split; [intros; constructor|]. intros ->. split; [reflexivity|constructor].
  - inversion F2 as [|? c ? cs0 Hc F2']; subst. inversion FS as [|? ? Sl FS']; subst.
    cbn [scan_heads rems].
    destruct ((c <? 0) || (c =? zlength l)) eqn:Eend.
    + (* exhausted list *)
      assert (Hrem : rem l c = []).
      { unfold rem. apply orb_true_iff in Eend as [E|E].
        - now rewrite E.
        - apply Z.eqb_eq in E. destruct (c <? 0); [reflexivity|]. apply skipn_all2. unfold zlength in E. lia. }
      destruct (IH cs0 (k + 1) mi mr F2' FS' Hmr ltac:(lia) ltac:(lia))
        as (cs' & mi' & mr' & Hscan & Hok & Hrems & Hwin & Hle & Hmin & Hnone).
      rewrite Hscan. cbn. exists (-1 :: cs'), mi', mr'. split; [reflexivity|].
      split; [constructor; [now left|exact Hok]|].
      split; [cbn [rems]; rewrite Hrems, Hrem; reflexivity|].
      split.
      { destruct Hwin as [Hw|(i & l' & c' & m' & Hi & Hl & Hc' & Hc0 & Hg & Hm)]; [now left|right].
        exists (S i), l', c', m'. repeat split; auto. lia. }
      split; [exact Hle|]. rewrite Hrem.
      split; [intros m' Hm'; constructor; [constructor|now apply Hmin]|].
      intros Hn. destruct (Hnone Hn) as [-> Hall]. split; [reflexivity|constructor; [reflexivity|exact Hall]].
    + (* a head *)
      apply orb_false_iff in Eend as [E1 E2]. apply Z.ltb_ge in E1. apply Z.eqb_neq in E2.
      assert (Hc' : 0 <= c < zlength l) by (destruct Hc as [->|Hc]; lia).
      destruct (get_lt l (Z.to_nat c)) as [rank Hrank]; [unfold zlength in Hc'; lia|].
      assert (Hgz : getz l c = Ok rank) by (unfold getz; destruct (Z.ltb_spec c 0); [lia|exact Hrank]).
      rewrite Hgz. cbn [bind].
      assert (Hrem : rem l c = rank :: skipn (S (Z.to_nat c)) l).
      { unfold rem. destruct (Z.ltb_spec c 0); [lia|]. now apply skipn_get. }
      assert (Hsr : sorted (rank :: skipn (S (Z.to_nat c)) l)) by (rewrite <- Hrem; now apply rem_sorted).
      pose proof (Forall_le_head _ _ Hsr) as Hhead.
      set (take := if mi <? 0 then true else match mr with Some m => less rank m | None => true end).
      destruct take eqn:Etake.
      * (* rank becomes the candidate *)
        destruct (IH cs0 (k + 1) k (Some rank) F2' FS' Hk ltac:(lia) ltac:(lia))
          as (cs' & mi' & mr' & Hscan & Hok & Hrems & Hwin & Hle & Hmin & Hnone).
        rewrite Hscan. cbn. exists (c :: cs'), mi', mr'. split; [reflexivity|].
        split; [constructor; [right; lia|exact Hok]|].
        split; [cbn [rems]; now rewrite Hrems|].
        destruct (Hle rank eq_refl) as (m' & Hm' & Hm'rank).
        split.
        { right. destruct Hwin as [[-> ->]|(i & l' & c' & m'' & Hi & Hl & Hcc & Hc0 & Hg & Hm)].
          - exists O, l, c, rank. repeat split; auto; try lia.
          - exists (S i), l', c', m''. repeat split; auto. lia. }
        split.
        { intros m ->. exists m'. split; [exact Hm'|]. apply le_trans with rank; [exact ST|exact Hm'rank|].
          unfold take in Etake. destruct (Z.ltb_spec mi 0); [lia|]. now apply L1. }
        split.
        { intros m'' Hm''. rewrite Hm' in Hm''. inversion Hm''; subst m''. rewrite Hrem.
          constructor; [|now apply Hmin]. eapply Forall_le_trans; [exact ST|exact Hm'rank|exact Hhead]. }
        intros Hn. rewrite Hn in Hm'. discriminate.
      * (* the old candidate stays *)
        unfold take in Etake. destruct (Z.ltb_spec mi 0); [discriminate|].
        destruct mr as [m|]; [|discriminate].
        destruct (IH cs0 (k + 1) mi (Some m) F2' FS' Hmr ltac:(lia) ltac:(lia))
          as (cs' & mi' & mr' & Hscan & Hok & Hrems & Hwin & Hle & Hmin & Hnone).
        rewrite Hscan. cbn. exists (c :: cs'), mi', mr'. split; [reflexivity|].
        split; [constructor; [right; lia|exact Hok]|].
        split; [cbn [rems]; now rewrite Hrems|].
        destruct (Hle m eq_refl) as (m' & Hm' & Hm'm).
        split.
        { destruct Hwin as [Hw|(i & l' & c' & m'' & Hi & Hl & Hcc & Hc0 & Hg & Hm)]; [now left|right].
          exists (S i), l', c', m''. repeat split; auto. lia. }
        split; [exact Hle|].
        split.
        { intros m'' Hm''. rewrite Hm' in Hm''. inversion Hm''; subst m''. rewrite Hrem.
          constructor; [|now apply Hmin]. eapply Forall_le_trans; [exact ST| |exact Hhead].
          apply le_trans with m; [exact ST|exact Hm'm|now apply L2]. }
        intros Hn. rewrite Hn in Hm'. discriminate.
Qed.

(* advancing the winning cursor removes exactly the winner from the remainders *)
Lemma advance_rems : forall i ls cs l c m,
  Forall2 cursor_ok ls cs -> nth_error ls i = Some l -> nth_error cs i = Some c -> 0 <= c -> getz l c = Ok m ->
  exists cs2, setz cs (Z.of_nat i) (c + 1) = Ok cs2 /\ Forall2 cursor_ok ls cs2 /\
              Permutation (concat (rems ls cs)) (m :: concat (rems ls cs2)).
Proof.
  induction i as [|i IH]; intros ls cs l c m F2 Hl Hc Hc0 Hg.
  - destruct ls as [|l0 ls]; [discriminate|]. destruct cs as [|c0 cs]; [discriminate|].
    cbn in Hl, Hc. inversion Hl; inversion Hc; subst. inversion F2; subst.
    apply getz_ok in Hg as [_ Hg]. apply get_nth_error in Hg.
    assert (Hlen : (Z.to_nat c < length l)%nat) by (apply nth_error_Some; apply get_nth_error in Hg; congruence).
    exists (c + 1 :: cs). split; [reflexivity|]. split.
    + constructor; [right; unfold zlength; lia|assumption].
    + cbn [rems concat]. unfold rem. destruct (Z.ltb_spec c 0); [lia|]. destruct (Z.ltb_spec (c + 1) 0); [lia|].
      rewrite (skipn_get _ _ _ Hg). replace (Z.to_nat (c + 1)) with (S (Z.to_nat c)) by lia. reflexivity.
  - destruct ls as [|l0 ls]; [discriminate|]. destruct cs as [|c0 cs]; [discriminate|].
    cbn in Hl, Hc. inversion F2; subst.
    destruct (IH ls cs l c m) as (cs2 & Hset & Hok & Hperm); auto.
    exists (c0 :: cs2). split.
    + unfold setz in *. destruct (Z.ltb_spec (Z.of_nat (S i)) 0); [lia|].
      destruct (Z.ltb_spec (Z.of_nat i) 0); [lia|]. rewrite Nat2Z.id in *. cbn. now rewrite Hset.
    + split; [constructor; assumption|]. cbn [rems concat]. rewrite Hperm. apply Permutation_sym, Permutation_middle.
Qed.

(* invariant of a sorted merger: what has been merged, followed by the sorted remainder, is the global sort *)
Definition minv (lists : list (list A)) (merged : list A) (cursors : list Z) : Prop :=
  Forall2 cursor_ok lists cursors /\ Forall sorted lists /\
  merged ++ sort (concat (rems lists cursors)) = sort (concat lists).

Lemma sort_min m R R' : Forall (lew m) R -> Permutation R (m :: R') -> sort R = m :: sort R'.
Proof.
  intros Hmin P. symmetry. apply isort_unique; [exact ST| |].
  - constructor; [apply isort_sorted, ST|].
    eapply Permutation_Forall; [apply Permutation_sym, isort_perm|].
    assert (F : Forall (lew m) (m :: R')) by (eapply Permutation_Forall; [exact P|exact Hmin]).
    now inversion F.
  - rewrite isort_perm. now apply Permutation_sym.
Qed.

Lemma concat_all_nil (rs : list (list A)) : Forall (fun r => r = []) rs -> concat rs = [].
Proof. induction 1; cbn; [reflexivity|subst; assumption]. Qed.

Lemma extend_spec : forall fuel lists merged cursors,
  minv lists merged cursors -> (fuel <= length (concat (rems lists cursors)))%nat ->
  exists merged' cursors', extend A less fuel lists merged cursors = Ok (merged', cursors') /\
    minv lists merged' cursors' /\ length merged' = (length merged + fuel)%nat.
Proof.
  induction fuel as [|f IH]; intros lists merged cursors (F2 & FS & Hg) Hfuel.
  - exists merged, cursors. cbn. split; [reflexivity|]. split; [now split|lia].
  - cbn [extend].
    destruct (scan_heads_spec lists cursors 0 (-1) None F2 FS eq_refl ltac:(lia) ltac:(lia))
      as (cs1 & mi & mr & Hscan & Hok1 & Hrems1 & Hwin & _ & Hmin & Hnone).
    rewrite Hscan. cbn [bind].
    destruct Hwin as [[-> ->]|(i & l & c & m & Hi & Hl & Hc & Hc0 & Hgz & Hm)].
    + (* nothing left: impossible, fuel <= remaining *)
      destruct (Hnone eq_refl) as [_ Hall]. rewrite (concat_all_nil _ Hall) in Hfuel. cbn in Hfuel. lia.
    + subst mi mr. destruct (Z.geb_spec (0 + Z.of_nat i) 0); [|lia]. cbn [Z.add].
      replace (0 + Z.of_nat i) with (Z.of_nat i) by lia.
      rewrite getz_of_nat. apply get_nth_error in Hl. rewrite Hl. cbn [bind].
      rewrite getz_of_nat. pose proof Hc as Hc'. apply get_nth_error in Hc'. rewrite Hc'. cbn [bind].
      rewrite Hgz. cbn [bind].
      apply get_nth_error in Hl.
      destruct (advance_rems i lists cs1 l c m Hok1 Hl Hc Hc0 Hgz) as (cs2 & Hset & Hok2 & Hperm).
      rewrite Hset. cbn [bind].
      assert (Hmin' : Forall (lew m) (concat (rems lists cursors))).
      { specialize (Hmin m eq_refl). apply Forall_concat. exact Hmin. }
      rewrite Hrems1 in Hperm.
      destruct (IH lists (merged ++ [m]) cs2) as (merged' & cursors' & Hext & Hinv & Hlen).
      * split; [exact Hok2|]. split; [exact FS|]. rewrite <- Hg, <- app_assoc. cbn. f_equal.
        symmetry. now apply sort_min.
      * apply Permutation_length in Hperm. cbn in Hperm. lia.
      * exists merged', cursors'. split; [exact Hext|]. split; [exact Hinv|]. rewrite Hlen, app_length. cbn. lia.
Qed.

Lemma minv_lengths lists merged cursors : minv lists merged cursors ->
  (length merged + length (concat (rems lists cursors)) = length (concat lists))%nat.
Proof.
  intros (_ & _ & Hg). apply (f_equal (@length A)) in Hg. rewrite app_length in Hg.
  rewrite (Permutation_length (isort_perm ltb (concat (rems lists cursors)))) in Hg.
  rewrite (Permutation_length (isort_perm ltb (concat lists))) in Hg. exact Hg.
Qed.

Lemma minv_prefix lists merged cursors n : minv lists merged cursors -> (n < length merged)%nat ->
  get merged n = get (sort (concat lists)) n.
Proof. intros (_ & _ & Hg) Hn. rewrite <- Hg. now rewrite get_app1. Qed.

Definition sorted_merger_ok (mg : merger I A) : Prop :=
  mg_chunks _ _ mg = None /\ mg_sorted _ _ mg = true /\
  mg_count _ _ mg = zlength (concat (mg_lists _ _ mg)) /\
  minv (mg_lists _ _ mg) (mg_merged _ _ mg) (mg_cursors _ _ mg).

(* one probe at ANY index in range: the answer is the idx-th element of the global sort, and the invariant
   (hence the same guarantee for every later probe) is kept *)
Lemma merged_get_spec mg idx : sorted_merger_ok mg -> 0 <= idx < mg_count _ _ mg ->
  exists x mg', merger_get I A mk less chunk_size mg idx = Ok (x, mg') /\
    get (sort (concat (mg_lists _ _ mg))) (Z.to_nat idx) = Ok x /\
    sorted_merger_ok mg' /\ mg_lists _ _ mg' = mg_lists _ _ mg /\ mg_count _ _ mg' = mg_count _ _ mg.
Proof.
  intros (Hch & Hso & Hcnt & Hinv) Hidx. unfold merger_get. rewrite Hch, Hso. unfold merged_get.
  pose proof (minv_lengths _ _ _ Hinv) as Hlens.
  destruct (extend_spec (Z.to_nat (idx + 1 - zlength (mg_merged _ _ mg))) _ _ _ Hinv) as (merged' & cursors' & Hext & Hinv' & Hlen).
  { rewrite Hcnt in Hidx. unfold zlength in *. lia. }
  rewrite Hext. cbn [bind].
  assert (Hn : (Z.to_nat idx < length merged')%nat) by (unfold zlength in *; lia).
  destruct (get_lt merged' (Z.to_nat idx) Hn) as [x Hx].
  assert (Hgz : getz merged' idx = Ok x) by (unfold getz; destruct (Z.ltb_spec idx 0); [lia|exact Hx]).
  rewrite Hgz. cbn [bind]. eexists x, _. split; [reflexivity|].
  split; [rewrite <- (minv_prefix _ _ _ _ Hinv' Hn); exact Hx|].
  split; [|split; reflexivity]. repeat split; cbn; auto. apply Hinv'. apply Hinv'. apply Hinv'.
Qed.

Lemma new_merger_ok lists tac : Forall sorted lists -> sorted_merger_ok (new_merger I A lists true tac).
Proof.
  intro FS. unfold sorted_merger_ok, new_merger. cbn. split; [reflexivity|]. split; [reflexivity|].
  split; [apply sum_lengths_concat|]. split; [|split; [exact FS|]].
  - clear FS. induction lists as [|l r IH]; cbn; constructor; [right; unfold zlength; lia|exact IH].
  - cbn. f_equal. f_equal. clear FS. induction lists as [|l r IH]; cbn; [reflexivity|]. now rewrite IH.
Qed.

(* ---- unsorted NewMerger and PassMerger: stateless ---- *)
Lemma unsorted_get_spec : forall lists idx, 0 <= idx < zlength (concat lists) ->
  unsorted_get A lists idx = get (concat lists) (Z.to_nat idx).
Proof.
  induction lists as [|l r IH]; intros idx Hidx; cbn in *.
  - unfold zlength in Hidx. cbn in Hidx. lia.
  - unfold zlength in *. rewrite app_length in Hidx. destruct (Z.ltb_spec idx (Z.of_nat (length l))).
    + unfold getz. destruct (Z.ltb_spec idx 0); [lia|]. rewrite get_app1 by lia. reflexivity.
    + rewrite IH by lia. rewrite get_app2 by lia. f_equal. lia.
Qed.

(* chunk-list shape (invariant of ChunkList/Snapshot, C06): every chunk non-empty and at most chunk_size long,
   every chunk that is neither the first nor the last is full *)
Fixpoint tail_wf (rest : list (list I)) : Prop :=
  match rest with
  | [] => True
  | [l] => 0 < zlength l <= chunk_size
  | c :: r => zlength c = chunk_size /\ tail_wf r
  end.
Definition chunks_wf (chunks : list (list I)) : Prop :=
  match chunks with
  | [] => True
  | f :: rest => 0 < zlength f <= chunk_size /\ tail_wf rest
  end.

Lemma tail_get : forall rest idx, 0 < chunk_size -> tail_wf rest -> 0 <= idx < zlength (concat rest) ->
  exists chunk, getz rest (Z.quot idx chunk_size) = Ok chunk /\
                getz chunk (Z.rem idx chunk_size) = get (concat rest) (Z.to_nat idx).
Proof.
  intros rest idx Hcs. revert idx. induction rest as [|c r IH]; intros idx Hwf Hidx.
  - unfold zlength in Hidx. cbn in Hidx. lia.
  - assert (Hc : 0 < zlength c <= chunk_size) by (destruct r; cbn in Hwf; lia).
    cbn [concat] in *. unfold zlength in Hidx, Hc. rewrite app_length in Hidx.
    rewrite Z.quot_div_nonneg, Z.rem_mod_nonneg by lia.
    destruct (Z.ltb_spec idx (Z.of_nat (length c))).
    + exists c. rewrite Z.div_small, Z.mod_small by lia. split; [reflexivity|].
      unfold getz. destruct (Z.ltb_spec idx 0); [lia|]. now rewrite get_app1 by lia.
    + destruct r as [|c' r']; [cbn in Hidx; lia|]. destruct Hwf as [Hfull Hwf]. unfold zlength in Hfull.
      destruct (IH (idx - chunk_size) Hwf) as (chunk & Hch & Hit).
      { unfold zlength. lia. }
      rewrite Z.quot_div_nonneg, Z.rem_mod_nonneg in * by lia.
      exists chunk.
      replace idx with ((idx - chunk_size) + 1 * chunk_size) at 1 2 by lia.
      rewrite Z.div_add, Z_mod_plus_full by lia.
      split.
      * unfold getz in *. destruct (Z.ltb_spec ((idx - chunk_size) / chunk_size) 0); [discriminate|].
        destruct (Z.ltb_spec ((idx - chunk_size) / chunk_size + 1) 0); [lia|].
        replace (Z.to_nat ((idx - chunk_size) / chunk_size + 1)) with (S (Z.to_nat ((idx - chunk_size) / chunk_size))) by lia.
        exact Hch.
      * rewrite Hit. rewrite get_app2 by lia. f_equal. lia.
Qed.

Definition pass_body (chunks : list (list I)) (idx : Z) (mg : merger I A) : res (A * merger I A) :=
  do first <- getz chunks 0;
  if (zlength first <? chunk_size) && (idx >=? zlength first) then
    let idx := idx - zlength first in
    do chunk <- getz chunks (Z.quot idx chunk_size + 1);
    do it <- getz chunk (Z.rem idx chunk_size);
    Ok (mk it, mg)
  else
    do chunk <- getz chunks (Z.quot idx chunk_size);
    do it <- getz chunk (Z.rem idx chunk_size);
    Ok (mk it, mg).

Lemma merger_get_pass (mg : merger I A) chunks idx : mg_chunks _ _ mg = Some chunks ->
  merger_get I A mk less chunk_size mg idx
  = pass_body chunks (if mg_tac _ _ mg then mg_count _ _ mg - idx - 1 else idx) mg.
Proof. intro H. unfold merger_get. rewrite H. reflexivity. Qed.

Lemma getz_cons_succ {X} (x : X) (l : list X) q : 0 <= q -> getz (x :: l) (q + 1) = getz l q.
Proof.
  intro H. unfold getz. destruct (Z.ltb_spec (q + 1) 0); [lia|]. destruct (Z.ltb_spec q 0); [lia|].
  replace (Z.to_nat (q + 1)) with (S (Z.to_nat q)) by lia. reflexivity.
Qed.

Lemma pass_get_inner chunks idx (mg : merger I A) :
  0 < chunk_size -> chunks_wf chunks -> 0 <= idx < zlength (concat chunks) ->
  exists x, pass_body chunks idx mg = Ok (mk x, mg) /\ get (concat chunks) (Z.to_nat idx) = Ok x.
Proof.
  intros Hcs Hwf Hidx. unfold pass_body. destruct chunks as [|f rest].
  - unfold zlength in Hidx. cbn in Hidx. lia.
  - destruct Hwf as [Hf Hwf]. change (getz (f :: rest) 0) with (Ok f). cbn [bind].
    cbn [concat] in *. unfold zlength in Hidx. rewrite app_length in Hidx.
    destruct (Z.ltb_spec (zlength f) chunk_size) as [Hlt|Hge].
    + destruct (Z.geb_spec idx (zlength f)) as [Hin|Hin]; cbn [andb]; unfold zlength in Hf, Hlt, Hin.
      * destruct (tail_get rest (idx - zlength f) Hcs Hwf) as (chunk & Hch & Hit).
        { unfold zlength. lia. }
        assert (Hq : 0 <= Z.quot (idx - zlength f) chunk_size) by (apply Z.quot_pos; unfold zlength; lia).
        rewrite getz_cons_succ by exact Hq. rewrite Hch. cbn [bind].
        rewrite get_app2 by lia.
        replace (Z.to_nat idx - length f)%nat with (Z.to_nat (idx - zlength f)) by (unfold zlength; lia).
        rewrite <- Hit. destruct (getz chunk _) as [x|e] eqn:Ex.
        { exists x. split; reflexivity. }
        exfalso. destruct (get_lt (concat rest) (Z.to_nat (idx - zlength f))) as [y Hy]; [unfold zlength; lia|]. congruence.
      * rewrite Z.quot_small, Z.rem_small by lia. change (getz (f :: rest) 0) with (Ok f). cbn [bind].
        unfold getz. destruct (Z.ltb_spec idx 0); [lia|]. rewrite get_app1 by lia.
        destruct (get_lt f (Z.to_nat idx)) as [x Hx]; [lia|]. rewrite Hx. exists x. split; reflexivity.
    + cbn [andb]. unfold zlength in Hf, Hge.
      (* the first chunk is full: the whole list is "full chunks then a last one" *)
      assert (Hwf' : tail_wf (f :: rest)).
      { destruct rest; cbn; unfold zlength; [lia|split; [lia|exact Hwf]]. }
      destruct (tail_get (f :: rest) idx Hcs Hwf') as (chunk & Hch & Hit).
      { cbn [concat]. unfold zlength. rewrite app_length. lia. }
      rewrite Hch. cbn [bind]. cbn [concat] in Hit. rewrite <- Hit.
      destruct (getz chunk _) as [x|e] eqn:Ex.
      { exists x. split; reflexivity. }
      exfalso. destruct (get_lt (f ++ concat rest) (Z.to_nat idx)) as [y Hy]; [rewrite app_length; lia|]. congruence.
Qed.

(* ---- probes in any order, and the sequential read of filter mode, from a per-probe guarantee ---- *)
Definition get_correct (P : merger I A -> Prop) (G : list A) : Prop :=
  forall mg idx, P mg -> 0 <= idx < zlength G ->
    exists x mg', merger_get I A mk less chunk_size mg idx = Ok (x, mg') /\ get G (Z.to_nat idx) = Ok x /\ P mg'.

Lemma probes_spec P G : get_correct P G -> forall idxs mg, P mg -> Forall (fun i => 0 <= i < zlength G) idxs ->
  exists xs, probes I A mk less chunk_size mg idxs = Ok xs /\ Forall2 (fun i x => get G (Z.to_nat i) = Ok x) idxs xs.
Proof.
  intros GC. induction idxs as [|i r IH]; intros mg HP F.
  - exists []. split; [reflexivity|constructor].
  - inversion F as [|? ? Hi F']; subst. destruct (GC mg i HP Hi) as (x & mg' & Hget & Hx & HP').
    destruct (IH mg' HP' F') as (xs & Hxs & F2).
    exists (x :: xs). cbn [probes]. rewrite Hget. cbn [bind snd fst]. rewrite Hxs. cbn. split; [reflexivity|now constructor].
Qed.

Lemma read_from_spec P G : get_correct P G -> forall fuel mg i, P mg -> 0 <= i -> i + Z.of_nat fuel <= zlength G ->
  read_from I A mk less chunk_size fuel mg i = Ok (firstn fuel (skipn (Z.to_nat i) G)).
Proof.
  intros GC. induction fuel as [|f IH]; intros mg i HP Hi Hf; [reflexivity|].
  destruct (GC mg i HP ltac:(lia)) as (x & mg' & Hget & Hx & HP').
  cbn [read_from]. rewrite Hget. cbn [bind snd fst]. rewrite (IH mg' (i + 1) HP') by lia. cbn [bind].
  rewrite (skipn_get _ _ _ Hx). cbn [firstn]. replace (Z.to_nat (i + 1)) with (S (Z.to_nat i)) by lia. reflexivity.
Qed.

Lemma read_all_spec P G mg : get_correct P G -> P mg -> merger_length _ _ mg = zlength G ->
  read_all I A mk less chunk_size mg = Ok G.
Proof.
  intros GC HP Hl. unfold read_all. rewrite (read_from_spec P G GC) by (try assumption; try lia; unfold zlength in *; lia).
  cbn [skipn Z.to_nat]. rewrite Hl. unfold zlength. rewrite Nat2Z.id. now rewrite firstn_all.
Qed.

(* the three kinds of merger *)
Lemma zlength_sort l : zlength (sort l) = zlength l.
Proof. unfold zlength. now rewrite (Permutation_length (isort_perm ltb l)). Qed.

Lemma sorted_get_correct lists :
  get_correct (fun mg => sorted_merger_ok mg /\ mg_lists _ _ mg = lists) (sort (concat lists)).
Proof.
  intros mg idx [Hok Hl] Hidx. rewrite zlength_sort in Hidx.
  destruct (merged_get_spec mg idx Hok) as (x & mg' & Hget & Hx & Hok' & Hl' & _).
  { destruct Hok as (_ & _ & Hc & _). rewrite Hc, Hl. exact Hidx. }
  exists x, mg'. rewrite Hl in Hx. split; [exact Hget|]. split; [exact Hx|]. split; [exact Hok'|congruence].
Qed.

Lemma input_order_get {X} tac (l : list X) idx : 0 <= idx < zlength l ->
  get (input_order tac l) (Z.to_nat idx) = get l (Z.to_nat (if tac then zlength l - idx - 1 else idx)).
Proof.
  intro H. unfold input_order. destruct tac; [|reflexivity]. unfold zlength in *.
  rewrite get_rev by lia. f_equal. lia.
Qed.

Lemma zlength_input_order {X} tac (l : list X) : zlength (input_order tac l) = zlength l.
Proof. unfold input_order, zlength. destruct tac; [now rewrite rev_length|reflexivity]. Qed.

Lemma unsorted_get_correct lists tac :
  get_correct (fun mg => mg = new_merger I A lists false tac) (input_order tac (concat lists)).
Proof.
  intros mg idx -> Hidx. rewrite zlength_input_order in Hidx.
  unfold merger_get, new_merger. cbn [mg_chunks mg_sorted mg_tac mg_count mg_lists].
  rewrite sum_lengths_concat. rewrite unsorted_get_spec by (destruct tac; lia).
  rewrite input_order_get by exact Hidx.
  destruct (get_lt (concat lists) (Z.to_nat (if tac then zlength (concat lists) - idx - 1 else idx))) as [x Hx].
  { unfold zlength in *. destruct tac; lia. }
  rewrite Hx. cbn [bind]. exists x, (new_merger I A lists false tac).
  repeat split; auto; unfold new_merger; now rewrite sum_lengths_concat.
Qed.

Lemma get_map {X Y} (f : X -> Y) (l : list X) n x : get l n = Ok x -> get (map f l) n = Ok (f x).
Proof. revert n; induction l as [|y t IH]; intros [|n] H; cbn in *; try discriminate; [now inversion H|now apply IH]. Qed.

Lemma pass_get_correct_lemma chunks tac : 0 < chunk_size -> chunks_wf chunks ->
  get_correct (fun mg => mg = pass_merger I A chunks tac) (input_order tac (map mk (concat chunks))).
Proof.
  intros Hcs Hwf mg idx -> Hidx. rewrite zlength_input_order in Hidx.
  assert (Hlen : zlength (map mk (concat chunks)) = zlength (concat chunks)) by (unfold zlength; now rewrite map_length).
  rewrite (merger_get_pass _ chunks) by reflexivity. cbn [pass_merger mg_tac mg_count].
  rewrite sum_lengths_concat. rewrite input_order_get by exact Hidx. rewrite Hlen in *.
  destruct (pass_get_inner chunks (if tac then zlength (concat chunks) - idx - 1 else idx) (pass_merger I A chunks tac) Hcs Hwf)
    as (x & Hbody & Hx).
  { destruct tac; lia. }
  exists (mk x), (pass_merger I A chunks tac). split; [exact Hbody|]. split; [now apply get_map|reflexivity].
Qed.

(* ---- Matcher.scan and filter mode ---- *)
Variable mt : I -> option A.

Lemma match_chunk_app a b : match_chunk I A mt (a ++ b) = match_chunk I A mt a ++ match_chunk I A mt b.
Proof. induction a as [|x t IH]; cbn; [reflexivity|]. destruct (mt x); cbn; now rewrite IH. Qed.

Lemma match_chunk_concat chunks : concat (map (match_chunk I A mt) chunks) = match_chunk I A mt (concat chunks).
Proof. induction chunks as [|c r IH]; cbn; [reflexivity|]. now rewrite match_chunk_app, IH. Qed.

Lemma concat_map_concat {X Y} (f : X -> list Y) (ss : list (list X)) :
  concat (map (fun sl => concat (map f sl)) ss) = concat (map f (concat ss)).
Proof. induction ss as [|s r IH]; cbn; [reflexivity|]. now rewrite map_app, concat_app, IH. Qed.

(* what filter mode must print *)
Definition expected_output (tac sorted pat_empty : bool) (chunks : list (list I)) : list A :=
  if pat_empty then input_order tac (map mk (concat chunks))
  else let ms := match_chunk I A mt (concat chunks) in
       if sorted then sort ms else input_order tac ms.

Theorem filter_output_correct_proof : forall k m_sort tac pat_empty pat_sortable chunks,
  1 <= k -> 0 < chunk_size -> chunks_wf chunks ->
  filter_output I A mk less chunk_size mt k m_sort tac pat_empty pat_sortable chunks
  = Ok (expected_output tac (m_sort && pat_sortable) pat_empty chunks).
Proof.
  intros k m_sort tac pe ps chunks Hk Hcs Hwf. unfold filter_output, scan, expected_output.
  destruct chunks as [|c0 cr] eqn:Ech.
  - cbn. destruct pe; [destruct tac; reflexivity|]. destruct (m_sort && ps); [reflexivity|destruct tac; reflexivity].
  - rewrite <- Ech in *. clear Ech c0 cr. destruct pe.
    + cbn [bind]. apply (read_all_spec _ _ _ (pass_get_correct_lemma chunks tac Hcs Hwf) eq_refl).
      unfold merger_length, pass_merger. cbn. rewrite sum_lengths_concat, zlength_input_order.
      unfold zlength. now rewrite map_length.
    + destruct (slice_chunks_partition_proof k chunks Hk) as (ss & Hss & Hcat & _).
      rewrite Hss. cbn [bind].
      set (g := fun sl : list (list I) => concat (map (match_chunk I A mt) sl)).
      assert (Hms : concat (map g ss) = match_chunk I A mt (concat chunks)).
      { unfold g. rewrite concat_map_concat, Hcat. apply match_chunk_concat. }
      destruct (m_sort && ps).
      * set (partial := map (fun sl => sort_results less (g sl)) ss).
        assert (FS : Forall sorted partial).
        { apply Forall_forall. intros l Hl. apply in_map_iff in Hl as (sl & <- & _).
          now apply sort_results_sorted. }
        assert (HP : Permutation (concat partial) (match_chunk I A mt (concat chunks))).
        { rewrite <- Hms. unfold partial. clear. induction ss as [|s r IH]; cbn; [reflexivity|].
          apply Permutation_app; [now apply sort_results_perm|exact IH]. }
        rewrite <- (isort_perm_eq ltb ST _ _ HP).
        apply (read_all_spec _ _ _ (sorted_get_correct partial)).
        { split; [now apply new_merger_ok|reflexivity]. }
        unfold merger_length, new_merger. cbn. now rewrite sum_lengths_concat, zlength_sort.
      * rewrite <- Hms.
        apply (read_all_spec _ _ _ (unsorted_get_correct (map g ss) tac) eq_refl).
        unfold merger_length, new_merger. cbn. now rewrite sum_lengths_concat, zlength_input_order.
Qed.

End MergerProofs.

(* ------------------------------------------------------------------------------------------- *)
(* packaged statements (generic)                                                                *)
(* ------------------------------------------------------------------------------------------- *)
Section Packaged.
Variable I A : Type.
Variable mk : I -> A.
Variable less : A -> A -> bool.
Variable chunk_size : Z.
Variable ltb : A -> A -> bool.
Hypothesis ST : strict_total ltb.
Hypothesis LS : less_sound ltb less.

Definition in_range (n : Z) (idxs : list Z) : Prop := Forall (fun i => 0 <= i < n) idxs.
Definition answers_are (G : list A) (idxs : list Z) (xs : list A) : Prop :=
  Forall2 (fun i x => get G (Z.to_nat i) = Ok x) idxs xs.

Theorem merge_is_global_sort_proof : forall (lists : list (list A)) tac (idxs : list Z),
  Forall (StronglySorted (le ltb)) lists -> in_range (zlength (concat lists)) idxs ->
  exists xs, probes I A mk less chunk_size (new_merger I A lists true tac) idxs = Ok xs /\
             answers_are (isort ltb (concat lists)) idxs xs.
Proof.
  intros lists tac idxs FS Hr.
  apply (probes_spec I A mk less chunk_size _ _ (sorted_get_correct I A mk less chunk_size ltb ST LS lists)).
  - split; [now apply new_merger_ok|reflexivity].
  - unfold in_range in Hr. now rewrite (zlength_sort _ ltb).
Qed.

Theorem pass_get_correct_proof : forall (chunks : list (list I)) tac (idxs : list Z),
  0 < chunk_size -> chunks_wf I chunk_size chunks -> in_range (zlength (concat chunks)) idxs ->
  exists xs, probes I A mk less chunk_size (pass_merger I A chunks tac) idxs = Ok xs /\
             answers_are (input_order tac (map mk (concat chunks))) idxs xs.
Proof.
  intros chunks tac idxs Hcs Hwf Hr.
  apply (probes_spec I A mk less chunk_size _ _ (pass_get_correct_lemma I A mk less chunk_size chunks tac Hcs Hwf) idxs _ eq_refl).
  unfold in_range in Hr. rewrite zlength_input_order. unfold zlength in *. now rewrite map_length.
Qed.

Theorem unsorted_get_correct_proof : forall (lists : list (list A)) tac (idxs : list Z),
  in_range (zlength (concat lists)) idxs ->
  exists xs, probes I A mk less chunk_size (new_merger I A lists false tac) idxs = Ok xs /\
             answers_are (input_order tac (concat lists)) idxs xs.
Proof.
  intros lists tac idxs Hr.
  apply (probes_spec I A mk less chunk_size _ _ (unsorted_get_correct I A mk less chunk_size lists tac) idxs _ eq_refl).
  unfold in_range in Hr. now rewrite zlength_input_order.
Qed.

End Packaged.

(* ------------------------------------------------------------------------------------------- *)
(* instantiated with the model's results and compareRanks                                        *)
(* ------------------------------------------------------------------------------------------- *)
Section Concrete.
Variable I : Type.
Variable mk : I -> result.
Variable mt : I -> option result.
Variable chunk_size : Z.

Definition cless (tac : bool) : result -> result -> bool := fun a b => compare_ranks a b tac.
Definition rsorted (tac : bool) : list result -> Prop := StronglySorted (le (res_ltb tac)).

Lemma map_input_order {X Y} (f : X -> Y) tac l : map f (input_order tac l) = input_order tac (map f l).
Proof. unfold input_order. destruct tac; [apply map_rev|reflexivity]. Qed.

Lemma view_sort tac l : map view (isort (res_ltb tac) l) = ranked tac (map view l).
Proof. unfold ranked, res_ltb. apply isort_map. Qed.

(* what the property says must be printed, in the spec's vocabulary *)
Definition spec_output (m_sort tac pat_empty pat_sortable : bool) (chunks : list (list I)) : list ritem :=
  if pat_empty then input_order tac (map view (map mk (concat chunks)))
  else result_order (m_sort && pat_sortable) tac (map view (match_chunk I result mt (concat chunks))).

Theorem filter_output_ranked_proof : forall k m_sort tac pat_empty pat_sortable chunks,
  1 <= k -> 0 < chunk_size -> chunks_wf I chunk_size chunks ->
  exists out, filter_output I result mk (cless tac) chunk_size mt k m_sort tac pat_empty pat_sortable chunks = Ok out /\
              map view out = spec_output m_sort tac pat_empty pat_sortable chunks.
Proof.
  intros k m_sort tac pe ps chunks Hk Hcs Hwf.
  rewrite (filter_output_correct_proof I result mk (cless tac) chunk_size (res_ltb tac)
             (res_ltb_strict_total tac) (compare_ranks_less_sound tac) mt k m_sort tac pe ps chunks Hk Hcs Hwf).
  eexists. split; [reflexivity|]. unfold expected_output, spec_output, result_order.
  destruct pe; [apply map_input_order|]. destruct (m_sort && ps); [apply view_sort|apply map_input_order].
Qed.

Theorem result_is_perm_of_matches_proof : forall k m_sort tac pat_empty pat_sortable chunks,
  1 <= k -> 0 < chunk_size -> chunks_wf I chunk_size chunks ->
  exists out, filter_output I result mk (cless tac) chunk_size mt k m_sort tac pat_empty pat_sortable chunks = Ok out /\
              Permutation out (if pat_empty then map mk (concat chunks) else match_chunk I result mt (concat chunks)).
Proof.
  intros k m_sort tac pe ps chunks Hk Hcs Hwf.
  rewrite (filter_output_correct_proof I result mk (cless tac) chunk_size (res_ltb tac)
             (res_ltb_strict_total tac) (compare_ranks_less_sound tac) mt k m_sort tac pe ps chunks Hk Hcs Hwf).
  eexists. split; [reflexivity|]. unfold expected_output, input_order.
  destruct pe; [destruct tac; [apply Permutation_sym, Permutation_rev|reflexivity]|].
  destruct (m_sort && ps); [apply isort_perm|destruct tac; [apply Permutation_sym, Permutation_rev|reflexivity]].
Qed.

Theorem unsorted_when_proof : forall k m_sort tac pat_empty pat_sortable chunks,
  1 <= k -> 0 < chunk_size -> chunks_wf I chunk_size chunks ->
  m_sort = false \/ pat_sortable = false \/ pat_empty = true ->
  filter_output I result mk (cless tac) chunk_size mt k m_sort tac pat_empty pat_sortable chunks
  = Ok (input_order tac (if pat_empty then map mk (concat chunks) else match_chunk I result mt (concat chunks))).
Proof.
  intros k m_sort tac pe ps chunks Hk Hcs Hwf H.
  rewrite (filter_output_correct_proof I result mk (cless tac) chunk_size (res_ltb tac)
             (res_ltb_strict_total tac) (compare_ranks_less_sound tac) mt k m_sort tac pe ps chunks Hk Hcs Hwf).
  unfold expected_output. destruct pe; [reflexivity|].
  destruct H as [->|[->|H]]; [reflexivity|now rewrite andb_false_r|discriminate].
Qed.

Theorem order_independent_of_partitions_proof : forall k k' m_sort tac pat_empty pat_sortable chunks,
  1 <= k -> 1 <= k' -> 0 < chunk_size -> chunks_wf I chunk_size chunks ->
  filter_output I result mk (cless tac) chunk_size mt k m_sort tac pat_empty pat_sortable chunks
  = filter_output I result mk (cless tac) chunk_size mt k' m_sort tac pat_empty pat_sortable chunks.
Proof.
  intros k k' m_sort tac pe ps chunks Hk Hk' Hcs Hwf.
  rewrite !(filter_output_correct_proof I result mk (cless tac) chunk_size (res_ltb tac)
             (res_ltb_strict_total tac) (compare_ranks_less_sound tac) mt) by assumption. reflexivity.
Qed.

(* the lazily merged list, concretely: any probe sequence reads the spec's ranked list *)
Theorem merge_is_ranked_proof : forall (lists : list (list result)) tac (idxs : list Z),
  Forall (rsorted tac) lists -> in_range (zlength (concat lists)) idxs ->
  exists xs, probes I result mk (cless tac) chunk_size (new_merger I result lists true tac) idxs = Ok xs /\
             Forall2 (fun i x => get (ranked tac (map view (concat lists))) (Z.to_nat i) = Ok (view x)) idxs xs.
Proof.
  intros lists tac idxs FS Hr.
  destruct (merge_is_global_sort_proof I result mk (cless tac) chunk_size (res_ltb tac)
              (res_ltb_strict_total tac) (compare_ranks_less_sound tac) lists tac idxs FS Hr) as (xs & Hp & Ha).
  exists xs. split; [exact Hp|]. unfold answers_are in Ha.
  clear Hp Hr. induction Ha as [|i x is xs' Hx Ha' IH]; [constructor|]. constructor; [|exact IH].
  rewrite <- view_sort. now apply get_map.
Qed.

End Concrete.
