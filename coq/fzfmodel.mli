
val implb : bool -> bool -> bool

val xorb : bool -> bool -> bool

val negb : bool -> bool

type nat =
| O
| S of nat

val option_map : ('a1 -> 'a2) -> 'a1 option -> 'a2 option

type ('a, 'b) sum =
| Inl of 'a
| Inr of 'b

val fst : ('a1 * 'a2) -> 'a1

val snd : ('a1 * 'a2) -> 'a2

val length : 'a1 list -> nat

val app : 'a1 list -> 'a1 list -> 'a1 list

type comparison =
| Eq
| Lt
| Gt

val compOpp : comparison -> comparison

type uint =
| Nil
| D0 of uint
| D1 of uint
| D2 of uint
| D3 of uint
| D4 of uint
| D5 of uint
| D6 of uint
| D7 of uint
| D8 of uint
| D9 of uint

val revapp : uint -> uint -> uint

val rev : uint -> uint

module Little :
 sig
  val succ : uint -> uint
 end

val add : nat -> nat -> nat

val mul : nat -> nat -> nat

val sub : nat -> nat -> nat

val eqb : bool -> bool -> bool

module Nat :
 sig
  val pred : nat -> nat

  val sub : nat -> nat -> nat

  val eqb : nat -> nat -> bool

  val leb : nat -> nat -> bool

  val ltb : nat -> nat -> bool

  val max : nat -> nat -> nat

  val min : nat -> nat -> nat

  val to_little_uint : nat -> uint -> uint

  val to_uint : nat -> uint

  val divmod : nat -> nat -> nat -> nat -> nat * nat

  val div : nat -> nat -> nat

  val modulo : nat -> nat -> nat
 end

val tl : 'a1 list -> 'a1 list

val nth : nat -> 'a1 list -> 'a1 -> 'a1

val nth_error : 'a1 list -> nat -> 'a1 option

val last : 'a1 list -> 'a1 -> 'a1

val removelast : 'a1 list -> 'a1 list

val rev0 : 'a1 list -> 'a1 list

val rev_append : 'a1 list -> 'a1 list -> 'a1 list

val concat : 'a1 list list -> 'a1 list

val map : ('a1 -> 'a2) -> 'a1 list -> 'a2 list

val flat_map : ('a1 -> 'a2 list) -> 'a1 list -> 'a2 list

val fold_left : ('a1 -> 'a2 -> 'a1) -> 'a2 list -> 'a1 -> 'a1

val fold_right : ('a2 -> 'a1 -> 'a1) -> 'a1 -> 'a2 list -> 'a1

val existsb : ('a1 -> bool) -> 'a1 list -> bool

val forallb : ('a1 -> bool) -> 'a1 list -> bool

val filter : ('a1 -> bool) -> 'a1 list -> 'a1 list

val combine : 'a1 list -> 'a2 list -> ('a1 * 'a2) list

val firstn : nat -> 'a1 list -> 'a1 list

val skipn : nat -> 'a1 list -> 'a1 list

val seq : nat -> nat -> nat list

val repeat : 'a1 -> nat -> 'a1 list

type positive =
| XI of positive
| XO of positive
| XH

type n =
| N0
| Npos of positive

type z =
| Z0
| Zpos of positive
| Zneg of positive

module Pos :
 sig
  type mask =
  | IsNul
  | IsPos of positive
  | IsNeg
 end

module Coq_Pos :
 sig
  val succ : positive -> positive

  val add : positive -> positive -> positive

  val add_carry : positive -> positive -> positive

  val pred_double : positive -> positive

  val pred_N : positive -> n

  type mask = Pos.mask =
  | IsNul
  | IsPos of positive
  | IsNeg

  val succ_double_mask : mask -> mask

  val double_mask : mask -> mask

  val double_pred_mask : positive -> mask

  val sub_mask : positive -> positive -> mask

  val sub_mask_carry : positive -> positive -> mask

  val mul : positive -> positive -> positive

  val iter : ('a1 -> 'a1) -> 'a1 -> positive -> 'a1

  val div2 : positive -> positive

  val div2_up : positive -> positive

  val size_nat : positive -> nat

  val size : positive -> positive

  val compare_cont : comparison -> positive -> positive -> comparison

  val compare : positive -> positive -> comparison

  val eqb : positive -> positive -> bool

  val coq_Nsucc_double : n -> n

  val coq_Ndouble : n -> n

  val coq_lor : positive -> positive -> positive

  val coq_land : positive -> positive -> n

  val ldiff : positive -> positive -> n

  val testbit : positive -> n -> bool

  val iter_op : ('a1 -> 'a1 -> 'a1) -> positive -> 'a1 -> 'a1

  val to_nat : positive -> nat

  val of_succ_nat : nat -> positive
 end

module N :
 sig
  val succ_double : n -> n

  val double : n -> n

  val succ_pos : n -> positive

  val sub : n -> n -> n

  val compare : n -> n -> comparison

  val leb : n -> n -> bool

  val pos_div_eucl : positive -> n -> n * n

  val coq_lor : n -> n -> n

  val coq_land : n -> n -> n

  val ldiff : n -> n -> n

  val testbit : n -> n -> bool
 end

module Z :
 sig
  val double : z -> z

  val succ_double : z -> z

  val pred_double : z -> z

  val pos_sub : positive -> positive -> z

  val add : z -> z -> z

  val opp : z -> z

  val sub : z -> z -> z

  val mul : z -> z -> z

  val compare : z -> z -> comparison

  val leb : z -> z -> bool

  val ltb : z -> z -> bool

  val geb : z -> z -> bool

  val gtb : z -> z -> bool

  val eqb : z -> z -> bool

  val max : z -> z -> z

  val min : z -> z -> z

  val to_nat : z -> nat

  val of_nat : nat -> z

  val of_N : n -> z

  val pos_div_eucl : positive -> z -> z * z

  val div_eucl : z -> z -> z * z

  val div : z -> z -> z

  val modulo : z -> z -> z

  val quotrem : z -> z -> z * z

  val quot : z -> z -> z

  val rem : z -> z -> z

  val odd : z -> bool

  val div2 : z -> z

  val log2 : z -> z

  val testbit : z -> z -> bool

  val shiftl : z -> z -> z

  val shiftr : z -> z -> z

  val coq_lor : z -> z -> z

  val coq_land : z -> z -> z

  val ldiff : z -> z -> z
 end

type err =
| OutOfRange
| OutOfFuel
| BadInput
| Panic

type 'a res =
| Ok of 'a
| Err of err

val bind : 'a1 res -> ('a1 -> 'a2 res) -> 'a2 res

val is_ok : 'a1 res -> bool

val get : 'a1 list -> nat -> 'a1 res

val set_nth : 'a1 list -> nat -> 'a1 -> 'a1 list res

type str = z list

val str_eqb : str -> str -> bool

val last_n : nat -> 'a1 list -> 'a1 list

val nonemptyb : 'a1 list -> bool

val drop_while : ('a1 -> bool) -> 'a1 list -> 'a1 list

val concat_map_sep : z -> str list -> str

type val0 =
| VI of z
| VL of val0 list

val vnat : nat -> val0

val vbool : bool -> val0

val vstr : str -> val0

val vstrs : str list -> val0

val verr : val0

val as_int : val0 -> z

val as_nat : val0 -> nat

val as_bool : val0 -> bool

val as_list : val0 -> val0 list

val as_str : val0 -> str

val as_strs : val0 -> str list

val arg : val0 -> nat -> val0

type char_ops = { co_lower : (z -> z); co_class : (z -> z);
                  co_norm : (z -> z); co_space : (z -> bool) }

val cWhite : z

val cNonWord : z

val cDelim : z

val cLower : z

val cUpper : z

val cNumber : z

type scheme = { s_bw : z; s_bd : z; s_delims : z list; s_init : z }

val scheme_default : scheme

val scheme_path : scheme

val scheme_history : scheme

val scoreMatch : z

val scoreGapStart : z

val scoreGapExt : z

val bonusBoundary : z

val bonusNonWord : z

val bonusCamel : z

val bonusConsecutive : z

val mem : z -> z list -> bool

val ascii_white : z -> bool

val ascii_class : scheme -> z -> z

val class_of : char_ops -> scheme -> z -> z

val is_space : char_ops -> z -> bool

val bonus_for : scheme -> z -> z -> z

val lower1 : char_ops -> z -> z

val fold : char_ops -> bool -> bool -> z -> z

val witness_from :
  char_ops -> bool -> bool -> z list -> nat -> z list -> nat list -> bool

val witness : char_ops -> bool -> bool -> z list -> z list -> nat list -> bool

val subseq_b : char_ops -> bool -> bool -> z list -> z list -> bool

val prefix_b : char_ops -> bool -> bool -> z list -> z list -> bool

val occurs_at : char_ops -> bool -> bool -> z list -> z list -> nat -> bool

val edge_class : char_ops -> scheme -> z -> bool

val left_ok : char_ops -> scheme -> z list -> nat -> bool

val right_ok : char_ops -> scheme -> z list -> nat -> bool

val boundary_at :
  char_ops -> scheme -> bool -> bool -> z list -> z list -> nat -> bool

val count_while : (z -> bool) -> z list -> nat

val lead_ws : char_ops -> z list -> nat

val trail_ws : char_ops -> z list -> nat

val exists_upto : (nat -> bool) -> nat -> bool

val substr_b : char_ops -> bool -> bool -> z list -> z list -> bool

val boundary_substr_b :
  char_ops -> scheme -> bool -> bool -> z list -> z list -> bool

val head_space : char_ops -> z list -> bool

val last_space : char_ops -> z list -> bool

val prefix_spec : char_ops -> bool -> bool -> z list -> z list -> nat option

val suffix_spec : char_ops -> bool -> bool -> z list -> z list -> nat option

val equal_spec : char_ops -> bool -> bool -> z list -> z list -> nat option

val class_before : char_ops -> scheme -> z list -> nat -> z

val bonus_at : char_ops -> scheme -> z list -> nat -> z

val align_walk :
  char_ops -> scheme -> z list -> nat -> nat -> nat list -> bool -> bool ->
  nat -> z -> z -> z

val align_score : char_ops -> scheme -> z list -> nat list -> z

type cell = { c_h : z option; c_cons : z; c_gap : bool }

val opt_add : z option -> z -> z option

val dp_row0 :
  char_ops -> scheme -> bool -> bool -> z list -> z -> nat -> z list -> z
  option -> bool -> cell list

val none_cell : cell

val dp_row :
  char_ops -> scheme -> bool -> bool -> z list -> z -> nat -> z list -> cell
  list -> cell -> cell -> cell list

val dp_rows :
  char_ops -> scheme -> bool -> bool -> z list -> z list -> cell list -> cell
  list

val naive_last_row :
  char_ops -> scheme -> bool -> bool -> z list -> z list -> cell list

val best_cell :
  bool -> cell list -> nat -> (z * nat) option -> (z * nat) option

val naive_dp :
  char_ops -> scheme -> bool -> bool -> bool -> z list -> z list -> (z * nat)
  option

val equal_score : scheme -> nat -> z

type mres =
| NoMatch
| Match of nat * nat * z * nat list option

val bonus_m : scheme -> z -> z -> z

val foldm : char_ops -> bool -> bool -> z -> z

val bonus_at_m : char_ops -> scheme -> z list -> nat -> z res

val index_byte : z list -> z -> nat option

val try_skip : z list -> bool -> z -> nat -> nat option res

val is_ascii : z list -> bool

val afi_loop :
  z list -> bool -> z list -> bool -> nat -> nat -> nat -> z ->
  ((nat * nat) * z) option res

val last_occ : z list -> z -> z -> nat -> nat option -> nat option

val ascii_fuzzy_index :
  bool -> z list -> z list -> bool -> (nat * nat) option res

val calc_loop :
  char_ops -> scheme -> bool -> bool -> z list -> nat -> z list -> z -> z ->
  bool -> nat -> z -> bool -> nat list -> (z * nat list) res

val calculate_score :
  char_ops -> scheme -> bool -> bool -> z list -> z list -> nat -> nat ->
  (z * nat list) res

val v1_scan :
  char_ops -> bool -> bool -> z list -> nat -> z list -> nat option ->
  (nat * nat) option

val v1_back :
  char_ops -> bool -> bool -> z list -> nat -> z list -> nat -> nat

val fuzzy_v1 :
  char_ops -> scheme -> bool -> bool -> bool -> bool -> z list -> z list ->
  bool -> mres res

type ex_state = { ex_index : z; ex_pidx : nat; ex_bonus : z; ex_bestPos : 
                  z; ex_bestBonus : z }

val index_at : nat -> nat -> bool -> nat

val exact_loop :
  char_ops -> scheme -> nat -> bool -> bool -> bool -> bool -> z list -> z
  list -> ex_state -> ex_state res

val exact_match :
  char_ops -> scheme -> bool -> bool -> bool -> bool -> bool -> z list -> z
  list -> mres res

val is_space_m : char_ops -> z -> bool

val leading_ws : char_ops -> z list -> nat

val trailing_ws : char_ops -> z list -> nat

val cmp_at : char_ops -> bool -> bool -> z list -> nat -> z list -> bool res

val prefix_match :
  char_ops -> scheme -> bool -> bool -> z list -> z list -> mres res

val suffix_match :
  char_ops -> scheme -> bool -> bool -> z list -> z list -> mres res

val eq_norm : char_ops -> bool -> z list -> nat -> z list -> bool res

val equal_match :
  char_ops -> scheme -> bool -> bool -> z list -> z list -> mres res

val fold_v2 : char_ops -> scheme -> bool -> bool -> z -> z * z

type p2 = { p2_T : z list; p2_B : z list; p2_H0 : z list; p2_C0 : z list;
            p2_F : nat list; p2_pidx : nat; p2_lastIdx : nat;
            p2_maxScore : z; p2_maxPos : nat }

val phase2 :
  char_ops -> scheme -> bool -> bool -> bool -> bool -> z list -> nat -> z ->
  z list -> z -> z -> z -> bool -> p2 -> p2

type mat = z option list

val mget : mat -> z -> z res

val mset : mat -> z -> z -> mat res

val zget : z list -> z -> z res

val p3_row :
  bool -> bool -> z list -> z list -> mat -> mat -> z -> z -> z -> z -> nat
  -> z -> bool -> z -> z -> (((mat * mat) * z) * z) res

val p3_rows :
  bool -> z list -> z list -> mat -> mat -> z -> z -> z -> nat -> nat list ->
  z list -> nat -> z -> z -> (((mat * mat) * z) * z) res

val p4 :
  nat -> mat -> mat -> nat list -> z -> z -> nat -> nat -> nat -> z -> bool
  -> nat list -> (nat list * z) res

val put_row : mat -> z -> z list -> mat res

val fuzzy_v2 :
  char_ops -> scheme -> bool -> bool -> bool -> bool -> z list -> z list ->
  bool -> z option -> mres res

val tbl_find : z list list -> z -> z list option

val ops_of : z list list -> char_ops

val scheme_of : z -> scheme

val v_mres : mres res -> val0

type acall = { a_fn : z; a_cs : bool; a_nm : bool; a_fwd : bool;
               a_bytes : bool; a_wp : bool; a_cap : z option; a_sc : 
               scheme; a_text : z list; a_pat : z list; a_co : char_ops }

val as_call : val0 -> acall

val run_model : acall -> mres res

val insert_nat : nat -> nat list -> nat list

val sort_nat : nat list -> nat list

val seq_from : nat -> nat -> nat list

val check_answer : acall -> val0 -> z list

val dispatch_algo : z -> val0 -> val0 option

val eSC : z

val bS : z

val sO : z

val sI : z

val bEL : z

val lF : z

val in_rng : z -> z -> z -> bool

val is_digit : z -> bool

val is_sep : z -> bool

val is_param : z -> bool

val is_final : z -> bool

val is_intro : z -> bool

val is_print : z -> bool

val is_cont : z -> bool

val rune_len : str -> nat

val rune_count_aux : nat -> str -> nat

val rune_count : str -> nat

val take_while : (z -> bool) -> str -> str

val m_csi : str -> nat option

val osc8_close_head : str

val m_osc : str -> nat option

val m_esc2 : str -> nat option

val m_shift : str -> nat option

val m_bs : str -> nat option

val orelse : 'a1 option -> 'a1 option -> 'a1 option

val match_at : str -> nat option

val first_match_from : nat -> str -> (nat * nat) option

val first_match : str -> (nat * nat) option

val strip_aux : nat -> str -> str

val strip_spec : str -> str

val kept_runes_aux : nat -> str -> str -> nat

val kept_runes : str -> nat

type colour =
| CDefault
| CIdx of z
| CRGB of z * z * z

type attrs = { a_bold : bool; a_dim : bool; a_italic : bool;
               a_underline : bool; a_blink : bool; a_reverse : bool;
               a_strike : bool }

type sgr = { s_fg : colour; s_bg : colour; s_at : attrs }

val no_attrs : attrs

val sgr_reset : sgr

val set_at : attrs -> z -> bool -> attrs

val with_fg : sgr -> colour -> sgr

val with_bg : sgr -> colour -> sgr

val with_at : sgr -> attrs -> sgr

val sgr_one : z -> sgr -> sgr

val sgr_params : nat -> z list -> sgr -> sgr

val sgr_apply : z list -> sgr -> sgr

val byte_val : z -> bool

val sgr_wf_aux : nat -> z list -> bool

val sgr_wf : z list -> bool

val enc_colour : colour -> z

val bit : bool -> z -> z

val enc_attrs : attrs -> z

type xparam = z option list

val pnum : z option -> z

val xcol_set : z -> colour -> sgr -> sgr

val sgr_sub : xparam -> sgr -> sgr

type xsgr = { x_ps : z option list; x_last : xparam option }

val sgr_xapply : xsgr -> sgr -> sgr

val is_given : z option -> bool

val xcol_wf : xparam -> bool

val sgr_xwf : xsgr -> bool

type item =
| IText of str
| ISgr of z list
| IOther
| ISgrX of xsgr

val term_chars : item list -> sgr -> sgr list

val slice : str -> nat -> nat -> str res

val rune_start : z -> bool

val last_rune_len : str -> nat

val mcs_loop : str -> nat -> nat option

val match_control_sequence : str -> nat option

val skip_print : str -> nat -> nat

val match_osc : str -> nat -> nat option res

val skip_digits : str -> nat -> nat

val esc_csi : str -> nat option res

val esc_osc : str -> nat option res

val esc_two : str -> nat option res

val esc_case : str -> nat option res

val scan_loop : str -> str -> nat -> (nat * nat) option res

val prescan : str -> str -> nat -> ((str * str) * nat) option

val next_ansi : str -> (nat * nat) option res

type url = { u_uri : str; u_params : str }

type astate = { fg : z; bg : z; attr : z; lbg : z; aurl : url option }

val colored : astate -> bool

val url_nil : astate -> bool

val st_equals : astate -> bool -> astate option -> bool

val wrap64 : z -> z

val wrap32 : z -> z

val index_byte0 : z -> str -> nat -> nat option

val atoi_loop : str -> z -> z

val parse_ansi_code : str -> (z * str) res

val has_suffix : str -> str -> bool

val has_prefix : str -> str -> bool

type istate = { i_fg : z; i_bg : z; i_attr : z; i_256 : z; i_ptr_bg : 
                bool; i_count : nat }

val set_ptr : istate -> z -> istate

val get_ptr : istate -> z

val set_256 : istate -> z -> istate

val set_attr : istate -> z -> istate

val set_fg : istate -> z -> istate

val set_bg : istate -> z -> istate

val a_BOLD : z

val a_DIM : z

val a_ITALIC : z

val a_UNDERLINE : z

val a_BLINK : z

val a_REVERSE : z

val a_STRIKE : z

val step_num : istate -> z -> istate

val sgr_loop : nat -> str -> istate -> istate res

val oSC8 : str

val sT : str

val interpret_code : str -> astate option -> (astate * bool) res

type aoff = { o_b : nat; o_e : nat; o_col : astate }

val update_last : aoff list -> nat -> aoff list res

val ec_loop :
  nat -> str -> astate option -> aoff list -> str -> nat -> bool ->
  (((((str * astate option) * aoff list) * str) * nat) * bool) res

val extract_color :
  str -> astate option -> ((str * aoff list option) * astate option) res

val term_state : item list -> sgr -> sgr

val piece_chars : item list list -> sgr -> sgr list list

val shown_chars : nat list -> item list list -> sgr -> sgr list

val colour_params : z -> colour -> z list

val attr_params : attrs -> z list

val restore_params : sgr -> z list

val colour_ok : colour -> bool

val sgr_ok : sgr -> bool

val itoa_aux : nat -> z -> str -> str

val itoa : z -> str

val a_BOLDFORCE : z

val to_ansi_string : z -> z -> str

val trim_suffix : str -> str -> str

val has_attr : z -> z -> bool

val state_to_string : astate -> str

val sGR0 : str

val nth_prefix_loop : str list -> astate option -> str list res

val nth_prefix : str list -> astate option -> str list res

val pick_tokens : str list -> nat list -> str res

val nth_display :
  str list -> nat list -> astate option -> astate option -> ((str * aoff list
  option) * astate option) res

val v_span : (nat * nat) option res -> val0

val v_url : url option -> val0

val v_state : astate -> val0

val v_state_opt : astate option -> val0

val as_url : val0 -> url option

val as_state : val0 -> astate

val as_state_opt : val0 -> astate option

val v_off : aoff -> val0

val v_extract : ((str * aoff list option) * astate option) res -> val0

val d_extract : str -> astate option -> val0

val d_interpret : str -> astate option -> val0

val dec_colour : z -> colour

val dec_attrs : z -> attrs

val as_sgr : val0 -> sgr

val v_sgr : sgr -> val0

val as_optz : val0 -> z option

val as_xsgr : val0 -> xsgr

val as_item : val0 -> item

val dispatch_ansi : z -> val0 -> val0 option

val rUNE_ERROR : z

val rng : z -> z -> z -> bool

val cont : z -> bool

val decode_rune : str -> z * nat

val utf8_runes_aux : nat -> str -> z list

val utf8_runes : str -> z list

val cOLON : z

val cOMMA : z

val pLUS : z

val sPACE : z

val dASH : z

val is_upper : z -> bool

val is_lower : z -> bool

val lower : z -> z

val to_lower : str -> str

val is_sep0 : z -> bool

val split_aux : z -> str -> str -> str list

val split_on : z -> str -> str list

type key =
| KRune of z
| KCtrl of z
| KNamed of str
| KF of z
| KAlt of z
| KCtrlAlt of z

val key_eqb : key -> key -> bool

val named_keys : (str * key) list

val assoc_str : str -> (str * 'a1) list -> 'a1 option

val has_prefix0 : str -> str -> bool

val s_f : str

val s_alt : str

val s_ctrl : str

val s_ctrl_alt : str

val rune_key : str -> str -> key option

val key_of_token : str -> key option

type action = str * str

val simple_actions : (str * str list) list

val arg_actions : (str * str) list

val checked_arg_actions : str list

val mem_str : str -> str list -> bool

type aform =
| FPair of z * z
| FColon

val closer_of : z -> z option

val form_ok : aform -> bool

type act =
| ASimple of str
| AArg of str * aform * str

type bpair = str list * act list

type bind0 = bpair list

val join : z -> str list -> str

val render_act : act -> str

val render_pair : bpair -> str

val render : bind0 -> str

val arg_free : z -> str -> bool

val key_spelling_ok : str -> bool

val act_ok : bool -> act -> bool

val acts_ok : bool -> act list -> bool

val pair_ok : bool -> bpair -> bool

val wf_bind : bind0 -> bool

type keymap = (key * action list) list

val km_get : keymap -> key -> action list

val km_set : keymap -> key -> action list -> keymap

val act_denote : act -> action list

val acts_denote : act list -> action list

val key_denote : str -> key

val keys_denote : str list -> key list

val pair_denote : keymap -> bpair -> keymap

val denote : keymap -> bind0 -> keymap

type 'a outcome =
| Good of 'a
| Bad of z

val e_KEY_REQUIRED : z

val e_UNSUPPORTED_KEY : z

val e_UNKNOWN_ACTION : z

val e_PUT : z

val e_NO_ACTION : z

val exec_names : str list

val prefix_ci : str -> str -> bool

val first_match0 : str list -> str -> nat option

val is_colon_plus : z -> bool

val find_exec : str -> nat option

val find_close_from : z -> str -> nat option

val find_close : z -> str -> nat option

val blanks : nat -> str

val mask_loop : nat -> str -> str res

val rep2 : z -> z -> z -> z -> str -> str

val rep3 : z -> z -> z -> z -> z -> z -> str -> str

val eSC_COLON : z

val eSC_COMMA : z

val eSC_PLUS : z

val escapes : str -> str

val mask_action_contents : str -> str res

val s_alt_comma : str

val s_put : str

val s_change_multi : str

val key_arg_actions : str list

val alt_comma : nat -> str -> str

val contains : str -> str -> bool

val has_suffix0 : str -> str -> bool

val key_of_masked_token : str -> key option

val add_key : key -> key list -> key list

val chords_loop : str list -> key list -> key list outcome

val parse_key_chords : str -> key list outcome

val is_name_char : z -> bool

val take_while0 : (z -> bool) -> str -> str

val name_prefix : str -> str

val switch_table : (str * str list) list

val is_execute_action : str -> str option res

val check_arg : str -> str -> unit outcome

val pal_loop :
  str list -> bool -> str -> action list -> action list -> bool -> action
  list outcome res

val split2_aux : z -> (z * z) list -> (z * z) list -> (z * z) list list

val split2 : z -> (z * z) list -> (z * z) list list

val parse_action_list :
  str -> str -> action list -> bool -> action list outcome res

val parse_single_action_list : str -> action list outcome res

val break_colon :
  (z * z) list -> (z * z) list -> (z * z) list * (z * z) list option

val key_of_name : str -> key outcome

val put_allowed_for : key -> bool

val bind_keys : str list -> keymap -> str -> str -> keymap outcome res

val keymap_loop :
  (z * z) list list -> str list -> keymap -> keymap outcome res

val parse_keymap : keymap -> str -> keymap outcome res

val parse_keymaps : keymap -> str list -> keymap outcome res

val enc_key : key -> val0

val enc_action : action -> val0

val enc_keymap : keymap -> val0

val enc_out : ('a1 -> val0) -> 'a1 outcome res -> val0

val dec_act : val0 -> act

val dec_pair : val0 -> bpair

val dec_bind : val0 -> bind0

val dispatch_bind : z -> val0 -> val0 option

val c_UNDEFINED : z

val a_NONE : z

val a_REGULAR : z

type cattr = z * z

type comp =
| CColor of z
| CAttr of z
| CRegular
| CNone

val apply_comp : cattr -> comp -> cattr

val apply_comps : cattr -> comp list -> cattr

val attr_names : (str * z) list

val colour_names : (str * z) list

val slot_names : (str * str) list

val base_names : (str * nat) list

val bASE_BW : nat

val bASE_EMPTY : nat

val is_digit0 : z -> bool

val is_hex : z -> bool

val hex_val : z -> z

val dec_value : str -> z

val hex_value : str -> z

val dec_colour0 : str -> z option

val hex_colour : str -> z option

val s_regular : str

val comp_of : str -> comp option

val comps_of : str list -> comp list option

type theme = bool * (str * cattr) list

val slot_get : (str * cattr) list -> str -> cattr

val slot_set : (str * cattr) list -> str -> cattr -> (str * cattr) list

val theme_get : theme -> str -> cattr

val theme_set : theme -> str -> cattr -> theme

type centry = str list

val entry_denote : theme list -> theme -> centry -> theme option

val entries_denote : theme list -> theme -> centry list -> theme option

type copt =
| OColor of centry list
| OColorEmpty
| ONoColor

val copt_denote : theme list -> theme -> copt -> theme option

val copts_denote : theme list -> theme -> copt list -> theme option

val render_entry : centry -> str

val render_entries : centry list -> str

val word_ok : str -> bool

val entry_ok : centry -> bool

val entries_ok : centry list -> bool

val e_COLOR : z

val merge_attr : str list -> cattr -> cattr option

val theme_loop : theme list -> theme -> str list -> theme outcome res

val parse_theme : theme list -> theme -> str -> theme outcome res

val color_opts : theme list -> theme -> (z * str) list -> theme outcome res

val dec_slot : val0 -> str * cattr

val dec_theme : val0 -> theme

val enc_slot : (str * cattr) -> val0

val enc_theme : theme -> val0

val dec_item : val0 -> z * str

val dec_copt : val0 -> copt

val copt_ok : copt -> bool

val copt_word : copt -> z * str

val copt_item : copt -> val0

val dispatch_color : z -> val0 -> val0 option

type item0 = z

type nthv = z

val deny_after_exclude : bool -> z list -> z list -> z list

type rev1 = nat * nat

val major : rev1 -> nat

val bump_major : rev1 -> rev1

val bump_minor : rev1 -> rev1

val compat : rev1 -> rev1 -> bool

val rev_eqb : rev1 -> rev1 -> bool

type cmd = z

type sreq = { q_sort : bool; q_sync : bool; q_nth : nthv option;
              q_cmd : cmd option; q_changed : bool; q_deny : z list;
              q_rev : rev1 }

type mreq = { r_id : nat; r_items : item0 list; r_query : str;
              r_final : bool; r_sort : bool; r_rev : rev1; r_nth : nthv;
              r_deny : z list }

type st = { t_input : str; t_paused : bool; t_sort : bool; t_nth : nthv;
            t_merger : mreq; t_count : nat; e_new : bool; e_fin : bool;
            e_search : sreq option; e_sfin : mreq option; rd_alive : 
            bool; rd_dirty : bool; cl : item0 list; c_reading : bool;
            c_next : cmd option; c_query : str; c_sort : bool; c_nth : 
            nthv; c_deny : z list; c_irev : rev1; c_srev : rev1;
            c_usesnap : bool; c_snap : item0 list; c_count : nat;
            m_pending : mreq option; m_running : mreq option;
            g_deny : z list; g_last : mreq option; g_id : nat;
            g_dclean : bool; g_cmd : cmd option; g_started : cmd option }

val set_t_input : str -> st -> st

val set_t_paused : bool -> st -> st

val set_t_sort : bool -> st -> st

val set_t_nth : nthv -> st -> st

val set_t_merger : mreq -> st -> st

val set_t_count : nat -> st -> st

val set_e_new : bool -> st -> st

val set_e_fin : bool -> st -> st

val set_e_search : sreq option -> st -> st

val set_e_sfin : mreq option -> st -> st

val set_rd_alive : bool -> st -> st

val set_rd_dirty : bool -> st -> st

val set_cl : item0 list -> st -> st

val set_c_reading : bool -> st -> st

val set_c_next : cmd option -> st -> st

val set_c_query : str -> st -> st

val set_c_sort : bool -> st -> st

val set_c_nth : nthv -> st -> st

val set_c_deny : z list -> st -> st

val set_c_irev : rev1 -> st -> st

val set_c_srev : rev1 -> st -> st

val set_c_usesnap : bool -> st -> st

val set_c_snap : item0 list -> st -> st

val set_c_count : nat -> st -> st

val set_m_pending : mreq option -> st -> st

val set_m_running : mreq option -> st -> st

val set_g_deny : z list -> st -> st

val set_g_last : mreq option -> st -> st

val set_g_id : nat -> st -> st

val set_g_dclean : bool -> st -> st

val set_g_cmd : cmd option -> st -> st

val set_g_started : cmd option -> st -> st

type prim =
| PSetQuery of str
| PToggleSort
| PExclude of z list
| PChangeNth of nthv
| PReload of cmd * bool
| PToggleSearch
| PEnableSearch
| PDisableSearch

type rules = { ru_merge : bool; ru_toggle_or : bool }

val fixed_rules : rules

type uiacc = { a_input : str; a_paused : bool; a_sort : bool; a_nth : 
               nthv; a_newnth : nthv option; a_cmd : (cmd * bool) option;
               a_changed : bool; a_deny : z list }

val prim_step : rules -> uiacc -> prim -> uiacc

val merge_req : rules -> sreq option -> sreq -> sreq

val ui_step : rules -> st -> prim list -> st

val c_input : st -> st

val reset : st -> st

val clear_deny : st -> st

val restart : cmd -> st -> st

val coord_read : st -> st

val coord_search : st -> st

val coord_sfin : st -> st

type label =
| LPush of item0 list
| LPoll
| LFin
| LUi of prim list
| LCoordRead
| LCoordSearch
| LCoordFin
| LTake
| LPublish
| LCancel

val step_r : rules -> st -> label -> st

val step : st -> label -> st

val run_r : rules -> st -> label list -> st

val run : st -> label list -> st

val init : str -> bool -> nthv -> st

val effq : st -> str

val quiescent : st -> bool

val drain_labels : label list

val as_prim : val0 -> prim

val zseq : z -> nat -> z list

val as_labels : val0 -> label list

val zlist_eqb : z list -> z list -> bool

val vopt : z option -> val0

val observe : st -> val0

val uptodate_b : st -> bool

val run_mono : st -> label list -> st * bool

val explore : str -> bool -> nthv -> label list -> val0

val dispatch_coord : z -> val0 -> val0 option

val mAXQ : nat

val nLc : z

val pATHSEP : z

type item1 = z * str

val idx : item1 -> z

type act0 =
| AChar of z
| APut of str
| ABackwardDeleteChar
| ADeleteChar
| ABackwardChar
| AForwardChar
| ABeginningOfLine
| AEndOfLine
| AKillLine
| AUnixLineDiscard
| AUnixWordRubout
| ABackwardKillWord
| ABackwardWord
| AForwardWord
| AKillWord
| AYank
| AClearQuery
| ACancel
| AChangeQuery of str
| AReplaceQuery
| AUp
| ADown
| AFirst
| ALast
| APos of z
| APageUp
| APageDown
| AHalfPageUp
| AHalfPageDown
| AToggle
| AToggleIn
| AToggleOut
| ASelect
| ADeselect
| ASelectAll
| ADeselectAll
| AToggleAll
| AClearSelection
| ATruncate
| ARender
| AUpdate of item1 list * bool

type zip = { zb : str; za : str; zk : str }

val ztext : zip -> str

val is_blank : z -> bool

val word_span : (z -> bool) -> str -> nat

val move_left : nat -> zip -> zip

val move_right : nat -> zip -> zip

val kill_left : nat -> zip -> zip

val kill_right : nat -> zip -> zip

val zinsert : str -> zip -> zip

type ecmd =
| EInsert of str
| EBackDel
| EDel
| ELeft
| ERight
| EHome
| EEnd
| EKillLine
| ELineDiscard
| EWordRubout
| EBackKillWord
| EBackWord
| EFwdWord
| EKillWord
| EYank
| EClear
| ECancel
| ESet of str
| ETrunc
| ENop

val zstep : (z -> bool) -> zip -> ecmd -> zip

val clampz : z -> z -> z -> z

val clamp_pos : z -> z -> z

val cur_move : bool -> z -> z -> z -> z

val sel_mem : z -> item1 list -> bool

val sel_remove : z -> item1 list -> item1 list

val sel_add : z -> item1 -> item1 list -> bool * item1 list

val sel_toggle : z -> item1 -> item1 list -> bool * item1 list

val sel_add_all : z -> item1 list -> item1 list -> item1 list

val sel_remove_all : item1 list -> item1 list -> item1 list

val sel_toggle_all : z -> item1 list -> item1 list -> item1 list

val spec_output : item1 list -> item1 option -> item1 list

type sparams = { sp_multi : z; sp_cycle : bool; sp_flip : bool; sp_page : 
                 z; sp_noinput : bool }

type sstate = { ss_zip : zip; ss_res : item1 list; ss_pos : z;
                ss_sel : item1 list }

val ss_count : sstate -> z

val ss_current : sstate -> item1 option

val ecmd_of_spec : sstate -> act0 -> ecmd

val dirz : sparams -> bool -> z

val with_pos : sstate -> z -> sstate

val with_sel : sstate -> item1 list -> sstate

val smove : sparams -> sstate -> bool -> sstate

val stoggle : sparams -> sstate -> bool * sstate

val sstep_list : sparams -> sstate -> act0 -> sstate

val sstep : (z -> bool) -> sparams -> sstate -> act0 -> sstate

val srun : (z -> bool) -> sparams -> sstate -> act0 list -> sstate

val obs_cursor_ok : z -> z -> z option -> z list -> bool

val nodupz : z list -> bool

val obs_sel_ok : z -> z list -> bool

type cfg = { c_multi : z; c_cycle : bool; c_default_layout : bool;
             c_inputless : bool; c_track : bool; c_maxitems : z;
             c_scrolloff : z; c_fileword : bool }

type st0 = { s_input : str; s_cx : nat; s_yanked : str; s_res : item1 list;
             s_cy : z; s_offset : z; s_sel : item1 list }

val take : 'a1 list -> nat -> 'a1 list res

val drop : 'a1 list -> nat -> 'a1 list res

val slice0 : 'a1 list -> nat -> nat -> 'a1 list res

val constrain_z : z -> z -> z -> z

val isw : (z -> bool) -> cfg -> z -> bool

val rx_word_rubout : (z -> bool) -> cfg -> z -> z -> bool

val rx_space_nonspace : z -> z -> bool

val find_last : (z -> z -> bool) -> str -> nat option

val find_last_plus1 : (z -> z -> bool) -> str -> nat

val find_first_next : (z -> bool) -> cfg -> str -> nat option

val find_first_plus1 : (z -> bool) -> cfg -> str -> nat

val count : st0 -> z

val set_edit : st0 -> str -> nat -> str -> st0

val set_cy : st0 -> z -> st0

val set_sel : st0 -> item1 list -> st0

val current_item : st0 -> item1 option res

val insert_at : st0 -> str -> st0 res

val rubout : st0 -> (z -> z -> bool) -> st0 res

val do_edit : (z -> bool) -> cfg -> st0 -> act0 -> st0 res

val vset : st0 -> z -> st0

val vmove : cfg -> st0 -> z -> st0

val adjust : nat -> bool -> z -> z -> z -> z -> z -> z -> z res

val constrain_loop : cfg -> nat -> z -> z -> z -> z -> (z * z) res

val constrain : cfg -> st0 -> st0 res

val select_item : cfg -> item1 -> item1 list -> bool * item1 list

val deselect_item : item1 -> item1 list -> item1 list

val toggle_item : cfg -> item1 -> item1 list -> bool * item1 list

val toggle_current : cfg -> st0 -> (bool * st0) res

val select_all_loop : cfg -> item1 list -> item1 list -> item1 list

val deselect_all_loop : item1 list -> item1 list -> item1 list

val toggle_all_first :
  item1 list -> nat -> item1 list -> nat list * item1 list

val toggle_all_second :
  cfg -> item1 list -> nat -> nat list -> item1 list -> item1 list

val multi_on : cfg -> bool

val toggle_and_move : cfg -> st0 -> z -> st0 res

val page_move : cfg -> st0 -> bool -> bool -> st0

val find_index : z -> item1 list -> nat option

val update_list : cfg -> st0 -> item1 list -> bool -> st0 res

val do_list : cfg -> st0 -> act0 -> st0 res

val is_edit : act0 -> bool

val is_action : act0 -> bool

val do_action : (z -> bool) -> cfg -> st0 -> act0 -> st0 res

val run0 : (z -> bool) -> cfg -> st0 -> act0 list -> st0 res

val output : st0 -> item1 list res

val uNLIMITED : z

type cm_arg =
| CMNone
| CMNum of z
| CMBad

type xact =
| XA of act0
| XChangeMulti of cm_arg

val limit_after : z -> cm_arg -> z

val sp_with_multi : sparams -> z -> sparams

val xsstep : (z -> bool) -> (sparams * sstate) -> xact -> sparams * sstate

val xsrun : (z -> bool) -> (sparams * sstate) -> xact list -> sparams * sstate

val mAXMULTI : z

val with_multi : cfg -> z -> cfg

val change_multi : cfg -> st0 -> cm_arg -> cfg * st0

val xdo : (z -> bool) -> (cfg * st0) -> xact -> (cfg * st0) res

val xrun : (z -> bool) -> (cfg * st0) -> xact list -> (cfg * st0) res

val as_item0 : val0 -> item1

val vitem : item1 -> val0

val as_items : val0 -> item1 list

val vitems : item1 list -> val0

val as_table : val0 -> z -> bool

val as_cfg : val0 -> cfg

val as_st : val0 -> st0

val vst : st0 -> val0

val as_act : val0 -> act0

val as_sparams : val0 -> sparams

val spec_isw : val0 -> z -> bool

val as_sstate : val0 -> sstate

val vsstate : sstate -> val0

val as_optz0 : val0 -> z option

val as_xact : val0 -> xact

val dispatch_edit : z -> val0 -> val0 option

val c_sq : z

val c_bs : z

val c_sp : z

val c_nl : z

val is_meta : z -> bool

type mode =
| Out
| InWord
| InSQ
| Esc

type lst = { l_mode : mode; l_cur : str; l_acc : str list }

val step0 : lst -> z -> lst option

val run1 : lst -> str -> lst option

val finish : lst -> str list option

val l_init : lst

val sh_words : str -> str list option

type seg =
| SLit of str
| SWords of str list

val feed_word : lst -> str -> lst option

val feed_words : lst -> str list -> lst option

val feed_segs : lst -> seg list -> lst option

val template_words : seg list -> str list option

val join_sp : str list -> str

type fmode =
| FOut
| FWord
| FSQ
| FSQEsc

type fst_ = { fl_mode : fmode; fl_cur : str; fl_acc : str list }

val fstep : fst_ -> z -> fst_ option

val frun : fst_ -> str -> fst_ option

val fish_words : str -> str list option

val c_slash : z

val is_blank0 : z -> bool

val take_word : str -> str

val first_word : str -> str

val s_sh : str

val s_fish : str

val running_shell : str -> str -> str

val base_name_go : str -> str -> str

val base_name : str -> str

val runs_fish : str -> str -> bool

val shell_reads : str -> str -> str -> str list option

val c_eq : z

val entry_name : str -> str

val entry_value : str -> str option

val name_start : z -> bool

val name_char : z -> bool

val shell_name : str -> bool

val s_tmux_pane : str

val exportable : str -> bool

val w_export : str

val export_effect : str -> str list option

val esc_sh : str -> str

val esc_fish : str -> str

val quote_entry : bool -> str -> str

val escape_single_quote : str -> str

val tmux_suffix : str

val tmux_args_go : str -> str list -> str

val tmux_arg_str : str -> str list -> str

val export_word : str

val export_line : str -> str -> str

val strip_prefix : str -> str -> str option

val has_prefix1 : str -> str -> bool

val has_suffix1 : str -> str -> bool

val trim_suffix0 : str -> str -> str

val span : (z -> bool) -> str -> nat * str

val join_str : str -> str list -> str

val mid : nat -> str -> str res

val c_lb : z

val c_rb : z

val in_flags : z -> bool

val in_range : z -> bool

val closes : str -> bool

val m_a1 : str -> nat option

val m_a2 : str -> nat option

val s_fzf_query : str

val s_fzf_action : str

val s_fzf_prompt : str

val m_a3 : str -> nat option

val opt_char : z -> str -> nat * str

val m_a4 : str -> nat option

val match_at0 : str -> nat option

type piece =
| PLit of str
| PEsc of str
| PPh of str

val flush_lit : str -> piece list -> piece list

val scan : str -> nat -> str -> piece list

type flags = { f_plus : bool; f_space : bool; f_number : bool; f_file : 
               bool; f_raw : bool }

val no_flags : flags

val pp_go : str -> flags -> str -> flags * str

val s_fzf_colon : str

val parse_placeholder : str -> (flags * str) res

val is_digit1 : z -> bool

val digits_val : z -> str -> z option

val int_min : z

val int_max : z

val atoi : str -> z option

val itoa_pos : nat -> z -> str -> str

val bits : z -> nat

val itoa0 : z -> str

val s_dd : str

val split_dd : str -> str -> str list

type rng0 = z * z

val new_range : z -> z -> rng0

val atoi_nz : str -> z option

val parse_range : str -> rng0 option

val split_comma : str -> str -> str list

val parse_ranges : str list -> rng0 list option

val split_nth : str -> rng0 list option

type awk_state =
| AwkNil
| AwkBlack
| AwkWhite

val awk_white : z -> bool

val awk_go : str -> awk_state -> str -> str list -> str list

val awk_tokens : str -> str list

val split_after : nat -> str -> str -> str -> str list res

val tokenize : str option -> str -> str list res

val sel_go : str list -> z -> z -> z -> str

val sel : str list -> z -> z -> str

val transform1 : str list -> rng0 -> str

val transform_join : str list -> rng0 list -> str

val ascii_space : z -> bool

val space_len : str -> nat

val space_len_rev : str -> nat

val trim_with : (str -> nat) -> nat -> str -> str

val trim_space : str -> str

type item2 = z * str

val min_int32 : z

type params = { p_delim : str option; p_printsep : str; p_force_plus : 
                bool; p_query : str; p_current : item2 list;
                p_selected : item2 list; p_action : str; p_prompt : str;
                p_fish : bool }

type outp =
| OText of str
| OWords of (str * str) list

val render0 : outp -> str

val s_q : str

val s_q_colon : str

val s_braces : str

val s_m_query : str

val s_m_action : str

val s_m_prompt : str

val s_empty_quotes : str

val quoted : params -> str -> str * str

val repl_item : params -> flags -> item2 -> str * str

val field_value : params -> flags -> rng0 list -> str -> str res

val repl_fields : params -> flags -> rng0 list -> item2 -> (str * str) res

val map_res : ('a1 -> 'a2 res) -> 'a1 list -> 'a2 list res

val over_items :
  params -> flags -> bool -> (item2 -> (str * str) res) -> str list ->
  ((outp * str list) * str list) res

val expand_ph :
  params -> str -> str list -> ((outp * str list) * str list) res

val expand_all :
  params -> piece list -> str list -> (outp list * str list) res

val replace_structured :
  params -> str -> str list -> (outp list * str list) res

val replace_placeholder : params -> str -> str list -> (str * str list) res

val go_space : z -> bool

val field_word : str -> str

val fields_fuel : nat -> str -> str list

val fields : str -> str list

val split_on0 : z -> str -> str -> str list

type executor = { x_shell : str; x_args : str list; x_fish : bool }

val m_sh : str

val m_dash_c : str

val m_fish : str

val new_executor : str -> str -> executor res

val executor_quote : str -> str -> str -> str res

val split_n2 : str -> str -> str list

val re_start : z -> bool

val re_char : z -> bool

val re_identifier : str -> bool

val m_tmux_pane : str

val m_bash_func : str

val m_pct2 : str

val m_export_f : str

val slice1 : str -> nat -> nat -> str res

val proxy_entry : str -> (str list * bool) res

val proxy_header : str list

val proxy_exports_go : str list -> str list -> bool -> (str list * bool) res

val proxy_exports : str list -> (str list * bool) res

val proxy_script : str list -> str -> (str * bool) res

val vopt_ws : str list option -> val0

val dispatch_exec : z -> val0 -> val0 option

val nL : z

val split_nl_aux : str -> str -> str list

val split_nl : str -> str list

val is_nl : z -> bool

val trim_nl : str -> str

val entries : str -> str list

val strip_empty : str list -> str list

val submitted : str list -> str list

val stored_after : nat -> str list -> str list -> str list

type nav_op =
| NEdit of str
| NPrev
| NNext

type nav = { nv_text : (nat -> str); nv_cur : nat; nv_last : nat }

val nav_step : nav -> nav_op -> nav

type hist = { h_lines : str list; h_modified : (nat * str) list; h_max : 
              nat; h_cursor : nat }

type fs = str option

val go_trim_nl : str -> str

val go_split_nl : str -> str list

val last_str : str list -> str res

val new_history : fs -> nat -> (hist * fs) res

val h_append : hist -> fs -> str -> (hist * fs) res

val assoc : nat -> (nat * str) list -> str option

val h_override : hist -> str -> hist res

val h_current : hist -> str res

val h_previous : hist -> (hist * str) res

val h_next : hist -> (hist * str) res

type sop =
| Edit of str
| Prev
| Next

type sess = { s_hist : hist; s_input0 : str; s_seen : str list }

val sess_step : sess -> sop -> sess res

val sess_steps : sess -> sop list -> sess res

type session = { ss_ops : sop list; ss_submit : bool }

val run_session : nat -> fs -> session -> ((fs * str list) * str) res

type hopt =
| HFile of str
| HNoFile
| HSize of nat
| HOther

val dEFAULT_HISTORY_SIZE : nat

val eff_file : str option -> hopt list -> str option

val eff_size : nat -> hopt list -> nat

val eff_config : hopt list -> (str * nat) option

type ending =
| EndAccept of bool
| EndPrintQuery
| EndBecome
| EndAbort

val submits : ending -> bool

val proc_step :
  (str * nat) option -> ending -> str -> str -> str list -> str list

val has_size : hopt list -> bool

val has_file : hopt list -> bool

val layered_ok : bool -> hopt list list -> bool

type hcfg = (str * nat) option

val parse_words : hcfg -> nat -> hopt list -> hcfg res

val parse_layer : hcfg -> hopt list -> hcfg res

val parse_layers : hcfg -> hopt list list -> hcfg res

type fsys = str -> fs

val fs_upd : fsys -> str -> fs -> fsys

val touch : fsys -> str -> fsys

val touch_words : fsys -> hopt list -> fsys

val exit_code : ending -> z

val records : ending -> bool

val nohist_steps : str -> str list -> sop list -> str * str list

type psession = { p_layers : hopt list list; p_ops : sop list; p_end : ending }

val run_psession : fsys -> psession -> (((fsys * hcfg) * str list) * str) res

type 'a pstep =
| PDo of 'a
| PTry of ending * bool

val amounts_to : 'a1 pstep list -> ending -> 'a1 list * ending

val loop_steps : sess -> sop pstep list -> (sess * ending option) res

val nohist_loop :
  str -> str list -> sop pstep list -> (str * str list) * ending option

type lsession = { l_layers : hopt list list; l_steps : sop pstep list;
                  l_end : ending }

val or_end : ending option -> ending -> ending

val run_lsession :
  fsys -> lsession -> ((((fsys * hcfg) * str list) * str) * ending) res

val vfs : fs -> val0

val as_fs : val0 -> fs

val as_sop : val0 -> sop

val as_session : val0 -> session

val d_sessions : nat -> fs -> session list -> val0 list

val d_spec_stored : nat -> fs -> str list -> val0

val spec_nav_run : nav -> sop list -> str list

val spec_nav : str list -> sop list -> str list

val as_hopt : val0 -> hopt

val as_layers : val0 -> hopt list list

val as_ending : val0 -> ending

val as_psession : val0 -> psession

val vcfg : hcfg -> val0

val as_cfg0 : val0 -> hcfg

val fsys_of : val0 list -> fsys

val d_psessions : str list -> fsys -> psession list -> val0 list

val vending : ending -> val0

val as_pstep : val0 -> sop pstep

val as_lsession : val0 -> lsession

val vsop : sop -> val0

val d_lsessions : str list -> fsys -> lsession list -> val0 list

val dispatch_history : z -> val0 -> val0 option

val cRLF : str

val prefixb : str -> str -> bool

val infixb : str -> str -> bool

val frev : str -> str

val find_crlf : str -> nat option

val cut_line : str -> (str * str) option

val take_while1 : (z -> bool) -> str -> str

val split_on_aux : z -> str -> str -> str list

val split_on1 : z -> str -> str list

val split_first : z -> str -> (str * str) option

val digit : z -> bool

val digits_val0 : str -> z -> z option

val iNT_MAX : z

val atoi0 : str -> z option

val print_dec_aux : nat -> nat -> str -> str

val print_dec : nat -> str

val ascii_space0 : z -> bool

val uspace_seqs : str list

val strip_any : str list -> str -> str option

val trim_left_f : str list -> nat -> str -> str

val trim_left : str -> str

val trim_right : str -> str

val trim_space0 : str -> str

val is_crlf_char : z -> bool

val trim_crlf : str -> str

val lower_name : str -> str

val s_CONTENT_LENGTH : str

val s_X_API_KEY : str

val mAX_CONTENT_LENGTH : z

type hstate = { h_clen : z; h_key : str }

val h0 : hstate

val header_line : hstate -> str -> hstate option

val s_POST : str

val s_GET : str

val s_HTTP : str

val qchar : z -> bool

val get_match : str -> str option

val s_LIMIT : str

val s_OFFSET : str

val get_params : str -> z * z

type verdict =
| VAccept
| VEmpty
| VError of str

val spec_headers : nat -> str -> hstate -> (hstate * str) option

val key_ok : str -> str -> bool

val spec_body : str -> str -> str option

val s_HTTP11 : str

val s_CLEN_HDR : str

val reason : z -> str

val status_line_ok : str -> z option

val resp_headers : nat -> str -> str option -> (str option * str) option

val wf_response : str -> z option

val s_LOCALHOST : str

val s_LOOPBACK : str

val is_local : str -> bool

val key_presentable : str -> bool

val key_of_line : str -> str -> str

val spec_key_lines : nat -> str -> str -> str

val spec_presented_key : str -> str

val spec_get_request : str -> (z * z) option

val spec_window : 'a1 list -> z -> z -> 'a1 list

val response_body : str -> str option

val sTART_BUF : z

val mAX_TOKEN : z

type scanner = { sc_cap : z; sc_start : z; sc_data : str; sc_rest : str list;
                 sc_eof : bool }

val sc_init : str list -> scanner

type tokres =
| Tok of nat * str
| Final of str
| NoTok

val split_fn : str -> bool -> nat -> z -> tokres

type sres =
| STok of str * scanner
| SFinal of str
| SStop
| SMore of scanner

val do_read : z -> z -> str -> str list -> sres

val refill : scanner -> sres

val scan_step : scanner -> nat -> z -> sres

type pstate = { p_section : nat; p_get : str option; p_h : hstate;
                p_body : str }

val p_init : pstate

val m_INVALID_METHOD : str

val m_CL_MISSING : str

val m_INVALID_CL : str

val m_INVALID_KEY : str

val m_INCOMPLETE : str

val m_NO_ACTION : str

val m_TIMEOUT_JSON : str

val s_CTYPE : str

type pres =
| PCont of pstate
| PBreak of pstate
| PEarly of str

val process : pstate -> str -> pres

val run2 : nat -> scanner -> pstate -> ((pstate, str) sum * bool) res

val total_len : str list -> nat

val fuel_of : str list -> nat

type outcome0 = { o_code : z; o_resp : str; o_actions : str option;
                  o_get : (z * z) option }

val code_digits : z -> str

val status_line : z -> str

val answer : z -> str -> str -> str

val bad : str -> outcome0

val unauthorized : outcome0

type decision =
| DOut of outcome0
| DGet of str
| DParse of str

val decide : str -> (pstate, str) sum -> decision

val finish0 : str -> (str -> verdict) -> bool -> decision -> outcome0

val scan_eof : str list -> ((pstate, str) sum * bool) res

val scan_all : str list -> (pstate, str) sum res

val waits_for_close : str list -> bool res

val handle :
  str -> str -> (str -> verdict) -> bool -> str list -> outcome0 res

val pending_body : str -> str list -> str option res

type listen_res =
| LAddrInvalid
| LPortInvalid
| LOk of str * z

val parse_listen_address : str -> listen_res

type start_res =
| StartRefusedNoKey
| StartListen of str * z
| StartBadAddress of listen_res

val start_decision : str -> str -> start_res

val stored_key : str -> str

val serve :
  str -> str -> str -> (str -> verdict) -> bool -> str list -> outcome0
  option res

val as_verdict : val0 -> verdict

val vopt_str : str option -> val0

val v_outcome : outcome0 -> val0

val v_start : start_res -> val0

val dispatch_http : z -> val0 -> val0 option

type sitem = z * str

val current_items : sitem option -> sitem list

val plus_items : sitem option -> sitem list -> sitem list

val join_with : str -> str list -> str

val file_text : str -> str list -> str

val item_text : bool -> str -> str

val force_update_of : str -> bool

val plus_of : str -> bool

val preview_flags : piece list -> (bool * bool) * bool

val has_preview_flags : str -> (bool * bool) * bool

val min_item : item2

val opt_items : item2 option -> item2 list

val build_plus_list :
  str -> bool -> item2 option -> item2 list -> bool * (item2 list * item2
  list)

val with_items : params -> item2 list -> item2 list -> params

val terminal_expand :
  params -> item2 option -> item2 list -> str -> str list ->
  (bool * (str * str list)) res

val own_files : params -> piece -> str list res

type ritem = { r_index : z; r_text : str; r_orig : str option }

val trimmed_of : ((str * aoff list option) * astate option) -> str

val ansi_processor : bool -> bool -> astate option -> str -> str res

val read_item :
  bool -> bool -> astate option -> str option -> z -> str -> ritem res

val as_string : bool -> ritem -> str res

val terminal_strip_ansi : bool -> bool -> bool

val seen_item : bool -> ritem -> item2 res

val seen_opt : bool -> ritem option -> item2 option res

val view_terminal_expand :
  bool -> bool -> params -> ritem option -> ritem list -> str -> str list ->
  (bool * (str * str list)) res

type rline = (astate option * str option) * (z * str)

val read_line : bool -> bool -> rline -> ritem res

val vopt_words : str list option -> val0

val as_item1 : val0 -> item2

val as_optstr : val0 -> str option

val as_params : val0 -> params

val as_seg : val0 -> seg

val v_outp : outp -> val0

val v_piece : piece -> val0

val v_item : item2 -> val0

val as_optitem : val0 -> item2 option

val dispatch_placeholder : z -> val0 -> val0 option

val as_rline : val0 -> rline

val dispatch_itemview : z -> val0 -> val0 option

type jread =
| JNone
| JSlice of nat * nat

val jread_safeb : nat -> jread -> bool

val take_res : str -> nat -> str res

val drop_res : str -> nat -> str res

val slice2 : str -> nat -> nat -> str res

val jump_label_with :
  (nat -> nat -> bool) -> str -> nat -> nat -> str option res

val rows_res : (nat -> 'a1 res) -> nat -> nat -> 'a1 list res

val jump_frame_with :
  (nat -> nat -> bool) -> str -> nat -> nat -> str option list res

val jump_frame : str -> nat -> nat -> str option list res

val jump_frame_le : str -> nat -> nat -> str option list res

val jump_reads_with : (nat -> nat -> bool) -> nat -> nat -> jread list

val index_of : z -> str -> nat -> nat option

val jump_pick : str -> z -> nat -> nat -> nat -> nat option

val v_labels : str option list res -> val0

val dispatch_jump : z -> val0 -> val0 option

type 'item result = 'item * z

val matches_of :
  ('a2 -> 'a1 -> z option) -> 'a2 -> 'a1 list -> 'a1 result list

val rank_before : ('a1 -> z) -> bool -> 'a1 result -> 'a1 result -> bool

val rank_insert :
  ('a1 -> z) -> bool -> 'a1 result -> 'a1 result list -> 'a1 result list

val rank_sort : ('a1 -> z) -> bool -> 'a1 result list -> 'a1 result list

val oracle :
  ('a1 -> z) -> ('a2 -> 'a1 -> z option) -> ('a2 -> bool) -> ('a2 -> bool) ->
  bool -> bool -> 'a2 -> 'a1 list -> 'a1 list

type 'item lop =
| LPush0 of 'item
| LReject
| LClear
| LSnap of nat

val trim : nat -> 'a1 list -> 'a1 list

val live : 'a1 list -> 'a1 lop list -> 'a1 list list

val zseq0 : z -> nat -> z list

val gaps_from : z -> z -> z list -> z list

val numbering_gaps : z list -> z list

val set_at0 : 'a1 list -> nat -> 'a1 -> 'a1 list

val number_from : z -> 'a1 list -> (z * 'a1) list

val load_seq : nat -> 'a1 list -> 'a1 list * (z * 'a1) list

type 'd sop0 =
| SLine of 'd
| SSnap of nat

val lines_of : 'a1 sop0 list -> 'a1 list

val reader_lops : nat -> nat -> z -> 'a1 sop0 list -> (z * 'a1) lop list

val live_end : 'a1 list -> 'a1 lop list -> 'a1 list

type llabel =
| LdPush of nat
| LdSnap of nat

val chunk_size : nat

type 'item cell0 = 'item list

type 'item store = 'item cell0 list

type 'item clist = { cl_store : 'item store; cl_chunks : nat list }

val cl_empty : 'a1 clist

val alloc : 'a1 store -> 'a1 cell0 -> 'a1 store * nat

val deref_all : 'a1 store -> nat list -> 'a1 cell0 list res

val last_of : 'a1 -> 'a1 list -> 'a1

val last_opt : 'a1 list -> 'a1 option

val count_items : nat list -> nat

val push_gen : 'a1 clist -> 'a1 option -> 'a1 clist res

val push : 'a1 clist -> 'a1 -> 'a1 clist res

val clear : 'a1 clist -> 'a1 clist

val num_keep : nat -> nat list -> nat

val trim_rev :
  'a1 store -> nat -> nat list -> (('a1 store * nat list) * nat list) res

val dup : 'a1 store -> nat -> ('a1 store * nat) res

type 'item snap_result = { sn_cl : 'item clist; sn_ids : nat list;
                           sn_count : nat; sn_changed : bool;
                           sn_retired : nat list }

val snap_trim : 'a1 clist -> nat -> (('a1 clist * bool) * nat list) res

val snap_dup_first :
  'a1 store -> nat list -> nat -> ('a1 store * nat list) res

val snap_dup_last : 'a1 store -> nat list -> ('a1 store * nat list) res

val snapshot : 'a1 clist -> nat -> 'a1 snap_result res

type 'item cop =
| CPush of 'item
| CReject
| CClear
| CSnap of nat

val cstep :
  ('a1 clist * 'a1 snap_result list) -> 'a1 cop -> ('a1 clist * 'a1
  snap_result list) res

val cstep1 : 'a1 clist -> 'a1 cop -> 'a1 clist res

type 'd bstate = { b_header : 'd list; b_next : z }

val b_init : 'a1 bstate

val build : nat -> 'a1 bstate -> 'a1 -> (z * 'a1) option * 'a1 bstate

type 'd lstate = { ls_cl : (z * 'd) clist;
                   ls_snaps : (z * 'd) snap_result list; ls_b : 'd bstate;
                   ls_q : 'd list list }

val ld_init : 'a1 list list -> 'a1 lstate

val ld_step : nat -> 'a1 lstate -> llabel -> 'a1 lstate res

val ld_run : nat -> 'a1 lstate -> llabel list -> 'a1 lstate res

val v_item0 : (z * z) -> val0

val v_items : (z * z) list -> val0

val as_label : val0 -> llabel

val as_sop0 : val0 -> z sop0

val v_flat : (z * z) list list res -> val0

val v_lens : (z * z) list list res -> val0

val d_loader : val0 -> val0

val d_reader : val0 -> val0

val dispatch_loader : z -> val0 -> val0 option

type cluster = str * nat

val widths : cluster list -> nat

val text : cluster list -> str

val marker_width_ok : cluster list -> bool

val e_MARKER_WIDTH : z

val mm_loop :
  cluster list -> z -> z -> nat -> cluster list list -> cluster list list res

val marker_multi : cluster list -> cluster list list outcome res

val dec_cluster : val0 -> cluster

val dispatch_marker : z -> val0 -> val0 option

val query_cache_max : nat

type 'r centry0 = (nat * str) * 'r list

type 'r cache = { c_entries : 'r centry0 list; c_gen : nat }

val cache_new : 'a1 cache

val is_full : nat -> bool

val efind : 'a1 centry0 list -> nat -> str -> 'a1 list option

val cfind : 'a1 cache -> nat -> str -> 'a1 list option

val cache_add_gen :
  nat option -> 'a1 cache -> nat -> nat -> str -> 'a1 list -> 'a1 cache

val cache_add : 'a1 cache -> nat -> nat -> str -> 'a1 list -> 'a1 cache

val cache_add_rule :
  bool -> nat -> 'a1 cache -> nat -> nat -> str -> 'a1 list -> 'a1 cache

val cache_lookup : 'a1 cache -> nat -> nat -> str -> 'a1 list option

val search_from : 'a1 cache -> nat -> str -> nat -> nat -> 'a1 list option

val cache_search : 'a1 cache -> nat -> nat -> str -> 'a1 list option

val cache_retire : 'a1 cache -> nat list -> 'a1 cache

val cache_clear : 'a1 cache -> 'a1 cache

val cache_invalidate : 'a1 cache -> 'a1 cache

val merger_cache_max : z

type revision = z * z

val rev_eqb0 : revision -> revision -> bool

type rules0 = { rule_prev : bool; rule_seq : bool; rule_gen : bool }

val rules_fixed : rules0

type ('item, 'pat) penv = { e_idx : ('item -> z);
                            e_matchf : ('pat -> 'item -> z option);
                            e_pkey : ('pat -> str); e_ckey : ('pat -> str);
                            e_pgen : ('pat -> nat);
                            e_cacheable : ('pat -> bool);
                            e_sortable : ('pat -> bool);
                            e_empty : ('pat -> bool); e_rules : rules0;
                            e_tac : bool; e_parts : nat }

type 'item result0 = 'item * z

type 'item chunk = nat * 'item list

type 'item ccache = 'item result0 cache

type ('item, 'pat) request = { r_chunks : 'item chunk list; r_pat : 'pat;
                               r_final0 : bool; r_sort0 : bool;
                               r_rev0 : revision }

type 'item merger_body =
| MPass of 'item list list
| MLists of 'item result0 list list * bool

type 'item merger = { mg_body : 'item merger_body; mg_tac : bool;
                      mg_final : bool; mg_rev : revision }

val merger_count : 'a1 merger -> nat

val merger_cacheable : 'a1 merger -> bool

val set_final : 'a1 merger -> bool -> 'a1 merger

val merger_view : ('a1, 'a2) penv -> 'a1 merger -> 'a1 list

val match_items : ('a1, 'a2) penv -> 'a2 -> 'a1 list -> 'a1 result0 list

val pattern_match :
  ('a1, 'a2) penv -> 'a1 ccache -> 'a2 -> 'a1 chunk -> 'a1 result0 list * 'a1
  ccache

val slice_go : nat -> nat -> 'a1 list -> 'a1 list list

val slice_chunks : ('a1, 'a2) penv -> 'a3 list -> 'a3 list list

type ('item, 'pat) box = { b_retry : (nat * ('item, 'pat) request) option;
                           b_reset : (nat * ('item, 'pat) request) option;
                           b_seq : nat }

val box_empty : ('a1, 'a2) box

val box_clear : ('a1, 'a2) box -> ('a1, 'a2) box

val box_post : ('a1, 'a2) box -> bool -> ('a1, 'a2) request -> ('a1, 'a2) box

val box_take :
  ('a1, 'a2) penv -> ('a1, 'a2) box -> bool -> ('a1, 'a2) request option

val box_has_reset : ('a1, 'a2) box -> bool

type 'item wstate =
| WRun
| WDone of 'item result0 list
| WAbort

type 'item worker = { w_todo : 'item chunk list;
                      w_acc : 'item result0 list list; w_st : 'item wstate }

type 'item phase =
| PRecv
| PCollect
| PCancel
| PRet of 'item result0 list list option

type ('item, 'pat) sstate0 = { s_cache : 'item ccache;
                               s_ws : 'item worker list; s_total : nat;
                               s_sent : nat; s_recv : nat;
                               s_cancelled : bool; s_box : ('item, 'pat) box;
                               s_phase : 'item phase }

type ('item, 'pat) label0 =
| LWork of nat
| LRecv
| LCollect
| LJoin
| LPost of bool * ('item, 'pat) request
| LInvalidate

val finish1 :
  ('a1, 'a2) penv -> bool -> 'a1 result0 list list -> 'a1 result0 list

val work :
  ('a1, 'a2) penv -> 'a2 -> bool -> ('a1, 'a2) sstate0 -> nat -> ('a1, 'a2)
  sstate0

val all_done : 'a1 worker list -> 'a1 result0 list list option

val none_running : 'a1 worker list -> bool

val sstep0 :
  ('a1, 'a2) penv -> 'a2 -> bool -> ('a1, 'a2) sstate0 -> ('a1, 'a2) label0
  -> ('a1, 'a2) sstate0

val srun0 :
  ('a1, 'a2) penv -> 'a2 -> bool -> ('a1, 'a2) sstate0 -> ('a1, 'a2) label0
  list -> ('a1, 'a2) sstate0

val sinit :
  ('a1, 'a2) penv -> 'a1 ccache -> ('a1, 'a2) box -> 'a1 chunk list -> ('a1,
  'a2) sstate0

val sidle : 'a1 ccache -> ('a1, 'a2) box -> ('a1, 'a2) sstate0

val fair_sched : ('a1, 'a2) penv -> 'a1 chunk list -> ('a1, 'a2) label0 list

type 'item mstate = { m_sort : bool; m_rev : revision;
                      m_mcache : (str * 'item merger) list; m_prev : 
                      nat; m_cache : 'item ccache }

val minit : bool -> revision -> 'a1 mstate

val mc_find : (str * 'a1 merger) list -> str -> 'a1 merger option

val req_count : ('a1, 'a2) request -> nat

val mc_decide :
  ('a1, 'a2) penv -> 'a1 mstate -> ('a1, 'a2) request -> ('a1 merger
  option * (str * 'a1 merger) list) * nat

val loop_body :
  ('a1, 'a2) penv -> 'a1 mstate -> ('a1, 'a2) box -> ('a1, 'a2) request ->
  ('a1, 'a2) label0 list -> (('a1 mstate * ('a1, 'a2) box) * 'a1 merger
  option) res

type ('item, 'pat) event =
| EPost of bool * ('item, 'pat) request
| EInvalidate
| EIter of bool * ('item, 'pat) label0 list

type ('item, 'pat) lstate0 = { l_m : 'item mstate; l_box : ('item, 'pat) box;
                               l_pubs : (('item, 'pat) request * 'item
                                        merger) list; l_glast : nat }

val linit : bool -> revision -> ('a1, 'a2) lstate0

val lstep :
  ('a1, 'a2) penv -> ('a1, 'a2) lstate0 -> ('a1, 'a2) event -> ('a1, 'a2)
  lstate0 res

val lrun :
  ('a1, 'a2) penv -> ('a1, 'a2) lstate0 -> ('a1, 'a2) event list -> ('a1,
  'a2) lstate0 res

type wpat = { wp_text : str; wp_ckey : str; wp_cacheable : bool;
              wp_sortable : bool; wp_empty : bool; wp_tab : (z * z) list;
              wp_gen : nat }

val tab_find : (z * z) list -> z -> z option

val w_matchf : wpat -> z -> z option

val w_idx : z -> z

val as_pair : val0 -> z * z

val as_wpat : val0 -> wpat

val vints : z list -> val0

val as_ints : val0 -> z list

val vopt0 : z list option -> val0

val as_cop : val0 -> z cop

val as_lop : val0 -> z lop

val v_cells : z list list res -> val0

val d_chunklist : z cop list -> val0

val d_cache : z cache -> val0 list -> val0 list

type wreq = (z, wpat) request

type wchunk = nat * z list

val wenv : rules0 -> bool -> nat -> (z, wpat) penv

val chunk_find : wchunk list -> nat -> wchunk

val as_chunk : val0 -> wchunk

val pat_nth : wpat list -> nat -> wpat

val as_req : wpat list -> wchunk list -> val0 -> wreq

val v_pub : (z, wpat) penv -> z merger -> val0

val as_rules : val0 -> rules0

val as_env : val0 -> (z, wpat) penv

val d_loop : val0 -> val0

val d_scans : val0 -> val0

val d_twoslot : val0 -> val0

val d_pmatch : val0 -> val0

val d_oracle : val0 -> val0

val d_slices : val0 -> val0

val dispatch_matcher : z -> val0 -> val0 option

type mev = { e_x : z; e_y : z; e_down : bool; e_taken : bool; e_barlen : z }

type geom = { g_top : z; g_left : z; g_h : z; g_w : z; g_min : z;
              g_layout : z; g_lines : z }

type outcome1 =
| Stop
| Row of z

val safeb : geom -> outcome1 -> bool

type mst = { s_wasDown : bool; s_bar : bool }

val mst0 : mst

val enclose : geom -> z -> z -> bool

val translate : geom -> z -> z

val mouse_step : geom -> mst -> mev -> mst * outcome1

val mouse_run : geom -> mst -> mev list -> outcome1 list

val as_geom : val0 -> geom

val as_mev : val0 -> mev

val v_outcome0 : outcome1 -> val0

val dispatch_mouse : z -> val0 -> val0 option

type field = nat

val f_FUZZY : field

val f_EXTENDED : field

val f_NORMALIZE : field

val f_ALGO : field

val f_SCHEME : field

val f_CRITERIA : field

val f_NTH : field

val f_DELIM : field

val f_SORT : field

val f_MULTI : field

val f_HEIGHT : field

val f_QUERY : field

val f_FILTER : field

val f_HISTORY : field

val f_HISTMAX : field

val f_HEADER : field

val f_HEADERLINES : field

val f_LISTEN : field

val f_UNSAFE : field

val f_WALKER : field

val f_WALKERROOT : field

val f_WALKERSKIP : field

val f_PROMPT : field

val f_GHOST : field

val f_TABSTOP : field

val f_HSCROLLOFF : field

val f_SCROLLOFF : field

val f_MOUSE : field

val f_BOLD : field

val f_HSCROLL : field

val f_MULTILINE : field

val f_CLEAR : field

val f_UNICODE : field

val f_INFOCMD : field

val f_WITHSHELL : field

val f_PREVIEW : field

val f_TMUX : field

val f_TMUXIDX : field

val f_HEIGHTIDX : field

val f_HAFTER : field

val f_HMAXLOCAL : field

val nOBSERVABLE : nat

val t : val0

val fv : val0

val vnone : val0

val vsome : val0 -> val0

val is_digit2 : z -> bool

val digits_val1 : z -> str -> z option

val atoi1 : str -> z option

val sequence : 'a1 option list -> 'a1 list option

val s_default : str

val s_path : str

val s_history : str

val s_v1 : str

val s_v2 : str

val s_reverse : str

val s_reverse_list : str

val s_localhost : str

val s_file : str

val s_dir : str

val s_hidden : str

val s_follow : str

val crit_names : (str * z) list

val scheme_criteria : str -> z list option

val vints0 : z list -> val0

val p_UP : z

val p_DOWN : z

val p_LEFT : z

val p_RIGHT : z

val p_CENTER : z

val sz : z -> bool -> val0

val mk_tmux : z -> val0 -> val0 -> bool -> val0

val default_tmux : val0

val e_UNKNOWN_OPTION : z

val e_VALUE_REQUIRED : z

val e_BAD_VALUE : z

val e_UNEXPECTED_VALUE : z

val e_VALIDATION : z

val e_HISTORY : z

type cfg0 = { fv0 : (field -> val0); kmap : keymap; expect : key list }

val setf : field -> val0 -> cfg0 -> cfg0

val setfs : (field * val0) list -> cfg0 -> cfg0

type env = { isdir : (str -> bool); histok : (str -> bool); tty : bool }

type pid =
| PStr
| PSomeStr
| PInt
| PPosInt
| PAlgo
| PScheme
| PTiebreak
| PNth
| PNthT
| PDelim
| PLayout
| PHeight
| PLines
| PWalker
| PSkip

val mem_z : z -> z list -> bool

val tb_loop : str list -> z list -> z list -> bool -> z list option

val parse_tiebreak : str -> z list option

val dOT : z

val find_dotdot : str -> str -> (str * str) option

val nonzero : z option -> z option

val new_range0 : z -> z -> z * z

val parse_range0 : str -> (z * z) option

val nth_char : z -> bool

val nth_expr : str -> bool

val split_nth0 : str -> (z * z) list option

val placeholder_here : str -> bool

val has_placeholder : str -> bool

val nth_transformer_ok : str -> bool

val delim_unescape : str -> str

val parse_height : str -> val0 option

val str_lines : str -> str list

val walker_loop : str list -> bool -> bool -> bool -> bool -> val0 option

val parse_listen : str -> val0 option

val is_cc : z -> bool

val split_cc : str -> bool -> str -> str list

val parse_size100 : str -> val0 option

val s_border_native : str

val s_center : str

val s_top : str

val s_up : str

val s_bottom : str

val s_down : str

val s_left : str

val s_right : str

val cut_first : str -> str list -> str list option

val parse_tmux : str -> val0 option

val run_parser : pid -> str -> val0 list option

type okind =
| KFlag of (field * val0) list
| KReq of field list * pid
| KOptNum of field * z
| KListen of bool
| KDirs of field
| KHistory
| KHistorySize
| KExpect
| KNoExpect
| KBind
| KTmux

val height_zero : val0

val mAX_MULTI : z

val opt_table : (str * okind) list

val kind_writes : okind -> field list

val consumes_val : okind -> bool

val break_eq : str -> str -> str * str option

val split_arg : str -> str * str option

val s_q0 : str

val s_f0 : str

val s_d : str

val s_n : str

val s_s : str

val s_m : str

val attached : str -> (okind * str option) option

val resolve : str -> (okind * str option) option

val writes : str -> field list

val starts_with : z -> str -> bool

val next_string : str option -> str list -> (str * nat) option

val take_dirs : env -> str list -> str list

val history_set : cfg0 -> bool

val stamp_req : pid -> nat -> cfg0 -> cfg0

val tmux_ws : val0 -> nat -> (field * val0) list

val exec :
  env -> nat -> okind -> str option -> cfg0 -> str list -> (cfg0 * nat)
  outcome res

val step1 : env -> nat -> cfg0 -> str -> str list -> (cfg0 * nat) outcome res

val go : env -> cfg0 -> nat -> nat -> str list -> cfg0 outcome res

val as_z : val0 -> z

val end_validate : cfg0 -> cfg0 outcome

val layer_init : cfg0 -> cfg0

val parse_layer0 : env -> nat -> cfg0 -> str list -> cfg0 outcome res

val parse_layers0 : env -> nat -> cfg0 -> str list list -> cfg0 outcome res

val s_dotgit : str

val s_node_modules : str

val s_prompt : str

val default_cfg : cfg0

val s_reload : str

val s_reload_sync : str

val s_transform : str

val s_start : str

val reload_on_start : cfg0 -> bool

val finalize : env -> cfg0 -> cfg0

val parse_all : env -> str list -> str list -> str list -> cfg0 outcome res

val dec_env : val0 -> env

val enc_cfg : cfg0 -> val0

val option_effect : str -> str -> val0

val dispatch_option : z -> val0 -> val0 option

val eXIT_OK : z

val eXIT_NOMATCH : z

val eXIT_ERROR : z

val eXIT_INTERRUPT : z

val nLb : z

val nULb : z

val terminator : bool -> z

val frame : z -> str list -> str

val opt_part : bool -> str -> str list

val shown : bool -> (str -> str) -> str -> str

val matched_from : (nat -> str -> bool) -> nat -> str list -> str list

val matched_records : (nat -> str -> bool) -> str list -> str list

val filter_parts : bool -> str -> str list -> str list

val unsorted_body :
  bool -> bool -> (str -> str) -> (nat -> str -> bool) -> str list -> str list

type ending0 =
| EAccept
| EPrintQuery
| EAbort
| EError

val exit_status : ending0 -> str list -> z

val accept_parts :
  bool -> str -> bool -> str -> str list -> str list -> str list

val stdout_of :
  ending0 -> z -> bool -> str -> bool -> str -> str list -> str list -> str

val sel_mem0 : ('a1 -> nat) -> 'a1 -> 'a1 list -> bool

val sel_remove0 : ('a1 -> nat) -> 'a1 -> 'a1 list -> 'a1 list

val sel_add0 : ('a1 -> nat) -> nat -> 'a1 -> 'a1 list -> 'a1 list * bool

val sel_toggle0 : ('a1 -> nat) -> nat -> 'a1 -> 'a1 list -> 'a1 list

val sel_add_all0 : ('a1 -> nat) -> nat -> 'a1 list -> 'a1 list -> 'a1 list

val sel_remove_all0 : ('a1 -> nat) -> 'a1 list -> 'a1 list -> 'a1 list

val sel_toggle_all0 : ('a1 -> nat) -> nat -> 'a1 list -> 'a1 list -> 'a1 list

val result_body : 'a1 option -> 'a1 list -> 'a1 list

val is_blank1 : z -> bool

val is_space_ascii : z -> bool

val trim_right0 : str -> str

val take_while2 : ('a1 -> bool) -> 'a1 list -> 'a1 list

val awk_fields_fuel : nat -> str -> str list

val awk_fields : str -> str list

type sel_event =
| SToggle of nat
| SSelect of nat
| SDeselect of nat
| SSelectAll of nat list
| SDeselectAll of nat list
| SToggleAll of nat list
| SClear
| SPrint of str

val ev_step : nat -> (nat list * str list) -> sel_event -> nat list * str list

val session_result :
  z -> bool -> str -> bool -> str -> (nat -> str) -> nat -> sel_event list ->
  nat option -> ending0 -> str * z

val strip_prefix0 : str -> str -> str option

val remove_first : str -> str list -> str list

val dedup : str list -> str list

val framed_perm : nat -> z -> str list -> str -> bool

val filter_verdict :
  bool -> bool -> bool -> bool -> bool -> str -> (str -> str) -> (nat -> str
  -> bool) -> str list -> str -> z -> bool * bool

val str_fields_fuel : nat -> str -> str -> str -> str list

val str_fields : str -> str -> str list

val in_set : str -> z -> bool

val set_fields_fuel : nat -> str -> bool -> str -> str -> str list

val set_fields : str -> bool -> str -> str list

type field_delim =
| FAwk
| FStr of str
| FSet of str * bool

val fields_of : field_delim -> str -> str list

type fexpr = z * z

val field_pos : z -> z -> z

val select_fields : str list -> fexpr -> str list

val exprs_text : str list -> fexpr list -> str

val ends_with : str -> str -> bool

val strip_last_delim : field_delim -> str -> str

val decimal_fuel : nat -> nat -> str

val decimal : nat -> str

type tpart =
| TLit of str
| TIndex
| TFields of fexpr list

type accept_expr =
| AFields of fexpr list
| ATemplate of tpart list

val accept_text : field_delim -> accept_expr -> nat -> str -> str

val exitOk : z

val exitNoMatch : z

val exitError : z

val exitInterrupt : z

type item3 = { it_index : nat; it_text : str; it_orig : str option }

type oopts = { o_ansi : bool; o_with_nth : bool; o_print0 : bool;
               o_print_query : bool; o_sort : bool; o_tac : bool;
               o_sync : bool }

type delim =
| DAwk
| DStr of str

type range = { r_begin : z; r_end : z }

type nth_part =
| PStr0 of str
| PIndex
| PNth0 of range list

type nth_fn =
| NthRanges of range list
| NthTemplate of nth_part list

val new_range1 : z -> z -> range

type awk_state0 =
| AwkNil0
| AwkBlack0
| AwkWhite0

val awk_loop : awk_state0 -> str -> str list -> str -> str list

val awk_tokenizer : str -> str list

val is_prefix : str -> str -> bool

val split_after_go : str -> nat -> str -> str -> str list

val split_after0 : str -> str -> str list

val tokenize0 : delim -> str -> str list

val collect_range : nat -> z -> str list -> str list res

val transform_one : str list -> range -> str res

val map_res0 : ('a1 -> 'a2 res) -> 'a1 list -> 'a2 list res

val join_transform : str list -> range list -> str res

val strip_suffix_rev : str -> str -> str option

val trim_suffix1 : str -> str -> str

val is_space_byte : z -> bool

val trim_right_space : str -> str

val strip_last_delimiter : delim -> str -> str

val itoa_fuel : nat -> z -> str -> str

val itoa1 : z -> str

val template_loop : delim -> str list -> z -> nth_part list -> str -> str res

val apply_nth : delim -> nth_fn -> str list -> z -> str res

val ansi_processor0 : (str -> str) -> oopts -> str -> str

val trans :
  (str -> str) -> (nat -> str -> str) -> oopts -> nat -> str -> item3

val as_string0 : (str -> str) -> (str -> str) -> bool -> item3 -> str

val printer : bool -> str -> str -> str

val stream_loop :
  (str -> str) -> (str -> str) -> (nat -> str -> str) -> (item3 -> bool) ->
  oopts -> nat -> str list -> str -> bool -> str * bool

val build_items :
  (str -> str) -> (nat -> str -> str) -> oopts -> nat -> str list -> item3
  list

val scan0 :
  (item3 -> bool) -> (item3 list -> item3 list) -> bool -> oopts -> item3
  list -> item3 list

val print_loop :
  (str -> str) -> (str -> str) -> oopts -> item3 list -> str -> bool ->
  str * bool

val filter_mode :
  (str -> str) -> (str -> str) -> (nat -> str -> str) -> (item3 -> bool) ->
  (item3 list -> item3 list) -> bool -> oopts -> str -> str list -> str * z

type topts = { to_ansi : bool; to_print0 : bool; to_print_query : bool;
               to_expect : bool; to_multi : nat;
               to_accept_nth : nth_fn option; to_delim : delim }

type smap = (nat * (nat * item3)) list

type sstate1 = smap * nat

val m_find : nat -> smap -> (nat * item3) option

val m_delete : nat -> smap -> smap

val select_item0 : nat -> item3 -> sstate1 -> sstate1 * bool

val deselect_item0 : item3 -> sstate1 -> sstate1

val toggle_item0 : nat -> item3 -> sstate1 -> sstate1 * bool

val insert_by_time : (nat * item3) -> (nat * item3) list -> (nat * item3) list

val sort_selected : smap -> item3 list

type term = { t_merger0 : item3 list; t_cy : z; t_sel : sstate1;
              t_queue : str list; t_input0 : str; t_pressed : str;
              t_reading : bool; t_count0 : nat }

val with_sel0 : term -> sstate1 -> term

val with_cy : term -> z -> term

val current_item0 : term -> item3 option res

val constrain0 : z -> z -> z -> z

val vset0 : term -> z -> term

val vmove0 : term -> z -> term

val accept_nth :
  (str -> str) -> (str -> str) -> topts -> nth_fn -> item3 -> str res

val out_transform : (str -> str) -> (str -> str) -> topts -> item3 -> str res

val print_items :
  (str -> str) -> (str -> str) -> topts -> item3 list -> str -> str res

val output0 :
  (str -> str) -> (str -> str) -> topts -> term -> (str * bool) res

type action0 =
| AToggle0
| ASelect0
| ADeselect0
| ASelectAll0
| ADeselectAll0
| AToggleAll0
| AClearSelection0
| AToggleDown
| AToggleUp
| AUp0
| ADown0
| AFirst0
| ALast0
| APos0 of z
| APrint of str
| AUpdate0 of str * item3 list * z
| AAccept
| AAcceptNonEmpty
| AAcceptOrPrintQuery
| APrintQuery
| AAbort
| AFatal
| AExpect of str

type outcome2 =
| Running of term
| Exited of str * z

val select_all_loop0 : nat -> item3 list -> sstate1 -> sstate1

val deselect_all_loop0 : item3 list -> sstate1 -> sstate1

val toggle_all_1 :
  nat -> item3 list -> sstate1 -> nat list -> sstate1 * nat list

val toggle_all_2 : nat -> nat -> item3 list -> sstate1 -> nat list -> sstate1

val toggle_current0 : topts -> term -> (term * bool) res

val req_close : (str -> str) -> (str -> str) -> topts -> term -> outcome2 res

val req_print_query : topts -> term -> outcome2

val do_action0 :
  (str -> str) -> (str -> str) -> topts -> term -> action0 -> outcome2 res

val run_actions :
  (str -> str) -> (str -> str) -> topts -> term -> action0 list -> outcome2
  res

val select1_exit0 :
  (str -> str) -> (str -> str) -> topts -> bool -> bool -> str -> item3 list
  -> (str * z) option res

val interactive :
  (str -> str) -> (str -> str) -> bool -> topts -> bool -> bool -> str ->
  item3 list -> nat -> action0 list -> outcome2 res

val tbl_lookup : (str * str) list -> str -> str

val as_tbl : val0 -> (str * str) list

val as_bits : val0 -> bool list

val match_by_index : bool list -> item3 -> bool

val as_oopts : val0 -> oopts

val d_filter : val0 -> val0

val d_filter_spec : val0 -> val0

val as_ranges : val0 -> range list

val as_part : val0 -> nth_part

val as_nth_fn : val0 -> nth_fn option

val as_delim : val0 -> delim

val as_topts : val0 -> topts

val pick_items : item3 list -> nat list -> item3 list

val as_action : item3 list -> val0 -> action0

val d_interactive : val0 -> val0

val as_event : val0 -> sel_event

val as_ending0 : val0 -> ending0

val d_session_spec : val0 -> val0

val as_field_delim : val0 -> field_delim

val as_fexprs : val0 -> fexpr list

val as_tpart : val0 -> tpart

val as_accept_expr : val0 -> accept_expr option

val d_session_spec_fields : val0 -> val0

val d_accept_text : val0 -> val0

val dispatch_output : z -> val0 -> val0 option

val chSP : z

val chBS : z

val chBAR : z

val chBANG : z

val chDOLLAR : z

val chQUOTE : z

val chCARET : z

type kind =
| KFuzzy
| KExact
| KBoundary
| KPrefix
| KSuffix
| KEqual

type case_mode =
| CaseSmart
| CaseIgnore
| CaseRespect

type qopts = { q_fuzzy : bool; q_extended : bool; q_case : case_mode;
               q_normalize : bool }

type sterm = { t_kind : kind; t_inv : bool; t_text : str; t_cs : bool;
               t_nm : bool }

val is_some : 'a1 option -> bool

val starts : z -> str -> bool

val ends : z -> str -> bool

val trim_left0 : str -> str

val trim_right_rev : str -> str

val trim0 : str -> str

val emit : 'a1 list -> 'a1 list list -> 'a1 list list

val tokens_aux : str -> str -> str list

val tokens : str -> str list

val lower_str : char_ops -> str -> str

val norm_str : char_ops -> str -> str

val case_of : char_ops -> case_mode -> str -> bool

val norm_of : char_ops -> bool -> str -> bool

val classify : char_ops -> qopts -> str -> sterm option

val is_bar : char_ops -> qopts -> str -> bool

val groups_aux :
  char_ops -> qopts -> str list -> sterm list -> bool -> bool -> sterm list
  list

val groups : char_ops -> qopts -> str list -> sterm list list

val query_groups : char_ops -> qopts -> str -> sterm list list

val sat_term : char_ops -> scheme -> sterm -> str -> bool

val sat_groups : char_ops -> scheme -> sterm list list -> str -> bool

val sat_basic : char_ops -> qopts -> str -> str -> bool

val sat_query : char_ops -> scheme -> qopts -> str -> str -> bool

type ttype =
| TermFuzzy
| TermExact
| TermExactBoundary
| TermPrefix
| TermSuffix
| TermEqual

type term0 = { tm_typ : ttype; tm_inv : bool; tm_text : str; tm_cs : 
               bool; tm_nm : bool }

type termSet = term0 list

type popts = { p_fuzzy : bool; p_v2 : bool; p_extended : bool;
               p_case : case_mode; p_normalize : bool; p_forward : bool;
               p_slabCap : z option }

type pattern = { pat_opts : popts; pat_cs : bool; pat_nm : bool;
                 pat_text : str; pat_sets : termSet list }

val qopts_of : popts -> qopts

val has_prefix2 : str -> z -> bool

val has_suffix2 : str -> z -> bool

val slice_from1 : str -> str res

val slice_to_last : str -> str res

val to_lower0 : char_ops -> str -> str

val normalize_runes : char_ops -> str -> str

val replace_esc : str -> str

val split_blanks : str -> str -> bool -> str list

val untab : str -> str

val case_sensitive : case_mode -> str -> str -> bool

val strip_ops : bool -> ttype -> str -> ((ttype * bool) * str) res

type pstate0 = { st_sets : termSet list; st_set : termSet;
                 st_switchSet : bool; st_afterBar : bool }

val parse_step : char_ops -> popts -> pstate0 -> str -> pstate0 res

val parse_loop : char_ops -> popts -> str list -> pstate0 -> termSet list res

val parse_terms : char_ops -> popts -> str -> termSet list res

val trim_left_m : str -> str

val trim_right_m : nat -> str -> str res

val build_pattern : char_ops -> popts -> str -> pattern res

val run_algo :
  char_ops -> scheme -> popts -> ttype -> bool -> bool -> str -> str -> bool
  -> mres res

val range_nat : nat -> nat -> nat list

val add_pos : bool -> nat list -> nat -> nat -> nat list option -> nat list

val match_set :
  char_ops -> scheme -> popts -> termSet -> str -> bool -> ((nat * nat) * z)
  option -> nat list -> (((nat * nat) * z) option * nat list) res

val extended_match :
  char_ops -> scheme -> popts -> termSet list -> str -> bool -> (nat * nat)
  list -> z -> nat list -> (((nat * nat) list * z) * nat list) res

type mitem = ((nat * nat) list * z) * nat list option

val match_item :
  char_ops -> scheme -> pattern -> str -> bool -> mitem option res

val case_of_z : z -> case_mode

val as_popts : val0 -> popts

val z_of_ttype : ttype -> z

val z_of_kind : kind -> z

val v_term : term0 -> val0

val v_sterm : sterm -> val0

val v_sets : termSet list -> val0

val v_groups : sterm list list -> val0

val v_mitem : mitem option res -> val0

val dispatch_pattern : z -> val0 -> val0 option

type tmpl = { t_id : z; t_slot : bool; t_plus : bool; t_q : bool }

type uistate = { u_focus : z; u_query : str; u_sel : z list }

type args = { a_id : z; a_item : z; a_plus : z list option;
              a_query : str option }

val expansion : tmpl -> uistate -> args

val zlist_eqb0 : z list -> z list -> bool

val opt_eqb : ('a1 -> 'a1 -> bool) -> 'a1 option -> 'a1 option -> bool

val args_eqb : args -> args -> bool

type seen_cmd = { sc_args : args; sc_alive : bool; sc_out : str list }

val alive_count : seen_cmd list -> nat

val at_most_one : seen_cmd list -> bool

val last_cmd : seen_cmd list -> seen_cmd option

val caught_up : tmpl -> uistate -> seen_cmd list -> bool

val no_stale_alive : tmpl -> uistate -> seen_cmd list -> bool

val none_alive : seen_cmd list -> bool

val explains : args list -> args list -> bool

val requested_offset : z -> z -> z -> z -> z

val constrain1 : z -> z -> z -> z

val final_offset : z -> z -> z -> z

val header_rows : z -> z -> z -> z

val zseq1 : z -> nat -> z list

val visible_lines : z -> z -> z -> z -> z list

val shows_requested_part : z -> z -> z -> z -> z -> z list -> bool

type request0 = { r_t : tmpl; r_items0 : z list; r_query0 : str }

val build_list : tmpl -> uistate -> z list

val build_req : tmpl -> uistate -> request0

val expand_req : request0 -> args res

type watcher =
| WListen
| WGrace
| WKill
| WDone0

type phase0 =
| PIdle
| PTaken of request0
| PRun of watcher * bool * bool
| PStop

type proc = { p_ver : nat; p_req : request0; p_alive : bool; p_open : 
              bool; p_out : str list }

type exit_mode =
| ExitNoWait
| ExitWaitsRunning
| ExitWaitsStopped

type policy = { pol_poll : bool; pol_exit : exit_mode; pol_early : bool }

type state = { s_ui : uistate; s_tmpl : tmpl; s_visible : bool;
               s_version : nat; s_seen0 : (z * nat) option; s_pending : 
               bool; s_box0 : request0 option; s_quit : bool; s_pver : 
               nat; s_ph : phase0; s_disp : (nat * str list) option;
               s_shown_ver : nat; s_shown : str list; s_running : bool;
               s_evtquit : bool; s_ended : bool; s_tab : proc list;
               s_gen : (z * nat) option; s_clean : bool }

val init0 : tmpl -> uistate -> state

val set_ui : state -> uistate -> nat -> state

val set_ph : state -> phase0 -> state

val set_tab_ph_disp :
  state -> proc list -> phase0 -> (nat * str list) option -> state

val cancel_ph : phase0 -> phase0

val killnow_ph : phase0 -> phase0

val refresh : bool -> state -> state

val tmpl_eqb : tmpl -> tmpl -> bool

val seen_eqb : (z * nat) option -> z -> nat -> bool

type label1 =
| LMove of z
| LQuery of str
| LSel of z list
| LChangePreview of tmpl
| LRefresh
| LToggle
| LHideWin
| LShowWin
| LRender
| LDisplay
| LTake0
| LSpawn
| LReap
| LTick
| LTimer
| LKill
| LPoll0
| LOutput of str
| LChildExit
| LCloseOut
| LExit
| LQuitPub
| LProcEnd

val hd_alive : proc list -> bool

val upd_hd : proc list -> (proc -> proc) -> proc list

val hd_open : proc list -> bool

val kill_p : proc -> proc

val out_p : str -> proc -> proc

val close_p : proc -> proc

val finish_w : watcher -> watcher

val hd_out : proc list -> str list

val is_stop : phase0 -> bool

val is_run : phase0 -> bool

val exit_ready : exit_mode -> phase0 -> bool

val step2 : policy -> label1 -> state -> state option

val step' : policy -> label1 -> state -> state

val run3 : policy -> label1 list -> state -> state

val run_strict : policy -> label1 list -> state -> state option

val enabled : policy -> label1 -> state -> bool

val internal_labels : label1 list

val stable : policy -> state -> bool

val box_empty0 : state -> bool

val quiescent0 : policy -> state -> bool

type gate =
| GateNone
| GateGe
| GateGt

val gate_open : gate -> z -> z -> bool

type sstate2 = { k_n : z; k_spin : nat option; k_off : z option;
                 k_box : (z * z option) option; k_wn : z; k_woff : z;
                 k_eof : bool; k_lost : bool; k_edge : bool }

type slabel =
| GLine
| GTick
| GEof
| RDisplay

val sinit0 : z -> z -> sstate2

val carries_offset : (z * z option) option -> bool

val sstep1 : gate -> z -> z -> slabel -> sstate2 -> sstate2 option

val srun1 : gate -> z -> z -> slabel list -> sstate2 -> sstate2

val sdone : sstate2 -> bool

val has_command : tmpl -> uistate -> bool

val window_blank : nat -> bool

val no_command_state_ok : tmpl -> uistate -> seen_cmd list -> nat -> bool

val view : 'a1 list -> nat -> nat -> 'a1 option list

val blank_rows : nat -> 'a1 option list

type presult = { pr_ver : nat; pr_lines : str list; pr_off : z }

type wstate0 = { w_ver : nat; w_lines : str list; w_off : z; w_follow : 
                 bool; m_ver : nat; m_off : z; m_num : nat; m_filled : 
                 bool; w_rows : str option list }

val winit : nat -> wstate0

val zlen : 'a1 list -> z

val d_fresh : wstate0 -> presult -> bool

val d_foll : bool -> wstate0 -> presult -> bool

val d_off : nat -> bool -> wstate0 -> presult -> z

val d_unchanged : nat -> bool -> wstate0 -> presult -> bool

val redraw_top : str list -> nat -> str option list -> str option list

val on_display : nat -> bool -> wstate0 -> presult -> wstate0

val wrun : nat -> bool -> presult list -> wstate0 -> wstate0

val as_tmpl : val0 -> tmpl

val as_ui : val0 -> uistate

val as_pol : val0 -> policy

val vopt1 : ('a1 -> val0) -> 'a1 option -> val0

val vints1 : z list -> val0

val vargs : args -> val0

val as_opt : (val0 -> 'a1) -> val0 -> 'a1 option

val as_args : val0 -> args

val as_seen : val0 -> seen_cmd

val as_label0 : val0 -> label1

val vproc : proc -> val0

val observe0 : policy -> state -> val0

val settle : label1 list

val canonical : label1 list -> label1 list

val settle_closing : label1 list

val canonical_closing : label1 list -> label1 list

val d_canonical_closing : policy -> tmpl -> uistate -> label1 list -> val0

val d_canonical : policy -> tmpl -> uistate -> label1 list -> val0

val d_spec : tmpl -> uistate -> seen_cmd list -> val0

val d_strict : policy -> tmpl -> uistate -> label1 list -> val0

val d_scroll_spec : z -> z -> z -> z -> z -> z list -> val0

val as_slabel : val0 -> slabel

val repl : nat -> 'a1 -> 'a1 list

val as_sched : val0 -> slabel list

val as_gate : val0 -> gate

val d_scroll_run : gate -> z -> z -> z -> slabel list -> val0

val d_noline_spec : tmpl -> uistate -> seen_cmd list -> nat -> val0

val mk_lines : nat -> str list

val as_presult : val0 -> presult

val d_window_run : nat -> bool -> presult list -> val0

val dispatch_preview : z -> val0 -> val0 option

type crit =
| ByScore
| ByChunk
| ByLength
| ByBegin
| ByEnd
| ByPathname

val zlen0 : 'a1 list -> z

val take_while3 : ('a1 -> bool) -> 'a1 list -> 'a1 list

val clamp16 : z -> z

val ascii_space1 : z -> bool

val is_sep1 : z -> bool

val is_space0 : (z -> bool) -> z -> bool

val not_space : (z -> bool) -> z -> bool

val lead_ws0 : (z -> bool) -> str -> z

val trail_ws0 : (z -> bool) -> str -> z

val trim_len : (z -> bool) -> str -> z

val valid_offsets : (z * z) list -> (z * z) list

val span0 : (z * z) list -> ((z * z) * z) option

val word_start : (z -> bool) -> str -> z -> z

val word_end : (z -> bool) -> str -> z -> z

val last_sep : str -> z

val key1 : (z -> bool) -> crit -> str -> (z * z) list -> z -> z

val key0 : (z -> bool) -> crit list -> str -> (z * z) list -> z -> z list

type ritem0 = { ri_index : z; ri_key : z list }

val lex_ltb : z list -> z list -> bool

val rank_ltb : bool -> ritem0 -> ritem0 -> bool

val insert : ('a1 -> 'a1 -> bool) -> 'a1 -> 'a1 list -> 'a1 list

val isort : ('a1 -> 'a1 -> bool) -> 'a1 list -> 'a1 list

val merge : ('a1 -> 'a1 -> bool) -> 'a1 list -> 'a1 list -> 'a1 list

val merge_pairs : ('a1 -> 'a1 -> bool) -> 'a1 list list -> 'a1 list list

val merge_all : ('a1 -> 'a1 -> bool) -> nat -> 'a1 list list -> 'a1 list

val msort : ('a1 -> 'a1 -> bool) -> 'a1 list -> 'a1 list

val ranked : bool -> ritem0 list -> ritem0 list

val ranked_fast : bool -> ritem0 list -> ritem0 list

val input_order : bool -> 'a1 list -> 'a1 list

val result_order : bool -> bool -> ritem0 list -> ritem0 list

type line = { ln_index : z; ln_text : str;
              ln_match : ((z * z) list * z) option }

val matched_items : (z -> bool) -> crit list -> line list -> ritem0 list

val results :
  (z -> bool) -> crit list -> bool -> bool -> bool -> nat -> line list -> z
  list

val results_fast :
  (z -> bool) -> crit list -> bool -> bool -> bool -> nat -> line list -> z
  list

val zlength : 'a1 list -> z

val getz : 'a1 list -> z -> 'a1 res

val as_uint16 : z -> z

val byScore : z

val byChunk : z

val byLength : z

val byBegin : z

val byEnd : z

val byPathname : z

type item4 = { it_index0 : z; it_text0 : str }

type points = ((z * z) * z) * z

type result1 = { r_index0 : z; r_points : points }

val set_point : points -> z -> z -> points res

val trim_back : (z -> bool) -> str -> nat -> z -> z res

val trim_front : (z -> bool) -> str -> nat -> z -> z res

val trim_length : (z -> bool) -> str -> z res

type span1 = { min_begin : z; min_end : z; max_end : z; valid_found : bool }

val scan_offsets : (z * z) list -> span1 -> span1

val chunk_b : (z -> bool) -> str -> nat -> z -> z res

val chunk_e : (z -> bool) -> str -> nat -> z -> z res

val last_delim : str -> nat -> z -> z res

val white_prefix : (z -> bool) -> str -> nat -> z -> z -> z -> z res

val crit_val : (z -> bool) -> z -> str -> span1 -> z -> z res

val fill_points :
  (z -> bool) -> z list -> z -> str -> span1 -> z -> points -> points res

val build_result :
  (z -> bool) -> z list -> item4 -> (z * z) list -> z -> result1 res

val compare_ranks : result1 -> result1 -> bool -> bool

val pack64 : points -> z

val compare_ranks_x86 : result1 -> result1 -> bool -> bool

val sort_insert : ('a1 -> 'a1 -> bool) -> 'a1 -> 'a1 list -> 'a1 list

val sort_results : ('a1 -> 'a1 -> bool) -> 'a1 list -> 'a1 list

val slicez : 'a1 list -> z -> z -> 'a1 list res

val setz : 'a1 list -> z -> 'a1 -> 'a1 list res

val sum_lengths : 'a1 list list -> z

type ('i, 'a) merger0 = { mg_lists : 'a list list; mg_merged : 'a list;
                          mg_chunks : 'i list list option;
                          mg_cursors : z list; mg_sorted : bool;
                          mg_tac0 : bool; mg_count : z }

val new_merger : 'a2 list list -> bool -> bool -> ('a1, 'a2) merger0

val pass_merger : 'a1 list list -> bool -> ('a1, 'a2) merger0

val merger_length : ('a1, 'a2) merger0 -> z

val scan_heads :
  ('a1 -> 'a1 -> bool) -> 'a1 list list -> z list -> z -> z -> 'a1 option ->
  ((z list * z) * 'a1 option) res

val extend :
  ('a1 -> 'a1 -> bool) -> nat -> 'a1 list list -> 'a1 list -> z list -> ('a1
  list * z list) res

val merged_get :
  ('a2 -> 'a2 -> bool) -> ('a1, 'a2) merger0 -> z -> ('a2 * ('a1, 'a2)
  merger0) res

val unsorted_get : 'a1 list list -> z -> 'a1 res

val merger_get :
  ('a1 -> 'a2) -> ('a2 -> 'a2 -> bool) -> z -> ('a1, 'a2) merger0 -> z ->
  ('a2 * ('a1, 'a2) merger0) res

val probes :
  ('a1 -> 'a2) -> ('a2 -> 'a2 -> bool) -> z -> ('a1, 'a2) merger0 -> z list
  -> 'a2 list res

val slices_from : 'a1 list -> nat -> z -> z -> z -> 'a1 list list res

val slice_chunks0 : z -> 'a1 list -> 'a1 list list res

val match_chunk : ('a1 -> 'a2 option) -> 'a1 list -> 'a2 list

val scan1 :
  ('a2 -> 'a2 -> bool) -> ('a1 -> 'a2 option) -> z -> bool -> bool -> bool ->
  bool -> 'a1 list list -> ('a1, 'a2) merger0 res

val lower_ascii : z -> z

val split_on2 : z -> str -> str list

type tbname =
| TLength
| TChunk
| TBegin
| TEnd
| TPathname
| TIndex0

val tbname_eqb : tbname -> tbname -> bool

val w_index : str

val w_chunk : str

val w_length : str

val w_begin : str

val w_end : str

val w_pathname : str

val w_default : str

val w_path : str

val w_history : str

val name_of : str -> tbname option

val crit_of_name : tbname -> crit list

val all_some : 'a1 option list -> 'a1 list option

val nodupb : tbname list -> bool

val index_only_last : tbname list -> bool

val names_ok : tbname list -> bool

val tiebreak_criteria : str -> crit list option

type scheme0 =
| SDefault
| SPath
| SHistory

val scheme_of0 : str -> scheme0 option

val scheme_criteria0 : scheme0 -> crit list

type copt0 =
| OScheme of str
| OTiebreak of str
| OSort of bool
| OTac of bool

type config = { cf_scheme : scheme0; cf_criteria : crit list; cf_sort : 
                bool; cf_tac : bool }

val last_some : ('a1 -> 'a2 option) -> 'a1 list -> 'a2 option

val opt_scheme : copt0 -> scheme0 option

val opt_criteria : copt0 -> crit list option

val opt_sort : copt0 -> bool option

val opt_tac : copt0 -> bool option

val opt_valid : copt0 -> bool

val configured : bool -> copt0 list -> config option

val crit_code : crit -> z

val parse_scheme : str -> (str * z list) res

type tbflags = { has_index : bool; has_chunk : bool; has_length : bool;
                 has_begin : bool; has_end : bool; has_pathname : bool }

val no_flags0 : tbflags

val flag_of : tbname -> tbflags -> bool

val set_flag : tbname -> tbflags -> tbflags

val check : tbname -> tbflags -> tbflags res

val tb_case : str -> (tbname * z list) res

val tb_loop0 : str list -> tbflags -> z list -> z list res

val parse_tiebreak0 : str -> z list res

type opts = { o_scheme : str; o_criteria : z list; o_sort0 : z; o_tac0 : bool }

val default_options : opts

val apply_opt : copt0 -> opts -> opts res

val parse_all0 : copt0 list -> opts -> opts res

val parse_options : bool -> copt0 list -> opts res

val sp_of : z list -> z -> bool

val crit_of : z -> crit

val as_offsets : val0 -> (z * z) list

val vints2 : z list -> val0

val vres : ('a1 -> val0) -> 'a1 res -> val0

val vpoints : points -> val0

val as_points : val0 -> points

val as_result : val0 -> result1

val ritem_of : result1 -> ritem0

val d_key : val0 -> val0

val d_build : val0 -> val0

val d_compare : val0 -> val0

val as_results : val0 -> result1 list

val less_of : bool -> result1 -> result1 -> bool

val idres : result1 -> result1

val d_merger : val0 -> val0

val d_pass : val0 -> val0

val d_slices0 : val0 -> val0

val as_line : val0 -> line

val d_results : bool -> val0 -> val0

val d_sort : val0 -> val0

type witem = z * result1 option

val as_witem : val0 -> witem

val d_scan : val0 -> val0

val as_ritem : val0 -> ritem0

val d_order : val0 -> val0

val as_copt : val0 -> copt0

val scheme_code : scheme0 -> z

val d_configured : val0 -> val0

val d_parse_options : val0 -> val0

val d_tiebreak : val0 -> val0

val dispatch_rank : z -> val0 -> val0 option

val is_blank2 : z -> bool

val non_blank : z -> bool

val span2 : ('a1 -> bool) -> 'a1 list -> 'a1 list * 'a1 list

val awk_fields_from : nat -> str -> str list

val awk_lead : str -> str

val awk_fields0 : str -> str list

val is_prefix0 : str -> str -> bool

val split_after_go0 : str -> nat -> str -> str -> str list

val split_after1 : str -> str -> str list

val split_by_from : nat -> (nat * nat) list -> str -> str list

val split_by : (nat * nat) list -> str -> str list

val locs_wfb : nat -> nat -> (nat * nat) list -> bool

val offsets : nat -> str list -> nat list

val nat_list_eqb : nat list -> nat list -> bool

val partition_ok : str -> str -> str list -> nat list -> bool

type fexpr0 =
| FIdx of z
| FRange of z option * z option

val resolve0 : z -> z -> z

val sel_bounds : fexpr0 -> z -> z * z

val select_fields0 : fexpr0 -> 'a1 list -> 'a1 list

val select_first : fexpr0 -> nat -> nat

val select_text : fexpr0 -> str list -> str

val select_start : fexpr0 -> nat -> str list -> nat

val digits_of : nat -> z -> str -> str

val digits : z -> str

val itoa2 : z -> str

val dOT0 : z

val print_fexpr : fexpr0 -> str

val is_space1 : z -> bool

val trim_right1 : (z -> bool) -> str -> str

val trim_both : (z -> bool) -> str -> str

val inside_selection : fexpr0 -> nat -> str list -> nat -> nat -> bool

val without_suffix : str -> str -> str option

val strip_literal : str -> str -> str

val strip_occurrence : (nat * nat) list -> str -> str

type dspec =
| DSAwk
| DSLiteral of str
| DSRegexp of (str -> (nat * nat) list)

val strip_delim : dspec -> str -> str

val output_text : dspec -> str -> str

val fields_text : fexpr0 list -> str list -> str

val map_last_pure : ('a1 -> 'a1) -> 'a1 list -> 'a1 list

val search_texts : dspec -> fexpr0 list -> str list -> str list

type tpart0 =
| TLit0 of str
| TIndex1
| TFields0 of fexpr0 list

val render_part : dspec -> str list -> z -> tpart0 -> str

val render_template : dspec -> str list -> z -> tpart0 list -> str

val placeholder_text : dspec -> bool -> fexpr0 list -> str list -> str

val nLB : z

val nUL : z

val delim_of : bool -> z

val unrev : str -> str

val split_acc : z -> str -> str -> str list

val split_records : z -> str -> str list

type item5 = nat * str

val number_from0 : nat -> str list -> item5 list

val header_of : nat -> str list -> str list

val items_of : nat -> str list -> item5 list

val keep_tail : nat -> 'a1 list -> 'a1 list

val searchable : bool -> nat -> nat -> str -> item5 list

val filter_listing : bool -> bool -> nat -> nat -> str -> item5 list

val session_views : bool -> nat -> nat -> str list -> item5 list list

val contains0 : str -> str -> bool

type fdelim =
| FAwk0
| FLit of str

val fields_of0 : fdelim -> str -> str list

val dspec_of : fdelim -> dspec

type scope =
| SWhole
| SNth of fexpr0 list
| SWithNth of fexpr0 list

val searched : fdelim -> scope -> str -> str list

val found : fdelim -> scope -> str -> str -> bool

val query_listing :
  bool -> bool -> nat -> nat -> fdelim -> scope -> str -> str -> item5 list

type slice3 = { sl_buf : nat; sl_off : nat; sl_len : nat }

type mem0 = str list

val take_exact : nat -> 'a1 list -> 'a1 list res

val drop_exact : nat -> 'a1 list -> 'a1 list res

val overwrite : 'a1 list -> 'a1 list -> 'a1 list res

val write_off : nat -> 'a1 list -> 'a1 list -> 'a1 list res

val deref : mem0 -> slice3 -> str res

val write_at : mem0 -> nat -> nat -> str -> mem0 res

val alloc0 : mem0 -> str -> mem0 * nat

val cR : z

val index_byte1 : str -> z -> nat option

type fstate = { f_mem : mem0; f_left : str; f_items : slice3 list }

val emit0 : fstate -> slice3 -> fstate res

val scan_buf : nat -> z -> bool -> nat -> nat -> str -> fstate -> fstate res

val read_retry : nat -> nat -> nat -> str -> nat list -> str * nat list

val read_tries : nat

val feed_loop :
  nat -> nat -> nat -> z -> bool -> str -> nat list -> slice3 -> fstate ->
  fstate res

val feed :
  nat -> nat -> z -> bool -> str -> nat list -> (mem0 * slice3 list) res

val deref_all0 : mem0 -> slice3 list -> str list res

val feed_records : nat -> nat -> z -> bool -> str -> nat list -> str list res

type 'a chunk0 = 'a list

type 'a chunklist = 'a chunk0 list

val is_full0 : nat -> 'a1 chunk0 -> bool

val last_chunk : 'a1 chunklist -> 'a1 chunk0 res

val count_items0 : nat -> 'a1 chunklist -> nat res

val push0 : nat -> 'a1 chunklist -> bool -> 'a1 -> 'a1 chunklist res

val num_chunks : z -> 'a1 chunk0 list -> nat

val trim_loop : z -> 'a1 chunk0 list -> 'a1 chunk0 list

val snapshot0 :
  nat -> nat -> 'a1 chunklist -> ((('a1 chunklist * 'a1
  chunklist) * nat) * bool) res

type 'a clop =
| Push of bool * 'a
| Snapshot of nat
| Clear

type 'a clobs = ('a chunklist * nat) * bool

val run_ops :
  nat -> 'a1 chunklist -> 'a1 clop list -> ('a1 chunklist * 'a1 clobs list)
  res

type bstate0 = { b_header0 : str list; b_index : nat }

val build0 : nat -> bstate0 -> str -> bstate0 * item5 option

val ingest :
  nat -> nat -> bstate0 -> item5 chunklist -> str list -> (bstate0 * item5
  chunklist) res

val pipeline :
  nat -> nat -> nat -> bool -> nat -> nat -> str -> nat list -> (str
  list * item5 list) res

type fopts = { f_read0 : bool; f_sort : bool; f_tac : bool; f_sync : 
               bool; f_hl : nat; f_tail : nat }

val streaming_rule_old : fopts -> bool

val streaming_filter : fopts -> bool

val build_all : nat -> bstate0 -> str list -> bstate0 * item5 list

val filter_run_with :
  (fopts -> bool) -> nat -> nat -> nat -> fopts -> str -> nat list -> (str
  list * item5 list) res

val filter_run :
  nat -> nat -> nat -> fopts -> str -> nat list -> (str list * item5 list) res

type cstate = { c_b : bstate0; c_cs : item5 chunklist; c_snap0 : item5 list;
                c_keep : bool }

val cinit : cstate

val restart0 : cstate -> bool -> cstate

val on_read_new : nat -> nat -> cstate -> cstate res

val on_read_fin : nat -> nat -> cstate -> cstate res

val run_batches :
  nat -> nat -> nat -> cstate -> str list -> nat list -> cstate res

type load = { l_sync : bool; l_stream : str; l_cuts : nat list;
              l_news : nat list }

val run_load :
  nat -> nat -> nat -> bool -> nat -> nat -> cstate -> load -> cstate res

val run_session0 :
  nat -> nat -> nat -> bool -> nat -> nat -> cstate -> load list -> item5
  list list res

val as_nats : val0 -> nat list

val vitem0 : item5 -> val0

val vres_strs : str list res -> val0

val d_feed : val0 -> val0

val d_split : val0 -> val0

val as_clop : val0 -> z clop

val vchunks : z chunklist -> val0

val d_clops : val0 -> val0

val d_pipeline : val0 -> val0

val d_searchable : val0 -> val0

val d_keep_tail : val0 -> val0

val d_filter_run : val0 -> val0

val d_filter_listing : val0 -> val0

val as_load : val0 -> load

val vviews : item5 list list -> val0

val d_session : val0 -> val0

val d_session_views : val0 -> val0

val as_optz6 : val0 -> z option

val as_fexpr6 : val0 -> fexpr0

val as_fdelim : val0 -> fdelim

val as_scope : val0 -> scope

val d_query_listing : val0 -> val0

val dispatch_record : z -> val0 -> val0 option

val changed_items : str list -> (z * str) list -> z list

val prefixb0 : str -> str -> bool

val contains1 : str -> str -> bool

val substr_filter : str -> z -> str list -> z list

val frozen_prefix : str list -> z -> str list

val zmem : z -> z list -> bool

val same_indexes : z list -> z list -> bool

val published_filter : str -> str list -> z -> z list

val published_changed : str list -> z -> (z * str) list -> z list

val published_ok : str -> str list -> z -> z -> z -> (z * str) list -> bool

type sreq0 = { sr_gen : nat; sr_count : nat; sr_rev : nat }

val labels_clash : sreq0 list -> bool

type cstate0 = { c_gen0 : nat; c_len : nat; c_inrev : nat; c_snapgen : 
                 nat; c_snaplen : nat; c_snaprev : nat; c_reading0 : 
                 bool; c_next0 : bool; c_usesnap0 : bool;
                 c_posted : sreq0 list }

val c_init : cstate0

type cevent =
| CPush0
| CReadNew
| CReadFin
| CSearchNew of bool option * bool

val c_restart : cstate0 -> cstate0

val c_post : cstate0 -> cstate0

val c_take : cstate0 -> cstate0

val c_label : cstate0 -> cstate0

val c_set : cstate0 -> bool -> bool -> bool -> cstate0

val c_step : bool -> cstate0 -> cevent -> cstate0

val c_run : bool -> cstate0 -> cevent list -> cstate0

val as_rrep : val0 -> z * str

val d_published : val0 -> val0

val as_cevent : val0 -> cevent

val d_coordrev : val0 -> val0

val dispatch_reload : z -> val0 -> val0 option

val sP : z

val gT : z

val lT : z

val dOT1 : z

val dASH0 : z

val sLASH : z

val lPAR : z

val rPAR : z

val mAX_MULTI0 : z

type layout =
| LDefault
| LReverse
| LReverseList

type info_style =
| IDefault
| IInline
| IHidden
| IInlineRight

type cfg1 = { c_w : nat; c_h0 : nat; c_layout : layout; c_info : info_style;
              c_sep : bool; c_header : str list; c_hlines : str list;
              c_multi0 : z; c_tabstop : nat }

type view0 = { v_prompt : str; v_query : str; v_matches : (nat * str) list;
               v_total : nat; v_cy : nat; v_off0 : nat; v_sel : nat list }

type row = z list

val blank : nat -> row

val pad : nat -> str -> row

val ell : nat -> str

val tAB : z

val tab_width : nat -> nat -> nat

val expand_from : nat -> nat -> str -> str

val expand : nat -> str -> str

val take_from : nat -> nat -> nat -> str -> str

val take_width : nat -> nat -> str -> str

val show : nat -> nat -> str -> str

val dec_aux : nat -> z -> str -> str

val dec : z -> str

val decn : nat -> str

val memb : nat -> nat list -> bool

val info_text : cfg1 -> view0 -> str

val trim_msg : nat -> str -> str

val info_tail : cfg1 -> nat -> str -> str

val prompt_text : view0 -> str

val prompt_lines : cfg1 -> nat

val nheader : cfg1 -> nat

val max_items : cfg1 -> nat

val inline_right_col : cfg1 -> view0 -> nat

val info_shown : cfg1 -> view0 -> str

val prompt_row_text : cfg1 -> view0 -> row

val info_row_text : cfg1 -> view0 -> row

val header_row_text : cfg1 -> str -> row

val item_row_text : cfg1 -> view0 -> nat -> (nat * str) -> row

val list_slot_text : cfg1 -> view0 -> nat -> row

val prompt_row : cfg1 -> nat

val info_row : cfg1 -> nat

val header_row : cfg1 -> nat -> nat

val hline_row : cfg1 -> nat -> nat

val list_row : cfg1 -> nat -> nat

val row_at : row list -> nat -> row

val rstrip_aux : str -> str * bool

val rstrip : str -> str

val row_eqb : row -> row -> bool

val prefixb1 : str -> str -> bool

val containsb : str -> str -> bool

val counter_row : cfg1 -> nat

val info_visibleb : cfg1 -> view0 -> row list -> bool

val chk : z -> bool -> z list

val chk_rows : nat -> nat -> row list -> z list

val chk_headers :
  z -> (nat -> nat) -> cfg1 -> row list -> nat -> str list -> z list

val check_faithful : cfg1 -> view0 -> row list -> z list

type mrows = { mr_wrap : bool; mr_multiline : bool; mr_sign : str;
               mr_marks : z list }

val nLc0 : z

val lines_of_aux : str -> str -> str list

val lines_of0 : str -> str list

val wrap_line : nat -> nat -> nat -> nat -> bool -> str -> (bool * str) list

val item_lines : cfg1 -> mrows -> str -> (bool * str) list

val row_body : cfg1 -> mrows -> (bool * str) -> str

val mark_of : mrows -> nat -> z

val row_mark : mrows -> bool -> bool -> bool -> nat -> nat -> z

val mapi_from : nat -> (nat -> 'a1 -> 'a2) -> 'a1 list -> 'a2 list

val is_default : cfg1 -> bool

val item_block :
  cfg1 -> mrows -> view0 -> nat -> (nat * str) -> nat -> row list

val area_from :
  cfg1 -> mrows -> view0 -> nat -> (nat * str) list -> nat -> row list

val mrows_area : cfg1 -> mrows -> view0 -> nat -> row list

val area_mismatches : cfg1 -> row list -> row list -> nat

val best_offset :
  cfg1 -> mrows -> view0 -> row list -> nat list -> (nat * nat) -> nat * nat

val check_mrows : cfg1 -> mrows -> view0 -> row list -> z list

val clampn : nat -> nat -> nat -> nat

val lines_before : nat -> nat -> nat

val lines_after : nat -> nat -> nat -> nat

val stuck : nat -> nat -> nat -> nat -> bool

val phase1 : nat -> nat -> nat -> nat -> nat -> nat

val phase3 : nat -> nat -> nat -> nat -> nat -> nat -> nat

val constrain_body : nat -> nat -> nat -> nat -> nat -> nat * nat

val constrain_loop0 : nat -> nat -> nat -> nat -> nat -> nat -> nat * nat

val constrain2 : nat -> nat -> nat -> nat -> nat -> nat * nat

val put : nat -> str -> row -> row

val clear_from : nat -> nat -> row -> row

val upd_at : nat -> ('a1 -> 'a1) -> 'a1 list -> 'a1 list

type iline = { il_valid : bool; il_empty : bool; il_cur : bool;
               il_sel : bool; il_qlen : nat; il_width : nat;
               il_idx : nat option }

val il_none : iline

val il_blank : iline

type term1 = { t_prompt : str; t_query : str; t_matches : (nat * str) list;
               t_total : nat; t_cy0 : nat; t_off : nat; t_sel0 : nat list;
               t_screen : row list; t_prev : iline list }

val t_view : term1 -> view0

val set_draw : term1 -> row list -> iline list -> term1

val set_scroll : term1 -> nat -> nat -> term1

val item_text0 : nat -> nat -> str -> str

val prompt_item_text : nat -> str -> str

val idx_is : nat option -> nat -> bool

val print_item :
  nat -> nat -> nat -> nat -> nat list -> nat -> (nat * str) -> (iline * row)
  -> iline * row

val draw_rows :
  nat -> nat -> nat -> nat -> nat list -> nat -> (nat * str) list ->
  (iline * row) list -> (iline * row) list

val list_start : cfg1 -> nat

val print_list_at : cfg1 -> term1 -> term1

val scroll_off_default : nat

val print_list : cfg1 -> term1 -> term1

val print_prompt : cfg1 -> term1 -> term1

val print_info : cfg1 -> term1 -> term1

val hdr_logical : cfg1 -> str list

val print_header_from : nat -> nat -> nat -> str list -> row list -> row list

val print_header : cfg1 -> term1 -> term1

val paint : cfg1 -> term1 -> term1

val full_redraw : cfg1 -> term1 -> term1

type reqs = { rq_prompt : bool; rq_info : bool; rq_header : bool;
              rq_list : bool; rq_full : bool }

val is_inline : cfg1 -> bool

val handle0 : cfg1 -> reqs -> term1 -> term1

type upd = { u_prompt : str; u_query0 : str; u_matches : (nat * str) list;
             u_total : nat; u_cy : nat; u_sel0 : nat list; u_reqs : reqs }

val step3 : cfg1 -> term1 -> upd -> term1

val term_of_view : view0 -> term1

val start : cfg1 -> view0 -> term1

val physical : cfg1 -> row list -> row list

val render1 : cfg1 -> view0 -> row list

type hdr = { h_visible : bool; h_header : str list; h_hlines : str list }

val with_hdr : cfg1 -> hdr -> cfg1

type dterm = { d_t : term1; d_other : bool list; d_hdr : hdr }

val logical : cfg1 -> row list -> row list

val relabel : cfg1 -> cfg1 -> row list -> row list

val il_otherv : iline

val print_item_d :
  nat -> nat -> nat -> nat -> nat list -> nat -> (nat * str) ->
  ((iline * bool) * row) -> (iline * bool) * row

val draw_rows_d :
  nat -> nat -> nat -> nat -> nat list -> nat -> (nat * str) list ->
  ((iline * bool) * row) list -> ((iline * bool) * row) list

val dset : dterm -> row list -> iline list -> bool list -> dterm

val lift : (term1 -> term1) -> dterm -> dterm

val print_list_at_d : cfg1 -> dterm -> dterm

val print_list_d : cfg1 -> dterm -> dterm

val mark_from : 'a1 -> nat -> nat -> 'a1 list -> 'a1 list

val print_header_d : cfg1 -> dterm -> dterm

val print_all_d : cfg1 -> dterm -> dterm

val full_redraw_d : cfg1 -> dterm -> dterm

val resize_needed : cfg1 -> bool

val handle_d : cfg1 -> reqs -> dterm -> dterm

type dupd = { du_hdr : hdr; du_upd : upd }

val step_d : cfg1 -> dterm -> dupd -> dterm

val start_d : cfg1 -> hdr -> view0 -> dterm

val ghost_on : str -> str -> bool

val input_shown : str -> str -> str

val input_cols : str -> str -> nat

val prompt_text_g : str -> view0 -> str

val input_end : str -> view0 -> nat

val inline_right_col_at : cfg1 -> view0 -> nat -> nat

val info_shown_at : cfg1 -> view0 -> nat -> str

val prompt_row_text_at : cfg1 -> view0 -> str -> nat -> row

val prompt_row_text_g : cfg1 -> str -> view0 -> row

val info_shown_g : cfg1 -> str -> view0 -> str

val info_visibleb_g : cfg1 -> str -> view0 -> row list -> bool

val query_on_prompt_rowb : view0 -> row -> bool

val check_faithful_g : cfg1 -> str -> view0 -> row list -> z list

val is_nil : 'a1 list -> bool

val print_prompt_g : cfg1 -> str -> nat -> term1 -> term1

val print_info_at : cfg1 -> nat -> term1 -> term1

val shift_len : str -> str -> nat

val print_info_g : cfg1 -> str -> term1 -> term1

val paint_g : cfg1 -> str -> nat -> term1 -> term1

val render_g : cfg1 -> str -> nat -> view0 -> row list

val as_layout : val0 -> layout

val as_info : val0 -> info_style

val as_cfg1 : val0 -> cfg1

val as_match : val0 -> nat * str

val as_nats0 : val0 -> nat list

val as_view : val0 -> view0

val as_reqs : val0 -> reqs

val as_upd : val0 -> upd

val as_mrows : val0 -> mrows

val vrows : row list -> val0

val as_rows : val0 -> row list

val d_run : cfg1 -> term1 -> upd list -> val0 list

val as_hdr : val0 -> hdr

val as_dupd : val0 -> dupd

val d_run_d : cfg1 -> hdr -> dterm -> dupd list -> val0 list

val dispatch_render : z -> val0 -> val0 option

type qact =
| QSearch of str
| QEdit of str

val line_step : str -> qact -> str

val line_after : str -> qact list -> str

val unchanged : str -> qact list -> bool

val search_str : str -> qact list -> str option

val query_in_effect : str -> qact list -> str

type tq = { tq_input : str; tq_over : str option }

val tq_action : tq -> qact -> tq

val tq_run : tq -> qact list -> tq

val tq_Input : tq -> str

val as_qact : val0 -> qact

val dispatch_searchstr : z -> val0 -> val0 option

type rev2 =
| RLock
| RUnlock
| RSend
| RFeed
| RFin of bool
| RRemove

val is_send : rev2 -> bool

val is_feed : rev2 -> bool

val is_fin : rev2 -> bool

val count0 : (rev2 -> bool) -> rev2 list -> nat

val before_send : rev2 list -> rev2 list

val after_fin : rev2 list -> rev2 list

val lock_run : bool -> rev2 list -> bool option

val handshake_okb : bool -> rev2 list -> bool

type rres = { rr_waiting : bool; rr_held : bool; rr_stuck : bool }

val run_reader : bool -> bool -> rev2 list -> rres

val observation : bool -> rev2 list -> z list

val observation_okb : bool -> z list -> bool

type cmd0 = { cm_start_ok : bool; cm_wait_ok : bool }

val read_from_command : cmd0 -> rev2 list -> rev2 list * bool

type src =
| SChan
| SInitCmd
| STtyDefaultCmd
| STtyWalker
| SStdin

val read_source : src -> bool -> cmd0 -> bool -> rev2 list

val restart_trace : cmd0 -> rev2 list

type cstate1 = { c_reading1 : bool; c_next1 : cmd0 option; c_held : bool;
                 c_blocked : bool; c_stop : bool; c_leaked : nat }

val c0 : cstate1

type cev =
| CSearchNew0 of cmd0 option
| CReadNew0
| CReadFin0
| CQuit

val do_terminate : cstate1 -> cstate1

val do_restart : (cmd0 -> rev2 list) -> cmd0 -> cstate1 -> cstate1

val c_step0 : (cmd0 -> rev2 list) -> cstate1 -> cev -> cstate1

val c_run0 : (cmd0 -> rev2 list) -> cstate1 -> cev list -> cstate1

val rev_code : rev2 -> z

val as_src : z -> src

val fin_failed : rev2 list -> bool

val as_cev : val0 -> cev

val dispatch_start : z -> val0 -> val0 option

type modes = { m_1000 : bool; m_1002 : bool; m_1003 : bool; m_1006 : 
               bool; m_1015 : bool; m_2004 : bool; m_1049 : bool;
               m_25 : bool; m_7 : bool; m_saved : bool; m_orphan : bool;
               m_others : z list }

val m0 : modes

type mev0 =
| MSet of z
| MReset of z
| MSave
| MRestore

val remove_z : z -> z list -> z list

val set_mode : z -> bool -> modes -> modes

val apply_ev : mev0 -> modes -> modes

val apply_evs : mev0 list -> modes -> modes

type pst =
| Ground
| Esc0
| EscI
| Csi of z * z list * z * bool * bool
| Osc
| OscEsc

val inr : z -> z -> z -> bool

val csi_final : z -> z list -> z -> bool -> z -> mev0 list

val step_esc : z -> pst * mev0 list

val step4 : pst -> z -> pst * mev0 list

val events_from : pst -> z list -> pst * mev0 list

val events : z list -> mev0 list

val net_effect : z list -> modes -> modes

val is_ground : pst -> bool

val closed : z list -> bool

val view_in_boundsb : z -> z -> z -> z -> bool

type ledger = nat list

type pfile =
| PFOut
| PFIn
| PFScript
| PFBecome

val pfile_code : pfile -> z

val proxy_clean : pfile list -> bool

val uint_bytes : uint -> z list

val dec0 : z -> z list

type cfg2 = { c_fullscreen : bool; c_clear : bool; c_mouse : bool;
              c_inputless0 : bool; c_maxy : z; c_offset_ok : bool;
              c_xpos : bool }

type rstate = { r_mouse : bool; r_show : bool; r_up1 : bool; r_y : z;
                r_raw : bool; r_queued : z list; r_out : z list }

val set_queued : rstate -> z list -> rstate

val set_out : rstate -> z list -> rstate

val set_raw : rstate -> bool -> rstate

val set_mouse : rstate -> bool -> rstate

val set_show : rstate -> bool -> rstate

val set_up1 : rstate -> bool -> rstate

val set_y : rstate -> z -> rstate

val keep_byte : z -> bool

val r_stderr : z list -> rstate -> rstate

val csi : z list -> rstate -> rstate

val r_flush_raw : z list -> rstate -> rstate

val pRE : z list

val pOST_SHOW : z list

val pOST_HIDE : z list

val sMCUP : z list

val rMCUP : z list

val r_flush : rstate -> rstate

val smcup : rstate -> rstate

val rmcup : rstate -> rstate

val enable_modes : rstate -> rstate

val disable_mouse : rstate -> rstate

val disable_modes : rstate -> rstate

val make_space : rstate -> rstate

val repeat_op : nat -> (rstate -> rstate) -> rstate -> rstate

val find_offset : rstate -> rstate

val hide_cursor : rstate -> rstate

val show_cursor : rstate -> rstate

val init_state : cfg2 -> rstate

val r_init : cfg2 -> rstate -> rstate

val origin : rstate -> rstate

val r_pause : cfg2 -> bool -> rstate -> rstate

val r_resume : cfg2 -> bool -> bool -> rstate -> rstate

val r_close : cfg2 -> rstate -> rstate

type lop0 =
| LFrame of z list * z
| LHide
| LShow
| LSuspend of bool * bool * z list

val r_step : cfg2 -> rstate -> lop0 -> rstate

val run_lifecycle : cfg2 -> lop0 list -> rstate

val clampz0 : z -> z -> z -> z

val so_phase : nat -> bool -> z -> z -> z -> z -> z -> z -> z res

val constrain_iter : z -> z -> z -> z -> z -> (z * z) res

val constrain_loop1 : nat -> z -> z -> z -> z -> z -> (z * z) res

val constrain3 : z -> z -> z -> z -> z -> (z * z) res

type tstate = { t_next : nat; t_ledger : ledger; t_preview : nat list;
                t_newcmd : nat list; t_box : nat list; t_nextcmd : nat list;
                t_running : nat list; t_reading0 : bool; t_exited : bool }

val t0 : tstate

val in_list : nat -> nat list -> bool

val remove_files : nat list -> ledger -> ledger

type tev =
| TScroll of nat
| TExecute of bool * bool * nat
| TPreviewStart of nat * bool
| TPreviewDone
| TReloadAct of bool * nat
| TActionsEnd
| TCoordTake
| TReadFin
| TBecome of bool * nat
| TExit

val t_step : tstate -> tev -> tstate

val t_run : tstate -> tev list -> tstate

type penv0 = { pe_stdin_tty : bool; pe_out_ok : bool; pe_in_ok : bool;
               pe_builder_ok : bool; pe_child : z; pe_exiterr : bool;
               pe_inner_become : bool; pe_ttyin_ok : bool }

type pres0 = { pr_live : pfile list; pr_left : pfile list; pr_code : 
               z; pr_exec : bool }

val pf_eqb : pfile -> pfile -> bool

val p_remove : pfile -> pfile list -> pfile list

val p_return : pfile list -> pfile list -> pfile list

val run_proxy : penv0 -> pres0

val vmodes : modes -> val0

val vev : mev0 -> val0

val as_cfg2 : val0 -> cfg2

val as_lop0 : val0 -> lop0

val as_tev : val0 -> tev

val vres2 : (z * z) res -> val0

val dispatch_term : z -> val0 -> val0 option

type tcell = z list

type tmem = tcell list

type slice4 = { sl_cell : nat; sl_off0 : nat; sl_len0 : nat }

val mem_alloc : tmem -> tcell -> tmem * nat

val sl_cap : tmem -> slice4 -> nat res

val sl_read : tmem -> slice4 -> z list res

val sl_sub : tmem -> slice4 -> nat -> nat -> slice4 res

val cell_write : tcell -> nat -> z list -> tcell

val sl_append : tmem -> slice4 -> z list -> (tmem * slice4) res

val sl_set : tmem -> slice4 -> nat -> z -> tmem res

val copy_runes : tmem -> slice4 -> (tmem * slice4) res

val nil_slice : tmem -> tmem * slice4

type chars = { ch_bytes : bool; ch_sl : slice4 }

val chars_text : tmem -> chars -> z list res

val chars_to_runes : tmem -> chars -> (tmem * slice4) res

val owned_text : bool -> tmem -> chars -> (tmem * slice4) res

val split_lines : z list -> nat -> nat -> nat -> z -> (nat * nat) list * nat

val sub_all : tmem -> slice4 -> (nat * nat) list -> slice4 list res

val wrap_line0 :
  (z list -> z -> z -> nat option) -> nat -> tmem -> slice4 -> bool -> bool
  -> slice4 list -> z -> z -> z -> z -> ((tmem * slice4 list) * bool) res

val wrap_all :
  (z list -> z -> z -> nat option) -> tmem -> slice4 list -> slice4 list -> z
  -> z -> z -> z -> ((tmem * slice4 list) * bool) res

val chars_lines :
  (z list -> z -> z -> nat option) -> bool -> tmem -> chars -> bool -> z -> z
  -> z -> z -> ((tmem * slice4 list) * bool) res

val item_lines0 :
  (z list -> z -> z -> nat option) -> bool -> tmem -> chars -> bool -> bool
  -> z -> z -> z -> z -> ((tmem * slice4 list) * bool) res

type pop =
| PSub of nat * nat * nat
| PApp of nat * z list
| PAppS of nat * nat
| PSet of nat * nat * z

val reg : slice4 list -> nat -> slice4 res

val pstep0 : tmem -> slice4 list -> pop -> (tmem * slice4 list) res

val prun : tmem -> slice4 list -> pop list -> (tmem * slice4 list) res

val wide : z -> bool

val simple_ovf_from : z list -> nat -> z -> z -> z -> nat option

val simple_ovf : z list -> z -> z -> nat option

val as_pop : val0 -> pop

val v_read : tmem -> slice4 -> val0

val v_line : tmem -> slice4 -> val0

val d_textmem : val0 -> val0

val as_rep : val0 -> z * str

val dispatch_textstore : z -> val0 -> val0 option

type token = { t_text0 : str; t_prefix : z }

type delimiter =
| DAwk0
| DStr0 of str
| DRegex of (str -> (nat * nat) list)

val is_awk : delimiter -> bool

val slice5 : str -> nat -> nat -> str res

val with_prefix_lengths : str list -> z -> token list

type awk_state1 =
| AwkNil1
| AwkBlack1
| AwkWhite1

val awk_loop0 : awk_state1 -> str -> str list -> z -> str -> str list * z

val awk_tokenizer0 : str -> str list * z

val regex_tokens : str -> nat -> (nat * nat) list -> str list res

val tokenize1 : str -> delimiter -> token list res

val has_prefix3 : str -> str -> bool

val has_suffix3 : str -> str -> bool

val contains2 : str -> str -> bool

val trim_suffix2 : str -> str -> str

val split_go : str -> nat -> str -> str -> str list

val split : str -> str -> str list

val is_digit3 : z -> bool

val digits_value : str -> z

val iNT_MIN : z

val iNT_MAX0 : z

val atoi2 : str -> z option

type range0 = z * z

val new_range2 : z -> z -> range0

val dD : str

val parse_range1 : str -> range0 option

val range_to_string : range0 -> str

val ranges_to_string : range0 list -> str

val join_tokens : token list -> str

val adj : z -> z -> z

val collect : token list -> z -> nat -> z -> z -> str list res

val transform_one0 : token list -> range0 -> token res

val transform : token list -> range0 list -> token list res

val strip_last_delimiter0 : str -> delimiter -> str res

val map_last : ('a1 -> 'a1 res) -> 'a1 list -> 'a1 list res

val transform_input : str -> range0 list -> delimiter -> token list res

type match_fn = str -> ((nat * nat) * nat list) option

val iter0 : match_fn -> token list -> ((z * z) * z list) option

val nth_match :
  match_fn -> str -> range0 list -> delimiter -> ((z * z) * z list) option res

val nth_transformer : range0 list -> token list -> str res

val accept_nth0 : str -> range0 list -> delimiter -> str res

type nth_part0 =
| PStr1 of str
| PIndex0
| PNth1 of range0 list

val nth_template : nth_part0 list -> delimiter -> token list -> z -> str res

val with_nth_template : nth_part0 list -> str -> delimiter -> z -> str res

val accept_nth_template : nth_part0 list -> str -> delimiter -> z -> str res

val placeholder_fields : str -> range0 list -> delimiter -> bool -> str res

val vtok : token -> val0

val vtoks : token list -> val0

val as_tok : val0 -> token

val as_toks : val0 -> token list

val as_loc : val0 -> nat * nat

val as_locs : val0 -> (nat * nat) list

val rx_lookup : (str * (nat * nat) list) list -> str -> (nat * nat) list

val as_rx : val0 -> str -> (nat * nat) list

val as_delim0 : val0 -> delimiter

val as_range : val0 -> range0

val as_ranges0 : val0 -> range0 list

val as_optz1 : val0 -> z option

val as_fexpr : val0 -> fexpr0

val mf_lookup :
  (str * ((nat * nat) * nat list) option) list -> str -> ((nat * nat) * nat
  list) option

val as_match_fn : val0 -> match_fn

val as_dspec : val0 -> dspec

val as_fexprs0 : val0 -> fexpr0 list

val as_tpart0 : val0 -> tpart0

val as_nth_part : val0 -> nth_part0

val vres0 : ('a1 -> val0) -> 'a1 res -> val0

val vmatch : ((z * z) * z list) option -> val0

val dispatch_token : z -> val0 -> val0 option

val sLASH0 : z

val dOT2 : z

type entry =
| File of str
| Dir of str * entry list
| SymFile of str
| SymDir of str * entry list

val name_of0 : entry -> str

type wopts = { o_file : bool; o_dir : bool; o_follow : bool; o_hidden : bool }

val starts_with0 : str -> str -> bool

val ends_with0 : str -> str -> bool

val has_slash : str -> bool

val strip_dot_slash : str -> str

val drop_trailing_slashes : str -> str

val display : str -> str

val child : str -> str -> str

val with_sep : str -> str

val after_last_slash_aux : str -> str -> str

val base_name0 : str -> str

val hidden_name : str -> bool

val skip_matches : str -> str -> str -> bool

val skipped : str list -> str -> str -> bool

val pruned : wopts -> str list -> str -> str -> bool

val emit1 : bool -> str -> str list

val list_entry : wopts -> str list -> str -> entry -> str list

val listing : wopts -> str list -> str -> entry list -> str list

val listing_roots : wopts -> str list -> (str * entry list) list -> str list

type kind0 =
| KFile
| KDir
| KSymFile
| KSymDir

type action1 =
| Continue
| SkipDir

val kind_of : entry -> kind0

val is_sep2 : z -> bool

val sep : str

val go_has_suffix : str -> str -> bool

val go_has_prefix : str -> str -> bool

val go_contains_rune : str -> z -> bool

val clean_root_path : str -> str

val last_byte : str -> z option

val join_paths : str -> str -> str

val pATH_SEPARATOR : z

val trim_loop0 : str -> str

val trim_path : str -> str

val take_while4 : ('a1 -> bool) -> 'a1 list -> 'a1 list

val go_base : str -> str

val split_ignores : str list -> (str list * str list) * str list

val push1 : bool -> str -> str list

val walk_fn :
  wopts -> ((str list * str list) * str list) -> str -> kind0 -> (str
  list * action1) res

type callback = str -> kind0 -> (str list * action1) res

val fw_entry : callback -> bool -> str -> entry -> str list res

val fw_read : callback -> bool -> str -> entry list -> str list res

val fw_walk : callback -> bool -> str -> entry list -> str list res

val walk_roots : callback -> bool -> (str * entry list) list -> str list res

val read_files : wopts -> str list -> (str * entry list) list -> str list res

type gent =
| GFile of str
| GDir of str * nat
| GSymFile of str
| GSymDir of str * nat

type gworld = (nat * gent list) list

val content : gworld -> nat -> gent list

val on_path : nat -> nat list -> bool

val all_some0 : 'a1 option list -> 'a1 list option

val unfold_ent :
  (nat list -> gent list -> entry list option) -> gworld -> nat list -> gent
  -> entry option

val unfold : nat -> gworld -> nat list -> gent list -> entry list option

type uentry =
| UFile of str
| UDir of str * bool * uentry list
| USymFile of str
| USymDir of str * bool * uentry list

val uname : uentry -> str

val visible : uentry -> entry

type uroot = (str * bool) * uentry list

val visible_root : uroot -> str * entry list

val listing_unreadable : wopts -> str list -> uroot list -> str list

val ukind : uentry -> kind0

type callback_e = str -> kind0 -> bool -> (str list * action1) res

val walk_fn_e :
  wopts -> ((str list * str list) * str list) -> str -> kind0 -> bool -> (str
  list * action1) res

type wres = str list * bool

val report_error : callback_e -> str -> kind0 -> str list -> wres res

val fwe_entry : callback_e -> bool -> str -> uentry -> wres res

val fwe_read : callback_e -> bool -> str -> uentry list -> wres res

val fwe_walk : callback_e -> bool -> str -> bool -> uentry list -> wres res

val walk_roots_e :
  callback_e -> bool -> bool -> uroot list -> (str list * bool) res

val read_files_e : wopts -> str list -> uroot list -> (str list * bool) res

val as_entry : val0 -> entry

val as_opts : val0 -> wopts

val as_root : val0 -> str * entry list

val as_roots : val0 -> (str * entry list) list

val as_kind : z -> kind0

val d_model : val0 -> val0

val d_spec0 : val0 -> val0

val d_fn : val0 -> val0

val as_gent : val0 -> gent

val as_gworld : val0 -> gworld

val of_entry : entry -> val0

val d_unfold : val0 -> val0

val as_uentry : val0 -> uentry

val as_uroot : val0 -> uroot

val as_uroots : val0 -> uroot list

val d_model_e : val0 -> val0

val d_spec_e : val0 -> val0

val d_visible : val0 -> val0

val dispatch_walk : z -> val0 -> val0 option

val dispatch : z -> val0 -> val0
