#!/usr/bin/env python3
"""Regenerate MANIFEST.json checks from manifest_src.json entries (keeps the file valid)."""
import json, subprocess, sys, os
ROOT=os.path.dirname(os.path.abspath(__file__))
m=json.load(open(os.path.join(ROOT,'MANIFEST.json')))
src=json.load(open(os.path.join(ROOT,'manifest_src.json')))
props=[json.loads(l)['id'] for l in open(os.path.join(ROOT,'properties.jsonl'))]
checks=[]; na=[]
for pid in props:
    e=src.get(pid)
    if not e or e.get('not_applicable'):
        na.append({"property_id":pid,"reason":(e or {}).get('not_applicable',"check not built yet (work in progress; see DESIGN.md §8)")})
        continue
    checks.append({"property_id":pid,"quick_cmd":"./check %s --tier quick"%pid,"thorough_cmd":"./check %s --tier thorough"%pid,
      "evidence_file":"evidence/%s.json"%pid,"replay_cmd_template":"./check %s --replay {path}"%pid,"engine":"coq-model",
      "level_claimed":{"category":"proof","text":e['text'],"design_ref":e.get('design_ref',"DESIGN.md §5 "+pid)},
      "level_note":e['note'],"technique":e['technique']})
m['checks']=checks; m['not_applicable']=na
m['hooks']['source_commits']=src['_hooks']
for en in m['engines']: en['serves_properties']=[c['property_id'] for c in checks]
json.dump(m,open(os.path.join(ROOT,'MANIFEST.json'),'w'),indent=1)
print(len(checks),"checks;",len(na),"not claimed")
