#!/bin/bash
# Build the framework offline from files on disk: full .vo build, extraction, OCaml driver, Go harness (warm cache).
set -e -o pipefail
cd "$(dirname "$0")"
export GOFLAGS=-mod=mod GOPROXY=off GOSUMDB=off GOTOOLCHAIN=local
mkdir -p .build/ocaml evidence replays
python3 tools/gen.py
# no admits / axioms / disabled checks anywhere in the development
if grep -rnE 'Admitted|admit\.|^\s*Axiom|^\s*Parameter|^\s*Conjecture|Unset Guard|bypass_check|type-in-type|impredicative-set|Admit Obligations' coq --include='*.v'; then
  echo "forbidden construct found" >&2; exit 1
fi
(cd coq && rm -f .Makefile.d && coq_makefile -f _CoqProject -o Makefile >/dev/null && timeout 3000 make -j16 2>&1 | tail -5)
(cd .build/ocaml && coqc -Q ../../coq Fzf ../../coq/extract/Extract.v >/dev/null && cp ../../ocaml/driver.ml . \
  && ocamlfind ocamlopt -w -a -O3 fzfmodel.mli fzfmodel.ml driver.ml -o model_driver 2>/dev/null \
  && python3 ../../tools/driverhash.py > driver.sha256)
REPO="${VERIF_REPO:-/repo}"
cp "$REPO/go.sum" harness/go.sum
(cd harness && go mod edit -replace "github.com/junegunn/fzf=$REPO")
(cd harness && go build -tags verif -o ../.build/harness ./cmd/harness)
echo setup-ok
