package main

// C20, two regions beside the random histories of c20.go:
//
//   nomatch  states with NO line under the cursor (the query matches nothing) and a template that has nothing else
//            to substitute: no preview command belongs to such a state.  The command of the earlier state is
//            superseded by "no preview": it is terminated and the window shows nothing of it (spec
//            no_command_state_ok, checks blank_when_no_line / superseded_terminated), whatever the window options
//            (follow, wrap, position, size) and however tall the earlier output was (shorter than / exactly / taller
//            than the window, still growing); coming back to a matching query must catch up again.
//   tail     a streaming input with --tail N: lines arrive at run time (steps feed:<m>), old lines fall out of the
//            list and -- with --multi -- out of the selection, with and without --track.  These are changes of the
//            state the preview depends on that no user action made; latest_wins / shown_is_last_output must hold for
//            the state GET / reports afterwards ({+n} follows the selection, {n} the line under the cursor).

import (
	"fmt"
	"regexp"
	"strings"
)

// lines k .. k+n-1 of the streaming input
func c20TailLines(from, n int) []string {
	out := []string{}
	for k := from; k < from+n; k++ {
		out = append(out, fmt.Sprintf("t%d", k))
	}
	return out
}

// the item with this index is in the list GET / reports
func c20HasIndex(g *FzfState, idx int) bool {
	if g == nil {
		return false
	}
	if idx < 0 {
		return true
	}
	for _, m := range g.Matches {
		if m.Index == idx {
			return true
		}
	}
	return false
}

func c20Head(l []string, n int) []string {
	if len(l) > n {
		return l[:n]
	}
	return l
}

var c20OutRe = regexp.MustCompile(`OUT:|L\d+:\d+:`)

// c20PaneText reads the preview window off an interpreted screen: the text of every row inside the window's border
// (between the columns of '╭' and '╮' of its top border, down to the row of '╰') that is not blank.  Without a bordered
// window on the screen: every row of the screen that holds output of one of the session's preview commands.
func c20PaneText(v *vtScreen) []string {
	rows, _ := v.Rows()
	out := []string{}
	rt, cl, cr := -1, -1, -1
	for i, r := range rows {
		rs := []rune(r)
		for c, ch := range rs {
			if ch == '╭' {
				rt, cl = i, c
				break
			}
		}
		if rt >= 0 {
			for c := cl + 1; c < len(rs); c++ {
				if rs[c] == '╮' {
					cr = c
					break
				}
			}
			break
		}
	}
	rb := -1
	if rt >= 0 && cr > cl {
		for i := rt + 1; i < len(rows); i++ {
			rs := []rune(rows[i])
			if cl < len(rs) && rs[cl] == '╰' {
				rb = i
				break
			}
		}
	}
	if rb < 0 {
		for _, r := range rows {
			if c20OutRe.MatchString(r) {
				out = append(out, strings.TrimSpace(r))
			}
		}
		return out
	}
	for i := rt + 1; i < rb; i++ {
		rs := []rune(rows[i])
		if len(rs) <= cl+1 {
			continue
		}
		e := cr
		if e > len(rs) {
			e = len(rs)
		}
		t := strings.TrimSpace(string(rs[cl+1 : e]))
		if t != "" {
			out = append(out, t)
		}
	}
	return out
}

// c20NoMatchCase: a few moves / selections, then the query stops matching anything (put:z; no item holds a z), then
// possibly back (bs) and away again, possibly with the window hidden and shown in between.  Window options and the
// height of the output relative to the window come from the generator.
func c20NoMatchCase(r *RNG, i int) c20Case {
	win := Pick(r, []string{"right,50%", "left,50%", "right,60%", "up,50%", "down,50%", "right,50%"})
	if i%2 == 0 {
		win += ",follow"
	}
	if r.Chance(1, 4) {
		win += ",wrap"
	}
	var kind string
	switch x := r.Intn(9); {
	case x == 0:
		kind = "instant"
	case x == 1:
		kind = "foreverinc"
	case x == 2:
		kind = c20GenEOF(r)
	default:
		// numbered output: shorter than, about as tall as, taller than the window (22 rows beside the list, 10 above/below it)
		ck := c20Chunk{Total: Pick(r, []int{3, 9, 10, 11, 21, 22, 23, 40, 200, 200}), Hang: r.Chance(1, 3)}
		ck.C1 = ck.Total
		if r.Chance(1, 3) {
			ck.C1 = 1 + r.Intn(ck.Total)
			ck.P1 = Pick(r, []float64{0.15, 0.35})
		}
		ck.C2 = ck.C1
		kind = ck.kind()
	}
	cs := c20Case{Stream: "nomatch", Kind: kind, Tmpl: Pick(r, []int{2, 2, 2, 1, 1, 3, 0}), Win: win,
		Exit: Pick(r, []string{"accept", "abort", "sigterm"}), ExitUs: -1}
	p := func() int { return Pick(r, []int{0, 20, 60, 150, 300}) }
	k := r.Range(1, 3)
	for j := 0; j < k; j++ {
		cs.Steps = append(cs.Steps, c20Step{A: Pick(r, []string{"up", "up", "down", "toggle", "up"}), P: p(), C: j == k-1})
	}
	cs.Steps = append(cs.Steps, c20Step{A: "put:z", P: p(), C: true})
	switch r.Intn(4) {
	case 0: // end in the state without a line
	case 1: // back to the full list, and away again
		cs.Steps = append(cs.Steps, c20Step{A: "bs", P: p(), C: true}, c20Step{A: "put:z", P: p(), C: true})
	case 2: // back to the full list and on
		cs.Steps = append(cs.Steps, c20Step{A: "bs", P: p(), C: true}, c20Step{A: Pick(r, []string{"up", "toggle"}), P: p(), C: true})
	case 3: // the window goes away and comes back while no line is focused
		cs.Steps = append(cs.Steps, c20Step{A: Pick(r, []string{"toggle-preview", "hide-preview"}), P: 40 + p()},
			c20Step{A: Pick(r, []string{"toggle-preview", "show-preview"}), P: 40 + p(), C: true})
		if r.Chance(1, 2) {
			cs.Steps = append(cs.Steps, c20Step{A: "bs", P: p(), C: true})
		}
	}
	return cs
}

// c20TailCase: --tail N on an input that stays open.  Something old is selected, the cursor moves on, more input
// arrives and trims the old lines (and with them selected ones) off the list; then more of the same at random.
func c20TailCase(r *RNG, i int) c20Case {
	n := Pick(r, []int{3, 4, 5, 8})
	cs := c20Case{Stream: "tail", Kind: Pick(r, []string{"instant", "instant", "short", "foreverinc", "slowverbose", "foreversilent", "eof_1_0_hang"}),
		Tmpl: Pick(r, []int{1, 1, 0, 1, 2}), Exit: Pick(r, []string{"accept", "abort", "sigterm"}), ExitUs: -1,
		Tail: n, Track: i%3 != 2, Init: Pick(r, []int{n, n, n - 1, n + 2})}
	p := func() int { return Pick(r, []int{0, 20, 60, 150}) }
	cs.Steps = append(cs.Steps, c20Step{A: "toggle", P: p(), C: true})
	k := r.Range(1, n-1)
	for j := 0; j < k; j++ {
		cs.Steps = append(cs.Steps, c20Step{A: "up", P: p(), C: j == k-1})
	}
	cs.Steps = append(cs.Steps, c20Step{A: fmt.Sprintf("feed:%d", Pick(r, []int{1, 1, 1, 2, r.Range(1, n)})), P: p(), C: true})
	m := r.Range(1, 4)
	for j := 0; j < m; j++ {
		switch x := r.Intn(6); {
		case x < 2:
			cs.Steps = append(cs.Steps, c20Step{A: "toggle", P: p(), C: true})
		case x < 3:
			cs.Steps = append(cs.Steps, c20Step{A: Pick(r, []string{"up", "down"}), P: p(), C: r.Chance(1, 2)})
		default:
			cs.Steps = append(cs.Steps, c20Step{A: fmt.Sprintf("feed:%d", Pick(r, []int{1, 1, 1, 2, r.Range(1, n)})), P: p(), C: true})
		}
	}
	return cs
}
