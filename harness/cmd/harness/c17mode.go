package main

// C17, display mode: --tmux (popup) against --height (inline window).  "Later occurrences override earlier ones, with
// command-line arguments taking precedence over the environment": whichever of the two is given later decides, the order
// being options file, $FZF_DEFAULT_OPTS, command line; --no-tmux / --no-height withdraw.  The implementation decides by
// comparing recorded word positions that are numbered through the three sources (fzf.Run: Tmux != nil && Tmux.index >=
// Height.index), so the stream builds cases with ALL THREE sources non-empty, the two options in different sources, padded
// so that the positions can cross.  Checked on the implementation's output:
//   mode_later_wins          popup decision == the rule folded over the units of the case (no model involved)
//   mode_tmux_value          the popup's geometry is the one of the last --tmux (documented value grammar, op 1712)
//   mode_height_value        the height is the one of the last --height, none after --no-height; --tmux/--no-tmux leave it alone
//   mode_accepts             the case (documented options, values inside their grammars) is accepted
//   display_mode_later_wins  popup decision == popup_spec of the model's run (theorem of the same name)
//   layering (c17opt.go)     positions of the layered parse == positions in the single concatenated vector
//   mode_process             the fzf binary inside a fake tmux: `tmux display-popup` is called iff the rule says so,
//                            with the -x/-y/-w/-h of the last --tmux

import (
	"fmt"
	"os"
	"path/filepath"
	"strings"
)

func c17FlattenWords(us [][]string) []string {
	out := []string{}
	for _, u := range us {
		out = append(out, u...)
	}
	return out
}

// what a unit does to the rule: 't' --tmux, 'T' --no-tmux, 'h' --height, 'H' --no-height, ' ' nothing
func c17ModeKind(u []string) byte {
	if len(u) == 0 {
		return ' '
	}
	w := u[0]
	switch {
	case w == "--tmux" || strings.HasPrefix(w, "--tmux="):
		return 't'
	case w == "--no-tmux":
		return 'T'
	case w == "--height" || strings.HasPrefix(w, "--height="):
		return 'h'
	case w == "--no-height":
		return 'H'
	}
	return ' '
}

// the value of a --tmux unit ("" and false when the option is given bare)
func c17TmuxValue(u []string) (string, bool) {
	if strings.HasPrefix(u[0], "--tmux=") {
		return u[0][len("--tmux="):], true
	}
	if len(u) > 1 {
		return u[1], true
	}
	return "", false
}

// the documented rule folded over the units in the order file, environment, command line
func c17ModeExpect(layers ...[][]string) (popup bool, last []string) {
	tmux, hafter := false, false
	for _, l := range layers {
		for _, u := range l {
			switch c17ModeKind(u) {
			case 't':
				tmux, hafter, last = true, false, u
			case 'T':
				tmux, last = false, nil
			case 'h':
				hafter = true
			case 'H':
				hafter = false
			}
		}
	}
	return tmux && !hafter, last
}

var c17TmuxDefault = L(I(4), L(I(50), I(1)), L(I(50), I(1)), I(0))

func c17ModeChecks(c *Ctx, cs c17Case, impl, model c17OptResult, env, args []string) {
	rep := c.Rep
	oc := cs.Opt
	if len(impl.Fields) < c17NFields {
		return
	}
	popup := c17Popup(impl.Fields)
	tmuxSet := len(impl.Fields[c17FTmux].L) > 0
	if tmuxSet {
		rep.Count("mode:tmux-set")
	}
	show := func() string {
		return fmt.Sprintf("popup=%v (Tmux=%s Tmux.index=%d Height.index=%d)", popup, impl.Fields[c17FTmux].String(),
			impl.Fields[c17FTmuxIdx].I, impl.Fields[c17FHeightIdx].I)
	}
	if model.Status == "ok" {
		rep.SpecChecks++
		if want := tmuxSet && !model.HAfter; popup != want {
			rep.Disagreement(Disagreement{Kind: "spec", Name: "display_mode_later_wins", Input: cs, Impl: show(),
				Expect: fmt.Sprintf("popup=%v: the later of --tmux / --height decides (options file < $FZF_DEFAULT_OPTS < command line)", want)})
		}
	}
	if oc.FileU == nil && oc.EnvU == nil && oc.ArgsU == nil {
		return
	}
	want, last := c17ModeExpect(oc.FileU, oc.EnvU, oc.ArgsU)
	rep.SpecChecks++
	rep.Count(fmt.Sprintf("mode:units popup=%v", want))
	nl := 0
	for _, l := range [][][]string{oc.FileU, oc.EnvU, oc.ArgsU} {
		if len(l) > 0 {
			nl++
		}
	}
	rep.Count(fmt.Sprintf("mode:sources=%d", nl))
	if popup != want {
		rep.Disagreement(Disagreement{Kind: "spec", Name: "mode_later_wins", Input: cs, Impl: show(),
			Expect: fmt.Sprintf("popup=%v: the later of --tmux / --height decides (options file < $FZF_DEFAULT_OPTS < command line)", want)})
		return
	}
	wantVal := L()
	if last != nil {
		wantVal = L(c17TmuxDefault)
		if v, given := c17TmuxValue(last); given {
			wantVal = L()
			for _, fvp := range c.Model.Call(1712, L(Bytes("--tmux"), Bytes(v))).L {
				if int(fvp.L[0].I) == c17FTmux {
					wantVal = fvp.L[1]
				}
			}
		}
	}
	rep.SpecChecks++
	if !impl.Fields[c17FTmux].Equal(wantVal) {
		rep.Disagreement(Disagreement{Kind: "spec", Name: "mode_tmux_value", Input: cs, Impl: "Tmux = " + impl.Fields[c17FTmux].String(),
			Expect: wantVal.String() + " (from the last --tmux: " + strings.Join(last, " ") + ")"})
		return
	}
	// the same for --height: the value of the last --height, nothing when --no-height follows it; --tmux / --no-tmux leave it alone
	const fHeight = 21
	wantH, lastH := L(I(0), I(0), I(0), I(0)), []string(nil)
	for _, l := range [][][]string{oc.FileU, oc.EnvU, oc.ArgsU} {
		for _, u := range l {
			switch c17ModeKind(u) {
			case 'H':
				wantH, lastH = L(I(0), I(0), I(0), I(0)), u
			case 'h':
				v := strings.TrimPrefix(u[0], "--height=")
				if u[0] == "--height" && len(u) > 1 {
					v = u[1]
				}
				for _, fvp := range c.Model.Call(1712, L(Bytes("--height"), Bytes(v))).L {
					if int(fvp.L[0].I) == fHeight {
						wantH, lastH = fvp.L[1], u
					}
				}
			}
		}
	}
	rep.SpecChecks++
	if !impl.Fields[fHeight].Equal(wantH) {
		rep.Disagreement(Disagreement{Kind: "spec", Name: "mode_height_value", Input: cs, Impl: "Height = " + impl.Fields[fHeight].String(),
			Expect: wantH.String() + " (from the last --height / --no-height: " + strings.Join(lastH, " ") + ")"})
		return
	}
	if oc.Proc && c.Fzf != "" {
		c17ModeProc(c, cs, env, args, want, wantVal)
	}
}

// ---------------------------------------------------------------- the binary inside a fake tmux

func c17FakeTmux(c *Ctx) (bin, log string) {
	bin = filepath.Join(c.Work, "c17-bin")
	log = filepath.Join(c.Work, "c17-tmux.log")
	os.MkdirAll(bin, 0755)
	script := "#!/bin/sh\necho \"$@\" >> '" + log + "'\nexit 0\n"
	os.WriteFile(filepath.Join(bin, "tmux"), []byte(script), 0755)
	return
}

func c17SizeString(v Val) string {
	if len(v.L) == 2 && v.L[1].I != 0 {
		return fmt.Sprintf("%d%%", v.L[0].I)
	}
	if len(v.L) == 2 {
		return fmt.Sprintf("%d", v.L[0].I)
	}
	return "?"
}

func c17ModeProc(c *Ctx, cs c17Case, env, args []string, want bool, wantVal Val) {
	rep := c.Rep
	oc := cs.Opt
	bin, log := c17FakeTmux(c)
	run := func() (bool, string, string, int) {
		os.Remove(log)
		envs := []string{"FZF_DEFAULT_OPTS=" + c17Quote(env), "TMUX=/tmp/c17-fake,1,0", "TMUX_PANE=%0", "PATH=" + bin + ":" + os.Getenv("PATH")}
		if oc.HasFile {
			// c17ImplParse has just written the options file of this case
			envs = append(envs, "FZF_DEFAULT_OPTS_FILE="+filepath.Join(c.Work, "c17-opts-file"))
		}
		stdout, stderr, code := RunFzf(c, append(append([]string{}, args...), "--select-1"), []byte("one\n"), envs...)
		b, _ := os.ReadFile(log)
		return len(b) > 0, string(b), stdout + stderr, code
	}
	got, logged, out, code := run()
	if got != want {
		got, logged, out, code = run() // once more before reporting (nothing here depends on timing, but be sure)
	}
	rep.Count("mode:process")
	rep.SpecChecks++
	if got != want {
		rep.Disagreement(Disagreement{Kind: "spec", Name: "mode_process", Input: cs,
			Impl:   fmt.Sprintf("tmux called: %v (%q), exit %d, output %q", got, strings.TrimSpace(logged), code, out),
			Expect: fmt.Sprintf("tmux popup: %v (the later of --tmux / --height decides)", want)})
		return
	}
	if want && len(wantVal.L) == 1 && len(wantVal.L[0].L) == 4 {
		t := wantVal.L[0].L
		xy := map[int64]string{0: "-xC -y0", 1: "-xC -y9999", 2: "-x0 -yC", 3: "-xR -yC", 4: "-xC -yC"}[t[0].I]
		geo := xy + " -w" + c17SizeString(t[1]) + " -h" + c17SizeString(t[2])
		if !strings.Contains(logged, "display-popup") || !strings.Contains(logged, " "+geo+" ") {
			rep.Disagreement(Disagreement{Kind: "spec", Name: "mode_process", Input: cs, Impl: "tmux " + strings.TrimSpace(logged),
				Expect: "tmux display-popup ... " + geo + " ... (geometry of the last --tmux)"})
		}
	}
}

// ---------------------------------------------------------------- generator

var c17TmuxVals = []string{"center", "top", "bottom", "left", "right", "up", "down", "70%", "80%,40%", "center,60%", "top,40%", "bottom,30%",
	"left,40%", "right,40%", "left,40%,90%", "bottom,80%,40%", "100%,50%", "center,80%,border-native", "border-native", "30", "left,30",
	"top,10,5", "right:50%", "center,100%", "0%"}

var c17HeightVals = []string{"40%", "10", "~50%", "100%", "-3", "~10", "1", "50%"}

// options that leave the display mode alone (all inside the modelled vocabulary); the first group is also harmless for
// a run of the binary with --select-1 and one input line
var c17ModeSafe = [][]string{{"--cycle"}, {"--reverse"}, {"--ansi"}, {"--no-mouse"}, {"--no-bold"}, {"--tac"}, {"--exact"}, {"-i"}, {"--no-sort"},
	{"--wrap"}, {"--multi"}, {"--no-hscroll"}, {"--keep-right"}, {"--prompt", "p> "}, {"--prompt=x "}, {"--tabstop=4"}, {"--scroll-off", "2"},
	{"--layout=reverse"}, {"--tiebreak=index"}, {"--algo", "v1"}, {"--header", "h"}, {"+i"}, {"+s"}, {"+x"}}
var c17ModeOther = [][]string{{"-q", "x"}, {"--query=ab"}, {"-m", "3"}, {"--nth", "1,2"}, {"-d", ","}, {"--with-nth=2.."}, {"--bind", "a:up"},
	{"--bind=ctrl-a:execute(ls)+down"}, {"--expect", "f1,f2"}, {"--history-size=10"}, {"--tail", "5"}, {"--gap"}, {"--sort", "7"}, {"--listen"},
	{"--header-lines=1"}, {"--scheme", "path"}, {"--walker", "file,dir"}, {"--info-command", "echo"}, {"--ghost=g"}, {"--with-shell", "sh -c"}}

func c17ModeUnit(r *RNG, kind byte) []string {
	switch kind {
	case 't':
		switch r.Intn(5) {
		case 0, 1:
			return []string{"--tmux"}
		case 2:
			return []string{"--tmux", Pick(r, c17TmuxVals)}
		default:
			return []string{"--tmux=" + Pick(r, c17TmuxVals)}
		}
	case 'h':
		v := Pick(r, c17HeightVals)
		if r.Bool() || strings.HasPrefix(v, "-") {
			return []string{"--height=" + v}
		}
		return []string{"--height", v}
	case 'T':
		return []string{"--no-tmux"}
	case 'H':
		return []string{"--no-height"}
	}
	return nil
}

func c17ModeFill(r *RNG, proc bool, lo, hi int) [][]string {
	out := [][]string{}
	for i, n := 0, r.Range(lo, hi); i < n; i++ {
		if proc || r.Chance(2, 3) {
			out = append(out, Pick(r, c17ModeSafe))
		} else {
			out = append(out, Pick(r, c17ModeOther))
		}
	}
	return out
}

func c17InsertUnit(r *RNG, l [][]string, u []string) [][]string {
	i := r.Intn(len(l) + 1)
	out := append([][]string{}, l[:i]...)
	out = append(out, u)
	return append(out, l[i:]...)
}

// three layers, each padded with 0..4 neutral units (boundary-biased: often exactly one), and 2..5 mode units dealt over
// them; mostly all three sources are non-empty and the two sides of the rule sit in different sources
func c17GenModeCase(r *RNG, proc bool) c17OptCase {
	oc := c17OptCase{Proc: proc}
	layers := make([][][]string, 3)
	present := []bool{r.Chance(5, 6), r.Chance(5, 6), true}
	for i := range layers {
		layers[i] = [][]string{}
		if present[i] {
			lo := 0
			if i < 2 {
				lo = 1 // an empty file / environment is skipped by fzf: a present layer has at least one word
			}
			layers[i] = c17ModeFill(r, proc, lo, 4)
			if r.Chance(1, 3) {
				layers[i] = c17ModeFill(r, proc, 1, 1)
			}
		}
	}
	slots := []int{}
	for i, p := range present {
		if p {
			slots = append(slots, i)
		}
	}
	if (proc && r.Chance(1, 3)) || r.Chance(1, 10) {
		// the boundary of the comparison: --tmux is the very first word of all, and there is no --height or it is withdrawn
		// by --no-height (both recorded positions are 0): the popup starts
		first := slots[0]
		layers[first] = append([][]string{c17ModeUnit(r, 't')}, layers[first]...)
		if r.Bool() {
			li := Pick(r, slots)
			at := r.Intn(len(layers[li]) + 1)
			if li == first && at == 0 {
				at = 1
			}
			l := append([][]string{}, layers[li][:at]...)
			l = append(l, c17ModeUnit(r, 'h'), c17ModeUnit(r, 'H'))
			layers[li] = append(l, layers[li][at:]...)
		}
		return c17ModeFinish(oc, layers, present)
	}
	kinds := []byte{'t', 'h'}
	for i, n := 0, r.Intn(4); i < n; i++ {
		kinds = append(kinds, Pick(r, []byte{'t', 'h', 't', 'h', 'T', 'H'}))
	}
	// the first two (one --tmux, one --height) go to two different sources when there are two
	a := Pick(r, slots)
	b := Pick(r, slots)
	for tries := 0; len(slots) > 1 && b == a && tries < 20; tries++ {
		b = Pick(r, slots)
	}
	for i, k := range kinds {
		li := Pick(r, slots)
		if i == 0 {
			li = a
		} else if i == 1 {
			li = b
		}
		layers[li] = c17InsertUnit(r, layers[li], c17ModeUnit(r, k))
	}
	return c17ModeFinish(oc, layers, present)
}

func c17ModeFinish(oc c17OptCase, layers [][][]string, present []bool) c17OptCase {
	oc.HasFile = present[0]
	oc.FileU, oc.EnvU, oc.ArgsU = layers[0], layers[1], layers[2]
	if !present[0] {
		oc.FileU = nil
	}
	if oc.EnvU == nil {
		oc.EnvU = [][]string{}
	}
	oc.File, oc.Env, oc.Args = c17FlattenWords(oc.FileU), c17FlattenWords(oc.EnvU), c17FlattenWords(oc.ArgsU)
	return oc
}

// reduction of a failing display-mode case: drop one unit at a time, then a whole source
func c17ModeCands(cs c17Case) []c17Case {
	out := []c17Case{}
	oc := cs.Opt
	if oc == nil || (oc.FileU == nil && oc.EnvU == nil && oc.ArgsU == nil) {
		return out
	}
	mk := func(f, e, a [][]string, hasFile bool) c17Case {
		n := *oc
		n.FileU, n.EnvU, n.ArgsU, n.HasFile = f, e, a, hasFile
		if a == nil {
			n.ArgsU = [][]string{}
		}
		if e == nil {
			n.EnvU = [][]string{}
		}
		n.File, n.Env, n.Args = c17FlattenWords(n.FileU), c17FlattenWords(n.EnvU), c17FlattenWords(n.ArgsU)
		return c17Case{Kind: cs.Kind, Opt: &n}
	}
	for i := range oc.FileU {
		if len(oc.FileU) > 1 { // an options file without words is a different case (the layer is skipped)
			out = append(out, mk(c17Without(append([][]string{}, oc.FileU...), i), oc.EnvU, oc.ArgsU, oc.HasFile))
		}
	}
	for i := range oc.EnvU {
		if len(oc.EnvU) > 1 {
			out = append(out, mk(oc.FileU, c17Without(append([][]string{}, oc.EnvU...), i), oc.ArgsU, oc.HasFile))
		}
	}
	for i := range oc.ArgsU {
		out = append(out, mk(oc.FileU, oc.EnvU, c17Without(append([][]string{}, oc.ArgsU...), i), oc.HasFile))
	}
	if oc.HasFile {
		out = append(out, mk(nil, oc.EnvU, oc.ArgsU, false))
	}
	if len(oc.EnvU) > 0 {
		out = append(out, mk(oc.FileU, [][]string{}, oc.ArgsU, oc.HasFile))
	}
	return out
}

func c17RunMode(c *Ctx) {
	r := c.Rng
	nproc := c.N(24, 200)
	for i, n := 0, c.N(1500, 40000); i < n; i++ {
		oc := c17GenModeCase(r, i < nproc)
		c17RunShrunk(c, c17Case{Kind: "args", Opt: &oc}, c17Run, c17ModeCands)
	}
}
