package main

// C14 — the UI never crashes or hangs and always leaves terminal and system clean.
//
//  (A) constrain: Terminal.constrain (hook) vs model (op 1404), spec view_in_bounds on the hook's output (1405)
//  (B) life cycle: real fzf under a pty, option sets x exit paths x things in between (execute, ctrl-z, hide/show input,
//      resize, typing); spec: net_effect (1401) of the REAL byte stream is the terminal default, termios restored,
//      TMPDIR empty, no process left; corr: mode events of the real stream == those of the model's stream (1403/1402),
//      the first bytes on the terminal == the model's Init bytes (1407)
//  (C) temp files: deterministic scenarios; left-over files vs the ledger model (1406); spec: nothing left
//  (D) robustness: random input / options / sizes / keys / mouse / actions / resizes / children; no panic text,
//      GET keeps answering, exit leaves everything clean
//  (F) the --tmux popup proxy under a private tmux server: see c14tmux.go
//  (G) commands that cannot be started (shell missing / not executable, command line over the kernel's limit): the
//      reader hand-shake through a hook and whole sessions: see c14nostart.go
//  (H) mouse gestures (press, motion with the button held to and beyond the screen edges, release) over random layouts:
//      see c14mouse.go
//  (I) jump mode: number of labels, list rows and items around each other; jump / jump-accept entered by key or POST and
//      left by a label, another key, a resize, a click: see c14jump.go
import (
	"bytes"
	"encoding/json"
	"errors"
	"fmt"
	"os"
	"path/filepath"
	"regexp"
	"strconv"
	"strings"
	"sync"
	"syscall"
	"time"

	fzf "github.com/junegunn/fzf/src"
)

type c14Case struct {
	Kind string `json:"kind"` // constrain | life | tmp | robust | startup

	// constrain
	Count, Height, ScrollOff, Cy, Offset int `json:",omitempty"`

	// life / tmp / robust
	Args  []string  `json:"args,omitempty"`
	Input []byte    `json:"input,omitempty"` // stdin bytes
	Cols  int       `json:"cols,omitempty"`
	Rows  int       `json:"rows,omitempty"`
	Steps []c14Step `json:"steps,omitempty"`
	Exit  string    `json:"exit,omitempty"` // enter esc ctrl-c accept abort sigint sigterm hup become
	// model side of a life case
	Fullscreen, NoClear, NoMouse, NoInput bool `json:",omitempty"`
	// tmp: expected ledger trace
	Trace    [][]int `json:"trace,omitempty"`
	Known    string  `json:"known,omitempty"`    // the scenario exercises this known finding
	NoListen bool    `json:"nolisten,omitempty"` // keys only (no --listen): for --with-shell scenarios
	Shape    string  `json:"shape,omitempty"`    // kids: shape of the child command (plain pipeline list subshell ...)
	Child    string  `json:"child,omitempty"`    // kids: which child / which trigger
	Tmux     *c14Tmux `json:"tmux,omitempty"`    // tmux: the --tmux popup proxy stream (c14tmux.go)
	// nostart / ready: commands that cannot be started (c14nostart.go)
	NoSync   bool     `json:"nosync,omitempty"`   // --listen without the first Sync (Sync needs a working shell)
	Env      []string `json:"env,omitempty"`      // extra environment (SHELL=..., FZF_DEFAULT_COMMAND=...)
	StdinTTY bool     `json:"stdintty,omitempty"` // standard input is the terminal: the list comes from the default command
	Items    int      `json:"items,omitempty"`    // the list is `Items` generated lines (when Input is empty) ...
	ItemW    int      `json:"itemw,omitempty"`    // ... each padded to this width
	Via      string   `json:"via,omitempty"`      // which command cannot be started: reload reload-sync start-reload default-command preview ...
	Fail     string   `json:"fail,omitempty"`     // why: noent notinpath noexec dir shellenv e2big-plus e2big-line e2big-query | ok cmdfails
	Probe    []string `json:"probe,omitempty"`    // nostart: what is asked of fzf afterwards (search reload)
	Ready    *c14Ready `json:"ready,omitempty"`   // ready: one reader run through the hook
	Profile  string   `json:"profile,omitempty"`  // robust: which generator made the case (mouse-sweep, mouse-free: c14mouse.go)
}

type c14Step struct {
	T string `json:"t"`           // post keys resize sleep execute ctrlz hide show waitload waitlog signal
	S string `json:"s,omitempty"` // action list / marker
	B []byte `json:"b,omitempty"` // key bytes
	X int    `json:"x,omitempty"`
	Y int    `json:"y,omitempty"`
}

var c14Fresh string
var c14FreshOnce sync.Once

func c14Default() Val {
	return L(B(false), B(false), B(false), B(false), B(false), B(false), B(false), B(true), B(true), B(false), B(false), L())
}

// ---------------------------------------------------------------- (A) constrain

func c14Constrain(c *Ctx, cs c14Case) {
	rep := c.Rep
	cy, off, pan := fzf.VerifConstrain(cs.Count, cs.Height, cs.ScrollOff, cs.Cy, cs.Offset)
	rep.ImplTraces++
	rep.Eval(fmt.Sprintf("k %d %d %d %d %d", cs.Count, cs.Height, cs.ScrollOff, cs.Cy, cs.Offset), cs.Count > cs.Height && cs.Height > 1)
	if pan != "" {
		rep.Disagreement(Disagreement{Kind: "spec", Name: "constrain_no_panic", Input: cs, Impl: pan, Expect: "no panic"})
		return
	}
	mv := c.Model.Call(1404, L(I(cs.Count), I(cs.Height), I(cs.ScrollOff), I(cs.Cy), I(cs.Offset)))
	if !mv.Equal(L(I(cy), I(off))) {
		rep.Disagreement(Disagreement{Kind: "corr", Name: "corr:C14.constrain", Input: cs, Impl: []int{cy, off}, Expect: mv.String()})
	}
	if cs.Height >= 1 {
		rep.SpecChecks++
		if ok := c.Model.Call(1405, L(I(cs.Count), I(cs.Height), I(cy), I(off))); ok.I != 1 {
			rep.Disagreement(Disagreement{Kind: "spec", Name: "constrain_in_bounds", Input: cs, Impl: []int{cy, off}, Expect: "0 <= cy <= max(0,count-1), 0 <= offset <= cy < offset+height"})
		}
	}
	rep.Count("constrain")
}

func c14GenConstrain(r *RNG) c14Case {
	cnt := Pick(r, []int{0, 0, 1, 2, 3, 5, 10, 50, 1000})
	if r.Bool() {
		cnt = r.Range(0, 40)
	}
	h := Pick(r, []int{0, 1, 1, 2, 2, 3, 4, 5, 8, 10, 22, 60})
	so := Pick(r, []int{0, 0, 1, 2, 3, 3, 3, 5, 10, 100})
	return c14Case{Kind: "constrain", Count: cnt, Height: h, ScrollOff: so, Cy: r.Range(-3, cnt+3), Offset: r.Range(-3, cnt+3)}
}

// ---------------------------------------------------------------- session driving

type c14Run struct {
	s         *Session
	pid       int
	mark      string
	startErr  string
	hang      string
	exited    bool
	code      int
	hup       bool
	slave     *os.File
	id        string
	screen    []byte
	postErr   error
	goneTicks uint64   // when the fzf process was seen to be gone (clock ticks since boot)
	kidsLeft  []string // processes of a cancelled command that were still alive 10 s after the cancellation
}

func (r *c14Run) close() {
	if r.slave != nil {
		r.slave.Close()
	}
	born := r.goneTicks
	if born == 0 {
		born = c14NowTicks()
	}
	r.s.Close()
	c14KillSurvivors(r.pid, r.mark, born) // hygiene: long-running children of a failing tree must not pile up
}

// kids: processes of the session other than fzf itself
func (r *c14Run) kids() []string {
	out := []string{}
	self := strconv.Itoa(r.pid) + ":"
	for _, p := range c14Survivors(r.pid, r.mark, 0) {
		if !strings.HasPrefix(p, self) {
			out = append(out, p)
		}
	}
	return out
}

func c14Start(c *Ctx, cs c14Case, id string) (*c14Run, error) {
	mark := "C14MARK=" + id
	cols, rows := cs.Cols, cs.Rows
	s, err := StartSession(c, SessionOpts{Args: cs.Args, Stdin: append([]byte{}, c14InputOf(cs)...), Cols: cols, Rows: rows, Env: append([]string{mark}, cs.Env...),
		NoListen: cs.NoListen, NoSync: cs.NoSync, StdinTTY: cs.StdinTTY})
	if err != nil {
		return nil, err
	}
	sl, _ := c14OpenSlave(s)
	return &c14Run{s: s, pid: c14Pid(s), mark: mark, slave: sl, id: id}, nil
}

// c14StartRetried: liveness of start-up (a first frame and an answer to GET / within 10 s) is an eventually-property:
// retried twice before it is reported, as the robustness and cannot-be-started streams do (a loaded machine can stall a
// start for longer than 10 s; a start that never succeeds is still reported).
func c14StartRetried(c *Ctx, cs c14Case, id string) (r *c14Run, err error) {
	for try := 0; try < 3; try++ {
		r, err = c14Start(c, cs, id)
		if err == nil || !strings.Contains(err.Error(), "did not start within") {
			break
		}
	}
	return r, err
}

// responsive: GET answers within 10 s (retried twice) or the process has exited
func (r *c14Run) responsive() bool {
	for try := 0; try < 3; try++ {
		deadline := time.Now().Add(10 * time.Second)
		for time.Now().Before(deadline) {
			if r.s.Exited() {
				return true
			}
			if _, err := r.s.Get(); err == nil || errors.Is(err, ErrGone) {
				return true
			}
			time.Sleep(20 * time.Millisecond)
		}
	}
	return false
}

func (r *c14Run) step(st c14Step) {
	s := r.s
	switch st.T {
	case "post":
		s.Post(st.S)
	case "postsync":
		if err := s.PostSync(st.S); err != nil && !errors.Is(err, ErrGone) {
			s.Sync()
		}
	case "keys":
		c14SendKeys(s, r.slave, st.B)
	case "mouse": // mouse reports of whole gestures: written in one piece, then wait until fzf has taken them (c14mouse.go)
		c14SendKeys(s, r.slave, st.B)
		c14WaitTaken(s, r.slave, 5*time.Second)
	case "resize":
		s.Resize(st.X, st.Y)
	case "settle": // eventually: what was typed has been read and the terminal has been quiet for X ms (c14jump.go); sends nothing
		c14Settle(s, r.slave, time.Duration(st.X)*time.Millisecond, 3*time.Second)
	case "sleep":
		time.Sleep(time.Duration(st.X) * time.Millisecond)
	case "sync":
		s.Sync()
	case "signal":
		s.Signal(syscall.Signal(st.X))
	case "waitload":
		s.WaitFor(func(f *FzfState) bool {
			return !f.Reading && f.TotalCount > 0 && f.MatchCount == f.TotalCount && f.Current != nil
		}, 10*time.Second)
	case "waittmp": // eventually: at most X temp files are left (removal happens in a goroutine after the command ended)
		deadline := time.Now().Add(10 * time.Second)
		for time.Now().Before(deadline) && !s.Exited() && len(c14TmpLeft(s.Dir)) > st.X {
			time.Sleep(2 * time.Millisecond)
		}
	case "waitkids": // eventually: at least X processes besides fzf belong to the session (the command runs and has forked)
		deadline := time.Now().Add(10 * time.Second)
		for time.Now().Before(deadline) && !s.Exited() && len(r.kids()) < st.X {
			time.Sleep(2 * time.Millisecond)
		}
	case "nokids": // eventually (10 s): the cancelled command and everything it forked is gone while fzf goes on
		deadline := time.Now().Add(10 * time.Second)
		left := r.kids()
		for len(left) > 0 && time.Now().Before(deadline) && !s.Exited() {
			time.Sleep(5 * time.Millisecond)
			left = r.kids()
		}
		r.kidsLeft = left
	case "waittmpmin": // eventually: at least X temp files exist
		deadline := time.Now().Add(10 * time.Second)
		for time.Now().Before(deadline) && !s.Exited() && len(c14TmpLeft(s.Dir)) < st.X {
			time.Sleep(2 * time.Millisecond)
		}
	case "waitlog": // wait until file S in the session dir has at least X lines
		deadline := time.Now().Add(10 * time.Second)
		for time.Now().Before(deadline) && !s.Exited() {
			b, _ := os.ReadFile(filepath.Join(s.Dir, st.S))
			if bytes.Count(b, []byte("\n")) >= st.X {
				break
			}
			time.Sleep(2 * time.Millisecond)
		}
	}
}

func (r *c14Run) exit(how string) {
	s := r.s
	switch how {
	case "enter":
		c14SendKeys(s, r.slave, []byte("\r"))
	case "esc":
		c14SendKeys(s, r.slave, []byte("\x1b"))
	case "ctrl-c":
		c14SendKeys(s, r.slave, []byte("\x03"))
	case "accept", "abort":
		s.Post(how)
	case "become":
		r.postErr = s.Post("become(true)")
	case "becomef":
		// become with a placeholder is a no-op without a current item: make sure there is one
		s.PostSync("clear-query")
		r.step(c14Step{T: "waitload"})
		r.postErr = s.Post("become(true {f})")
	case "sigint":
		s.Signal(syscall.SIGINT)
	case "sigterm":
		s.Signal(syscall.SIGTERM)
	case "hup":
		r.hup = true
		// Close returns at once but the descriptor is only released when the drain goroutine's blocking read(2)
		// returns: wake it with one byte written through our own slave handle; then the master really closes
		// and the kernel hangs up the session (SIGHUP to fzf).
		s.master.Close()
		if r.slave != nil {
			r.slave.Write([]byte{0})
		}
	}
	_, code, ok := s.Wait(10 * time.Second)
	if !ok && how != "hup" { // liveness: retry the request twice before reporting
		for try := 0; try < 2 && !ok; try++ {
			switch how {
			case "enter", "esc", "ctrl-c":
				r.exit0Keys(how)
			case "accept", "abort":
				s.Post(how)
			case "sigint":
				s.Signal(syscall.SIGINT)
			case "sigterm":
				s.Signal(syscall.SIGTERM)
			}
			_, code, ok = s.Wait(10 * time.Second)
		}
	}
	r.exited, r.code = ok, code
	if ok {
		r.goneTicks = c14NowTicks()
	}
	if !ok && os.Getenv("C14_DEBUG") != "" {
		st, _ := os.ReadFile(fmt.Sprintf("/proc/%d/status", r.pid))
		wch, _ := os.ReadFile(fmt.Sprintf("/proc/%d/wchan", r.pid))
		fds, _ := os.ReadDir(fmt.Sprintf("/proc/%d/fd", r.pid))
		names := []string{}
		for _, f := range fds {
			l, _ := os.Readlink(fmt.Sprintf("/proc/%d/fd/%s", r.pid, f.Name()))
			names = append(names, f.Name()+"->"+l)
		}
		dbg, _ := os.OpenFile(os.Getenv("C14_DEBUG"), os.O_APPEND|os.O_CREATE|os.O_WRONLY, 0644)
		defer dbg.Close()
		fmt.Fprintf(dbg, "STOPPED CHILD: %v\n", c14StoppedChild(r.pid))
		if ents, err := os.ReadDir("/proc"); err == nil {
			for _, e := range ents {
				b, err := os.ReadFile("/proc/" + e.Name() + "/stat")
				if err == nil && strings.Contains(string(b), fmt.Sprintf(" %d ", r.pid)) {
					fmt.Fprintf(dbg, "PROC %s\n", b)
				}
			}
		}
		r.s.Signal(syscall.SIGQUIT)
		time.Sleep(1500 * time.Millisecond)
		scr := r.s.Screen()
		if i := bytes.Index(scr, []byte("SIGQUIT")); i >= 0 {
			fmt.Fprintf(dbg, "GOROUTINES:\n%s\n", strings.ReplaceAll(string(scr[i:min(len(scr), i+30000)]), "\r\n", "\n"))
		}
		fmt.Fprintf(dbg, "POSTERR %v\n", r.postErr)
		fmt.Fprintf(dbg, "C14_DEBUG not exited after %s: pid %d\n%s\nwchan=%s fds=%v\nsurvivors=%v\n", how, r.pid, st, wch, names, c14Survivors(r.pid, r.mark, 0))
	}
}

func (r *c14Run) exit0Keys(how string) {
	switch how {
	case "enter":
		c14SendKeys(r.s, r.slave, []byte("\r"))
	case "esc":
		c14SendKeys(r.s, r.slave, []byte("\x1b"))
	case "ctrl-c":
		c14SendKeys(r.s, r.slave, []byte("\x03"))
	}
}

// survivors after exit: polled (eventually-empty within 10 s; children get SIGKILL asynchronously)
func (r *c14Run) survivors(wait time.Duration) []string {
	deadline := time.Now().Add(wait)
	for {
		sv := c14Survivors(r.pid, r.mark, r.goneTicks)
		if len(sv) == 0 || time.Now().After(deadline) {
			return sv
		}
		time.Sleep(20 * time.Millisecond)
	}
}

type c14Clean struct {
	Modes    string   `json:"modes"`
	Closed   bool     `json:"closed"`
	Termios  string   `json:"termios"`
	Tmp      []string `json:"tmp"`
	Procs    []string `json:"procs"`
	Crash    string   `json:"crash"`
	ExitCode int      `json:"exit_code"`
}

// cleanliness after exit (spec on the implementation's observable behaviour)
func c14CheckClean(c *Ctx, cs c14Case, r *c14Run, wantAlt bool, wantTmp int, name string) bool {
	rep := c.Rep
	s := r.s
	okAll := true
	fail := func(what string, got, want interface{}) {
		okAll = false
		d := Disagreement{Kind: "spec", Name: name + "." + what, Input: cs, Impl: got, Expect: want}
		if what == "tempfiles_removed" || what == "no_child_left" {
			if r.hup {
				d.Known = "c14-sighup" // SIGHUP is not handled: whatever was running stays (outside the claim)
			} else if cs.Known != "" {
				d.Known = cs.Known
			}
		}
		rep.Disagreement(d)
	}
	if cr := s.Crash(); cr != "" {
		// a crash explains everything that follows (modes, termios, ...): report it alone
		time.Sleep(100 * time.Millisecond)
		txt := c14CrashText(s)
		rep.Disagreement(Disagreement{Kind: "spec", Name: name + ".no_crash", Input: cs, Impl: txt, Expect: "no panic / fatal error on the terminal",
			Known: c14KnownCrash(cs, txt+string(s.Screen()))})
		return false
	}
	if !r.exited {
		d := Disagreement{Kind: "spec", Name: name + ".exits", Input: cs, Impl: fmt.Sprintf("still running 30 s after %s (a direct child in state T: %v)", cs.Exit, c14StoppedChild(r.pid)), Expect: "process exits", Known: r.knownHang(cs)}
		rep.Disagreement(d)
		return false
	}
	rep.SpecChecks++
	if !r.hup && r.slave != nil {
		scr, complete := c14FinalScreen(s, r.slave, r.id)
		if !complete {
			fail("terminal_drained", "the end-of-output sentinel did not come through the pty within 10 s", "sentinel seen")
		}
		r.screen = scr
		mv := c.Model.Call(1401, Bytes(string(scr)))
		want := c14Default()
		if wantAlt {
			want.L[6] = B(true)
		}
		if len(mv.L) != 2 || !mv.L[0].Equal(want) || mv.L[1].I != 1 {
			tail := scr[max(0, len(scr)-400):]
			if d := os.Getenv("C14_DUMP"); d != "" {
				os.WriteFile(fmt.Sprintf("%s/scr-%s-%d.bin", d, r.id, time.Now().UnixNano()), scr, 0644)
			}
			fail("modes_restored", fmt.Sprintf("%s exit=%d tail=%q", mv.String(), r.code, tail), L(want, B(true)).String()+" [1000 1002 1003 1006 1015 2004 1049 ?25 ?7 saved orphan others] closed")
		}
		c14FreshOnce.Do(func() { c14Fresh = c14FreshTermios() })
		if ta, err := c14TermiosFd(int(r.slave.Fd())); err != nil || ta != c14Fresh {
			fail("termios_restored", fmt.Sprint(ta, err), c14Fresh)
		}
	}
	if left := c14TmpLeft(s.Dir); len(left) != wantTmp {
		fail("tempfiles_removed", left, fmt.Sprintf("%d files", wantTmp))
	}
	wait := 10 * time.Second
	if cs.Known != "" || r.hup {
		wait = 300 * time.Millisecond
	}
	if sv := r.survivors(wait); len(sv) > 0 {
		fail("no_child_left", sv, "no process of the session left")
	}
	return okAll
}

var c14NumA = regexp.MustCompile(`\x1b\[\?2004h\x1b\[(-?[0-9]+)A\x1b\[G\x1b\[K`)

func c14EventsOf(c *Ctx, b []byte) []string {
	ev := c.Model.Call(1402, Bytes(string(b)))
	out := []string{}
	for _, e := range ev.L {
		if len(e.L) != 2 {
			continue
		}
		k, n := e.L[0].I, e.L[1].I
		if (k == 0 || k == 1) && (n == 7 || n == 25) {
			continue // frame wrappers and cursor visibility: the number of frames is not an observable
		}
		out = append(out, []string{"set", "reset", "save", "restore"}[k]+strconv.Itoa(int(n)))
	}
	return out
}

// c14KnownCrash: no crash is a known finding (the offset-down panic was fixed in eca4ebe; its repro is in corpus/C14)
func c14KnownCrash(cs c14Case, text string) string { return "" }

// c14KnownHang: narrow classifier of KNOWN_FINDINGS id c14-headerlines-reload-deadlock:
// --header-lines is on and some posted action list contains a reload.
func c14KnownHang(cs c14Case) string {
	hl := false
	for _, a := range cs.Args {
		if strings.HasPrefix(a, "--header-lines") {
			hl = true
		}
	}
	if !hl {
		return ""
	}
	for _, st := range cs.Steps {
		if (st.T == "post" || st.T == "postsync") && strings.Contains(st.S, "reload") {
			return "c14-headerlines-reload-deadlock"
		}
	}
	return ""
}

// knownHang: the recorded hangs, each recognised by what is specific to it.  (The ctrl-z freeze -- a child stopped
// between fork and exec -- was repaired in e24ecfc; a stopped direct child is still named in the report.)
func (r *c14Run) knownHang(cs c14Case) string {
	return c14KnownHang(cs)
}

// c14StoppedChild: some process whose parent is pid is in state T (stopped by a job-control signal)
func c14StoppedChild(pid int) bool {
	ents, _ := os.ReadDir("/proc")
	for _, e := range ents {
		if _, err := strconv.Atoi(e.Name()); err != nil {
			continue
		}
		b, err := os.ReadFile("/proc/" + e.Name() + "/stat")
		if err != nil {
			continue
		}
		i := bytes.LastIndexByte(b, ')')
		if i < 0 {
			continue
		}
		f := strings.Fields(string(b[i+1:]))
		if len(f) >= 2 && (f[0] == "T" || f[0] == "t") && f[1] == strconv.Itoa(pid) {
			return true
		}
	}
	return false
}

// c14CrashText: the crash excerpt with what precedes it on the terminal (the signal / panic message)
func c14CrashText(s *Session) string {
	cr := s.Crash()
	if cr == "" {
		return ""
	}
	scr := s.Screen()
	head := cr
	if len(head) > 40 {
		head = head[:40]
	}
	if i := bytes.Index(scr, []byte(head)); i >= 0 {
		from := max(0, i-300)
		return string(scr[from:min(len(scr), i+600)])
	}
	return cr
}

// ---------------------------------------------------------------- (B) life cycle

func c14Life(c *Ctx, cs c14Case, id string) { c14LifeTry(c, cs, id, 0) }

// c14LifeTry: keys and POSTs travel on different channels; a disagreement about the ORDER of lifecycle events is an
// observation about timing first: the whole session is run again (twice) before it is reported.
func c14LifeTry(c *Ctx, cs c14Case, id string, attempt int) {
	rep := c.Rep
	r, err := c14StartRetried(c, cs, id)
	if err != nil {
		rep.Disagreement(Disagreement{Kind: "spec", Name: "life.starts", Input: cs, Impl: err.Error(), Expect: "fzf starts"})
		return
	}
	defer r.close()
	// the list must be there before anything refers to the current item (become(... {f}) without one is a no-op)
	r.step(c14Step{T: "waitload"})
	ops := []Val{}
	for _, st := range cs.Steps {
		switch st.T {
		case "execute":
			r.s.PostSync("execute(true)")
			ops = append(ops, L(I(3), B(true), B(false), L()))
		case "ctrlz":
			// typed keys are not ordered with POSTs: wait (eventually, 10 s) until the suspension shows on the terminal
			// (Pause switches bracketed paste off) before going on; a fixed sleep is not enough on a loaded machine
			off := []byte("\x1b[?2004l")
			n0 := bytes.Count(r.s.Screen(), off)
			c14SendKeys(r.s, r.slave, []byte{0x1a})
			time.Sleep(30 * time.Millisecond)
			for dl := time.Now().Add(10 * time.Second); time.Now().Before(dl) && !r.s.Exited() && bytes.Count(r.s.Screen(), off) <= n0; {
				time.Sleep(2 * time.Millisecond)
			}
			r.s.Sync()
			ops = append(ops, L(I(3), B(cs.Fullscreen), B(true), L()))
		case "hide":
			r.s.PostSync("hide-input")
		case "show":
			r.s.PostSync("show-input")
		default:
			r.step(st)
		}
	}
	r.s.Sync()
	if !r.responsive() {
		rep.Disagreement(Disagreement{Kind: "spec", Name: "life.responsive", Input: cs, Impl: "GET / not answered within 3 x 10 s", Expect: "answers"})
	}
	r.exit(cs.Exit)
	rep.ImplTraces++
	wantTmp := 0
	if cs.Exit == "becomef" {
		wantTmp = 1 // documented: become leaves its {f} files to the new program
	}
	clean := c14CheckClean(c, cs, r, cs.Fullscreen && cs.NoClear, wantTmp, "life")
	key, _ := json.Marshal(cs)
	rep.Eval(string(key), len(cs.Steps) > 0)
	rep.Count("exit=" + cs.Exit)
	rep.Count("opts=" + strings.Join(cs.Args, " "))
	if r.hup || !r.exited || !clean {
		return
	}
	// correspondence with the renderer model
	scr := r.screen
	m := c14NumA.FindSubmatch(scr)
	if m == nil {
		rep.Disagreement(Disagreement{Kind: "corr", Name: "corr:C14.init_shape", Input: cs, Impl: string(scr[:min(len(scr), 300)]), Expect: "ESC[?2004h ESC[<n>A ESC[G ESC[K in the Init output"})
		return
	}
	up, _ := strconv.Atoi(string(m[1]))
	cfg := L(B(cs.Fullscreen), B(!cs.NoClear), B(!cs.NoMouse), B(cs.NoInput), I(up+1), B(true), B(false))
	ini := c.Model.Call(1407, cfg)
	if len(ini.L) == 2 {
		want := ini.L[0].Str()
		if q := ini.L[1].Str(); q != "" {
			want += "\x1b[?7l\x1b[?25l" + q
		}
		// CR before LF is added by the tty layer when output post-processing happens to be on; it is not fzf's byte
		if !bytes.HasPrefix(bytes.ReplaceAll(scr, []byte("\r\n"), []byte("\n")), []byte(want)) {
			rep.Disagreement(Disagreement{Kind: "corr", Name: "corr:C14.init_bytes", Input: cs, Impl: string(scr[:min(len(scr), len(want)+20)]), Expect: want})
		}
	}
	mv := c.Model.Call(1403, L(cfg, L(ops...)))
	if len(mv.L) == 3 {
		got := c14EventsOf(c, scr)
		want := c14EventsOf(c, []byte(mv.L[0].Str()))
		if strings.Join(got, " ") != strings.Join(want, " ") || mv.L[1].I != 0 {
			if attempt < 2 {
				rep.Count("life:lifecycle_events_rerun")
				r.close()
				c14LifeTry(c, cs, fmt.Sprintf("%s_r%d", id, attempt+1), attempt+1)
				return
			}
			rep.Disagreement(Disagreement{Kind: "corr", Name: "corr:C14.lifecycle_events", Input: cs, Impl: got, Expect: want})
		}
	}
	rep.Sample(cs)
}

var c14Lines = []byte("alpha\nbeta\ngamma\ndelta\nepsilon\n")

func c14GenLife(r *RNG, i int) c14Case {
	type oset struct {
		args                          []string
		fs, noclear, nomouse, noinput bool
	}
	sets := []oset{
		{[]string{}, true, false, false, false},
		{[]string{"--height", "40%"}, false, false, false, false},
		{[]string{"--height", "~10"}, false, false, false, false},
		{[]string{"--no-mouse"}, true, false, true, false},
		{[]string{"--no-mouse", "--height", "50%"}, false, false, true, false},
		{[]string{"--reverse"}, true, false, false, false},
		{[]string{"--border", "--height", "12"}, false, false, false, false},
		{[]string{"--border"}, true, false, false, false},
		{[]string{"--preview", "echo {}"}, true, false, false, false},
		{[]string{"--preview", "echo {}", "--height", "60%", "--reverse"}, false, false, false, false},
		{[]string{"--no-clear", "--height", "40%"}, false, true, false, false},
		{[]string{"--no-clear"}, true, true, false, false},
		{[]string{"--no-input", "--height", "40%"}, false, false, false, true},
		{[]string{"--no-input"}, true, false, false, true},
		{[]string{"--height", "100%"}, true, false, false, false},
	}
	exits := []string{"enter", "esc", "ctrl-c", "accept", "abort", "sigint", "sigterm", "hup", "become", "becomef"}
	o := sets[i%len(sets)]
	cs := c14Case{Kind: "life", Args: o.args, Input: c14Lines, Cols: 80, Rows: 24, Fullscreen: o.fs, NoClear: o.noclear, NoMouse: o.nomouse, NoInput: o.noinput,
		Exit: exits[(i/len(sets))%len(exits)]}
	n := r.Range(0, 4)
	for k := 0; k < n; k++ {
		switch r.Intn(7) {
		case 0, 1:
			cs.Steps = append(cs.Steps, c14Step{T: "execute"})
		case 2:
			cs.Steps = append(cs.Steps, c14Step{T: "ctrlz"})
		case 3:
			if !o.noinput {
				cs.Steps = append(cs.Steps, c14Step{T: "hide"}, c14Step{T: "show"})
			} else {
				cs.Steps = append(cs.Steps, c14Step{T: "show"}, c14Step{T: "hide"})
			}
		case 4:
			cs.Steps = append(cs.Steps, c14Step{T: "resize", X: r.Range(20, 120), Y: r.Range(5, 40)}, c14Step{T: "sync"})
		case 5:
			cs.Steps = append(cs.Steps, c14Step{T: "keys", B: []byte("a")}, c14Step{T: "sync"})
		case 6:
			cs.Steps = append(cs.Steps, c14Step{T: "postsync", S: "down+toggle-preview"})
		}
	}
	return cs
}

// start-up error: nothing is touched
func c14Startup(c *Ctx, cs c14Case) {
	rep := c.Rep
	scr, code, ta, dir, pid, err := c14StartPlain(c, cs.Args, string(cs.Input), 80, 24, 10*time.Second)
	gone := c14NowTicks()
	defer os.RemoveAll(dir)
	if err != nil {
		return
	}
	rep.ImplTraces++
	rep.SpecChecks++
	key, _ := json.Marshal(cs)
	rep.Eval(string(key), true)
	rep.Count("exit=startup-error")
	fail := func(what string, got, want interface{}) {
		rep.Disagreement(Disagreement{Kind: "spec", Name: "startup." + what, Input: cs, Impl: got, Expect: want})
	}
	if code != 2 {
		fail("exit_code", code, 2)
	}
	if bytes.Contains(scr, []byte("panic:")) || bytes.Contains(scr, []byte("goroutine ")) {
		fail("no_crash", string(scr), "an error message")
	}
	mv := c.Model.Call(1401, Bytes(string(scr)))
	if len(mv.L) != 2 || !mv.L[0].Equal(c14Default()) {
		fail("modes_restored", mv.String(), c14Default().String())
	}
	c14FreshOnce.Do(func() { c14Fresh = c14FreshTermios() })
	if ta != c14Fresh {
		fail("termios_restored", ta, c14Fresh)
	}
	if left := c14TmpLeft(dir); len(left) > 0 {
		fail("tempfiles_removed", left, "none")
	}
	if sv := c14Survivors(pid, "", gone); len(sv) > 0 {
		fail("no_child_left", sv, "none")
	}
}

// ---------------------------------------------------------------- (C) temp files

func c14Tmp(c *Ctx, cs c14Case, id string) {
	rep := c.Rep
	r, err := c14StartRetried(c, cs, id)
	if err != nil {
		rep.Disagreement(Disagreement{Kind: "spec", Name: "tmp.starts", Input: cs, Impl: err.Error(), Expect: "fzf starts"})
		return
	}
	defer r.close()
	for _, st := range cs.Steps {
		r.step(st)
	}
	r.exit(cs.Exit)
	rep.ImplTraces++
	tr := []Val{}
	for _, e := range cs.Trace {
		tr = append(tr, Ints(e))
	}
	mv := c.Model.Call(1406, L(tr...))
	want := 0
	if len(mv.L) == 2 {
		want = int(mv.L[0].I)
	}
	left := c14TmpLeft(r.s.Dir)
	racy := cs.Known == "c14-tempfile-exit-during-reload" || cs.Known == "c14-sighup" // the leak depends on who is faster
	if (!racy && len(left) != want) || (racy && len(left) > want) {
		rep.Disagreement(Disagreement{Kind: "corr", Name: "corr:C14.temp_ledger", Input: cs, Impl: left, Expect: fmt.Sprintf("%d files (ledger model)", want)})
	}
	wantClean := 0
	if cs.Exit == "becomef" {
		wantClean = want
	}
	c14CheckClean(c, cs, r, false, wantClean, "tmp")
	key, _ := json.Marshal(cs)
	rep.Eval(string(key), true)
	rep.Count("tmp:" + cs.Exit + ":" + cs.Known)
	rep.Sample(cs)
}

func c14GenTmp(r *RNG, i int) c14Case {
	cs := c14Case{Kind: "tmp", Input: c14Lines, Cols: 80, Rows: 24, Args: []string{"--multi", "--height", "50%"}, Exit: Pick(r, []string{"accept", "abort", "sigterm", "esc"})}
	// the initial read has finished: TReadFin
	cs.Steps = append(cs.Steps, c14Step{T: "waitload"})
	cs.Trace = append(cs.Trace, []int{7})
	ph := func(n int) string {
		return strings.TrimSpace(strings.Repeat("{f} ", n-n/2) + strings.Repeat("{+f} ", n/2))
	}
	switch i % 9 {
	case 0, 1: // synchronous commands
		k := r.Range(1, 5)
		for j := 0; j < k; j++ {
			n := r.Range(1, 3)
			act := Pick(r, []string{"execute", "execute-silent", "transform-query", "transform", "transform-header", "execute"})
			cmd := "cat " + ph(n) + " > /dev/null"
			if r.Chance(1, 4) {
				cmd = "exit 3; " + ph(n)
			}
			cs.Steps = append(cs.Steps, c14Step{T: "postsync", S: "select-all+" + act + "(" + cmd + ")"})
			capture := 0
			if strings.HasPrefix(act, "transform") {
				capture = 1
			}
			cs.Trace = append(cs.Trace, []int{1, 1, capture, n})
		}
	case 2: // previews, each one completes before the next
		n := r.Range(1, 3)
		cs.Args = append(cs.Args, "--preview", "cat "+ph(n)+" > /dev/null; echo x >> h_pvlog")
		k := r.Range(1, 4)
		cs.Steps = append(cs.Steps, c14Step{T: "waitlog", S: "h_pvlog", X: 1}, c14Step{T: "waittmp", X: 0})
		cs.Trace = append(cs.Trace, []int{2, n, 1}, []int{3})
		for j := 0; j < k; j++ {
			cs.Steps = append(cs.Steps, c14Step{T: "postsync", S: "up"}, c14Step{T: "waitlog", S: "h_pvlog", X: j + 2}, c14Step{T: "waittmp", X: 0})
			cs.Trace = append(cs.Trace, []int{2, n, 1}, []int{3})
		}
	case 3: // reloads, one at a time
		k := r.Range(1, 3)
		for j := 0; j < k; j++ {
			n := r.Range(1, 3)
			cs.Steps = append(cs.Steps, c14Step{T: "postsync", S: "reload(cat " + ph(n) + "; echo x >> h_rllog)"}, c14Step{T: "waitlog", S: "h_rllog", X: j + 1}, c14Step{T: "waitload"}, c14Step{T: "waittmp", X: 0})
			cs.Trace = append(cs.Trace, []int{4, 1, n}, []int{5}, []int{6}, []int{7})
		}
	case 4: // KNOWN: two reloads in one action list: the first one's files are never removed
		n1, n2 := r.Range(1, 2), r.Range(1, 2)
		cs.Steps = append(cs.Steps, c14Step{T: "postsync", S: "reload(cat " + ph(n1) + ")+reload(cat " + ph(n2) + "; echo x >> h_rllog)"}, c14Step{T: "waitlog", S: "h_rllog", X: 1}, c14Step{T: "waitload"}, c14Step{T: "waittmp", X: n1})
		cs.Trace = append(cs.Trace, []int{4, 1, n1}, []int{4, 1, n2}, []int{5}, []int{6}, []int{7})
		cs.Known = "c14-tempfile-double-reload"
	case 6: // KNOWN: exit while a reload that owns temp files is running
		n := r.Range(1, 2)
		cs.Steps = append(cs.Steps, c14Step{T: "postsync", S: "reload(sleep 2; cat " + ph(n) + ")"}, c14Step{T: "waittmpmin", X: n}, c14Step{T: "sleep", X: 50})
		cs.Trace = append(cs.Trace, []int{4, 1, n}, []int{5}, []int{6})
		cs.Known = "c14-tempfile-exit-during-reload"
	case 7: // KNOWN: SIGHUP while a preview that owns temp files is running
		n := r.Range(1, 2)
		cs.Args = append(cs.Args, "--preview", "sleep 1; cat "+ph(n))
		cs.Steps = append(cs.Steps, c14Step{T: "waittmpmin", X: n}, c14Step{T: "sleep", X: 30})
		cs.Trace = append(cs.Trace, []int{2, n, 1})
		cs.Known = "c14-sighup"
		cs.Exit = "hup"
	case 8: // a preview command that cannot be started (fixed in 8f13544): nothing may be left
		n := r.Range(1, 2)
		cs.NoListen = true
		cs.Args = append(cs.Args, "--with-shell", "/nonexistent -c", "--preview", "cat "+ph(n))
		cs.Steps = []c14Step{{T: "sleep", X: 250}, {T: "keys", B: []byte("\x1b[A")}, {T: "sleep", X: 150}, {T: "keys", B: []byte("\x1b[A")}, {T: "sleep", X: 150}}
		cs.Trace = [][]int{{7}, {2, n, 0}, {2, n, 0}, {2, n, 0}}
		cs.Exit = "enter"
	case 5: // become: documented exception
		n := r.Range(1, 3)
		cs.Steps = append(cs.Steps, c14Step{T: "post", S: "become(true " + ph(n) + ")"})
		cs.Trace = append(cs.Trace, []int{8, 1, n})
		cs.Exit = "becomef"
	}
	cs.Trace = append(cs.Trace, []int{9})
	return cs
}

// ---------------------------------------------------------------- (E) child processes with forking command shapes

// The shell started for a preview / reload / execute command forks when the command is a pipeline, a list, a subshell,
// a background job ...; a simple command is exec'ed in its place. "No child left behind" must hold for the whole
// process GROUP, on exit and on cancellation, so every child-process scenario is run with every shape.
var c14Shapes = []struct {
	name string
	cmd  func(d string) string
	kids int // processes expected at least while it runs
}{
	{"plain", func(d string) string { return "sleep " + d }, 1},
	{"pipeline", func(d string) string { return "sleep " + d + " | cat" }, 2},
	{"list", func(d string) string { return "sleep " + d + "; echo x" }, 2},
	{"subshell", func(d string) string { return "(sleep " + d + "; echo y)" }, 2},
	{"background", func(d string) string { return "sleep " + d + " & wait" }, 2},
	{"andor", func(d string) string { return "true && sleep " + d + " || true" }, 2},
	{"nested", func(d string) string { return "sh -c 'sleep " + d + "; echo z' | cat" }, 2},
	{"two-jobs", func(d string) string { return "sleep " + d + " & sleep " + d + " & wait" }, 3},
}

func c14GenKids(r *RNG, i int) c14Case {
	sh := c14Shapes[i%len(c14Shapes)]
	scen := (i / len(c14Shapes)) % 6
	exits := []string{"accept", "abort", "ctrl-c", "esc", "sigterm", "enter", "sigint"}
	cs := c14Case{Kind: "kids", Input: c14Lines, Cols: 80, Rows: 24, Exit: Pick(r, exits), Shape: sh.name}
	if r.Bool() {
		cs.Args = append(cs.Args, "--height", "50%")
	}
	long := sh.cmd("30")
	switch scen {
	case 0: // exit while the preview command runs
		cs.Args = append(cs.Args, "--preview", long)
		cs.Steps = []c14Step{{T: "waitload"}, {T: "waitkids", X: sh.kids}}
		cs.Child = "preview/exit"
	case 1: // the preview command is cancelled by moving to another line (quick preview there), then exit
		cs.Args = append(cs.Args, "--preview", "test {} = alpha && { "+long+"; }; echo done")
		cs.Steps = []c14Step{{T: "waitload"}, {T: "waitkids", X: sh.kids}, {T: "postsync", S: "up"}, {T: "nokids"}}
		cs.Child = "preview/cancel"
	case 2: // exit while a reload command runs
		cs.Steps = []c14Step{{T: "waitload"}, {T: "post", S: "reload(" + long + ")"}, {T: "waitkids", X: sh.kids}}
		cs.Child = "reload/exit"
	case 3: // a reload command is cancelled by the next reload, then exit
		cs.Steps = []c14Step{{T: "waitload"}, {T: "post", S: "reload(" + long + ")"}, {T: "waitkids", X: sh.kids},
			{T: "post", S: "reload(echo quick)"}, {T: "nokids"}}
		cs.Child = "reload/cancel"
	case 4: // exit while the command of start:reload runs
		cs.Args = append(cs.Args, "--bind", "start:reload("+long+")")
		cs.Steps = []c14Step{{T: "waitkids", X: sh.kids}}
		cs.Child = "start-reload/exit"
	case 5: // SIGTERM while execute / execute-silent runs a short command: fzf leaves when the command is done
		act := Pick(r, []string{"execute", "execute-silent"})
		cs.Steps = []c14Step{{T: "waitload"}, {T: "post", S: act + "(" + sh.cmd("0.4") + ")"}, {T: "waitkids", X: sh.kids}}
		cs.Exit = "sigterm"
		cs.Child = act + "/sigterm"
	}
	return cs
}

func c14Kids(c *Ctx, cs c14Case, id string) {
	rep := c.Rep
	r, err := c14StartRetried(c, cs, id)
	if err != nil {
		rep.Disagreement(Disagreement{Kind: "spec", Name: "kids.starts", Input: cs, Impl: err.Error(), Expect: "fzf starts"})
		return
	}
	defer r.close()
	for _, st := range cs.Steps {
		r.step(st)
	}
	rep.ImplTraces++
	rep.SpecChecks++
	if len(r.kidsLeft) > 0 {
		rep.Disagreement(Disagreement{Kind: "spec", Name: "kids.cancelled_command_gone", Input: cs, Impl: r.kidsLeft,
			Expect: "10 s after the cancellation no process of the cancelled command (its whole process group) is left"})
	}
	r.exit(cs.Exit)
	c14CheckClean(c, cs, r, false, 0, "kids")
	key, _ := json.Marshal(cs)
	rep.Eval(string(key), cs.Shape != "plain")
	rep.Count("kids:" + cs.Child)
	rep.Count("kids:shape=" + cs.Shape)
	rep.Sample(cs)
}

// ---------------------------------------------------------------- (D) robustness

func c14RandText(r *RNG, n int) []byte {
	var b bytes.Buffer
	pieces := []string{"a", "b", "foo", " ", "\t", "漢", "字", "한", "ｗｉｄｅ", "é", "\u0300", "\u200d", "👨‍👩‍👧", "🇰🇷", "\u202e", "\ufeff",
		"\x01", "\x07", "\x08", "\x0b", "\x0c", "\r", "\x1b", "\x1b[31m", "\x1b[0m", "\x1b[", "\x1b]8;;http://x\x1b\\", "\x1b[?1049h", "\x1b[2J", "\x7f", "\x00",
		"\xff", "\xc0\x80", "\xe2\x82", "\xf0\x9f", "\xed\xa0\x80", "\x80", "\u00ad", "　"}
	for i := 0; i < n; i++ {
		b.WriteString(Pick(r, pieces))
	}
	return b.Bytes()
}

func c14GenRobust(r *RNG) c14Case {
	cs := c14Case{Kind: "robust"}
	// input
	var in bytes.Buffer
	switch r.Intn(8) {
	case 0: // empty input
	case 1: // one very long line
		unit := c14RandText(r, 20)
		for in.Len() < Pick(r, []int{5000, 70000, 300000}) {
			in.Write(unit)
		}
		in.WriteByte('\n')
		in.WriteString("short\n")
	default:
		n := Pick(r, []int{1, 2, 5, 30, 200, 3000})
		for i := 0; i < n; i++ {
			if r.Chance(1, 8) {
				in.WriteByte('\n')
				continue
			}
			in.Write(bytes.ReplaceAll(c14RandText(r, r.Range(1, 12)), []byte("\n"), []byte(" ")))
			if r.Chance(1, 20) {
				in.Write(bytes.Repeat([]byte("long "), r.Range(50, 400)))
			}
			in.WriteByte('\n')
		}
	}
	cs.Input = in.Bytes()
	sizesC := []int{1, 2, 3, 4, 5, 8, 10, 20, 40, 80, 120, 300}
	sizesR := []int{1, 2, 3, 4, 5, 6, 8, 10, 24, 50, 100}
	cs.Cols, cs.Rows = Pick(r, sizesC), Pick(r, sizesR)
	optPool := [][]string{{"--reverse"}, {"--layout=reverse-list"}, {"--border"}, {"--border=double"}, {"--border=left"}, {"--border=none"},
		{"--height=40%"}, {"--height=~100%"}, {"--height=3"}, {"--height=1"}, {"--height=~5"}, {"--min-height=1"}, {"--multi"}, {"--no-mouse"}, {"--ansi"}, {"--wrap"}, {"--gap"}, {"--gap=3"},
		{"--header=HEAD\nER"}, {"--header-lines=2"}, {"--info=inline"}, {"--info=inline-right"}, {"--info=hidden"}, {"--no-input"}, {"--tabstop=1"}, {"--tabstop=13"},
		{"--hscroll-off=0"}, {"--scroll-off=0"}, {"--scroll-off=100"}, {"--margin=1"}, {"--margin=50%"}, {"--padding=2"}, {"--padding=40%,40%"}, {"--highlight-line"},
		{"--ellipsis="}, {"--ellipsis=漢字"}, {"--pointer=漢"}, {"--marker=>>"}, {"--no-unicode"}, {"--keep-right"}, {"--read0"}, {"--cycle"}, {"--tac"}, {"--track"},
		{"--input-border"}, {"--list-border"}, {"--header-border"}, {"--style=full"}, {"--style=minimal"}, {"--no-scrollbar"}, {"--scrollbar=漢"}, {"--no-hscroll"}, {"--no-color"}, {"--color=bw"},
		{"--prompt=漢字> "}, {"--prompt="}, {"--border-label= label with 漢字 and more text than fits in the window "}, {"--list-label=L"}, {"--input-label=I"}, {"--header-label=H"}, {"--preview-label=P"},
		{"--header-first"}, {"--separator=漢"}, {"--no-separator"}, {"--info-command=echo i"}, {"--wrap-sign=>>>"}, {"--no-multi-line"}, {"--freeze-left=1"}, {"--with-nth=2.."}, {"--nth=1"}, {"--delimiter=a"},
		{"--preview=echo {}; sleep 0.0" + strconv.Itoa(r.Intn(9))}, {"--preview=printf '\\033[31m%s\\n' {q} {}; head -c 3000 /dev/urandom"}, {"--preview=seq 500", "--preview-window=follow"},
		{"--preview-window=up,1"}, {"--preview-window=left,90%,wrap"}, {"--preview-window=down,border-none"}, {"--preview-window=hidden"}, {"--preview-window=right,1,border-left"}, {"--preview-window=~3,+{2}/2"},
		{"--bind=focus:transform-header(echo f)"}, {"--bind=resize:execute-silent(true)"}, {"--bind=change:reload(sleep 0.0" + strconv.Itoa(r.Intn(9)) + "; seq 50)"}, {"--bind=load:pos(3)"}, {"--bind=start:toggle-preview"}}
	k := r.Range(0, 6)
	for i := 0; i < k; i++ {
		cs.Args = append(cs.Args, Pick(r, optPool)...)
	}
	acts := []string{"up", "down", "first", "last", "page-up", "page-down", "half-page-up", "half-page-down", "toggle", "toggle-all", "select-all", "deselect-all", "toggle-preview",
		"toggle-preview-wrap", "preview-up", "preview-down", "preview-page-down", "preview-bottom", "preview-top", "preview-half-page-up", "toggle-wrap", "toggle-multi-line", "toggle-hscroll", "toggle-header",
		"toggle-input", "hide-input", "show-input", "toggle-sort", "toggle-track", "clear-query", "clear-screen", "refresh-preview", "offset-up", "offset-down", "offset-middle", "jump", "kill-line",
		"backward-word", "forward-word", "backward-kill-word", "yank", "beginning-of-line", "end-of-line", "delete-char", "backward-delete-char", "unix-line-discard", "toggle-in", "toggle-out",
		"put(漢字)", "put(\xff)", "put(é)", "change-query(a b)", "change-prompt(ṕ> )", "change-header(h1\nh2\nh3)", "change-preview-window(up|left,border-none|hidden|)", "change-preview(echo p {})",
		"change-border-label(xyz)", "change-list-label(l)", "change-multi(2)", "change-multi", "change-nth(2|1)", "change-ghost(ghost)", "change-pointer(>>)", "pos(5)", "pos(-1)", "pos(100000)",
		"execute-silent(true)", "execute-silent(sleep 0.0" + strconv.Itoa(r.Intn(9)) + ")", "execute(true)", "execute(sleep 0.02)", "reload(seq 30)", "reload(sleep 0.03; seq 3)", "reload-sync(seq 10)",
		"reload(printf 'x\\ty\\n\\033[31mz\\n')", "transform(echo down+up)", "transform-query(echo q)", "transform-prompt(printf '漢> ')", "preview(seq 100)", "bell", "search(b)", "rebind(a)", "unbind(a)",
		"toggle-bind", "exclude", "exclude-multi", "bg-transform-header(sleep 0.05; echo bg)", "bg-cancel", "toggle-raw", "enable-raw", "disable-raw", "up-match", "down-match", "best", "change-footer(foot)", "trigger(a)"}
	n := r.Range(3, 25)
	for i := 0; i < n; i++ {
		switch r.Intn(10) {
		case 0, 1, 2, 3:
			m := r.Range(1, 4)
			a := []string{}
			for j := 0; j < m; j++ {
				a = append(a, Pick(r, acts))
			}
			cs.Steps = append(cs.Steps, c14Step{T: "post", S: strings.Join(a, "+")})
		case 4, 5:
			cs.Steps = append(cs.Steps, c14Step{T: "keys", B: c14RandKeys(r, cs.Cols, cs.Rows)})
		case 6, 7:
			m := 1
			if r.Chance(1, 3) {
				m = r.Range(5, 30) // storm
			}
			for j := 0; j < m; j++ {
				cs.Steps = append(cs.Steps, c14Step{T: "resize", X: Pick(r, sizesC), Y: Pick(r, sizesR)})
			}
		case 8:
			cs.Steps = append(cs.Steps, c14Step{T: "sleep", X: r.Range(1, 60)})
		case 9:
			cs.Steps = append(cs.Steps, c14Step{T: "sync"})
		}
	}
	cs.Exit = Pick(r, []string{"accept", "abort", "sigint", "sigterm", "hup", "abort", "sigterm"})
	return cs
}

func c14RandKeys(r *RNG, cols, rows int) []byte {
	var b bytes.Buffer
	n := r.Range(1, 8)
	for i := 0; i < n; i++ {
		switch r.Intn(12) {
		case 0, 1:
			b.WriteString(Pick(r, []string{"a", "b", "x", " ", "漢", "é", "'", "!", "^", "$", "|"}))
		case 2:
			b.WriteString(Pick(r, []string{"\x1b[A", "\x1b[B", "\x1b[C", "\x1b[D", "\x1b[5~", "\x1b[6~", "\x1b[H", "\x1b[F", "\x1b[3~", "\x1b[Z", "\x1bOP", "\x1b[15~", "\x1b[1;5A", "\x1b[1;2B", "\x1b[1;3C", "\x1b[1;10D", "\x1bb", "\x1bf", "\x1b\x7f"}))
		case 3: // SGR mouse
			fmt.Fprintf(&b, "\x1b[<%d;%d;%d%s", Pick(r, []int{0, 1, 2, 32, 35, 64, 65, 4, 8, 16, 99}), r.Range(0, cols+2), r.Range(0, rows+2), Pick(r, []string{"M", "m"}))
		case 4: // legacy mouse
			b.WriteString("\x1b[M")
			b.WriteByte(byte(32 + r.Intn(100)))
			b.WriteByte(byte(32 + r.Intn(200)))
			b.WriteByte(byte(32 + r.Intn(200)))
		case 5: // bracketed paste
			b.WriteString("\x1b[200~" + string(c14RandText(r, r.Range(0, 6))) + Pick(r, []string{"\x1b[201~", "\x1b[201~", ""}))
		case 6: // truncated / malformed sequences
			b.WriteString(Pick(r, []string{"\x1b[", "\x1b[<", "\x1b[<0;", "\x1b[<0;1", "\x1b[1;", "\x1b[9999999999999999999;1R", "\x1b[;R", "\x1b[1;1R", "\x1bO", "\x1b[2", "\x1b[20", "\x1b[200", "\x1b[M", "\x1b[M!", "\x1b]", "\x1b[<0;0;0M", "\x1b[<-1;-1;-1M", "\x1b[<0;99999999999;1M"}))
		case 7: // control bytes (ctrl-z 0x1a included: SIGTSTP to an orphaned group is discarded)
			b.WriteByte(byte(Pick(r, []int{0, 1, 2, 4, 5, 6, 8, 9, 11, 12, 14, 16, 18, 20, 21, 22, 23, 25, 26, 29, 30, 31, 127})))
		case 8:
			b.Write([]byte(Pick(r, []string{"\xff", "\xc0", "\xe2\x82", "\xf0\x9f\x98", "\x80\x80"})))
		case 9:
			b.WriteString(Pick(r, []string{"\x1b\x1b", "\x1b\x1b[A", "\x1ba", "\x1b\r"}))
		default:
			x := byte(r.Intn(256))
			if x == 0x1c {
				// ctrl-\ is never typed: while a child owns the terminal, or after Close(), the line discipline
				// turns it into SIGQUIT and the Go runtime answers with a goroutine dump by design
				x = 0x1d
			}
			b.WriteByte(x)
		}
	}
	// never type ctrl-c / ctrl-g / ctrl-q / enter / ctrl-d / esc-alone by accident? they are legal: fzf may exit; that is handled.
	return b.Bytes()
}

func c14Robust(c *Ctx, cs c14Case, id string) {
	rep := c.Rep
	key, _ := json.Marshal(cs)
	var r *c14Run
	var err error
	for try := 0; try < 3; try++ { // liveness of start-up: retried twice
		r, err = c14Start(c, cs, id)
		if err == nil || !strings.Contains(err.Error(), "did not start within") {
			break
		}
	}
	rep.ImplTraces++
	if err != nil {
		msg := err.Error()
		switch {
		case strings.Contains(msg, "panic:") || strings.Contains(msg, "goroutine ") || strings.Contains(msg, "fatal error"):
			rep.Disagreement(Disagreement{Kind: "spec", Name: "robust.no_crash", Input: cs, Impl: msg, Expect: "no panic at start-up"})
		case strings.Contains(msg, "did not start within"):
			rep.Disagreement(Disagreement{Kind: "spec", Name: "robust.starts", Input: cs, Impl: msg, Expect: "a first frame and an answer to GET / within 10 s (3 attempts)"})
		case strings.Contains(msg, "exited during start-up (code 2)"):
			rep.Count("robust:rejected-options")
			rep.Eval(string(key), false)
		default:
			rep.Count("robust:start-other")
			rep.Extra["robust_start_other"] = msg
		}
		return
	}
	defer r.close()
	for _, st := range cs.Steps {
		if r.s.Exited() {
			break
		}
		r.step(st)
		if cr := r.s.Crash(); cr != "" {
			break
		}
	}
	rep.SpecChecks++
	if cr := r.s.Crash(); cr != "" {
		txt := c14CrashText(r.s)
		if len(r.s.Crash()) < 300 { // let the rest of the trace arrive
			time.Sleep(100 * time.Millisecond)
			txt = c14CrashText(r.s)
		}
		rep.Disagreement(Disagreement{Kind: "spec", Name: "robust.no_crash", Input: cs, Impl: txt, Expect: "no panic / fatal error on the terminal", Known: c14KnownCrash(cs, txt+string(r.s.Screen()))})
		return
	}
	if !r.responsive() {
		if os.Getenv("C14_DEBUG") != "" {
			dbg, _ := os.OpenFile(os.Getenv("C14_DEBUG"), os.O_APPEND|os.O_CREATE|os.O_WRONLY, 0644)
			r.s.Signal(syscall.SIGQUIT)
			time.Sleep(1500 * time.Millisecond)
			scr := r.s.Screen()
			if i := bytes.Index(scr, []byte("SIGQUIT")); i >= 0 {
				fmt.Fprintf(dbg, "HANG GOROUTINES:\n%s\n", strings.ReplaceAll(string(scr[i:min(len(scr), i+60000)]), "\r\n", "\n"))
			}
			dbg.Close()
		}
		rep.Disagreement(Disagreement{Kind: "spec", Name: "robust.responsive", Input: cs, Impl: "GET / not answered within 3 x 10 s and the process is alive", Expect: "answers or has exited", Known: r.knownHang(cs)})
		return
	}
	if !r.s.Exited() {
		r.s.Sync()
	}
	early := r.s.Exited()
	if early {
		_, code, _ := r.s.Wait(time.Second)
		r.exited, r.code = true, code
		r.goneTicks = c14NowTicks()
		rep.Count("robust:exited-by-keys")
	} else {
		r.exit(cs.Exit)
	}
	// every exit: clean terminal, no temp file (no {f} is used here), no process left
	wantAlt := false
	c14CheckClean(c, cs, r, wantAlt, 0, "robust")
	rep.Eval(string(key), len(cs.Input) > 0)
	rep.Count(fmt.Sprintf("robust:size<=%dx%d", bucket(cs.Cols), bucket(cs.Rows)))
	rep.Count("robust:exit=" + cs.Exit)
	if cs.Profile != "" {
		rep.Count("robust:profile=" + cs.Profile)
	}
	rep.Sample(c14Short(cs))
}

func bucket(n int) int {
	for _, b := range []int{1, 5, 24, 100, 300} {
		if n <= b {
			return b
		}
	}
	return n
}

func c14Short(cs c14Case) c14Case {
	if len(cs.Input) > 200 {
		cs.Input = append(append([]byte{}, cs.Input[:200]...), []byte("...")...)
	}
	return cs
}

// ---------------------------------------------------------------- runner

func c14Run1(c *Ctx, cs c14Case, id string) {
	switch cs.Kind {
	case "constrain":
		c14Constrain(c, cs)
	case "life":
		c14Life(c, cs, id)
	case "startup":
		c14Startup(c, cs)
	case "tmp":
		c14Tmp(c, cs, id)
	case "kids":
		c14Kids(c, cs, id)
	case "robust":
		c14Robust(c, cs, id)
	case "tmux":
		c14TmuxSession(c, cs, id)
	case "nostart":
		c14NoStart(c, cs, id)
	case "ready":
		c14ReadyRun(c, cs)
	}
}

func c14Pool(c *Ctx, cases []c14Case, par int) {
	var wg sync.WaitGroup
	ch := make(chan int)
	for w := 0; w < par; w++ {
		wg.Add(1)
		go func() {
			defer wg.Done()
			for i := range ch {
				t0 := time.Now()
				c14Run1(c, cases[i], fmt.Sprintf("%d_%d_%d", os.Getpid(), c.Seed, i))
				if f := os.Getenv("C14_TIMING"); f != "" { // debugging aid: wall time per session case
					if fh, err := os.OpenFile(f, os.O_APPEND|os.O_CREATE|os.O_WRONLY, 0644); err == nil {
						fmt.Fprintf(fh, "%.2f %s %s %s %s\n", time.Since(t0).Seconds(), cases[i].Kind, cases[i].Via, cases[i].Fail, cases[i].Exit)
						fh.Close()
					}
				}
			}
		}()
	}
	for i := range cases {
		ch <- i
	}
	close(ch)
	wg.Wait()
}

func runC14(c *Ctx) {
	c.Rep.Rule = "constrain: random (count,height,scroll-off,cy,offset), non-trivial = more items than rows; life cycle: 15 option sets x 10 exit paths with random execute/ctrl-z/hide-show/resize/typing in between, non-trivial = at least one step; temp files: scenario classes x random placeholders; robustness: random input/options/sizes/keys/actions/resizes, non-trivial = non-empty input; tmux proxy: 14 exit paths x random --tmux layouts, options, stdin kinds and triggers under a private tmux server, every one non-trivial; mouse gestures: press-origin sweeps and random gestures over random layouts, non-trivial = non-empty input; jump mode: number of labels, list rows and items around each other, jump / jump-accept entered by key or POST and left by a label / another key / a resize / a click, non-trivial = non-empty input; distinct by JSON of the case"
	if c.Replay != "" {
		var cs c14Case
		b, err := os.ReadFile(c.Replay)
		if err == nil {
			var w struct{ Input c14Case }
			if json.Unmarshal(b, &w) == nil && w.Input.Kind != "" {
				cs = w.Input
			} else {
				json.Unmarshal(b, &cs)
			}
		}
		c14Run1(c, cs, fmt.Sprintf("%d_replay", os.Getpid()))
		return
	}
	for _, f := range corpusFiles(c) {
		var cs c14Case
		b, _ := os.ReadFile(f)
		if json.Unmarshal(b, &cs) == nil && cs.Kind != "" {
			c14Run1(c, cs, fmt.Sprintf("%d_corpus", os.Getpid()))
			c.Rep.Count("corpus")
		}
	}
	// (A)
	n := c.N(3000, 100000)
	for i := 0; i < n; i++ {
		c14Constrain(c, c14GenConstrain(c.Rng))
	}
	if c.Thorough() { // exhaustive small scope
		for cnt := 0; cnt <= 7; cnt++ {
			for h := 0; h <= 6; h++ {
				for so := 0; so <= 4; so++ {
					for cy := -1; cy <= cnt+1; cy++ {
						for off := -1; off <= cnt+1; off++ {
							c14Constrain(c, c14Case{Kind: "constrain", Count: cnt, Height: h, ScrollOff: so, Cy: cy, Offset: off})
						}
					}
				}
			}
		}
	}
	// (B) (C) (D)
	cases := []c14Case{}
	nl := c.N(300, 3000)
	for i := 0; i < nl; i++ {
		cases = append(cases, c14GenLife(c.Rng, i))
	}
	for _, a := range [][]string{{"--no-such-option"}, {"--height", "abc"}, {"--bind", "a:nosuchaction"}, {"--preview-window", "bogus"}, {"--tmux", "center", "--no-such"}} {
		cases = append(cases, c14Case{Kind: "startup", Args: a, Input: c14Lines})
	}
	nt := c.N(72, 900)
	for i := 0; i < nt; i++ {
		cases = append(cases, c14GenTmp(c.Rng, i))
	}
	nk := c.N(96, 960)
	for i := 0; i < nk; i++ {
		cases = append(cases, c14GenKids(c.Rng, i))
	}
	nr := c.N(400, 8000)
	for i := 0; i < nr; i++ {
		cases = append(cases, c14GenRobust(c.Rng))
	}
	// (G) commands that cannot be started: the reader hand-shake through the hook, and sessions (c14nostart.go)
	ng := c.N(80, 2000)
	for i := 0; i < ng; i++ {
		cases = append(cases, c14GenReady(c.Rng, i))
	}
	// (its sessions are generated here and run first: the fixed 10 s wait of a failing become overlaps with the rest)
	nn := c.N(60, 900)
	nsCases := []c14Case{}
	for i := 0; i < nn; i++ {
		nsCases = append(nsCases, c14GenNoStart(c.Rng, i))
	}
	cases = append(nsCases, cases...)
	// (F) the --tmux popup proxy under a private tmux server; generated last (the other streams keep their cases per
	// seed) and run first (their fixed waits overlap with the rest)
	ntm := c.N(28, 420)
	tmuxCases := []c14Case{}
	for i := 0; i < ntm; i++ {
		tmuxCases = append(tmuxCases, c14GenTmux(c.Rng, i))
	}
	cases = append(tmuxCases, cases...)
	// (H) mouse gestures (c14mouse.go); generated after everything else: the other streams keep their cases per seed
	nm := c.N(50, 1500)
	for i := 0; i < nm; i++ {
		cases = append(cases, c14GenMouse(c.Rng, i))
	}
	c14MouseModel(c, c.N(200, 5000))
	// (I) jump mode: labels x visible rows x items around each other (c14jump.go); generated after everything else
	nj := c.N(60, 1500)
	for i := 0; i < nj; i++ {
		cases = append(cases, c14GenJump(c.Rng, i))
	}
	c14JumpModel(c, c.N(300, 5000))
	if only := os.Getenv("C14_ONLY"); only != "" { // debugging aid: restrict the session cases to one kind
		kept := []c14Case{}
		for _, cs := range cases {
			if cs.Kind == only && (os.Getenv("C14_PROFILE") == "" || cs.Profile == os.Getenv("C14_PROFILE")) && (os.Getenv("C14_EXIT") == "" || cs.Exit == os.Getenv("C14_EXIT")) {
				kept = append(kept, cs)
			}
		}
		cases = kept
	}
	c14Pool(c, cases, 10)
}

func init() { runners["C14"] = runC14 }
