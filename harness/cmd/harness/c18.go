package main

import (
	"encoding/json"
	"fmt"
	"os"
	"path/filepath"
	"strings"

	fzf "github.com/junegunn/fzf/src"
)

type c18Op struct {
	T int    `json:"t"` // 0 edit, 1 prev, 2 next
	S string `json:"s,omitempty"`
}
type c18Session struct {
	Ops    []c18Op `json:"ops"`
	Submit bool    `json:"submit"`
}
type c18Case struct {
	Max      int          `json:"max"`
	File     *string      `json:"file"` // nil = missing
	Sessions []c18Session `json:"sessions"`
}

type c18Obs struct {
	File  string
	Seen  []string
	Input string
}

func c18Impl(dir string, cs c18Case) (obs []c18Obs, panicked string) {
	path := filepath.Join(dir, "hist")
	os.Remove(path)
	if cs.File != nil {
		os.WriteFile(path, []byte(*cs.File), 0600)
	}
	defer func() {
		if r := recover(); r != nil {
			panicked = fmt.Sprint(r)
		}
	}()
	for _, s := range cs.Sessions {
		h, err := fzf.NewHistory(path, cs.Max)
		if err != nil {
			return obs, "error: " + err.Error()
		}
		input := ""
		seen := []string{}
		for _, o := range s.Ops {
			switch o.T {
			case 0:
				input = o.S
			case 1:
				h.VerifOverride(input)
				input = strings.ReplaceAll(h.VerifPrevious(), "\t", " ")
				seen = append(seen, input)
			case 2:
				h.VerifOverride(input)
				input = strings.ReplaceAll(h.VerifNext(), "\t", " ")
				seen = append(seen, input)
			}
		}
		if s.Submit {
			h.VerifAppend(input)
		}
		data, _ := os.ReadFile(path)
		obs = append(obs, c18Obs{string(data), seen, input})
	}
	return obs, ""
}

func c18Arg(cs c18Case) Val {
	file := L()
	if cs.File != nil {
		file = L(Bytes(*cs.File))
	}
	ss := []Val{}
	for _, s := range cs.Sessions {
		ops := []Val{}
		for _, o := range s.Ops {
			if o.T == 0 {
				ops = append(ops, L(I(0), Bytes(o.S)))
			} else {
				ops = append(ops, L(I(o.T)))
			}
		}
		ss = append(ss, L(L(ops...), B(s.Submit)))
	}
	return L(I(cs.Max), file, L(ss...))
}

func c18Check(c *Ctx, dir string, cs c18Case) {
	rep := c.Rep
	obs, pan := c18Impl(dir, cs)
	rep.ImplTraces++
	key, _ := json.Marshal(cs)
	submitted := []string{}
	nav := 0
	for _, s := range cs.Sessions {
		for _, o := range s.Ops {
			if o.T != 0 {
				nav++
			}
		}
	}
	if pan != "" {
		rep.Disagreement(Disagreement{Kind: "spec", Name: "no_crash", Input: cs, Impl: pan, Expect: "no panic / error"})
		return
	}
	// the submitted query of each session is the input at its end
	for i, s := range cs.Sessions {
		if s.Submit {
			submitted = append(submitted, obs[i].Input)
		}
	}
	nonEmptySub := 0
	for _, q := range submitted {
		if q != "" {
			nonEmptySub++
		}
	}
	rep.Eval(string(key), nonEmptySub > 0 && nav > 0)
	// (5b) correspondence: per-session file bytes, shown strings and final input
	mv := c.Model.Call(1801, c18Arg(cs))
	want := []Val{}
	for _, o := range obs {
		want = append(want, L(L(Bytes(o.File)), Strs(o.Seen), Bytes(o.Input)))
	}
	if !mv.Equal(L(want...)) {
		rep.Disagreement(Disagreement{Kind: "corr", Name: "corr:C18.run_session", Input: cs, Impl: L(want...).String(), Expect: mv.String()})
	}
	// (5a) navigation spec on what the implementation showed: an array of texts (loaded entries + scratch line)
	// with a cursor; editing changes the text under the cursor, previous/next only move the cursor
	{
		cur := L()
		if cs.File != nil {
			cur = L(Bytes(*cs.File))
		}
		for i, s := range cs.Sessions {
			var data Val
			if len(cur.L) == 0 {
				data = Bytes("")
			} else {
				data = cur.L[0]
			}
			entries := c.Model.Call(1803, data)
			ops := []Val{}
			for _, o := range s.Ops {
				if o.T == 0 {
					ops = append(ops, L(I(0), Bytes(o.S)))
				} else {
					ops = append(ops, L(I(o.T)))
				}
			}
			want := c.Model.Call(1804, L(entries, L(ops...)))
			rep.SpecChecks++
			if !want.Equal(Strs(obs[i].Seen)) {
				rep.Disagreement(Disagreement{Kind: "spec", Name: "edits_come_back (navigation spec)", Input: cs,
					Impl: Strs(obs[i].Seen).String(), Expect: want.String()})
				break
			}
			cur = L(Bytes(obs[i].File))
		}
	}
	// (5a) spec on the implementation's final file
	final := ""
	if len(obs) > 0 {
		final = obs[len(obs)-1].File
	} else if cs.File != nil {
		final = *cs.File
	}
	file0 := L()
	if cs.File != nil {
		file0 = L(Bytes(*cs.File))
	}
	rep.SpecChecks++
	if nonEmptySub > 0 {
		gotEntries := c.Model.Call(1803, Bytes(final))
		wantEntries := c.Model.Call(1802, L(I(cs.Max), file0, Strs(submitted)))
		if !gotEntries.Equal(wantEntries) {
			rep.Disagreement(Disagreement{Kind: "spec", Name: "sessions_keep_last_n", Input: cs, Impl: gotEntries.String(), Expect: wantEntries.String()})
		}
	} else {
		orig := ""
		if cs.File != nil {
			orig = *cs.File
		}
		if len(cs.Sessions) > 0 && final != orig {
			rep.Disagreement(Disagreement{Kind: "spec", Name: "edits_never_written", Input: cs, Impl: final, Expect: orig})
		}
	}
	rep.Sample(cs)
	rep.Count(fmt.Sprintf("sessions=%d", len(cs.Sessions)))
	rep.Count(fmt.Sprintf("max=%d", min(cs.Max, 6)))
	if cs.File == nil {
		rep.Count("file=missing")
	} else if *cs.File == "" {
		rep.Count("file=empty")
	} else if strings.HasSuffix(*cs.File, "\n") {
		rep.Count("file=nl-terminated")
	} else {
		rep.Count("file=unterminated")
	}
	rep.CountN("nav_steps", nav)
	rep.CountN("submits_nonempty", nonEmptySub)
}

func c18Gen(r *RNG) c18Case {
	word := func() string {
		if r.Chance(1, 6) {
			return ""
		}
		alpha := []string{"a", "b", "c", " ", "é", "'", "x"}
		n := r.Range(1, 4)
		s := ""
		for i := 0; i < n; i++ {
			s += Pick(r, alpha)
		}
		return s
	}
	cs := c18Case{Max: Pick(r, []int{1, 1, 2, 2, 3, 4, 5, 1000})}
	switch r.Intn(8) {
	case 0: // missing
	case 1:
		s := ""
		cs.File = &s
	default:
		n := r.Range(0, 8)
		parts := []string{}
		for i := 0; i < n; i++ {
			if r.Chance(1, 8) {
				parts = append(parts, "")
			} else {
				parts = append(parts, word()+"w")
			}
		}
		s := strings.Join(parts, "\n")
		if r.Bool() {
			s += "\n"
		}
		if r.Chance(1, 6) {
			s = "\n\n" + s + "\n"
		}
		cs.File = &s
	}
	ns := r.Range(1, 5)
	for i := 0; i < ns; i++ {
		s := c18Session{Submit: r.Chance(3, 4)}
		no := r.Range(0, 12)
		for j := 0; j < no; j++ {
			switch r.Intn(5) {
			case 0, 1:
				s.Ops = append(s.Ops, c18Op{T: 0, S: word()})
			case 2, 3:
				s.Ops = append(s.Ops, c18Op{T: 1})
			default:
				s.Ops = append(s.Ops, c18Op{T: 2})
			}
		}
		cs.Sessions = append(cs.Sessions, s)
	}
	return cs
}

func runC18(c *Ctx) {
	c.Rep.Rule = "random multi-session histories (limits 1..5,1000; initial file missing/empty/terminated/unterminated/over-long/with blank lines); non-trivial = at least one non-empty submission and one previous/next step; distinct by JSON of the case; plus program runs (kind proc): sequences of 1..5 runs of the fzf binary on a pty over two history files, --history/--history-size/--no-history in both orders and forms, overridden, spread over options file / FZF_DEFAULT_OPTS / command line, query from --query, typed keys or POSTed actions, previous/next, attempts that end the run only if the list is not empty (become with an item placeholder, accept-non-empty; mostly on an empty list, repeated, the files read after every step while the session is open), endings accept (match / no match) print-query accept-or-print-query become abort-keys SIGTERM SIGINT, default limit 1000 on files of 997..1003 entries; non-trivial = at least one recorded non-empty submission"
	dir := c.Work
	if c.Replay != "" {
		var cs c18Case
		b, err := os.ReadFile(c.Replay)
		if pc, ok := c18ProcParse(b); ok && err == nil {
			c18ProcCheck(c, pc)
			return
		}
		if err == nil {
			var w struct{ Input c18Case }
			if json.Unmarshal(b, &w) == nil && len(w.Input.Sessions) > 0 {
				cs = w.Input
			} else {
				json.Unmarshal(b, &cs)
			}
		}
		c18Check(c, dir, cs)
		return
	}
	for _, f := range corpusFiles(c) {
		var cs c18Case
		b, _ := os.ReadFile(f)
		if pc, ok := c18ProcParse(b); ok {
			c18ProcCheck(c, pc)
			c.Rep.Count("corpus")
			continue
		}
		if json.Unmarshal(b, &cs) == nil {
			c18Check(c, dir, cs)
			c.Rep.Count("corpus")
		}
	}
	n := c.N(3000, 60000)
	for i := 0; i < n; i++ {
		c18Check(c, dir, c18Gen(c.Rng))
	}
	// the history file as the real program maintains it across runs (c18proc.go)
	c18ProcRun(c)
}

func init() { runners["C18"] = runC18 }
