package main

// C06, interactive part: the input of a running fzf is replaced (reload / reload-sync) any number of times.
// After every source has been read completely the list must be the reading of THAT stream alone
// (spec session_views, op 610; newest first under --tac: filter_listing, op 608): header lines diverted again,
// items numbered from the start of that stream, the last --tail items kept - whatever was loaded before.
// The real binary runs on a pty (pty.go); the list is what GET / of --listen reports (index, text).
//
// Timing: "the source has been read" is an eventually-observation.  A reload action sets the terminal's
// `reading` flag before the marker of PostSync is written, so after PostSync a state with reading=false
// belongs to the new source; the matcher publishes its list a little later.  A list is accepted as soon as it
// equals the expectation; it is rejected only when it has stayed the same, complete (matchCount = totalCount)
// and not reading for c06Settle, or at the 15 s deadline; a rejected session is run again (twice) before anything
// is reported.

import (
	"fmt"
	"os"
	"path/filepath"
	"strings"
	"sync/atomic"
	"time"

	fzf "github.com/junegunn/fzf/src"
)

type c06Load struct {
	Act   string   `json:"act"` // first: stdin | default-command | start-reload ; then: reload | reload-sync
	Segs  []c06Seg `json:"segs,omitempty"`
	Split int      `json:"split,omitempty"` // > 0 (commands only): the first Split bytes, a pause of 30 ms, then the rest
}

func (l *c06Load) data() []byte { return (&c06Case{Segs: l.Segs}).data() }

const (
	c06Settle   = 2500 * time.Millisecond
	c06Deadline = 15 * time.Second
)

var c06InterConfirmed atomic.Bool // a failure has survived its retries: later cases of this run are not retried

type c06IView struct {
	load int
	got  []FzfItem
	st   *FzfState
	why  string
}

func c06ItemsEqual(a, b []FzfItem) bool {
	if len(a) != len(b) {
		return false
	}
	for i := range a {
		if a[i] != b[i] {
			return false
		}
	}
	return true
}

func c06BriefItems(xs []FzfItem) string {
	s := fmt.Sprintf("%d items:", len(xs))
	for i, x := range xs {
		if i >= 12 {
			s += " ..."
			break
		}
		s += fmt.Sprintf(" %d:%q", x.Index, c06Clip(x.Text))
	}
	return s
}

// c06AwaitView waits until GET / shows `want`; returns the rejected view otherwise (see the header comment).
func c06AwaitView(s *Session, want []FzfItem) (bad *c06IView) {
	deadline := time.Now().Add(c06Deadline)
	var last *FzfState
	lastSig := ""
	lastChange := time.Now()
	for i := 0; ; i++ {
		st, err := s.Get()
		if err != nil {
			if s.Exited() {
				return &c06IView{st: last, why: "fzf exited: " + s.Crash()}
			}
		} else {
			last = st
			if !st.Reading && st.TotalCount == len(want) && c06ItemsEqual(st.Matches, want) {
				return nil
			}
			sig := fmt.Sprint(st.Reading, st.TotalCount, st.MatchCount, len(st.Matches))
			if len(st.Matches) > 0 {
				sig += fmt.Sprint(st.Matches[0], st.Matches[len(st.Matches)-1])
			}
			if sig != lastSig {
				lastSig, lastChange = sig, time.Now()
			}
			if !st.Reading && st.MatchCount == st.TotalCount && time.Since(lastChange) >= c06Settle {
				return &c06IView{got: st.Matches, st: st, why: "settled"}
			}
		}
		if time.Now().After(deadline) {
			v := &c06IView{st: last, why: "deadline"}
			if last != nil {
				v.got = last.Matches
			}
			return v
		}
		if i < 100 {
			time.Sleep(2 * time.Millisecond)
		} else {
			time.Sleep(15 * time.Millisecond)
		}
	}
}

// c06Session runs the whole session once; nil = every list was as expected.
func c06Session(c *Ctx, cs *c06Case, want [][]FzfItem) (*c06IView, error) {
	base := c.Work
	if base == "" {
		base = os.TempDir()
	}
	os.MkdirAll(base, 0755)
	dir, err := os.MkdirTemp(base, "c06i")
	if err != nil {
		return nil, err
	}
	defer os.RemoveAll(dir)
	cmds := make([]string, len(cs.Loads))
	for i := range cs.Loads {
		l := &cs.Loads[i]
		d := l.data()
		f := filepath.Join(dir, fmt.Sprintf("s%d", i))
		if err := os.WriteFile(f, d, 0600); err != nil {
			return nil, err
		}
		q := shQuote(f)
		if l.Split > 0 && l.Split < len(d) {
			cmds[i] = fmt.Sprintf("head -c %d %s; sleep 0.03; tail -c +%d %s", l.Split, q, l.Split+1, q)
		} else {
			cmds[i] = "cat " + q
		}
	}
	args := []string{}
	if cs.Read0 {
		args = append(args, "--read0")
	}
	if cs.Tail > 0 {
		args = append(args, "--tail", fmt.Sprint(cs.Tail))
	}
	if cs.HL > 0 {
		args = append(args, "--header-lines", fmt.Sprint(cs.HL))
	}
	if cs.Tac {
		args = append(args, "--tac")
	}
	o := SessionOpts{Args: args, Cols: 80, Rows: 24}
	switch cs.Loads[0].Act {
	case "default-command":
		o.StdinTTY = true
		o.Env = []string{"FZF_DEFAULT_COMMAND=" + cmds[0]}
	case "start-reload":
		o.StdinTTY = true
		o.Args = append(o.Args, "--bind", "start:reload("+cmds[0]+")")
	default: // stdin
		o.Stdin = append([]byte{}, cs.Loads[0].data()...)
	}
	s, err := StartSession(c, o)
	if err != nil {
		return nil, err
	}
	defer s.Close()
	for i := range cs.Loads {
		if i > 0 {
			act := "reload"
			if cs.Loads[i].Act == "reload-sync" {
				act = "reload-sync"
			}
			if err := s.PostSync(act + "(" + cmds[i] + ")"); err != nil {
				if s.Exited() {
					return &c06IView{load: i, why: "fzf exited: " + s.Crash()}, nil
				}
				return nil, err
			}
		}
		if bad := c06AwaitView(s, want[i]); bad != nil {
			bad.load = i
			return bad, nil
		}
	}
	if cr := s.Crash(); cr != "" {
		return &c06IView{load: len(cs.Loads) - 1, why: "crash: " + cr}, nil
	}
	return nil, nil
}

func c06Inter(c *Ctx, cs *c06Case) {
	rep := c.Rep
	if len(cs.Loads) == 0 {
		return
	}
	// spec: the list after each source
	streams := make([]Val, len(cs.Loads))
	total := 0
	for i := range cs.Loads {
		d := cs.Loads[i].data()
		total += len(d)
		streams[i] = Bytes(string(d))
	}
	var views []Val
	if cs.Tac {
		for i := range streams {
			views = append(views, c.Model.Call(608, L(B(cs.Read0), B(true), I(cs.HL), I(cs.Tail), streams[i])).L[1])
		}
	} else {
		views = c.Model.Call(610, L(B(cs.Read0), I(cs.HL), I(cs.Tail), L(streams...))).L
	}
	if len(views) != len(cs.Loads) {
		rep.Disagreement(Disagreement{Kind: "corr", Name: "corr:C06.session_spec_call", Input: cs, Impl: len(views), Expect: len(cs.Loads)})
		return
	}
	want := make([][]FzfItem, len(views))
	nontrivial := false
	for i, v := range views {
		want[i] = []FzfItem{}
		for _, it := range v.L {
			want[i] = append(want[i], FzfItem{Index: int(it.L[0].I), Text: it.L[1].Str()})
		}
		if len(want[i]) >= 2 && len(cs.Loads) >= 2 {
			nontrivial = true
		}
	}
	rep.Eval(c06Key(cs), nontrivial)
	tries := 3
	if c06InterConfirmed.Load() {
		tries = 1
	}
	var bad *c06IView
	var infra error
	for t := 0; t < tries; t++ {
		bad, infra = c06Session(c, cs, want)
		if bad == nil && infra == nil {
			break
		}
		rep.Count("inter:retries")
	}
	rep.ImplTraces++
	rep.SpecChecks += len(cs.Loads)
	if infra != nil && bad == nil {
		// the session could not be driven at all (pty / port / start-up): not an observation of the property
		rep.Count("inter:infrastructure_failures")
		rep.Extra["inter:last_infrastructure_failure"] = infra.Error()
		return
	}
	if bad != nil {
		c06InterConfirmed.Store(true)
		name := "session_views(records)"
		w := want[bad.load]
		if len(bad.got) == len(w) {
			same := true
			for i := range w {
				if w[i].Text != bad.got[i].Text {
					same = false
				}
			}
			if same {
				name = "session_views(item numbering)"
			}
		}
		if strings.HasPrefix(bad.why, "fzf exited") || strings.HasPrefix(bad.why, "crash") {
			name = "session_total"
		}
		state := ""
		if bad.st != nil {
			state = fmt.Sprintf(" reading=%v totalCount=%d matchCount=%d", bad.st.Reading, bad.st.TotalCount, bad.st.MatchCount)
		}
		rep.Disagreement(Disagreement{Kind: "spec", Name: name, Input: cs,
			Impl: fmt.Sprintf("source %d (%s), %s:%s %s", bad.load, cs.Loads[bad.load].Act, bad.why, state, c06BriefItems(bad.got)),
			Expect: c06BriefItems(w)})
		return
	}
	// correspondence with the coordinator model (affordable sizes only: the memory model is list based)
	if total <= 48*1024 || c.Replay != "" {
		loads := make([]Val, len(cs.Loads))
		for i := range cs.Loads {
			l := &cs.Loads[i]
			d := l.data()
			cuts, news := []int{}, []int{}
			if l.Split > 0 && l.Split < len(d) && l.Act != "stdin" {
				cuts = []int{l.Split}
				news = []int{len(splitBytes(string(d[:l.Split]), delimOf(cs.Read0))) - 1}
			}
			loads[i] = L(B(l.Act == "reload-sync"), streams[i], Ints(cuts), Ints(news))
		}
		mv := c.Model.Call(609, L(I(c06Buf), I(c06Slab), I(fzf.VerifChunkSize()), B(cs.Read0), I(cs.HL), I(cs.Tail), L(loads...)))
		implV := make([]Val, len(want))
		for i := range want {
			w := want[i] // what the process showed (it equalled the spec), in stream order
			vs := make([]Val, len(w))
			for j := range w {
				k := j
				if cs.Tac {
					k = len(w) - 1 - j
				}
				vs[j] = L(I(w[k].Index), Bytes(w[k].Text))
			}
			implV[i] = L(vs...)
		}
		if !L(implV...).Equal(mv) {
			rep.Disagreement(Disagreement{Kind: "corr", Name: "corr:C06.session", Input: cs, Impl: c06Clip(L(implV...).String()), Expect: c06Clip(mv.String())})
		}
		rep.Count("inter:model_compared")
	}
	rep.Sample(cs.summary())
	rep.Count("inter")
	for i := range cs.Loads {
		rep.Count("inter:source=" + cs.Loads[i].Act)
		if cs.Loads[i].Split > 0 {
			rep.Count("inter:two_part_delivery")
		}
	}
	rep.Count(fmt.Sprintf("inter:read0=%v,tail=%v,hl=%v,tac=%v", cs.Read0, cs.Tail > 0, cs.HL > 0, cs.Tac))
}

// c06InterStream: one stream for the given delimiter (mostly small, sometimes around the buffer boundaries)
func c06InterStream(r *RNG, read0 bool) []c06Seg {
	for {
		var g *c06Case
		if r.Chance(1, 12) {
			g = c06GenBig(r, "inter", true)
		} else {
			g = c06GenSmall(r, "inter", true)
		}
		if g.Read0 == read0 {
			return g.Segs
		}
	}
}

func c06GenInter(r *RNG) *c06Case {
	cs := &c06Case{Kind: "inter", Read0: r.Bool()}
	n := Pick(r, []int{1, 2, 2, 2, 3, 3, 4})
	nrec0 := 0
	for i := 0; i < n; i++ {
		l := c06Load{Segs: c06InterStream(r, cs.Read0)}
		if i == 0 {
			l.Act = Pick(r, []string{"stdin", "stdin", "default-command", "start-reload"})
			nrec0 = len(splitBytes(string(l.data()), delimOf(cs.Read0)))
		} else {
			l.Act = Pick(r, []string{"reload", "reload-sync", "reload-sync"})
		}
		if d := l.data(); l.Act != "stdin" && len(d) >= 2 && r.Chance(1, 3) {
			l.Split = r.Range(1, len(d)-1)
		}
		cs.Loads = append(cs.Loads, l)
	}
	if r.Chance(1, 2) {
		cs.Tail = Pick(r, []int{1, 2, 3, 99, 100, 101, 150, max(nrec0-1, 1), max(nrec0/2, 1), nrec0 + 1})
	}
	if r.Chance(1, 2) {
		cs.HL = Pick(r, []int{1, 1, 2, 3, max(nrec0/2, 1), nrec0 + 2})
	}
	cs.Tac = r.Chance(1, 5)
	return cs
}
