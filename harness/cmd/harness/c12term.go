package main

// C12, the running finder.  Two more kinds of case:
//
//   term : hook VerifTerminalExpand = Terminal.buildPlusList followed by Terminal.replacePlaceholder on a minimal Terminal
//          (a list, a cursor position, a selection order).
//            corr : == extracted model terminal_expand (op 1210)
//            spec : with an item under the cursor the expansion is valid, and it is the expansion of the template with
//                   {} standing for the cursor item and {+} for plus_items (Coq spec, op 1213): same round-trip and
//                   temp-file checks as for kind tpl (specExpansion)
//   live : the fzf binary built from the working tree on a pty (--listen): a list of hostile items, a random action
//          sequence (toggle / up / down / select-all / ...), then ONE command template run through execute-silent,
//          execute, execute-multi, transform-header, preview, change-preview, reload or become.  The command is
//            printf '%s\0' X <template> > w ; cat <f-placeholder> > f0 ; ... ; echo > done
//          run by the real shell fzf starts; the words in w and the contents of f0.. are compared with the template read
//          over the finder's own state (GET /: current item and selected items in selection order) - the argv seen by
//          a shell command run with the expanded template.
//          Sessions run in parallel (observation only); all judging is sequential.

import (
	"bytes"
	"encoding/json"
	"fmt"
	"os"
	"path/filepath"
	"strings"
	"sync"
	"time"

	fzf "github.com/junegunn/fzf/src"
)

// plus_items (Coq spec): what {+} ranges over
func (s *c12State) plusItems(cur *c12Item, sel []c12Item) []c12Item {
	curL := []c12Item{}
	if cur != nil {
		curL = append(curL, *cur)
	}
	v := s.c.Model.Call(1213, L(c12Items(curL), c12Items(sel)))
	out := []c12Item{}
	for _, e := range v.L {
		if e.IsList && len(e.L) == 2 {
			out = append(out, c12Item{Idx: int32(e.L[0].I), Text: e.L[1].Str()})
		}
	}
	return out
}

func (s *c12State) checkTerm(cs c12Case) {
	c, rep := s.c, s.c.Rep
	items := make([]fzf.VerifItem, len(cs.Items))
	for i, it := range cs.Items {
		items[i] = fzf.VerifItem{Index: it.Idx, Text: it.Text}
	}
	order := []int{}
	seen := map[int]bool{}
	for _, p := range cs.SelOrder { // a replay file edited by hand must not crash the hook
		if p >= 0 && p < len(items) && !seen[p] {
			seen[p] = true
			order = append(order, p)
		}
	}
	var valid bool
	var out, action string
	var temps []string
	pan := ""
	envShell, withShell := cs.shellPair()
	fish := s.dialect(envShell, withShell).fish
	func() {
		defer func() {
			if r := recover(); r != nil {
				pan = fmt.Sprint(r)
			}
		}()
		c12UnderShell(envShell, func() {
			if cs.View != nil {
				valid, out, temps, action = fzf.VerifTerminalExpandView(cs.Template, cs.ForcePlus, cs.Delim, cs.Printsep, cs.Query,
					c12ViewHookItems(cs), cs.Cy, order, cs.Prompt, withShell, cs.View.Ansi, cs.View.coloured())
				return
			}
			valid, out, temps, action = fzf.VerifTerminalExpand(cs.Template, cs.ForcePlus, cs.Delim, cs.Printsep, cs.Query,
				items, cs.Cy, order, cs.Prompt, withShell)
		})
	}()
	rep.ImplTraces++
	if pan != "" {
		rep.Disagreement(Disagreement{Kind: "spec", Name: "no_crash", Input: cs, Impl: "panic: " + pan, Expect: "no panic"})
		return
	}
	read := c12FileReader(out, temps)
	files := []string{}
	for _, t := range temps {
		b, _ := read(t)
		files = append(files, b)
	}
	var cur *c12Item
	curL := []c12Item{}
	// what the items are to a placeholder: the lines; with a view, item_text of the lines (Coq spec)
	asSeen := cs.Items
	if texts := s.viewTexts(cs); texts != nil {
		asSeen = make([]c12Item, len(cs.Items))
		for i, it := range cs.Items {
			asSeen[i] = c12Item{Idx: it.Idx, Text: texts[i]}
		}
	}
	if cs.Cy >= 0 && cs.Cy < len(cs.Items) {
		cur = &asSeen[cs.Cy]
		curL = append(curL, *cur)
	}
	sel := []c12Item{}
	onSel := false
	for _, p := range order {
		sel = append(sel, asSeen[p])
		onSel = onSel || p == cs.Cy
	}
	// corr: model buildPlusList ; replacePlaceholder == impl (valid, command line, temp-file contents)
	var mv Val
	if cs.View != nil {
		// model of the reader's item construction ; Item.AsString ; buildPlusList ; Terminal.replacePlaceholder over the LINES
		lines := c12ViewLines(cs)
		curLines, selLines := []Val{}, []Val{}
		if cs.Cy >= 0 && cs.Cy < len(cs.Items) {
			curLines = append(curLines, lines[cs.Cy])
		}
		for _, p := range order {
			selLines = append(selLines, lines[p])
		}
		mv = c.Model.Call(1224, L(B(cs.View.Ansi), B(cs.View.coloured()), c12Params(cs, action), L(curLines...), L(selLines...),
			Bytes(cs.Template), Strs(temps)))
	} else {
		mv = c.Model.Call(1210, L(c12Params(cs, action), c12Items(curL), c12Items(sel), Bytes(cs.Template), Strs(temps)))
	}
	implV := L(B(valid), Bytes(out), Strs(files))
	if !mv.Equal(implV) {
		exp := mv.String()
		if mv.IsList && len(mv.L) == 3 {
			exp = fmt.Sprintf("valid=%d %q files %q", mv.L[0].I, mv.L[1].Str(), mv.L[2].String())
		}
		s.corr(Disagreement{Kind: "corr", Name: "corr:C12.terminal_expand", Input: cs,
			Impl: fmt.Sprintf("valid=%v %q files %q", valid, out, files), Expect: exp})
	}
	key, _ := json.Marshal(cs)
	nontrivial := false
	if cur != nil && !fish && cs.Parts != nil {
		rep.SpecChecks++
		if !valid {
			rep.Disagreement(Disagreement{Kind: "spec", Name: "terminal_expansion_valid", Input: cs,
				Impl: "buildPlusList answered valid=false: the command is not run", Expect: "valid (there is an item under the cursor)"})
		}
		eff := cs
		eff.Cur = cur
		eff.Sel = s.plusItems(cur, sel)
		nontrivial = s.specExpansion(cs, eff, out, temps, action, read)
	} else if !fish {
		s.shellModelCheck(cs, out)
	} else if cur != nil && cs.Parts != nil {
		eff := cs
		eff.Cur = cur
		eff.Sel = s.plusItems(cur, sel)
		s.fishExpansion(cs, eff, out)
	}
	rep.Eval(string(key), nontrivial)
	rep.Sample(cs)
	rep.Count("kind=term")
	s.countView(cs, "term")
	s.countShells(cs)
	rep.Count(fmt.Sprintf("term:selected=%d", len(sel)))
	switch {
	case cur == nil:
		rep.Count("term:no_current_item")
	case len(sel) > 0 && onSel:
		rep.Count("term:cursor_on_a_selected_item")
	case len(sel) > 0:
		rep.Count("term:cursor_off_the_selection")
	}
	if len(temps) > 0 {
		rep.Count("with_temp_file")
	}
}

// ---- live ----

type c12LiveObs struct {
	infra string // the session could not be driven (not a verdict about fzf)
	crash string
	state string // what GET / said, for the report
	query string // the query the finder holds (--query with its tabs turned into blanks by fzf's trimQuery)
	cur   *c12Item
	sel   []c12Item
	// the reader changed an item text (then the case is not judged)
	textChanged string
	listedOther bool // a case with a view: GET / lists a text other than item_text of the line (counted; judged all the same)
	done        bool
	words       []string // content of w cut at NUL
	wordsOK     bool
	files       []string
	filesOK     []bool
}

func c12LiveCommand(cs c12Case) string {
	var b strings.Builder
	b.WriteString("printf '%s\\0' " + c12Sentinel + " " + cs.Template + " > w")
	for k, ph := range cs.FilePhs {
		fmt.Fprintf(&b, "; cat %s > f%d", ph, k)
	}
	b.WriteString("; echo > done")
	return b.String()
}

func c12LiveArgs(cs c12Case) ([]string, []byte) {
	args := []string{"--multi", "--prompt", cs.Prompt}
	read0 := false
	for _, it := range cs.Items {
		read0 = read0 || strings.Contains(it.Text, "\n")
	}
	sep := "\n"
	if read0 {
		args = append(args, "--read0")
		sep = "\x00"
	}
	var in bytes.Buffer
	for _, it := range cs.Items {
		in.WriteString(it.Text + sep)
	}
	if cs.Delim != nil {
		args = append(args, "--delimiter", *cs.Delim)
	}
	if cs.Printsep == "\x00" {
		args = append(args, "--print0")
	}
	if cs.Query != "" {
		args = append(args, "--query", cs.Query)
		if !cs.Search {
			args = append(args, "--disabled")
		}
	}
	if cs.Shell != "" {
		args = append(args, "--with-shell", cs.Shell)
	}
	if cs.Mode == "preview" || cs.Mode == "change-preview" {
		args = append(args, "--preview", ":")
	}
	if v := cs.View; v != nil {
		if v.Ansi {
			args = append(args, "--ansi")
		}
		if v.WithNth != "" {
			args = append(args, "--with-nth", v.WithNth)
		}
		args = append(args, v.Opts...)
	}
	return args, in.Bytes()
}

func c12WaitFile(s *Session, path string, d time.Duration) bool {
	deadline := time.Now().Add(d)
	for i := 0; ; i++ {
		if _, err := os.Stat(path); err == nil {
			return true
		}
		if time.Now().After(deadline) {
			return false
		}
		if i < 200 {
			time.Sleep(200 * time.Microsecond)
		} else {
			time.Sleep(2 * time.Millisecond)
		}
	}
}

// runLive drives one session and only observes.
// texts: what each input line is to a placeholder (viewTexts; nil: the line itself)
func c12RunLive(c *Ctx, cs c12Case, texts []string) (o c12LiveObs) {
	args, stdin := c12LiveArgs(cs)
	so := SessionOpts{Args: args, Stdin: stdin}
	if cs.EnvShell != nil {
		so.Env = []string{"SHELL=" + *cs.EnvShell} // a later entry wins over the session's default SHELL=/bin/sh
	}
	if cs.View != nil {
		so.Env = append(so.Env, cs.View.Env...)
	}
	textOf := func(i int) string {
		if texts != nil && i < len(texts) {
			return texts[i]
		}
		return cs.Items[i].Text
	}
	// a case with a view is judged against item_text of the LINE fzf says is under the cursor / selected (GET / gives the
	// ordinal): what GET / reports as the text is Item.AsString(t.ansi), the very function the placeholders go through -
	// the expected text comes from the spec, not from the finder
	shown := cs.View != nil
	sess, err := StartSession(c, so)
	if err != nil {
		o.infra = "start: " + err.Error()
		return
	}
	defer sess.Close()
	if _, ok := sess.WaitFor(func(st *FzfState) bool { return !st.Reading && st.TotalCount == len(cs.Items) }, 10*time.Second); !ok {
		o.infra = "the list was not loaded within 10 s"
		return
	}
	if len(cs.Acts) > 0 {
		if err := sess.PostSync(strings.Join(cs.Acts, "+")); err != nil {
			o.infra = "actions: " + err.Error()
			return
		}
	}
	st, err := sess.Get()
	if err != nil {
		o.infra = "GET: " + err.Error()
		return
	}
	item := func(fi FzfItem) *c12Item {
		if fi.Index < 0 || fi.Index >= len(cs.Items) {
			o.textChanged = fmt.Sprintf("index %d outside the input", fi.Index)
			return nil
		}
		if shown && fi.Text != textOf(fi.Index) {
			o.listedOther = true
		}
		if !shown && fi.Text != textOf(fi.Index) {
			o.textChanged = fmt.Sprintf("item %d: fzf holds %q, the text of the input line %q is %q", fi.Index, fi.Text, cs.Items[fi.Index].Text, textOf(fi.Index))
		}
		return &c12Item{Idx: int32(fi.Index), Text: textOf(fi.Index)}
	}
	if st.Current != nil {
		o.cur = item(*st.Current)
	}
	for _, fi := range st.Selected {
		if it := item(fi); it != nil {
			o.sel = append(o.sel, *it)
		}
	}
	sj, _ := json.Marshal(map[string]interface{}{"current": st.Current, "selected": st.Selected, "query": st.Query, "matches": st.MatchCount})
	o.state = string(sj)
	o.query = st.Query
	if o.cur == nil || o.textChanged != "" {
		return // not judged: nothing under the cursor (the query matches no item), so an item command is not run at all
	}
	cmd := c12LiveCommand(cs)
	done := filepath.Join(sess.Dir, "done")
	switch cs.Mode {
	case "reload":
		// the command is run by the reader, outside the event loop: wait for it
		if err := sess.Post(cs.Mode + ":" + cmd); err != nil {
			o.infra = "POST: " + err.Error()
			return
		}
		o.done = c12WaitFile(sess, done, 20*time.Second)
	case "preview", "change-preview":
		// the command is run by the previewer, outside the event loop, and fzf kills a running preview command whenever
		// the render loop asks for a new preview (by design): "eventually runs to its end" = ask again until it does (20 s)
		deadline := time.Now().Add(20 * time.Second)
		for try := 0; !o.done && time.Now().Before(deadline); try++ {
			if err := sess.Post(cs.Mode + ":" + cmd); err != nil {
				o.infra = "POST: " + err.Error()
				return
			}
			o.done = c12WaitFile(sess, done, time.Duration(300*(try+1))*time.Millisecond)
		}
	case "become":
		err := sess.Post("become:" + cmd)
		if err != nil && err != ErrGone {
			o.infra = "POST: " + err.Error()
			return
		}
		sess.Wait(10 * time.Second)
		o.done = c12WaitFile(sess, done, 10*time.Second)
	default: // execute-silent, execute, execute-multi, transform-header: run inside the event loop
		if err := sess.Post(cs.Mode + ":" + cmd); err != nil {
			o.infra = "POST: " + err.Error()
			return
		}
		if err := sess.Sync(); err != nil {
			o.infra = "sync: " + err.Error()
			return
		}
		o.done = c12WaitFile(sess, done, 50*time.Millisecond)
	}
	o.crash = sess.Crash()
	if b, err := os.ReadFile(filepath.Join(sess.Dir, "w")); err == nil {
		o.wordsOK = true
		toks := strings.Split(string(b), "\x00")
		o.words = toks[:len(toks)-1]
	}
	for k := range cs.FilePhs {
		b, err := os.ReadFile(filepath.Join(sess.Dir, fmt.Sprintf("f%d", k)))
		o.files = append(o.files, string(b))
		o.filesOK = append(o.filesOK, err == nil)
	}
	return
}

// judgeLive: the property on one observation.  Returns a disagreement (nil: holds or not judged) and whether it is
// a liveness failure (the command did not complete), which is re-tried before being reported.
func (s *c12State) judgeLive(cs c12Case, o c12LiveObs) (*Disagreement, bool, bool) {
	rep := s.c.Rep
	if o.crash != "" {
		return &Disagreement{Kind: "spec", Name: "no_crash", Input: cs, Impl: o.crash, Expect: "no panic"}, false, false
	}
	if o.infra != "" {
		rep.Count("live:not_judged(" + strings.SplitN(o.infra, ":", 2)[0] + ")")
		return nil, false, false
	}
	if o.textChanged != "" {
		rep.Count("live:not_judged(item text differs from the input)")
		rep.Extra["live_text_changed"] = o.textChanged
		return nil, false, false
	}
	if o.cur == nil {
		rep.Count("live:not_judged(no current item)")
		return nil, false, false
	}
	eff := cs
	eff.Cur = o.cur
	eff.Sel = s.plusItems(o.cur, o.sel)
	eff.ForcePlus = cs.Mode == "execute-multi"
	if o.query != cs.Query {
		// the query is what the finder holds in its prompt (fzf turns the tabs of --query into blanks)
		rep.Count("live:query_normalised_by_fzf")
		eff.Query = o.query
	}
	sg := s.segments(cs, eff, "", nil, nil)
	if !sg.known {
		rep.Count("live:not_judged(placeholder without a reading)")
		return nil, false, false
	}
	want, ok := c12OptWords(s.c.Model.Call(1203, L(sg.segs...)))
	if !ok {
		rep.Count("live:not_judged(template not shell-neutral)")
		return nil, false, false
	}
	// expected file contents: the f-placeholders read as a template of their own
	fe := eff
	fe.Parts = nil
	for _, ph := range cs.FilePhs {
		fe.Parts = append(fe.Parts, c12Part{"ph", ph}, c12Part{"lit", " "})
	}
	fsg := s.segments(cs, fe, "", nil, nil)
	if len(fsg.fileWant) != len(cs.FilePhs) {
		rep.Count("live:not_judged(not an f-placeholder)")
		return nil, false, false
	}
	impl := map[string]interface{}{"finder_state": json.RawMessage(o.state), "command": cs.Mode + ":" + c12LiveCommand(cs)}
	if cs.View != nil {
		args, _ := c12LiveArgs(cs)
		impl["fzf_args"] = args
		impl["env"] = cs.View.Env
		impl["text_of_the_item_under_the_cursor"] = o.cur.Text
	}
	if !o.done {
		impl["observed"] = "the command did not run to its end (no done file)"
		impl["w"] = o.words
		return &Disagreement{Kind: "spec", Name: "live_roundtrip", Input: cs, Impl: impl, Expect: want}, true, false
	}
	rep.SpecChecks++
	rep.Count("live:roundtrip_checks")
	if !o.wordsOK || len(o.words) < 1 || o.words[0] != c12Sentinel || !c12SameWords(o.words[1:], want) {
		w := o.words
		if len(w) > 0 && w[0] == c12Sentinel {
			w = w[1:]
		}
		impl["argv"] = w
		return &Disagreement{Kind: "spec", Name: "live_roundtrip", Input: cs, Impl: impl, Expect: want}, false, false
	}
	for k, fw := range fsg.fileWant {
		rep.SpecChecks++
		rep.Count("live:file_content_checks")
		if !o.filesOK[k] || o.files[k] != fw {
			impl["file"] = fmt.Sprintf("cat %s gave %q", cs.FilePhs[k], o.files[k])
			return &Disagreement{Kind: "spec", Name: "live_file_holds_own_values", Input: cs, Impl: impl,
				Expect: fmt.Sprintf("%s: a file holding %q", cs.FilePhs[k], fw)}, false, false
		}
	}
	for _, w := range want {
		for i := 0; i < len(w); i++ {
			s.bytesSeen[w[i]] = true
		}
	}
	return nil, false, sg.quotedMeta
}

func (s *c12State) countLive(cs c12Case, o c12LiveObs) {
	rep := s.c.Rep
	rep.Count("kind=live")
	rep.Count("live:mode=" + cs.Mode)
	s.countView(cs, "live")
	if o.listedOther {
		rep.Count("live:view: the finder lists a text other than item_text of the line")
	}
	s.countShells(cs)
	if o.cur != nil {
		on := false
		for _, it := range o.sel {
			on = on || it.Idx == o.cur.Idx
		}
		n := len(o.sel)
		ns := fmt.Sprint(n)
		if n > 2 {
			ns = "3+"
		}
		rep.Count("live:selected=" + ns)
		if n > 0 && on {
			rep.Count("live:cursor_on_a_selected_item")
		} else if n > 0 {
			rep.Count("live:cursor_off_the_selection")
		}
	}
}

// liveOne: observe, judge, re-try liveness failures twice
func (s *c12State) liveOne(cs c12Case, first *c12LiveObs) {
	rep := s.c.Rep
	var o c12LiveObs
	texts := s.viewTexts(cs)
	if first != nil {
		o = *first
	} else {
		o = c12RunLive(s.c, cs, texts)
	}
	rep.ImplTraces++
	// a failing observation is made again, twice, in a session of its own: reported only when it fails every time
	// (commands of preview / reload run outside the event loop; a command that did not complete is a liveness failure)
	d, _, nontrivial := s.judgeLive(cs, o)
	for try := 0; d != nil && d.Name != "no_crash" && try < 2; try++ {
		rep.Count("live:retries")
		o = c12RunLive(s.c, cs, texts)
		d, _, nontrivial = s.judgeLive(cs, o)
	}
	if d == nil && o.infra != "" && first != nil {
		// infrastructure hiccup in a parallel run: once more, alone
		o = c12RunLive(s.c, cs, texts)
		d, _, nontrivial = s.judgeLive(cs, o)
	}
	if d != nil {
		s.liveFails++
		rep.Disagreement(*d)
	}
	key, _ := json.Marshal(cs)
	rep.Eval(string(key), nontrivial)
	rep.Sample(cs)
	s.countLive(cs, o)
}

// runLiveBatch: sessions in parallel (8 at a time), judged in order
func (s *c12State) runLiveBatch(cases []c12Case) {
	const chunk = 32
	for lo := 0; lo < len(cases); lo += chunk {
		if s.liveFails >= 3 {
			s.c.Rep.Count("live:skipped_after_3_failures")
			return
		}
		hi := lo + chunk
		if hi > len(cases) {
			hi = len(cases)
		}
		obs := make([]c12LiveObs, hi-lo)
		texts := make([][]string, hi-lo)
		for i := lo; i < hi; i++ {
			texts[i-lo] = s.viewTexts(cases[i]) // the model is asked here, not from the parallel sessions
		}
		var wg sync.WaitGroup
		sem := make(chan struct{}, 8)
		for i := lo; i < hi; i++ {
			wg.Add(1)
			sem <- struct{}{}
			go func(i int) {
				defer wg.Done()
				defer func() { <-sem }()
				obs[i-lo] = c12RunLive(s.c, cases[i], texts[i-lo])
			}(i)
		}
		wg.Wait()
		for i := lo; i < hi; i++ {
			s.liveOne(cases[i], &obs[i-lo])
		}
	}
}

// ---- generators ----

// placeholders over ONE range expression that differ only in their flags
func c12GenFamily(r *RNG, onlyFile bool) []string {
	base := Pick(r, []string{"", "", "", "1", "2", "-1", "2..", "..2", "1,3", "..", "1..2", "3"})
	n := r.Range(2, 4)
	out := []string{}
	for i := 0; i < n; i++ {
		if base == "" && r.Chance(1, 4) {
			out = append(out, Pick(r, []string{"{n}", "{+n}", "{fn}", "{nf}", "{+nf}", "{+fn}", "{fnf}", "{+fnf}"}))
			if onlyFile && !strings.Contains(out[len(out)-1], "f") {
				out[len(out)-1] = "{+nf}"
			}
			continue
		}
		fl := []string{}
		if r.Bool() {
			fl = append(fl, "+")
		}
		if r.Chance(1, 3) {
			fl = append(fl, "s")
		}
		if onlyFile || r.Chance(2, 3) {
			fl = append(fl, "f")
		}
		if !onlyFile && r.Chance(1, 8) {
			fl = append(fl, "r")
		}
		for j := len(fl) - 1; j > 0; j-- { // any order of the flag letters
			k := r.Intn(j + 1)
			fl[j], fl[k] = fl[k], fl[j]
		}
		out = append(out, "{"+strings.Join(fl, "")+base+"}")
	}
	return out
}

// a literal that cannot be mistaken for the tail of a temp-file name
func c12LitNoDigit(r *RNG) string {
	l := c12Lit(r)
	if l != "" && l[0] >= '0' && l[0] <= '9' {
		return " " + l
	}
	return l
}

// template made of a family, separated by literal text
func c12FamilyParts(r *RNG) []c12Part {
	ps := []c12Part{}
	if r.Bool() {
		ps = append(ps, c12Part{"lit", c12Lit(r) + " "})
	}
	for i, ph := range c12GenFamily(r, false) {
		if i > 0 || len(ps) == 0 {
			if r.Chance(1, 4) {
				ps = append(ps, c12Part{"lit", " " + c12LitNoDigit(r) + " "})
			} else {
				ps = append(ps, c12Part{"lit", " "})
			}
		}
		ps = append(ps, c12Part{"ph", ph})
	}
	if ps[0].T == "lit" && ps[0].S == " " {
		ps = ps[1:]
	}
	return ps
}

func c12SetTemplate(cs *c12Case) {
	cs.Template = ""
	for _, p := range cs.Parts {
		if p.T == "esc" {
			cs.Template += "\\"
		}
		cs.Template += p.S
	}
}

// a selection over n list positions: cardinality biased towards 0, 1, 2 and all; any order
func c12GenSelection(r *RNG, n int) []int {
	if n == 0 {
		return nil
	}
	k := Pick(r, []int{0, 1, 1, 1, 2, 2, 3, n})
	if k > n {
		k = n
	}
	perm := make([]int, n)
	for i := range perm {
		perm[i] = i
	}
	for j := n - 1; j > 0; j-- {
		i := r.Intn(j + 1)
		perm[j], perm[i] = perm[i], perm[j]
	}
	return perm[:k]
}

func c12GenTerm(r *RNG, n int) c12Case {
	cs := c12GenTpl(r, n) // template, delimiter, query, prompt, flags
	cs.Kind = "term"
	cs.Cur, cs.Sel = nil, nil
	ni := Pick(r, []int{0, 1, 2, 3, 3, 4, 5, 6})
	used := map[int32]bool{}
	for i := 0; i < ni; i++ {
		it := c12GenItem(r, n+i)
		for used[it.Idx] { // ordinals are distinct in a list
			it.Idx = (it.Idx + 1) & 0x7fffffff
		}
		used[it.Idx] = true
		cs.Items = append(cs.Items, it)
	}
	cs.Cy = 0
	if ni > 0 {
		cs.Cy = r.Intn(ni)
	}
	if r.Chance(1, 25) {
		cs.Cy = Pick(r, []int{-1, ni, ni + 3})
	}
	cs.SelOrder = c12GenSelection(r, ni)
	if len(cs.SelOrder) == 1 && ni > 1 && r.Bool() {
		cs.Cy = (cs.SelOrder[0] + 1 + r.Intn(ni-1)) % ni // one selected item, the cursor elsewhere
	}
	return cs
}

var c12LiveDelims = []string{",", ":", "'", " ", "\t", "--", "é", "\\", ", ", "a", "$"}
var c12LiveFilePh = []string{"{f}", "{+f}", "{nf}", "{+nf}", "{fn}", "{+fnf}", "{f1}", "{+f1}", "{sf1}", "{+sf2..}", "{f2}", "{+f2}", "{f-1}", "{+f..}", "{fs}", "{+sf}"}

func c12GenActs(r *RNG) []string {
	move := func() string { return Pick(r, []string{"up", "down", "up", "down", "first", "last"}) }
	acts := []string{}
	switch r.Intn(7) {
	case 0: // nothing selected
		for i := r.Range(0, 3); i > 0; i-- {
			acts = append(acts, move())
		}
	case 1: // one item selected, then the cursor moves on
		for i := r.Range(0, 2); i > 0; i-- {
			acts = append(acts, move())
		}
		acts = append(acts, Pick(r, []string{"toggle", "select", "toggle-down", "toggle-up", "toggle"}))
		for i := r.Range(0, 3); i > 0; i-- {
			acts = append(acts, move())
		}
	case 2: // two selected, one taken back
		acts = append(acts, "toggle", "up", "toggle", move(), Pick(r, []string{"toggle", "deselect"}), move())
	case 3:
		acts = append(acts, "select-all")
		for i := r.Range(0, 3); i > 0; i-- {
			acts = append(acts, move())
		}
		if r.Chance(1, 3) {
			acts = append(acts, "toggle")
		}
	case 4: // selection order differs from list order
		acts = append(acts, "last", "toggle", "first", "toggle", "up", "toggle", move())
	default:
		for i := r.Range(1, 8); i > 0; i-- {
			acts = append(acts, Pick(r, []string{"toggle", "toggle", "up", "down", "toggle-down", "toggle-up", "select-all", "deselect-all",
				"toggle-all", "first", "last", "select", "deselect", "up", "down"}))
		}
	}
	return acts
}

func c12GenLive(r *RNG, n int) c12Case {
	cs := c12Case{Kind: "live"}
	ni := Pick(r, []int{1, 2, 3, 3, 4, 5, 6})
	multiline := r.Chance(1, 5)
	for i := 0; i < ni; i++ {
		it := c12GenItem(r, n+i)
		it.Idx = int32(i)
		if !multiline {
			it.Text = strings.ReplaceAll(it.Text, "\n", " ")
		}
		if it.Text == "" {
			it.Text = Pick(r, []string{"e", "'", "$x", " ", "-"})
		}
		cs.Items = append(cs.Items, it)
	}
	if r.Chance(1, 3) {
		d := Pick(r, c12LiveDelims)
		cs.Delim = &d
	}
	cs.Printsep = Pick(r, []string{"\n", "\n", "\n", "\x00"})
	switch r.Intn(5) {
	case 0, 1:
		cs.Query = strings.NewReplacer("\n", " ", "\t", " ").Replace(c12Text(r, n, 8))
	case 2: // a letter that occurs in some item: the query filters (and re-orders) the list
		letters := []string{}
		for _, it := range cs.Items {
			for _, ch := range it.Text {
				if ch >= 'a' && ch <= 'z' {
					letters = append(letters, string(ch))
				}
			}
		}
		if len(letters) > 0 {
			cs.Query = Pick(r, letters)
			cs.Search = true
		}
	}
	cs.Prompt = Pick(r, []string{"> ", "prompt", "it's> ", "$ ", "a\\b "})
	if r.Chance(1, 4) {
		cs.Shell = "bash -c"
	}
	c12GenLiveShells(r, &cs)
	cs.Acts = c12GenActs(r)
	cs.Mode = Pick(r, []string{"execute-silent", "execute-silent", "execute-silent", "execute-silent", "execute", "execute-multi",
		"transform-header", "preview", "change-preview", "reload", "become"})
	// words: shell-neutral literal text and quoted placeholders
	np := r.Range(1, 4)
	prevLit := true // the template follows "X "
	for i := 0; i < np; i++ {
		switch k := r.Intn(10); {
		case k < 2 && !prevLit:
			cs.Parts = append(cs.Parts, c12Part{"lit", c12Lit(r)})
			prevLit = true
			continue
		case k < 8:
			cs.Parts = append(cs.Parts, c12Part{"ph", Pick(r, c12KnownPh)})
		default:
			cs.Parts = append(cs.Parts, c12Part{"ph", Pick(r, c12FieldPh)})
		}
		prevLit = false
		if r.Chance(2, 3) {
			cs.Parts = append(cs.Parts, c12Part{"lit", " "})
			prevLit = true
		}
	}
	c12SetTemplate(&cs)
	switch r.Intn(4) {
	case 0:
		cs.FilePhs = c12GenFamily(r, true)
	case 1:
		for i := r.Range(1, 3); i > 0; i-- {
			cs.FilePhs = append(cs.FilePhs, Pick(r, c12LiveFilePh))
		}
	}
	return cs
}
