package main

// c08search.go — C08, the search string: search(X) and transform-search(cmd) make fzf search for X INSTEAD of the
// query line; the string stays in force until an action changes the TEXT of the query line (to whatever text, of
// whatever length), and from then on the list has to show the matches of the query line again.  The "current query"
// of the property is therefore CoordSpec-side `query_in_effect` (coq/spec/SearchStrSpec.v, op 804), computed from the
// history of query-line actions of the session; the existing spec check C08.converges_to_fresh_filter compares the
// list with a fresh `fzf --filter` of THAT string.  When the list does not converge and equals the fresh filter of a
// query that was in effect EARLIER in the session, the violation is reported under its own name
// (C08.no_results_of_older_query: the last sentence of the property).

import (
	"fmt"
	"os"
	"path/filepath"
	"strings"
)

func c08DropLast(q string) string {
	if rs := []rune(q); len(rs) > 0 {
		return string(rs[:len(rs)-1])
	}
	return q
}

// spec (op 804) on the history so far: the query line, the query in effect, whether a search string is in force
func (r *c08Run) qspec() (line, eff string, over bool) {
	if len(r.qhist) == 0 {
		return r.cs.Query0, r.cs.Query0, false
	}
	v := r.c.Model.Call(804, L(Bytes(r.cs.Query0), L(r.qhist...)))
	if len(v.L) < 3 {
		return r.query, r.query, false
	}
	return v.L[0].Str(), v.L[1].Str(), v.L[2].I == 1
}

func (r *c08Run) eff() string {
	_, e, _ := r.qspec()
	return e
}

func (r *c08Run) overridden() bool {
	_, _, o := r.qspec()
	return o
}

// after the history changed: remember the query that was in effect, tell the coordinator model what Terminal.Input()
// returns now
func (r *c08Run) effChanged(before string) {
	now := r.eff()
	if now != before {
		r.effHist = append(r.effHist, before)
	}
	r.ui(L(I(0), Bytes(now)))
}

// one ACTION after which the text of the query line is q
func (r *c08Run) setQuery(q string) {
	before := r.eff()
	r.qhist = append(r.qhist, L(I(1), Bytes(q)))
	r.query = q
	r.effChanged(before)
}

func (r *c08Run) setSearch(x string) {
	before := r.eff()
	r.qhist = append(r.qhist, L(I(0), Bytes(x)))
	r.effChanged(before)
}

func (r *c08Run) textFile(s string) string {
	r.nfile++
	f := filepath.Join(r.dir, fmt.Sprintf("t%d.txt", r.nfile))
	os.WriteFile(f, []byte(s), 0644)
	return f
}

func (r *c08Run) doSearchAct(a c08Act) bool {
	switch a.K {
	case "search", "tsearch":
		if r.paused || (a.K == "search" && a.S == "") {
			return true // with search disabled the string also switches searching on for itself: not part of this stream
		}
		if a.K == "search" {
			if !r.post("search(" + a.S + ")") {
				return false
			}
		} else if !r.post("transform-search(cat " + r.textFile(a.S) + ")") {
			return false
		}
		r.setSearch(a.S)
	case "tquery":
		if !r.post("transform-query(cat " + r.textFile(a.S) + ")") {
			return false
		}
		r.setQuery(a.S)
	case "bsput":
		// two actions in one chain: the rule applies to each of them
		if a.S == "" {
			return true
		}
		if !r.post("backward-delete-char+put(" + a.S + ")") {
			return false
		}
		r.setQuery(c08DropLast(r.query))
		r.setQuery(r.query + a.S)
	}
	return true
}

// the list did not converge to the fresh filter of the query in effect: does it show the fresh filter of a query that
// was in effect earlier in this session?
func (r *c08Run) olderQueryShown(e *c08Expect, exp map[string]interface{}) bool {
	if len(r.effHist) == 0 {
		return false
	}
	full, err := r.s.GetLimit(100000)
	if err != nil || full.Reading || full.TotalCount != e.total {
		return false
	}
	seen := map[string]bool{e.query: true}
	tried := 0
	for i := len(r.effHist) - 1; i >= 0 && tried < 6; i-- {
		q := r.effHist[i]
		if seen[q] {
			continue
		}
		seen[q] = true
		tried++
		old, err := r.oracle(q, e.sort, e.nth, e.deny, e.gen, e.total)
		if err != nil || len(old) != full.MatchCount || len(old) != len(full.Matches) || len(old) == len(e.list) && strings.Join(old, "\n") == strings.Join(e.list, "\n") {
			continue
		}
		same := true
		for k := range old {
			if full.Matches[k].Text != old[k] {
				same = false
				break
			}
		}
		if !same {
			continue
		}
		head := old
		if len(head) > 8 {
			head = head[:8]
		}
		r.disagree("spec", "C08.no_results_of_older_query",
			map[string]interface{}{"query_line": full.Query, "total": full.TotalCount, "matches": full.MatchCount, "first": head,
				"equals_fresh_filter_of_older_query": q, "for_seconds": 30}, exp)
		return true
	}
	return false
}

// ---- generator: stream 6 ----

func c08SameLen(r *RNG, cur string) (string, bool) {
	n := len([]rune(cur))
	if n == 0 {
		return "", false
	}
	for try := 0; try < 20; try++ {
		b := make([]byte, n)
		for i := range b {
			b[i] = "abcdef012g"[r.Intn(10)]
		}
		if r.Chance(1, 2) {
			// differs from the current text in one position only
			copy(b, []byte(cur))
			if len(b) != n {
				continue // non-ASCII text
			}
			b[r.Intn(n)] = "abcdef012g"[r.Intn(10)]
		}
		if string(b) != cur {
			return string(b), true
		}
	}
	return "", false
}

// search(X) / transform-search(X), then actions that replace the query line within ONE action - by a text of the
// same length (most of the time), by the very same text (the string stays in force), or by any other text - mixed with
// the actions that make the coordinator ask for the input again (toggle-sort, exclude, change-nth, reload)
func c08GenSearchStream(r *RNG, cs *c08Case, add func(c08Act), pause func() int, payload func()) {
	switch r.Intn(5) {
	case 0:
		cs.Gens = []c08Gen{{N: r.Range(30000, 120000)}} // searches that take a while: the replaced one may still be running
	case 1:
		cs.Gens = []c08Gen{{N: r.Range(1000, 20000)}}
	default:
		cs.Gens = []c08Gen{{N: r.Range(50, 1500)}}
	}
	cur := cs.Query0
	set := func(k, s string) {
		add(c08Act{K: k, S: s, Pause: pause()})
		cur = s
	}
	word := func() string {
		if r.Chance(1, 4) {
			return c08Query(r)
		}
		return Pick(r, []string{"a", "b", "ab", "cd", "ef", "abc", "fe", "1", "12", "g0", "0", "ba", "dd", "e 1", "c", "!a", "^g", "aa"})
	}
	if cur == "" || r.Chance(1, 2) {
		set(Pick(r, []string{"query", "query", "tquery"}), word())
	}
	if r.Chance(1, 3) {
		add(c08Act{K: "checkpoint", Pause: pause()})
	}
	for round, m := 0, r.Range(1, 3); round < m; round++ {
		x := word()
		if r.Chance(1, 2) {
			if y, ok := c08SameLen(r, cur); ok {
				x = y // the search string has the length of the query line as well
			}
		}
		add(c08Act{K: Pick(r, []string{"search", "search", "tsearch"}), S: x, Pause: pause()})
		if r.Chance(1, 2) {
			add(c08Act{K: "checkpoint", Pause: pause()})
		}
		if r.Chance(1, 4) {
			payload() // the coordinator reads the input again: still the search string
			if r.Chance(1, 2) {
				add(c08Act{K: "checkpoint", Pause: pause()})
			}
		}
		// the query line is replaced
		for k, n := 0, r.Range(1, 2); k < n; k++ {
			how := r.Intn(20)
			switch {
			case how < 11:
				if y, ok := c08SameLen(r, cur); ok {
					set(Pick(r, []string{"query", "query", "tquery"}), y)
					break
				}
				fallthrough
			case how < 13:
				if rs := []rune(cur); len(rs) > 0 {
					// last character replaced by another one (two chained actions)
					c := string("abcdef012"[r.Intn(9)])
					if c == string(rs[len(rs)-1]) {
						c = "g"
						if string(rs[len(rs)-1]) == "g" {
							c = "a"
						}
					}
					add(c08Act{K: "bsput", S: c, Pause: pause()})
					cur = string(rs[:len(rs)-1]) + c
					break
				}
				fallthrough
			case how < 15:
				set(Pick(r, []string{"query", "tquery"}), cur) // the same text: nothing changes, the search string stays
			case how < 16:
				add(c08Act{K: "clear", Pause: pause()})
				cur = ""
			case how < 17:
				add(c08Act{K: "bs", Pause: pause()})
				cur = c08DropLast(cur)
			case how < 18:
				c := Pick(r, []string{"a", "b", "e", "1"})
				add(c08Act{K: "type", S: c, Pause: pause()})
				cur += c
			default:
				set(Pick(r, []string{"query", "tquery"}), word())
			}
			if r.Chance(1, 2) {
				add(c08Act{K: "checkpoint", Pause: pause()})
			}
		}
		if r.Chance(1, 4) {
			payload()
		}
	}
}
