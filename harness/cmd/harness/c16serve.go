package main

import (
	"bytes"
	"encoding/json"
	"fmt"
	"os"
	"strconv"
	"strings"
	"sync"

	fzf "github.com/junegunn/fzf/src"
)

// C16, third part: the listener as startHttpServer ITSELF sets it up (kind "serve").  The case holds the --listen address,
// the value of FZF_API_KEY in the environment and the connections (each a list of writes).  The listener is started through
// the hook VerifServeHTTP (the real start-up guard, the real accept loop, a real TCP socket; only the action channel and the
// getHandler are stubs that record what they are given), so the key in force is whatever startHttpServer makes of the variable.
// What is checked is the property's own wording: "when an API key is configured no action is accepted and no state is revealed
// without the exact key; a non-local listener refuses to start without a key" - for every value of the variable, blank ones,
// ones with white space around them, and ones that differ from what is presented only by white space / case / a prefix.

// FZF_API_KEY is process-wide: everything that sets it holds this lock until startHttpServer has read it.
var c16EnvMu sync.Mutex

func c16StartServer(host string, port int, key string, state string) (*fzf.VerifHTTPServer, string) {
	c16EnvMu.Lock()
	defer c16EnvMu.Unlock()
	if key == "" {
		os.Unsetenv("FZF_API_KEY")
	} else if err := os.Setenv("FZF_API_KEY", key); err != nil {
		return nil, "setenv: " + err.Error()
	}
	defer os.Unsetenv("FZF_API_KEY")
	return fzf.VerifServeHTTP(host, port, state)
}

type c16ServeViol struct {
	Kind   string // "spec" | "corr"
	Name   string
	Req    int // index of the connection it was seen at (-1: at start-up)
	Impl   interface{}
	Expect interface{}
}

// a request nobody could take for anything but a malformed one: its answer (400) tells that the single-threaded accept loop
// is done with whatever came before
const c16Barrier = "BARRIER\r\n\r\n"

// c16ServeRun starts the listener of the case and sends its connections one after the other; the first violation, or nil.
func c16ServeRun(c *Ctx, cs c16Case) (*c16ServeViol, map[string]int) {
	counts := map[string]int{}
	key := string(unlat(cs.Key))
	addr := string(unlat(cs.Addr))
	state := string(unlat(cs.State))
	host, port, perr := fzf.VerifParseListenAddress(addr)
	if perr != "" {
		counts["serve_bad_address"]++
		return nil, counts
	}
	if strings.IndexByte(key, 0) >= 0 {
		counts["serve_key_not_an_environment_value"]++
		return nil, counts
	}
	nonLocal := host != "localhost" && host != "127.0.0.1"
	srv, serr := c16StartServer(host, port, key, state)
	// ---- start decision ----
	mv := c.Model.Call(1606, L(Bytes(addr), Bytes(key)))
	implStart := L(I(1), Bytes(host), I(port))
	switch {
	case srv == nil && strings.Contains(serr, "FZF_API_KEY is required"):
		implStart = L(I(0))
	case srv == nil:
		counts["serve_listen_failed"]++ // the address cannot be bound here: nothing to observe
		return nil, counts
	}
	if srv != nil {
		defer srv.Close()
	}
	if nonLocal && key == "" && srv != nil {
		return &c16ServeViol{"spec", "remote_needs_key", -1, "listening on " + addr + " (port " + fmt.Sprint(srv.Port) + ")", "refusal: a non-local listener needs FZF_API_KEY"}, counts
	}
	if !mv.Equal(implStart) {
		return &c16ServeViol{"corr", "corr:C16.start_decision", -1, implStart.String(), mv.String()}, counts
	}
	if srv == nil {
		counts["serve=refused_no_key"]++
		return nil, counts
	}
	counts["serve_listeners"]++
	if nonLocal {
		counts["serve_listeners_non_local"]++
	}
	presentable := true
	if key != "" {
		counts["serve_key=set"]++
		presentable = c.Model.Call(1612, Bytes(key)).I == 1
		if !presentable {
			counts["serve_key=unpresentable(white space at an end)"]++
		}
		if strings.TrimSpace(key) == "" {
			counts["serve_key=blank_only"]++
		}
	} else {
		counts["serve_key=none"]++
	}
	wf := func(resp []byte) int {
		v := c.Model.Call(1603, Bytes(string(resp)))
		if v.IsList || v.I < 0 {
			return -1
		}
		return int(v.I)
	}
	dial := host // where a client on this machine reaches the listener
	if host == "0.0.0.0" || host == "localhost" {
		dial = "127.0.0.1"
	}
	target := dial + ":" + strconv.Itoa(srv.Port)
	barrier := func() bool {
		for try := 0; try < 3; try++ {
			if resp, _ := c16SendTo(target, [][]byte{[]byte(c16Barrier)}); len(resp) > 0 {
				return true
			}
		}
		return false
	}

	for ri, req := range cs.Reqs {
		chunks := make([][]byte, len(req))
		chunksV := []Val{}
		stream := []byte{}
		for i, ch := range req {
			chunks[i] = unlat(ch)
			stream = append(stream, chunks[i]...)
			chunksV = append(chunksV, Bytes(string(chunks[i])))
		}
		small := len(req) == 1 && len(stream) <= 4096 && len(stream) > 0
		resp, err := c16SendTo(target, chunks)
		counts["serve_requests"]++
		if len(resp) == 0 {
			// the answer can be lost when the server closes with unread bytes pending (reset); whatever happened, the accept
			// loop has finished with the connection once it answers the next one
			if !barrier() {
				return &c16ServeViol{"spec", "total", ri, fmt.Sprint("no answer, and none to the next connection either: ", err), "an HTTP answer"}, counts
			}
			if small {
				srv.Take()
				resp, err = c16SendTo(target, chunks)
				if len(resp) == 0 {
					barrier()
					srv.Take()
					return &c16ServeViol{"spec", "total", ri, fmt.Sprint("no answer (twice): ", err), "an HTTP answer"}, counts
				}
			} else {
				counts["serve_answer_lost_unread_bytes"]++
			}
		}
		res, gets := srv.Take()
		res.Response = string(resp)
		code := -1
		if len(resp) > 0 {
			code = wf(resp)
		}
		counts[fmt.Sprintf("serve_status=%d", code)]++
		implSummary := map[string]interface{}{"response": lat(resp), "delivered": res.Delivered, "get_called": res.GetCalled,
			"types": res.ActionTypes, "args": res.ActionArgs}
		v := func(name string, expect interface{}) (*c16ServeViol, map[string]int) {
			return &c16ServeViol{"spec", name, ri, implSummary, expect}, counts
		}
		if len(resp) > 0 && (code < 0 || (code != 200 && code != 400 && code != 401 && code != 503)) {
			return v("response_wf", "status 200/400/401/503, headers, blank line, Content-Length = body length")
		}
		// served = something was executed, or the state was handed out, or the answer says so
		served := res.Delivered || res.GetCalled || (code != -1 && code != 400 && code != 401)
		if key != "" {
			// the key does not even occur in the stream
			if served && c.Model.Call(1605, L(Bytes(key), Bytes(string(stream)))).I != 1 {
				return v("auth", "401 (or 400), no action, no state: a key is configured (FZF_API_KEY="+fmt.Sprintf("%q", key)+") and does not occur in the request")
			}
			// a key no header can present (white space at an end, blank): still a configured key, everything is refused
			if served && !presentable {
				return v("auth_exact_key", "401 (or 400), no action, no state: FZF_API_KEY="+fmt.Sprintf("%q", key)+
					" is configured; a header value never begins or ends with white space, so no request presents exactly this key")
			}
			// the request as a whole presents something else than the exact key
			if served && small {
				pk := c.Model.Call(1613, Bytes(string(stream))).Str()
				if pk != key {
					return v("auth_exact_key", map[string]interface{}{"status": "401 (or 400), no action, no state", "configured": lat([]byte(key)), "presented": lat([]byte(pk))})
				}
				counts["serve_served_with_exact_key"]++
			}
			if !served {
				counts["serve_refused_with_key_configured"]++
			}
		}
		if gets > 1 {
			return v("get_requires_key", "one request, at most one look at the state")
		}
		if res.GetCalled && !bytes.HasPrefix(stream, []byte("GET /")) {
			return v("get_requires_key", "state is only returned to a GET request")
		}
		if res.Delivered && bytes.HasPrefix(stream, []byte("GET")) {
			return v("get_no_actions", "a GET never delivers actions")
		}
		// what is executed is the action list of a well-formed authorised POST
		if res.Delivered {
			sb := c.Model.Call(1604, L(Bytes(key), Bytes(string(stream))))
			if !sb.IsList || len(sb.L) != 1 {
				return v("malformed_rejected", "no action: the stream is not a well-formed POST carrying the configured key")
			}
			sp := c16Parse(sb.L[0].Str())
			if sp.Panic != "" || sp.Failed || len(sp.Types) == 0 {
				return v("malformed_rejected", "no action: the body is not a valid action list")
			}
			if !sameActions(res.ActionTypes, res.ActionArgs, sp.Types, sp.Args) {
				return v("post_is_bind_parse", map[string]interface{}{"body": lat([]byte(sb.L[0].Str())), "types": sp.Types, "args": sp.Args})
			}
		}
		// the other direction, on requests written at once: the exact key opens the door - a complete GET is shown the state, an
		// acceptable action list is executed
		if small && len(resp) > 0 && (key == "" || c.Model.Call(1613, Bytes(string(stream))).Str() == key) {
			// (a Content-Length header, even on a GET, can get the request refused before that: left out here)
			if i := bytes.Index(stream, []byte("\r\n")); i >= 0 && bytes.Contains(stream, []byte("\r\n\r\n")) && !bytes.Contains(bytes.ToLower(stream), []byte("content-length")) {
				if gm := c.Model.Call(1607, Bytes(string(stream[:i+2]))); gm.IsList && len(gm.L) == 1 && !(res.GetCalled && (code == 200 || code == 503)) {
					return v("wellformed_accepted", "the state: a complete GET request that presents the configured key")
				}
			}
			if sb := c.Model.Call(1604, L(Bytes(key), Bytes(string(stream)))); sb.IsList && len(sb.L) == 1 {
				if sp := c16Parse(sb.L[0].Str()); sp.Panic == "" && !sp.Failed && len(sp.Types) > 0 && !(res.Delivered && code == 200) {
					return v("wellformed_accepted", "200 and the actions of "+strconv.Quote(sb.L[0].Str())+": a well-formed POST that presents the configured key")
				}
			}
		}
		// ---- the model of startHttpServer + handleHttpRequest, when the segmentation is known (one small write) ----
		if small && len(resp) > 0 {
			pend := c.Model.Call(1602, L(Bytes(key), L(chunksV...)))
			verdict := L(I(1))
			var mparsed c16Parsed
			if pend.IsList && len(pend.L) == 1 {
				mparsed = c16Parse(pend.L[0].Str())
				if mparsed.Panic != "" {
					return v("total", "parseSingleActionList panics: "+mparsed.Panic)
				}
				verdict = mparsed.verdict()
			}
			mo := c.Model.Call(1614, L(Bytes(addr), Bytes(key), Bytes(state), verdict, B(true), L(chunksV...)))
			ok := mo.IsList && len(mo.L) == 1 && mo.L[0].IsList && len(mo.L[0].L) == 4
			if ok {
				m := mo.L[0]
				implGet := L()
				if res.GetCalled {
					implGet = L(I(res.Limit>>32), I(res.Limit&0xffffffff), I(res.Offset>>32), I(res.Offset&0xffffffff))
				}
				ok = m.L[1].Equal(Bytes(string(resp))) && (len(m.L[2].L) == 1) == res.Delivered && m.L[3].Equal(implGet)
				if ok && res.Delivered {
					ok = sameActions(res.ActionTypes, res.ActionArgs, mparsed.Types, mparsed.Args)
				}
			}
			if !ok {
				return &c16ServeViol{"corr", "corr:C16.serve", ri, implSummary, mo.String()}, counts
			}
			counts["serve_model_compared"]++
		}
		if res.Delivered {
			counts["serve_delivered"]++
		}
		if res.GetCalled {
			counts["serve_get_answered"]++
		}
	}
	return nil, counts
}

// c16CheckServe: an observation counts when it shows again on a fresh listener that is sent just that one connection.
func c16CheckServe(c *Ctx, cs c16Case) {
	rep := c.Rep
	rep.mu.Lock()
	rep.ImplTraces++
	rep.SpecChecks++
	rep.mu.Unlock()
	canon, _ := json.Marshal(cs)
	v, counts := c16ServeRun(c, cs)
	for k, n := range counts {
		rep.CountN(k, n)
	}
	rep.Eval(string(canon), counts["serve_served_with_exact_key"] > 0 || counts["serve_refused_with_key_configured"] > 0)
	if counts["serve_listeners"] > 0 {
		rep.Sample(cs)
	}
	if v == nil {
		return
	}
	small := cs
	if v.Req >= 0 && v.Req < len(cs.Reqs) {
		small.Reqs = [][]string{cs.Reqs[v.Req]}
	} else {
		small.Reqs = nil
	}
	if v2, _ := c16ServeRun(c, small); v2 != nil {
		rep.Disagreement(Disagreement{Kind: v2.Kind, Name: v2.Name, Input: small, Impl: v2.Impl, Expect: v2.Expect})
		return
	}
	if v3, _ := c16ServeRun(c, cs); v3 != nil {
		rep.Disagreement(Disagreement{Kind: v3.Kind, Name: v3.Name, Input: cs, Impl: v3.Impl, Expect: v3.Expect})
		return
	}
	rep.Count("serve_observation_not_reproduced")
}

// ---------- generators ----------

// white space as strings.TrimSpace sees it (ASCII, NEL, NBSP, and the Unicode space separators in UTF-8)
var c16Spaces = []string{" ", " ", " ", "\t", "\t", "\n", "\r\n", "\r", "\v", "\f", "  ", " \t ", "\xc2\xa0", "\xc2\x85", "\xe3\x80\x80", "\xe2\x80\x83", "\xe2\x80\xa8", "\xe1\x9a\x80"}

func c16Blank(r *RNG) string {
	var b strings.Builder
	for i, n := 0, r.Range(1, 3); i < n; i++ {
		b.WriteString(Pick(r, c16Spaces))
	}
	return b.String()
}

// c16KeyCore: a key without white space at its ends
func c16KeyCore(r *RNG) string {
	switch r.Intn(8) {
	case 0:
		return Pick(r, []string{"secret", "s", "0", "key:colon", "Secret", "s\xc3\xa9cret", "k k", "a\tb", "\xff\xfe", "x-api-key", "\xc2", "\x85", "\xa0x"})
	case 1: // long
		return strings.Repeat(Pick(r, []string{"k", "ab", "0123456789"}), r.Range(8, 60))
	default:
		const al = "abcdefghijklmnopqrstuvwxyzABCDEFGHIJKLMNOPQRSTUVWXYZ0123456789-_.:/+= "
		n := r.Range(1, 24)
		b := make([]byte, n)
		for i := range b {
			b[i] = al[r.Intn(len(al))]
		}
		if b[0] == ' ' {
			b[0] = 'k'
		}
		if b[n-1] == ' ' {
			b[n-1] = 'k'
		}
		return string(b)
	}
}

// c16EnvKey: a value of FZF_API_KEY
func c16EnvKey(r *RNG) string {
	switch k := r.Intn(20); {
	case k < 3:
		return ""
	case k < 8: // nothing but white space
		return c16Blank(r)
	case k < 10:
		return c16Blank(r) + c16KeyCore(r)
	case k < 12:
		return c16KeyCore(r) + c16Blank(r)
	case k < 13:
		return c16Blank(r) + c16KeyCore(r) + c16Blank(r)
	default:
		return c16KeyCore(r)
	}
}

// c16Presented: what a client that knows (something like) the key puts into its header
func c16Presented(r *RNG, key string) string {
	switch r.Intn(12) {
	case 0, 1, 2, 3, 4:
		return key
	case 5, 6:
		return strings.TrimSpace(key)
	case 7:
		return strings.TrimRight(key, " \t\r\n")
	case 8:
		return strings.TrimLeft(key, " \t\r\n")
	case 9:
		return ""
	case 10:
		if r.Bool() && len(key) > 1 { // some prefix
			return key[:r.Range(1, len(key)-1)]
		}
		return strings.ToLower(key)
	default:
		return c16KeyCore(r)
	}
}

var c16ServeAddrs = []string{"127.0.0.1:0", "localhost:0", "0", ":0", "127.0.0.2:0", "127.0.0.2:0", "127.1.2.3:0", "0.0.0.0:0", "0.0.0.0:0"}

func c16GenServe(r *RNG) c16Case {
	key := c16EnvKey(r)
	cs := c16Case{Kind: "serve", Key: lat([]byte(key)), Addr: lat([]byte(Pick(r, c16ServeAddrs))), Ready: true,
		State: lat([]byte(Pick(r, []string{"{}", "{\"reading\":false,\"matches\":[]}", "x", "{\"query\":\"" + c16Text(r, r.Range(0, 3), true) + "\"}"})))}
	n := r.Range(3, 7)
	for i := 0; i < n; i++ {
		var s []byte
		switch k := r.Intn(20); {
		case k < 5: // plain requests of a client that leaves the key out, or has one
			hk := ""
			if r.Chance(2, 3) {
				hk = "X-API-Key: " + c16Presented(r, key) + "\r\n"
			}
			if r.Bool() {
				s = []byte("GET / HTTP/1.1\r\nHost: localhost\r\n" + hk + "\r\n")
			} else {
				body := Pick(r, c16Bodies)
				s = []byte("POST / HTTP/1.1\r\nHost: localhost\r\n" + hk + fmt.Sprintf("Content-Length: %d\r\n\r\n%s", len(body), body))
			}
		case k < 6:
			s = c16Big(r, c16Presented(r, key))
		default:
			s = c16Request(r, c16Presented(r, key))
			if r.Chance(1, 5) {
				s = c16Mutate(r, s)
			}
		}
		if len(s) == 0 {
			s = []byte("\r\n")
		}
		if r.Chance(1, 8) && len(s) > 2 {
			p := r.Range(1, len(s)-1)
			cs.Reqs = append(cs.Reqs, []string{lat(s[:p]), lat(s[p:])})
		} else {
			cs.Reqs = append(cs.Reqs, []string{lat(s)})
		}
	}
	return cs
}
