package main

import (
	"encoding/json"
	"fmt"
	"math"
	"os"
	"path/filepath"
	"regexp"
	"strconv"
	"strings"

	fzf "github.com/junegunn/fzf/src"
	"github.com/junegunn/fzf/src/util"
)

// One option-parsing case: words of the options file ($FZF_DEFAULT_OPTS_FILE), of $FZF_DEFAULT_OPTS,
// and the command line.  "@W" in any word stands for the scratch directory of the run.
type c17OptCase struct {
	HasFile bool     `json:"has_file,omitempty"`
	File    []string `json:"file,omitempty"`
	Env     []string `json:"env,omitempty"`
	Args    []string `json:"args"`
	// last-wins probe: the final occurrence of a value-taking option and its value; no later unit writes its fields
	LastName  string `json:"last_name,omitempty"`
	LastValue string `json:"last_value,omitempty"`
	LastIndex int    `json:"last_index,omitempty"` // index in Args of that occurrence
	// display-mode cases (c17mode.go): the same three layers as lists of UNITS (an option with its value words); when
	// present, File/Env/Args are derived from them and the expectation is computed from the units
	FileU [][]string `json:"file_units,omitempty"`
	EnvU  [][]string `json:"env_units,omitempty"`
	ArgsU [][]string `json:"args_units,omitempty"`
	Proc  bool       `json:"proc,omitempty"` // also run the fzf binary inside a (fake) tmux
}

func c17Subst(c *Ctx, ws []string) []string {
	out := make([]string, len(ws))
	for i, w := range ws {
		out[i] = strings.ReplaceAll(w, "@W", c.Work)
	}
	return out
}

func c17Quote(ws []string) string {
	parts := make([]string, len(ws))
	for i, w := range ws {
		parts[i] = "'" + w + "'"
	}
	return strings.Join(parts, " ")
}

type c17OptResult struct {
	Status string // ok | error | PANIC ...
	Err    string
	Fields []Val
	Keymap string
	Expect string
	HAfter bool // model only: the boolean of the documented display-mode rule (OptionSpec.F_HAFTER)
}

const (
	c17FTmux      = 63
	c17FTmuxIdx   = 64
	c17FHeightIdx = 65
	c17NFields    = 66 // observable fields of the implementation; the model sends one more (F_HAFTER)
)

// fzf.Run (core.go): the tmux popup is started iff opts.Tmux != nil && opts.Tmux.index >= opts.Height.index
func c17Popup(fs []Val) bool {
	return len(fs) >= c17NFields && len(fs[c17FTmux].L) > 0 && fs[c17FTmuxIdx].I >= fs[c17FHeightIdx].I
}

var c17TmuxRe = regexp.MustCompile(`^(nil|&tmuxOptions\{width:sizeSpec\{size:([^;]*);percent:(true|false);\};height:sizeSpec\{size:([^;]*);percent:(true|false);\};position:(\d+);index:(-?\d+);border:(true|false);\});`)
var c17HeightIdxRe = regexp.MustCompile(`^heightSpec\{size:[^;]*;percent:(?:true|false);auto:(?:true|false);inverse:(?:true|false);index:(-?\d+);\};`)

// the display-mode part of a configuration, read off the canonical dump (hook VerifDumpOptions):
// (value of --tmux or (), Tmux.index or 0, Height.index); a size that is not an integer is sent as -999 (outside the model)
func c17ModeFields(o *fzf.Options) []Val {
	d := fzf.VerifDumpOptions(o)
	var tm, hm []string
	if rest, ok := c17DumpTop(d, "Tmux"); ok {
		tm = c17TmuxRe.FindStringSubmatch(rest)
	}
	if rest, ok := c17DumpTop(d, "Height"); ok {
		hm = c17HeightIdxRe.FindStringSubmatch(rest)
	}
	if tm == nil || hm == nil {
		return []Val{L(I(-7)), I(-7), I(-7)} // the shape of Options changed: never equals a model value
	}
	hidx, _ := strconv.Atoi(hm[1])
	if tm[1] == "nil" {
		return []Val{L(), I(0), I(hidx)}
	}
	size := func(sz, pc string) Val {
		f, err := strconv.ParseFloat(sz, 64)
		if err != nil || f != math.Trunc(f) || math.Abs(f) > 1e15 {
			return L(I(-999), B(pc == "true"))
		}
		return L(I(int(f)), B(pc == "true"))
	}
	pos, _ := strconv.Atoi(tm[6])
	tidx, _ := strconv.Atoi(tm[7])
	return []Val{L(L(I(pos), size(tm[2], tm[3]), size(tm[4], tm[5]), B(tm[8] == "true"))), I(tidx), I(hidx)}
}

func c17B(b bool) Val { return B(b) }

func c17ImplFields(o *fzf.Options) ([]Val, string, string) {
	v := fzf.VerifViewOptions(o)
	algo := 0
	if v.Algo == "v1" {
		algo = 1
	} else if v.Algo == "v2" {
		algo = 2
	}
	critNo := map[string]int{"score": 0, "chunk": 1, "length": 2, "begin": 3, "end": 4, "pathname": 5}
	crit := []Val{}
	for _, n := range v.CriteriaNames {
		crit = append(crit, I(critNo[n]))
	}
	nth := []Val{}
	for _, r := range v.Nth {
		nth = append(nth, L(I(r[0]), I(r[1])))
	}
	delim := L()
	if v.DelimiterStr != nil {
		delim = L(Bytes(*v.DelimiterStr))
	} else if v.DelimiterRx != nil {
		delim = L(Bytes(*v.DelimiterRx))
	}
	hsize := I(-999)
	if v.HeightSize == math.Trunc(v.HeightSize) && math.Abs(v.HeightSize) < 1e15 {
		hsize = I(int(v.HeightSize))
	}
	filter := L()
	if o.Filter != nil {
		filter = L(Bytes(*o.Filter))
	}
	hist, hmax := L(), I(0)
	if v.HistoryPath != nil {
		hist, hmax = L(Bytes(*v.HistoryPath)), I(v.HistoryMax)
	}
	listen := L()
	if v.ListenHost != nil {
		listen = L(L(Bytes(*v.ListenHost), I(v.ListenPort)))
	}
	exit := 0
	switch {
	case o.Bash:
		exit = 1
	case o.Zsh:
		exit = 2
	case o.Fish:
		exit = 3
	case o.Help:
		exit = 4
	case o.Version:
		exit = 5
	case o.Man:
		exit = 6
	}
	fs := []Val{
		c17B(o.Fuzzy), c17B(o.Extended), c17B(o.Phony), c17B(o.Inputless), I(int(o.Case)), c17B(o.Normalize), I(algo),
		Bytes(o.Scheme), L(crit...), L(nth...), c17B(v.WithNthSet), c17B(v.AcceptNthSet), delim, I(o.Sort), I(v.Track),
		c17B(o.Tac), I(o.Tail), I(o.Multi), c17B(o.Ansi), I(v.Layout), c17B(o.Cycle),
		L(hsize, c17B(v.HeightPercent), c17B(v.HeightAuto), c17B(v.HeightInverse)),
		c17B(o.Select1), c17B(o.Exit0), c17B(o.ReadZero), c17B(o.PrintSep == "\x00"), c17B(o.PrintQuery), Bytes(o.Query), filter,
		c17B(o.Sync), hist, hmax, Strs(o.Header), I(o.HeaderLines), listen, c17B(o.Unsafe),
		L(c17B(v.WalkerFile), c17B(v.WalkerDir), c17B(v.WalkerHidden), c17B(v.WalkerFollow)), Strs(o.WalkerRoot), Strs(o.WalkerSkip),
		Bytes(o.Prompt), Bytes(o.Ghost), I(o.Tabstop), I(o.HscrollOff), I(o.ScrollOff), I(o.Gap), c17B(o.Wrap), c17B(o.Mouse),
		c17B(o.Bold), c17B(o.Black), I(exit), c17B(o.HeaderFirst), c17B(o.Hscroll), c17B(o.KeepRight), c17B(o.MultiLine),
		c17B(o.FileWord), c17B(o.CursorLine), c17B(o.ClearOnExit), c17B(o.Unicode), c17B(o.Ambidouble), Bytes(o.InfoCommand),
		Bytes(o.WithShell), Bytes(v.PreviewCmd), c17B(o.ForceTtyIn),
	}
	fs = append(fs, c17ModeFields(o)...)
	return fs, c17KeymapOfImpl(v.Keymap), c17KeysOfImpl(v.Expect)
}

var c17FieldNames = []string{"Fuzzy", "Extended", "Phony", "Inputless", "Case", "Normalize", "Algo", "Scheme", "Criteria", "Nth",
	"WithNth", "AcceptNth", "Delimiter", "Sort", "Track", "Tac", "Tail", "Multi", "Ansi", "Layout", "Cycle", "Height", "Select1",
	"Exit0", "ReadZero", "Print0", "PrintQuery", "Query", "Filter", "Sync", "History", "HistoryMax", "Header", "HeaderLines",
	"Listen", "Unsafe", "Walker", "WalkerRoot", "WalkerSkip", "Prompt", "Ghost", "Tabstop", "HscrollOff", "ScrollOff", "Gap",
	"Wrap", "Mouse", "Bold", "Black", "ExitOpt", "HeaderFirst", "Hscroll", "KeepRight", "MultiLine", "FileWord", "CursorLine",
	"ClearOnExit", "Unicode", "Ambidouble", "InfoCommand", "WithShell", "Preview", "ForceTtyIn", "Tmux", "Tmux.index", "Height.index"}

const c17HistMax = 31

// run ParseOptions(true, args) under the given layers
func c17ImplParse(c *Ctx, file []string, hasFile bool, env []string, args []string) (res c17OptResult) {
	defer func() {
		if r := recover(); r != nil {
			res = c17OptResult{Status: fmt.Sprintf("PANIC %v", r)}
		}
	}()
	os.Unsetenv("NO_COLOR")
	os.Unsetenv("RUNEWIDTH_EASTASIAN")
	if hasFile {
		p := filepath.Join(c.Work, "c17-opts-file")
		os.WriteFile(p, []byte(c17Quote(file)+"\n"), 0600)
		os.Setenv("FZF_DEFAULT_OPTS_FILE", p)
	} else {
		os.Unsetenv("FZF_DEFAULT_OPTS_FILE")
	}
	os.Setenv("FZF_DEFAULT_OPTS", c17Quote(env))
	o, err := fzf.ParseOptions(true, args)
	if err != nil {
		return c17OptResult{Status: "error", Err: err.Error()}
	}
	fs, km, ex := c17ImplFields(o)
	return c17OptResult{Status: "ok", Fields: fs, Keymap: km, Expect: ex}
}

type c17RawResult struct {
	opts *fzf.Options
	err  error
}

// as c17ImplParse, but hands back the Options value itself (panics are the caller's business)
func c17ImplParseRaw(c *Ctx, file []string, hasFile bool, env []string, args []string) c17RawResult {
	os.Unsetenv("NO_COLOR")
	os.Unsetenv("RUNEWIDTH_EASTASIAN")
	if hasFile {
		p := filepath.Join(c.Work, "c17-opts-file")
		os.WriteFile(p, []byte(c17Quote(file)+"\n"), 0600)
		os.Setenv("FZF_DEFAULT_OPTS_FILE", p)
	} else {
		os.Unsetenv("FZF_DEFAULT_OPTS_FILE")
	}
	os.Setenv("FZF_DEFAULT_OPTS", c17Quote(env))
	o, err := fzf.ParseOptions(true, args)
	return c17RawResult{o, err}
}

func c17IsDir(p string) bool {
	st, err := os.Stat(p)
	return err == nil && st.IsDir()
}

// the environment oracle handed to the model: which words are directories, which history paths are usable
func c17EnvVal(c *Ctx, layers ...[]string) Val {
	dirs, hok := []string{}, []string{}
	seen := map[string]bool{}
	for _, l := range layers {
		for i, w := range l {
			if !seen[w] {
				seen[w] = true
				if c17IsDir(w) {
					dirs = append(dirs, w)
				}
			}
			var hp *string
			if w == "--history" && i+1 < len(l) {
				hp = &l[i+1]
			} else if strings.HasPrefix(w, "--history=") {
				s := w[len("--history="):]
				hp = &s
			}
			if hp != nil {
				func() {
					defer func() { recover() }()
					if _, err := fzf.NewHistory(*hp, 1); err == nil {
						hok = append(hok, *hp)
					}
				}()
			}
		}
	}
	return L(Strs(dirs), Strs(hok), B(util.IsTty(os.Stdin)))
}

func c17ModelParse(c *Ctx, file []string, hasFile bool, env []string, args []string) c17OptResult {
	e := c17EnvVal(c, file, env, args)
	if !hasFile {
		file = nil
	}
	mv := c.Model.Call(1711, L(e.L[0], e.L[1], e.L[2], Strs(file), Strs(env), Strs(args)))
	if len(mv.L) == 2 && mv.L[0].I == 0 {
		return c17OptResult{Status: "error", Err: fmt.Sprint(mv.L[1].I)}
	}
	if len(mv.L) == 2 && mv.L[0].I == 1 && len(mv.L[1].L) == 3 {
		fs := append([]Val{}, mv.L[1].L[0].L...)
		if len(fs) > c17HistMax && len(fs[c17HistMax-1].L) == 0 {
			fs[c17HistMax] = I(0) // History.maxSize does not exist without a History
		}
		hafter := false
		if len(fs) == c17NFields+1 {
			hafter = fs[c17NFields].I != 0
			fs = fs[:c17NFields]
		}
		return c17OptResult{Status: "ok", Fields: fs, Keymap: c17KeymapOfVal(mv.L[1].L[1]), Expect: c17KeysOfVal(mv.L[1].L[2]), HAfter: hafter}
	}
	return c17OptResult{Status: "MODEL-CRASH " + mv.String()}
}

func c17DiffOpt(a, b c17OptResult, skip map[int]bool) string {
	if a.Status != b.Status {
		return fmt.Sprintf("status %s (%s) vs %s (%s)", a.Status, a.Err, b.Status, b.Err)
	}
	if a.Status != "ok" {
		return ""
	}
	if len(a.Fields) != len(b.Fields) {
		return fmt.Sprintf("field count %d vs %d", len(a.Fields), len(b.Fields))
	}
	for i := range a.Fields {
		if !skip[i] && !a.Fields[i].Equal(b.Fields[i]) {
			return fmt.Sprintf("%s: %s vs %s", c17FieldNames[i], a.Fields[i].String(), b.Fields[i].String())
		}
	}
	if a.Keymap != b.Keymap {
		return fmt.Sprintf("keymap: %q vs %q", a.Keymap, b.Keymap)
	}
	if a.Expect != b.Expect {
		return fmt.Sprintf("expect: %q vs %q", a.Expect, b.Expect)
	}
	return ""
}

func c17CheckOpt(c *Ctx, cs c17Case) {
	rep := c.Rep
	oc := cs.Opt
	if oc.FileU != nil || oc.EnvU != nil || oc.ArgsU != nil {
		oc.File, oc.Env, oc.Args = c17FlattenWords(oc.FileU), c17FlattenWords(oc.EnvU), c17FlattenWords(oc.ArgsU)
	}
	file, env, args := c17Subst(c, oc.File), c17Subst(c, oc.Env), c17Subst(c, oc.Args)
	impl := c17ImplParse(c, file, oc.HasFile, env, args)
	rep.ImplTraces++
	rep.SpecChecks++
	key, _ := json.Marshal(cs)
	if strings.HasPrefix(impl.Status, "PANIC") {
		rep.Disagreement(Disagreement{Kind: "spec", Name: "error_is_exit2", Input: cs, Impl: impl.Status, Expect: "a configuration or an error, never a panic"})
		return
	}
	if cs.Kind == "fuzz" {
		rep.Eval(string(key), impl.Status == "ok")
		rep.Count("fuzz:" + impl.Status)
		// process level, sampled: a parse error is reported on stderr with exit status 2
		if impl.Status == "error" && rep.Distribution["fuzz:process"] < c.N(25, 400) && c.Fzf != "" {
			rep.Count("fuzz:process")
			envs := []string{"FZF_DEFAULT_OPTS=" + c17Quote(env)}
			if oc.HasFile {
				envs = append(envs, "FZF_DEFAULT_OPTS_FILE="+filepath.Join(c.Work, "c17-opts-file"))
			}
			_, stderr, code := RunFzf(c, args, []byte("a\nb\n"), envs...)
			if code != 2 || strings.Contains(stderr, "panic") || strings.Contains(stderr, "goroutine ") || stderr == "" {
				rep.Disagreement(Disagreement{Kind: "spec", Name: "error_is_exit2", Input: cs,
					Impl: fmt.Sprintf("exit %d, stderr %q", code, stderr), Expect: "exit status 2 with a message (in-process error: " + impl.Err + ")"})
			}
		}
		return
	}
	// (5b) correspondence with the model
	model := c17ModelParse(c, file, oc.HasFile, env, args)
	if d := c17DiffOpt(impl, model, nil); d != "" && c17PutUnicode(impl.Status, model.Status, append(append(append([]string{}, file...), env...), args...)...) {
		rep.Count("args:unmodelled-put-unicode")
	} else if d := c17DiffOpt(impl, model, nil); d != "" {
		rep.Disagreement(Disagreement{Kind: "corr", Name: "corr:C17.parse_all", Input: cs, Impl: "impl vs model: " + d, Expect: model.Status})
	}
	rep.Eval(string(key), impl.Status == "ok" && len(args)+len(env)+len(file) >= 2)
	rep.Count("args:" + impl.Status)
	if oc.HasFile {
		rep.Count("args:with-file")
	}
	if len(env) > 0 {
		rep.Count("args:with-env")
	}
	rep.Sample(cs)
	if impl.Status != "ok" && (oc.FileU != nil || oc.EnvU != nil || oc.ArgsU != nil) {
		// every unit of a display-mode case is a documented option with a value inside its documented grammar
		rep.SpecChecks++
		rep.Disagreement(Disagreement{Kind: "spec", Name: "mode_accepts", Input: cs, Impl: "error: " + impl.Err,
			Expect: "a configuration (every option and value of the case is documented)"})
	}
	if impl.Status != "ok" {
		return
	}
	// (5a) display mode: the later of --tmux / --height decides, the command line being later than the environment,
	// which is later than the options file
	c17ModeChecks(c, cs, impl, model, env, args)
	// (5a) last_wins: the final occurrence decides
	// hypothesis of last_wins: the vector before the final occurrence parses on its own
	// (otherwise its last option swallows the occurrence as a value)
	if oc.LastName != "" && oc.LastIndex <= len(args) && c17ImplParse(c, file, oc.HasFile, env, args[:oc.LastIndex]).Status != "ok" {
		rep.Count("last_wins:prefix-incomplete")
	} else if oc.LastName != "" {
		eff := c.Model.Call(1712, L(Bytes(oc.LastName), Bytes(strings.ReplaceAll(oc.LastValue, "@W", c.Work))))
		rep.SpecChecks++
		for _, fvp := range eff.L {
			f := int(fvp.L[0].I)
			if f < len(impl.Fields) && !impl.Fields[f].Equal(fvp.L[1]) {
				rep.Disagreement(Disagreement{Kind: "spec", Name: "last_wins", Input: cs,
					Impl: c17FieldNames[f] + " = " + impl.Fields[f].String(), Expect: fvp.L[1].String() + " (from the last occurrence of " + oc.LastName + ")"})
			}
		}
		if len(eff.L) > 0 {
			rep.Count("last_wins:checked")
		}
	}
	// (5a) layering: file, then environment, then command line == one vector in that order
	// (History.maxSize excepted: historyMax is re-initialised per vector, see DESIGN C17)
	if oc.HasFile || len(env) > 0 {
		all := append(append(append([]string{}, file...), env...), args...)
		if !oc.HasFile {
			all = append(append([]string{}, env...), args...)
		}
		flat := c17ImplParse(c, nil, false, nil, all)
		rep.SpecChecks++
		if d := c17DiffOpt(impl, flat, map[int]bool{c17HistMax: true}); d != "" {
			rep.Disagreement(Disagreement{Kind: "spec", Name: "layering", Input: cs, Impl: "layered vs single vector: " + d, Expect: "equal configurations"})
		} else if d := c17DiffOpt(impl, flat, map[int]bool{}); d != "" {
			// only History.maxSize differs: known finding c17-history-size-layering (a --history-size given in an
			// earlier layer than --history is forgotten)
			rep.Disagreement(Disagreement{Kind: "spec", Name: "layering(history-size)", Input: cs, Impl: "layered vs single vector: " + d,
				Expect: "equal configurations", Known: "c17-history-size-layering"})
		}
		rep.Count("layering:checked")
	}
}

// ---------------------------------------------------------------- generators (options)

type c17Unit struct {
	words []string
	name  string // the option spelling (for the last-wins probe), "" if not value-taking
	value string
}

func c17Int(r *RNG) string {
	return Pick(r, []string{"0", "1", "2", "3", "5", "10", "100", "-1", "+4", "007", "2147483647", "4611686018427387903",
		"9223372036854775808", "-4611686018427387904", "", "x", "1x", " 1", "1.5", "--3", "0x10", "1_000"})
}
func c17Text(r *RNG) string {
	return Pick(r, []string{"", "a", "foo bar", "-x", "--tac", "+s", "a=b", "=", "\\t", "a\\tb", "\t", "x,y", "é", "line1\nline2", "line\n", "\n",
		"{q}", "$HOME", "5", "/", "."})
}
func c17Nth(r *RNG) string {
	return Pick(r, []string{"1", "2", "-1", "..", "1..", "..3", "2..4", "-3..-1", "1,2", "1,..", "3..1", "0", "1..0", "-1..2", "..0", "1...2",
		"1..2..3", "", "a", "1,,2", ".", "...", "1.", "+1", "1,-2..", "99999999999999999999"})
}
func c17NthT(r *RNG) string {
	if r.Bool() {
		return c17Nth(r)
	}
	return Pick(r, []string{"{1}", "{n}", "{1} {2}", "x{..}y", "{}", "{a}", "{1", "1}", "{1,2..}", "a{n}b", "{-1}", "{1}{", "{n", "{ 1}", "plain"})
}

type c17OptGen struct {
	names []string
	kind  int // 0 flag, 1 required value, 2 optional numeric, 3 optional string (listen), 4 dirs
	val   func(r *RNG) string
}

func c17Const(xs ...string) func(r *RNG) string { return func(r *RNG) string { return Pick(r, xs) } }

var c17Opts = []c17OptGen{
	{names: []string{"-x", "--extended", "-e", "--exact", "--extended-exact", "+x", "--no-extended", "+e", "--no-exact", "--literal",
		"--no-literal", "--enabled", "--no-phony", "--disabled", "--phony", "--no-input", "+s", "--no-sort", "--track", "--no-track",
		"--tac", "--no-tac", "--no-tail", "--smart-case", "-i", "--ignore-case", "+i", "--no-ignore-case", "+m", "--no-multi", "--ansi",
		"--no-ansi", "--no-mouse", "--black", "--no-black", "--bold", "--no-bold", "--reverse", "--no-reverse", "--cycle", "--no-cycle",
		"--highlight-line", "--no-highlight-line", "--wrap", "--no-wrap", "--multi-line", "--no-multi-line", "--keep-right",
		"--no-keep-right", "--hscroll", "--no-hscroll", "--filepath-word", "--no-filepath-word", "--no-info-command", "-1",
		"--select-1", "+1", "--no-select-1", "-0", "--exit-0", "+0", "--no-exit-0", "--read0", "--no-read0", "--print0", "--no-print0",
		"--print-query", "--no-print-query", "--sync", "--no-sync", "--async", "--no-history", "--no-header", "--no-header-lines",
		"--header-first", "--no-header-first", "--no-gap", "--no-preview", "--no-height", "--unicode", "--no-unicode", "--ambidouble",
		"--no-ambidouble", "--no-listen", "--no-listen-unsafe", "--clear", "--no-clear", "--force-tty-in", "--no-force-tty-in", "--",
		"--man", "--bash", "--zsh", "--fish", "-h", "--help", "--version", "--no-expect", "--no-tmux", "--no-height"}, kind: 0},
	{names: []string{"-q", "--query"}, kind: 1, val: c17Text},
	{names: []string{"-f", "--filter"}, kind: 1, val: c17Text},
	{names: []string{"--algo"}, kind: 1, val: c17Const("v1", "v2", "v2", "v3", "", "V1")},
	{names: []string{"--scheme"}, kind: 1, val: c17Const("default", "path", "history", "Path", "HISTORY", "", "x")},
	{names: []string{"--tiebreak"}, kind: 1, val: c17Const("length", "chunk", "begin", "end", "index", "pathname", "length,begin", "begin,end,index",
		"index,length", "length,length", "chunk,length,begin", "chunk,length,begin,end", "END,Index", "", "x", "length,", "pathname,chunk,index")},
	{names: []string{"-d", "--delimiter"}, kind: 1, val: c17Const(",", ":", "\\t", "a\\tb", "[0-9]", "[0-9", "\t+", "", " ", "\\\\t", "\\t\\t")},
	{names: []string{"-n", "--nth"}, kind: 1, val: c17Nth},
	{names: []string{"--with-nth"}, kind: 1, val: c17NthT},
	{names: []string{"--accept-nth"}, kind: 1, val: c17NthT},
	{names: []string{"--tail"}, kind: 1, val: c17Int},
	{names: []string{"--layout"}, kind: 1, val: c17Const("default", "reverse", "reverse-list", "Reverse", "", "x")},
	{names: []string{"--info-command"}, kind: 1, val: c17Text},
	{names: []string{"--ghost"}, kind: 1, val: c17Text},
	{names: []string{"--prompt"}, kind: 1, val: c17Text},
	{names: []string{"--header"}, kind: 1, val: c17Text},
	{names: []string{"--header-lines"}, kind: 1, val: c17Int},
	{names: []string{"--hscroll-off"}, kind: 1, val: c17Int},
	{names: []string{"--scroll-off"}, kind: 1, val: c17Int},
	{names: []string{"--tabstop"}, kind: 1, val: c17Int},
	{names: []string{"--preview"}, kind: 1, val: c17Text},
	{names: []string{"--height"}, kind: 1, val: c17Const("10", "40%", "~10", "~50%", "-5", "-10%", "~-5", "100%", "101%", "0", "0%", "", "%", "~", "-", "x",
		"10.5", "+5", "+5%", "--5", "5%%", "~~5", "99999999999999999999")},
	{names: []string{"--with-shell"}, kind: 1, val: c17Text},
	{names: []string{"--walker"}, kind: 1, val: c17Const("file", "dir", "file,dir", "file,follow,hidden", "hidden", "FILE", "dir,,follow", "", "x", "file,x")},
	{names: []string{"--walker-skip"}, kind: 1, val: c17Const(".git", "a,b", "a,,b", "", ",", "node_modules,target")},
	{names: []string{"--history"}, kind: 1, val: c17Const("@W/hist1", "@W/hist2", "@W/nonexistent-dir/h", "@W", "")},
	{names: []string{"--history-size"}, kind: 1, val: c17Int},
	{names: []string{"--expect"}, kind: 1, val: func(r *RNG) string { return c17GenChords(r) }},
	{names: []string{"--bind"}, kind: 1, val: func(r *RNG) string {
		if r.Chance(1, 4) {
			return c17GenStr(r)
		}
		return Pick(r, []string{"a:up", "ctrl-a:execute(ls)+down", "start:reload(ls)", "start:transform:echo", "a:+down", "b,c:toggle-down", "enter:accept", "a:pos(3)", "start:reload-sync:x",
			"é:up", "alt-é:down+up", "alt-ö,alt-é:toggle-down", "日:execute(echo 本)"})
	}},
	{names: []string{"-s", "--sort", "-m", "--multi", "--gap"}, kind: 2, val: c17Int},
	{names: []string{"--listen", "--listen-unsafe"}, kind: 3, val: c17Const("6266", "localhost:6266", ":80", "0.0.0.0:1", "a:b:c", "65536", "-1", "x", "", "host:", "[::1]:80")},
	{names: []string{"--tmux"}, kind: 3, val: c17Const("center", "top,40%", "left,30", "70%", "80%,40%", "bottom,80%,40%", "center,80%,border-native",
		"border-native", "", "x", "right:50%", "10,20,30", "101%", "up,5,5,5", "a,b,c,d,e", "left,", ",50%", "50%,", "top,bottom", "center,center",
		"40%,border-native,50%", "border-native,border-native", "-5%", "5.0", "5%%", "down,0", "right,100%,1", "Center", "top,,40%", "left::20%")},
	{names: []string{"--walker-root"}, kind: 4},
}

var c17Dirs = []string{"/", "/tmp", ".", "@W", "..", "/nonexistent", "file", "--tac"}

func c17GenUnit(c *Ctx, r *RNG) c17Unit {
	if r.Chance(1, 25) {
		// attached short forms, unknown options, stray words
		return c17Unit{words: []string{Pick(r, []string{"-qfoo", "-q", "-ffoo", "-d,", "-n1,2", "-n0", "-s5", "-sx", "-m3", "-mx", "-m", "--nonesuch", "-z", "stray",
			"--query", "--tac=1", "--=x", "-x=1", "--multi=", "--sort=", "--no-sort=0", "-", "+", "", "--query=", "--extended=yes"})}}
	}
	g := c17Opts[r.Intn(len(c17Opts))]
	if g.kind == 0 && r.Chance(1, 2) {
		g = c17Opts[1+r.Intn(len(c17Opts)-1)] // value-taking options are the interesting ones
	}
	name := Pick(r, g.names)
	long := strings.HasPrefix(name, "--")
	switch g.kind {
	case 0:
		return c17Unit{words: []string{name}}
	case 1:
		v := g.val(r)
		if r.Chance(4, 5) && name != "--history" && name != "--history-size" && name != "--expect" && name != "--bind" {
			// mostly values inside the option's grammar
			for tries := 0; tries < 12 && len(c.Model.Call(1712, L(Bytes(name), Bytes(v))).L) == 0; tries++ {
				v = g.val(r)
			}
		}
		if long && r.Chance(2, 5) {
			return c17Unit{words: []string{name + "=" + v}, name: name, value: v}
		}
		if r.Chance(1, 40) {
			return c17Unit{words: []string{name}} // value missing
		}
		return c17Unit{words: []string{name, v}, name: name, value: v}
	case 2, 3:
		v := g.val(r)
		switch {
		case r.Chance(1, 3):
			return c17Unit{words: []string{name}}
		case long && r.Bool():
			return c17Unit{words: []string{name + "=" + v}}
		default:
			return c17Unit{words: []string{name, v}}
		}
	default:
		ws := []string{name}
		if r.Chance(1, 4) {
			ws = []string{name + "=" + Pick(r, c17Dirs)}
		}
		for i, n := 0, r.Range(0, 3); i < n; i++ {
			ws = append(ws, Pick(r, c17Dirs))
		}
		return c17Unit{words: ws}
	}
}

func c17Flatten(us []c17Unit) []string {
	out := []string{}
	for _, u := range us {
		out = append(out, u.words...)
	}
	return out
}

func c17CleanForShell(ws []string) bool {
	for _, w := range ws {
		if strings.ContainsAny(w, "'\n") {
			return false
		}
	}
	return true
}

func c17GenUnits(c *Ctx, r *RNG, lo, hi int, shell bool) []c17Unit {
	us := []c17Unit{}
	for i, n := 0, r.Range(lo, hi); i < n; i++ {
		u := c17GenUnit(c, r)
		for shell && !c17CleanForShell(u.words) {
			u = c17GenUnit(c, r)
		}
		us = append(us, u)
	}
	return us
}

func c17Intersects(a Val, fields map[int]bool) bool {
	for _, f := range a.L {
		if fields[int(f.I)] {
			return true
		}
	}
	return false
}

func c17GenOptCase(c *Ctx, r *RNG) c17OptCase {
	oc := c17OptCase{}
	if r.Chance(1, 5) {
		oc.HasFile = true
		oc.File = c17Flatten(c17GenUnits(c, r, 0, 3, true))
	}
	if r.Chance(2, 5) {
		oc.Env = c17Flatten(c17GenUnits(c, r, 0, 4, true))
	}
	us := c17GenUnits(c, r, 0, 6, false)
	if r.Chance(1, 3) {
		// last-wins probe: xs ++ [o v1] ++ ys ++ [o v2] ++ zs, zs without writers of o's fields
		var first, last c17Unit
		for tries := 0; tries < 50; tries++ {
			first = c17GenUnit(c, r)
			if first.name != "" && first.name != "--history" && first.name != "--history-size" && first.name != "--expect" && first.name != "--bind" {
				break
			}
		}
		if first.name != "" {
			for tries := 0; tries < 200; tries++ {
				last = c17GenUnit(c, r)
				if last.name == first.name {
					break
				}
			}
		}
		if first.name != "" && last.name == first.name {
			eff := c.Model.Call(1712, L(Bytes(last.name), Bytes(strings.ReplaceAll(last.value, "@W", c.Work))))
			fields := map[int]bool{}
			for _, fvp := range eff.L {
				fields[int(fvp.L[0].I)] = true
			}
			zs := []c17Unit{}
			for _, u := range c17GenUnits(c, r, 0, 4, false) {
				touches := false
				for _, w := range u.words {
					if c17Intersects(c.Model.Call(1713, Bytes(w)), fields) {
						touches = true
					}
				}
				if !touches {
					zs = append(zs, u)
				}
			}
			mid := c17GenUnits(c, r, 0, 2, false)
			all := append(append(append(append(append([]c17Unit{}, us...), first), mid...), last), zs...)
			oc.Args = c17Flatten(all)
			oc.LastName, oc.LastValue = last.name, last.value
			oc.LastIndex = len(c17Flatten(us)) + len(first.words) + len(c17Flatten(mid))
			return oc
		}
	}
	oc.Args = c17Flatten(us)
	return oc
}

// every option spelling of options.go (totality fuzz over the whole vocabulary)
var c17AllOptions = []string{"--man", "--bash", "--zsh", "--fish", "-h", "--help", "--version", "--no-winpty", "--tmux", "--no-tmux", "--force-tty-in",
	"--no-force-tty-in", "--proxy-script", "-x", "--extended", "-e", "--exact", "--extended-exact", "+x", "--no-extended", "+e", "--no-exact", "-q",
	"--query", "-f", "--filter", "--literal", "--no-literal", "--algo", "--scheme", "--expect", "--no-expect", "--enabled", "--no-phony", "--disabled",
	"--phony", "--no-input", "--tiebreak", "--bind", "--color", "--toggle-sort", "-d", "--delimiter", "-n", "--nth", "--with-nth", "--accept-nth", "-s",
	"--sort", "+s", "--no-sort", "--track", "--no-track", "--tac", "--no-tac", "--tail", "--no-tail", "--smart-case", "-i", "--ignore-case", "+i",
	"--no-ignore-case", "-m", "--multi", "+m", "--no-multi", "--ansi", "--no-ansi", "--no-mouse", "+c", "--no-color", "+2", "--no-256", "--black",
	"--no-black", "--bold", "--no-bold", "--layout", "--reverse", "--no-reverse", "--cycle", "--highlight-line", "--no-highlight-line", "--no-cycle",
	"--wrap", "--no-wrap", "--wrap-sign", "--multi-line", "--no-multi-line", "--keep-right", "--no-keep-right", "--hscroll", "--no-hscroll",
	"--hscroll-off", "--scroll-off", "--filepath-word", "--no-filepath-word", "--info", "--info-command", "--no-info-command", "--no-info",
	"--inline-info", "--no-inline-info", "--separator", "--no-separator", "--ghost", "--scrollbar", "--no-scrollbar", "--jump-labels", "-1",
	"--select-1", "+1", "--no-select-1", "-0", "--exit-0", "+0", "--no-exit-0", "--read0", "--no-read0", "--print0", "--no-print0", "--print-query",
	"--no-print-query", "--prompt", "--pointer", "--marker", "--marker-multi-line", "--sync", "--no-sync", "--async", "--no-history", "--history",
	"--history-size", "--no-header", "--no-header-lines", "--header", "--header-lines", "--header-first", "--no-header-first", "--gap", "--no-gap",
	"--gap-line", "--no-gap-line", "--ellipsis", "--preview", "--no-preview", "--preview-window", "--no-preview-border", "--preview-border", "--height",
	"--min-height", "--no-height", "--no-margin", "--no-padding", "--no-border", "--border", "--list-border", "--no-list-border", "--no-list-label",
	"--list-label", "--list-label-pos", "--no-header-border", "--header-border", "--no-header-lines-border", "--header-lines-border",
	"--no-header-label", "--header-label", "--header-label-pos", "--no-input-border", "--input-border", "--no-input-label", "--input-label",
	"--input-label-pos", "--no-border-label", "--border-label", "--border-label-pos", "--no-preview-label", "--preview-label", "--preview-label-pos",
	"--style", "--no-unicode", "--unicode", "--ambidouble", "--no-ambidouble", "--margin", "--padding", "--tabstop", "--with-shell", "--listen",
	"--listen-unsafe", "--no-listen", "--no-listen-unsafe", "--clear", "--no-clear", "--walker", "--walker-root", "--walker-skip", "--profile-cpu",
	"--profile-mem", "--profile-block", "--profile-mutex", "--"}

var c17OddValues = []string{"", "0", "1", "-1", "10", "50%", "~50%", "-5", "100%", "x", "a,b", "a:b", ",", ":", "+", "-", "--", "~", "%", "1,2,3,4", "1,2,3,4,5",
	"up", "down", "left", "right", "up,50%", "right:30%:hidden", "border-rounded", "rounded", "sharp", "line", "none", "hidden", "center", "bottom", "top",
	"default", "minimal", "full", "full:double", "inline", "inline-right:x", "inline: ", "fg:1", "bg:-1", "dark", "light", "16", "bw", "fg:#ff0000,bg:red",
	"hl:bold:underline", "nth:regular", "nth:red", "pointer:1", "é", "日本", "ab", "abc", "▌", "\t", "\n", " ", "a\nb", "{}", "{q}", "{1}", "..", "1..2", "80",
	"80,20", "80%,50%", "center,80%", "bottom,40%", "left,20", "top,border-native", "-p", "-p 80%", "1e3", "1e999%", "NaN%", "Inf%", "0x1p-2%", "1_0", "+3",
	"~3", "+{2}-5", "+{2}+3/2", "~3,+{2}+3/3", "wrap", "nowrap", "cycle", "follow", "nofollow", "info", "noinfo", "border-left", "<5(up)", "<5(", "alt-,",
	"ctrl-a", "f1,f2", "a:up", "a:execute(x)", ":", "::", "@W/h", "@W", "/", "999999999999999999999", "9223372036854775807", "-9223372036854775808",
	"│", "┃x", "xyz", "xy", "││", "  ", "\x1b[31m"}

func c17GenFuzz(r *RNG) c17OptCase {
	// one value in seven is a text measured in columns: clusters of every width, zero-width ones at either end (c17display.go)
	val := func() string {
		if r.Chance(1, 7) {
			return c17DisplayValue(r, r.Range(0, 7))
		}
		return Pick(r, c17OddValues)
	}
	gen := func(lo, hi int, shell bool) []string {
		ws := []string{}
		for i, n := 0, r.Range(lo, hi); i < n; i++ {
			o := Pick(r, c17AllOptions)
			switch r.Intn(6) {
			case 0:
				ws = append(ws, o)
			case 1:
				ws = append(ws, o+"="+val())
			case 2:
				ws = append(ws, val())
			case 3:
				ws = append(ws, o, val(), val())
			default:
				ws = append(ws, o, val())
			}
		}
		if shell && !c17CleanForShell(ws) {
			return nil
		}
		return ws
	}
	oc := c17OptCase{Args: gen(0, 8, false)}
	if r.Chance(1, 4) {
		oc.Env = gen(0, 4, true)
	}
	if r.Chance(1, 8) {
		oc.HasFile = true
		oc.File = gen(0, 3, true)
	}
	return oc
}

func c17RunOpts(c *Ctx) {
	r := c.Rng
	for i, n := 0, c.N(3000, 60000); i < n; i++ {
		oc := c17GenOptCase(c, r)
		c17Run(c, c17Case{Kind: "args", Opt: &oc})
	}
	for i, n := 0, c.N(6000, 200000); i < n; i++ {
		oc := c17GenFuzz(r)
		c17Run(c, c17Case{Kind: "fuzz", Opt: &oc})
	}
}
