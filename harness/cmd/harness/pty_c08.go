package main

// pty_c08.go — helpers on top of pty.go for C08 (nothing in pty.go is modified).

import (
	"encoding/json"
	"fmt"
	"strings"
)

// GetLimit is Get with an explicit limit (a status poll with limit=1 is cheap on 200 000 matches).
func (s *Session) GetLimit(limit int) (*FzfState, error) {
	st, body, err := s.roundTrip(fmt.Sprintf("GET /?limit=%d HTTP/1.1\r\nHost: localhost\r\n\r\n", limit))
	if err != nil {
		return nil, err
	}
	if st != 200 {
		return nil, fmt.Errorf("GET: HTTP %d %s", st, strings.TrimSpace(body))
	}
	var out FzfState
	if err := json.Unmarshal([]byte(body), &out); err != nil {
		return nil, fmt.Errorf("GET: %v in %.200q", err, body)
	}
	return &out, nil
}
