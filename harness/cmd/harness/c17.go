package main

import (
	"encoding/json"
	"fmt"
	"os"
	"sort"
	"strings"
	"unicode"
	"unicode/utf8"

	fzf "github.com/junegunn/fzf/src"
	"github.com/junegunn/fzf/src/tui"
)

// ---------------------------------------------------------------- cases

type c17Act struct {
	Name   string `json:"name"`
	HasArg bool   `json:"has_arg,omitempty"`
	Open   int    `json:"open,omitempty"` // 0 = trailing-colon form
	Close  int    `json:"close,omitempty"`
	Arg    string `json:"arg,omitempty"`
}
type c17Pair struct {
	Keys []string `json:"keys"`
	Acts []c17Act `json:"acts"`
}
type c17Case struct {
	Kind string     `json:"kind"` // bind-ast | bind-str | actions | chords | keys | color-str | mask | args | fuzz  (color, override: own types)
	Ast  []c17Pair  `json:"ast,omitempty"`
	Strs []string   `json:"strs,omitempty"`
	Opt  *c17OptCase `json:"opt,omitempty"`
}

// ---------------------------------------------------------------- canonical forms

var c17Named = map[tui.EventType]string{
	tui.Up: "up", tui.Down: "down", tui.Left: "left", tui.Right: "right", tui.Backspace: "backspace",
	tui.CtrlSpace: "ctrl-space", tui.CtrlDelete: "ctrl-delete", tui.CtrlCaret: "ctrl-caret", tui.CtrlSlash: "ctrl-slash",
	tui.CtrlBackSlash: "ctrl-back-slash", tui.CtrlRightBracket: "ctrl-right-bracket", tui.Change: "change",
	tui.BackwardEOF: "backward-eof", tui.Start: "start", tui.Load: "load", tui.Focus: "focus", tui.Result: "result",
	tui.Resize: "resize", tui.One: "one", tui.Zero: "zero", tui.Jump: "jump", tui.JumpCancel: "jump-cancel",
	tui.ClickHeader: "click-header", tui.AltBackspace: "alt-backspace", tui.AltUp: "alt-up", tui.AltDown: "alt-down",
	tui.AltLeft: "alt-left", tui.AltRight: "alt-right", tui.ShiftTab: "shift-tab", tui.Esc: "esc", tui.Delete: "delete",
	tui.Home: "home", tui.End: "end", tui.Insert: "insert", tui.PageUp: "page-up", tui.PageDown: "page-down",
	tui.AltShiftUp: "alt-shift-up", tui.AltShiftDown: "alt-shift-down", tui.AltShiftLeft: "alt-shift-left",
	tui.AltShiftRight: "alt-shift-right", tui.ShiftUp: "shift-up", tui.ShiftDown: "shift-down", tui.ShiftLeft: "shift-left",
	tui.ShiftRight: "shift-right", tui.ShiftDelete: "shift-delete", tui.LeftClick: "left-click", tui.RightClick: "right-click",
	tui.SLeftClick: "s-left-click", tui.SRightClick: "s-right-click", tui.DoubleClick: "double-click",
	tui.ScrollUp: "scroll-up", tui.ScrollDown: "scroll-down", tui.SScrollUp: "s-scroll-up", tui.SScrollDown: "s-scroll-down",
	tui.PreviewScrollUp: "preview-scroll-up", tui.PreviewScrollDown: "preview-scroll-down",
}

func c17KeyOfEvent(t int, ch rune) string {
	et := tui.EventType(t)
	switch {
	case et == tui.Rune:
		return fmt.Sprintf("0:%d:", ch)
	case et >= tui.CtrlA && et <= tui.CtrlZ:
		return fmt.Sprintf("1:%d:", int(et-tui.CtrlA))
	case et >= tui.F1 && et <= tui.F12:
		return fmt.Sprintf("3:%d:", int(et-tui.F1)+1)
	case et == tui.Alt:
		return fmt.Sprintf("4:%d:", ch)
	case et == tui.CtrlAlt:
		return fmt.Sprintf("5:%d:", ch)
	}
	if n, ok := c17Named[et]; ok {
		return "2:0:" + n
	}
	return fmt.Sprintf("?:%d:%d", t, ch)
}

func c17KeyOfVal(v Val) string {
	if !v.IsList || len(v.L) != 3 {
		return "!" + v.String()
	}
	return fmt.Sprintf("%d:%d:%s", v.L[0].I, v.L[1].I, v.L[2].Str())
}

// actBackwardDeleteCharEof -> backward-delete-char-eof
func c17Kebab(s string) string {
	s = strings.TrimPrefix(s, "act")
	var b strings.Builder
	for i, r := range s {
		if unicode.IsUpper(r) {
			if i > 0 {
				b.WriteByte('-')
			}
			b.WriteRune(unicode.ToLower(r))
		} else {
			b.WriteRune(r)
		}
	}
	return b.String()
}

func c17ActsOfImpl(as []fzf.VerifAct) string {
	parts := make([]string, len(as))
	for i, a := range as {
		parts[i] = fmt.Sprintf("%s(%q)", c17Kebab(a.Type), a.Arg)
	}
	return strings.Join(parts, " ")
}
func c17ActsOfVal(v Val) string {
	parts := make([]string, len(v.L))
	for i, a := range v.L {
		if len(a.L) != 2 {
			return "!" + v.String()
		}
		parts[i] = fmt.Sprintf("%s(%q)", a.L[0].Str(), a.L[1].Str())
	}
	return strings.Join(parts, " ")
}

func c17KeymapOfImpl(bs []fzf.VerifBinding) string {
	lines := make([]string, len(bs))
	for i, b := range bs {
		lines[i] = c17KeyOfEvent(b.EventType, b.Char) + " => " + c17ActsOfImpl(b.Actions)
	}
	sort.Strings(lines)
	return strings.Join(lines, "\n")
}
func c17KeymapOfVal(v Val) string {
	lines := make([]string, len(v.L))
	for i, b := range v.L {
		if len(b.L) != 2 {
			return "!" + v.String()
		}
		lines[i] = c17KeyOfVal(b.L[0]) + " => " + c17ActsOfVal(b.L[1])
	}
	sort.Strings(lines)
	return strings.Join(lines, "\n")
}
func c17KeysOfImpl(bs []fzf.VerifBinding) string {
	lines := make([]string, len(bs))
	for i, b := range bs {
		lines[i] = c17KeyOfEvent(b.EventType, b.Char)
	}
	sort.Strings(lines)
	return strings.Join(lines, "\n")
}
func c17KeysOfVal(v Val) string {
	lines := make([]string, len(v.L))
	for i, b := range v.L {
		lines[i] = c17KeyOfVal(b)
	}
	sort.Strings(lines)
	return strings.Join(lines, "\n")
}

// outcome of the model: (-1 -1 -1) crash, (0 e) user error, (1 x) ok
func c17Outcome(v Val, f func(Val) string) string {
	if len(v.L) == 2 && v.L[0].I == 1 {
		return "ok\n" + f(v.L[1])
	}
	if len(v.L) == 2 && v.L[0].I == 0 {
		return "error"
	}
	return "MODEL-CRASH " + v.String()
}

func c17Guard(f func() string) (out string) {
	defer func() {
		if r := recover(); r != nil {
			out = fmt.Sprintf("PANIC %v", r)
		}
	}()
	return f()
}

// ---------------------------------------------------------------- bind checks

func c17AstVal(ast []c17Pair) Val {
	ps := []Val{}
	for _, p := range ast {
		as := []Val{}
		for _, a := range p.Acts {
			if !a.HasArg {
				as = append(as, L(I(0), Bytes(a.Name)))
			} else {
				as = append(as, L(I(1), Bytes(a.Name), I(a.Open), I(a.Close), Bytes(a.Arg)))
			}
		}
		ps = append(ps, L(Strs(p.Keys), L(as...)))
	}
	return L(ps...)
}

func c17ImplKeymaps(strs []string) string {
	return c17Guard(func() string {
		bs, err := fzf.VerifParseKeymaps(strs)
		if err != nil {
			return "error"
		}
		return "ok\n" + c17KeymapOfImpl(bs)
	})
}

func c17NonASCII(s string) bool {
	for i := 0; i < len(s); i++ {
		if s[i] >= 0x80 {
			return true
		}
	}
	return false
}

func c17NoUnmodelled(s string) bool {
	// change-preview-window's argument grammar (parsePreviewWindowImpl) is not modelled
	return !strings.Contains(strings.ToLower(s), "change-preview-window")
}

// a bare `put` bound to a non-ASCII character key asks unicode.IsGraphic (Unicode tables, not modelled: the model
// refuses it): the one disagreement this explains is "implementation accepts, model reports a user error" on an
// input that has both a non-ASCII byte and `put`
func c17PutUnicode(impl, model string, words ...string) bool {
	if !strings.HasPrefix(impl, "ok") || model != "error" {
		return false
	}
	for _, w := range words {
		if c17NonASCII(w) && strings.Contains(strings.ToLower(w), "put") {
			return true
		}
	}
	return false
}

func c17CheckBindStrs(c *Ctx, cs c17Case, strs []string, nontrivial bool) string {
	rep := c.Rep
	impl := c17ImplKeymaps(strs)
	rep.ImplTraces++
	rep.SpecChecks++
	if strings.HasPrefix(impl, "PANIC") {
		rep.Disagreement(Disagreement{Kind: "spec", Name: "bind_total", Input: cs, Impl: impl, Expect: "a keymap or an error, never a panic"})
		return impl
	}
	ok := true
	for _, s := range strs {
		ok = ok && c17NoUnmodelled(s)
	}
	if ok {
		mv := c17Outcome(c.Model.Call(1701, Strs(strs)), c17KeymapOfVal)
		if mv != impl && c17PutUnicode(impl, mv, strs...) {
			rep.Count("bind:unmodelled-put-unicode")
		} else if mv != impl {
			rep.Disagreement(Disagreement{Kind: "corr", Name: "corr:C17.parse_keymap", Input: cs, Impl: impl, Expect: mv})
		}
	}
	key, _ := json.Marshal(cs)
	rep.Eval(string(key), nontrivial && strings.HasPrefix(impl, "ok"))
	if strings.HasPrefix(impl, "ok") {
		rep.Count("bind:ok")
	} else {
		rep.Count("bind:error")
	}
	return impl
}

func c17CheckAst(c *Ctx, cs c17Case) {
	rep := c.Rep
	sv := c.Model.Call(1702, c17AstVal(cs.Ast))
	if len(sv.L) != 3 {
		rep.Disagreement(Disagreement{Kind: "corr", Name: "corr:C17.render", Input: cs, Impl: "", Expect: sv.String()})
		return
	}
	rendered := sv.L[0].Str()
	wf := sv.L[1].I == 1
	want := "ok\n" + c17KeymapOfVal(sv.L[2])
	nargs := 0
	for _, p := range cs.Ast {
		for _, a := range p.Acts {
			if a.HasArg {
				nargs++
				if a.Open == 0 {
					rep.Count("form:colon")
				} else if a.Open == a.Close {
					rep.Count("form:symmetric")
				} else {
					rep.Count("form:bracket")
				}
				if strings.ContainsAny(a.Arg, "+,:") {
					rep.Count("arg:has+,:")
				}
				if a.Close != 0 && strings.ContainsRune(a.Arg, rune(a.Close)) {
					rep.Count("arg:has-closer")
				}
			}
		}
	}
	impl := c17CheckBindStrs(c, c17Case{Kind: "bind-ast", Ast: cs.Ast, Strs: []string{rendered}}, []string{rendered}, wf && nargs > 0)
	if wf {
		rep.Count("ast:wf")
		// (5a) the spec's denotation, evaluated against what the implementation returned
		if impl != want {
			rep.Disagreement(Disagreement{Kind: "spec", Name: "bind_roundtrip", Input: c17Case{Kind: "bind-ast", Ast: cs.Ast, Strs: []string{rendered}}, Impl: impl, Expect: want})
		}
	} else {
		rep.Count("ast:not-wf")
	}
	rep.Sample(map[string]interface{}{"bind": rendered, "wf": wf})
}

func c17CheckActions(c *Ctx, cs c17Case) {
	rep := c.Rep
	s := cs.Strs[0]
	impl := c17Guard(func() string {
		as, err := fzf.VerifParseSingleActionList(s)
		if err != nil {
			return "error"
		}
		return "ok\n" + c17ActsOfImpl(as)
	})
	rep.ImplTraces++
	rep.SpecChecks++
	if strings.HasPrefix(impl, "PANIC") {
		rep.Disagreement(Disagreement{Kind: "spec", Name: "bind_total", Input: cs, Impl: impl, Expect: "actions or an error, never a panic"})
		return
	}
	if c17NoUnmodelled(s) {
		mv := c17Outcome(c.Model.Call(1704, Bytes(s)), c17ActsOfVal)
		if mv != impl {
			rep.Disagreement(Disagreement{Kind: "corr", Name: "corr:C17.parse_single_action_list", Input: cs, Impl: impl, Expect: mv})
		}
	}
	rep.Eval("actions:"+s, strings.HasPrefix(impl, "ok"))
	rep.Count("actions:" + impl[:2])
}

func c17CheckChords(c *Ctx, cs c17Case) {
	rep := c.Rep
	s := cs.Strs[0]
	impl := c17Guard(func() string {
		bs, err := fzf.VerifParseKeyChords(s)
		if err != nil {
			return "error"
		}
		return "ok\n" + c17KeysOfImpl(bs)
	})
	rep.ImplTraces++
	rep.SpecChecks++
	if strings.HasPrefix(impl, "PANIC") {
		rep.Disagreement(Disagreement{Kind: "spec", Name: "bind_total", Input: cs, Impl: impl, Expect: "keys or an error, never a panic"})
		return
	}
	mv := c17Outcome(c.Model.Call(1705, Bytes(s)), c17KeysOfVal)
	if mv != impl {
		rep.Disagreement(Disagreement{Kind: "corr", Name: "corr:C17.parse_key_chords", Input: cs, Impl: impl, Expect: mv})
	}
	rep.Eval("chords:"+s, strings.HasPrefix(impl, "ok"))
	rep.Count("chords:" + impl[:2])
}

// a list of key names: the SET of keys it denotes (spec, op 1706) against parseKeyChords, --expect and --toggle-sort
func c17CheckKeys(c *Ctx, cs c17Case) {
	rep := c.Rep
	sv := c.Model.Call(1706, Strs(cs.Strs))
	if len(sv.L) != 3 {
		rep.Disagreement(Disagreement{Kind: "corr", Name: "corr:C17.keys_render", Input: cs, Impl: "", Expect: sv.String()})
		return
	}
	rendered := sv.L[0].Str()
	ok := sv.L[1].I == 1
	want := "ok\n" + c17KeysOfVal(sv.L[2])
	impl := c17Guard(func() string {
		bs, err := fzf.VerifParseKeyChords(rendered)
		if err != nil {
			return "error"
		}
		return "ok\n" + c17KeysOfImpl(bs)
	})
	rep.ImplTraces++
	rep.SpecChecks++
	rep.Eval("keys:"+rendered, ok && len(cs.Strs) >= 1)
	if c17NonASCII(rendered) {
		rep.Count("keys:non-ascii")
	}
	if strings.HasPrefix(impl, "PANIC") {
		rep.Disagreement(Disagreement{Kind: "spec", Name: "bind_total", Input: cs, Impl: impl, Expect: "keys or an error, never a panic"})
		return
	}
	mv := c17Outcome(c.Model.Call(1705, Bytes(rendered)), c17KeysOfVal)
	if mv != impl {
		rep.Disagreement(Disagreement{Kind: "corr", Name: "corr:C17.parse_key_chords", Input: cs, Impl: impl, Expect: mv})
	}
	if !ok {
		rep.Count("keys:not-wf")
		return
	}
	rep.Count("keys:wf")
	if impl != want {
		rep.Disagreement(Disagreement{Kind: "spec", Name: "chords_roundtrip", Input: cs,
			Impl: fmt.Sprintf("parseKeyChords(%q) = %q", rendered, impl), Expect: want})
		return
	}
	// the same list as the value of --expect
	ex := c17ImplParse(c, nil, false, nil, []string{"--expect=" + rendered})
	rep.SpecChecks++
	if ex.Status != "ok" || "ok\n"+ex.Expect != want {
		rep.Disagreement(Disagreement{Kind: "spec", Name: "expect_roundtrip", Input: cs,
			Impl: fmt.Sprintf("--expect=%s => %s %s %q", rendered, ex.Status, ex.Err, ex.Expect), Expect: want})
	}
	// one key as the value of --toggle-sort / the key of a --bind
	if len(cs.Strs) == 1 && len(sv.L[2].L) == 1 {
		k := c17KeyOfVal(sv.L[2].L[0])
		ts := c17ImplParse(c, nil, false, nil, []string{"--toggle-sort", rendered})
		rep.SpecChecks++
		if strings.HasPrefix(rendered, "-") || strings.HasPrefix(rendered, "+") {
			ts = c17ImplParse(c, nil, false, nil, []string{"--toggle-sort=" + rendered})
		}
		if w := k + " => toggle-sort(\"\")"; ts.Status != "ok" || ts.Keymap != w {
			rep.Disagreement(Disagreement{Kind: "spec", Name: "toggle_sort_key", Input: cs,
				Impl: fmt.Sprintf("--toggle-sort %s => %s %s %q", rendered, ts.Status, ts.Err, ts.Keymap), Expect: w})
		}
	}
}

func c17CheckMask(c *Ctx, cs c17Case) {
	rep := c.Rep
	s := cs.Strs[0]
	impl := c17Guard(func() string { return "ok\n" + fzf.VerifMaskActionContents(s) })
	rep.ImplTraces++
	rep.SpecChecks++
	if strings.HasPrefix(impl, "PANIC") {
		rep.Disagreement(Disagreement{Kind: "spec", Name: "bind_total", Input: cs, Impl: impl, Expect: "never a panic"})
		return
	}
	// spec: masking preserves the length (parseKeymap slices the original at the masked offsets)
	if len(impl)-3 != len(s) {
		rep.Disagreement(Disagreement{Kind: "spec", Name: "mask_length", Input: cs, Impl: len(impl) - 3, Expect: len(s)})
	}
	mv := c.Model.Call(1703, Bytes(s))
	m := "MODEL-CRASH"
	if len(mv.L) == 1 {
		m = "ok\n" + mv.L[0].Str()
	}
	if m != impl {
		rep.Disagreement(Disagreement{Kind: "corr", Name: "corr:C17.mask_action_contents", Input: cs, Impl: impl, Expect: m})
	}
	rep.Eval("mask:"+s, strings.Contains(impl, "  "))
	rep.Count("mask")
}

// ---------------------------------------------------------------- generators (bind)

var c17SimpleNames = []string{"ignore", "beginning-of-line", "abort", "accept", "accept-non-empty", "accept-or-print-query",
	"print-query", "refresh-preview", "replace-query", "backward-char", "backward-delete-char", "backward-delete-char/eof",
	"backward-word", "clear-screen", "delete-char", "delete-char/eof", "deselect", "end-of-line", "cancel", "clear-query",
	"clear-selection", "forward-char", "forward-word", "jump", "jump-accept", "kill-line", "kill-word", "unix-line-discard",
	"line-discard", "unix-word-rubout", "word-rubout", "yank", "backward-kill-word", "toggle-down", "toggle-up", "toggle-in",
	"toggle-out", "toggle-all", "toggle-search", "toggle-track", "toggle-track-current", "toggle-input", "hide-input",
	"show-input", "toggle-header", "toggle-wrap", "toggle-multi-line", "toggle-hscroll", "show-header", "hide-header", "track",
	"track-current", "untrack-current", "select", "select-all", "deselect-all", "close", "toggle", "down", "up", "first", "top",
	"last", "page-up", "page-down", "half-page-up", "half-page-down", "prev-history", "previous-history", "next-history",
	"prev-selected", "next-selected", "show-preview", "hide-preview", "toggle-preview", "toggle-preview-wrap", "toggle-sort",
	"offset-up", "offset-down", "offset-middle", "preview-top", "preview-bottom", "preview-up", "preview-down",
	"preview-page-up", "preview-page-down", "preview-half-page-up", "preview-half-page-down", "enable-search",
	"disable-search", "bell", "exclude", "exclude-multi", "change-multi"}

var c17ArgNames = []string{"become", "reload", "reload-sync", "preview", "change-header", "change-list-label",
	"change-border-label", "change-preview-label", "change-input-label", "change-header-label", "change-ghost",
	"change-pointer", "change-preview", "change-prompt", "change-query", "change-multi", "change-nth", "pos", "execute",
	"execute-silent", "execute-multi", "print", "put", "transform", "transform-list-label", "transform-border-label",
	"transform-preview-label", "transform-input-label", "transform-header-label", "transform-header", "transform-ghost",
	"transform-nth", "transform-pointer", "transform-prompt", "transform-query", "transform-search", "search"}

var c17KeyNames = []string{"up", "down", "left", "right", "enter", "return", "space", "backspace", "bspace", "bs", "ctrl-space",
	"ctrl-delete", "ctrl-^", "ctrl-6", "ctrl-/", "ctrl-_", "ctrl-\\", "ctrl-]", "change", "backward-eof", "start", "load",
	"focus", "result", "resize", "one", "zero", "jump", "jump-cancel", "click-header", "alt-enter", "alt-return", "alt-space",
	"alt-bs", "alt-bspace", "alt-backspace", "alt-up", "alt-down", "alt-left", "alt-right", "tab", "btab", "shift-tab", "esc",
	"delete", "del", "home", "end", "insert", "pgup", "page-up", "pgdn", "page-down", "alt-shift-up", "shift-alt-up",
	"alt-shift-down", "shift-alt-down", "alt-shift-left", "shift-alt-left", "alt-shift-right", "shift-alt-right", "shift-up",
	"shift-down", "shift-left", "shift-right", "shift-delete", "left-click", "right-click", "shift-left-click",
	"shift-right-click", "double-click", "scroll-up", "scroll-down", "shift-scroll-up", "shift-scroll-down",
	"preview-scroll-up", "preview-scroll-down", "f1", "f2", "f9", "f10", "f11", "f12", "ctrl-a", "ctrl-i", "ctrl-m", "ctrl-z",
	"ctrl-alt-a", "ctrl-alt-q", "alt-a", "alt-Z", "alt-1", "alt-/", "a", "b", "z", "A", "Q", "0", "9", "/", "?", "~", "!", "@",
	"(", ")", "[", "{", "<", "|", ";", "*", "-", "_", ".", " ", "'", "\""}

// characters for key names outside ASCII: neighbours in the encoding (same lead byte), every encoded length, range ends
var c17UniPool = []rune{'é', 'è', 'ö', 'É', 'ß', 'ÿ', 0xa0, 0x80, 'Ā', 'λ', 'я', 0x7ff, 0x800, '€', '한', '日', '本', 0xfffd, 0xffff, 0x10000, '😀', 0x10ffff}

func c17Rune(r *RNG) rune {
	if r.Chance(2, 3) {
		return Pick(r, c17UniPool)
	}
	for {
		var x rune
		switch r.Intn(3) {
		case 0:
			x = rune(r.Range(0x80, 0x7ff))
		case 1:
			x = rune(r.Range(0x800, 0xffff))
		default:
			x = rune(r.Range(0x10000, 0x10ffff))
		}
		// surrogates are not characters; U+0130, U+017F, U+212A fold to ASCII letters in Go (outside the modelled domain)
		if (x >= 0xd800 && x <= 0xdfff) || x == 0x130 || x == 0x17f || x == 0x212a {
			continue
		}
		return x
	}
}

// a key name with a character outside ASCII: the character itself, or alt- followed by it
func c17UniKey(r *RNG) string {
	ch := string(c17Rune(r))
	switch r.Intn(5) {
	case 0, 1:
		return ch
	case 2:
		return Pick(r, []string{"ALT-", "Alt-", "aLT-"}) + ch
	default:
		return "alt-" + ch
	}
}

func c17KeyName(r *RNG) string {
	if r.Chance(1, 5) {
		return c17UniKey(r)
	}
	return Pick(r, c17KeyNames)
}

var c17Pairs = [][2]int{{'(', ')'}, {'[', ']'}, {'{', '}'}, {'<', '>'}, {'~', '~'}, {'!', '!'}, {'@', '@'}, {'#', '#'},
	{'$', '$'}, {'%', '%'}, {'^', '^'}, {'&', '&'}, {'*', '*'}, {';', ';'}, {'/', '/'}, {'|', '|'}}

func c17Mixcase(r *RNG, s string) string {
	if !r.Chance(1, 12) {
		return s
	}
	b := []byte(s)
	for i := range b {
		if b[i] >= 'a' && b[i] <= 'z' && r.Bool() {
			b[i] -= 32
		}
	}
	return string(b)
}

// argument text: biased towards the delimiter characters themselves, + , : and action-looking fragments
func c17Arg(r *RNG, closer int) string {
	n := r.Range(0, 8)
	if r.Chance(1, 10) {
		n = r.Range(8, 30)
	}
	var sb strings.Builder
	frag := []string{"+", ",", ":", " ", "a", "b", "x", "{}", "{q}", "echo ", "é", "日", ")", "]", "}", ">", "(", "[", "<", "~", "@", "|",
		"/", ";", "$", "^", "&", "*", "%", "#", "!", ":execute(", "+up", ",a:up", ":pos(", "+reload:", "::", ",:", "+:", ",,,", "\t", "'", "\"", "\\"}
	for i := 0; i < n; i++ {
		switch r.Intn(5) {
		case 0:
			if closer != 0 {
				sb.WriteRune(rune(closer))
			} else {
				sb.WriteString(Pick(r, frag))
			}
		case 1:
			if closer != 0 && r.Bool() {
				// closer not followed by + or , : allowed by the documented restriction
				sb.WriteRune(rune(closer))
				sb.WriteString(Pick(r, []string{"a", " ", ")", ":", "x"}))
			} else {
				sb.WriteString(Pick(r, []string{"+", ",", ":"}))
			}
		default:
			sb.WriteString(Pick(r, frag))
		}
	}
	return sb.String()
}

func c17ArgFree(arg string, closer int) bool {
	for i := 0; i+1 < len(arg); i++ {
		if int(arg[i]) == closer && (arg[i+1] == '+' || arg[i+1] == ',') {
			return false
		}
	}
	return true
}

func c17GenAst(r *RNG, wellFormed bool) []c17Pair {
	np := r.Range(1, 4)
	if r.Chance(1, 3) {
		np = 1
	}
	ast := []c17Pair{}
	for pi := 0; pi < np; pi++ {
		p := c17Pair{}
		nk := 1
		if r.Chance(1, 4) {
			nk = r.Range(2, 3)
		}
		for i := 0; i < nk; i++ {
			k := c17KeyName(r)
			if !wellFormed && r.Chance(1, 6) {
				k = Pick(r, []string{":", ",", "+", "alt-,", "alt-:", "alt-+", "", "xx", "ctrl-1", "f0", "F5", "CTRL-A", "Alt-x", "Space",
					"ctrl-é", "alt-éé", "éé", "ctrl-alt-é", "fé", "alt-é-", "shift-é"})
			}
			p.Keys = append(p.Keys, k)
		}
		na := r.Range(1, 4)
		for i := 0; i < na; i++ {
			last := pi == np-1 && i == na-1
			if r.Chance(2, 5) {
				name := Pick(r, c17SimpleNames)
				if !wellFormed {
					name = c17Mixcase(r, name)
					if r.Chance(1, 10) {
						name = Pick(r, []string{"put", "", "nonesuch", "up ", "execute", "change-search", "preview-", "putx", "toggle-bind"})
					}
				}
				p.Acts = append(p.Acts, c17Act{Name: name})
				continue
			}
			a := c17Act{Name: Pick(r, c17ArgNames), HasArg: true}
			if !wellFormed {
				a.Name = c17Mixcase(r, a.Name)
				if r.Chance(1, 12) {
					a.Name = Pick(r, []string{"unbind", "rebind", "toggle-bind", "change-search", "up", "nonesuch", "transform-", "execute-"})
				}
			}
			if (last && r.Chance(1, 3)) || (!wellFormed && r.Chance(1, 10)) {
				a.Open, a.Close = 0, 0
				a.Arg = c17Arg(r, 0)
			} else {
				pr := Pick(r, c17Pairs)
				a.Open, a.Close = pr[0], pr[1]
				for tries := 0; ; tries++ {
					a.Arg = c17Arg(r, a.Close)
					if c17ArgFree(a.Arg, a.Close) || (!wellFormed && r.Chance(1, 2)) || tries > 20 {
						break
					}
				}
				if wellFormed && !c17ArgFree(a.Arg, a.Close) {
					a.Arg = "x"
				}
				if a.Name == "unbind" || a.Name == "rebind" || a.Name == "toggle-bind" {
					a.Arg = Pick(r, []string{"a", "ctrl-a,b", "tab", "", "xx", "alt-,", ",", "a,,b", ",,"})
				}
			}
			p.Acts = append(p.Acts, a)
		}
		ast = append(ast, p)
	}
	return ast
}

var c17Frags = []string{"é", "alt-é", "alt-ö", "ALT-λ", "日", "a", "b", "ctrl-a", "tab", "enter", "f1", "alt-x", "alt-,", "alt-", ":", ":", ",", ",", "+", "+", "up", "down",
	"toggle-down", "put", "pos", "execute", "execute-multi", "reload", "reload-sync", "preview", "preview-top", "change-header",
	"change-header-label", "change-preview", "change-multi", "change-search", "transform", "transform-query", "unbind", "rebind",
	"toggle-bind", "print", "print-query", "search", "become", "(", ")", "[", "]", "{", "}", "<", ">", "~", "!", "@", "#", "$", "%",
	"^", "&", "*", ";", "/", "|", " ", "x", "X", "EXECUTE", "Pos", "-", "_", "\\", "0", "1", ",,", ",,,", "::", ",:", "+:", ",:,"}

func c17GenStr(r *RNG) string {
	n := r.Range(0, 10)
	if r.Chance(1, 8) {
		n = r.Range(10, 30)
	}
	var sb strings.Builder
	for i := 0; i < n; i++ {
		sb.WriteString(Pick(r, c17Frags))
	}
	return sb.String()
}

func c17GenChords(r *RNG) string {
	n := r.Range(0, 5)
	parts := []string{}
	for i := 0; i < n; i++ {
		switch r.Intn(6) {
		case 0:
			parts = append(parts, Pick(r, []string{"", ",", "alt-,", "ALT-,", ":", "+", "xx", "ctrl-", "ctrl-1", "f0", "ctrl-alt-1", "Ctrl-Alt-B", "F3", "alt-"}))
		case 1:
			parts = append(parts, c17UniKey(r))
		default:
			parts = append(parts, c17Mixcase(r, Pick(r, c17KeyNames)))
		}
	}
	return strings.Join(parts, ",")
}

// a list of (mostly valid) key names for the keys check; names are repeated and re-spelt so that the SET matters
func c17GenKeyList(r *RNG) []string {
	n := r.Range(1, 4)
	if r.Chance(1, 3) {
		n = 1
	}
	ks := []string{}
	for i := 0; i < n; i++ {
		switch {
		case len(ks) > 0 && r.Chance(1, 6):
			ks = append(ks, c17Mixcase(r, Pick(r, ks)))
		case r.Chance(1, 2):
			ks = append(ks, c17UniKey(r))
		case r.Chance(1, 12):
			ks = append(ks, Pick(r, []string{"", "xx", "alt-", "ctrl-é", "alt-éé", "éé", "f0", "alt-é-"}))
		default:
			ks = append(ks, c17Mixcase(r, Pick(r, c17KeyNames)))
		}
	}
	return ks
}

func c17ValidUTF8(ss ...string) bool {
	for _, s := range ss {
		if !utf8.ValidString(s) {
			return false
		}
	}
	return true
}

// ---------------------------------------------------------------- entry

func c17Run(c *Ctx, cs c17Case) {
	switch cs.Kind {
	case "bind-ast":
		c17CheckAst(c, cs)
	case "bind-str":
		c17CheckBindStrs(c, cs, cs.Strs, false)
		c.Rep.Sample(cs)
	case "actions":
		c17CheckActions(c, cs)
	case "chords":
		c17CheckChords(c, cs)
	case "keys":
		c17CheckKeys(c, cs)
	case "color-str":
		c17CheckColorStr(c, cs)
	case "mask":
		c17CheckMask(c, cs)
	case "args", "fuzz":
		if cs.Opt != nil {
			c17CheckOpt(c, cs)
		}
	}
}

// one case from JSON (a corpus file, or a replay file whose "input" is the case), dispatched on its kind
func c17RunJSON(c *Ctx, b []byte) bool {
	var w struct{ Input json.RawMessage }
	if json.Unmarshal(b, &w) == nil && len(w.Input) > 0 {
		b = w.Input
	}
	var k struct{ Kind string }
	if json.Unmarshal(b, &k) != nil || k.Kind == "" {
		return false
	}
	switch k.Kind {
	case "override":
		var mc c17MetaCase
		if json.Unmarshal(b, &mc) != nil {
			return false
		}
		c17MetaCheck(c, mc)
	case "display":
		var dc c17DispCase
		if json.Unmarshal(b, &dc) != nil {
			return false
		}
		c17CheckDisp(c, dc)
	case "color":
		var cc c17ColorCase
		if json.Unmarshal(b, &cc) != nil {
			return false
		}
		c17CheckColor(c, cc)
	default:
		var cs c17Case
		if json.Unmarshal(b, &cs) != nil {
			return false
		}
		c17Run(c, cs)
	}
	return true
}

func runC17(c *Ctx) {
	c.Rep.Rule = "bind expressions generated from the key/action grammar (all 17 delimiter forms, arguments biased to the delimiters, '+', ',', ':' and action-looking text) plus a malformed stream of grammar fragments; key names with characters of every UTF-8 length (plain and alt-CHAR) in --bind, --expect, --toggle-sort, unbind(); --color specifications (base schemes, every colour name and spelling, colours, attributes, regular) spread over options file, environment and command line; argument vectors over the modelled option vocabulary with =/separate/optional value forms, layered over $FZF_DEFAULT_OPTS and an options file; display-mode cases (--tmux / --no-tmux / --height / --no-height dealt over three non-empty sources, padded so that word positions cross; a sample run through the fzf binary inside a stub tmux); values measured in columns (--marker-multi-line, --pointer, --marker, --scrollbar, --ellipsis) built from grapheme clusters of every display width with zero-width clusters in front, in the middle and at the end; whole-vocabulary totality fuzz (one value in seven from the same cluster alphabet). Non-trivial = parse succeeded and (bind) at least one action argument / (options) at least two options given; distinct by JSON of the case"
	if c.Replay != "" {
		if b, err := os.ReadFile(c.Replay); err == nil {
			c17RunJSON(c, b)
		}
		return
	}
	for _, f := range corpusFiles(c) {
		if b, err := os.ReadFile(f); err == nil && c17RunJSON(c, b) {
			c.Rep.Count("corpus")
		}
	}
	r := c.Rng
	for i, n := 0, c.N(2500, 60000); i < n; i++ {
		c17RunS(c, c17Case{Kind: "bind-ast", Ast: c17GenAst(r, r.Chance(3, 4))})
	}
	for i, n := 0, c.N(1500, 40000); i < n; i++ {
		ns := 1
		if r.Chance(1, 5) {
			ns = 2
		}
		strs := []string{}
		for j := 0; j < ns; j++ {
			strs = append(strs, c17GenStr(r))
		}
		c17Run(c, c17Case{Kind: "bind-str", Strs: strs})
	}
	for i, n := 0, c.N(500, 10000); i < n; i++ {
		c17Run(c, c17Case{Kind: "actions", Strs: []string{strings.TrimLeft(c17GenStr(r), ":")}})
		c17Run(c, c17Case{Kind: "chords", Strs: []string{c17GenChords(r)}})
		c17RunS(c, c17Case{Kind: "keys", Strs: c17GenKeyList(r)})
		c17Run(c, c17Case{Kind: "mask", Strs: []string{c17GenStr(r)}})
	}
	c17RunOpts(c)
	c17RunMode(c)
	c17RunDisp(c)
	c17RunMeta(c)
	c17RunColor(c)
}

func init() { runners["C17"] = runC17 }
