package main

// C12, "the same holds for the argument and environment re-quoting used to re-launch fzf inside tmux".
//
//   kind relaunch : the fzf binary built from the working tree is started as `fzf --tmux ...` with $TMUX / $TMUX_PANE set, a
//          generated command line (hostile option values) and a generated environment (hostile values: further '=' signs,
//          quotes, $, backticks, backslashes, newlines, blanks, empty; realistic ones such as LS_COLORS; exported bash
//          functions).  Two stand-ins observe what happens, no tmux server and no terminal are needed:
//            tmux  (first in $PATH): what `tmux display-popup -E ... SH SCRIPT` does, as a popup started by the tmux
//                  server would: runs `SH SCRIPT` with an EMPTY environment (env -i, $PATH kept); it also keeps a copy of
//                  the script
//            argv[0] of the outer fzf: a recorder program; the script re-launches "fzf" by that name, so the recorder
//                  receives exactly the argv and the environment the re-launched fzf would receive, and writes them down
//                  (/proc/$$/environ: the environment block as passed to exec)
//          spec : relaunch_runs_fzf           the script reaches the re-launched fzf at all
//                 relaunch_args_roundtrip     argv[0] and the whole original command line arrive as the same words, in order
//                                             (fzf adds options of its own around them)
//                 relaunch_env_roundtrip      every entry NAME=value of the outer environment that a shell can hold (Coq spec
//                                             exportable, op 1219; TMUX_PANE excepted by design) arrives with exactly its value
//                 relaunch_bash_function_roundtrip  every exported bash function arrives as the same BASH_FUNC_name%% entry
//                                             (reference: bash's own export / import of that function is a fixed point)
//          corr : the script's lines before the command == model proxy_exports over the environment given (op 1222)
//   Runs are made in parallel (observation only); judging is sequential; a failing observation is repeated before it is
//   reported.

import (
	"bytes"
	"context"
	"encoding/json"
	"fmt"
	"os"
	"os/exec"
	"path/filepath"
	"strings"
	"sync"
	"time"
)

type c12RelaunchObs struct {
	infra     string
	crash     string
	stderr    string
	code      int
	outerEnv  []string // the environment the outer fzf was given, in order
	funcEnv   []string // BASH_FUNC_ entries among them (reference form)
	funcSkip  []string // functions bash itself does not hand on unchanged (not judged)
	tmuxRan   bool
	script    string
	recRan    bool
	rec       string // the recorder's path = argv[0]
	innerArgv []string
	innerEnv  map[string]string
	innerRaw  []string
}

// The stand-ins are written once, before any run (an executable that is still open for writing in a forked child cannot
// be started: ETXTBSY); they find the run's directory as their working directory (a popup starts in the directory given
// with -d, which is the outer fzf's).
const c12TmuxStandIn = `#!/bin/sh
# stand-in for: tmux display-popup -E -d DIR [-B] -x.. -y.. -w.. -h.. SH SCRIPT
[ "$1" = display-popup ] || exit 1
for a; do sh=$script; script=$a; done
cp "$script" ./script
exec env -i PATH="$PATH" "$sh" "$script"
`

const c12Recorder = `#!/bin/sh
# stands where the re-launched fzf stands: writes down what it was given
cat /proc/$$/environ > ./env
printf '%s\0' "$0" "$@" > ./argv
cat > /dev/null
`

var (
	c12StandInOnce sync.Once
	c12StandInDir  string
	c12StandInErr  error
)

func c12StandIns(c *Ctx) (string, error) {
	c12StandInOnce.Do(func() {
		dir := filepath.Join(c.Work, "c12-standins")
		c12StandInErr = os.MkdirAll(filepath.Join(dir, "bin"), 0755)
		if c12StandInErr == nil {
			c12StandInErr = os.WriteFile(filepath.Join(dir, "bin", "tmux"), []byte(c12TmuxStandIn), 0755)
		}
		if c12StandInErr == nil {
			c12StandInErr = os.WriteFile(filepath.Join(dir, "fzf"), []byte(c12Recorder), 0755)
		}
		c12StandInDir = dir
	})
	return c12StandInDir, c12StandInErr
}

// the exported form of a function: what bash puts into the environment for  name() { body; }
func c12BashFuncEntry(dir string, f c12Func) (string, bool) {
	ctx, cancel := context.WithTimeout(context.Background(), 20*time.Second)
	defer cancel()
	cmd := exec.CommandContext(ctx, "bash", "-c", "function "+f.Name+" { "+f.Body+"\n}; export -f "+f.Name+"; cat /proc/self/environ")
	cmd.Dir = dir
	cmd.Env = []string{"PATH=/usr/bin:/bin"}
	out, err := cmd.Output()
	if err != nil {
		return "", false
	}
	entry := ""
	for _, e := range strings.Split(string(out), "\x00") {
		if strings.HasPrefix(e, "BASH_FUNC_"+f.Name+"%%=") {
			entry = e
		}
	}
	if entry == "" {
		return "", false
	}
	// the reference: bash imports the entry and exports it again unchanged
	ctx2, cancel2 := context.WithTimeout(context.Background(), 20*time.Second)
	defer cancel2()
	cmd2 := exec.CommandContext(ctx2, "bash", "-c", "cat /proc/self/environ")
	cmd2.Dir = dir
	cmd2.Env = []string{"PATH=/usr/bin:/bin", entry}
	out2, err := cmd2.Output()
	if err != nil {
		return entry, false
	}
	for _, e := range strings.Split(string(out2), "\x00") {
		if e == entry {
			return entry, true
		}
	}
	return entry, false
}

func c12RunRelaunch(c *Ctx, cs c12Case) (o c12RelaunchObs) {
	if c.Fzf == "" {
		o.infra = "no fzf binary"
		return
	}
	dir, err := os.MkdirTemp(c.Work, "rl")
	if err != nil {
		o.infra = "mkdir: " + err.Error()
		return
	}
	defer os.RemoveAll(dir)
	os.Mkdir(filepath.Join(dir, "tmp"), 0755)
	sdir, err := c12StandIns(c)
	if err != nil {
		o.infra = "cannot write the stand-ins: " + err.Error()
		return
	}
	o.rec = filepath.Join(sdir, "fzf")
	env := []string{"PATH=" + filepath.Join(sdir, "bin") + ":/usr/bin:/bin", "TERM=xterm-256color", "TMPDIR=" + filepath.Join(dir, "tmp"),
		"TMUX=/tmp/tmux-1000/default,4242,0", "TMUX_PANE=%0"}
	env = append(env, cs.Env...)
	for _, f := range cs.Funcs {
		e, ok := c12BashFuncEntry(dir, f)
		if e == "" || !ok {
			o.funcSkip = append(o.funcSkip, f.Name)
			continue
		}
		env = append(env, e)
		o.funcEnv = append(o.funcEnv, e)
	}
	o.outerEnv = env
	ctx, cancel := context.WithTimeout(context.Background(), 30*time.Second)
	defer cancel()
	cmd := exec.CommandContext(ctx, c.Fzf)
	cmd.Args = append([]string{o.rec}, cs.Args...) // the outer fzf re-launches os.Args[0]
	cmd.Dir = dir
	cmd.Env = env
	cmd.Stdin = strings.NewReader("one\ntwo\nthree\n")
	var out, errb bytes.Buffer
	cmd.Stdout = &out
	cmd.Stderr = &errb
	err = cmd.Run()
	if ctx.Err() != nil {
		o.infra = "timeout: fzf --tmux did not return within 30 s"
		return
	}
	if err != nil {
		if ee, ok := err.(*exec.ExitError); ok {
			o.code = ee.ExitCode()
		} else {
			o.infra = "start: " + err.Error()
			return
		}
	}
	o.stderr = errb.String()
	if i := strings.Index(o.stderr, "panic:"); i >= 0 {
		o.crash = o.stderr[i:]
		if len(o.crash) > 600 {
			o.crash = o.crash[:600]
		}
	}
	if b, err := os.ReadFile(filepath.Join(dir, "script")); err == nil {
		o.tmuxRan = true
		o.script = string(b)
	}
	if b, err := os.ReadFile(filepath.Join(dir, "argv")); err == nil {
		o.recRan = true
		toks := strings.Split(string(b), "\x00")
		o.innerArgv = toks[:len(toks)-1]
	}
	if b, err := os.ReadFile(filepath.Join(dir, "env")); err == nil {
		o.innerEnv = map[string]string{}
		for _, e := range strings.Split(string(b), "\x00") {
			if e == "" {
				continue
			}
			o.innerRaw = append(o.innerRaw, e)
			if i := strings.Index(e, "="); i >= 0 {
				o.innerEnv[e[:i]] = e[i+1:]
			}
		}
	} else {
		o.recRan = false
	}
	return
}

// index of the first occurrence of sub in s as a contiguous block, or -1
func c12FindBlock(s, sub []string) int {
	for i := 0; i+len(sub) <= len(s); i++ {
		if c12SameWords(s[i:i+len(sub)], sub) {
			return i
		}
	}
	return -1
}

func (s *c12State) judgeRelaunch(cs c12Case, o c12RelaunchObs) (*Disagreement, bool) {
	rep := s.c.Rep
	if o.crash != "" {
		return &Disagreement{Kind: "spec", Name: "no_crash", Input: cs, Impl: o.crash, Expect: "no panic"}, false
	}
	if o.infra != "" {
		rep.Count("relaunch:not_judged(" + strings.SplitN(o.infra, ":", 2)[0] + ")")
		return nil, false
	}
	if !o.tmuxRan {
		// fzf did not take the tmux path: the command line was rejected (an option value it does not accept) - not a verdict
		rep.Count("relaunch:not_judged(fzf did not start tmux)")
		rep.Extra["relaunch_not_started"] = fmt.Sprintf("args %q: exit %d, %s", cs.Args, o.code, strings.TrimSpace(o.stderr))
		return nil, false
	}
	// corr: the lines of the script before the command == model
	mv := s.c.Model.Call(1222, L(Strs(o.outerEnv), Bytes("")))
	if mv.IsList && len(mv.L) == 2 && mv.L[0].IsList {
		pre := strings.TrimSuffix(mv.L[0].Str(), "\n") // the model's script with an empty command: lines + "\n" + "" + "\n"
		if !strings.HasPrefix(o.script, pre) {
			s.corr(Disagreement{Kind: "corr", Name: "corr:C12.proxy_exports", Input: cs, Impl: o.script, Expect: pre})
		}
	} else {
		s.corr(Disagreement{Kind: "corr", Name: "corr:C12.proxy_exports", Input: cs, Impl: o.script, Expect: mv.String()})
	}
	impl := map[string]interface{}{"script": o.script, "stderr": strings.TrimSpace(o.stderr)}
	rep.SpecChecks++
	if !o.recRan {
		impl["observed"] = "the script did not start the re-launched fzf"
		return &Disagreement{Kind: "spec", Name: "relaunch_runs_fzf", Input: cs, Impl: impl,
			Expect: "the script re-exports the environment and runs argv[0] with the original arguments"}, false
	}
	// arguments
	rep.SpecChecks++
	rep.Count("relaunch:args_checks")
	if len(o.innerArgv) < 1 || o.innerArgv[0] != o.rec || c12FindBlock(o.innerArgv[1:], cs.Args) < 0 {
		impl["argv"] = o.innerArgv
		return &Disagreement{Kind: "spec", Name: "relaunch_args_roundtrip", Input: cs, Impl: impl,
			Expect: map[string]interface{}{"argv[0]": o.rec, "then, in order and next to each other": cs.Args}}, false
	}
	// environment: every exportable entry arrives unchanged
	isFunc := map[string]bool{}
	for _, e := range o.funcEnv {
		isFunc[e] = true
	}
	meta := false
	for _, e := range o.outerEnv {
		if isFunc[e] {
			continue
		}
		v := s.c.Model.Call(1219, Bytes(e)) // spec: [exportable, name, [value]]
		if !v.IsList || len(v.L) != 3 || v.L[0].I == 0 || len(v.L[2].L) != 1 {
			rep.Count("relaunch:entries_not_exportable")
			continue
		}
		name, value := v.L[1].Str(), v.L[2].L[0].Str()
		rep.SpecChecks++
		rep.Count("relaunch:env_checks")
		got, ok := o.innerEnv[name]
		if !ok || got != value {
			impl["variable"] = name
			if ok {
				impl["arrived_as"] = got
			} else {
				impl["arrived_as"] = "(not in the environment of the re-launched fzf)"
			}
			return &Disagreement{Kind: "spec", Name: "relaunch_env_roundtrip", Input: cs, Impl: impl, Expect: e}, false
		}
		meta = meta || c12HasMeta(value) || strings.Contains(value, "=")
		for i := 0; i < len(value); i++ {
			s.envBytes[value[i]] = true
		}
	}
	for _, e := range o.funcEnv {
		rep.SpecChecks++
		rep.Count("relaunch:bash_function_checks")
		found := false
		for _, g := range o.innerRaw {
			found = found || g == e
		}
		if !found {
			impl["function"] = e
			impl["inner_environment"] = o.innerRaw
			return &Disagreement{Kind: "spec", Name: "relaunch_bash_function_roundtrip", Input: cs, Impl: impl, Expect: e}, false
		}
		meta = true
	}
	for range o.funcSkip {
		rep.Count("relaunch:functions_not_judged(bash itself changes them)")
	}
	return nil, meta
}

func (s *c12State) relaunchOne(cs c12Case, first *c12RelaunchObs) {
	rep := s.c.Rep
	var o c12RelaunchObs
	if first != nil {
		o = *first
	} else {
		o = c12RunRelaunch(s.c, cs)
	}
	rep.ImplTraces++
	d, nontrivial := s.judgeRelaunch(cs, o)
	// a failing observation is made again, twice, alone: reported only when it fails every time
	for try := 0; d != nil && try < 2; try++ {
		rep.Count("relaunch:retries")
		o = c12RunRelaunch(s.c, cs)
		d, nontrivial = s.judgeRelaunch(cs, o)
	}
	if d == nil && o.infra != "" && first != nil {
		o = c12RunRelaunch(s.c, cs)
		d, nontrivial = s.judgeRelaunch(cs, o)
	}
	if d != nil {
		s.rlFails++
		rep.Disagreement(*d)
	}
	key, _ := json.Marshal(cs)
	rep.Eval(string(key), nontrivial)
	rep.Sample(cs)
	rep.Count("kind=relaunch")
	if len(cs.Funcs) > 0 {
		rep.Count("relaunch:with_bash_functions")
	}
}

func (s *c12State) runRelaunchBatch(cases []c12Case) {
	const chunk = 32
	c12StandIns(s.c) // before any parallel run
	for lo := 0; lo < len(cases); lo += chunk {
		if s.rlFails >= 3 {
			s.c.Rep.Count("relaunch:skipped_after_3_failures")
			return
		}
		hi := lo + chunk
		if hi > len(cases) {
			hi = len(cases)
		}
		obs := make([]c12RelaunchObs, hi-lo)
		var wg sync.WaitGroup
		sem := make(chan struct{}, 8)
		for i := lo; i < hi; i++ {
			wg.Add(1)
			sem <- struct{}{}
			go func(i int) {
				defer wg.Done()
				defer func() { <-sem }()
				obs[i-lo] = c12RunRelaunch(s.c, cases[i])
			}(i)
		}
		wg.Wait()
		for i := lo; i < hi; i++ {
			s.relaunchOne(cases[i], &obs[i-lo])
		}
	}
}

// ---- generators ----

// names a shell can hold that no shell treats specially
func c12EnvName(r *RNG, used map[string]bool) string {
	for {
		var n string
		switch r.Intn(6) {
		case 0:
			n = Pick(r, []string{"LS_COLORS", "GREP_COLORS", "LESSOPEN", "EDITOR", "FZF_CTRL_T_OPTS", "FZF_ALT_C_COMMAND", "XDG_DATA_DIRS", "JAVA_OPTS", "DOCKER_HOST", "LESS"})
		case 1:
			n = "_c12" + string(rune('a'+r.Intn(26)))
		case 2:
			n = "c12_" + Pick(r, []string{"x", "kv", "Opts", "v9", "_", "__a"})
		default:
			n = "C12_" + Pick(r, []string{"KV", "OPTS", "EXPR", "TRAIL", "META", "NL", "EMPTY", "A", "B1", "Z_9", "PLAIN", "Q"}) + Pick(r, []string{"", "", "_2", "x"})
		}
		if !used[n] {
			used[n] = true
			return n
		}
	}
}

var c12EnvRealistic = []string{
	"rs=0:di=01;34:ln=01;36:mh=00:pi=40;33:*.tar=01;31:*.jpg=01;35",
	"ms=01;31:mc=01;31:sl=:cx=:fn=35:ln=32:bn=32:se=36",
	"| /usr/bin/lesspipe %s",
	"--height=40% --bind=ctrl-a:accept --prompt='a=b> '",
	"-Xmx2g -Dfile.encoding=UTF-8 -Duser.home=/home/u",
	"if [ \"$a\" = 'b' ]; then x=1; fi",
	"key=value", "trailing=", "=leading", "==", "=", "a=b=c=d", "k='v w'", "vim -c 'set nu'", "tcp://127.0.0.1:2375",
	"fd --type=f --exclude='*.o'", "PATH=/evil:$PATH", "x=$(id)", "a=`id`", "a=b\nc=d",
}

func c12EnvValue(r *RNG, n int) string {
	switch r.Intn(10) {
	case 0:
		return ""
	case 1, 2, 3:
		return Pick(r, c12EnvRealistic)
	case 4, 5: // hostile text around '=' signs
		return c12Text(r, -1, 4) + "=" + c12Text(r, n, 5) + Pick(r, []string{"", "=", "=" + c12Text(r, -1, 3)})
	default:
		return c12Text(r, n, 12)
	}
}

// option / value pairs every fzf accepts with any string value
var c12FreeOpts = []string{"--prompt", "--header", "--query", "-q", "--border-label", "--preview-label", "--preview", "--ghost", "--with-shell", "--info-command", "--list-label", "--input-label", "--header-label"}
var c12FlagOpts = []string{"--multi", "--no-sort", "--cycle", "--ansi", "-i", "+s", "--reverse", "--no-mouse", "--exact", "--border", "--wrap", "--highlight-line"}
var c12FixedOpts = [][]string{{"--bind=ctrl-a:accept"}, {"--bind=ctrl-x:execute(echo 'it''s' {} > /dev/null)"}, {"--bind=f1:change-prompt(a=b> )"},
	{"--bind", "ctrl-y:execute-silent(printf '%s\\n' \"$x\" {q})"}, {"--preview=cat {}"}, {"--color=fg:#d0d0d0,bg:-1"}, {"--preview-window=right,50%"},
	{"--delimiter=="}, {"-d", ":"}, {"--tabstop=4"}, {"--bind", "enter:become(vim {1} +{2})"}, {"--nth", "2..,-1"}}

func c12GenRelaunch(r *RNG, n int) c12Case {
	cs := c12Case{Kind: "relaunch"}
	tm := Pick(r, []string{"--tmux", "--tmux", "--tmux=center", "--tmux=bottom,40%", "--tmux=left,30%", "--tmux=top,30%,border-native", "--tmux=80%,60%", "--tmux=right"})
	na := Pick(r, []int{0, 1, 1, 2, 3, 4})
	for i := 0; i < na; i++ {
		switch r.Intn(8) {
		case 0:
			cs.Args = append(cs.Args, Pick(r, c12FlagOpts))
		case 1:
			cs.Args = append(cs.Args, Pick(r, c12FixedOpts)...)
		default:
			o := Pick(r, c12FreeOpts)
			v := c12Text(r, n+i, 8)
			if r.Chance(1, 5) {
				v = Pick(r, []string{"", "a=b 'c' $d> ", "it's", "$(id)", "`id`", "a\\", "\"q\"", "x y", "*", "~", "line1\nline2"})
			}
			if strings.HasPrefix(o, "--") && r.Chance(1, 3) {
				cs.Args = append(cs.Args, o+"="+v)
			} else {
				cs.Args = append(cs.Args, o, v)
			}
		}
	}
	// --tmux somewhere on the command line; written bare it must not be followed by a value of another option
	// (a following word that does not start with - or + would be taken as its argument)
	pos := len(cs.Args)
	if strings.Contains(tm, "=") && r.Bool() {
		// a position that does not split an option from its value: the front
		pos = 0
	}
	cs.Args = append(cs.Args[:pos:pos], append([]string{tm}, cs.Args[pos:]...)...)
	// environment
	used := map[string]bool{}
	ne := Pick(r, []int{0, 1, 2, 3, 4, 6})
	for i := 0; i < ne; i++ {
		cs.Env = append(cs.Env, c12EnvName(r, used)+"="+c12EnvValue(r, n+i))
	}
	if r.Chance(1, 5) { // options fzf reads from the environment: they must reach the popup too
		cs.Env = append(cs.Env, "FZF_DEFAULT_OPTS="+Pick(r, []string{"--no-mouse --bind=ctrl-a:accept --prompt='a=b> '", "--cycle", "--header='x=y'", ""}))
	}
	if r.Chance(1, 5) {
		cs.Env = append(cs.Env, "FZF_DEFAULT_COMMAND="+Pick(r, []string{"printf 'a=b\\n'", "find . -name '*.go'", "echo \"$HOME\"", "x=1; echo $x"}))
	}
	if r.Chance(1, 8) { // names a shell cannot hold are not handed on; they must not disturb the others
		cs.Env = append(cs.Env, Pick(r, []string{"a.b=c", "1x=y", "a-b=c=d", "é=x"}))
	}
	if r.Chance(1, 6) {
		nf := r.Range(1, 2)
		for i := 0; i < nf; i++ {
			name := Pick(r, []string{"c12fn", "_f", "c12_fn2", "F", "c12-fn", "c12.fn"}) + fmt.Sprint(i)
			stmts := []string{}
			for k := r.Range(1, 3); k > 0; k-- {
				stmts = append(stmts, Pick(r, []string{"x=1", "local v='k=v'", "echo \"a=b $1\"", "printf '%s\\n' 'it'\\''s'", "if [ \"$1\" = x ]; then echo y; fi",
					"y=$(echo z)", "echo `echo q`", "for i in 1 2; do :; done", "echo \"$HOME\" \\\\ '*'", "[[ $1 == a* ]] && return 0", "echo 'two\nlines'", ":"}))
			}
			cs.Funcs = append(cs.Funcs, c12Func{Name: name, Body: strings.Join(stmts, "; ")})
		}
	}
	return cs
}
