package main

import (
	"bufio"
	"fmt"
	"io"
	"os"
	"os/exec"
	"strconv"
	"strings"
	"sync"
)

// Val mirrors coq/base/Val.v: an integer or a list.
type Val struct {
	IsList bool
	I      int64
	L      []Val
}

func I(i int) Val       { return Val{I: int64(i)} }
func I64(i int64) Val   { return Val{I: i} }
func L(vs ...Val) Val   { if vs == nil { vs = []Val{} }; return Val{IsList: true, L: vs} }
func B(b bool) Val      { if b { return I(1) }; return I(0) }
func Bytes(s string) Val {
	vs := make([]Val, len(s))
	for i := 0; i < len(s); i++ {
		vs[i] = I(int(s[i]))
	}
	return L(vs...)
}
func Runes(rs []rune) Val {
	vs := make([]Val, len(rs))
	for i, r := range rs {
		vs[i] = I(int(r))
	}
	return L(vs...)
}
func Ints(xs []int) Val {
	vs := make([]Val, len(xs))
	for i, r := range xs {
		vs[i] = I(r)
	}
	return L(vs...)
}
func Strs(ss []string) Val {
	vs := make([]Val, len(ss))
	for i, s := range ss {
		vs[i] = Bytes(s)
	}
	return L(vs...)
}

func (v Val) write(b *strings.Builder) {
	if !v.IsList {
		b.WriteString(strconv.FormatInt(v.I, 10))
		return
	}
	b.WriteByte('(')
	for i, x := range v.L {
		if i > 0 {
			b.WriteByte(' ')
		}
		x.write(b)
	}
	b.WriteByte(')')
}
func (v Val) String() string { var b strings.Builder; v.write(&b); return b.String() }

// Coq syntax for cases.v
func (v Val) coq(b *strings.Builder) {
	if !v.IsList {
		if v.I < 0 {
			fmt.Fprintf(b, "VI (%d)", v.I)
		} else {
			fmt.Fprintf(b, "VI %d", v.I)
		}
		return
	}
	b.WriteString("VL [")
	for i, x := range v.L {
		if i > 0 {
			b.WriteString("; ")
		}
		x.coq(b)
	}
	b.WriteString("]")
}

func (v Val) Equal(w Val) bool {
	if v.IsList != w.IsList {
		return false
	}
	if !v.IsList {
		return v.I == w.I
	}
	if len(v.L) != len(w.L) {
		return false
	}
	for i := range v.L {
		if !v.L[i].Equal(w.L[i]) {
			return false
		}
	}
	return true
}

func (v Val) Str() string { // list of ints -> bytes
	b := make([]byte, len(v.L))
	for i, x := range v.L {
		b[i] = byte(x.I)
	}
	return string(b)
}
func (v Val) RuneStr() string {
	r := make([]rune, len(v.L))
	for i, x := range v.L {
		r[i] = rune(x.I)
	}
	return string(r)
}
func (v Val) IntList() []int {
	r := make([]int, len(v.L))
	for i, x := range v.L {
		r[i] = int(x.I)
	}
	return r
}

func parseVal(s string) (Val, error) {
	i := 0
	var rec func() (Val, error)
	rec = func() (Val, error) {
		for i < len(s) && s[i] == ' ' {
			i++
		}
		if i >= len(s) {
			return Val{}, fmt.Errorf("eof")
		}
		if s[i] == '(' {
			i++
			out := []Val{}
			for {
				for i < len(s) && s[i] == ' ' {
					i++
				}
				if i >= len(s) {
					return Val{}, fmt.Errorf("unclosed")
				}
				if s[i] == ')' {
					i++
					return Val{IsList: true, L: out}, nil
				}
				v, err := rec()
				if err != nil {
					return Val{}, err
				}
				out = append(out, v)
			}
		}
		st := i
		if s[i] == '-' {
			i++
		}
		for i < len(s) && s[i] >= '0' && s[i] <= '9' {
			i++
		}
		n, err := strconv.ParseInt(s[st:i], 10, 64)
		if err != nil {
			return Val{}, err
		}
		return Val{I: n}, nil
	}
	return rec()
}

// ---- model driver pool ----

type driver struct {
	cmd *exec.Cmd
	in  io.WriteCloser
	out *bufio.Reader
}

type Model struct {
	path string
	mu   sync.Mutex
	free []*driver
	// sampled requests for the in-Coq cross-check
	sampleMu sync.Mutex
	samples  []coqCase
	seen     int
	Calls    int64
}

type coqCase struct {
	op   int
	arg  Val
	want Val
}

func NewModel(path string) *Model { return &Model{path: path} }

func (m *Model) get() (*driver, error) {
	m.mu.Lock()
	if n := len(m.free); n > 0 {
		d := m.free[n-1]
		m.free = m.free[:n-1]
		m.mu.Unlock()
		return d, nil
	}
	m.mu.Unlock()
	cmd := exec.Command(m.path)
	cmd.Stderr = os.Stderr
	in, err := cmd.StdinPipe()
	if err != nil {
		return nil, err
	}
	out, err := cmd.StdoutPipe()
	if err != nil {
		return nil, err
	}
	if err := cmd.Start(); err != nil {
		return nil, err
	}
	return &driver{cmd: cmd, in: in, out: bufio.NewReaderSize(out, 1<<20)}, nil
}

func (m *Model) put(d *driver) { m.mu.Lock(); m.free = append(m.free, d); m.mu.Unlock() }

// Call evaluates dispatch op arg in the extracted model.
func (m *Model) Call(op int, arg Val) Val {
	d, err := m.get()
	if err != nil {
		panic(err)
	}
	var b strings.Builder
	b.WriteString(strconv.Itoa(op))
	b.WriteByte(' ')
	arg.write(&b)
	b.WriteByte('\n')
	if _, err := io.WriteString(d.in, b.String()); err != nil {
		panic(fmt.Sprintf("model driver write: %v", err))
	}
	line, err := d.out.ReadString('\n')
	if err != nil {
		// driver died (stack overflow / OOM): report as model error, start a new one next time
		d.cmd.Process.Kill()
		d.cmd.Wait()
		return L(I(-9))
	}
	m.put(d)
	v, err := parseVal(strings.TrimRight(line, "\n"))
	if err != nil {
		panic(fmt.Sprintf("model driver answer %q: %v", line, err))
	}
	m.sampleMu.Lock()
	m.Calls++
	m.seen++
	// reservoir-free deterministic sampling: keep small cases, every k-th
	failed := v.IsList && len(v.L) == 1 && !v.L[0].IsList && (v.L[0].I == -2 || v.L[0].I == -9) // driver stack overflow / died: not an answer
	if !failed && len(b.String()) < 4000 && (m.seen%coqSampleEvery == 0 || len(m.samples) < 20) && len(m.samples) < coqSampleMax {
		m.samples = append(m.samples, coqCase{op, arg, v})
	}
	m.sampleMu.Unlock()
	return v
}

var coqSampleEvery = 100
var coqSampleMax = 300

func (m *Model) Close() {
	m.mu.Lock()
	defer m.mu.Unlock()
	for _, d := range m.free {
		d.in.Close()
		d.cmd.Wait()
	}
	m.free = nil
}

// WriteCoqCases writes a cases.v that re-evaluates the sampled requests inside Coq.
func (m *Model) WriteCoqCases(path string) (int, error) {
	var b strings.Builder
	b.WriteString("From Fzf Require Import Prelude Val Dispatch.\nOpen Scope Z_scope.\nDefinition cases : list (Z * val * val) := [\n")
	for i, c := range m.samples {
		if i > 0 {
			b.WriteString(";\n")
		}
		fmt.Fprintf(&b, "(%d, ", c.op)
		c.arg.coq(&b)
		b.WriteString(", ")
		c.want.coq(&b)
		b.WriteString(")")
	}
	b.WriteString("].\nDefinition M := Eval vm_compute in mismatches cases.\nPrint M.\n")
	// the same requests in wire syntax, so that a mismatch can be re-asked of a fresh driver process
	var j strings.Builder
	j.WriteString("[")
	for i, c := range m.samples {
		if i > 0 {
			j.WriteString(",\n")
		}
		fmt.Fprintf(&j, "{\"op\":%d,\"arg\":%q,\"want\":%q}", c.op, c.arg.String(), c.want.String())
	}
	j.WriteString("]\n")
	os.WriteFile(path+".json", []byte(j.String()), 0644)
	return len(m.samples), os.WriteFile(path, []byte(b.String()), 0644)
}
