package main

// C14 (I) — jump mode.  `jump` / `jump-accept` put a label from --jump-labels in front of every visible item and the next
// key picks one.  The robustness stream (D) posts `jump` now and then, but always with the default labels (96 of them), so
// the side of the comparison "more visible items than labels" needs a list window of more than 96 rows with that many
// items: it was never produced.  What decides which branch the renderer and the key handler take here is the ORDER of
// three numbers -- visible rows of the list, number of matching items, number of labels -- so this stream draws them around
// each other:
//
//	labels   --jump-labels of length 1..40 (random printable ASCII, duplicates allowed) or the default 96
//	rows     the screen is as tall as the labels need, -3..+5 rows (borders, header, preview, --height on top of that)
//	items    0, 1, labels-1, labels, labels+1, labels+2, 2*labels+1, rows, 3*rows, 500 (one-line, long, wide, multi-line)
//	options  the layout pool of the mouse stream + pointer / marker of width 0, 1, 2, --gap, --wrap, --multi, bindings of the
//	         jump and jump-cancel events (toggle, down, reload, re-enter jump, accept)
//
// A round: jump mode is entered (typed key bound to jump / jump-accept, or a posted action list that ends in one, after
// moving the cursor / the offset), the harness waits until the frame WITH the labels is on the terminal (eventually: the
// input queue is empty and the output has been quiet; nothing may be POSTed or asked meanwhile -- any action list that
// arrives through --listen, the GET included, leaves jump mode), then something happens while the labels are up (a resize
// that makes the list shorter / longer than the labels, a mouse report, a posted action) and the mode is left by a label
// (first, last, the one of the last visible row, one past it, any), a key that is no label, an arrow, a mouse click or
// another jump.  Between rounds the list is reloaded to another length around the number of labels / rows.
//
// Run through c14Robust: no panic / fatal error text on the terminal, GET / keeps answering, and the exit (by jump-accept,
// by a bound accept, or the case's own) leaves modes / termios / TMPDIR / process table clean.
//
// The model side: the label look-up of printItem and the index test of the key handler are restated in
// coq/model/JumpModel.v with checked accesses and proved never to leave the label string / the visible rows
// (jump_label_in_bounds, jump_pick_in_bounds; jump_guard_needed: with `<=` in the guard the look-up fails exactly when
// there are more visible items than labels).  Op 1413 evaluates the model on random geometries (c14JumpModel).

import (
	"bytes"
	"fmt"
	"os"
	"strings"
	"time"
)

const c14DefaultJumpLabels = "asdfghjklqwertyuiopzxcvbnm1234567890ASDFGHJKLQWERTYUIOPZXCVBNM`~;:,<.>/?'\"!@#$%^&*()[{]}-_=+"

// c14Settle: eventually (bounded by `limit`) fzf has read what was typed and has written nothing for `quiet`.
// Nothing is sent to fzf (a GET would leave jump mode).
func c14Settle(s *Session, slave *os.File, quiet, limit time.Duration) {
	deadline := time.Now().Add(limit)
	c14WaitTaken(s, slave, limit)
	last := len(s.Screen())
	since := time.Now()
	for time.Now().Before(deadline) && !s.Exited() {
		time.Sleep(2 * time.Millisecond)
		if n := len(s.Screen()); n != last {
			last, since = n, time.Now()
		} else if time.Since(since) >= quiet {
			return
		}
	}
}

func c14JumpLabels(r *RNG) string {
	if r.Chance(1, 6) {
		return c14DefaultJumpLabels
	}
	n := Pick(r, []int{1, 1, 2, 2, 3, 3, 4, 5, 6, 8, 12, 20, 40})
	var b strings.Builder
	for i := 0; i < n; i++ {
		switch r.Intn(6) {
		case 0:
			b.WriteByte(byte(r.Range(33, 126))) // any printable ASCII
		case 1:
			b.WriteByte(byte('0' + r.Intn(10)))
		default:
			b.WriteByte(byte('a' + r.Intn(26)))
		}
	}
	return b.String()
}

func c14JumpInput(r *RNG, n int, nul bool) []byte {
	var in bytes.Buffer
	for i := 1; i <= n; i++ {
		switch {
		case r.Chance(1, 15):
			fmt.Fprintf(&in, "%d %s", i, strings.Repeat("long ", r.Range(20, 80)))
		case r.Chance(1, 15):
			fmt.Fprintf(&in, "%d 漢字 ｗｉｄｅ", i)
		case nul && r.Chance(1, 3):
			fmt.Fprintf(&in, "%d first\nsecond\nthird", i)
		default:
			fmt.Fprintf(&in, "%d", i)
		}
		if nul {
			in.WriteByte(0)
		} else {
			in.WriteByte('\n')
		}
	}
	return in.Bytes()
}

// how many items: around the number of labels and the number of rows
func c14JumpCount(r *RNG, labels, rows int) int {
	return c14Clamp1(Pick(r, []int{0, 1, labels - 1, labels, labels + 1, labels + 1, labels + 2, labels + 3, 2*labels + 1, rows - 2, rows, 3 * rows, 500}))
}

func c14GenJump(r *RNG, i int) c14Case {
	cs := c14Case{Kind: "robust", Profile: "jump"}
	labels := c14JumpLabels(r)
	nl := len(labels)
	cs.Rows = max(1, nl+2+Pick(r, []int{-3, -2, -1, 0, 1, 1, 2, 2, 3, 4, 5}))
	if r.Chance(1, 8) {
		cs.Rows = Pick(r, []int{2, 3, 5, 10, 24, 50})
	}
	cs.Cols = Pick(r, []int{6, 20, 40, 80, 80})
	cs.Args = []string{"--jump-labels=" + labels}
	if labels == c14DefaultJumpLabels && r.Bool() {
		cs.Args = []string{} // the default, not given
	}
	if r.Chance(2, 5) {
		cs.Args = append(cs.Args, c14MouseOpts(r)...)
	}
	extra := [][]string{{"--pointer="}, {"--pointer=>>"}, {"--pointer=漢"}, {"--marker="}, {"--marker=>>", "--multi"}, {"--pointer=", "--marker="}, {"--gap"}, {"--gap=2"}, {"--wrap"}, {"--multi"},
		{"--read0"}, {"--highlight-line"}, {"--no-color"}, {"--ansi"}, {"--tac"}, {"--cycle"}, {"--scroll-off=0"}, {"--scroll-off=100"}, {"--no-scrollbar"}, {"--header-lines=1"}, {"--no-input"},
		{"--info=inline"}, {"--info=hidden"}, {"--reverse"}, {"--layout=reverse-list"}, {"--height=100%"}, {"--height=~100%"}, {"--no-multi-line"}}
	for k := r.Range(0, 2); k > 0; k-- {
		cs.Args = append(cs.Args, Pick(r, extra)...)
	}
	// ctrl-t (0x14) enters jump mode, ctrl-y (0x19) jump-accept mode; what the jump / jump-cancel events do is random
	bind := "--bind=ctrl-t:jump,ctrl-y:jump-accept"
	hdrLines := false // --header-lines with a reload: the recorded dead-lock c14-headerlines-reload-deadlock is not this stream's business
	for _, a := range cs.Args {
		if strings.HasPrefix(a, "--header-lines") {
			hdrLines = true
		}
	}
	if r.Chance(1, 3) {
		bind += "," + Pick(r, []string{"jump:toggle", "jump:down", "jump-cancel:down", "jump-cancel:jump", "jump:jump", "jump:reload(seq 3)", "jump-cancel:reload(seq 200)", "jump:accept",
			"jump:toggle-preview", "jump:change-query(1)", "jump-cancel:last", "jump:offset-down", "jump:transform(echo jump)", "jump:execute-silent(true)"})
	}
	if hdrLines && strings.Contains(bind, "reload") {
		bind = "--bind=ctrl-t:jump,ctrl-y:jump-accept"
	}
	cs.Args = append(cs.Args, bind)
	nul := false
	for _, a := range cs.Args {
		if a == "--read0" {
			nul = true
		}
	}
	cs.Input = c14JumpInput(r, c14JumpCount(r, nl, cs.Rows), nul)
	cols, rows := cs.Cols, cs.Rows
	settle := c14Step{T: "settle", X: 40}
	label := func() []byte {
		var k int
		switch r.Intn(6) {
		case 0:
			k = 0
		case 1:
			k = nl - 1
		case 2: // the label of the last visible row, or one past it
			k = rows - 3 + r.Intn(3)
		default:
			k = r.Intn(nl)
		}
		if k < 0 || k >= nl {
			k = nl - 1
		}
		return []byte{labels[k]}
	}
	cs.Steps = append(cs.Steps, c14Step{T: "sync"})
	rounds := r.Range(2, 6)
	for k := 0; k < rounds; k++ {
		// enter
		mode := Pick(r, []string{"jump", "jump", "jump", "jump-accept"})
		if r.Bool() {
			key := byte(0x14)
			if mode == "jump-accept" {
				key = 0x19
			}
			cs.Steps = append(cs.Steps, c14Step{T: "keys", B: []byte{key}})
		} else {
			pre := Pick(r, []string{"", "", "", "last+", "first+", "page-down+", "half-page-up+", "offset-down+", "offset-up+", "down+down+", "up+", "toggle-all+", "pos(" + fmt.Sprint(nl) + ")+", "pos(-1)+"})
			cs.Steps = append(cs.Steps, c14Step{T: "post", S: pre + mode})
		}
		cs.Steps = append(cs.Steps, settle)
		// while the labels are up
		switch r.Intn(8) {
		case 0, 1: // the list window becomes shorter / longer than the labels
			cs.Steps = append(cs.Steps, c14Step{T: "resize", X: Pick(r, []int{cols, cols, cols / 2, cols + 9, 1}), Y: max(1, nl+2+Pick(r, []int{-3, -1, 0, 1, 2, 4, 10}))}, settle)
			if r.Bool() { // a resize leaves jump mode: enter it again on the new geometry
				cs.Steps = append(cs.Steps, c14Step{T: "keys", B: []byte{0x14}}, settle)
			}
		case 2: // a mouse report (wheel / click) while the labels are up
			var b bytes.Buffer
			c14Sgr(&b, Pick(r, []int{0, 64, 65, 2}), c14Col(r, cols), c14Coord(r, rows), true)
			cs.Steps = append(cs.Steps, c14Step{T: "mouse", B: b.Bytes()}, settle)
		case 3: // jump again without leaving
			cs.Steps = append(cs.Steps, c14Step{T: "keys", B: []byte{Pick(r, []byte{0x14, 0x19})}}, settle)
		}
		// leave
		switch r.Intn(10) {
		case 0, 1, 2, 3, 4:
			cs.Steps = append(cs.Steps, c14Step{T: "keys", B: label()})
		case 5:
			cs.Steps = append(cs.Steps, c14Step{T: "keys", B: []byte(Pick(r, []string{"\x01", "漢", "\x7f", " ", "\t", "\xff"}))})
		case 6:
			cs.Steps = append(cs.Steps, c14Step{T: "keys", B: []byte(Pick(r, []string{"\x1b[A", "\x1b[B", "\x1b[5~", "\x1b[6~", "\x1b[Z"}))})
		case 7:
			cs.Steps = append(cs.Steps, c14Step{T: "post", S: Pick(r, []string{"down", "last", "toggle-preview", "change-query(1)", "clear-query", "toggle-wrap", "toggle-multi-line", "clear-screen", "jump", "jump-accept"})})
		case 8:
			var b bytes.Buffer
			x, y := c14Col(r, cols), c14Coord(r, rows)
			c14Sgr(&b, 0, x, y, true)
			c14Sgr(&b, 0, x, y, false)
			cs.Steps = append(cs.Steps, c14Step{T: "mouse", B: b.Bytes()})
		case 9: // stays in jump mode: the next round (or the exit) finds it there
		}
		cs.Steps = append(cs.Steps, settle)
		// another list length between rounds (the POST leaves jump mode)
		if !hdrLines && r.Chance(1, 3) {
			cs.Steps = append(cs.Steps, c14Step{T: "postsync", S: fmt.Sprintf("reload-sync(seq %d)", c14JumpCount(r, nl, rows))})
		}
	}
	cs.Exit = Pick(r, []string{"accept", "abort", "sigint", "sigterm", "esc", "ctrl-c", "enter"})
	if strings.Contains(bind, ":jump") && !strings.HasSuffix(bind, "jump-accept") {
		// a binding that re-enters jump mode from the jump / jump-cancel event turns every typed key into a label or a
		// cancellation by the user's own configuration: such a session is left through --listen or a signal
		cs.Exit = Pick(r, []string{"accept", "abort", "sigint", "sigterm"})
	}
	return cs
}

// c14JumpModel: the model of the label look-up and of the key's index test (op 1413) on random geometries: the frame is
// defined, the spec's verdict on what it reads is "safe" (proved: jump_label_in_bounds), the `<=` variant is defined
// exactly when no more items are visible than there are labels (jump_guard_needed), a picked row is inside the window
// (jump_pick_in_bounds).  This feeds the in-Coq re-evaluation of the extracted code; it says nothing about the
// implementation (printItem needs a window: the tie is the session stream above).
func c14JumpModel(c *Ctx, n int) {
	r := c.Rng
	for i := 0; i < n; i++ {
		labels := c14JumpLabels(r)
		if r.Chance(1, 10) {
			labels = ""
		}
		nl := len(labels)
		visible := c14Clamp1(Pick(r, []int{0, 1, nl - 1, nl, nl + 1, nl + 2, 2 * nl, r.Range(0, 30)}))
		p := r.Range(0, 3)
		rows, count, off := r.Range(0, nl+3), r.Range(0, nl+3), r.Range(0, 50)
		key := int('a' + r.Intn(26))
		if nl > 0 && r.Bool() {
			key = int(labels[r.Intn(nl)])
		}
		in := map[string]interface{}{"kind": "jumpmodel", "labels": labels, "pointer": p, "visible": visible, "key": key, "rows": rows, "count": count, "offset": off}
		mv := c.Model.Call(1413, L(Bytes(labels), I(p), I(visible), I(key), I(rows), I(count), I(off)))
		c.Rep.SpecChecks++
		ok := len(mv.L) == 4 && mv.L[0].IsList && len(mv.L[0].L) == visible && mv.L[1].I == 1 && (mv.L[2].I == 1) == (visible <= nl)
		if ok && len(mv.L[3].L) == 1 {
			cy := int(mv.L[3].L[0].I)
			ok = off <= cy && cy < off+rows && cy-off < count && cy-off < nl && int(labels[cy-off]) == key
		}
		if !ok {
			c.Rep.Disagreement(Disagreement{Kind: "corr", Name: "corr:C14.jump_model_in_bounds", Input: in, Impl: mv.String(),
				Expect: "one entry per visible row, every read inside the label string, the <= variant defined iff visible <= labels, a picked row inside the window"})
		}
		c.Rep.Count("jumpmodel")
	}
}
