package main

// C17: a case on which a spec check fails is reduced before it is reported: parts are dropped one at a time for as long
// as the SAME spec check keeps failing (re-run in a scratch report), so that the replay holds a small concrete input.

func c17FindSpec(ds []Disagreement, from int, name string) int {
	for i := from; i < len(ds); i++ {
		if ds[i].Kind == "spec" && ds[i].Known == "" && (name == "" || ds[i].Name == name) {
			return i
		}
	}
	return -1
}

func c17RunShrunk[T any](c *Ctx, x T, run func(*Ctx, T), cands func(T) []T) {
	rep := c.Rep
	n0 := rep.NDisagree()
	run(c, x)
	if c.Replay != "" || cands == nil {
		return
	}
	// every recorded failure is reduced (the report keeps at most 25 of a kind, and the caller orders them by kind only)
	type target struct {
		idx  int
		name string
	}
	ts := []target{}
	rep.mu.Lock()
	for i := c17FindSpec(rep.Disagree, n0, ""); i >= 0; i = c17FindSpec(rep.Disagree, i+1, "") {
		ts = append(ts, target{i, rep.Disagree[i].Name})
	}
	rep.mu.Unlock()
	for _, t := range ts {
		cur, best := x, Disagreement{}
		found := false
		budget := 400
		for progress := true; progress && budget > 0; {
			progress = false
			for _, cand := range cands(cur) {
				budget--
				tmp := c01Scratch(c)
				run(tmp, cand)
				if j := c17FindSpec(tmp.Rep.Disagree, 0, t.name); j >= 0 {
					cur, best, found, progress = cand, tmp.Rep.Disagree[j], true, true
					break
				}
				if budget <= 0 {
					break
				}
			}
		}
		if found {
			rep.mu.Lock()
			rep.Disagree[t.idx] = best
			rep.mu.Unlock()
			rep.Count("shrunk")
		}
	}
}

func c17Without[T any](xs []T, i int) []T {
	out := make([]T, 0, len(xs)-1)
	out = append(out, xs[:i]...)
	return append(out, xs[i+1:]...)
}

// ---- bind ASTs and key lists

func c17CopyAst(ast []c17Pair) []c17Pair {
	out := make([]c17Pair, len(ast))
	for i, p := range ast {
		out[i] = c17Pair{Keys: append([]string{}, p.Keys...), Acts: append([]c17Act{}, p.Acts...)}
	}
	return out
}

func c17CaseCands(cs c17Case) []c17Case {
	out := []c17Case{}
	switch cs.Kind {
	case "bind-ast":
		for i := range cs.Ast {
			if len(cs.Ast) > 1 {
				out = append(out, c17Case{Kind: cs.Kind, Ast: c17Without(c17CopyAst(cs.Ast), i)})
			}
		}
		for i, p := range cs.Ast {
			for j := range p.Keys {
				if len(p.Keys) > 1 {
					a := c17CopyAst(cs.Ast)
					a[i].Keys = c17Without(a[i].Keys, j)
					out = append(out, c17Case{Kind: cs.Kind, Ast: a})
				}
			}
			for j, act := range p.Acts {
				if len(p.Acts) > 1 {
					a := c17CopyAst(cs.Ast)
					a[i].Acts = c17Without(a[i].Acts, j)
					out = append(out, c17Case{Kind: cs.Kind, Ast: a})
				}
				if act.HasArg || act.Name != "up" {
					a := c17CopyAst(cs.Ast)
					a[i].Acts[j] = c17Act{Name: "up"}
					out = append(out, c17Case{Kind: cs.Kind, Ast: a})
				}
				if act.HasArg && len(act.Arg) > 0 {
					a := c17CopyAst(cs.Ast)
					a[i].Acts[j].Arg = ""
					out = append(out, c17Case{Kind: cs.Kind, Ast: a})
					if len(act.Arg) > 1 {
						for _, cut := range []string{act.Arg[:len(act.Arg)/2], act.Arg[len(act.Arg)/2:], act.Arg[1:], act.Arg[:len(act.Arg)-1]} {
							if c17ValidUTF8(cut) {
								b := c17CopyAst(cs.Ast)
								b[i].Acts[j].Arg = cut
								out = append(out, c17Case{Kind: cs.Kind, Ast: b})
							}
						}
					}
				}
			}
		}
	case "keys", "color-str":
		for i := range cs.Strs {
			if len(cs.Strs) > 1 {
				out = append(out, c17Case{Kind: cs.Kind, Strs: c17Without(append([]string{}, cs.Strs...), i)})
			}
		}
	}
	return out
}

func c17RunS(c *Ctx, cs c17Case) { c17RunShrunk(c, cs, c17Run, c17CaseCands) }

// ---- colour cases

func c17CopyOpts(os []c17ColorOpt) []c17ColorOpt {
	out := make([]c17ColorOpt, len(os))
	for i, o := range os {
		out[i] = o
		out[i].Entries = make([][]string, len(o.Entries))
		for j, e := range o.Entries {
			out[i].Entries[j] = append([]string{}, e...)
		}
	}
	return out
}

func c17CopyColor(cc c17ColorCase) c17ColorCase {
	out := cc
	out.File, out.Env, out.Args = c17CopyOpts(cc.File), c17CopyOpts(cc.Env), c17CopyOpts(cc.Args)
	out.Ctx = append([]string{}, cc.Ctx...)
	return out
}

func c17ColorCands(cc c17ColorCase) []c17ColorCase {
	out := []c17ColorCase{}
	if cc.HasFile {
		x := c17CopyColor(cc)
		x.HasFile, x.File = false, nil
		out = append(out, x)
	}
	if len(cc.Env) > 0 {
		x := c17CopyColor(cc)
		x.Env = nil
		out = append(out, x)
	}
	if cc.NoColor {
		x := c17CopyColor(cc)
		x.NoColor = false
		out = append(out, x)
	}
	if len(cc.Ctx) > 0 {
		x := c17CopyColor(cc)
		x.Ctx = nil
		out = append(out, x)
	}
	layer := func(x *c17ColorCase, l int) *[]c17ColorOpt {
		switch l {
		case 0:
			return &x.File
		case 1:
			return &x.Env
		}
		return &x.Args
	}
	for l := 0; l < 3; l++ {
		os := *layer(&cc, l)
		for i, o := range os {
			isProbe := l == 2 && cc.ProbeSlot != "" && i == cc.Probe
			if !isProbe {
				x := c17CopyColor(cc)
				*layer(&x, l) = c17Without(*layer(&x, l), i)
				if l == 2 && cc.ProbeSlot != "" && i < cc.Probe {
					x.Probe--
				}
				out = append(out, x)
			}
			if isProbe {
				// the probe entry stays as it is, or goes together with the probe
				x := c17CopyColor(cc)
				x.Args = c17Without(x.Args, i)
				x.Probe, x.ProbeSlot = 0, ""
				out = append(out, x)
				continue
			}
			for j, e := range o.Entries {
				if len(o.Entries) > 1 {
					x := c17CopyColor(cc)
					(*layer(&x, l))[i].Entries = c17Without((*layer(&x, l))[i].Entries, j)
					out = append(out, x)
				}
				for k := 1; k < len(e); k++ {
					if len(e) > 2 {
						x := c17CopyColor(cc)
						(*layer(&x, l))[i].Entries[j] = c17Without((*layer(&x, l))[i].Entries[j], k)
						out = append(out, x)
					}
				}
			}
		}
	}
	return out
}

func c17CheckColorS(c *Ctx, cc c17ColorCase) { c17RunShrunk(c, cc, c17CheckColor, c17ColorCands) }
