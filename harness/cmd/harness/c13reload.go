package main

// c13reload.go — C13 stream N: searching while a RELOADED input is still being appended.
//
// The real fzf runs in a pty (--listen).  A first list is read; then the input is replaced, one or several times, by the
// output of a loader command that writes its lines in bursts and stays alive between them: every burst but the first is
// released by the harness (a gate file), so each "plateau" - the loader alive, a known prefix of the new list present -
// is held until it has been judged.  The reload is issued the ways a user can issue it: alone, in ONE action list with a
// query change (before or after it), through a `change:reload(...)` binding with the query typed or changed, as
// reload-sync, while the previous loader is still running, and with burst sizes biased to the boundaries of the
// coordinator's bookkeeping (the new list reaches exactly the item count of the list it replaces / of an earlier plateau).
// Between bursts the query is changed and changed back, sorting is toggled.
//
// Spec (Kind "spec"; every observation is an eventually-property with a generous deadline, retried):
//   search_equals_filter_of_frozen_prefix(reload)  at every plateau the list fzf publishes for the query is the sequential
//        filter (Coq: DisplaySpec.substr_filter through ReloadSpec.published_ok, op 1351) of exactly the lines of the
//        CURRENT input present at that moment, every reported item is the line that was read at its index
//        (changed_items), matchCount / totalCount describe that list, `reading` tells whether the loader is alive
//   loaded_count_reaches_input(reload)             the count reaches the number of lines written so far
//   no_crash(reload)

import (
	"encoding/json"
	"errors"
	"fmt"
	"os"
	"path/filepath"
	"strconv"
	"strings"
	"sync/atomic"
	"time"
)

var c13RelSpecN, c13RelCorrN atomic.Int32

type c13RelMid struct {
	At    int    `json:"at"`              // after the check of plateau `at` (0-based burst number)
	Query string `json:"query,omitempty"` // change-query, then the check again
	HasQ  bool   `json:"hasq,omitempty"`
	Act   string `json:"act,omitempty"` // or: another action list, then the check again
}

type c13RelRound struct {
	Form   string      `json:"form"` // cq+reload | reload+cq | reload | bind (the session's change:reload binding; the query is changed / typed)
	Query  string      `json:"query"`
	Typed  bool        `json:"typed,omitempty"` // bind: the (one-character) query is typed
	Sync   bool        `json:"sync,omitempty"`  // reload-sync
	Items  []string    `json:"items"`
	Bursts []int       `json:"bursts"`          // sizes, sum = len(Items)
	Gate0  int         `json:"gate0,omitempty"` // > 0: the first burst too waits for a gate, opened this many ms after the reload was accepted
	Mid    []c13RelMid `json:"mid,omitempty"`
	Early  bool        `json:"early,omitempty"` // the next round is issued while this round's loader is still alive (after its last burst)
}

type c13RelCase struct {
	Items  []string      `json:"items"` // first list (stdin)
	Query0 string        `json:"query0,omitempty"`
	Args   []string      `json:"args,omitempty"`
	Bind   bool          `json:"bind,omitempty"` // --bind change:reload(sh next.sh): every query change reloads
	Rounds []c13RelRound `json:"rounds"`
}

var c13RelMatch = []string{"-e", "+x", "+i", "--literal"} // the query language of DisplaySpec.substr_filter

type c13RelRun struct {
	c      *Ctx
	cs     c13Case
	rc     *c13RelCase
	s      *Session
	failed bool
	evs    []Val // the coordinator's events as the session produced them (model op 1352)
}

func (d *c13RelRun) ev(xs ...int) { d.evs = append(d.evs, Ints(xs)) }
func (d *c13RelRun) pushes(n int) {
	for i := 0; i < n; i++ {
		d.ev(0)
	}
}

// correspondence: the list the coordinator MODEL (CoordRevModel, op 1352) hands to the matcher last - which generation,
// how many items - is the list the implementation has just been seen to search
func (d *c13RelRun) corr(w c13RelWant) {
	v := d.c.Model.Call(1352, L(B(false), L(d.evs...)))
	d.c.Rep.Count("reload:model_compared")
	got := "malformed answer"
	if len(v.L) == 2 && len(v.L[0].L) > 0 {
		last := v.L[0].L[len(v.L[0].L)-1]
		if len(last.L) == 3 {
			if int(last.L[0].I) == w.gen && int(last.L[1].I) == w.n && v.L[1].I == 0 {
				return
			}
			got = fmt.Sprintf("generation %d, %d items, revision %d (clash=%d)", last.L[0].I, last.L[1].I, last.L[2].I, v.L[1].I)
		}
	}
	if c13RelCorrN.Add(1) > 3 && d.c.Replay == "" {
		return
	}
	d.c.Rep.Disagreement(Disagreement{Kind: "corr", Name: "corr:C13.coordinator_labels", Input: d.cs,
		Impl: fmt.Sprintf("%s: fzf searches generation %d, %d items", w.what, w.gen, w.n), Expect: "model: " + got})
}

func (d *c13RelRun) fail(name string, impl, expect interface{}) {
	d.failed = true
	if c13RelSpecN.Add(1) > 6 && d.c.Replay == "" {
		d.c.Rep.Count("reload:further_failures_not_listed")
		return
	}
	d.c.Rep.Disagreement(Disagreement{Kind: "spec", Name: name, Input: d.cs, Impl: impl, Expect: expect})
}

// the state that must be reached: query q, the list = lines[:n] of the current input, loader alive or not
type c13RelWant struct {
	q       string
	lines   []string
	gen     int // which generation `lines` is (0 = the first input)
	n       int
	reading bool
	what    string
}

// Coq spec, op 1351: [query; lines; n; totalCount; matchCount; reported (index,text) pairs] -> [ok; filter; changed]
func (d *c13RelRun) judge(w c13RelWant, st *FzfState) (bool, []int, []int) {
	rep := make([]Val, len(st.Matches))
	for i, m := range st.Matches {
		rep[i] = L(I(m.Index), Runes([]rune(m.Text)))
	}
	v := d.c.Model.Call(1351, L(Runes([]rune(w.q)), c13RunesVals(w.lines), I(w.n), I(st.TotalCount), I(st.MatchCount), L(rep...)))
	if len(v.L) != 3 {
		return false, nil, nil
	}
	ints := func(x Val) []int {
		out := make([]int, len(x.L))
		for i, e := range x.L {
			out[i] = int(e.I)
		}
		return out
	}
	return v.L[0].I != 0, ints(v.L[1]), ints(v.L[2])
}

// check returns (the state was reached, the observation is unambiguous).  Unambiguous: the state cannot be explained by
// a list other than lines[:n] being searched - it lists at least one item (whose text names its generation) or the loader
// has ended (reading = false is reported only after the coordinator has taken the final snapshot of the current input).
// A state that lists nothing may have been seen BEFORE the burst arrived when the count of the replaced list is the same:
// what the harness believes to be on display is then not relied upon (see the reload-sync plateaus).
func (d *c13RelRun) check(w c13RelWant) (bool, bool) {
	if d.failed || d.s.Exited() {
		return false, false
	}
	s := d.s
	c13Inc(&d.c.Rep.SpecChecks, 1)
	pred := func(st *FzfState) bool {
		if st.Query != w.q || st.Reading != w.reading || st.TotalCount != w.n {
			return false
		}
		ok, _, _ := d.judge(w, st)
		return ok
	}
	// a state in transit (the query already changed, the list still that of the previous search) can satisfy the
	// predicate by accident: it has to hold again a little later
	stable := func(timeout time.Duration) (*FzfState, bool) {
		deadline := time.Now().Add(timeout)
		for {
			st, good := s.WaitFor(pred, time.Until(deadline))
			if !good {
				return st, false
			}
			time.Sleep(20 * time.Millisecond)
			if st2, err := s.Get(); err == nil && pred(st2) {
				return st2, true
			} else if err != nil && errors.Is(err, ErrGone) {
				return st, false
			}
			if time.Now().After(deadline) {
				st2, _ := s.Get()
				if st2 != nil {
					st = st2
				}
				return st, false
			}
		}
	}
	st, good := stable(c13DispDeadline())
	for try := 0; try < 2 && !good && !s.Exited(); try++ {
		time.Sleep(100 * time.Millisecond)
		st, good = stable(c13DispDeadline() / 4)
	}
	if good {
		_, want, _ := d.judge(w, st)
		if len(want) > 0 && len(want) < w.n {
			d.c.Rep.Count("reload:plateau_nontrivial")
		}
		d.c.Rep.Count("reload:plateau_checked")
		d.corr(w)
		return true, len(st.Matches) > 0 || !w.reading
	}
	if s.Exited() {
		return false, false
	}
	c13DispSlowFail.Add(1)
	if st == nil {
		d.fail("search_equals_filter_of_frozen_prefix(reload)", w.what+": no answer from fzf", "a state")
		return false, false
	}
	_, want, changed := d.judge(w, st)
	texts := []string{}
	for i, m := range st.Matches {
		if i >= 8 {
			texts = append(texts, "...")
			break
		}
		texts = append(texts, fmt.Sprintf("%d:%q", m.Index, m.Text))
	}
	got := fmt.Sprintf("%s: query %q reading=%v totalCount=%d matchCount=%d lists %s", w.what, st.Query, st.Reading, st.TotalCount, st.MatchCount, strings.Join(texts, " "))
	wantTxt := []string{}
	for i, ix := range want {
		if i >= 8 {
			wantTxt = append(wantTxt, "...")
			break
		}
		wantTxt = append(wantTxt, fmt.Sprintf("%d:%q", ix, w.lines[ix]))
	}
	exp := fmt.Sprintf("query %q reading=%v totalCount=%d matchCount=%d lists %s (the sequential filter of the %d lines of the current input present now)",
		w.q, w.reading, w.n, len(want), strings.Join(wantTxt, " "), w.n)
	if st.TotalCount != w.n && st.Query == w.q {
		d.fail("loaded_count_reaches_input(reload)", got, exp)
		return false, false
	}
	if len(changed) > 0 {
		got += fmt.Sprintf("; reported items that are not lines of the current input at their index: %v", changed)
	}
	d.fail("search_equals_filter_of_frozen_prefix(reload)", got, exp)
	return false, false
}

func c13RelScript(g int, r *c13RelRound) string {
	var b strings.Builder
	// the loader waits for its gates; it gives up when the session directory is gone or after 40 s
	b.WriteString(": > alive" + strconv.Itoa(g) + "\n")
	b.WriteString("w() { n=0; while [ ! -e \"$1\" ] && [ -e alive" + strconv.Itoa(g) + " ] && [ $n -lt 2000 ]; do sleep 0.02; n=$((n+1)); done; }\n")
	for k := range r.Bursts {
		if k > 0 || r.Gate0 > 0 {
			fmt.Fprintf(&b, "w g%d.gate%d\n", g, k)
		}
		fmt.Fprintf(&b, "cat g%d.p%d\n", g, k)
	}
	fmt.Fprintf(&b, "w g%d.fin\n", g)
	return b.String()
}

func c13Reload(c *Ctx, cs c13Case) { c13ReloadWith(c, cs, c.Fzf) }

func c13ReloadWith(c *Ctx, cs c13Case, fzfBin string) {
	rc := cs.Rel
	if rc == nil || len(rc.Items) == 0 {
		return
	}
	rep := c.Rep
	d := &c13RelRun{c: c, cs: cs, rc: rc}
	args := append([]string{}, rc.Args...)
	args = append(args, c13RelMatch...)
	if rc.Bind {
		args = append(args, "--bind", "change:reload(sh next.sh)")
	}
	if rc.Query0 != "" {
		args = append(args, "--query", rc.Query0)
	}
	cc := *c
	cc.Fzf = fzfBin
	s, err := StartSession(&cc, SessionOpts{Args: args, Stdin: []byte(strings.Join(rc.Items, "\n") + "\n"), Cols: 80, Rows: 24})
	c13Inc(&rep.ImplTraces, 1)
	if err != nil {
		rep.Count("reload:start_failed")
		rep.Disagreement(Disagreement{Kind: "corr", Name: "corr:C13.reload_session_start", Input: cs, Impl: err.Error(), Expect: "fzf starts"})
		return
	}
	d.s = s
	defer s.Close()
	defer s.Post("abort")
	key, _ := json.Marshal(cs)
	touch := func(name string) { os.WriteFile(filepath.Join(s.Dir, name), nil, 0600) }
	crashed := func() bool {
		if cr := s.Crash(); cr != "" {
			d.fail("no_crash(reload)", cr, "fzf keeps running")
			return true
		}
		return false
	}
	post := func(a string) bool {
		if err := s.Post(a); err != nil {
			if !errors.Is(err, ErrGone) {
				rep.Count("reload:post_error")
				rep.Disagreement(Disagreement{Kind: "corr", Name: "corr:C13.reload_driver", Input: cs, Impl: err.Error(), Expect: "action list accepted"})
			}
			d.failed = true
			return false
		}
		return true
	}
	// the first list, completely read
	q := rc.Query0
	vis, visN, visGen := rc.Items, len(rc.Items), 0 // the list on display: lines[:n] of generation visGen
	d.pushes(visN)
	d.ev(2)
	d.check(c13RelWant{q: q, lines: vis, gen: 0, n: visN, reading: false, what: "first list"})
	visSure := true // the coordinator's snapshot is known to be vis[:visN] (an unambiguous observation of it was made)
	alive := -1 // generation whose loader is still running
	genNo := 0  // reloads so far
	for g, r := range rc.Rounds {
		if d.failed || s.Exited() || crashed() {
			break
		}
		r := r
		// the loader of this generation
		off := 0
		for k, n := range r.Bursts {
			os.WriteFile(filepath.Join(s.Dir, fmt.Sprintf("g%d.p%d", g, k)), []byte(strings.Join(r.Items[off:off+n], "\n")+"\n"), 0600)
			off += n
		}
		script := fmt.Sprintf("g%d.sh", g)
		os.WriteFile(filepath.Join(s.Dir, script), []byte(c13RelScript(g, &r)), 0600)
		os.WriteFile(filepath.Join(s.Dir, "next.sh"), []byte("exec sh "+script+"\n"), 0600)
		name := "reload"
		if r.Sync {
			name = "reload-sync"
		}
		rl := name + "(sh " + script + ")"
		newQ := q
		switch r.Form {
		case "cq+reload":
			newQ = r.Query
			if !post("change-query" + c13Quote(newQ) + "+" + rl) {
				return
			}
		case "reload+cq":
			newQ = r.Query
			if !post(rl + "+change-query" + c13Quote(newQ)) {
				return
			}
		case "bind":
			if r.Query == q {
				continue // no change, no reload
			}
			newQ = r.Query
			if r.Typed && q == "" && len(newQ) == 1 {
				s.SendKeys([]byte(newQ))
			} else if !post("change-query" + c13Quote(newQ)) {
				return
			}
		default:
			if !post(rl) {
				return
			}
		}
		q = newQ
		genNo++
		{
			cmd, changed := 1, 1
			if r.Sync {
				cmd = 2
			}
			if r.Form == "reload" {
				changed = 0
			}
			d.ev(3, cmd, changed)
			if alive >= 0 {
				d.ev(2) // the running loader is terminated: EvtReadFin, then the restart
			}
		}
		if alive >= 0 { // the loader that was still running is terminated by fzf; let its script end should it survive
			touch(fmt.Sprintf("g%d.fin", alive))
		}
		alive = g
		if r.Gate0 > 0 {
			time.Sleep(time.Duration(r.Gate0) * time.Millisecond)
			touch(fmt.Sprintf("g%d.gate0", g))
		}
		cum := 0
		sureN := -1 // the largest prefix of this generation unambiguously seen searched
		for k, n := range r.Bursts {
			if d.failed || s.Exited() {
				break
			}
			if k > 0 {
				touch(fmt.Sprintf("g%d.gate%d", g, k))
			}
			cum += n
			d.pushes(n)
			d.ev(1)
			plateau := func(what string) {
				w := c13RelWant{q: q, lines: r.Items, gen: genNo, n: cum, reading: true,
					what: fmt.Sprintf("round %d (%s), loader alive after burst %d%s", g, r.Form, k, what)}
				if r.Sync { // the list is replaced only when the loader has ended
					if !visSure {
						rep.Count("reload:sync_plateau_skipped(previous list not identified)")
						return
					}
					w.lines, w.gen, w.n = vis, visGen, visN
					d.check(w)
					return
				}
				if _, sure := d.check(w); sure {
					sureN = cum
				}
			}
			plateau("")
			for _, m := range r.Mid {
				if m.At != k || d.failed || s.Exited() {
					continue
				}
				if m.HasQ {
					if rc.Bind {
						continue
					}
					if !post("change-query" + c13Quote(m.Query)) {
						return
					}
					q = m.Query
					d.ev(3, 0, 1)
					plateau(fmt.Sprintf(", query changed to %q", q))
				} else if m.Act != "" {
					if !post(m.Act) {
						return
					}
					if strings.Contains(m.Act, "toggle-sort") {
						d.ev(3, 0, 0)
					}
					plateau(", after " + m.Act)
				}
			}
		}
		if d.failed || s.Exited() {
			break
		}
		if r.Early && g+1 < len(rc.Rounds) && !r.Sync {
			vis, visN, visGen = r.Items, cum, genNo
			visSure = sureN == cum
			continue
		}
		touch(fmt.Sprintf("g%d.fin", g))
		d.ev(2)
		alive = -1
		vis, visN, visGen = r.Items, len(r.Items), genNo
		_, visSure = d.check(c13RelWant{q: q, lines: vis, gen: visGen, n: visN, reading: false, what: fmt.Sprintf("round %d (%s), loader ended", g, r.Form)})
	}
	crashed()
	rep.Eval(string(key), true)
	rep.Count("reload:sessions")
	if rc.Bind {
		rep.Count("reload:bind")
	}
	if len(rc.Rounds) <= 2 {
		rep.Sample(cs)
	}
}

// ---- generator

var c13RelWords = []string{"alpha", "bravo", "chart", "delta", "echo", "fox", "golf", "kilo"}

func c13RelLines(r *RNG, tag string, n int) []string {
	out := make([]string, n)
	for i := range out {
		out[i] = fmt.Sprintf("%s%d %s%d", tag, i+1, Pick(r, c13RelWords), r.Intn(10))
	}
	return out
}

func c13RelQuery(r *RNG, not string) string {
	for try := 0; ; try++ {
		var q string
		switch r.Intn(6) {
		case 0, 1:
			q = strconv.Itoa(r.Range(1, 9))
		case 2:
			q = Pick(r, c13RelWords)
		case 3:
			q = Pick(r, c13RelWords)[:2]
		case 4:
			q = Pick(r, []string{"a", "b", "c", "d"}) + strconv.Itoa(r.Range(1, 9)) // the tag of a generation and a leading digit: matches in ONE generation only
		default:
			q = Pick(r, []string{"a", "o", "1", "l", "e"})
		}
		if q != not || try > 8 {
			return q
		}
	}
}

func c13GenReload(r *RNG) c13Case {
	rc := &c13RelCase{}
	sizes := []int{1, 2, 3, 5, 5, 8, 12, 20, 40, 99, 100, 101, 230}
	n0 := Pick(r, sizes)
	rc.Items = c13RelLines(r, "a", n0)
	if r.Chance(1, 3) {
		rc.Query0 = c13RelQuery(r, "")
	}
	opt := func(num, den int, a ...string) {
		if r.Chance(num, den) {
			rc.Args = append(rc.Args, Pick(r, a))
		}
	}
	opt(1, 3, "--no-sort")
	opt(1, 4, "--tac")
	opt(1, 4, "--multi")
	opt(1, 5, "--track")
	opt(1, 5, "--tiebreak=index", "--tiebreak=length", "--tiebreak=end")
	opt(1, 6, "--layout=reverse")
	opt(1, 8, "--info=inline")
	rc.Bind = r.Chance(1, 5)
	q := rc.Query0
	visN := n0
	counts := []int{n0} // counts the coordinator has seen
	nr := r.Range(1, 4)
	for g := 0; g < nr; g++ {
		rd := c13RelRound{}
		if rc.Bind {
			rd.Form = "bind"
			rd.Query = c13RelQuery(r, q)
			rd.Typed = q == "" && len(rd.Query) == 1 && r.Chance(2, 3)
		} else {
			rd.Form = Pick(r, []string{"cq+reload", "cq+reload", "reload+cq", "reload"})
			rd.Sync = r.Chance(1, 8)
			if rd.Form != "reload" {
				if r.Chance(1, 8) {
					rd.Query = q // "changed" to what it was
				} else {
					rd.Query = c13RelQuery(r, q)
				}
			}
		}
		if rd.Form != "reload" {
			q = rd.Query
		}
		// burst sizes: the first burst brings the new list to the count of the list it replaces / a count seen before / anything
		nb := r.Range(1, 3)
		for k := 0; k < nb; k++ {
			var n int
			switch x := r.Intn(10); {
			case k == 0 && x < 5:
				n = visN
			case x < 7:
				n = Pick(r, counts)
				if k > 0 { // reach a count seen before, if that is ahead
					cum := 0
					for _, b := range rd.Bursts {
						cum += b
					}
					if n > cum {
						n -= cum
					}
				}
			default:
				n = Pick(r, sizes)
			}
			if n <= 0 {
				n = 1
			}
			rd.Bursts = append(rd.Bursts, n)
		}
		total := 0
		for _, b := range rd.Bursts {
			total += b
			counts = append(counts, total)
		}
		rd.Items = c13RelLines(r, string(rune('b'+g)), total)
		if r.Chance(1, 3) {
			rd.Gate0 = Pick(r, []int{1, 5, 30})
		}
		if !rc.Bind {
			for k := 0; k < nb; k++ {
				if r.Chance(1, 3) {
					q2 := c13RelQuery(r, q)
					rd.Mid = append(rd.Mid, c13RelMid{At: k, HasQ: true, Query: q2})
					if r.Chance(1, 2) { // and back: the same query, the same count, the same revision
						rd.Mid = append(rd.Mid, c13RelMid{At: k, HasQ: true, Query: q})
					} else {
						q = q2
					}
				} else if r.Chance(1, 5) {
					rd.Mid = append(rd.Mid, c13RelMid{At: k, Act: Pick(r, []string{"toggle-sort", "down", "first", "toggle-sort+toggle-sort", "clear-screen"})})
				}
			}
		}
		rd.Early = g+1 < nr && !rd.Sync && r.Chance(1, 3)
		visN = total // early or not: all bursts of this round have been written when the next one is issued
		rc.Rounds = append(rc.Rounds, rd)
	}
	return c13Case{Kind: "reload", Rel: rc}
}
