package main

// C08 — interactive results converge to a fresh filter of the current query.
//
// One case = one fzf session under a pty with --listen (pty.go): an input produced by a slow or fast writer,
// a history of query edits / toggle-sort / exclude / change-nth / reload / search on-off with random pauses,
// then quiescence.  Observed: GET /?limit=N (query, sort, totalCount, matchCount, match texts in order).
//   spec : the list equals a fresh `fzf --filter <query>` (same options) over the lines actually loaded, minus
//          the excluded ones — eventually-equal within 10 s, re-tried twice (liveness); a crash is reported at once.
//   corr : the extracted CoordModel, run on a linearisation of the same history, predicts query, sort, total,
//          the command that was started last and the request (query, sort, nth, denylist, items) on display.

import (
	"encoding/json"
	"fmt"
	"os"
	"path/filepath"
	"strconv"
	"strings"
	"sync"
	"time"
)

type c08Gen struct {
	N      int   `json:"n"`
	Head   int   `json:"head,omitempty"`   // the writer sleeps this many ms before its first line
	Cuts   []int `json:"cuts,omitempty"`   // the writer sleeps after these line numbers
	Sleeps []int `json:"sleeps,omitempty"` // milliseconds
}

type c08Act struct {
	K     string `json:"k"` // type bs clear query sort exclude xmulti select nth reload reloadsync disable enable togglesearch x+ts s+ts n+ts checkpoint search tsearch tquery bsput
	S     string `json:"s,omitempty"`
	Gen   int    `json:"gen,omitempty"`
	Pause int    `json:"pause"` // ms slept after the action
}

type c08Case struct {
	Seed     uint64   `json:"seed"`
	NoSort   bool     `json:"no_sort,omitempty"`
	Tac      bool     `json:"tac,omitempty"`
	Tiebreak string   `json:"tiebreak,omitempty"`
	Nth      int      `json:"nth,omitempty"` // index into c08Nths
	Exact    bool     `json:"exact,omitempty"`
	Algo     string   `json:"algo,omitempty"`
	Scheme   string   `json:"scheme,omitempty"` // always passed explicitly: with a terminal on stdin fzf would default to "path"
	Query0   string   `json:"query0,omitempty"`
	Feed     string   `json:"feed"` // stdin | defcmd | startreload
	Gens     []c08Gen `json:"gens"`
	Acts     []c08Act `json:"acts"`
}

var c08Nths = []string{"", "2", "3", "2..", "1,3", ".."}

func c08Lines(seed uint64, gen, n int) []string {
	r := NewRNG(seed*1000003 + uint64(gen)*7919 + 17)
	out := make([]string, n)
	var b []byte
	for i := 0; i < n; i++ {
		b = b[:0]
		b = append(b, 'g')
		b = strconv.AppendInt(b, int64(gen), 10)
		b = append(b, ' ')
		x := r.Next()
		l := 2 + int(x%7)
		x >>= 3
		for k := 0; k < l; k++ {
			b = append(b, "abcdef"[x%6])
			x /= 6
		}
		if x%11 == 0 {
			b = append(b, 'A'+byte(x%5))
		}
		b = append(b, ' ')
		b = strconv.AppendInt(b, int64(i), 10)
		out[i] = string(b)
	}
	return out
}

type c08Excl struct {
	gen int
	ixs []int
}

type c08Run struct {
	c     *Ctx
	cs    *c08Case
	dir   string
	s     *Session
	lines [][]string
	// intent tracked by the harness
	query  string
	sort   bool
	nth    int
	paused bool
	posted int // generation of the last reload posted (0 = initial input)
	excl   []c08Excl
	// model schedule
	sched      []Val
	pendingGen int // generation requested from the model but not yet loaded into it (-1: none)
	initLoad   bool
	exRead     int
	fail       bool
	waited     bool
	missed     bool // a timing window of an xstale/xfresh action was missed: the exclusion is not known exactly
	// search(X) / transform-search(X): the string searched for instead of the query line (c08search.go)
	qhist   []Val    // history of query-line actions for the spec function (op 804)
	effHist []string // the queries that were in effect earlier in this session, oldest first
	nfile   int
}

func (r *c08Run) disagree(kind, name string, impl, expect interface{}) {
	r.fail = true
	r.c.Rep.Disagreement(Disagreement{Kind: kind, Name: name, Input: r.cs, Impl: impl, Expect: expect})
}

func (r *c08Run) ui(prims ...Val) { r.sched = append(r.sched, L(I(3), L(prims...))) }

// make the model load the generation it has been asked for (the implementation is known to show it)
func (r *c08Run) modelLoadPending() {
	r.modelLoadInitial()
	if r.pendingGen >= 0 {
		g := r.pendingGen
		r.pendingGen = -1
		r.sched = append(r.sched, L(I(2)), L(I(4)), L(I(5)), L(I(0), I(0), I(r.cs.Gens[g].N)), L(I(1)), L(I(10)))
	}
}

func (r *c08Run) modelLoadInitial() {
	if r.initLoad {
		// the initial input is read to its end and shown; a reload that is already queued is not looked at yet
		r.initLoad = false
		r.sched = append(r.sched, L(I(0), I(0), I(r.cs.Gens[0].N)), L(I(1)), L(I(2)), L(I(4)), L(I(7)), L(I(8)), L(I(6)))
	}
}

// the implementation is observed in a quiescent state: the model drains too (and stays drained: what follows
// in the history starts from there)
func (r *c08Run) modelObs() Val {
	r.sched = append(r.sched, L(I(10)))
	return r.c.Model.Call(801, L(Bytes(r.cs.Query0), B(!r.cs.NoSort), I(r.cs.Nth), L(r.sched...)))
}

func (r *c08Run) baseArgs() []string {
	a := []string{"--scheme=" + map[bool]string{true: "default", false: r.cs.Scheme}[r.cs.Scheme == ""]}
	if r.cs.Tac {
		a = append(a, "--tac")
	}
	if r.cs.Tiebreak != "" {
		a = append(a, "--tiebreak="+r.cs.Tiebreak)
	}
	if r.cs.Exact {
		a = append(a, "--exact")
	}
	if r.cs.Algo != "" {
		a = append(a, "--algo="+r.cs.Algo)
	}
	return a
}

// a fresh `fzf --filter` over the given generation minus the excluded indices
func (r *c08Run) oracle(query string, sort bool, nth int, deny []int, gen, count int) ([]string, error) {
	args := r.baseArgs()
	if !sort {
		args = append(args, "--no-sort")
	}
	if e := c08Nths[nth]; e != "" && e != ".." {
		args = append(args, "--nth="+e)
	}
	args = append(args, "--filter", query)
	dm := map[int]bool{}
	for _, d := range deny {
		dm[d] = true
	}
	var in strings.Builder
	ls := r.lines[gen]
	if count > len(ls) {
		count = len(ls)
	}
	for i := 0; i < count; i++ {
		if !dm[i] {
			in.WriteString(ls[i])
			in.WriteByte('\n')
		}
	}
	out, errb, code := RunFzf(r.c, args, []byte(in.String()))
	if code != 0 && code != 1 {
		return nil, fmt.Errorf("oracle fzf --filter exit %d: %s", code, errb)
	}
	if out == "" {
		return []string{}, nil
	}
	return strings.Split(strings.TrimSuffix(out, "\n"), "\n"), nil
}

func (r *c08Run) startedGen() int {
	b, err := os.ReadFile(filepath.Join(r.dir, "started.log"))
	if err != nil {
		return 0
	}
	f := strings.Fields(string(b))
	if len(f) == 0 {
		return 0
	}
	g, _ := strconv.Atoi(f[len(f)-1])
	return g
}

// new entries of the exclusion log: each line holds the excluded item texts "g<gen> <word> <index>"...
func (r *c08Run) readExcl() (gen int, ixs []int, any bool) {
	b, _ := os.ReadFile(filepath.Join(r.dir, "ex.log"))
	ls := strings.Split(string(b), "\n")
	gen = -1
	for ; r.exRead < len(ls)-1; r.exRead++ {
		f := strings.Fields(ls[r.exRead])
		for i := 0; i+2 < len(f); i += 3 {
			if !strings.HasPrefix(f[i], "g") {
				break
			}
			g, _ := strconv.Atoi(f[i][1:])
			ix, err := strconv.Atoi(f[i+2])
			if err != nil {
				break
			}
			gen = g
			ixs = append(ixs, ix)
			any = true
		}
	}
	return
}

func intsVal(xs []int) Val { return Ints(xs) }

// the expected state now (after everything posted so far has been processed and loading has ended)
type c08Expect struct {
	gen      int
	total    int
	query    string // effective query
	sort     bool
	nth      int
	deny     []int
	list     []string
	modelOK  bool
	modelMsg string
}

func sameInts(a, b []int) bool {
	m := map[int]int{}
	for _, x := range a {
		m[x] = 1
	}
	n := 0
	for _, x := range b {
		if m[x] == 0 {
			return false
		}
		if m[x] == 1 {
			m[x] = 2
			n++
		}
	}
	return n == len(m)
}

func (r *c08Run) expect() (*c08Expect, error) {
	r.modelLoadPending()
	obs := r.modelObs()
	e := &c08Expect{gen: r.startedGen(), sort: r.sort, nth: r.nth, modelOK: true}
	if e.gen < 0 || e.gen >= len(r.lines) {
		return nil, fmt.Errorf("started.log names generation %d", e.gen)
	}
	e.total = r.cs.Gens[e.gen].N
	for _, x := range r.excl {
		if x.gen == e.gen {
			e.deny = append(e.deny, x.ixs...)
		}
	}
	if len(obs.L) < 12 {
		return nil, fmt.Errorf("model answer %s", obs.String())
	}
	mEffq, mInput, mSort, mNth := obs.L[1].Str(), obs.L[2].Str(), obs.L[3].I == 1, int(obs.L[4].I)
	mDeny, mCount := obs.L[5].IntList(), int(obs.L[6].I)
	shown := obs.L[8].L
	mStarted := int(obs.L[9].I)
	e.query = r.eff()
	if r.paused && !r.overridden() {
		e.query = mEffq // while search is disabled the query in effect is the one of the last search (model)
	}
	bad := func(what string, impl, model interface{}) {
		if e.modelOK {
			e.modelOK = false
			e.modelMsg = fmt.Sprintf("%s: harness/implementation %v, model %v", what, impl, model)
		}
	}
	if obs.L[0].I != 1 {
		bad("model not quiescent after drain", "", obs.String())
	}
	if mInput != r.eff() {
		// the model's t_input is what Terminal.Input() hands to the coordinator: the search()/transform-search()
		// string while one is in force (spec: CoordSpec.q_eff), the query line otherwise
		bad("query line / search string", r.eff(), mInput)
	}
	if mSort != r.sort {
		bad("sort", r.sort, mSort)
	}
	if mNth != r.nth {
		bad("nth", r.nth, mNth)
	}
	if !sameInts(mDeny, e.deny) {
		bad("denylist", e.deny, mDeny)
	}
	if mCount != e.total {
		bad("total", e.total, mCount)
	}
	ms := mStarted
	if ms < 0 {
		ms = 0
	}
	if ms != e.gen {
		bad("command started last", e.gen, mStarted)
	}
	// the request on display in the model must be the current one (this is coordinator_quiescent, re-checked on this run)
	if len(shown) >= 8 && !(shown[0].I == 1 && shown[2].Str() == mEffq && (shown[3].I == 1) == mSort && int(shown[4].I) == mNth &&
		sameInts(shown[5].IntList(), mDeny) && shown[6].I == 1) {
		bad("model's displayed request is not the current state", "", obs.String())
	}
	var err error
	e.list, err = r.oracle(e.query, e.sort, e.nth, e.deny, e.gen, e.total)
	return e, err
}

// eventually-equal: poll until the session shows exactly e (10 s, re-tried twice). what = "final" | "checkpoint"
func (r *c08Run) converge(what string) bool {
	s := r.s
	if err := s.Sync(); err != nil {
		r.disagree("spec", "C08.session_alive", "sync: "+err.Error()+" crash="+s.Crash(), "event loop answers")
		return false
	}
	var e *c08Expect
	var last string
	var foreign string // a displayed line that does not belong to the input that is loaded (last poll)
	limit := 100000
	for try := 0; try < 3; try++ {
		deadline := time.Now().Add(10 * time.Second)
		for i := 0; time.Now().Before(deadline); i++ {
			foreign = ""
			if cr := s.Crash(); cr != "" {
				r.disagree("spec", "C08.no_crash", cr, "no panic")
				return false
			}
			st, err := s.GetLimit(1)
			if err != nil {
				last = "GET: " + err.Error()
				if s.Exited() {
					r.disagree("spec", "C08.session_alive", last, "fzf running")
					return false
				}
				time.Sleep(5 * time.Millisecond)
				continue
			}
			if st.Reading {
				last = "still reading"
				r.waited = true
				time.Sleep(5 * time.Millisecond)
				continue
			}
			// `reading` can be observed false between the terminal taking a reload action and the coordinator
			// starting the command: the state is not final before the last requested command has been started
			if r.posted > 0 && r.startedGen() != r.posted {
				last = fmt.Sprintf("reload of generation %d not started (last started: %d)", r.posted, r.startedGen())
				r.waited = true
				time.Sleep(5 * time.Millisecond)
				continue
			}
			if e == nil || e.gen != r.startedGen() {
				ee, err := r.expect()
				if err != nil {
					r.disagree("corr", "corr:C08.harness", err.Error(), "expectation computable")
					return false
				}
				e = ee
			}
			if st.Query != r.query || st.Sort != e.sort || st.TotalCount != e.total || st.MatchCount != len(e.list) {
				last = fmt.Sprintf("query=%q sort=%v total=%d matches=%d", st.Query, st.Sort, st.TotalCount, st.MatchCount)
				r.waited = true
				time.Sleep(time.Duration(2+min(i, 20)) * time.Millisecond)
				continue
			}
			full, err := s.GetLimit(limit)
			if err != nil {
				last = "GET: " + err.Error()
				continue
			}
			n := min(len(e.list), limit)
			ok := full.MatchCount == len(e.list) && len(full.Matches) == n && full.Query == r.query && full.TotalCount == e.total
			if ok {
				for k := 0; k < n; k++ {
					if full.Matches[k].Text != e.list[k] {
						ok = false
						last = fmt.Sprintf("query=%q total=%d matches=%d, position %d is %q", full.Query, full.TotalCount, full.MatchCount, k, full.Matches[k].Text)
						break
					}
				}
				if !ok {
					// every line of generation g starts with "g<g> " (c08Lines)
					pre := fmt.Sprintf("g%d ", e.gen)
					for k := 0; k < n; k++ {
						if !strings.HasPrefix(full.Matches[k].Text, pre) {
							foreign = fmt.Sprintf("reading=false, generation %d loaded (total=%d), query=%q matches=%d, but position %d shows %q",
								e.gen, full.TotalCount, full.Query, full.MatchCount, k, full.Matches[k].Text)
							break
						}
					}
				}
			}
			if ok {
				if !e.modelOK {
					r.disagree("corr", "corr:C08.coordinator_state", e.modelMsg, "model = implementation")
				}
				r.c.Rep.mu.Lock()
				r.c.Rep.SpecChecks++
				r.c.Rep.mu.Unlock()
				return true
			}
			r.waited = true
			time.Sleep(10 * time.Millisecond)
		}
	}
	exp := map[string]interface{}{"when": what, "generation": 0, "query_in_effect": "", "sort": false, "nth": "", "excluded": nil}
	if e != nil {
		head := e.list
		if len(head) > 8 {
			head = head[:8]
		}
		exp = map[string]interface{}{"when": what, "generation": e.gen, "query_line": r.query, "query_in_effect": e.query, "sort": e.sort,
			"nth": c08Nths[e.nth], "excluded": e.deny, "total": e.total, "matches": len(e.list), "first": head, "model": e.modelMsg}
	}
	if e != nil && r.olderQueryShown(e, exp) {
		return false
	}
	if foreign != "" {
		// still so at the last poll of the last attempt (30 s after loading ended): the list holds lines of an input
		// that has been replaced
		r.disagree("spec", "C08.no_lines_of_replaced_input", foreign, exp)
		return false
	}
	r.disagree("spec", "C08.converges_to_fresh_filter", last, exp)
	return false
}

func (r *c08Run) post(a string) bool {
	if err := r.s.PostSync(a); err != nil {
		r.disagree("spec", "C08.session_alive", fmt.Sprintf("POST %s: %v crash=%s", a, err, r.s.Crash()), "200")
		return false
	}
	return true
}

func (r *c08Run) exclAction(post string, multi bool, withToggle bool) bool {
	// execute-silent releases the terminal's mutex while the command runs, so logging the item and excluding it
	// are not atomic: the exclusion is issued in a converged state (nothing in flight can replace the list in
	// between); whatever follows comes without waiting
	if !r.converge("checkpoint") {
		return false
	}
	if !r.post(post) {
		return false
	}
	gen, ixs, any := r.readExcl()
	prims := []Val{}
	if any {
		r.excl = append(r.excl, c08Excl{gen, ixs})
		if gen == r.pendingGen || (gen == 0 && r.initLoad && r.pendingGen < 0) {
			r.modelLoadPending()
		} else if gen == 0 && r.initLoad {
			r.modelLoadInitial()
		}
		prims = append(prims, L(I(2), intsVal(ixs)))
	} else if multi {
		prims = append(prims, L(I(2), L()))
	}
	if withToggle {
		prims = append(prims, L(I(5)))
		r.paused = !r.paused
	}
	r.ui(prims...)
	return true
}

func (r *c08Run) do(a c08Act) bool {
	exlog := filepath.Join(r.dir, "ex.log")
	switch a.K {
	case "type":
		if err := r.s.SendKeys([]byte(a.S)); err != nil {
			r.disagree("spec", "C08.session_alive", "keys: "+err.Error(), "terminal open")
			return false
		}
		for _, ch := range a.S {
			r.setQuery(r.query + string(ch))
		}
		// typed keys and POSTed actions travel on different channels: wait until the keys have been taken
		want := r.query
		if _, ok := r.s.WaitFor(func(st *FzfState) bool { return st.Query == want }, 30*time.Second); !ok {
			r.disagree("spec", "C08.keys_applied", "query line never became "+strconv.Quote(want), want)
			return false
		}
	case "bs":
		if !r.post("backward-delete-char") {
			return false
		}
		r.setQuery(c08DropLast(r.query))
	case "clear":
		if !r.post("clear-query") {
			return false
		}
		r.setQuery("")
	case "query":
		if !r.post("change-query(" + a.S + ")") {
			return false
		}
		r.setQuery(a.S)
	case "search", "tsearch", "tquery", "bsput":
		return r.doSearchAct(a)
	case "sort":
		if !r.post("toggle-sort") {
			return false
		}
		r.sort = !r.sort
		r.ui(L(I(1)))
	case "select":
		return r.post("toggle+down")
	case "exclude":
		return r.exclAction("execute-silent(echo {} >> "+exlog+")+exclude", false, false)
	case "xmulti":
		return r.exclAction("execute-silent(echo {+} >> "+exlog+")+exclude-multi", true, false)
	case "x+ts":
		return r.exclAction("execute-silent(echo {} >> "+exlog+")+exclude+toggle-search", false, true)
	case "nth", "n+ts":
		ix := 1
		for i, e := range c08Nths {
			if e == a.S {
				ix = i
			}
		}
		if a.K == "n+ts" {
			if !r.paused && !r.converge("checkpoint") {
				return false
			}
			if !r.post("change-nth(" + c08Nths[ix] + ")+toggle-search") {
				return false
			}
			r.nth = ix
			r.paused = !r.paused
			r.ui(L(I(3), I(ix)), L(I(5)))
		} else {
			if !r.post("change-nth(" + c08Nths[ix] + ")") {
				return false
			}
			r.nth = ix
			r.ui(L(I(3), I(ix)))
		}
	case "s+ts":
		if !r.paused && !r.converge("checkpoint") {
			return false
		}
		if !r.post("toggle-sort+toggle-search") {
			return false
		}
		r.sort = !r.sort
		r.paused = !r.paused
		r.ui(L(I(1)), L(I(5)))
	case "reload", "reloadsync":
		name := "reload"
		if a.K == "reloadsync" {
			name = "reload-sync"
		}
		if a.Gen <= 0 || a.Gen >= len(r.cs.Gens) {
			return true
		}
		if !r.post(name + "(sh " + filepath.Join(r.dir, fmt.Sprintf("g%d.sh", a.Gen)) + ")") {
			return false
		}
		r.posted = a.Gen
		// the model has not loaded what it was asked before: that request is superseded there as well
		r.pendingGen = a.Gen
		r.ui(L(I(4), I(a.Gen), B(a.K == "reloadsync")))
	case "disable":
		if !r.paused && !r.converge("checkpoint") {
			return false
		}
		if !r.post("disable-search") {
			return false
		}
		r.paused = true
		r.ui(L(I(7)))
	case "enable":
		if !r.post("enable-search") {
			return false
		}
		r.paused = false
		r.ui(L(I(6)))
	case "togglesearch":
		if !r.paused && !r.converge("checkpoint") {
			return false
		}
		if !r.post("toggle-search") {
			return false
		}
		r.paused = !r.paused
		r.ui(L(I(5)))
	case "checkpoint":
		return r.converge("checkpoint")
	case "xstale", "xfresh":
		return r.exclDuringReload(a)
	}
	return true
}

// exclDuringReload: an exclusion issued while a (non-sync) reload is under way, in a window in which the list on
// display cannot change, so that the logged item IS the excluded one:
//
//	xstale: the command has not produced its first line yet (it sleeps first): the OLD list is displayed; the
//	        exclusion refers to the old input and must not survive into the new one;
//	xfresh: the command has produced its first k lines and sleeps: the list of those k lines is displayed; the
//	        exclusion refers to the NEW input and must stay in force when the rest arrives.
//
// When the window is missed (machine too slow) the case is abandoned as inconclusive, never reported.
func (r *c08Run) exclDuringReload(a c08Act) bool {
	if a.Gen <= 0 || a.Gen >= len(r.cs.Gens) || r.paused {
		return true
	}
	if !r.converge("checkpoint") {
		return false
	}
	oldTotal := r.cs.Gens[r.startedGen()].N
	g := r.cs.Gens[a.Gen]
	if !r.post("reload(sh " + filepath.Join(r.dir, fmt.Sprintf("g%d.sh", a.Gen)) + ")") {
		return false
	}
	r.posted = a.Gen
	r.pendingGen = a.Gen
	r.ui(L(I(4), I(a.Gen), B(false)))
	exlog := filepath.Join(r.dir, "ex.log")
	inWindow := func(st *FzfState) bool {
		if a.K == "xstale" {
			return st.Reading && st.TotalCount == oldTotal
		}
		return st.Reading && len(g.Cuts) > 0 && st.TotalCount == g.Cuts[0]
	}
	if a.K == "xstale" {
		time.Sleep(time.Duration(a.Pause) * time.Millisecond)
	} else {
		// wait until exactly the first chunk is loaded and shown as the fresh filter of that chunk
		if len(g.Cuts) == 0 {
			return true
		}
		k := g.Cuts[0]
		want, err := r.oracle(r.query, r.sort, r.nth, nil, a.Gen, k)
		if err != nil {
			r.disagree("corr", "corr:C08.harness", err.Error(), "oracle runs")
			return false
		}
		deadline := time.Now().Add(time.Duration(g.Sleeps[0]) * time.Millisecond / 2)
		ok := false
		for time.Now().Before(deadline) {
			st, err := r.s.GetLimit(len(want) + 1)
			if err == nil && inWindow(st) && st.MatchCount == len(want) && len(st.Matches) == len(want) {
				ok = true
				for i := range want {
					if st.Matches[i].Text != want[i] {
						ok = false
						break
					}
				}
				if ok {
					break
				}
			}
			time.Sleep(3 * time.Millisecond)
		}
		if !ok {
			r.missed = true
			return false
		}
	}
	if !r.post("execute-silent(echo {} >> " + exlog + ")+exclude") {
		return false
	}
	st, err := r.s.GetLimit(1)
	if err != nil || !inWindow(st) {
		r.missed = true // the list may have been replaced between logging and excluding
		return false
	}
	gen, ixs, any := r.readExcl()
	if any {
		r.excl = append(r.excl, c08Excl{gen, ixs})
		if gen == r.pendingGen {
			r.modelLoadPending()
		}
		r.ui(L(I(2), intsVal(ixs)))
		r.c.Rep.Count(fmt.Sprintf("%s:item-of-generation-%s", a.K, map[bool]string{true: "new", false: "old"}[gen == a.Gen]))
	}
	return true
}

func c08Script(dir string, g int, gen c08Gen) string {
	var b strings.Builder
	f := filepath.Join(dir, fmt.Sprintf("g%d.txt", g))
	fmt.Fprintf(&b, "echo %d >> %s\n", g, filepath.Join(dir, "started.log"))
	if gen.Head > 0 {
		fmt.Fprintf(&b, "sleep %d.%03d\n", gen.Head/1000, gen.Head%1000)
	}
	from := 1
	for i, c := range gen.Cuts {
		if c < from || c >= gen.N {
			continue
		}
		fmt.Fprintf(&b, "sed -n '%d,%dp' %s\nsleep %d.%03d\n", from, c, f, gen.Sleeps[i]/1000, gen.Sleeps[i]%1000)
		from = c + 1
	}
	fmt.Fprintf(&b, "sed -n '%d,$p' %s\n", from, f)
	return b.String()
}

var c08Dirs int64
var c08DirMu sync.Mutex

func c08RunCase(c *Ctx, cs *c08Case) {
	if len(cs.Gens) == 0 || cs.Nth < 0 || cs.Nth >= len(c08Nths) {
		return
	}
	c08DirMu.Lock()
	c08Dirs++
	id := c08Dirs
	c08DirMu.Unlock()
	dir := filepath.Join(c.Work, fmt.Sprintf("c08-%d", id))
	os.MkdirAll(dir, 0755)
	defer os.RemoveAll(dir)
	r := &c08Run{c: c, cs: cs, dir: dir, query: cs.Query0, sort: !cs.NoSort, nth: cs.Nth, pendingGen: -1, initLoad: true}
	for g, gen := range cs.Gens {
		ls := c08Lines(cs.Seed, g, gen.N)
		r.lines = append(r.lines, ls)
		var b strings.Builder
		for _, l := range ls {
			b.WriteString(l)
			b.WriteByte('\n')
		}
		os.WriteFile(filepath.Join(dir, fmt.Sprintf("g%d.txt", g)), []byte(b.String()), 0644)
		os.WriteFile(filepath.Join(dir, fmt.Sprintf("g%d.sh", g)), []byte(c08Script(dir, g, gen)), 0755)
	}
	args := append(r.baseArgs(), "--multi", "--query", cs.Query0)
	if cs.NoSort {
		args = append(args, "--no-sort")
	}
	if e := c08Nths[cs.Nth]; e != "" {
		args = append(args, "--nth="+e)
	}
	o := SessionOpts{Args: args, Cols: 80, Rows: 24}
	g0 := "sh " + filepath.Join(dir, "g0.sh")
	switch cs.Feed {
	case "defcmd":
		o.StdinTTY = true
		o.Env = []string{"FZF_DEFAULT_COMMAND=" + g0}
	case "startreload":
		o.Stdin = []byte{}
		o.Args = append(o.Args, "--bind", "start:reload("+g0+")")
		// model: the (empty) standard input ends, then the start event asks for generation 0
		r.initLoad = false
		r.sched = append(r.sched, L(I(2)))
		r.ui(L(I(4), I(0), B(false)))
		r.pendingGen = 0
	default:
		b, _ := os.ReadFile(filepath.Join(dir, "g0.txt"))
		o.Stdin = b
	}
	var s *Session
	var err error
	for try := 0; try < 3; try++ {
		s, err = StartSession(c, o)
		if err == nil {
			break
		}
		os.Remove(filepath.Join(dir, "started.log"))
	}
	if err != nil {
		if strings.Contains(err.Error(), "panic") || strings.Contains(err.Error(), "goroutine") {
			r.disagree("spec", "C08.no_crash", err.Error(), "fzf starts")
		} else {
			c.Rep.Count("infra:start-failed")
		}
		return
	}
	r.s = s
	defer s.Close()
	c.Rep.mu.Lock()
	c.Rep.ImplTraces++
	c.Rep.mu.Unlock()
	ok := true
	for _, a := range cs.Acts {
		if !r.do(a) {
			ok = false
			break
		}
		c.Rep.Count("act:" + a.K)
		if a.Pause > 0 {
			time.Sleep(time.Duration(a.Pause) * time.Millisecond)
		}
	}
	if r.missed {
		c.Rep.Count("inconclusive:window-missed")
		return
	}
	if ok {
		ok = r.converge("final")
	}
	if cr := s.Crash(); cr != "" && !r.fail {
		r.disagree("spec", "C08.no_crash", cr, "no panic")
	}
	key, _ := json.Marshal(cs)
	nQ := 0
	for _, a := range cs.Acts {
		switch a.K {
		case "type", "bs", "clear", "query", "tquery", "bsput":
			nQ++
		}
	}
	c.Rep.Eval(string(key), ok && nQ > 0 && len(cs.Acts) >= 3)
	c.Rep.Sample(cs)
	n := 0
	for _, g := range cs.Gens {
		n = max(n, g.N)
	}
	switch {
	case n <= 1000:
		c.Rep.Count("lines<=1000")
	case n <= 20000:
		c.Rep.Count("lines<=20000")
	default:
		c.Rep.Count("lines<=200000")
	}
	c.Rep.Count("feed=" + cs.Feed)
	if r.waited {
		c.Rep.Count("converged-after-waiting")
	} else if ok {
		c.Rep.Count("converged-at-first-poll")
	}
}

// ---- generator ----

func c08Query(r *RNG) string {
	parts := []string{"a", "b", "c", "ab", "ba", "ca", "fe", "abc", "d", "e", "f", "1", "2", "10", "g1", "g0", "g2", "'ab", "^g", "3$", "!a", "!b", "A", "cd | ef", "aa"}
	n := 1
	if r.Chance(1, 3) {
		n = 2
	}
	out := []string{}
	for i := 0; i < n; i++ {
		out = append(out, Pick(r, parts))
	}
	return strings.Join(out, " ")
}

func c08GenInput(r *RNG, size int, slow bool) c08Gen {
	g := c08Gen{N: size}
	if slow {
		k := r.Range(1, 5)
		for i := 0; i < k; i++ {
			g.Cuts = append(g.Cuts, r.Range(1, max(1, size-1)))
			g.Sleeps = append(g.Sleeps, r.Range(5, 120))
		}
		// sorted cut points
		for i := range g.Cuts {
			for j := i + 1; j < len(g.Cuts); j++ {
				if g.Cuts[j] < g.Cuts[i] {
					g.Cuts[i], g.Cuts[j] = g.Cuts[j], g.Cuts[i]
				}
			}
		}
	}
	return g
}

func c08Size(r *RNG, stream int) int {
	switch {
	case stream == 2:
		return r.Range(60000, 200000)
	case r.Chance(2, 5):
		return r.Range(50, 600)
	case r.Chance(3, 5):
		return r.Range(1000, 20000)
	default:
		return r.Range(30000, 200000)
	}
}

// stream 0: general; 1: payload action immediately followed by a query change while loading (request merging);
// 2: typing across the end of loading of a big input; 3: search on/off and action lists ending in toggle-search;
// 4: exclude while a reload has not produced its first line yet / right after its first lines;
// 5: an input is REPLACED by one of the same (or nearly the same) number of lines but other lines - reload and
//    reload-sync, the new input arriving in one burst (no reader-progress event between the restart and the end of
//    input), after a start delay, or in pieces - while the query is one that was already searched to the end on the
//    old input, and the earlier queries are visited again afterwards: whatever identifies "the same search" inside
//    fzf (item count, revision, query string, sort) must tell the two inputs apart
func c08GenCase(r *RNG, stream int) *c08Case {
	cs := &c08Case{Seed: r.Next() % 1000000, NoSort: r.Chance(1, 4), Tac: r.Chance(1, 5),
		Tiebreak: Pick(r, []string{"", "", "begin", "end,length", "index", "chunk"}),
		Nth:      Pick(r, []int{0, 0, 1, 2, 3, 4}), Exact: r.Chance(1, 6), Algo: Pick(r, []string{"", "", "", "v1"}),
		Scheme: Pick(r, []string{"default", "default", "default", "path", "history"}),
		Feed:   Pick(r, []string{"stdin", "defcmd", "defcmd", "startreload"})}
	if r.Chance(1, 3) {
		cs.Query0 = c08Query(r)
	}
	slow := stream == 1 || r.Chance(1, 2)
	if stream == 2 {
		slow = r.Chance(1, 4)
	}
	if cs.Feed == "stdin" && stream == 1 {
		cs.Feed = "defcmd"
	}
	cs.Gens = []c08Gen{c08GenInput(r, c08Size(r, stream), slow && cs.Feed != "stdin")}
	pause := func() int {
		if r.Chance(1, 3) {
			return 0
		}
		return r.Range(0, 50)
	}
	add := func(a c08Act) { cs.Acts = append(cs.Acts, a) }
	reload := func() {
		g := len(cs.Gens)
		cs.Gens = append(cs.Gens, c08GenInput(r, c08Size(r, 0), r.Chance(1, 2)))
		add(c08Act{K: Pick(r, []string{"reload", "reload", "reloadsync"}), Gen: g, Pause: pause()})
	}
	queryEdit := func() {
		switch r.Intn(6) {
		case 0, 1:
			add(c08Act{K: "type", S: Pick(r, []string{"a", "b", "ab", "c", "e", "1", " b", "d", "fa"}), Pause: pause()})
		case 2:
			add(c08Act{K: "bs", Pause: pause()})
		case 3:
			add(c08Act{K: "clear", Pause: pause()})
		default:
			add(c08Act{K: "query", S: c08Query(r), Pause: pause()})
		}
	}
	payload := func() {
		switch r.Intn(5) {
		case 0:
			add(c08Act{K: "exclude", Pause: 0})
		case 1:
			add(c08Act{K: "nth", S: c08Nths[r.Range(1, 5)], Pause: 0})
		case 2:
			if len(cs.Gens) < 4 {
				reload()
				cs.Acts[len(cs.Acts)-1].Pause = 0
			} else {
				add(c08Act{K: "sort", Pause: 0})
			}
		case 3:
			add(c08Act{K: "select", Pause: 0})
			add(c08Act{K: "select", Pause: 0})
			add(c08Act{K: "xmulti", Pause: 0})
		default:
			add(c08Act{K: "sort", Pause: 0})
		}
	}
	switch stream {
	case 6:
		c08GenSearchStream(r, cs, add, pause, payload)
	case 5:
		n := Pick(r, []int{r.Range(1, 40), r.Range(41, 99), 100, r.Range(101, 600), 200, r.Range(601, 3000), 1000, r.Range(3001, 12000)})
		cs.Gens = []c08Gen{{N: n}}
		seen := []string{cs.Query0}
		visit := func(q string) {
			if q == "" && r.Bool() {
				add(c08Act{K: "clear", Pause: pause()})
			} else {
				add(c08Act{K: "query", S: q, Pause: pause()})
			}
			add(c08Act{K: "checkpoint", Pause: pause()})
		}
		fresh := func() string {
			if r.Chance(1, 3) {
				return c08Query(r)
			}
			return Pick(r, []string{"", "a", "b", "1", "g", "ab", "2", "g0", "g1", "0", "c", "e 1"})
		}
		add(c08Act{K: "checkpoint", Pause: pause()})
		for k, m := 0, r.Range(1, 3); k < m; k++ {
			q := fresh()
			visit(q)
			seen = append(seen, q)
		}
		if r.Chance(1, 2) {
			visit(Pick(r, seen)) // the query in force when the input is replaced is an old one
		}
		if r.Chance(1, 5) {
			add(c08Act{K: Pick(r, []string{"sort", "exclude", "select"}), Pause: pause()})
		}
		for round, m := 0, r.Range(1, 2); round < m; round++ {
			size := n
			switch r.Intn(8) {
			case 0:
				size = n + 1
			case 1:
				size = max(1, n-1)
			case 2:
				size = r.Range(1, 2*n+10)
			}
			g := c08Gen{N: size}
			switch r.Intn(6) {
			case 0, 1:
				g.Head = r.Range(30, 400) // starts late, then one burst
			case 2:
				if size > 2 {
					g.Cuts = []int{r.Range(1, size-1)} // two bursts
					g.Sleeps = []int{r.Range(5, 300)}
				}
			}
			cs.Gens = append(cs.Gens, g)
			add(c08Act{K: Pick(r, []string{"reload", "reloadsync", "reloadsync"}), Gen: len(cs.Gens) - 1, Pause: pause()})
			if r.Chance(2, 3) {
				add(c08Act{K: "checkpoint", Pause: pause()})
			}
			for k, m := 0, r.Range(1, 3); k < m; k++ {
				visit(Pick(r, seen))
			}
			if r.Chance(1, 3) {
				q := fresh()
				visit(q)
				seen = append(seen, q)
			}
		}
	case 4:
		// exclusion while a reload is under way (before its first line / right after its first lines)
		cs.Gens = []c08Gen{{N: r.Range(50, 3000)}}
		for k, n := 0, r.Range(0, 2); k < n; k++ {
			add(c08Act{K: "query", S: Pick(r, []string{"a", "b", "ab", "", "g0", "c", "1"}), Pause: pause()})
		}
		if r.Bool() {
			cs.Gens = append(cs.Gens, c08Gen{N: cs.Gens[0].N + r.Range(0, 2000), Head: r.Range(500, 800)})
			add(c08Act{K: "xstale", Gen: 1, Pause: r.Range(30, 120)})
		} else {
			n := r.Range(200, 5000)
			cs.Gens = append(cs.Gens, c08Gen{N: n, Cuts: []int{r.Range(20, min(n-1, 400))}, Sleeps: []int{1500}})
			add(c08Act{K: "xfresh", Gen: 1, Pause: r.Range(0, 50)})
		}
		for k, n := 0, r.Range(0, 2); k < n; k++ {
			queryEdit()
		}
		if r.Chance(3, 4) {
			add(c08Act{K: "clear", Pause: pause()})
		}
	case 1:
		for k, n := 0, r.Range(2, 5); k < n; k++ {
			if r.Chance(1, 3) {
				add(c08Act{K: "query", S: c08Query(r), Pause: r.Range(0, 80)})
			}
			payload()
			queryEdit()
			cs.Acts[len(cs.Acts)-1].Pause = r.Range(0, 120)
		}
	case 2:
		for k, n := 0, r.Range(3, 12); k < n; k++ {
			add(c08Act{K: "type", S: Pick(r, []string{"a", "b", "c", "d", "e", "f", " "}), Pause: r.Range(0, 40)})
			if r.Chance(1, 5) {
				add(c08Act{K: "bs", Pause: r.Range(0, 30)})
			}
		}
		if r.Chance(1, 3) {
			add(c08Act{K: "sort", Pause: 0})
		}
	case 3:
		for k, n := 0, r.Range(3, 8); k < n; k++ {
			switch r.Intn(9) {
			case 0:
				add(c08Act{K: "disable", Pause: pause()})
			case 1:
				add(c08Act{K: "enable", Pause: pause()})
			case 2:
				add(c08Act{K: "togglesearch", Pause: pause()})
			case 3:
				add(c08Act{K: "x+ts", Pause: pause()})
			case 4:
				add(c08Act{K: "s+ts", Pause: pause()})
			case 5:
				add(c08Act{K: "n+ts", S: c08Nths[r.Range(1, 5)], Pause: pause()})
			case 6:
				payload()
			default:
				queryEdit()
			}
		}
		if r.Chance(2, 3) {
			add(c08Act{K: "enable", Pause: pause()})
		}
	default:
		for k, n := 0, r.Range(4, 14); k < n; k++ {
			switch r.Intn(12) {
			case 0:
				add(c08Act{K: "sort", Pause: pause()})
			case 1:
				add(c08Act{K: "exclude", Pause: pause()})
			case 2:
				add(c08Act{K: "nth", S: c08Nths[r.Range(1, 5)], Pause: pause()})
			case 3:
				if len(cs.Gens) < 4 {
					reload()
				}
			case 4:
				add(c08Act{K: "select", Pause: pause()})
				if r.Chance(1, 2) {
					add(c08Act{K: "xmulti", Pause: pause()})
				}
			case 5:
				if r.Chance(1, 3) {
					add(c08Act{K: "checkpoint", Pause: pause()})
				}
			default:
				queryEdit()
			}
		}
	}
	return cs
}

// ---- exploration of the model alone: random schedules over all ten labels (covers the three labels whose
// invariant preservation is not proved yet): quiescent => displayed request is the current state; the drain
// steps reach quiescence; the sequence number on display never decreases ----

func c08RandSchedule(r *RNG) (Val, []Val) {
	n := r.Range(0, 40)
	ls := []Val{}
	next := 0
	qs := []string{"", "a", "ab", "b", "abc"}
	for i := 0; i < n; i++ {
		switch r.Intn(14) {
		case 0, 1:
			k := r.Range(0, 4)
			ls = append(ls, L(I(0), I(next), I(k)))
			next += k
		case 2:
			ls = append(ls, L(I(1)))
		case 3:
			ls = append(ls, L(I(2)))
		case 4, 5, 6:
			prims := []Val{}
			for j, m := 0, r.Range(1, 3); j < m; j++ {
				switch r.Intn(9) {
				case 0, 1:
					prims = append(prims, L(I(0), Bytes(Pick(r, qs))))
				case 2:
					prims = append(prims, L(I(1)))
				case 3:
					prims = append(prims, L(I(2), Ints([]int{r.Intn(6)})))
				case 4:
					prims = append(prims, L(I(3), I(r.Intn(3))))
				case 5:
					prims = append(prims, L(I(4), I(r.Intn(5)+1), B(r.Bool())))
					next = 0
				case 6:
					prims = append(prims, L(I(5)))
				case 7:
					prims = append(prims, L(I(6)))
				default:
					prims = append(prims, L(I(7)))
				}
			}
			ls = append(ls, L(I(3), L(prims...)))
		case 7, 8:
			ls = append(ls, L(I(4)))
		case 9:
			ls = append(ls, L(I(5)))
		case 10:
			ls = append(ls, L(I(6)))
		case 11:
			ls = append(ls, L(I(7)))
		case 12:
			ls = append(ls, L(I(8)))
		default:
			ls = append(ls, L(I(9)))
		}
	}
	return L(Bytes(Pick(r, qs)), B(r.Bool()), I(r.Intn(3)), L(ls...)), ls
}

func c08Explore(c *Ctx, n int) {
	parallel(c, n, func(i int, r *RNG) {
		arg, ls := c08RandSchedule(r)
		v := c.Model.Call(803, arg)
		ok := len(v.L) == 4 && v.L[0].I == 1 && v.L[1].I == 1 && v.L[2].I == 1 && v.L[3].I == 1
		c.Rep.Eval("sched:"+arg.String(), len(ls) >= 5)
		c.Rep.Count("model-schedules")
		if !ok {
			c.Rep.Disagreement(Disagreement{Kind: "corr", Name: "Properties/C08.coordinator_quiescent (model exploration)",
				Input: arg.String(), Impl: v.String(), Expect: "(1 1 1 1): quiescent=>current, drain quiesces, current after drain, monotone"})
		}
	})
}

func c08Parallel(c *Ctx, cases []*c08Case, par int) {
	var wg sync.WaitGroup
	ch := make(chan *c08Case)
	for w := 0; w < par; w++ {
		wg.Add(1)
		go func() {
			defer wg.Done()
			for cs := range ch {
				c08RunCase(c, cs)
			}
		}()
	}
	for _, cs := range cases {
		ch <- cs
	}
	close(ch)
	wg.Wait()
}

func runC08(c *Ctx) {
	c.Rep.Rule = "one case = one interactive session (pty + --listen): input of 50..200000 lines from a fast or slow writer (stdin, FZF_DEFAULT_COMMAND, start:reload), 3..20 actions (typing, deleting, clear-query, change-query, toggle-sort, exclude, exclude-multi, change-nth, reload, reload-sync, search on/off, action lists ending in toggle-search) with pauses of 0..50 ms, then quiescence; a stream of sessions replaces the input by one of the same (or nearly the same) number of lines and visits the earlier queries again; a stream of sessions runs search(X) / transform-search(X) and then replaces the query line within one action (change-query, transform-query, backward-delete-char+put, clear, typing) by a text of the same length, the same text or another one; the list must equal a fresh fzf --filter as a sequence; non-trivial = converged, at least 3 actions and one query edit; distinct by JSON of the case"
	if c.Replay != "" {
		var cs c08Case
		b, err := os.ReadFile(c.Replay)
		if err == nil {
			var w struct{ Input c08Case }
			if json.Unmarshal(b, &w) == nil && len(w.Input.Gens) > 0 {
				cs = w.Input
			} else {
				json.Unmarshal(b, &cs)
			}
		}
		// a timing-dependent case: run it several times
		for i := 0; i < 5 && c.Rep.NDisagree() == 0; i++ {
			c08RunCase(c, &cs)
		}
		return
	}
	var corpus []*c08Case
	for _, f := range corpusFiles(c) {
		var cs c08Case
		b, _ := os.ReadFile(f)
		if json.Unmarshal(b, &cs) == nil && len(cs.Gens) > 0 {
			corpus = append(corpus, &cs)
			c.Rep.Count("corpus")
		}
	}
	c08Explore(c, c.N(4000, 200000))
	n := c.N(208, 3000)
	cases := []*c08Case{}
	for i := 0; i < n; i++ {
		stream := []int{0, 4, 0, 1, 1, 2, 3, 0, 4, 3, 2, 0, 1}[i%13]
		cases = append(cases, c08GenCase(c.Rng.Fork(), stream))
	}
	// stream 5 (an input replaced by one of the same size) comes on top of the rotation above, from forks taken
	// after it, so that the cases of the other streams are the same as before for a given seed
	for i, n5 := 0, c.N(48, 600); i < n5; i++ {
		cases = append(cases, c08GenCase(c.Rng.Fork(), 5))
	}
	// stream 6 (search()/transform-search() strings and the query edits that drop or keep them), likewise on top
	for i, n6 := 0, c.N(40, 500); i < n6; i++ {
		cases = append(cases, c08GenCase(c.Rng.Fork(), 6))
	}
	c08Parallel(c, append(corpus, cases...), 10)
	c.Rep.Extra["sessions"] = len(corpus) + len(cases)
}

func init() { runners["C08"] = runC08 }
