package main

// C05, history of --nth on one item: an interactive session keeps each item's memoised --nth tokens; after
// change-nth / transform-nth (a new revision) the answer must be the one a fresh item gives -- "a pure function of
// (line, query, options)", whatever was matched before.  The contract with the coordinator: a different nth always
// comes with a different revision (major or minor); the same revision implies the same nth.
// (added after seeded changes C05-5 / C10-5, which the interactive C08 sessions reported but C05 itself did not)

import (
	"fmt"
	"strings"

	fzf "github.com/junegunn/fzf/src"
)

type c05NthStep struct {
	Query string `json:"q"`
	Nth   [2]int `json:"nth"` // begin, end as in `--nth b..e`; 0 = open
	Major int    `json:"major"`
	Minor int    `json:"minor"`
}

type c05NthCase struct {
	Kind  string       `json:"kind"` // "nthseq"
	Line  string       `json:"line"`
	Delim string       `json:"delim"` // "" = AWK
	Fwd   bool         `json:"fwd"`
	Steps []c05NthStep `json:"steps"`
}

func c05NthRun(c *Ctx, cs *c05NthCase) {
	rep := c.Rep
	d := fzf.VerifDelimiterAwk()
	if cs.Delim != "" {
		d = fzf.VerifDelimiterStr(cs.Delim)
	}
	steps := make([]fzf.VerifNthStep, len(cs.Steps))
	for i, s := range cs.Steps {
		steps[i] = fzf.VerifNthStep{Query: s.Query, Nth: []fzf.Range{fzf.VerifMakeRange(s.Nth[0], s.Nth[1])}, Major: s.Major, Minor: s.Minor}
	}
	algoMu.Lock()
	got, goffs := fzf.VerifNthSequence(cs.Line, d, true, true, fzf.CaseSmart, cs.Fwd, steps)
	want := make([]bool, len(steps))
	woffs := make([][][2]int, len(steps))
	for i, s := range steps {
		want[i], woffs[i], _ = fzf.VerifNthMatch(cs.Line, s.Query, s.Nth, d, true, true, fzf.CaseSmart, cs.Fwd)
	}
	algoMu.Unlock()
	rep.ImplTraces++
	rep.SpecChecks++
	any := false
	for _, w := range want {
		any = any || w
	}
	rep.Eval(fmt.Sprintf("nthseq:%q:%q:%v", cs.Line, cs.Delim, cs.Steps), any && len(cs.Steps) > 1)
	rep.Count("pair:nth-history")
	if fmt.Sprint(got, goffs) != fmt.Sprint(want, woffs) {
		rep.Disagreement(Disagreement{Kind: "spec", Name: "purity:nth-history", Input: cs,
			Impl:   fmt.Sprint(got, goffs),
			Expect: fmt.Sprint(want, woffs) + " (what a fresh item answers at each step)"})
	}
}

func c05NthGen(r *RNG) *c05NthCase {
	words := []string{"alpha", "beta", "gamma", "delta", "al", "be", "xa", "bat", "gam", "a", "b"}
	delim := Pick(r, []string{"", "", ",", ":", "::", "/"})
	n := 2 + r.Intn(4)
	fs := make([]string, n)
	for i := range fs {
		fs[i] = Pick(r, words)
	}
	sep := delim
	if sep == "" {
		sep = Pick(r, []string{" ", "  ", "\t"})
	}
	cs := &c05NthCase{Kind: "nthseq", Line: strings.Join(fs, sep), Delim: delim, Fwd: r.Bool()}
	maj, min := 0, 0
	prev := [2]int{0, 0}
	for k := 2 + r.Intn(3); k > 0; k-- {
		nth := [2]int{Pick(r, []int{1, 2, 3, -1, -2}), 0}
		nth[1] = nth[0]
		if r.Chance(1, 4) {
			nth = [2]int{Pick(r, []int{1, 2}), Pick(r, []int{2, 3, -1})}
		}
		if len(cs.Steps) > 0 && r.Chance(1, 4) {
			nth = prev // only the query changes
		}
		if len(cs.Steps) > 0 {
			switch {
			case nth != prev && r.Chance(1, 4):
				maj, min = maj+1, 0 // reload with another --nth
			case nth != prev:
				min++ // change-nth
			case r.Chance(1, 3):
				min++ // new input arrived
			}
		}
		prev = nth
		cs.Steps = append(cs.Steps, c05NthStep{Query: Pick(r, []string{Pick(r, fs), Pick(r, words), "a", "'" + Pick(r, fs), "^" + Pick(r, fs)}), Nth: nth, Major: maj, Minor: min})
	}
	return cs
}

func c05NthStream(c *Ctx) {
	n := c.N(3000, 100000)
	cases := make([]*c05NthCase, n)
	for i := range cases {
		cases[i] = c05NthGen(c.Rng.Fork())
	}
	parallel(c, n, func(i int, _ *RNG) { c05NthRun(c, cases[i]) })
}
