package main

import (
	"encoding/json"
	"os"
)

// Interactive searches go through the matcher loop, its two caches and the chunk cache; a change there can make the
// match list (C01) or its order (C04) wrong only after a SEQUENCE of related queries / sort toggles on full chunks.
// C01 and C04 therefore also run the request-sequence streams of the matcher package: every published merger is compared
// with the sequential oracle (filter + sort of exactly its own request).
func searchSequenceStream(c *Ctx, quickLoop, thoroughLoop int) {
	c13Init()
	gen := func(n int, g func(r *RNG) c13Case) {
		cases := make([]c13Case, n)
		for i := range cases {
			cases[i] = g(c.Rng)
		}
		parallel(c, n, func(i int, _ *RNG) { c13Run(c, cases[i]) })
	}
	gen(c.N(quickLoop, thoroughLoop), func(r *RNG) c13Case { return c13GenMatcher(r, "loop") })
	gen(c.N(quickLoop/2, thoroughLoop/2), func(r *RNG) c13Case { return c13GenMatcher(r, "scans") })
	gen(c.N(quickLoop, thoroughLoop), c13GenPMatch)
	c.Rep.Count("search-sequence-stream")
}

// replaySearchSequence replays a case of the sequence streams (recognised by its "kind"); false if the file is something else.
func replaySearchSequence(c *Ctx) bool {
	b, err := os.ReadFile(c.Replay)
	if err != nil {
		return false
	}
	var cs c13Case
	var w struct{ Input c13Case }
	if json.Unmarshal(b, &w) == nil && w.Input.Kind != "" {
		cs = w.Input
	} else if json.Unmarshal(b, &cs) != nil {
		return false
	}
	switch cs.Kind {
	case "loop", "scans", "pmatch", "twoslot", "cache", "chunklist":
		c13Init()
		c13Run(c, cs)
		return true
	}
	return false
}
