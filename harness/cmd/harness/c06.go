package main

// C06 — every input record becomes exactly one item, in order, unaltered.
//   feed : Reader.feed through VerifFeed with an io.Reader replaying a cut list
//          spec  split_records (op 602) on what the pusher received, read back after the whole stream
//          corr  ReaderModel.feed_records (op 601, real buffer sizes) == the same
//   ops  : ChunkList Push/Snapshot/Clear through the exported API + hooks
//          spec  keep_tail (op 606), count, invariant, stability of earlier snapshots
//          corr  ChunkModel.run_ops (op 603)
//   proc : fzf -f '' [--read0 --print0] [--tail N] [--header-lines N], stdin through a pipe in cut patterns,
//          index probes with --with-nth {n} -f ^K$
//          spec  searchable (op 605);  corr  pipeline (op 604)
//          the same through every --filter path of core.go: --no-sort (streaming), --tac, --sync and their
//          combinations, an exact one-letter query on the order-preserving paths
//          spec  filter_listing (op 608);  corr  filter_run (op 607)
//          (c06scope.go) the same paths with --nth / --with-nth [-d SEP] and an exact query over fielded records
//          spec  query_listing (op 611)
//   inter: (c06inter.go) interactive sessions on a pty: initial source (stdin / FZF_DEFAULT_COMMAND / start:reload),
//          then reload / reload-sync histories; the list of GET / (index, text) after each source was read
//          spec  session_views (op 610);  corr  run_session (op 609)

import (
	"bytes"
	"context"
	"encoding/json"
	"fmt"
	"io"
	"os"
	"os/exec"
	"sort"
	"strconv"
	"sync"
	"sync/atomic"
	"syscall"
	"time"
	"unicode/utf8"

	fzf "github.com/junegunn/fzf/src"
)

const (
	c06Buf  = fzf.VerifReaderBufferSize
	c06Slab = fzf.VerifReaderSlabSize
)

type c06Seg struct {
	R int    `json:"r"` // repeat count
	B []byte `json:"b"` // literal (base64 in JSON)
}
type c06Cut struct {
	N int `json:"n"` // N reads ...
	C int `json:"c"` // ... willing to deliver C bytes each (0 = a (0,nil) read)
}
type c06Op struct {
	T int  `json:"t"` // 0 push, 1 snapshot, 2 clear
	A bool `json:"a,omitempty"`
	X int  `json:"x,omitempty"` // push: item index; snapshot: tail
}
type c06Case struct {
	Kind   string   `json:"kind"` // feed | ops | proc
	Read0  bool     `json:"read0,omitempty"`
	Segs   []c06Seg `json:"segs,omitempty"`
	Cuts   []c06Cut `json:"cuts,omitempty"`
	HL     int      `json:"hl,omitempty"`
	Tail   int      `json:"tail,omitempty"`
	Probes []int    `json:"probes,omitempty"`
	Ops    []c06Op  `json:"ops,omitempty"`
	OutDom bool     `json:"outside_domain,omitempty"` // >= 100 consecutive (0,nil) reads: correspondence only
	// proc: which --filter path (none set = the default collecting path); inter: --tac
	NoSort bool   `json:"nosort,omitempty"`
	Tac    bool   `json:"tac,omitempty"`
	Sync   bool   `json:"sync,omitempty"`
	Query  string `json:"query,omitempty"` // proc: exact, case-sensitive, literal query (only with nosort: listing order = stream order)
	// proc: where the query is searched (c06scope.go): --nth EXPRS / --with-nth EXPRS, -d SEP (literal; "" = AWK-style).
	// With one of them the query is used on every path; on the sorting paths the listing is compared as a multiset.
	Nth     string `json:"nth,omitempty"`
	WithNth string `json:"with_nth,omitempty"`
	Delim   string `json:"delim,omitempty"`
	// inter: the input sources of one session, in order
	Loads []c06Load `json:"loads,omitempty"`
}

func (cs *c06Case) data() []byte {
	var b bytes.Buffer
	for _, s := range cs.Segs {
		for i := 0; i < s.R; i++ {
			b.Write(s.B)
		}
	}
	return b.Bytes()
}
func (cs *c06Case) cutList(limit int) []int {
	out := []int{}
	for _, c := range cs.Cuts {
		for i := 0; i < c.N && len(out) < limit; i++ {
			out = append(out, c.C)
		}
	}
	return out
}
func (cs *c06Case) summary() map[string]interface{} {
	n := 0
	for _, s := range cs.Segs {
		n += s.R * len(s.B)
	}
	for _, l := range cs.Loads {
		for _, s := range l.Segs {
			n += s.R * len(s.B)
		}
	}
	m := map[string]interface{}{"kind": cs.Kind, "read0": cs.Read0, "stream_bytes": n, "cut_groups": len(cs.Cuts),
		"hl": cs.HL, "tail": cs.Tail, "ops": len(cs.Ops), "probes": cs.Probes}
	if cs.NoSort || cs.Tac || cs.Sync || cs.Query != "" {
		m["path"] = cs.pathName()
	}
	if cs.scoped() {
		m["nth"], m["with_nth"], m["delim"], m["query"] = cs.Nth, cs.WithNth, cs.Delim, cs.Query
	}
	if len(cs.Loads) > 0 {
		acts := []string{}
		for _, l := range cs.Loads {
			acts = append(acts, l.Act)
		}
		m["loads"] = acts
	}
	return m
}

// streaming: core.go's streamingFilter (a second Reader; items are matched and printed as they are read)
func (cs *c06Case) streaming() bool { return cs.NoSort && !cs.Tac && !cs.Sync && cs.Tail == 0 } // core.go streamingFilter (d7ddb0d)
func (cs *c06Case) pathName() string {
	n := "default"
	if cs.streaming() {
		n = "streaming"
	}
	if cs.NoSort {
		n += "+nosort"
	}
	if cs.Tac {
		n += "+tac"
	}
	if cs.Sync {
		n += "+sync"
	}
	if cs.Query != "" && (cs.NoSort || cs.scoped()) {
		n += "+query"
	}
	if cs.Nth != "" {
		n += "+nth"
	}
	if cs.WithNth != "" {
		n += "+with-nth"
	}
	if cs.scoped() && cs.Delim != "" {
		n += "+delim"
	}
	return n
}

// ---------- feed ----------

type cutReader struct {
	data  []byte
	pos   int
	cuts  []int
	ci    int
	reads int
}

func (r *cutReader) Read(p []byte) (int, error) {
	if r.pos >= len(r.data) {
		return 0, io.EOF
	}
	c := len(p)
	if r.ci < len(r.cuts) {
		c = r.cuts[r.ci]
		r.ci++
	}
	n := min(c, len(p), len(r.data)-r.pos)
	copy(p, r.data[r.pos:r.pos+n])
	r.pos += n
	r.reads++
	return n, nil
}

func delimOf(read0 bool) byte {
	if read0 {
		return 0
	}
	return '\n'
}

func c06Key(cs *c06Case) string { b, _ := json.Marshal(cs); return string(b) }

var c06ModelBudget = 4e7
var c06MaxStream = 300 * 1024 // thorough tier: 1.5 MiB

// wall time spent per kind of call (debugging / evidence)
var c06Time sync.Map

func c06Timed(name string, f func()) {
	t0 := time.Now()
	f()
	d := time.Since(t0).Nanoseconds()
	v, _ := c06Time.LoadOrStore(name, new(int64))
	atomic.AddInt64(v.(*int64), d)
}

func c06Feed(c *Ctx, cs *c06Case) {
	rep := c.Rep
	data := cs.data()
	rd := &cutReader{data: data, cuts: cs.cutList(1 << 22)}
	kept := [][]byte{}
	copies := []string{}
	pan := ""
	func() {
		defer func() {
			if r := recover(); r != nil {
				pan = fmt.Sprint(r)
			}
		}()
		fzf.VerifFeed(rd, cs.Read0, func(b []byte) bool {
			kept = append(kept, b)
			copies = append(copies, string(b))
			return true
		})
	}()
	rep.ImplTraces++
	if pan != "" {
		rep.Disagreement(Disagreement{Kind: "spec", Name: "feed_total", Input: cs, Impl: "panic: " + pan, Expect: "no panic"})
		return
	}
	recs := make([]string, len(kept))
	for i, k := range kept {
		recs[i] = string(k) // read back AFTER the whole stream
	}
	rep.Eval(c06Key(cs), len(recs) >= 2 && rd.reads >= 2)
	implV := Strs(recs)
	if !cs.OutDom {
		// (5a) spec: items == split_records, in order, byte-identical
		rep.SpecChecks++
		var want Val
		c06Timed("cpu_s:spec602", func() { want = c.Model.Call(602, L(B(cs.Read0), Bytes(string(data)))) })
		if !implV.Equal(want) {
			rep.Disagreement(Disagreement{Kind: "spec", Name: "feed_chunking_invariant", Input: cs,
				Impl: c06Brief(recs), Expect: c06BriefV(want)})
		}
		for i := range recs {
			if recs[i] != copies[i] {
				rep.Disagreement(Disagreement{Kind: "spec", Name: "slab_regions_disjoint", Input: cs,
					Impl: fmt.Sprintf("item %d changed after it was pushed: %q -> %q", i, c06Clip(copies[i]), c06Clip(recs[i])), Expect: "unaltered"})
				break
			}
		}
	}
	// (5b) correspondence with the model at the real buffer sizes, when affordable
	cost := float64(rd.reads)*float64(c06Slab)/2 + float64(len(recs))*float64(c06Slab)/4 + float64(len(data))*4
	if cost <= c06ModelBudget || c.Replay != "" {
		var mv Val
		c06Timed("cpu_s:model601", func() {
			mv = c.Model.Call(601, L(I(c06Buf), I(c06Slab), B(cs.Read0), B(false), Bytes(string(data)), Ints(rd.cuts[:rd.ci])))
		})
		if !implV.Equal(mv) {
			rep.Disagreement(Disagreement{Kind: "corr", Name: "corr:C06.feed", Input: cs, Impl: c06Brief(recs), Expect: c06BriefV(mv)})
		}
		rep.Count("feed:model_compared")
	} else {
		rep.Count("feed:model_skipped_cost")
	}
	rep.Sample(cs.summary())
	rep.Count("feed")
	rep.Count("feed:size<=" + c06Bucket(len(data)))
	rep.Count(fmt.Sprintf("feed:read0=%v", cs.Read0))
	rep.CountN("feed:reads", rd.reads)
	rep.CountN("feed:records", len(recs))
	if cs.OutDom {
		rep.Count("feed:outside_domain")
	}
}

func c06Bucket(n int) string {
	for _, b := range []int{0, 16, 256, 4096, c06Buf - 1, c06Buf, c06Buf + 1, c06Slab - 1, c06Slab, c06Slab + 1, c06Slab + c06Buf, 2 * c06Slab, 1 << 20} {
		if n <= b {
			return strconv.Itoa(b)
		}
	}
	return "inf"
}
func c06Clip(s string) string {
	if len(s) > 60 {
		return s[:25] + fmt.Sprintf("...(%d bytes)...", len(s)) + s[len(s)-25:]
	}
	return s
}
func c06Brief(recs []string) string {
	s := fmt.Sprintf("%d records:", len(recs))
	for i, r := range recs {
		if i >= 12 {
			s += " ..."
			break
		}
		s += fmt.Sprintf(" %q", c06Clip(r))
	}
	return s
}
func c06BriefV(v Val) string {
	recs := []string{}
	for _, x := range v.L {
		if !x.IsList {
			return v.String()
		}
		recs = append(recs, x.Str())
	}
	return c06Brief(recs)
}

// ---------- chunk list ops ----------

type c06Snap struct {
	chunks []*fzf.Chunk
	view   [][]int
	count  int
}

func c06View(cs []*fzf.Chunk) [][]int {
	out := make([][]int, len(cs))
	for i, ch := range cs {
		n := fzf.VerifChunkCount(ch)
		out[i] = make([]int, n)
		for j := 0; j < n; j++ {
			out[i][j] = int(fzf.VerifChunkItem(ch, j).Index())
		}
	}
	return out
}
func c06Flat(v [][]int) []int {
	out := []int{}
	for _, c := range v {
		out = append(out, c...)
	}
	return out
}
func c06ViewVal(v [][]int) Val {
	cs := make([]Val, len(v))
	for i, c := range v {
		cs[i] = Ints(c)
	}
	return L(cs...)
}

func c06Ops(c *Ctx, cs *c06Case) {
	rep := c.Rep
	size := fzf.VerifChunkSize()
	var accept bool
	var idx int
	cl := fzf.NewChunkList(fzf.NewChunkCache(), func(item *fzf.Item, data []byte) bool {
		if !accept {
			return false
		}
		fzf.VerifSetItem(item, data, int32(idx))
		return true
	})
	snaps := []c06Snap{}
	obs := []Val{}
	pan := ""
	trims, maxChunks := 0, 0
	func() {
		defer func() {
			if r := recover(); r != nil {
				pan = fmt.Sprint(r)
			}
		}()
		for opi, op := range cs.Ops {
			switch op.T {
			case 0:
				accept, idx = op.A, op.X
				got := cl.Push([]byte(strconv.Itoa(op.X)))
				if got != op.A {
					rep.Disagreement(Disagreement{Kind: "spec", Name: "push_returns_builder_verdict", Input: cs, Impl: got, Expect: op.A})
				}
			case 2:
				cl.Clear()
			case 1:
				before := c06Flat(c06View(cl.VerifChunks()))
				ret, cnt, changed := cl.Snapshot(op.X)
				view := c06View(ret)
				snaps = append(snaps, c06Snap{ret, view, cnt})
				obs = append(obs, L(c06ViewVal(view), I(cnt), B(changed)))
				flat := c06Flat(view)
				rep.SpecChecks++
				want := c.Model.Call(606, L(I(op.X), Ints(before)))
				if !Ints(flat).Equal(want) {
					rep.Disagreement(Disagreement{Kind: "spec", Name: "tail_keeps_last", Input: cs,
						Impl: fmt.Sprintf("op %d Snapshot(%d) of %d items -> %v", opi, op.X, len(before), c06ClipInts(flat)), Expect: c06ClipInts(want.IntList())})
				}
				if cnt != len(flat) {
					rep.Disagreement(Disagreement{Kind: "spec", Name: "count_items_correct", Input: cs,
						Impl: fmt.Sprintf("op %d Snapshot(%d) count=%d", opi, op.X, cnt), Expect: len(flat)})
				}
				if changed != (op.X > 0 && len(before) > op.X) {
					rep.Disagreement(Disagreement{Kind: "spec", Name: "snapshot_changed_flag", Input: cs, Impl: changed, Expect: !changed})
				}
				if changed {
					trims++
				}
				// the list itself was trimmed to the same contents
				if after := c06Flat(c06View(cl.VerifChunks())); !Ints(after).Equal(Ints(flat)) {
					rep.Disagreement(Disagreement{Kind: "spec", Name: "tail_keeps_last(list state)", Input: cs, Impl: c06ClipInts(after), Expect: c06ClipInts(flat)})
				}
			}
			// invariant: every chunk within capacity, all but the first and last full
			live := cl.VerifChunks()
			maxChunks = max(maxChunks, len(live))
			for i, ch := range live {
				n := fzf.VerifChunkCount(ch)
				if n > size || (i > 0 && i < len(live)-1 && n != size) {
					rep.Disagreement(Disagreement{Kind: "spec", Name: "chunklist_inv", Input: cs,
						Impl: fmt.Sprintf("after op %d chunk %d/%d has count %d", opi, i, len(live), n), Expect: "middle chunks full"})
					return
				}
			}
			if got, want := fzf.CountItems(live), len(c06Flat(c06View(live))); got != want {
				rep.Disagreement(Disagreement{Kind: "spec", Name: "count_items_correct", Input: cs,
					Impl: fmt.Sprintf("after op %d CountItems=%d", opi, got), Expect: want})
				return
			}
		}
	}()
	rep.ImplTraces++
	if pan != "" {
		rep.Disagreement(Disagreement{Kind: "spec", Name: "chunklist_total", Input: cs, Impl: "panic: " + pan, Expect: "no panic"})
		return
	}
	rep.Eval(c06Key(cs), trims > 0 || maxChunks >= 2)
	// snapshots are immutable: re-read all of them after the whole history
	for i, s := range snaps {
		if now := c06View(s.chunks); !c06ViewVal(now).Equal(c06ViewVal(s.view)) {
			rep.Disagreement(Disagreement{Kind: "spec", Name: "snapshot_stable", Input: cs,
				Impl: fmt.Sprintf("snapshot %d changed afterwards: %v", i, c06ClipInts(c06Flat(now))), Expect: c06ClipInts(c06Flat(s.view))})
			break
		}
	}
	// correspondence
	ops := make([]Val, len(cs.Ops))
	for i, op := range cs.Ops {
		switch op.T {
		case 0:
			ops[i] = L(I(0), B(op.A), I(op.X))
		case 1:
			ops[i] = L(I(1), I(op.X))
		default:
			ops[i] = L(I(2))
		}
	}
	mv := c.Model.Call(603, L(I(size), L(ops...)))
	implV := L(c06ViewVal(c06View(cl.VerifChunks())), L(obs...))
	if !implV.Equal(mv) {
		rep.Disagreement(Disagreement{Kind: "corr", Name: "corr:C06.chunklist", Input: cs, Impl: c06Clip(implV.String()), Expect: c06Clip(mv.String())})
	}
	rep.Sample(cs.summary())
	rep.Count("ops")
	rep.CountN("ops:snapshots", len(snaps))
	rep.CountN("ops:tail_trims", trims)
	rep.Count(fmt.Sprintf("ops:max_chunks=%d", min(maxChunks, 6)))
}

func c06ClipInts(xs []int) string {
	if len(xs) > 16 {
		return fmt.Sprintf("%v ... %v (%d)", xs[:6], xs[len(xs)-6:], len(xs))
	}
	return fmt.Sprint(xs)
}

// ---------- process level ----------

// c06RunFzf runs fzf with stdin written through a pipe, one write per cut.
func c06RunFzf(c *Ctx, args []string, data []byte, writes []int) (string, string, int) {
	ctx, cancel := context.WithTimeout(context.Background(), 60*time.Second)
	defer cancel()
	cmd := exec.CommandContext(ctx, c.Fzf, args...)
	in, err := cmd.StdinPipe()
	if err != nil {
		return "", err.Error(), -1
	}
	var out, errb bytes.Buffer
	cmd.Stdout = &out
	cmd.Stderr = &errb
	cmd.Env = []string{"PATH=" + os.Getenv("PATH"), "HOME=" + os.Getenv("HOME"), "TERM=xterm-256color",
		"TMPDIR=" + c.Work, "SHELL=/bin/sh", "FZF_DEFAULT_OPTS=", "FZF_DEFAULT_COMMAND="}
	if err := cmd.Start(); err != nil {
		return "", err.Error(), -1
	}
	go func() {
		pos, pauses := 0, 0
		for i := 0; pos < len(data); i++ {
			n := len(data) - pos
			if i < len(writes) {
				if writes[i] == 0 { // a pause instead of a zero-length write
					if pauses < 40 {
						time.Sleep(300 * time.Microsecond)
						pauses++
					}
					continue
				}
				n = min(n, writes[i])
			}
			if _, err := in.Write(data[pos : pos+n]); err != nil {
				break
			}
			pos += n
			if i < 60 && i%2 == 0 {
				time.Sleep(100 * time.Microsecond) // let the reader see a short read
			}
		}
		in.Close()
	}()
	err = cmd.Wait()
	code := 0
	if err != nil {
		if ee, ok := err.(*exec.ExitError); ok {
			code = ee.ExitCode()
		} else {
			code = -1
		}
	}
	if ctx.Err() != nil {
		code = -1
	}
	return out.String(), errb.String(), code
}

func c06SplitOut(out string, term byte) ([]string, bool) {
	if out == "" {
		return []string{}, true
	}
	if out[len(out)-1] != term {
		return nil, false
	}
	return splitBytes(out[:len(out)-1], term), true
}
func splitBytes(s string, d byte) []string {
	out := []string{}
	st := 0
	for i := 0; i < len(s); i++ {
		if s[i] == d {
			out = append(out, s[st:i])
			st = i + 1
		}
	}
	return append(out, s[st:])
}

func c06Proc(c *Ctx, cs *c06Case) {
	rep := c.Rep
	data := cs.data()
	base := []string{}
	term := byte('\n')
	if cs.Read0 {
		base = append(base, "--read0", "--print0")
		term = 0
	}
	if cs.Tail > 0 {
		base = append(base, "--tail", strconv.Itoa(cs.Tail))
	}
	if cs.HL > 0 {
		base = append(base, "--header-lines", strconv.Itoa(cs.HL))
	}
	if cs.NoSort {
		base = append(base, "--no-sort")
	}
	if cs.Tac {
		base = append(base, "--tac")
	}
	if cs.Sync {
		base = append(base, "--sync")
	}
	plain := !cs.NoSort && !cs.Tac && !cs.Sync
	query := ""
	if cs.NoSort || cs.scoped() { // in stream order only where nothing is ranked; under sorting (scoped cases) as a multiset
		query = cs.Query
	}
	scoped := cs.scoped() && query != ""
	var scopeArgs []string
	var scopeWant []string
	if scoped {
		var err error
		if scopeArgs, scopeWant, err = c06ScopeSpec(c, cs, data); err != nil {
			rep.Count("proc:scope_case_malformed")
			return
		}
	}
	writes := cs.cutList(1 << 16)
	// spec + model
	var specV Val
	if cs.Tac {
		specV = c.Model.Call(608, L(B(cs.Read0), B(cs.Tac), I(cs.HL), I(cs.Tail), Bytes(string(data))))
	} else {
		specV = c.Model.Call(605, L(B(cs.Read0), I(cs.HL), I(cs.Tail), Bytes(string(data))))
	}
	wantItems := specV.L[1].L
	wantTexts := []string{}
	byIndex := map[int]string{}
	for _, it := range wantItems {
		t := it.L[1].Str()
		byIndex[int(it.L[0].I)] = t
		if scoped {
			continue
		}
		if query == "" || bytes.Contains([]byte(t), []byte(query)) { // a searchable item is found by what it contains
			wantTexts = append(wantTexts, t)
		}
	}
	if scoped { // spec query_listing (op 611): the items whose OWN record is found in the searched fields
		wantTexts = scopeWant
	}
	rep.Eval(c06Key(cs), len(wantItems) >= 2)
	fargs := []string{"-f", ""}
	if query != "" {
		fargs = append(append([]string{"-e", "+i", "--literal"}, scopeArgs...), "-f", query)
	}
	out, errs, code := c06RunFzf(c, append(append([]string{}, base...), fargs...), data, writes)
	rep.ImplTraces++
	rep.SpecChecks++
	got, ok := c06SplitOut(out, term)
	wantCode := 0
	if len(wantTexts) == 0 {
		wantCode = 1
	}
	same := Strs(got).Equal(Strs(wantTexts))
	if scoped && !cs.NoSort { // ranked listing: the same items, in whatever order (ranking is C04's subject)
		g, w := append([]string{}, got...), append([]string{}, wantTexts...)
		sort.Strings(g)
		sort.Strings(w)
		same = Strs(g).Equal(Strs(w))
	}
	if !ok || !same || code != wantCode {
		name := "searchable(filter output)"
		if !plain || query != "" {
			name = "filter_listing(" + cs.pathName() + ")"
		}
		if scoped {
			name = "query_listing(" + cs.pathName() + ")"
		}
		rep.Disagreement(Disagreement{Kind: "spec", Name: name, Input: cs,
			Impl:   fmt.Sprintf("fzf %q: exit %d stderr %q %s", append(append([]string{}, base...), fargs...), code, c06Clip(errs), c06Brief(got)),
			Expect: fmt.Sprintf("exit %d %s", wantCode, c06Brief(wantTexts))})
	}
	// item numbering: the item whose index is K
	for _, k := range cs.Probes {
		out, errs, code := c06RunFzf(c, append(append([]string{}, base...), "--with-nth", "{n}", "-f", fmt.Sprintf("^%d$", k)), data, writes)
		rep.SpecChecks++
		got, ok := c06SplitOut(out, term)
		want := []string{}
		wantCode := 1
		if t, in := byIndex[k]; in {
			want = []string{t}
			wantCode = 0
		}
		if !ok || !Strs(got).Equal(Strs(want)) || code != wantCode {
			rep.Disagreement(Disagreement{Kind: "spec", Name: "item_index_numbering", Input: cs,
				Impl:   fmt.Sprintf("probe {n}=%d: exit %d stderr %q %s", k, code, c06Clip(errs), c06Brief(got)),
				Expect: fmt.Sprintf("exit %d %s", wantCode, c06Brief(want))})
		}
		rep.Count("proc:index_probes")
	}
	// correspondence: model pipeline at the real sizes (the cuts the kernel delivered are unknown; the write pattern is used)
	nrec := len(splitBytes(string(data), term))
	cost := float64(len(writes)+len(data)/c06Buf+2)*float64(c06Slab)/2 + float64(nrec)*float64(c06Slab)/4 + float64(len(data))*4
	if (cost <= c06ModelBudget || c.Replay != "") && query == "" {
		var mv Val
		name := "corr:C06.pipeline"
		if plain {
			mv = c.Model.Call(604, L(I(c06Buf), I(c06Slab), I(fzf.VerifChunkSize()), B(cs.Read0), I(cs.HL), I(cs.Tail), Bytes(string(data)), Ints(writes)))
		} else {
			name = "corr:C06.filter_run"
			mv = c.Model.Call(607, L(I(c06Buf), I(c06Slab), I(fzf.VerifChunkSize()), B(cs.Read0), B(!cs.NoSort), B(cs.Tac), B(cs.Sync),
				I(cs.HL), I(cs.Tail), Bytes(string(data)), Ints(writes)))
		}
		implItems := L()
		if ok && len(mv.L) == 2 && len(mv.L[1].L) == len(got) {
			// texts from the process, indexes as the model numbers them (indexes are probed separately)
			vs := make([]Val, len(got))
			for i := range got {
				vs[i] = L(mv.L[1].L[i].L[0], Bytes(got[i]))
			}
			implItems = L(vs...)
		} else if ok {
			implItems = Strs(got)
		}
		if len(mv.L) != 2 || !implItems.Equal(mv.L[1]) {
			rep.Disagreement(Disagreement{Kind: "corr", Name: name, Input: cs, Impl: c06Brief(got), Expect: c06Clip(mv.String())})
		}
		rep.Count("proc:model_compared")
	}
	rep.Sample(cs.summary())
	rep.Count("proc")
	rep.Count(fmt.Sprintf("proc:read0=%v,tail=%v,hl=%v", cs.Read0, cs.Tail > 0, cs.HL > 0))
	rep.Count("proc:path=" + cs.pathName())
	rep.Count("proc:size<=" + c06Bucket(len(data)))
}

// ---------- generators ----------

var c06Filler = []byte("abcdefghijklmnopqrstuvwxyz0123456789")

func c06Fill(segs []c06Seg, n int) []c06Seg {
	if n <= 0 {
		return segs
	}
	if q := n / len(c06Filler); q > 0 {
		segs = append(segs, c06Seg{q, c06Filler})
	}
	if r := n % len(c06Filler); r > 0 {
		segs = append(segs, c06Seg{1, c06Filler[:r]})
	}
	return segs
}

func c06RandBytes(r *RNG, n int, d byte, dense int, utf8ok bool) []byte {
	other := byte('\n')
	if d == '\n' {
		other = 0
	}
	out := make([]byte, 0, n)
	for len(out) < n {
		switch x := r.Intn(100); {
		case x < dense:
			out = append(out, d)
		case x < dense+3:
			if utf8ok && other == 0 {
				out = append(out, ' ')
			} else {
				out = append(out, other)
			}
		case x < dense+6:
			out = append(out, '\r')
		case x < dense+10:
			out = append(out, []byte("é")...)
		case x < dense+12:
			out = append(out, []byte("한")...)
		case x < dense+14 && !utf8ok:
			out = append(out, byte(0x80+r.Intn(128)))
		default:
			out = append(out, byte('a'+r.Intn(4)))
		}
	}
	return out
}

func c06SmallCuts(r *RNG, total int) []c06Cut {
	cuts := []c06Cut{}
	switch r.Intn(6) {
	case 0:
		return nil
	case 1:
		return []c06Cut{{total + 1, Pick(r, []int{1, 2, 3, 7})}}
	}
	zero := false // never two (0,nil) groups in a row: at most 99 consecutive
	for covered := 0; covered < total && len(cuts) < 400; {
		if !zero && r.Chance(1, 6) {
			cuts = append(cuts, c06Cut{Pick(r, []int{1, 1, 2, 5, 98, 99}), 0})
			zero = true
			continue
		}
		zero = false
		c := r.Range(1, Pick(r, []int{1, 2, 4, 16, 64, 600}))
		cuts = append(cuts, c06Cut{1, c})
		covered += c
	}
	return cuts
}

func c06GenSmall(r *RNG, kind string, utf8ok bool) *c06Case {
	cs := &c06Case{Kind: kind, Read0: r.Bool()}
	d := delimOf(cs.Read0)
	n := r.Range(0, Pick(r, []int{0, 3, 12, 40, 200, 1500, 6000}))
	dense := Pick(r, []int{0, 2, 10, 25, 50, 90})
	b := c06RandBytes(r, n, d, dense, utf8ok)
	if len(b) > 0 {
		cs.Segs = []c06Seg{{1, b}}
	}
	cs.Cuts = c06SmallCuts(r, len(b))
	return cs
}

// big streams: sizes and delimiters on / around the read-buffer and slab boundaries
func c06GenBig(r *RNG, kind string, utf8ok bool) *c06Case {
	cs := &c06Case{Kind: kind, Read0: r.Bool()}
	d := delimOf(cs.Read0)
	crit := []int{c06Buf, c06Slab, c06Slab + c06Buf, 2 * c06Slab, 2*c06Slab + c06Buf}
	total := Pick(r, crit[:4]) + Pick(r, []int{-2, -1, 0, 0, 1, 2, 3, 17})
	if r.Chance(1, 4) {
		total = r.Range(c06Buf/2, c06MaxStream)
	}
	// events: position -> literal
	ev := map[int][]byte{}
	for _, p := range crit {
		switch r.Intn(5) {
		case 0: // single delimiter at the boundary +-2
			ev[p+r.Range(-2, 1)] = []byte{d}
		case 1: // delimiters on both sides
			ev[p-1] = []byte{d, d}
		case 2: // dense cluster straddling the boundary
			k := r.Range(2, 40)
			ev[p-r.Range(0, k)] = c06RandBytes(r, k, d, 40, utf8ok)
		case 3: // \r\n style pair split by the boundary
			ev[p-1] = []byte{'\r', d}
		}
	}
	for i, k := 0, Pick(r, []int{0, 0, 1, 5, 40, 300}); i < k; i++ {
		ev[r.Intn(total+1)] = []byte{d}
	}
	if r.Bool() {
		ev[total-1] = []byte{d} // terminated stream
	}
	pos := make([]int, 0, len(ev))
	for p := range ev {
		if p >= 0 && p < total {
			pos = append(pos, p)
		}
	}
	sort.Ints(pos)
	at := 0
	for _, p := range pos {
		if p < at {
			continue
		}
		cs.Segs = c06Fill(cs.Segs, p-at)
		lit := ev[p]
		if p+len(lit) > total {
			lit = lit[:total-p]
			for utf8ok && !utf8.Valid(lit) { // never cut a multi-byte character (process level prints U+FFFD for it)
				lit = lit[:len(lit)-1]
			}
		}
		cs.Segs = append(cs.Segs, c06Seg{1, lit})
		at = p + len(lit)
	}
	cs.Segs = c06Fill(cs.Segs, total-at)
	// cuts
	switch r.Intn(8) {
	case 0: // every read fills the scope
	case 1, 2:
		cs.Cuts = []c06Cut{{1 << 20, Pick(r, []int{c06Buf - 1, c06Buf, c06Buf + 1, 70000, 4096, c06Slab - 1, c06Slab + 1, 32768, 1000, 65521})}}
	case 3:
		for i, k := 0, r.Range(3, 60); i < k; i++ {
			cs.Cuts = append(cs.Cuts, c06Cut{r.Range(1, 3), r.Range(1, 70000)})
		}
	case 4: // tiny reads everywhere (model too slow for these: spec only)
		cs.Cuts = []c06Cut{{1 << 22, Pick(r, []int{1, 2, 3, 7})}}
	default: // adversarial: big reads up to just before a boundary, then a few tiny ones with (0,nil) reads in between
		at, slab := 0, c06Slab
		readTo := func(target int) {
			for at < target && at < total {
				scope := min(slab, c06Buf)
				n := min(target-at, scope, total-at)
				cs.Cuts = append(cs.Cuts, c06Cut{1, target - at})
				at += n
				slab -= n
				if slab == 0 {
					slab = c06Slab
				}
			}
		}
		for _, p := range crit {
			if r.Chance(1, 4) {
				continue
			}
			readTo(p - r.Range(0, 6))
			for i, k := 0, r.Range(1, 12); i < k; i++ {
				if r.Chance(1, 4) {
					cs.Cuts = append(cs.Cuts, c06Cut{Pick(r, []int{1, 3, 99}), 0})
				}
				c := r.Range(1, 3)
				cs.Cuts = append(cs.Cuts, c06Cut{1, c})
				n := min(c, min(slab, c06Buf), max(total-at, 0))
				at += n
				slab -= n
				if slab == 0 {
					slab = c06Slab
				}
			}
			if r.Chance(1, 3) {
				cs.Cuts = append(cs.Cuts, c06Cut{1, Pick(r, []int{c06Buf - 1, c06Buf - 3, 12345})})
				n := min(cs.Cuts[len(cs.Cuts)-1].C, min(slab, c06Buf), max(total-at, 0))
				at += n
				slab -= n
				if slab == 0 {
					slab = c06Slab
				}
			}
		}
	}
	return cs
}

func c06GenOps(r *RNG) *c06Case {
	cs := &c06Case{Kind: "ops"}
	size := fzf.VerifChunkSize()
	tails := []int{0, 0, 1, 2, size / 2, size - 1, size, size + 1, size + size/2, 2*size - 1, 2 * size, 2*size + 1, 1000}
	fixedTail := Pick(r, tails)
	next := 0
	for seg, nseg := 0, r.Range(1, 7); seg < nseg; seg++ {
		k := Pick(r, []int{0, 1, 3, size - 1, size, size + 1, 2 * size, 2*size + 1, 3*size + 7})
		if r.Bool() {
			k = r.Range(0, 2*size+20)
		}
		rejEvery := Pick(r, []int{0, 0, 0, 3, 10})
		for i := 0; i < k; i++ {
			if rejEvery > 0 && r.Chance(1, rejEvery) {
				cs.Ops = append(cs.Ops, c06Op{T: 0, A: false, X: next})
			} else {
				cs.Ops = append(cs.Ops, c06Op{T: 0, A: true, X: next})
				next++
			}
			if r.Chance(1, 60) {
				cs.Ops = append(cs.Ops, c06Op{T: 1, X: fixedTail})
			}
		}
		switch r.Intn(10) {
		case 0:
			cs.Ops = append(cs.Ops, c06Op{T: 2})
		case 1, 2, 3:
			cs.Ops = append(cs.Ops, c06Op{T: 1, X: Pick(r, tails)})
		default:
			cs.Ops = append(cs.Ops, c06Op{T: 1, X: fixedTail})
		}
		if r.Chance(1, 3) {
			cs.Ops = append(cs.Ops, c06Op{T: 1, X: fixedTail})
		}
	}
	return cs
}

func c06GenProc(r *RNG) *c06Case {
	var cs *c06Case
	if r.Chance(1, 5) {
		cs = c06GenBig(r, "proc", true)
		if len(cs.Cuts) > 0 && cs.Cuts[0].N > 1000 && cs.Cuts[0].C < 1000 {
			cs.Cuts = []c06Cut{{40, cs.Cuts[0].C}} // bounded number of tiny writes
		}
	} else {
		cs = c06GenSmall(r, "proc", true)
	}
	nrec := len(splitBytes(string(cs.data()), delimOf(cs.Read0)))
	if r.Chance(2, 3) {
		cs.Tail = Pick(r, []int{1, 2, 3, 99, 100, 101, 150, 200, 201, max(nrec-1, 1), max(nrec, 1), nrec + 1, max(nrec/2, 1)})
	}
	if r.Chance(1, 2) {
		cs.HL = Pick(r, []int{1, 1, 2, 3, max(nrec-1, 1), nrec + 2, max(nrec/2, 1)})
	}
	if nrec <= 400 && r.Chance(1, 2) {
		cs.Probes = []int{r.Intn(nrec + 1), max(nrec-cs.HL-1-r.Intn(3), 0)}
	}
	// which --filter path of core.go: half of the cases the default one, the rest spread over the others
	switch r.Intn(12) {
	case 0, 1, 2:
		cs.NoSort = true // streaming (records are matched and printed while the stream is read) unless --tail is given
		if r.Chance(2, 3) {
			cs.Tail = 0
		}
	case 3:
		cs.Tac = true
	case 4:
		cs.Sync = true
	case 5:
		cs.NoSort, cs.Tac = true, true
	case 6:
		cs.NoSort, cs.Sync = true, true
	}
	if cs.NoSort && r.Chance(1, 3) {
		cs.Query = Pick(r, []string{"a", "b", "c", "d", "é"})
	}
	return cs
}

func c06Run(c *Ctx, cs *c06Case) {
	switch cs.Kind {
	case "feed":
		c06Feed(c, cs)
	case "ops":
		c06Ops(c, cs)
	case "proc":
		c06Proc(c, cs)
	case "inter":
		c06Inter(c, cs)
	}
}

func runC06(c *Ctx) {
	c.Rep.Rule = "feed: byte streams 0..300 KiB (sizes and delimiters on/around the 64 KiB read buffer and 128 KiB slab boundaries) x cut lists (fill, fixed 1..131073, random, adversarial around boundaries, (0,nil) runs <= 99); ops: Push/Snapshot(tail)/Clear histories around chunk size 100; proc: fzf -f '' with --read0/--tail/--header-lines through every filter path (default, --no-sort streaming, --tac, --sync, combinations; exact one-letter query on the unsorted paths), stdin through a pipe in cut patterns, {n} probes; proc-scope: streams of fielded records (AWK-style or literal -d), --nth / --with-nth field expressions with an exact one-letter query through every filter path (biased to the streaming one), listing = the items whose own record is found (query_listing), in order on the unsorted paths, as a multiset on the sorting ones; inter: pty sessions, initial source stdin / FZF_DEFAULT_COMMAND / start:reload then reload / reload-sync histories (streams delivered whole or in two parts), list (index, text) of GET / after each source. non-trivial = feed: >=2 records and >=2 reads; ops: a tail trim happened or >=2 chunks; proc: >=2 searchable items; inter: >=2 sources and >=2 items in some list; distinct by JSON of the case"
	// the extracted model recurses over 300 KiB lists: give the driver processes (children) a deep stack
	var rl syscall.Rlimit
	if syscall.Getrlimit(syscall.RLIMIT_STACK, &rl) == nil {
		want := uint64(4 << 30)
		if rl.Max < want {
			want = rl.Max
		}
		if rl.Cur < want {
			rl.Cur = want
			syscall.Setrlimit(syscall.RLIMIT_STACK, &rl)
		}
	}
	if os.Getenv("OCAMLRUNPARAM") == "" {
		os.Setenv("OCAMLRUNPARAM", "s=4M") // larger minor heap: fewer scans of the deep stack
	}
	c.Rep.Extra["readerBufferSize"] = c06Buf
	c.Rep.Extra["readerSlabSize"] = c06Slab
	c.Rep.Extra["chunkSize"] = fzf.VerifChunkSize()
	if c.Replay != "" {
		b, err := os.ReadFile(c.Replay)
		if err != nil {
			return
		}
		var w struct{ Input *c06Case }
		cs := &c06Case{}
		if json.Unmarshal(b, &w) == nil && w.Input != nil && w.Input.Kind != "" {
			cs = w.Input
		} else {
			json.Unmarshal(b, cs)
		}
		c06Run(c, cs)
		return
	}
	for _, f := range corpusFiles(c) {
		cs := &c06Case{}
		b, _ := os.ReadFile(f)
		if json.Unmarshal(b, cs) == nil && cs.Kind != "" {
			c06Run(c, cs)
			c.Rep.Count("corpus")
		}
	}
	if c.Thorough() {
		c06MaxStream = 1536 * 1024
	}
	stop := func() bool { return c.Rep.NDisagree() >= 12 }
	only := os.Getenv("C06_ONLY") // debugging aid: run one phase
	phase := func(name string, n int, f func(r *RNG)) {
		t0 := time.Now()
		if only == "" || only == name {
			parallel(c, n, func(i int, r *RNG) {
				if !stop() {
					f(r)
				}
			})
		}
		c.Rep.Extra["wall_s:"+name] = time.Since(t0).Seconds()
	}
	defer func() {
		c06Time.Range(func(k, v interface{}) bool {
			c.Rep.Extra[k.(string)] = float64(atomic.LoadInt64(v.(*int64))) / 1e9
			return true
		})
	}()
	phase("feed-small", c.N(2000, 40000), func(r *RNG) {
		cs := c06GenSmall(r, "feed", false)
		if r.Chance(1, 40) { // outside the domain: >= 100 consecutive (0,nil) reads; model and code must still agree
			cs.OutDom = true
			cs.Cuts = append([]c06Cut{{1, r.Range(1, 5)}, {r.Range(100, 130), 0}}, cs.Cuts...)
		}
		c06Feed(c, cs)
	})
	phase("feed-big", c.N(90, 1500), func(r *RNG) { c06Feed(c, c06GenBig(r, "feed", false)) })
	phase("ops", c.N(600, 20000), func(r *RNG) { c06Ops(c, c06GenOps(r)) })
	phase("proc", c.N(320, 7000), func(r *RNG) { c06Proc(c, c06GenProc(r)) })
	phase("proc-scope", c.N(260, 6000), func(r *RNG) { c06Proc(c, c06GenScope(r)) })
	phase("inter", c.N(96, 1500), func(r *RNG) { c06Inter(c, c06GenInter(r)) })
}

func init() { runners["C06"] = runC06 }
