package main

import (
	"crypto/sha1"
	"encoding/hex"
	"encoding/json"
	"flag"
	"fmt"
	"os"
	"sort"
	"sync"
	"syscall"
	"time"
)

// Disagreement kinds:
//   spec: the property's spec, evaluated on the implementation's output, fails  -> violation with replay
//   corr: implementation and model differ on a projected observable             -> search, then no-failing-input-found
type Disagreement struct {
	Kind   string      `json:"kind"`
	Name   string      `json:"name"`   // which spec predicate / correspondence
	Input  interface{} `json:"input"`  // replayable case
	Impl   interface{} `json:"impl"`
	Expect interface{} `json:"expect"`
	Known  string      `json:"known,omitempty"` // id of the KNOWN_FINDINGS entry that classifies it
}

type Report struct {
	mu           sync.Mutex
	Property     string                 `json:"property"`
	Tier         string                 `json:"tier"`
	Seed         uint64                 `json:"seed"`
	Evaluations  int                    `json:"evaluations"`
	Nontrivial   int                    `json:"distinct_nontrivial"`
	Rule         string                 `json:"rule"`
	Samples      []interface{}          `json:"samples"`
	Distribution map[string]int         `json:"distribution"`
	ImplTraces   int                    `json:"traces_validated_against_impl"`
	ModelCalls   int64                  `json:"model_calls"`
	SpecChecks   int                    `json:"spec_checks_on_impl_output"`
	Disagree     []Disagreement         `json:"disagreements"`
	KnownSeen    map[string]string      `json:"known_seen"`
	CoqCases     string                 `json:"coq_cases"`
	CoqCasesN    int                    `json:"coq_cases_n"`
	Exhaustive   bool                   `json:"exhaustive"`
	Extra        map[string]interface{} `json:"extra"`
	distinct     map[string]bool
}

func (r *Report) Count(key string) { r.mu.Lock(); r.Distribution[key]++; r.mu.Unlock() }
func (r *Report) CountN(key string, n int) { r.mu.Lock(); r.Distribution[key] += n; r.mu.Unlock() }

// Eval records one evaluated case; key canonicalises it for distinctness; nontrivial by the property's rule.
func (r *Report) Eval(key string, nontrivial bool) {
	r.mu.Lock()
	r.Evaluations++
	if nontrivial {
		h := sha1.Sum([]byte(key))
		k := hex.EncodeToString(h[:8])
		if !r.distinct[k] {
			r.distinct[k] = true
			r.Nontrivial++
		}
	}
	r.mu.Unlock()
}
func (r *Report) Sample(s interface{}) {
	r.mu.Lock()
	if len(r.Samples) < 6 {
		r.Samples = append(r.Samples, s)
	}
	r.mu.Unlock()
}
func (r *Report) Disagreement(d Disagreement) {
	r.mu.Lock()
	if d.Known != "" {
		if _, ok := r.KnownSeen[d.Known]; !ok {
			b, _ := json.Marshal(d.Input)
			r.KnownSeen[d.Known] = string(b)
		}
		r.Distribution["known:"+d.Known]++
	} else {
		// separate budgets, so that a flood of model-vs-implementation differences can never crowd out a
		// failure of the property itself (and the other way round)
		n := 0
		for _, x := range r.Disagree {
			if x.Kind == d.Kind {
				n++
			}
		}
		if n < 25 {
			r.Disagree = append(r.Disagree, d)
		}
	}
	r.mu.Unlock()
}
func (r *Report) NDisagree() int { r.mu.Lock(); defer r.mu.Unlock(); return len(r.Disagree) }

type Ctx struct {
	Tier   string
	Seed   uint64
	Rng    *RNG
	Model  *Model
	Rep    *Report
	Scale  int    // case budget multiplier (search mode uses 20)
	Replay string // path of a replay file, or ""
	Work   string // scratch dir (removed by the caller)
	Corpus string // /verif/corpus/<id>
	Fzf    string // path to fzf binary built from /repo working tree
}

func (c *Ctx) Thorough() bool { return c.Tier == "thorough" }
func (c *Ctx) N(quick, thorough int) int {
	n := quick
	if c.Thorough() {
		n = thorough
	}
	return n * c.Scale
}

type runner func(*Ctx)

var runners = map[string]runner{}

// parallel runs f(i, rng_i) for i in [0,n) on all cores with per-case forked RNGs (deterministic).
func parallel(c *Ctx, n int, f func(i int, r *RNG)) {
	seeds := make([]uint64, n)
	for i := range seeds {
		seeds[i] = c.Rng.Next()
	}
	var wg sync.WaitGroup
	ch := make(chan int, 64)
	for w := 0; w < 16; w++ {
		wg.Add(1)
		go func() {
			defer wg.Done()
			for i := range ch {
				f(i, NewRNG(seeds[i]))
			}
		}()
	}
	for i := 0; i < n; i++ {
		ch <- i
	}
	close(ch)
	wg.Wait()
}

func main() {
	prop := flag.String("prop", "", "property id")
	tier := flag.String("tier", "quick", "quick|thorough")
	seed := flag.Uint64("seed", 1, "seed")
	out := flag.String("out", "", "result json")
	driverPath := flag.String("driver", "", "extracted model driver")
	scale := flag.Int("scale", 1, "budget multiplier")
	replay := flag.String("replay", "", "replay file")
	work := flag.String("work", "", "scratch dir")
	corpus := flag.String("corpus", "", "corpus dir")
	fzfbin := flag.String("fzf", "", "fzf binary")
	coqcases := flag.String("coqcases", "", "where to write cases.v")
	flag.Parse()
	run, ok := runners[*prop]
	if !ok {
		fmt.Fprintf(os.Stderr, "unknown property %q\n", *prop)
		os.Exit(2)
	}
	rep := &Report{Property: *prop, Tier: *tier, Seed: *seed, Distribution: map[string]int{},
		KnownSeen: map[string]string{}, distinct: map[string]bool{}, Samples: []interface{}{},
		Disagree: []Disagreement{}, Extra: map[string]interface{}{}}
	// the extracted model recurses over long lists (unary nat, non-tail-recursive list functions): give the driver
	// processes (children of this one) a deep stack
	var rl syscall.Rlimit
	if syscall.Getrlimit(syscall.RLIMIT_STACK, &rl) == nil {
		want := uint64(4 << 30)
		if rl.Max < want {
			want = rl.Max
		}
		if rl.Cur < want {
			rl.Cur = want
			syscall.Setrlimit(syscall.RLIMIT_STACK, &rl)
		}
	}
	m := NewModel(*driverPath)
	ctx := &Ctx{Tier: *tier, Seed: *seed, Rng: NewRNG(*seed), Model: m, Rep: rep, Scale: *scale,
		Replay: *replay, Work: *work, Corpus: *corpus, Fzf: *fzfbin}
	t0 := time.Now()
	run(ctx)
	m.Close()
	rep.ModelCalls = m.Calls
	if *coqcases != "" {
		n, err := m.WriteCoqCases(*coqcases)
		if err == nil {
			rep.CoqCases = *coqcases
			rep.CoqCasesN = n
		}
	}
	rep.Extra["harness_wall_s"] = time.Since(t0).Seconds()
	sort.Slice(rep.Disagree, func(i, j int) bool { return rep.Disagree[i].Kind > rep.Disagree[j].Kind }) // spec first
	b, _ := json.MarshalIndent(rep, "", " ")
	if *out != "" {
		os.WriteFile(*out, b, 0644)
	} else {
		os.Stdout.Write(b)
	}
}

// corpusFiles lists the corpus cases for a property (run first).
func corpusFiles(c *Ctx) []string {
	if c.Corpus == "" {
		return nil
	}
	ents, err := os.ReadDir(c.Corpus)
	if err != nil {
		return nil
	}
	var out []string
	for _, e := range ents {
		out = append(out, c.Corpus+"/"+e.Name())
	}
	sort.Strings(out)
	return out
}
