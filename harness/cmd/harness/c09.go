package main

// C09 — query line, list cursor and selection evolve as the actions prescribe.
// Live fzf (built from the working tree) runs under the pty library; random action histories are sent
// through --listen (and typed keys through the terminal) in synchronised steps.  After every step
//   corr: (query, position, current index, selected indexes in order, result count) == extracted model (op 901)
//   spec: the same observables == the spec interface machine (op 902) fed with the same actions and with the
//         result lists the implementation reported; plus the one-state predicates cursor_inv / sel_limit (op 905)
// cx is observed through put(¦) steps.  At the end `accept`: stdout == model output() (903) and
// == spec_output of the last observed state (904), exit status 0/1.
// The --multi limit is part of the state: change-multi / change-multi(N) steps change it (session runs 906 / 907
// return the limit afterwards), and the one-state predicate sel_limit is evaluated with the limit IN FORCE
// according to the spec (so "multi-select switched off but lines still selected" is a violation by itself).

import (
	"encoding/json"
	"errors"
	"fmt"
	"os"
	"strconv"
	"strings"
	"sync"
	"sync/atomic"
	"time"
	"unicode"
)

type c09Act struct {
	Name string `json:"name"`
	Arg  string `json:"arg,omitempty"`
}

type c09Step struct {
	Kind string   `json:"kind"` // post | keys | reload
	Acts []c09Act `json:"acts,omitempty"`
	Keys string   `json:"keys,omitempty"`
}

type c09Cfg struct {
	Lines    []string `json:"lines"`
	Height   int      `json:"height"` // 0 = full screen
	Rows     int      `json:"rows"`
	Layout   string   `json:"layout"`
	Multi    int      `json:"multi"` // -1 off, 0 unlimited, k
	Cycle    bool     `json:"cycle"`
	Track    bool     `json:"track"`
	NoInput  bool     `json:"noinput"`
	Disabled bool     `json:"disabled"`
	FileWord bool     `json:"fileword"`
	Query    string   `json:"query"`
}

type c09Case struct {
	Cfg   c09Cfg    `json:"cfg"`
	Steps []c09Step `json:"steps"`
	End   string    `json:"end"` // accept | abort
}

type c09ActInfo struct {
	tag  int
	cat  int // 0 edit, 1 cursor, 2 selection
	argk int // 0 none, 1 string, 2 int, 3 optional raw argument (change-multi)
}

var c09Actions = map[string]c09ActInfo{
	"put": {1, 0, 1}, "backward-delete-char": {2, 0, 0}, "delete-char": {3, 0, 0},
	"backward-char": {4, 0, 0}, "forward-char": {5, 0, 0}, "beginning-of-line": {6, 0, 0}, "end-of-line": {7, 0, 0},
	"kill-line": {8, 0, 0}, "unix-line-discard": {9, 0, 0}, "unix-word-rubout": {10, 0, 0},
	"backward-kill-word": {11, 0, 0}, "backward-word": {12, 0, 0}, "forward-word": {13, 0, 0}, "kill-word": {14, 0, 0},
	"yank": {15, 0, 0}, "clear-query": {16, 0, 0}, "cancel": {17, 0, 0}, "change-query": {18, 0, 1}, "replace-query": {19, 0, 0},
	"up": {20, 1, 0}, "down": {21, 1, 0}, "first": {22, 1, 0}, "last": {23, 1, 0}, "pos": {24, 1, 2},
	"page-up": {25, 1, 0}, "page-down": {26, 1, 0}, "half-page-up": {27, 1, 0}, "half-page-down": {28, 1, 0},
	"toggle": {29, 2, 0}, "toggle-in": {30, 2, 0}, "toggle-out": {31, 2, 0}, "select": {32, 2, 0}, "deselect": {33, 2, 0},
	"select-all": {34, 2, 0}, "deselect-all": {35, 2, 0}, "toggle-all": {36, 2, 0}, "clear-selection": {37, 2, 0},
	// composite names (options.go parses them into two actions)
	"toggle-down": {-1, 2, 0}, "toggle-up": {-2, 2, 0},
	// the --multi limit itself
	"change-multi": {41, 2, 3},
}

var c09EditNames, c09CursorNames, c09SelNames []string

func init() {
	for _, n := range []string{"put", "put", "put", "backward-delete-char", "delete-char", "backward-char", "backward-char", "forward-char",
		"beginning-of-line", "end-of-line", "kill-line", "unix-line-discard", "unix-word-rubout", "backward-kill-word",
		"backward-word", "backward-word", "forward-word", "forward-word", "kill-word", "yank", "yank", "clear-query", "cancel", "change-query", "replace-query"} {
		c09EditNames = append(c09EditNames, n)
	}
	c09CursorNames = []string{"up", "up", "down", "down", "first", "last", "pos", "page-up", "page-down", "half-page-up", "half-page-down"}
	c09SelNames = []string{"toggle", "toggle", "toggle-in", "toggle-out", "toggle-down", "toggle-up", "select", "deselect", "select-all", "deselect-all", "toggle-all", "clear-selection", "change-multi"}
	runners["C09"] = runC09
}

func c09ActVals(a c09Act) []Val {
	info := c09Actions[a.Name]
	switch info.tag {
	case -1:
		return []Val{L(I(29)), L(I(21))}
	case -2:
		return []Val{L(I(29)), L(I(20))}
	}
	switch info.argk {
	case 3:
		// the argument as the user wrote it: none, a decimal integer (strconv.Atoi, as documented: NUM), anything else
		if a.Arg == "" {
			return []Val{L(I(info.tag), I(0), I(0))}
		}
		if n, err := strconv.Atoi(a.Arg); err == nil {
			return []Val{L(I(info.tag), I(1), I(n))}
		}
		return []Val{L(I(info.tag), I(2), I(0))}
	case 1:
		return []Val{L(I(info.tag), Runes([]rune(a.Arg)))}
	case 2:
		n := 0
		fmt.Sscanf(a.Arg, "%d", &n)
		return []Val{L(I(info.tag), I(n))}
	}
	return []Val{L(I(info.tag))}
}

func c09ActText(a c09Act) string {
	if c09Actions[a.Name].argk == 3 && a.Arg == "" {
		return a.Name
	}
	if c09Actions[a.Name].argk != 0 {
		return a.Name + "(" + a.Arg + ")"
	}
	return a.Name
}

type c09Item struct {
	Index int
	Text  string
}

func c09Items(xs []FzfItem) Val {
	vs := make([]Val, len(xs))
	for i, x := range xs {
		vs[i] = L(I(x.Index), Runes([]rune(x.Text)))
	}
	return L(vs...)
}

func c09Idx(xs []FzfItem) []int {
	r := make([]int, len(xs))
	for i, x := range xs {
		r[i] = x.Index
	}
	return r
}

func valItemsIdx(v Val) []int {
	r := make([]int, len(v.L))
	for i, x := range v.L {
		r[i] = int(x.L[0].I)
	}
	return r
}

func eqInts(a, b []int) bool {
	if len(a) != len(b) {
		return false
	}
	for i := range a {
		if a[i] != b[i] {
			return false
		}
	}
	return true
}

const c09Alphabet = "abcABz12 /.-_é¦日"

// the characters of the multi-byte words used by the directed word-motion profile (the spec is told which are letters)
const c09WordChars = "héllowörld日本ünïañb©opyßx"

func c09Alnum(cfg c09Cfg) Val {
	seen := map[rune]bool{}
	out := []Val{}
	add := func(s string) {
		for _, r := range s {
			if !seen[r] {
				seen[r] = true
				if unicode.IsLetter(r) || unicode.IsNumber(r) {
					out = append(out, I(int(r)))
				}
			}
		}
	}
	add(c09Alphabet + "x" + cfg.Query + c09ExtraLine + c09WordChars)
	for _, l := range cfg.Lines {
		add(l)
	}
	return L(out...)
}

func c09MaxItems(cfg c09Cfg) int {
	h := cfg.Height
	if h == 0 {
		h = cfg.Rows
	}
	if cfg.NoInput {
		return h
	}
	return h - 2
}

// the cfg.Multi encoding (-1 off, 0 unlimited, k) of a limit (0 off, 2147483647 unlimited, k)
func c09MultiOfLimit(limit int) int {
	switch {
	case limit <= 0:
		return -1
	case limit == 2147483647:
		return 0
	}
	return limit
}

// an argument of change-multi: mostly a limit (off, small, the one in force, no argument = unlimited), sometimes not a limit at all
func c09GenLimitArg(r *RNG, cfg c09Cfg) string {
	cur := c09MultiZ(cfg)
	switch r.Intn(12) {
	case 0, 1, 2:
		return "0"
	case 3, 4:
		return ""
	case 5:
		return fmt.Sprint(cur) // the limit in force
	case 6:
		return Pick(r, []string{"-1", "-0", "x", "1x", "2.5", " 2", "99999999999999999999", "007", "2147483647", "2147483648"})
	}
	return fmt.Sprint(Pick(r, []int{1, 1, 2, 2, 3, 4, 5, 12, 300}))
}

func c09MultiZ(cfg c09Cfg) int {
	switch {
	case cfg.Multi < 0:
		return 0
	case cfg.Multi == 0:
		return 2147483647
	}
	return cfg.Multi
}

func c09Args(cfg c09Cfg) []string {
	// the load binding only writes a marker: it tells the harness that the list of a reload has been installed
	args := []string{"--layout=" + cfg.Layout, "--no-mouse", "--bind=load:execute-silent(echo>>loaded)"}
	if cfg.Height > 0 {
		args = append(args, fmt.Sprintf("--height=%d", cfg.Height))
	} else {
		args = append(args, "--no-height")
	}
	switch {
	case cfg.Multi < 0:
		args = append(args, "--no-multi")
	case cfg.Multi == 0:
		args = append(args, "--multi")
	default:
		args = append(args, fmt.Sprintf("--multi=%d", cfg.Multi))
	}
	if cfg.Cycle {
		args = append(args, "--cycle")
	}
	if cfg.Track {
		args = append(args, "--track")
	}
	if cfg.NoInput {
		args = append(args, "--no-input")
	}
	if cfg.Disabled {
		args = append(args, "--disabled")
	}
	if cfg.FileWord {
		args = append(args, "--filepath-word")
	}
	if cfg.Query != "" {
		args = append(args, "--query="+cfg.Query)
	}
	return args
}

// one observed state, projected
type c09Obs struct {
	Query    string `json:"query"`
	Pos      int    `json:"pos"`
	Current  int    `json:"current"` // -1 none
	Selected []int  `json:"selected"`
	Count    int    `json:"count"`
}

func c09ObsOf(st *FzfState) c09Obs {
	o := c09Obs{Query: st.Query, Pos: st.Position, Current: -1, Selected: c09Idx(st.Selected), Count: st.MatchCount}
	if st.Current != nil {
		o.Current = st.Current.Index
	}
	return o
}

func clampInt(v, lo, hi int) int {
	if v < lo {
		return lo
	}
	if v > hi {
		return hi
	}
	return v
}

// model state (val) -> projected observation; position is compared after the clamp a redraw applies
func c09ObsOfModel(st Val) c09Obs {
	res := st.L[3].L
	cy := int(st.L[4].I)
	o := c09Obs{Query: st.L[0].RuneStr(), Current: -1, Selected: valItemsIdx(st.L[6]), Count: len(res)}
	o.Pos = clampInt(cy, 0, max(0, len(res)-1))
	if cy >= 0 && cy < len(res) {
		o.Current = int(res[cy].L[0].I)
	}
	return o
}

func c09ObsOfSpec(ss Val) c09Obs {
	res := ss.L[3].L
	before := ss.L[0].L
	q := make([]rune, 0, len(before)+len(ss.L[1].L))
	for i := len(before) - 1; i >= 0; i-- {
		q = append(q, rune(before[i].I))
	}
	for _, x := range ss.L[1].L {
		q = append(q, rune(x.I))
	}
	pos := int(ss.L[4].I)
	o := c09Obs{Query: string(q), Pos: pos, Current: -1, Selected: valItemsIdx(ss.L[5]), Count: len(res)}
	if pos >= 0 && pos < len(res) {
		o.Current = int(res[pos].L[0].I)
	}
	return o
}

func (a c09Obs) eq(b c09Obs) bool {
	return a.Query == b.Query && a.Pos == b.Pos && a.Current == b.Current && a.Count == b.Count && eqInts(a.Selected, b.Selected)
}

type c09Stats struct {
	traces, specChecks, steps, actions int64
}

type c09Session struct {
	c      *Ctx
	cs     c09Case
	s      *Session
	cfgV   Val
	spV    Val
	model  Val // st
	spec   Val // sstate
	stats  *c09Stats
	failed bool
	lines  []string // current input lines (a reload alternates between cfg.Lines and cfg.Lines + one more line)
	limit  int      // the --multi limit in force according to the spec (0 = multi-select off); changed by change-multi steps
}

// runModel / runSpec: one session run (ops 906 / 907) of the given events from the current state; the limit afterwards
// is written back into the parameters.  false (after reporting) when the model fails.
func (x *c09Session) runModel(k int, evs Val) bool {
	mv := x.c.Model.Call(906, L(x.cfgV, x.model, evs))
	if len(mv.L) != 2 {
		x.report("corr", "corr:C09.model_error", k, "implementation went on", "model returned "+mv.String(), "")
		return false
	}
	x.model = mv.L[0]
	cv := append([]Val{}, x.cfgV.L...)
	cv[0] = mv.L[1]
	x.cfgV = L(cv...)
	return true
}

func (x *c09Session) runSpec(evs Val) {
	sv := x.c.Model.Call(907, L(x.spV, x.spec, evs))
	if len(sv.L) != 2 {
		return
	}
	x.spec = sv.L[0]
	pv := append([]Val{}, x.spV.L...)
	pv[0] = sv.L[1]
	x.spV = L(pv...)
	x.limit = int(sv.L[1].I)
}

const c09ExtraLine = "zz9 reloaded"

func (x *c09Session) loads() int {
	b, _ := os.ReadFile(x.s.Dir + "/loaded")
	return len(b)
}

// specFromModel: the spec state that corresponds to the model state (used to go on after a classified difference)
func c09SpecFromModel(m Val) Val {
	inp := m.L[0].L
	cx := int(m.L[1].I)
	before := []Val{}
	for i := cx - 1; i >= 0; i-- {
		before = append(before, inp[i])
	}
	res := m.L[3].L
	pos := clampInt(int(m.L[4].I), 0, max(0, len(res)-1))
	return L(L(before...), L(append([]Val{}, inp[cx:]...)...), m.L[2], m.L[3], I(pos), m.L[6])
}

// itemsIntact: every listed line still has the text it was read with (C06/C07 territory, but a corrupted
// line makes every later comparison meaningless).  Returns false after reporting.
func (x *c09Session) itemsIntact(k int, obs *FzfState) bool {
	for _, m := range obs.Matches {
		if m.Index < 0 || m.Index >= len(x.lines) || x.lines[m.Index] != m.Text {
			want := "(no such line)"
			if m.Index >= 0 && m.Index < len(x.lines) {
				want = x.lines[m.Index]
			}
			x.report("spec", "items_unaltered", k, m, want, "")
			return false
		}
	}
	return true
}

func (x *c09Session) report(kind, name string, upto int, impl, expect interface{}, known string) {
	cs := x.cs
	if upto < len(cs.Steps) {
		cs.Steps = append([]c09Step{}, cs.Steps[:upto+1]...)
	}
	x.c.Rep.Disagreement(Disagreement{Kind: kind, Name: name, Input: cs, Impl: impl, Expect: expect, Known: known})
	if known == "" {
		x.failed = true
	}
}

// expected result list of the current query: a fresh `fzf --filter` run of the same binary
func (x *c09Session) filterList(query string) ([]int, bool) {
	var b strings.Builder
	for _, l := range x.lines {
		b.WriteString(l)
		b.WriteByte('\n')
	}
	out, _, code := RunFzf(x.c, []string{"--filter=" + query}, []byte(b.String()))
	if code != 0 && code != 1 {
		return nil, false
	}
	byText := map[string]int{}
	for i, l := range x.lines {
		byText[l] = i
	}
	res := []int{}
	for _, l := range strings.Split(strings.TrimSuffix(out, "\n"), "\n") {
		if l == "" && out == "" {
			break
		}
		i, ok := byText[l]
		if !ok {
			return nil, false
		}
		res = append(res, i)
	}
	return res, true
}

func c09QueryChanging(st c09Step) bool {
	if st.Kind == "keys" {
		return true
	}
	for _, a := range st.Acts {
		if c09Actions[a.Name].cat == 0 {
			return true
		}
	}
	return false
}

// runStep executes step k on the implementation, the model and the spec and compares.
func (x *c09Session) runStep(k int) bool {
	st := x.cs.Steps[k]
	cfg := x.cs.Cfg
	s := x.s
	prevModel := c09ObsOfModel(x.model)
	acts := []Val{}
	tolerateSpec := "" // known-finding id under which a spec mismatch of this step is classified
	switch st.Kind {
	case "post":
		names := []string{}
		for _, a := range st.Acts {
			names = append(names, c09ActText(a))
			acts = append(acts, c09ActVals(a)...)
		}
		if err := s.Post(strings.Join(names, "+")); err != nil {
			x.report("corr", "corr:C09.post", k, err.Error(), "HTTP 200", "")
			return false
		}
		if err := s.Sync(); err != nil {
			x.report("spec", "no_crash", k, "sync: "+err.Error()+" crash="+s.Crash(), "event loop alive", "")
			return false
		}
		atomic.AddInt64(&x.stats.actions, int64(len(acts)))
	case "keys":
		for _, r := range st.Keys {
			acts = append(acts, L(I(0), I(int(r))))
		}
		s.SendKeys([]byte(st.Keys))
		atomic.AddInt64(&x.stats.actions, int64(len(acts)))
	case "reload":
		// alternate between the original list and the list plus one line, so that the end of the reload is observable
		file := "stdin2"
		if len(x.lines) > len(cfg.Lines) {
			file = "stdin"
			x.lines = cfg.Lines
		} else {
			x.lines = append(append([]string{}, cfg.Lines...), c09ExtraLine)
		}
		loadsBefore := x.loads()
		if err := s.Post("reload-sync(cat " + file + ")"); err != nil {
			x.report("corr", "corr:C09.post", k, err.Error(), "HTTP 200", "")
			return false
		}
		deadline := time.Now().Add(10 * time.Second)
		for x.loads() <= loadsBefore {
			if time.Now().After(deadline) || s.Exited() {
				x.report("corr", "corr:C09.reload_completes", k, "no load event within 10 s; crash="+s.Crash(), "load event", "")
				return false
			}
			time.Sleep(500 * time.Microsecond)
		}
		s.Sync()
	}
	// --- model and spec predictions for the actions of this event
	if st.Kind != "reload" {
		evAll := append(append([]Val{}, acts...), L(I(38)), L(I(39)))
		if !x.runModel(k, L(evAll...)) {
			return false
		}
		x.runSpec(L(evAll...))
	}
	// typed keys are not ordered with POSTs: wait until the query shows them
	if st.Kind == "keys" {
		want := c09ObsOfModel(x.model).Query
		if _, ok := s.WaitFor(func(f *FzfState) bool { return f.Query == want }, 10*time.Second); !ok {
			g, _ := s.Get()
			x.report("corr", "corr:C09.typed_keys", k, g, want, "")
			return false
		}
		s.Sync()
	}
	// --- result list: static under --disabled, otherwise wait for the search of the new query
	var obs *FzfState
	var err error
	if st.Kind == "reload" || (!cfg.Disabled && c09QueryChanging(st)) {
		q := c09ObsOfModel(x.model).Query
		if cfg.NoInput {
			q = prevModel.Query
		}
		var want []int
		ok := true
		if cfg.Disabled {
			want = make([]int, len(x.lines))
			for i := range want {
				want[i] = i
			}
		} else {
			want, ok = x.filterList(q)
		}
		if ok {
			var conv bool
			obs, conv = s.WaitFor(func(f *FzfState) bool {
				return !f.Reading && f.TotalCount == len(x.lines) && eqInts(c09Idx(f.Matches), want)
			}, 5*time.Second)
			if !conv && obs != nil && !x.itemsIntact(k, obs) {
				return false
			}
			if !conv && obs != nil {
				// the list must become the list of the current query (an in-place same-length rewrite of the query once
				// started no search: fixed in ba157bc, repro in corpus/C09/02)
				x.report("corr", "corr:C09.list_converges", k, c09Idx(obs.Matches), want, "")
				return false
			}
		}
		if obs == nil {
			obs, err = s.Get()
			if err != nil {
				x.report("spec", "no_crash", k, "GET: "+err.Error()+" crash="+s.Crash(), "state", "")
				return false
			}
		}
		if st.Kind == "reload" {
			atomic.AddInt64(&x.stats.specChecks, 1)
			if len(obs.Selected) != 0 {
				x.report("spec", "reload_clears", k, c09Idx(obs.Selected), []int{}, "")
				return false
			}
			// intermediate lists of a reload are timing dependent: normalise the cursor
			up := L(L(I(40), c09Items(obs.Matches), I(1)), L(I(39)), L(I(22)), L(I(39)))
			if !x.runModel(k, up) {
				return false
			}
			x.runSpec(up)
			if err := s.PostSync("first"); err != nil {
				x.report("spec", "no_crash", k, err.Error(), "alive", "")
				return false
			}
		} else {
			specBefore := c09ObsOfSpec(x.spec)
			up := L(L(I(40), c09Items(obs.Matches), I(0)), L(I(39)))
			if !x.runModel(k, up) {
				return false
			}
			x.runSpec(up)
			// --track: where the cursor goes when its line left the list is not specified
			if cfg.Track && specBefore.Current >= 0 {
				still := false
				for _, m := range obs.Matches {
					if m.Index == specBefore.Current {
						still = true
					}
				}
				if still {
					// spec: the cursor follows its line
					for p, m := range obs.Matches {
						if m.Index == specBefore.Current {
							x.spec.L[4] = I(p)
						}
					}
				} else {
					tolerateSpec = "resync"
				}
			} else if cfg.Track {
				tolerateSpec = "resync"
			}
		}
		// the redraw that follows the list update (and clamps the cursor into the new list) is asynchronous: the cursor
		// designates a line of the new list EVENTUALLY; what is seen after 5 s is judged as it is
		time.Sleep(time.Millisecond)
		obs, _ = s.WaitFor(func(f *FzfState) bool {
			return f.MatchCount == 0 || (f.Position >= 0 && f.Position < f.MatchCount && f.Current != nil)
		}, 5*time.Second)
		err = nil
		if obs == nil {
			obs, err = s.Get()
		}
	} else {
		obs, err = s.Get()
	}
	if err != nil {
		x.report("spec", "no_crash", k, "GET: "+err.Error()+" crash="+s.Crash(), "state", "")
		return false
	}
	if cr := s.Crash(); cr != "" {
		x.report("spec", "no_crash", k, cr, "no panic", "")
		return false
	}
	if !x.itemsIntact(k, obs) {
		return false
	}
	// --- compare
	io := c09ObsOf(obs)
	io.Pos = clampInt(io.Pos, 0, max(0, io.Count-1)) // a GET can come before the redraw that clamps the cursor
	mo := c09ObsOfModel(x.model)
	so := c09ObsOfSpec(x.spec)
	if os.Getenv("VERIF_DEBUG") != "" {
		fmt.Fprintf(os.Stderr, "step %d %v impl=%+v model=%+v spec=%+v\n", k, st, io, mo, so)
	}
	atomic.AddInt64(&x.stats.steps, 1)
	for _, ac := range st.Acts {
		if ac.Name == "change-multi" {
			x.c.Rep.Count("change-multi")
			if len(prevModel.Selected) > 0 {
				x.c.Rep.Count("change-multi with lines selected")
			}
			break
		}
	}
	key, _ := json.Marshal([]interface{}{cfg.Layout, cfg.Multi, cfg.Cycle, st, prevModel})
	x.c.Rep.Eval(string(key), !mo.eq(prevModel))
	// one-state predicates of the spec on the implementation's state
	cur := L()
	if obs.Current != nil {
		cur = L(I(obs.Current.Index))
	}
	pv := x.c.Model.Call(905, L(I(x.limit), I(obs.MatchCount), I(io.Pos), cur, Ints(c09Idx(obs.Matches)), Ints(io.Selected)))
	atomic.AddInt64(&x.stats.specChecks, 2)
	if len(pv.L) == 2 {
		if pv.L[0].I != 1 {
			x.report("spec", "cursor_inv", k, io, "count = 0 and no current line, or 0 <= position < count and current = matches[position]", "")
			return false
		}
		if pv.L[1].I != 1 {
			x.report("spec", "sel_limit", k, io, fmt.Sprintf("at most %d distinct selected lines (the --multi limit in force; 0 = multi-select is off)", x.limit), "")
			return false
		}
	}
	if !io.eq(so) {
		name := "query_is_readline"
		if io.Query == so.Query {
			name = "cursor_follows_actions"
			if io.Pos == so.Pos && io.Current == so.Current {
				name = "selection_follows_rules"
			}
		}
		known := ""
		if tolerateSpec == "resync" && io.Query == so.Query && eqInts(io.Selected, so.Selected) {
			known = "-"
		} else if io.eq(mo) && c09HasToggleInOut(st) {
			// man page: toggle-in = toggle+down / toggle+up; the code moves only when the toggle succeeded
			// (later actions of the same list then start from another line)
			known = "toggle-in-moves-only-on-success"
		}
		if known != "-" {
			x.report("spec", name, k, io, so, known)
			if known == "" {
				return false
			}
		}
		// continue from the implementation's state
		if known == "toggle-in-moves-only-on-success" {
			x.spec = c09SpecFromModel(x.model)
		} else {
			x.spec.L[4] = I(io.Pos)
		}
	}
	atomic.AddInt64(&x.stats.specChecks, 1)
	if !io.eq(mo) {
		x.report("corr", "corr:C09.do_action", k, io, mo, "")
		return false
	}
	return true
}

func c09HasToggleInOut(st c09Step) bool {
	for _, a := range st.Acts {
		if a.Name == "toggle-in" || a.Name == "toggle-out" {
			return true
		}
	}
	return false
}

// c09Run runs one session; steps are taken from cs.Steps, or generated (gen != nil) up to nSteps.
func c09Run(c *Ctx, cs c09Case, gen *RNG, nSteps int, stats *c09Stats) c09Case {
	cfg := cs.Cfg
	rows := cfg.Rows
	s, err := StartSession(c, SessionOpts{Args: c09Args(cfg), Lines: cfg.Lines, Cols: 70, Rows: rows})
	if err != nil {
		c.Rep.Disagreement(Disagreement{Kind: "corr", Name: "corr:C09.start", Input: cs, Impl: err.Error(), Expect: "fzf starts"})
		return cs
	}
	defer s.Close()
	atomic.AddInt64(&stats.traces, 1)
	x := &c09Session{c: c, cs: cs, s: s, stats: stats, lines: cfg.Lines, limit: c09MultiZ(cfg)}
	{
		var b strings.Builder
		for _, l := range cfg.Lines {
			b.WriteString(l + "\n")
		}
		b.WriteString(c09ExtraLine + "\n")
		os.WriteFile(s.Dir+"/stdin2", []byte(b.String()), 0600)
	}
	alnum := c09Alnum(cfg)
	x.cfgV = L(I(c09MultiZ(cfg)), B(cfg.Cycle), B(cfg.Layout == "default"), B(cfg.NoInput), B(cfg.Track),
		I(c09MaxItems(cfg)), I(3), B(cfg.FileWord), alnum)
	x.spV = L(I(c09MultiZ(cfg)), B(cfg.Cycle), B(cfg.Layout != "default"), I(c09MaxItems(cfg)), B(cfg.NoInput), B(cfg.FileWord), alnum)
	// initial state: wait for the list of the initial query
	want := []int{}
	ok := true
	if cfg.Disabled {
		for i := range cfg.Lines {
			want = append(want, i)
		}
	} else {
		want, ok = x.filterList(cfg.Query)
	}
	var st0 *FzfState
	if ok {
		st0, ok = s.WaitFor(func(f *FzfState) bool {
			return !f.Reading && f.TotalCount == len(cfg.Lines) && eqInts(c09Idx(f.Matches), want)
		}, 10*time.Second)
	}
	if !ok || st0 == nil {
		x.report("corr", "corr:C09.initial_list", -1, st0, want, "")
		return x.cs
	}
	s.Sync()
	st0, _ = s.Get()
	q := Runes([]rune(cfg.Query))
	x.model = L(q, I(len(q.L)), L(), c09Items(st0.Matches), I(st0.Position), I(0), L())
	rq := []Val{}
	for i := len(q.L) - 1; i >= 0; i-- {
		rq = append(rq, q.L[i])
	}
	x.spec = L(L(rq...), L(), L(), c09Items(st0.Matches), I(st0.Position), L())
	if gen != nil {
		x.cs.Steps = nil
	}
	for k := 0; ; k++ {
		if gen != nil {
			if k >= nSteps && k >= len(x.cs.Steps) {
				break
			}
			if k >= len(x.cs.Steps) {
				gcfg := cfg
				gcfg.Multi = c09MultiOfLimit(x.limit) // the limit of the moment
				x.cs.Steps = append(x.cs.Steps, c09GenStep(gen, gcfg, c09ObsOfModel(x.model), k)...)
			}
		} else if k >= len(x.cs.Steps) {
			break
		}
		if !x.runStep(k) {
			return x.cs
		}
	}
	if gen != nil && len(x.cs.Steps) > 0 {
		c.Rep.Sample(map[string]interface{}{"args": c09Args(cfg), "lines": len(cfg.Lines), "first_steps": x.cs.Steps[:min(4, len(x.cs.Steps))]})
	}
	// --- end of the session
	last, err := s.Get()
	if err != nil {
		x.report("spec", "no_crash", len(x.cs.Steps), "GET: "+err.Error(), "state", "")
		return x.cs
	}
	if x.cs.End == "abort" {
		if err := s.Post("abort"); err != nil && !errors.Is(err, ErrGone) {
			x.report("corr", "corr:C09.post", len(x.cs.Steps), err.Error(), "200 or lost answer", "")
		}
		out, code, ok := s.Wait(10 * time.Second)
		if !ok || code != 130 || out != "" {
			x.report("spec", "abort_prints_nothing", len(x.cs.Steps), fmt.Sprintf("%q code=%d exited=%v", out, code, ok), "\"\" code=130", "")
		}
		return x.cs
	}
	if err := s.Post("accept"); err != nil && !errors.Is(err, ErrGone) {
		x.report("corr", "corr:C09.post", len(x.cs.Steps), err.Error(), "200 or lost answer", "")
		return x.cs
	}
	out, code, exited := s.Wait(10 * time.Second)
	if !exited {
		x.report("spec", "accept_exits", len(x.cs.Steps), "still running; crash="+s.Crash(), "exit", "")
		return x.cs
	}
	got := []string{}
	if out != "" {
		got = strings.Split(strings.TrimSuffix(out, "\n"), "\n")
	}
	texts := func(v Val) []string {
		r := []string{}
		for _, it := range v.L {
			r = append(r, it.L[1].RuneStr())
		}
		return r
	}
	// spec on the implementation's last observed state
	curV := L()
	if last.Current != nil {
		curV = L(L(I(last.Current.Index), Runes([]rune(last.Current.Text))))
	}
	sv := c.Model.Call(904, L(c09Items(last.Selected), curV))
	wantS := texts(sv)
	atomic.AddInt64(&stats.specChecks, 1)
	wantCode := 0
	if len(wantS) == 0 {
		wantCode = 1
	}
	if strings.Join(got, "\n") != strings.Join(wantS, "\n") || len(got) != len(wantS) || code != wantCode {
		x.report("spec", "accept_prints_selection_or_current", len(x.cs.Steps), map[string]interface{}{"stdout": got, "code": code},
			map[string]interface{}{"stdout": wantS, "code": wantCode}, "")
		return x.cs
	}
	mv := c.Model.Call(903, L(x.cfgV, x.model))
	// the model's cursor is clamped by the last redraw already (ARender closes every event)
	if wantM := texts(mv); strings.Join(got, "\n") != strings.Join(wantM, "\n") || len(got) != len(wantM) {
		x.report("corr", "corr:C09.output", len(x.cs.Steps), got, wantM, "")
	}
	return x.cs
}

func c09RandText(r *RNG, n int, cfg c09Cfg) string {
	al := []rune(c09Alphabet)
	if !cfg.Disabled {
		al = []rune("abcabcAB12 /.é")
	}
	out := make([]rune, n)
	for i := range out {
		out[i] = al[r.Intn(len(al))]
	}
	return string(out)
}

// c09GenStep proposes the next step(s) given the model's view of the state (so that e.g. `cancel`
// is never sent on an empty query, which would abort).
func c09GenStep(r *RNG, cfg c09Cfg, cur c09Obs, k int) []c09Step {
	genAct := func(names []string) c09Act {
		for {
			n := Pick(r, names)
			a := c09Act{Name: n}
			switch n {
			case "put":
				a.Arg = c09RandText(r, r.Range(1, 4), cfg)
			case "change-query":
				switch {
				case cfg.Disabled && r.Chance(1, 6):
					a.Arg = strings.Repeat("x", r.Range(995, 1003)) // around the 1000-rune limit
				case r.Chance(1, 5):
					a.Arg = ""
				default:
					a.Arg = c09RandText(r, r.Range(1, 6), cfg)
				}
			case "pos":
				a.Arg = fmt.Sprint(Pick(r, []int{0, 1, 2, 3, -1, -2, 7, cur.Count, cur.Count + 1, -cur.Count, -cur.Count - 1, r.Range(-310, 310)}))
			case "change-multi":
				a.Arg = c09GenLimitArg(r, cfg)
			case "cancel":
				if cur.Query == "" || cfg.NoInput {
					continue // would abort
				}
			}
			return a
		}
	}
	queryLen := len([]rune(cur.Query))
	kind := r.Intn(26)
	marker := []c09Step{{Kind: "post", Acts: []c09Act{{Name: "put", Arg: "¦"}}}, {Kind: "post", Acts: []c09Act{{Name: "backward-delete-char"}}}}
	switch {
	case kind >= 24 && cfg.Disabled && !cfg.NoInput:
		// word motions and word kills on a query of multi-byte words: the cursor counts runes, not bytes; every motion is
		// followed by the marker so that the cursor position is seen (directed after seeded change C09-4)
		words := []string{"héllo", "wörld", "日本", "ünï", "a", "añb", "x", "é", "©opy", "ß"}
		q := ""
		for i, n := 0, r.Range(2, 4); i < n; i++ {
			if i > 0 {
				q += Pick(r, []string{" ", "  ", "/", " "})
			}
			q += Pick(r, words)
		}
		steps := []c09Step{{Kind: "post", Acts: []c09Act{{Name: "change-query", Arg: q}, {Name: Pick(r, []string{"beginning-of-line", "beginning-of-line", "end-of-line", "backward-word"})}}}}
		for i, n := 0, r.Range(1, 4); i < n; i++ {
			steps = append(steps, c09Step{Kind: "post", Acts: []c09Act{{Name: Pick(r, []string{"forward-word", "forward-word", "backward-word", "kill-word", "backward-kill-word", "unix-word-rubout", "forward-char"})}}})
			steps = append(steps, marker...)
		}
		if r.Chance(1, 2) {
			steps = append(steps, c09Step{Kind: "post", Acts: []c09Act{{Name: "end-of-line"}, {Name: "yank"}}})
		}
		return steps
	case kind >= 22 && kind < 24 && cfg.Disabled && !cfg.NoInput:
		// what was killed must come back unchanged however the query is edited IN PLACE afterwards
		// (directed after seeded change C09-1: the kill buffer shared memory with the query)
		q := c09RandText(r, r.Range(4, 9), cfg)
		steps := []c09Step{{Kind: "post", Acts: []c09Act{{Name: "change-query", Arg: q}, {Name: "beginning-of-line"}}}}
		for i, n := 0, r.Intn(4); i < n; i++ {
			steps[0].Acts = append(steps[0].Acts, c09Act{Name: Pick(r, []string{"forward-char", "forward-char", "forward-word"})})
		}
		steps = append(steps, c09Step{Kind: "post", Acts: []c09Act{{Name: Pick(r, []string{"kill-line", "kill-line", "kill-word", "unix-line-discard", "backward-kill-word", "unix-word-rubout"})}}})
		edits := c09Step{Kind: "post"}
		for i, n := 0, r.Range(1, 4); i < n; i++ {
			switch r.Intn(4) {
			case 0:
				edits.Acts = append(edits.Acts, c09Act{Name: "backward-delete-char"})
			case 1:
				edits.Acts = append(edits.Acts, c09Act{Name: "beginning-of-line"}, c09Act{Name: "put", Arg: c09RandText(r, r.Range(1, 3), cfg)})
			default:
				edits.Acts = append(edits.Acts, c09Act{Name: "put", Arg: c09RandText(r, r.Range(1, 5), cfg)})
			}
		}
		steps = append(steps, edits, c09Step{Kind: "post", Acts: []c09Act{{Name: Pick(r, []string{"end-of-line", "beginning-of-line"})}, {Name: "yank"}}})
		return steps
	case kind >= 20 && kind < 22:
		// the limit changes while lines are selected: select some lines (switching multi-select on first if it is off),
		// change the limit (off / lower / the same / higher / unlimited / not a limit), then act on the selection again under
		// the new limit; every part is its own step, so that the state right after the change is looked at
		steps := []c09Step{}
		if cfg.Multi < 0 || r.Chance(1, 4) {
			steps = append(steps, c09Step{Kind: "post", Acts: []c09Act{{Name: "change-multi", Arg: Pick(r, []string{"", "", "1", "2", "3", "5"})}}})
		}
		sel := c09Step{Kind: "post"}
		switch r.Intn(3) {
		case 0:
			sel.Acts = []c09Act{{Name: "select-all"}}
		case 1:
			sel.Acts = []c09Act{{Name: "toggle"}, genAct(c09CursorNames), {Name: "toggle"}}
		default:
			sel.Acts = []c09Act{{Name: "pos", Arg: "1"}, {Name: "select"}, {Name: "pos", Arg: "2"}, {Name: "select"}, genAct(c09CursorNames), {Name: "toggle"}}
		}
		steps = append(steps, sel)
		chg := c09Step{Kind: "post", Acts: []c09Act{{Name: "change-multi", Arg: c09GenLimitArg(r, cfg)}}}
		if r.Chance(1, 3) {
			// ... or in the middle of an action list
			chg.Acts = append([]c09Act{genAct(c09SelNames)}, chg.Acts...)
			chg.Acts = append(chg.Acts, genAct(c09SelNames))
		}
		steps = append(steps, chg)
		if r.Chance(1, 2) {
			steps = append(steps, c09Step{Kind: "post", Acts: []c09Act{genAct(c09CursorNames)}})
		}
		steps = append(steps, c09Step{Kind: "post", Acts: []c09Act{{Name: Pick(r, []string{"toggle", "select", "select-all", "toggle-all", "toggle-in", "deselect", "clear-selection"})}}})
		if r.Chance(1, 2) {
			steps = append(steps, c09Step{Kind: "post", Acts: []c09Act{{Name: "change-multi", Arg: c09GenLimitArg(r, cfg)}}},
				c09Step{Kind: "post", Acts: []c09Act{{Name: Pick(r, []string{"toggle", "select-all", "toggle-all"})}}})
		}
		return steps
	case kind == 0 && !cfg.NoInput && queryLen < 990:
		// one rune per event: every typed rune starts its own search, and under --track the cursor follows its line
		// through each intermediate list, so the harness lets every search finish before the next key
		return []c09Step{{Kind: "keys", Keys: c09RandText(r, 1, cfg)}}
	case kind == 1 && k > 2:
		return []c09Step{{Kind: "reload"}}
	case kind >= 2 && kind <= 3 && !cfg.Disabled && !cfg.NoInput && cfg.Multi >= 0:
		// selection across query changes: list some lines, select them all, list OTHER lines (the selection survives and may
		// be as large as or larger than the new list), then act on "the current results" again
		t1 := c09RandText(r, 1, cfg)
		t2 := c09RandText(r, 1, cfg)
		for i := 0; i < 5 && t2 == t1; i++ {
			t2 = c09RandText(r, 1, cfg)
		}
		if r.Chance(1, 2) {
			// two queries that list the SAME NUMBER of lines but different ones (a selection exactly as large as the new list)
			sets := map[string][]string{}
			for _, ch := range "abcABC12._/é " {
				key := ""
				for i, l := range cfg.Lines {
					if strings.ContainsRune(strings.ToLower(l), ch) || strings.ContainsRune(l, ch) {
						key += fmt.Sprint(i, ",")
					}
				}
				if key != "" {
					n := fmt.Sprint(strings.Count(key, ","))
					dup := false
					for _, o := range sets[n] {
						dup = dup || o == key+"|"+string(ch)
					}
					if !dup {
						sets[n] = append(sets[n], key+"|"+string(ch))
					}
				}
			}
			for _, n := range []string{"1", "2", "3", "4", "5", "6"} {
				g := sets[n]
				for i := 0; i < len(g); i++ {
					for j := i + 1; j < len(g); j++ {
						ki, kj := g[i][:strings.LastIndex(g[i], "|")], g[j][:strings.LastIndex(g[j], "|")]
						if ki != kj {
							t1, t2 = g[i][strings.LastIndex(g[i], "|")+1:], g[j][strings.LastIndex(g[j], "|")+1:]
						}
					}
				}
			}
		}
		second := Pick(r, []string{"select-all", "select-all", "toggle-all", "deselect-all"})
		return []c09Step{
			{Kind: "post", Acts: []c09Act{{Name: "change-query", Arg: t1}}},
			{Kind: "post", Acts: []c09Act{{Name: "select-all"}}},
			{Kind: "post", Acts: []c09Act{{Name: "change-query", Arg: t2}}},
			{Kind: "post", Acts: []c09Act{{Name: second}}},
			{Kind: "post", Acts: []c09Act{{Name: "change-query", Arg: c09RandText(r, r.Range(0, 1), cfg)}}},
			{Kind: "post", Acts: []c09Act{{Name: Pick(r, []string{"select-all", "toggle-all"})}}},
		}
	case kind < 9: // editing only
		n := Pick(r, []int{1, 1, 1, 2, 2, 3, 4})
		st := c09Step{Kind: "post"}
		for i := 0; i < n; i++ {
			a := genAct(c09EditNames)
			if a.Name == "cancel" && i > 0 {
				a = c09Act{Name: "clear-query"} // the query may be empty by now
			}
			st.Acts = append(st.Acts, a)
		}
		steps := []c09Step{st}
		if cfg.Disabled && !cfg.NoInput && r.Chance(1, 2) && queryLen < 990 {
			// observe cx: insert a marker rune, then remove it again
			steps = append(steps, c09Step{Kind: "post", Acts: []c09Act{{Name: "put", Arg: "¦"}}},
				c09Step{Kind: "post", Acts: []c09Act{{Name: "backward-delete-char"}}})
		}
		return steps
	case kind < 14: // cursor
		n := Pick(r, []int{1, 1, 2, 3})
		st := c09Step{Kind: "post"}
		for i := 0; i < n; i++ {
			st.Acts = append(st.Acts, genAct(c09CursorNames))
		}
		return []c09Step{st}
	case kind < 18: // selection (+ cursor)
		n := Pick(r, []int{1, 1, 2, 3})
		st := c09Step{Kind: "post"}
		for i := 0; i < n; i++ {
			if r.Chance(1, 4) {
				st.Acts = append(st.Acts, genAct(c09CursorNames))
			} else {
				st.Acts = append(st.Acts, genAct(c09SelNames))
			}
		}
		return []c09Step{st}
	default: // mixed list: only when the result list cannot change underneath
		st := c09Step{Kind: "post"}
		n := r.Range(2, 5)
		for i := 0; i < n; i++ {
			var a c09Act
			switch r.Intn(3) {
			case 0:
				if cfg.Disabled {
					a = genAct(c09EditNames)
					if a.Name == "cancel" {
						a = c09Act{Name: "clear-query"}
					}
				} else {
					a = genAct(c09CursorNames)
				}
			case 1:
				a = genAct(c09CursorNames)
			default:
				a = genAct(c09SelNames)
			}
			st.Acts = append(st.Acts, a)
		}
		return []c09Step{st}
	}
}

func c09GenCfg(r *RNG) c09Cfg {
	cfg := c09Cfg{Rows: 40}
	n := Pick(r, []int{0, 1, 5, 5, 300, 300, 12, 40})
	seen := map[string]bool{}
	for i := 0; i < n; i++ {
		for {
			l := c09RandText(r, r.Range(1, 7), c09Cfg{}) // distinct, no leading/trailing-blank subtleties needed: texts are compared verbatim
			l = strings.ReplaceAll(l, "¦", "x")
			if !seen[l] {
				seen[l] = true
				cfg.Lines = append(cfg.Lines, l)
				break
			}
		}
	}
	cfg.Height = Pick(r, []int{5, 6, 7, 8, 10, 12, 15, 20, 24, 30, 0})
	cfg.Layout = Pick(r, []string{"default", "reverse", "reverse-list"})
	cfg.Multi = Pick(r, []int{-1, 0, 0, 1, 3, 3})
	cfg.Cycle = r.Chance(1, 2)
	cfg.Track = r.Chance(1, 4)
	cfg.NoInput = r.Chance(1, 8)
	cfg.Disabled = r.Chance(2, 3)
	if !cfg.Disabled && r.Chance(1, 2) {
		cfg.Multi = 0 // (0 = unlimited) live lists + unlimited selection: the selection can outgrow and outlive the current results
	}
	cfg.FileWord = r.Chance(1, 5)
	if r.Chance(1, 4) {
		cfg.Query = c09RandText(r, r.Range(1, 5), cfg)
	}
	return cfg
}

func runC09(c *Ctx) {
	c.Rep.Rule = "live fzf sessions under a pty driven through --listen: random histories of editing / cursor / selection actions, typed keys and reloads over lists of 0/1/5/12/40/300 lines, heights 5-30 and full screen, three layouts, --multi off/1/3/unlimited and change-multi / change-multi(N) steps that switch multi-select on and off, lower, keep and raise the limit while lines are selected (sel_limit is evaluated with the limit in force), --cycle, --track, --no-input, --filepath-word, --disabled and live search; one evaluation = one synchronised step; non-trivial = the step changed the projected state; distinct by (layout, multi, cycle, step, state before)"
	stats := &c09Stats{}
	defer func() {
		c.Rep.ImplTraces = int(stats.traces)
		c.Rep.SpecChecks = int(stats.specChecks)
		c.Rep.Extra["steps"] = stats.steps
		c.Rep.Extra["actions"] = stats.actions
	}()
	if c.Replay != "" {
		var cs c09Case
		b, err := os.ReadFile(c.Replay)
		if err == nil {
			var w struct{ Input c09Case }
			if json.Unmarshal(b, &w) == nil && w.Input.Cfg.Layout != "" {
				cs = w.Input
			} else {
				json.Unmarshal(b, &cs)
			}
		}
		if cs.Cfg.Layout == "" {
			fmt.Fprintln(os.Stderr, "C09: replay file has no case")
			return
		}
		c09Run(c, cs, nil, 0, stats)
		return
	}
	for _, f := range corpusFiles(c) {
		var cs c09Case
		b, _ := os.ReadFile(f)
		if json.Unmarshal(b, &cs) == nil && cs.Cfg.Layout != "" {
			c09Run(c, cs, nil, 0, stats)
			c.Rep.Count("corpus")
		}
	}
	n := c.N(120, 3000)
	seeds := make([]uint64, n)
	for i := range seeds {
		seeds[i] = c.Rng.Next()
	}
	var wg sync.WaitGroup
	ch := make(chan int)
	for w := 0; w < 8; w++ {
		wg.Add(1)
		go func() {
			defer wg.Done()
			for i := range ch {
				r := NewRNG(seeds[i])
				cfg := c09GenCfg(r)
				cs := c09Case{Cfg: cfg, End: "accept"}
				if r.Chance(1, 10) {
					cs.End = "abort"
				}
				steps := r.Range(20, 40)
				c09Run(c, cs, r, steps, stats)
				c.Rep.Count(fmt.Sprintf("lines=%d", len(cfg.Lines)))
				c.Rep.Count("layout=" + cfg.Layout)
				c.Rep.Count(fmt.Sprintf("multi=%d", cfg.Multi))
				c.Rep.Count(fmt.Sprintf("cycle=%v", cfg.Cycle))
				c.Rep.Count(fmt.Sprintf("disabled=%v", cfg.Disabled))
				if cfg.Track {
					c.Rep.Count("track")
				}
				if cfg.NoInput {
					c.Rep.Count("noinput")
				}
			}
		}()
	}
	for i := 0; i < n; i++ {
		ch <- i
	}
	close(ch)
	wg.Wait()
}
