package main

// C07 — output is the original line, framed and exit-coded as documented.
//   filter mode  : the fzf process (`--filter`) on generated record lists, all option combinations;
//                  stdout bytes + exit status vs OutputModel.filter_mode (op 701, kind corr) and
//                  OutputSpec.filter_verdict evaluated on the implementation's stdout (op 702, kind spec)
//   interactive  : the fzf process under a pty with --listen (pty.go): random selection histories, then an
//                  ending; stdout + exit status vs OutputModel.interactive (op 703, corr) and
//                  OutputSpec.session_result (op 704, spec; its operands — current entry, listed entries —
//                  are read from the implementation through GET before each step)
//   accept-nth   : (c07fields.go) the -1/-0 path in bulk and pty sessions with any delimiter / field index expressions /
//                  templates; OutputSpec.accept_text inside session_result evaluated on the implementation's stdout
//                  (op 705, spec); correspondence with the model (op 703) for AWK-style and literal delimiters
//   errors       : invalid command lines -> nothing on stdout, exit status 2

import (
	"encoding/hex"
	"encoding/json"
	"errors"
	"fmt"
	"os"
	"path/filepath"
	"sort"
	"strconv"
	"strings"
	"time"
	"unicode/utf8"

	fzf "github.com/junegunn/fzf/src"
	"github.com/junegunn/fzf/src/util"
)

// bstr is a byte string that survives JSON even when it is not valid UTF-8.
type bstr string

func (b bstr) MarshalJSON() ([]byte, error) {
	if utf8.ValidString(string(b)) {
		return json.Marshal(string(b))
	}
	return json.Marshal(map[string]string{"hex": hex.EncodeToString([]byte(b))})
}
func (b *bstr) UnmarshalJSON(d []byte) error {
	var s string
	if json.Unmarshal(d, &s) == nil {
		*b = bstr(s)
		return nil
	}
	var m map[string]string
	if err := json.Unmarshal(d, &m); err != nil {
		return err
	}
	raw, err := hex.DecodeString(m["hex"])
	*b = bstr(raw)
	return err
}

type c07Filter struct {
	Records      []bstr `json:"records"`
	Unterminated bool   `json:"unterminated,omitempty"` // last record not followed by the separator
	Read0        bool   `json:"read0,omitempty"`
	Print0       bool   `json:"print0,omitempty"`
	PrintQuery   bool   `json:"print_query,omitempty"`
	Ansi         bool   `json:"ansi,omitempty"`
	WithNth      string `json:"with_nth,omitempty"`
	Delim        string `json:"delim,omitempty"`
	NoSort       bool   `json:"no_sort,omitempty"`
	Tac          bool   `json:"tac,omitempty"`
	Sync         bool   `json:"sync,omitempty"`
	Exact        bool   `json:"exact,omitempty"`
	Query        string `json:"query"`
}

type c07Step struct {
	Act string `json:"act"`
	Arg string `json:"arg,omitempty"`
}
type c07Part struct {
	Str    string   `json:"str,omitempty"`
	Index  bool     `json:"index,omitempty"`
	Ranges [][2]int `json:"ranges,omitempty"`
}
type c07Nth struct {
	Ranges [][2]int  `json:"ranges,omitempty"`
	Parts  []c07Part `json:"parts,omitempty"`
}
type c07Sess struct {
	Records    []bstr    `json:"records"`
	Read0      bool      `json:"read0,omitempty"`
	Print0     bool      `json:"print0,omitempty"`
	PrintQuery bool      `json:"print_query,omitempty"`
	Ansi       bool      `json:"ansi,omitempty"`
	WithNth    string    `json:"with_nth,omitempty"`
	Delim      string    `json:"delim,omitempty"`
	AcceptNth  *c07Nth   `json:"accept_nth,omitempty"`
	Expect     bool      `json:"expect,omitempty"`
	Multi      int       `json:"multi"` // 0 = no --multi, -1 = --multi (no limit), n = --multi=n
	Select1    bool      `json:"select1,omitempty"`
	Exit0      bool      `json:"exit0,omitempty"`
	Query      string    `json:"query,omitempty"`
	Steps      []c07Step `json:"steps"`
	Final      string    `json:"final"` // accept accept-non-empty accept-or-print-query print-query abort expect enter
}
type c07Case struct {
	Kind   string     `json:"kind"` // filter | session | error
	Filter *c07Filter `json:"filter,omitempty"`
	Sess   *c07Sess   `json:"session,omitempty"`
	Args   []string   `json:"args,omitempty"`
}

// ---------------------------------------------------------------- shared helpers

func c07Strs(bs []bstr) []string {
	out := make([]string, len(bs))
	for i, b := range bs {
		out[i] = string(b)
	}
	return out
}

func c07Stdin(records []string, read0, unterminated bool) []byte {
	sep := byte('\n')
	if read0 {
		sep = 0
	}
	var b []byte
	for i, r := range records {
		b = append(b, r...)
		if i == len(records)-1 && unterminated && r != "" {
			break
		}
		b = append(b, sep)
	}
	return b
}

func c07RT(s string) string { c := util.ToChars([]byte(s)); return c.ToString() }

// tables for the model's Section variables
func c07Tables(records []string) (strip Val, rt Val) {
	st, rtv := []Val{}, []Val{}
	seen := map[string]bool{}
	for _, r := range records {
		s := fzf.VerifOutputStripAnsi(r)
		if s != r && !seen["s"+r] {
			seen["s"+r] = true
			st = append(st, L(Bytes(r), Bytes(s)))
		}
		for _, x := range []string{r, s} {
			if y := c07RT(x); y != x && !seen["r"+x] {
				seen["r"+x] = true
				rtv = append(rtv, L(Bytes(x), Bytes(y)))
			}
		}
	}
	return L(st...), L(rtv...)
}

// what the implementation is expected to print for a matched record (only used to derive the match
// bits from an independent run, never as the expectation itself)
func c07Shown(r string, ansi, withNth bool) string {
	s := r
	if ansi {
		s = fzf.VerifOutputStripAnsi(r)
	}
	if !withNth {
		s = c07RT(s)
	}
	return s
}

func c07Bools(bs []bool) Val {
	vs := make([]Val, len(bs))
	for i, b := range bs {
		vs[i] = B(b)
	}
	return L(vs...)
}

// a query is sortable unless it is empty or has only inverse terms (generated queries are simple words)
func c07Sortable(q string) bool {
	for _, w := range strings.Fields(q) {
		if !strings.HasPrefix(w, "!") {
			return true
		}
	}
	return false
}

func c07CanonSorted(s string) string {
	b := []byte(s)
	sort.Slice(b, func(i, j int) bool { return b[i] < b[j] })
	return strconv.Itoa(len(b)) + ":" + string(b)
}

// ---------------------------------------------------------------- filter mode

func (f *c07Filter) commonArgs() []string {
	a := []string{}
	if f.Read0 {
		a = append(a, "--read0")
	}
	if f.Ansi {
		a = append(a, "--ansi")
	}
	if f.WithNth != "" {
		a = append(a, "--with-nth", f.WithNth)
	}
	if f.Delim != "" {
		a = append(a, "--delimiter", f.Delim)
	}
	if f.Exact {
		a = append(a, "-e")
	}
	return a
}

func (f *c07Filter) args() []string {
	a := append([]string{"--filter", f.Query}, f.commonArgs()...)
	if f.Print0 {
		a = append(a, "--print0")
	}
	if f.PrintQuery {
		a = append(a, "--print-query")
	}
	if f.NoSort {
		a = append(a, "+s")
	}
	if f.Tac {
		a = append(a, "--tac")
	}
	if f.Sync {
		a = append(a, "--sync")
	}
	return a
}

// the independent run: the OTHER code path of the --filter block, output split unambiguously
func (f *c07Filter) oracleArgs() ([]string, string) {
	a := append([]string{"--filter", f.Query}, f.commonArgs()...)
	streaming := f.NoSort && !f.Tac && !f.Sync
	if streaming {
		a = append(a, "+s", "--sync")
	} else {
		a = append(a, "+s")
	}
	sep := "\n"
	if f.Read0 {
		a = append(a, "--print0")
		sep = "\x00"
	}
	return a, sep
}

func c07SimpleQuery(q string) bool {
	if q == "" {
		return false
	}
	for i := 0; i < len(q); i++ {
		if !(q[i] >= 'a' && q[i] <= 'z') {
			return false
		}
	}
	return true
}
func c07ASCII(s string) bool {
	for i := 0; i < len(s); i++ {
		if s[i] >= 0x80 {
			return false
		}
	}
	return true
}

func c07FilterCheck(c *Ctx, f *c07Filter) {
	rep := c.Rep
	cs := c07Case{Kind: "filter", Filter: f}
	records := c07Strs(f.Records)
	stdin := c07Stdin(records, f.Read0, f.Unterminated)
	out, errs, code := RunFzf(c, f.args(), stdin)
	rep.mu.Lock()
	rep.ImplTraces++
	rep.mu.Unlock()
	key, _ := json.Marshal(cs)
	if code < 0 || code > 1 {
		rep.Disagreement(Disagreement{Kind: "spec", Name: "exit_code_table", Input: cs,
			Impl: fmt.Sprintf("exit %d stderr %q", code, errs), Expect: "exit 0 or 1"})
		return
	}
	withNth := f.WithNth != ""
	// match bits
	bits := make([]bool, len(records))
	if f.Query == "" {
		for i := range bits {
			bits[i] = true
		}
	} else {
		oa, sep := f.oracleArgs()
		oout, _, _ := RunFzf(c, oa, stdin)
		set := map[string]bool{}
		if oout != "" {
			for _, p := range strings.Split(strings.TrimSuffix(oout, sep), sep) {
				set[p] = true
			}
		}
		// records with different bytes can have the same printed form (escape sequences only differ): the printed
		// form then does not tell which of them matched; ask fzf about each such record alone (exit status 0/1)
		raws := map[string]map[string]bool{}
		for _, r := range records {
			sh := c07Shown(r, f.Ansi, withNth)
			if raws[sh] == nil {
				raws[sh] = map[string]bool{}
			}
			raws[sh][r] = true
		}
		single := map[string]bool{}
		for i, r := range records {
			sh := c07Shown(r, f.Ansi, withNth)
			if len(raws[sh]) <= 1 {
				bits[i] = set[sh]
				continue
			}
			if strings.Contains(f.WithNth, "{n}") {
				// the display depends on the ordinal number: no independent reading available
				rep.Count("filter:ambiguous-oracle-skipped")
				return
			}
			m, done := single[r]
			if !done {
				_, _, c1 := RunFzf(c, append([]string{"--filter", f.Query}, f.commonArgs()...), c07Stdin([]string{r}, f.Read0, false))
				m = c1 == 0
				single[r] = m
				rep.Count("filter:per-record-oracle")
			}
			bits[i] = m
		}
		// a direct reading of "matches" where it is unambiguous: exact mode, lower-case ASCII word,
		// ASCII record, no field transformation: case-insensitive substring of the (stripped) record
		if f.Exact && !withNth && c07SimpleQuery(f.Query) {
			for i, r := range records {
				sh := c07Shown(r, f.Ansi, false)
				if !c07ASCII(sh) {
					continue
				}
				want := strings.Contains(strings.ToLower(sh), f.Query)
				rep.mu.Lock()
				rep.SpecChecks++
				rep.mu.Unlock()
				if want != bits[i] {
					rep.Disagreement(Disagreement{Kind: "spec", Name: "filter_prints_original(matched set)", Input: cs,
						Impl: fmt.Sprintf("record %d %q printed=%v", i, r, bits[i]), Expect: fmt.Sprintf("printed=%v", want)})
				}
			}
		}
	}
	nm := 0
	for _, b := range bits {
		if b {
			nm++
		}
	}
	sorted := !f.NoSort && c07Sortable(f.Query)
	rep.Eval(string(key), nm > 0 && len(records) > 1)
	stripT, rtT := c07Tables(records)
	flags := L(B(f.Ansi), B(withNth), B(f.Print0), B(f.PrintQuery), B(!f.NoSort), B(f.Tac), B(f.Sync))
	// (5b) correspondence
	mv := c.Model.Call(701, L(flags, Bytes(f.Query), Strs(records), stripT, rtT, c07Bools(bits), B(c07Sortable(f.Query))))
	if len(mv.L) != 2 {
		rep.Disagreement(Disagreement{Kind: "corr", Name: "corr:C07.filter_mode", Input: cs, Impl: fmt.Sprintf("%q exit %d", out, code), Expect: mv.String()})
	} else {
		mout, mcode := mv.L[0].Str(), int(mv.L[1].I)
		same := mout == out
		if sorted {
			same = c07CanonSorted(mout) == c07CanonSorted(out)
		}
		if !same || mcode != code {
			rep.Disagreement(Disagreement{Kind: "corr", Name: "corr:C07.filter_mode", Input: cs,
				Impl: fmt.Sprintf("%q exit %d", out, code), Expect: fmt.Sprintf("%q exit %d", mout, mcode)})
		}
	}
	// (5a) spec on the implementation's output.  The property speaks about valid UTF-8 input: a record that is
	// not valid UTF-8 is printed with U+FFFD substitutions unless --with-nth keeps the raw bytes (model: rt);
	// such cases are covered by the correspondence above only.
	if !withNth {
		for _, r := range records {
			if !utf8.ValidString(r) {
				rep.Count("filter:invalid-utf8(corr only)")
				return
			}
		}
	}
	sv := c.Model.Call(702, L(flags, Bytes(f.Query), Strs(records), stripT, c07Bools(bits), B(sorted), Bytes(out), I(code)))
	rep.mu.Lock()
	rep.SpecChecks++
	rep.mu.Unlock()
	if len(sv.L) != 2 || sv.L[0].I != 1 {
		rep.Disagreement(Disagreement{Kind: "spec", Name: "filter_prints_original+framing", Input: cs,
			Impl: fmt.Sprintf("%q", out), Expect: "framing of [query]? ++ the matched records, original bytes (ansi-stripped under --ansi), each once"})
	}
	if len(sv.L) != 2 || sv.L[1].I != 1 {
		rep.Disagreement(Disagreement{Kind: "spec", Name: "exit_code_table", Input: cs,
			Impl: fmt.Sprintf("exit %d with %d matched", code, nm), Expect: "0 iff a record was printed, else 1"})
	}
	rep.Sample(cs)
	path := "nonstreaming"
	if f.NoSort && !f.Tac && !f.Sync {
		path = "streaming"
	}
	rep.Count("filter:" + path)
	for _, kv := range []struct {
		k string
		b bool
	}{{"read0", f.Read0}, {"print0", f.Print0}, {"print-query", f.PrintQuery}, {"ansi", f.Ansi}, {"with-nth", withNth},
		{"delimiter", f.Delim != ""}, {"tac", f.Tac}, {"sync", f.Sync}, {"sorted", sorted}} {
		if kv.b {
			rep.Count("filter:" + kv.k)
		}
	}
	if nm == 0 {
		rep.Count("filter:exit1")
	}
}

var c07Pieces = []string{"a", "b", "c", "ab", "x", "B", " ", "  ", "\t", "é", "日本", "😀", "é", ",", ":", ",,", "-", "1", "'", "\""}
var c07Ansi = []string{"\x1b[31m", "\x1b[0m", "\x1b[1;32m", "\x1b[m", "\x1b[38;5;200m", "\x1b[K", "\x1b]8;;http://x\x1b\\", "\x0e"}

func c07GenRecord(r *RNG, multiline, ansi, malformed bool) string {
	if r.Chance(1, 10) {
		return ""
	}
	n := r.Range(1, 6)
	s := ""
	if r.Chance(1, 4) {
		s += Pick(r, []string{" ", "  ", "\t"})
	}
	for i := 0; i < n; i++ {
		switch {
		case ansi && r.Chance(1, 4):
			s += Pick(r, c07Ansi)
		case multiline && r.Chance(1, 5):
			s += "\n"
		case malformed && r.Chance(1, 4):
			s += Pick(r, []string{"\xff", "\xc3", "\xe6\x97", "\xf0\x9f\x98", "\x80"})
		case r.Chance(1, 30):
			s += "\x01"
		default:
			s += Pick(r, c07Pieces)
		}
		if r.Chance(1, 3) {
			s += " "
		}
	}
	if r.Chance(1, 5) {
		s += Pick(r, []string{" ", "  ", "\t", " \t"})
	}
	return s
}

func c07GenRecords(r *RNG, n int, read0, ansi, malformed, distinct bool) []bstr {
	out := []bstr{}
	seen := map[string]bool{}
	for len(out) < n {
		s := c07GenRecord(r, read0, ansi, malformed)
		if len(out) > 0 && !distinct && r.Chance(1, 8) {
			s = string(out[r.Intn(len(out))]) // duplicates
		}
		if distinct {
			if seen[s] {
				s += strconv.Itoa(len(out))
			}
			seen[s] = true
		}
		out = append(out, bstr(s))
	}
	return out
}

var c07WithNth = []string{"2", "1", "-1", "1,3", "2..", "..2", "..", "3,1", "{2}:{n}", "{1}"}
var c07Delims = []string{"", "", ",", ":", ", "}

func c07GenFilter(r *RNG) *c07Filter {
	f := &c07Filter{Read0: r.Chance(1, 3), Print0: r.Chance(1, 3), PrintQuery: r.Chance(1, 3), Ansi: r.Chance(1, 3),
		NoSort: r.Chance(1, 2), Tac: r.Chance(1, 3), Sync: r.Chance(1, 3), Exact: r.Chance(1, 3), Unterminated: r.Chance(1, 3)}
	if r.Chance(2, 5) {
		f.WithNth = Pick(r, c07WithNth)
	}
	f.Delim = Pick(r, c07Delims)
	if r.Chance(1, 4) {
		f.Delim = Pick(r, c07DelimsRich)
	}
	malformed := r.Chance(1, 8)
	n := Pick(r, []int{0, 1, 1, 2, 3, 4, 5, 6, 8, 12})
	f.Records = c07GenRecords(r, n, f.Read0, f.Ansi || r.Chance(1, 6), malformed, false)
	switch r.Intn(8) {
	case 0, 1:
		f.Query = ""
	case 2:
		f.Query = "zz" // usually no match
	case 3:
		f.Query = "!" + Pick(r, []string{"a", "b", "x"})
	case 4:
		f.Query = Pick(r, []string{"a b", "b | c", "é", "日"})
	default:
		f.Query = Pick(r, []string{"a", "b", "c", "ab", "x"})
	}
	return f
}

// ---------------------------------------------------------------- interactive

func c07RangeStr(rs [][2]int) string {
	parts := []string{}
	for _, r := range rs {
		b, e := r[0], r[1]
		switch {
		case b == 0 && e == 0:
			parts = append(parts, "..")
		case b == e:
			parts = append(parts, strconv.Itoa(b))
		case e == 0:
			parts = append(parts, strconv.Itoa(b)+"..")
		case b == 0:
			parts = append(parts, ".."+strconv.Itoa(e))
		default:
			parts = append(parts, strconv.Itoa(b)+".."+strconv.Itoa(e))
		}
	}
	return strings.Join(parts, ",")
}
func (n *c07Nth) String() string {
	if n.Parts == nil {
		return c07RangeStr(n.Ranges)
	}
	s := ""
	for _, p := range n.Parts {
		switch {
		case p.Index:
			s += "{n}"
		case p.Ranges != nil:
			s += "{" + c07RangeStr(p.Ranges) + "}"
		default:
			s += p.Str
		}
	}
	return s
}
func c07RangesVal(rs [][2]int) Val {
	vs := []Val{}
	for _, r := range rs {
		vs = append(vs, L(I(r[0]), I(r[1])))
	}
	return L(vs...)
}
func (n *c07Nth) Val() Val {
	if n == nil {
		return L()
	}
	if n.Parts == nil {
		return L(I(0), c07RangesVal(n.Ranges))
	}
	ps := []Val{}
	for _, p := range n.Parts {
		switch {
		case p.Index:
			ps = append(ps, L(I(1)))
		case p.Ranges != nil:
			ps = append(ps, L(I(2), c07RangesVal(p.Ranges)))
		default:
			ps = append(ps, L(I(0), Bytes(p.Str)))
		}
	}
	return L(I(1), L(ps...))
}

func (s *c07Sess) baseArgs() []string {
	a := []string{"--sync", "--no-sort"}
	if s.Read0 {
		a = append(a, "--read0")
	}
	if s.Print0 {
		a = append(a, "--print0")
	}
	if s.PrintQuery {
		a = append(a, "--print-query")
	}
	if s.Ansi {
		a = append(a, "--ansi")
	}
	if s.WithNth != "" {
		a = append(a, "--with-nth", s.WithNth)
	}
	if s.Delim != "" {
		a = append(a, "--delimiter", s.Delim)
	}
	if s.AcceptNth != nil {
		a = append(a, "--accept-nth", s.AcceptNth.String())
	}
	if s.Expect {
		a = append(a, "--expect", "ctrl-x")
	}
	switch {
	case s.Multi < 0:
		a = append(a, "--multi")
	case s.Multi > 0:
		a = append(a, "--multi="+strconv.Itoa(s.Multi))
	}
	if s.Select1 {
		a = append(a, "-1")
	}
	if s.Exit0 {
		a = append(a, "-0")
	}
	if s.Query != "" {
		a = append(a, "--query", s.Query)
	}
	return a
}

func (s *c07Sess) limit() int {
	if s.Multi < 0 {
		return 1000 // no limit (MaxInt32 in the code; lists here have at most a dozen entries)
	}
	return s.Multi
}

func (s *c07Sess) toptsVal() Val {
	// the model knows AWK-style and literal delimiters ("\\t" is the tab, as --delimiter reads it)
	d := c07DelimOf(s.Delim).modelVal()
	return L(B(s.Ansi), B(s.Print0), B(s.PrintQuery), B(s.Expect), I(s.limit()), s.AcceptNth.Val(), d)
}

// spec-level field reading is available for: no --accept-nth, or one positive AWK field
func (s *c07Sess) specField() (int, bool) {
	if s.AcceptNth == nil {
		return 0, true
	}
	if s.Delim == "" && s.AcceptNth.Parts == nil && len(s.AcceptNth.Ranges) == 1 {
		r := s.AcceptNth.Ranges[0]
		if r[0] == r[1] && r[0] > 0 {
			return r[0], true
		}
	}
	return 0, false
}

type c07Obs struct {
	Out     string
	Code    int
	Actions []Val // model actions (op 703)
	Merger  []int // initial list
	Events  []Val // spec events (op 704)
	Current int
	Ending  int // 0 accept 1 print-query 2 abort
	Query   string
	Key     string
	Started bool // went interactive
}

var errC07Liveness = errors.New("liveness")

func c07Indexes(items []FzfItem) []int {
	out := make([]int, len(items))
	for i, it := range items {
		out[i] = it.Index
	}
	return out
}

func c07FileSize(dir, name string) int64 {
	st, err := os.Stat(filepath.Join(dir, name))
	if err != nil {
		return 0
	}
	return st.Size()
}
func c07ResultCount(dir string) int64 { return c07FileSize(dir, "results") }

var c07ActTag = map[string]int{"toggle": 0, "select": 1, "deselect": 2, "select-all": 3, "deselect-all": 4, "toggle-all": 5,
	"clear-selection": 6, "toggle-down": 7, "toggle-up": 8, "up": 9, "down": 10, "first": 11, "last": 12, "pos": 13, "print": 14,
	"accept": 16, "accept-non-empty": 17, "accept-or-print-query": 18, "print-query": 19, "abort": 20}

// c07Drive runs one session on the implementation.  A liveness problem (time-out) is returned as
// errC07Liveness-wrapped error so that the caller can retry; everything else is an observation.
func c07Drive(c *Ctx, cs *c07Sess) (*c07Obs, error) {
	records := c07Strs(cs.Records)
	stdin := c07Stdin(records, cs.Read0, false)
	obs := &c07Obs{Current: -1, Query: cs.Query}
	withNth := cs.WithNth != ""
	if cs.Select1 || cs.Exit0 {
		// the list the finder will start with, from an independent run of the filter (records are distinct here)
		f := &c07Filter{Records: cs.Records, Read0: cs.Read0, Ansi: cs.Ansi, WithNth: cs.WithNth, Delim: cs.Delim, NoSort: true, Query: cs.Query}
		set := map[string]bool{}
		if cs.Query != "" { // the empty query matches every record
			oa, sep := f.oracleArgs()
			oout, _, _ := RunFzf(c, oa, stdin)
			if oout != "" {
				for _, p := range strings.Split(strings.TrimSuffix(oout, sep), sep) {
					set[p] = true
				}
			}
		}
		for i, r := range records {
			if cs.Query == "" || set[c07Shown(r, cs.Ansi, withNth)] {
				obs.Merger = append(obs.Merger, i)
			}
		}
		n := len(obs.Merger)
		goesInteractive := true
		if !((cs.Select1 && n > 1) || (cs.Exit0 && !cs.Select1 && n > 0)) && ((cs.Exit0 && n == 0) || (cs.Select1 && n == 1)) {
			goesInteractive = false
		}
		if !goesInteractive {
			out, _, code := RunFzf(c, cs.baseArgs(), stdin)
			obs.Out, obs.Code = out, code
			if n == 1 {
				obs.Current = obs.Merger[0]
			}
			return obs, nil
		}
	}
	obs.Started = true
	args := append(cs.baseArgs(), "--bind", "result:execute-silent(echo r >> results)", "--bind", "ctrl-t:execute-silent(echo k >> keys)")
	s, err := StartSession(c, SessionOpts{Args: args, Stdin: stdin, Cols: 80, Rows: 24})
	if err != nil {
		// a lost port race or a slow start is a liveness matter: retried by the caller, reported when it persists
		return nil, fmt.Errorf("%w: start: %v", errC07Liveness, err)
	}
	defer s.Close()
	st, err := s.Get()
	if err != nil {
		return nil, fmt.Errorf("%w: first GET: %v", errC07Liveness, err)
	}
	if !(cs.Select1 || cs.Exit0) {
		obs.Merger = c07Indexes(st.Matches)
	}
	multi := cs.limit() > 0
	query := cs.Query
	idxVal := func(xs []int) Val { return Ints(xs) }
	for _, step := range cs.Steps {
		cur := -1
		if st.Current != nil {
			cur = st.Current.Index
		}
		listed := c07Indexes(st.Matches)
		post := step.Act
		switch step.Act {
		case "pos", "print":
			post = step.Act + "(" + step.Arg + ")"
		case "change-query":
			post = "change-query(" + step.Arg + ")"
		}
		before := c07ResultCount(s.Dir)
		if step.Act == "tab" || step.Act == "btab" {
			// typed keys (default bindings: tab = toggle-down, shift-tab = toggle-up as ONE action each), followed by
			// ctrl-t whose binding leaves a mark, so that we know the key has been processed
			kb := c07FileSize(s.Dir, "keys")
			if err := s.Sync(); err != nil {
				return nil, fmt.Errorf("%w: sync: %v", errC07Liveness, err)
			}
			if step.Act == "tab" {
				s.SendKeys([]byte("\t\x14"))
			} else {
				s.SendKeys([]byte("\x1b[Z\x14"))
			}
			deadline := time.Now().Add(10 * time.Second)
			for c07FileSize(s.Dir, "keys") <= kb {
				if time.Now().After(deadline) {
					return nil, fmt.Errorf("%w: typed key not processed within 10 s", errC07Liveness)
				}
				time.Sleep(500 * time.Microsecond)
			}
		} else if err := s.PostSync(post); err != nil {
			return nil, fmt.Errorf("%w: POST %s: %v", errC07Liveness, post, err)
		}
		switch step.Act {
		case "change-query":
			if step.Arg != query {
				deadline := time.Now().Add(10 * time.Second)
				for c07ResultCount(s.Dir) <= before {
					if time.Now().After(deadline) {
						return nil, fmt.Errorf("%w: no result event after change-query", errC07Liveness)
					}
					time.Sleep(time.Millisecond)
				}
				if err := s.Sync(); err != nil {
					return nil, fmt.Errorf("%w: sync: %v", errC07Liveness, err)
				}
			}
			query = step.Arg
		case "print":
			obs.Events = append(obs.Events, L(I(7), Bytes(step.Arg)))
		}
		if multi {
			switch step.Act {
			case "toggle", "toggle-down", "toggle-up", "tab", "btab":
				if cur >= 0 {
					obs.Events = append(obs.Events, L(I(0), I(cur)))
				}
			case "select":
				if cur >= 0 {
					obs.Events = append(obs.Events, L(I(1), I(cur)))
				}
			case "deselect":
				if cur >= 0 {
					obs.Events = append(obs.Events, L(I(2), I(cur)))
				}
			case "select-all":
				obs.Events = append(obs.Events, L(I(3), idxVal(listed)))
			case "deselect-all":
				obs.Events = append(obs.Events, L(I(4), idxVal(listed)))
			case "toggle-all":
				obs.Events = append(obs.Events, L(I(5), idxVal(listed)))
			case "clear-selection":
				obs.Events = append(obs.Events, L(I(6)))
			}
		}
		st, err = s.Get()
		if err != nil {
			return nil, fmt.Errorf("%w: GET: %v", errC07Liveness, err)
		}
		switch step.Act {
		case "change-query":
			obs.Actions = append(obs.Actions, L(I(15), Bytes(step.Arg), idxVal(c07Indexes(st.Matches)), I(st.Position)))
		case "pos":
			n, _ := strconv.Atoi(step.Arg)
			obs.Actions = append(obs.Actions, L(I(13), I(n)))
		case "print":
			obs.Actions = append(obs.Actions, L(I(14), Bytes(step.Arg)))
		case "toggle-down": // over --listen this NAME is parsed as the two actions toggle+down (options.go)
			obs.Actions = append(obs.Actions, L(I(0)), L(I(10)))
		case "toggle-up":
			obs.Actions = append(obs.Actions, L(I(0)), L(I(9)))
		case "tab":
			obs.Actions = append(obs.Actions, L(I(7)))
		case "btab":
			obs.Actions = append(obs.Actions, L(I(8)))
		default:
			obs.Actions = append(obs.Actions, L(I(c07ActTag[step.Act])))
		}
	}
	obs.Query = query
	if st.Current != nil {
		obs.Current = st.Current.Index
	}
	nsel, nlist := len(st.Selected), len(st.Matches)
	final := cs.Final
	switch final {
	case "accept-non-empty":
		obs.Actions = append(obs.Actions, L(I(17)))
		if !(nsel > 0 || nlist > 0 || st.TotalCount == 0) {
			// nothing acceptable: the action must be refused and fzf keeps running
			if err := s.PostSync("accept-non-empty"); err != nil {
				if errors.Is(err, ErrGone) {
					out, code, _ := s.Wait(10 * time.Second)
					obs.Out, obs.Code, obs.Ending = out, code, 0
					return obs, nil
				}
				return nil, fmt.Errorf("%w: POST accept-non-empty: %v", errC07Liveness, err)
			}
			final = "abort"
		}
	case "accept-or-print-query":
		if !(nsel > 0 || nlist > 0) {
			obs.Ending = 1
		}
	case "print-query":
		obs.Ending = 1
	}
	switch final {
	case "abort":
		obs.Ending = 2
		obs.Actions = append(obs.Actions, L(I(20)))
	case "accept", "accept-or-print-query", "print-query":
		obs.Actions = append(obs.Actions, L(I(c07ActTag[final])))
	case "enter":
		obs.Actions = append(obs.Actions, L(I(16)))
	case "expect":
		obs.Actions = append(obs.Actions, L(I(22), Bytes("ctrl-x")))
		obs.Key = "ctrl-x"
	}
	switch final {
	case "enter":
		s.SendKeys([]byte("\r"))
	case "expect":
		s.SendKeys([]byte{0x18})
	default:
		if err := s.Post(final); err != nil && !errors.Is(err, ErrGone) {
			return nil, fmt.Errorf("%w: POST %s: %v", errC07Liveness, final, err)
		}
	}
	out, code, ok := s.Wait(10 * time.Second)
	if !ok {
		return nil, fmt.Errorf("%w: fzf did not exit within 10 s after %s", errC07Liveness, final)
	}
	if cr := s.Crash(); cr != "" {
		return nil, fmt.Errorf("crash: %s", cr)
	}
	obs.Out, obs.Code = out, code
	return obs, nil
}

func c07SessCheck(c *Ctx, cs *c07Sess) {
	rep := c.Rep
	wrapped := c07Case{Kind: "session", Sess: cs}
	var obs *c07Obs
	var err error
	for try := 0; try < 3; try++ { // liveness observations are retried twice (DESIGN §1.4)
		obs, err = c07Drive(c, cs)
		if err == nil || !errors.Is(err, errC07Liveness) {
			break
		}
		rep.Count("session:liveness-retry")
	}
	rep.mu.Lock()
	rep.ImplTraces++
	rep.mu.Unlock()
	if err != nil {
		rep.Disagreement(Disagreement{Kind: "spec", Name: "session_runs", Input: wrapped, Impl: err.Error(), Expect: "the session runs and ends"})
		return
	}
	key, _ := json.Marshal(wrapped)
	records := c07Strs(cs.Records)
	stripT, rtT := c07Tables(records)
	rep.Eval(string(key), obs.Started && len(obs.Events) > 0 || !obs.Started)
	impl := fmt.Sprintf("%q exit %d", obs.Out, obs.Code)
	di := c07DelimOf(cs.Delim)
	// (5b) correspondence (a regular-expression delimiter is outside the model: spec check only)
	if di.Kind <= 1 || cs.AcceptNth == nil {
		mv := c.Model.Call(703, L(B(true), cs.toptsVal(), B(cs.WithNth != ""), B(cs.Select1), B(cs.Exit0), Bytes(cs.Query),
			Strs(records), Ints(obs.Merger), L(obs.Actions...), stripT, rtT))
		if len(mv.L) != 3 || mv.L[0].I != 1 {
			rep.Disagreement(Disagreement{Kind: "corr", Name: "corr:C07.interactive", Input: wrapped, Impl: impl, Expect: "model: " + mv.String()})
		} else if mo, mc := mv.L[1].Str(), int(mv.L[2].I); mo != obs.Out || mc != obs.Code {
			rep.Disagreement(Disagreement{Kind: "corr", Name: "corr:C07.interactive", Input: wrapped, Impl: impl, Expect: fmt.Sprintf("%q exit %d", mo, mc)})
		}
	} else {
		rep.Count("session:regex-delimiter(spec only)")
	}
	// (5a) spec
	if field, ok := cs.specField(); ok {
		sv := c.Model.Call(704, L(B(cs.Print0), B(cs.PrintQuery), B(cs.Expect), B(cs.Ansi), Strs(records), stripT, I(cs.limit()),
			L(obs.Events...), I(obs.Current), I(obs.Ending), Bytes(obs.Query), Bytes(obs.Key), I(field)))
		rep.mu.Lock()
		rep.SpecChecks++
		rep.mu.Unlock()
		if len(sv.L) != 2 {
			rep.Disagreement(Disagreement{Kind: "spec", Name: "framing", Input: wrapped, Impl: impl, Expect: sv.String()})
		} else {
			so, sc := sv.L[0].Str(), int(sv.L[1].I)
			if so != obs.Out {
				rep.Disagreement(Disagreement{Kind: "spec", Name: "framing+selection_order", Input: wrapped, Impl: impl, Expect: fmt.Sprintf("%q", so)})
			}
			if sc != obs.Code {
				rep.Disagreement(Disagreement{Kind: "spec", Name: "exit_code_table", Input: wrapped, Impl: impl, Expect: fmt.Sprintf("exit %d", sc)})
			}
		}
	}
	// (5a) spec, --accept-nth in general: "prints exactly the selected fields" (OutputSpec.accept_text) for every field
	// index expression list and template, AWK-style, literal and '[set]' / '[set]+' delimiters
	if cs.AcceptNth != nil && di.Kind <= 2 {
		sv := c.Model.Call(705, L(B(cs.Print0), B(cs.PrintQuery), B(cs.Expect), B(cs.Ansi), Strs(records), stripT, I(cs.limit()),
			L(obs.Events...), I(obs.Current), I(obs.Ending), Bytes(obs.Query), Bytes(obs.Key), di.specVal(), cs.AcceptNth.Val()))
		rep.mu.Lock()
		rep.SpecChecks++
		rep.mu.Unlock()
		if len(sv.L) != 2 {
			rep.Disagreement(Disagreement{Kind: "spec", Name: "accept_nth_fields", Input: wrapped, Impl: impl, Expect: sv.String()})
		} else {
			so, sc := sv.L[0].Str(), int(sv.L[1].I)
			if so != obs.Out {
				rep.Disagreement(Disagreement{Kind: "spec", Name: "accept_nth_fields", Input: wrapped, Impl: impl,
					Expect: fmt.Sprintf("%q (the selected fields exactly, less one final delimiter and the white space at the end)", so)})
			}
			if sc != obs.Code {
				rep.Disagreement(Disagreement{Kind: "spec", Name: "exit_code_table", Input: wrapped, Impl: impl, Expect: fmt.Sprintf("exit %d", sc)})
			}
		}
		rep.Count(fmt.Sprintf("session:accept-nth-spec:delim-kind=%d", di.Kind))
		if cs.AcceptNth.Parts != nil {
			rep.Count("session:accept-nth-spec:template")
		}
	} else if cs.AcceptNth != nil {
		rep.Count("session:accept-nth-spec:delimiter-not-covered")
	}
	rep.Sample(wrapped)
	if obs.Started {
		rep.Count("session:final=" + cs.Final)
	} else {
		rep.Count("session:select1/exit0-immediate")
	}
	rep.Count(fmt.Sprintf("session:exit=%d", obs.Code))
	rep.CountN("session:steps", len(cs.Steps))
	rep.CountN("session:selection-events", len(obs.Events))
	if cs.AcceptNth != nil {
		rep.Count("session:accept-nth")
	}
	if cs.Expect {
		rep.Count("session:expect")
	}
}

var c07AcceptNth = []*c07Nth{
	{Ranges: [][2]int{{1, 1}}}, {Ranges: [][2]int{{2, 2}}}, {Ranges: [][2]int{{3, 3}}}, {Ranges: [][2]int{{-1, -1}}},
	{Ranges: [][2]int{{2, 0}}}, {Ranges: [][2]int{{0, 2}}}, {Ranges: [][2]int{{1, 1}, {3, 3}}}, {Ranges: [][2]int{{0, 0}}},
	{Ranges: [][2]int{{2, 3}}}, {Ranges: [][2]int{{-2, -1}}},
	{Parts: []c07Part{{Ranges: [][2]int{{1, 1}}}, {Str: "-"}, {Index: true}}},
	{Parts: []c07Part{{Str: "<"}, {Ranges: [][2]int{{2, 0}}}, {Str: "> "}, {Ranges: [][2]int{{1, 1}}}}},
}

func c07GenSess(r *RNG) *c07Sess {
	cs := &c07Sess{Read0: r.Chance(1, 4), Print0: r.Chance(1, 3), PrintQuery: r.Chance(1, 2), Ansi: r.Chance(1, 4), Expect: r.Chance(1, 3)}
	cs.Multi = Pick(r, []int{0, -1, -1, -1, -1, 1, 2, 3, 5})
	if r.Chance(1, 3) {
		cs.WithNth = Pick(r, c07WithNth)
	}
	cs.Delim = Pick(r, c07Delims)
	if r.Chance(2, 5) {
		cs.AcceptNth = Pick(r, c07AcceptNth)
	}
	early := r.Chance(1, 4)
	if early {
		cs.Select1, cs.Exit0 = r.Bool(), r.Bool()
		if !cs.Select1 && !cs.Exit0 {
			cs.Select1 = true
		}
	}
	n := Pick(r, []int{0, 1, 1, 2, 3, 4, 5, 6, 8, 10})
	if early {
		n = Pick(r, []int{0, 0, 1, 1, 1, 2, 3})
	}
	cs.Records = c07GenRecords(r, n, cs.Read0, cs.Ansi, false, early)
	if early {
		// distinct after stripping / display too: make the printed forms distinct
		seen := map[string]bool{}
		for i, b := range cs.Records {
			sh := c07Shown(string(b), cs.Ansi, cs.WithNth != "")
			if seen[sh] {
				cs.Records[i] = bstr(string(b) + "u" + strconv.Itoa(i))
				sh = c07Shown(string(cs.Records[i]), cs.Ansi, cs.WithNth != "")
			}
			seen[sh] = true
		}
	}
	if r.Chance(1, 3) {
		cs.Query = Pick(r, []string{"a", "b", "zz", "x"})
	}
	queries := []string{"a", "b", "c", "", "zz", "ab", "x"}
	ns := r.Range(0, 14)
	acts := []string{"toggle", "toggle", "toggle-down", "toggle-up", "tab", "btab", "select", "deselect", "select-all", "deselect-all", "toggle-all",
		"clear-selection", "up", "up", "down", "down", "first", "last", "pos", "print", "change-query"}
	if !early && r.Chance(3, 5) {
		// selection-heavy profile: a longer list, no limit (mostly), jumps between toggles so that the order of
		// selection differs from the order in the list
		cs.Records = c07GenRecords(r, r.Range(4, 10), cs.Read0, cs.Ansi, false, false)
		cs.Multi = Pick(r, []int{-1, -1, -1, 3, 4})
		cs.Query = ""
		ns = r.Range(4, 16)
		acts = []string{"toggle", "toggle", "toggle", "toggle-up", "toggle-down", "tab", "btab", "select", "deselect", "last", "first", "pos", "pos",
			"up", "up", "down", "select-all", "toggle-all", "deselect-all", "print", "change-query"}
		if r.Chance(2, 3) {
			cs.Final = "accept"
		}
	}
	for i := 0; i < ns; i++ {
		st := c07Step{Act: Pick(r, acts)}
		switch st.Act {
		case "pos":
			st.Arg = strconv.Itoa(r.Range(-4, 6))
		case "print":
			st.Arg = Pick(r, []string{"p", "", "hello world", " q ", "é"})
		case "change-query":
			st.Arg = Pick(r, queries)
		}
		cs.Steps = append(cs.Steps, st)
	}
	if !early && cs.Multi != 0 && r.Chance(1, 5) {
		// a selection that is no longer listed: something selected, then a query that matches nothing
		cs.Steps = append(cs.Steps, c07Step{Act: Pick(r, []string{"toggle", "select-all", "select"})}, c07Step{Act: "change-query", Arg: "zz"})
		cs.Final = Pick(r, []string{"accept-non-empty", "accept-or-print-query", "accept", "enter"})
	}
	if cs.Final == "" {
		cs.Final = Pick(r, []string{"accept", "accept", "accept", "enter", "accept-non-empty", "accept-or-print-query", "print-query", "abort", "expect"})
	}
	if r.Chance(1, 3) {
		// the field region: any delimiter, any field index expression list / template, records built around the delimiter
		fr := r.Fork()
		if !fr.Chance(1, 6) {
			cs.Delim = Pick(fr, c07DelimsRich)
		}
		d := c07DelimOf(cs.Delim)
		cs.AcceptNth = c07GenNth(fr, d)
		recs := c07GenDelimRecords(fr, len(cs.Records), d, cs.Read0, cs.Ansi, early)
		if early {
			seen := map[string]bool{}
			for i, b := range recs {
				sh := c07Shown(string(b), cs.Ansi, cs.WithNth != "")
				if seen[sh] {
					recs[i] = bstr(string(b) + "u" + strconv.Itoa(i))
					sh = c07Shown(string(recs[i]), cs.Ansi, cs.WithNth != "")
				}
				seen[sh] = true
			}
		}
		cs.Records = recs
	}
	if cs.Final == "expect" && !cs.Expect {
		cs.Expect = true
	}
	return cs
}

// ---------------------------------------------------------------- invalid command lines -> exit 2, nothing printed

var c07Invalid = [][]string{
	{"--no-such-option"}, {"--with-nth", "a"}, {"--with-nth", "0"}, {"--accept-nth", "x"}, {"--accept-nth", "{}"}, {"--delimiter"},
	{"--tiebreak=foo"}, {"--multi=x"}, {"--expect"}, {"--nth", "1..x"}, {"-f"}, {"--filter", "a", "--bind", "a:nosuchaction"},
}

func c07ErrorCheck(c *Ctx, args []string) {
	rep := c.Rep
	cs := c07Case{Kind: "error", Args: args}
	out, _, code := RunFzf(c, args, []byte("a\nb\n"))
	rep.mu.Lock()
	rep.ImplTraces++
	rep.SpecChecks++
	rep.mu.Unlock()
	rep.Eval("error:"+strings.Join(args, " "), true)
	mv := c.Model.Call(703, L(B(false), L(B(false), B(false), B(false), B(false), I(0), L(), L()), B(false), B(false), B(false), Bytes(""),
		Strs(nil), Ints(nil), L(), L(), L()))
	if len(mv.L) != 3 || mv.L[1].Str() != out || int(mv.L[2].I) != code {
		rep.Disagreement(Disagreement{Kind: "corr", Name: "corr:C07.interactive(error)", Input: cs, Impl: fmt.Sprintf("%q exit %d", out, code), Expect: mv.String()})
	}
	if out != "" || code != 2 {
		rep.Disagreement(Disagreement{Kind: "spec", Name: "exit_code_table", Input: cs, Impl: fmt.Sprintf("%q exit %d", out, code), Expect: "nothing on stdout, exit 2"})
	}
	rep.Count("error-cases")
}

// ---------------------------------------------------------------- runner

func c07RunCase(c *Ctx, cs *c07Case) {
	switch {
	case cs.Kind == "filter" && cs.Filter != nil:
		c07FilterCheck(c, cs.Filter)
	case cs.Kind == "session" && cs.Sess != nil:
		c07SessCheck(c, cs.Sess)
	case cs.Kind == "error":
		c07ErrorCheck(c, cs.Args)
	}
}

func c07Load(path string) *c07Case {
	b, err := os.ReadFile(path)
	if err != nil {
		return nil
	}
	var w struct{ Input c07Case }
	if json.Unmarshal(b, &w) == nil && w.Input.Kind != "" {
		return &w.Input
	}
	var cs c07Case
	if json.Unmarshal(b, &cs) == nil && cs.Kind != "" {
		return &cs
	}
	return nil
}

func runC07(c *Ctx) {
	c.Rep.Rule = "filter: `fzf --filter` process runs over random record lists (blanks, empty, multi-line NUL records, non-ASCII, ANSI, invalid UTF-8) x --with-nth/--delimiter/--ansi/--read0/--print0/--print-query/+s/--tac/--sync; non-trivial = at least two records and one printed. session: pty + --listen runs with random selection histories and every ending; non-trivial = at least one selection/print event (or an immediate -1/-0 exit). accept: the -1/-0 path (no terminal) with --accept-nth over AWK-style, literal (one and several bytes, overlapping) and '[set]'/'[set]+' delimiters, random field index expression lists and templates, records built around the delimiter (empty fields, consecutive/trailing delimiters, delimiter fragments, blanks around delimiters); the same shapes in a third of the pty sessions and in bulk sessions (select-all/toggle-all over 8-20 records, then accept); spec = OutputSpec.accept_text on the implementation's stdout (op 705). distinct by JSON of the case"
	loadBig := func(path string) *c07Big {
		b, err := os.ReadFile(path)
		if err != nil {
			return nil
		}
		var w struct{ Input c07Big }
		if json.Unmarshal(b, &w) == nil && w.Input.Kind == "big" {
			return &w.Input
		}
		var cs c07Big
		if json.Unmarshal(b, &cs) == nil && cs.Kind == "big" {
			return &cs
		}
		return nil
	}
	if c.Replay != "" {
		if big := loadBig(c.Replay); big != nil {
			c07BigCheck(c, big)
		} else if cs := c07Load(c.Replay); cs != nil {
			c07RunCase(c, cs)
		}
		return
	}
	for _, f := range corpusFiles(c) {
		if big := loadBig(f); big != nil {
			c07BigCheck(c, big)
			c.Rep.Count("corpus")
		} else if cs := c07Load(f); cs != nil {
			c07RunCase(c, cs)
			c.Rep.Count("corpus")
		}
	}
	c07BigStream(c)
	for _, a := range c07Invalid {
		c07ErrorCheck(c, a)
	}
	nf := c.N(3000, 60000)
	filters := make([]*c07Filter, nf)
	for i := range filters {
		filters[i] = c07GenFilter(c.Rng.Fork())
	}
	parallel(c, nf, func(i int, _ *RNG) { c07FilterCheck(c, filters[i]) })
	// the -1 / -0 accept path with --accept-nth (no terminal needed)
	na := c.N(1500, 40000)
	accepts := make([]*c07Sess, na)
	for i := range accepts {
		accepts[i] = c07GenAccept(c.Rng.Fork())
	}
	parallel(c, na, func(i int, _ *RNG) { c07SessCheck(c, accepts[i]) })
	ns := c.N(240, 4000)
	nb := c.N(40, 800)
	sess := make([]*c07Sess, ns+nb)
	for i := range sess {
		if i < ns {
			sess[i] = c07GenSess(c.Rng.Fork())
		} else {
			sess[i] = c07GenBulkSess(c.Rng.Fork())
		}
	}
	ns += nb
	// sessions: 10 at a time
	ch := make(chan int)
	done := make(chan bool)
	for w := 0; w < 10; w++ {
		go func() {
			for i := range ch {
				c07SessCheck(c, sess[i])
			}
			done <- true
		}()
	}
	for i := 0; i < ns; i++ {
		ch <- i
	}
	close(ch)
	for w := 0; w < 10; w++ {
		<-done
	}
}

func init() { runners["C07"] = runC07 }
