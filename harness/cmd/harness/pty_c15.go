package main

// pty_c15.go — a minimal VT100 screen interpreter for the byte stream fzf's light renderer writes to the
// terminal (pty.go: Session.Screen()).  Handles exactly what src/tui/light.go emits: printable text (UTF-8),
// CR, LF, BS, CSI n A/B/C/D/G/H/f/J/K, CSI s/u, ESC 7/8, SGR and private modes (ignored; ?1049h/l clears),
// OSC strings (skipped).  Autowrap is off while fzf draws (it brackets every flush with CSI ?7l ... ?7h), so a
// character printed after the last column has been filled overwrites that column; the interpreter counts those
// events (Overflow) — a row wider than the window shows up there and as a non-blank last column.
// Cross-checked against tmux 3.3a by c15TmuxCross (same fzf command line and actions, capture-pane).

import (
	"strings"
	"unicode/utf8"

	"github.com/rivo/uniseg"
)

type vtScreen struct {
	W, H     int
	cells    [][]rune // 0 = continuation cell of a wide character
	r, c     int
	sr, sc   int
	atEnd    bool // last column was just written (autowrap off)
	Overflow int
	pending  []byte // incomplete sequence at the end of the last feed
	consumed int    // bytes of the session stream already fed
}

func newVT(w, h int) *vtScreen {
	v := &vtScreen{W: w, H: h}
	v.cells = make([][]rune, h)
	for i := range v.cells {
		v.cells[i] = v.blankRow()
	}
	return v
}

func (v *vtScreen) blankRow() []rune {
	row := make([]rune, v.W)
	for i := range row {
		row[i] = ' '
	}
	return row
}

func (v *vtScreen) clamp() {
	if v.r < 0 {
		v.r = 0
	}
	if v.r >= v.H {
		v.r = v.H - 1
	}
	if v.c < 0 {
		v.c = 0
	}
	if v.c >= v.W {
		v.c = v.W - 1
	}
}

func (v *vtScreen) putRune(ch rune) {
	w := uniseg.StringWidth(string(ch))
	if w == 0 { // combining mark: attaches to the previous cell, takes no column
		return
	}
	if v.atEnd || v.c+w > v.W {
		v.Overflow++
		v.c = v.W - w
		if v.c < 0 {
			return
		}
	}
	row := v.cells[v.r]
	// overwriting half of a wide character blanks the other half
	if row[v.c] == 0 && v.c > 0 {
		row[v.c-1] = ' '
	}
	if v.c+w < v.W && row[v.c+w] == 0 {
		row[v.c+w] = ' '
	}
	row[v.c] = ch
	if w == 2 {
		row[v.c+1] = 0
	}
	v.c += w
	if v.c >= v.W {
		v.c = v.W - 1
		v.atEnd = true
	}
}

func (v *vtScreen) eraseLine(r, from, to int) {
	for i := from; i < to && i < v.W; i++ {
		v.cells[r][i] = ' '
	}
}

func (v *vtScreen) csi(params string, final byte) {
	private := strings.HasPrefix(params, "?")
	nums := []int{}
	for _, p := range strings.Split(strings.TrimLeft(params, "?>="), ";") {
		n := 0
		for _, ch := range p {
			if ch >= '0' && ch <= '9' {
				n = n*10 + int(ch-'0')
			}
		}
		nums = append(nums, n)
	}
	arg := func(i, def int) int {
		if i < len(nums) && nums[i] > 0 {
			return nums[i]
		}
		return def
	}
	moved := true
	switch final {
	case 'A':
		v.r -= arg(0, 1)
	case 'B':
		v.r += arg(0, 1)
	case 'C':
		v.c += arg(0, 1)
	case 'D':
		v.c -= arg(0, 1)
	case 'G':
		v.c = arg(0, 1) - 1
	case 'H', 'f':
		v.r = arg(0, 1) - 1
		v.c = arg(1, 1) - 1
	case 'J':
		mode := 0
		if len(nums) > 0 {
			mode = nums[0]
		}
		switch mode {
		case 0:
			v.eraseLine(v.r, v.c, v.W)
			for r := v.r + 1; r < v.H; r++ {
				v.eraseLine(r, 0, v.W)
			}
		case 1:
			for r := 0; r < v.r; r++ {
				v.eraseLine(r, 0, v.W)
			}
			v.eraseLine(v.r, 0, v.c+1)
		default:
			for r := 0; r < v.H; r++ {
				v.eraseLine(r, 0, v.W)
			}
		}
		moved = false
	case 'K':
		mode := 0
		if len(nums) > 0 {
			mode = nums[0]
		}
		switch mode {
		case 0:
			v.eraseLine(v.r, v.c, v.W)
		case 1:
			v.eraseLine(v.r, 0, v.c+1)
		default:
			v.eraseLine(v.r, 0, v.W)
		}
		moved = false
	case 's':
		v.sr, v.sc = v.r, v.c
	case 'u':
		v.r, v.c = v.sr, v.sc
	case 'h', 'l':
		moved = false
		if private && len(nums) > 0 && nums[0] == 1049 {
			for r := 0; r < v.H; r++ {
				v.eraseLine(r, 0, v.W)
			}
		}
	default: // m and everything else: no effect on the text grid
		moved = false
	}
	if moved {
		v.atEnd = false
		v.clamp()
	}
}

// Feed interprets more bytes; an incomplete sequence at the end is kept for the next call.
func (v *vtScreen) Feed(data []byte) {
	b := append(v.pending, data...)
	v.pending = nil
	i := 0
	for i < len(b) {
		ch := b[i]
		switch {
		case ch == 0x1b:
			if i+1 >= len(b) {
				v.pending = append([]byte{}, b[i:]...)
				return
			}
			switch b[i+1] {
			case '[':
				j := i + 2
				for j < len(b) && !(b[j] >= 0x40 && b[j] <= 0x7e) {
					j++
				}
				if j >= len(b) {
					v.pending = append([]byte{}, b[i:]...)
					return
				}
				v.csi(string(b[i+2:j]), b[j])
				i = j + 1
			case ']':
				j := i + 2
				end := -1
				for ; j < len(b); j++ {
					if b[j] == 0x07 {
						end = j + 1
						break
					}
					if b[j] == 0x1b && j+1 < len(b) && b[j+1] == '\\' {
						end = j + 2
						break
					}
				}
				if end < 0 {
					v.pending = append([]byte{}, b[i:]...)
					return
				}
				i = end
			case '7':
				v.sr, v.sc = v.r, v.c
				i += 2
			case '8':
				v.r, v.c = v.sr, v.sc
				v.atEnd = false
				i += 2
			case '(', ')':
				if i+2 >= len(b) {
					v.pending = append([]byte{}, b[i:]...)
					return
				}
				i += 3
			default:
				i += 2
			}
		case ch == '\r':
			v.c = 0
			v.atEnd = false
			i++
		case ch == '\n':
			if v.r == v.H-1 {
				copy(v.cells, v.cells[1:])
				v.cells[v.H-1] = v.blankRow()
			} else {
				v.r++
			}
			v.atEnd = false
			i++
		case ch == '\b':
			if v.c > 0 {
				v.c--
			}
			v.atEnd = false
			i++
		case ch < 0x20 || ch == 0x7f:
			i++
		default:
			if !utf8.FullRune(b[i:]) && len(b)-i < utf8.UTFMax {
				v.pending = append([]byte{}, b[i:]...)
				return
			}
			rn, sz := utf8.DecodeRune(b[i:])
			v.putRune(rn)
			i += sz
		}
	}
}

// Sync feeds whatever the session has written since the last call.
func (v *vtScreen) Sync(s *Session) {
	all := s.Screen()
	if len(all) > v.consumed {
		v.Feed(all[v.consumed:])
		v.consumed = len(all)
	}
}

// Rows returns the text of every row without trailing blanks; Widths the number of columns in use.
func (v *vtScreen) Rows() ([]string, []int) {
	rows := make([]string, v.H)
	widths := make([]int, v.H)
	for r := 0; r < v.H; r++ {
		last := -1
		for c := v.W - 1; c >= 0; c-- {
			if v.cells[r][c] != ' ' {
				last = c
				break
			}
		}
		widths[r] = last + 1
		var sb strings.Builder
		for c := 0; c <= last; c++ {
			if v.cells[r][c] != 0 {
				sb.WriteRune(v.cells[r][c])
			}
		}
		rows[r] = sb.String()
	}
	return rows, widths
}
