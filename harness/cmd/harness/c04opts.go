package main

// C04, configuration side: WHICH criteria are "the configured --tiebreak criteria" (and whether sorting / --tac are on)
// for a whole command line: options of $FZF_DEFAULT_OPTS_FILE, then $FZF_DEFAULT_OPTS, then the arguments; --scheme given
// or not; several --tiebreak / --scheme / --sort / --no-sort / --tac / --no-tac in any order (the last one wins).
//   spec  : CriteriaSpec.configured (op 412) / tiebreak_criteria (op 414), the manual page's reading
//   corr  : CriteriaModel.parse_options (op 413) vs the real ParseOptions
//   kinds : "opts" (in process: fzf.ParseOptions on the rendered command line, valid and malformed values) and
//           "proc" with Cfg (the fzf process: stdout order vs RankSpec.results under the configuration the SPEC
//           derives from the option sequence - nothing is taken from fzf's own option parser).

import (
	"bytes"
	"context"
	"fmt"
	"os"
	"os/exec"
	"path/filepath"
	"strings"
	"time"

	fzf "github.com/junegunn/fzf/src"
	"github.com/junegunn/fzf/src/util"
)

type c04Opt struct {
	K     string `json:"k"`               // scheme | tiebreak | sort | tac
	V     string `json:"v,omitempty"`     // value of --scheme / --tiebreak
	On    bool   `json:"on,omitempty"`    // sort / tac: on or off
	Form  int    `json:"form,omitempty"`  // 0: --name=value (--sort, --no-sort)   1: --name value (-s, +s)
	Where int    `json:"where,omitempty"` // 0 argument, 1 $FZF_DEFAULT_OPTS, 2 $FZF_DEFAULT_OPTS_FILE
}

func (o c04Opt) words() []string {
	switch o.K {
	case "scheme", "tiebreak":
		if o.Form == 1 {
			return []string{"--" + o.K, o.V}
		}
		return []string{"--" + o.K + "=" + o.V}
	case "sort":
		if o.On {
			return []string{[]string{"--sort", "-s"}[o.Form&1]}
		}
		return []string{[]string{"--no-sort", "+s"}[o.Form&1]}
	default:
		if o.On {
			return []string{"--tac"}
		}
		return []string{"--no-tac"}
	}
}

// the command line: arguments, $FZF_DEFAULT_OPTS, content of $FZF_DEFAULT_OPTS_FILE (fzf reads file, then env, then args;
// options are kept in sequence order within each source, and the generator assigns sources in that order)
func c04Render(opts []c04Opt) (args []string, env string, file string) {
	ew, fw := []string{}, []string{}
	for _, o := range opts {
		switch o.Where {
		case 2:
			fw = append(fw, o.words()...)
		case 1:
			ew = append(ew, o.words()...)
		default:
			args = append(args, o.words()...)
		}
	}
	return args, strings.Join(ew, " "), strings.Join(fw, "\n")
}

// the sequence in the order fzf reads it (file, env, arguments)
func c04ReadOrder(opts []c04Opt) []c04Opt {
	out := []c04Opt{}
	for _, w := range []int{2, 1, 0} {
		for _, o := range opts {
			ow := o.Where
			if ow < 0 || ow > 2 {
				ow = 0
			}
			if ow == w {
				out = append(out, o)
			}
		}
	}
	return out
}

func c04OptsVal(opts []c04Opt) Val {
	vs := []Val{}
	for _, o := range c04ReadOrder(opts) {
		switch o.K {
		case "scheme":
			vs = append(vs, L(I(0), Runes([]rune(o.V))))
		case "tiebreak":
			vs = append(vs, L(I(1), Runes([]rune(o.V))))
		case "sort":
			vs = append(vs, L(I(2), B(o.On)))
		default:
			vs = append(vs, L(I(3), B(o.On)))
		}
	}
	return L(vs...)
}

type c04Config struct {
	OK     bool
	Scheme int // index into schemeNames
	Crits  []int
	Sort   bool
	Tac    bool
}

// the configuration the SPEC reads from the option sequence
func c04SpecConfig(c *Ctx, opts []c04Opt, walker bool) c04Config {
	v := c.Model.Call(412, L(B(walker), c04OptsVal(opts)))
	if !v.IsList || len(v.L) != 5 || v.L[0].I != 1 {
		return c04Config{}
	}
	return c04Config{OK: true, Scheme: int(v.L[1].I), Crits: v.L[2].IntList(), Sort: v.L[3].I != 0, Tac: v.L[4].I != 0}
}

func (g c04Config) String() string {
	if !g.OK {
		return "rejected"
	}
	return fmt.Sprintf("scheme=%s criteria=%v sort=%v tac=%v", schemeNames[g.Scheme], g.Crits, g.Sort, g.Tac)
}

// RunFzfTTY runs fzf with a terminal (pty slave) as standard input: fzf then produces the input itself by running
// $FZF_DEFAULT_COMMAND (here: cat of a file holding the lines). stdout / stderr are pipes. Exit code -1 on timeout.
func RunFzfTTY(c *Ctx, args []string, lines []byte, env ...string) (string, string, int) {
	os.MkdirAll(c.Work, 0o755)
	src := filepath.Join(c.Work, "c04_walker_input")
	if err := os.WriteFile(src, lines, 0o644); err != nil {
		return "", err.Error(), -2
	}
	master, slave, err := openPty(80, 24)
	if err != nil {
		return "", err.Error(), -2
	}
	defer master.Close()
	ctx, cancel := context.WithTimeout(context.Background(), 30*time.Second)
	defer cancel()
	cmd := exec.CommandContext(ctx, c.Fzf, args...)
	cmd.Stdin = slave
	var out, errb bytes.Buffer
	cmd.Stdout = &out
	cmd.Stderr = &errb
	cmd.Env = append([]string{"PATH=" + os.Getenv("PATH"), "HOME=" + os.Getenv("HOME"), "TERM=xterm-256color",
		"TMPDIR=" + c.Work, "SHELL=/bin/sh", "FZF_DEFAULT_OPTS=", "FZF_DEFAULT_COMMAND=cat " + src}, env...)
	err = cmd.Run()
	slave.Close()
	code := 0
	if err != nil {
		if ee, ok := err.(*exec.ExitError); ok {
			code = ee.ExitCode()
		} else {
			code = -1
		}
	}
	if ctx.Err() != nil {
		code = -1
	}
	return out.String(), errb.String(), code
}

// c04Resolve fills scheme / criteria / sort / tac of a Cfg case from the spec. Walker: stdin of the fzf process is a
// terminal and fzf runs $FZF_DEFAULT_COMMAND itself (no binding on start in these command lines); otherwise a pipe.
func c04Resolve(c *Ctx, cs c04Case) (c04Case, bool) {
	if !cs.Cfg {
		return cs, true
	}
	g := c04SpecConfig(c, cs.Opts, cs.Walker)
	if !g.OK {
		return cs, false
	}
	cs.Scheme, cs.SortOn, cs.Tac, cs.crits = g.Scheme, g.Sort, g.Tac, g.Crits
	if cs.crits == nil {
		cs.crits = []int{}
	}
	return cs, true
}

func c04EnvFile(c *Ctx, file string) (string, bool) {
	if file == "" {
		return "", true
	}
	p := filepath.Join(c.Work, "c04_default_opts")
	if os.MkdirAll(c.Work, 0o755) != nil || os.WriteFile(p, []byte(file+"\n"), 0o644) != nil {
		return "", false
	}
	return p, true
}

// ---------- kind "opts": the real ParseOptions in process ----------

func c04EvalOpts(c *Ctx, cs c04Case) (ds []c04D, nontrivial bool) {
	args, env, file := c04Render(cs.Opts)
	path, ok := c04EnvFile(c, file)
	if !ok {
		c.Rep.Count("opts.skipped_no_scratch_file")
		return nil, false
	}
	walker := util.IsTty(os.Stdin) // no binding in these command lines: the walker is used iff stdin is a terminal
	var opts *fzf.Options
	var err error
	c04Mu.Lock()
	saved := map[string]string{}
	for _, k := range []string{"FZF_DEFAULT_OPTS", "FZF_DEFAULT_OPTS_FILE"} {
		saved[k] = os.Getenv(k)
	}
	os.Setenv("FZF_DEFAULT_OPTS", env)
	os.Setenv("FZF_DEFAULT_OPTS_FILE", path)
	pan := c04Recover(func() { opts, err = fzf.ParseOptions(true, args) })
	for k, v := range saved {
		os.Setenv(k, v)
	}
	c04Mu.Unlock()
	c.Rep.mu.Lock()
	c.Rep.ImplTraces++
	c.Rep.mu.Unlock()
	if pan != "" {
		return []c04D{{Kind: "spec", Name: "no_crash", Input: cs, Impl: "ParseOptions panics: " + pan, Expect: "options or an error"}}, false
	}
	var impl Val
	implS := ""
	if err != nil {
		impl = c04Verr
		implS = "error: " + err.Error()
	} else {
		crits := make([]int, len(opts.Criteria))
		for i, x := range opts.Criteria {
			crits[i] = int(x)
		}
		impl = L(Runes([]rune(opts.Scheme)), Ints(crits), I(opts.Sort), B(opts.Tac))
		implS = fmt.Sprintf("scheme=%s criteria=%v sort=%v tac=%v", opts.Scheme, crits, opts.Sort > 0, opts.Tac)
	}
	ov := L(B(walker), c04OptsVal(cs.Opts))
	mv := c.Model.Call(413, ov)
	if !mv.Equal(impl) {
		ds = append(ds, c04D{Kind: "corr", Name: "corr:C04.parse_options", Input: cs, Impl: impl.String(), Expect: mv.String()})
	}
	g := c04SpecConfig(c, cs.Opts, walker)
	if g.OK {
		c.Rep.mu.Lock()
		c.Rep.SpecChecks++
		c.Rep.mu.Unlock()
		good := err == nil && opts.Scheme == schemeNames[g.Scheme] && len(opts.Criteria) == len(g.Crits) &&
			(opts.Sort > 0) == g.Sort && opts.Tac == g.Tac
		if good {
			for i, x := range opts.Criteria {
				if int(x) != g.Crits[i] {
					good = false
				}
			}
		}
		if !good {
			ds = append(ds, c04D{Kind: "spec", Name: "configured_criteria", Input: cs,
				Impl: fmt.Sprintf("fzf %s  FZF_DEFAULT_OPTS=%q FZF_DEFAULT_OPTS_FILE content=%q -> %s", strings.Join(args, " "), env, file, implS), Expect: g.String()})
		}
		c.Rep.Count("opts.valid")
	} else {
		c.Rep.Count("opts.rejected_by_spec")
	}
	// one --tiebreak value on its own: the spec's reading of the string vs parseTiebreak
	for _, o := range cs.Opts {
		if o.K != "tiebreak" {
			continue
		}
		tv := c.Model.Call(414, Runes([]rune(o.V)))
		got := fzf.VerifParseTiebreak(o.V)
		if len(tv.L) == 2 && tv.L[0].I == 1 {
			c.Rep.mu.Lock()
			c.Rep.SpecChecks++
			c.Rep.mu.Unlock()
			if got == nil || !Ints(got).Equal(tv.L[1]) {
				ds = append(ds, c04D{Kind: "spec", Name: "tiebreak_criteria", Input: c04Case{Kind: "opts", Cfg: true, Opts: []c04Opt{{K: "tiebreak", V: o.V}}},
					Impl: fmt.Sprintf("parseTiebreak(%q) = %v", o.V, got), Expect: tv.L[1].String()})
			}
		} else if got != nil {
			ds = append(ds, c04D{Kind: "corr", Name: "corr:C04.parse_tiebreak", Input: cs, Impl: fmt.Sprintf("parseTiebreak(%q) = %v", o.V, got), Expect: "rejected"})
		}
	}
	return ds, g.OK && len(cs.Opts) >= 1
}

// ---------- generators ----------

var c04HavePty = func() bool {
	m, s, err := openPty(80, 24)
	if err != nil {
		return false
	}
	m.Close()
	s.Close()
	return true
}()

func c04FlipCase(r *RNG, s string) string {
	b := []byte(s)
	for i := range b {
		if b[i] >= 'a' && b[i] <= 'z' && r.Chance(1, 3) {
			b[i] -= 32
		}
	}
	return string(b)
}

var c04BadTies = []string{"", ",", "index,length", "index,index", "length,length", "begin,length,begin", "length,chunk,begin,end",
	"length,chunk,begin,end,index", "pathname,length,chunk,end,index", "foo", "lenght", "length,,index", "length,", ",length", " length", "length ",
	"score", "length;index", "index,", "indexx", "len", "end,begin,chunk,pathname", "path", "default", "history", "length index", "-length", "é"}
var c04BadSchemes = []string{"", "paths", "hist", "defaul", "default,path", " path", "index", "length", "pathname", "é"}

func c04SafeWord(s string) bool {
	if s == "" {
		return false
	}
	for _, ch := range s {
		if !(ch >= 'a' && ch <= 'z' || ch >= 'A' && ch <= 'Z' || ch == ',') {
			return false
		}
	}
	return true
}

// a sequence of the options this property depends on. scheme >= 0: the sequence is valid and its LAST --scheme (if any) is
// that scheme; for the default scheme the sequence has no --scheme at all half of the time. scheme < 0: any scheme, and
// malformed values when malformed is set.
func c04GenOpts(r *RNG, scheme int, ties []string, malformed bool) []c04Opt {
	n := Pick(r, []int{0, 1, 1, 1, 2, 2, 3, 4, 6})
	opts := []c04Opt{}
	tie := func() string {
		v := ""
		switch r.Intn(6) {
		case 0, 1:
			v = "index" // only the score key: every other input-position tie is visible
		case 2:
			v = Pick(r, c04TieNames)
		default:
			v = Pick(r, ties)
		}
		if r.Chance(1, 8) {
			v = c04FlipCase(r, v)
		}
		return v
	}
	for i := 0; i < n; i++ {
		o := c04Opt{Form: r.Intn(2)}
		switch r.Intn(10) {
		case 0, 1, 2, 3:
			o.K, o.V = "tiebreak", tie()
		case 4, 5:
			o.K, o.V = "scheme", Pick(r, schemeNames)
			if r.Chance(1, 8) {
				o.V = c04FlipCase(r, o.V)
			}
		case 6, 7:
			o.K, o.On = "sort", r.Bool()
		default:
			o.K, o.On = "tac", r.Bool()
		}
		opts = append(opts, o)
	}
	if scheme >= 0 {
		last := -1
		for i, o := range opts {
			if o.K == "scheme" {
				last = i
			}
		}
		if scheme == 0 && (last < 0 || r.Bool()) {
			// no --scheme anywhere: fzf has to work the scheme and the default criteria out by itself
			kept := opts[:0]
			for _, o := range opts {
				if o.K != "scheme" {
					kept = append(kept, o)
				}
			}
			opts = kept
		} else {
			if last < 0 {
				last = r.Intn(len(opts) + 1)
				opts = append(opts[:last], append([]c04Opt{{K: "scheme", Form: r.Intn(2)}}, opts[last:]...)...)
			}
			opts[last].V = schemeNames[scheme]
			if r.Chance(1, 8) {
				opts[last].V = c04FlipCase(r, opts[last].V)
			}
		}
	} else if malformed && len(opts) > 0 {
		i := r.Intn(len(opts))
		switch opts[i].K {
		case "tiebreak":
			opts[i].V = Pick(r, c04BadTies)
		case "scheme":
			opts[i].V = Pick(r, c04BadSchemes)
		}
	}
	// sources: a prefix from the file, the next part from $FZF_DEFAULT_OPTS, the rest as arguments
	if r.Chance(1, 3) && len(opts) > 0 {
		a := r.Intn(len(opts) + 1)
		b := a + r.Intn(len(opts)-a+1)
		if r.Bool() {
			a = 0 // no file
		}
		for i := range opts {
			switch {
			case i < a:
				opts[i].Where = 2
			case i < b:
				opts[i].Where = 1
			}
			if opts[i].Where != 0 && (opts[i].K == "scheme" || opts[i].K == "tiebreak") && !c04SafeWord(opts[i].V) {
				opts[i].Where = 0 // would need shell quoting: keep it an argument (moves it to the end of the read order)
			}
		}
	}
	return opts
}

func c04GenOptsCase(r *RNG, ties []string) c04Case {
	return c04Case{Kind: "opts", Cfg: true, Opts: c04GenOpts(r, -1, ties, r.Chance(1, 3))}
}

// lines for the configuration stream: few distinct words, so that many lines tie on the score and differ in length,
// position of the match and path depth - whichever criteria are configured, some pair of lines is ordered by them
var c04CfgSegs = []string{"foo", "foo", "foo", "bar", "/", "/", " ", " ", "x", "xx", "xxxx", "ab", "a/b", "baz", "o", "f"}

func c04GenCfgLines(r *RNG, n int) []string {
	lines := make([]string, n)
	for i := range lines {
		if r.Chance(1, 4) {
			lines[i] = c04GenLine(r)
			continue
		}
		var b strings.Builder
		for k, m := 0, r.Range(1, 5); k < m; k++ {
			b.WriteString(Pick(r, c04CfgSegs))
		}
		lines[i] = b.String()
	}
	return lines
}

func c04GenCfgProc(r *RNG, scheme int, n int, ties []string) c04Case {
	cs := c04Case{Kind: "proc", Cfg: true, Scheme: scheme, Opts: c04GenOpts(r, scheme, ties, false), Lines: c04GenCfgLines(r, n)}
	if c04HavePty && r.Chance(1, 4) {
		// stdin is a terminal: without --scheme and --tiebreak fzf chooses the path scheme and its criteria
		given := false
		for _, o := range cs.Opts {
			given = given || o.K == "scheme" || o.K == "tiebreak"
		}
		switch {
		case scheme == 1 && r.Bool():
			kept := []c04Opt{}
			for _, o := range cs.Opts {
				if o.K != "scheme" && o.K != "tiebreak" {
					kept = append(kept, o)
				}
			}
			cs.Opts, cs.Walker = kept, true
		case scheme != 0 || given:
			cs.Walker = true
		}
	}
	if r.Chance(3, 4) {
		cs.Query, cs.Positive = Pick(r, []string{"foo", "fo", "o", "f", "'foo", "^foo", "foo !x", "a", "b", "ab", "x"}), true
	} else {
		cs.Query, cs.Positive = c04GenQuery(r)
	}
	return cs
}
