package main

import (
	"bytes"
	"encoding/json"
	"fmt"
	"net"
	"os"
	"strconv"
	"strings"
	"time"

	fzf "github.com/junegunn/fzf/src"
)

// C16: the --listen endpoint.  One case = one connection: the successive writes of the client
// (then close), the configured key, and the oracles (state JSON, channel ready).  Byte strings are
// stored Latin-1 encoded (one rune per byte) so that replays stay readable JSON.
type c16Case struct {
	Kind   string   `json:"kind"` // "http" | "listen"
	Key    string   `json:"key"`
	State  string   `json:"state,omitempty"`
	Ready  bool     `json:"ready,omitempty"`
	Chunks []string `json:"chunks,omitempty"`
	Addr   string   `json:"addr,omitempty"`
	Open   bool     `json:"open,omitempty"` // the client keeps the connection open until it has the answer (as curl does)
	// the list behind the status dump.  Dump (kind "http"): the getHandler is the real Terminal.dumpStatus over a
	// Terminal holding Items (Sel = indices selected, in that order; Query; Cy = cursor position) instead of the
	// oracle State.  Kind "live": a real fzf --listen process is given the list and Reqs are sent over TCP.
	Dump  bool       `json:"dump,omitempty"`
	Items []string   `json:"items,omitempty"`
	Sel   []int      `json:"sel,omitempty"`
	Query string     `json:"query,omitempty"`
	Cy    int        `json:"cy,omitempty"`
	Reqs  [][]string `json:"reqs,omitempty"` // kind "live": successive connections, each a list of writes
}

func lat(b []byte) string {
	r := make([]rune, len(b))
	for i, c := range b {
		r[i] = rune(c)
	}
	return string(r)
}
func unlat(s string) []byte {
	out := make([]byte, 0, len(s))
	for _, r := range s {
		out = append(out, byte(r))
	}
	return out
}

type c16Parsed struct {
	Types  []int
	Args   []string
	Err    string
	Failed bool
	Panic  string
}

func c16Parse(body string) (p c16Parsed) {
	defer func() {
		if r := recover(); r != nil {
			p.Panic = fmt.Sprint(r)
		}
	}()
	p.Types, p.Args, p.Err, p.Failed = fzf.VerifHTTPParseActionList(body)
	return
}

func (p c16Parsed) verdict() Val {
	if p.Failed {
		return L(I(2), Bytes(p.Err))
	}
	if len(p.Types) == 0 {
		return L(I(1))
	}
	return L(I(0))
}

func sameActions(t1 []int, a1 []string, t2 []int, a2 []string) bool {
	if len(t1) != len(t2) || len(a1) != len(a2) {
		return false
	}
	for i := range t1 {
		if t1[i] != t2[i] || a1[i] != a2[i] {
			return false
		}
	}
	return true
}

// c16Impl feeds the writes over net.Pipe to handleHttpRequest (through the hook) and closes.
func c16Impl(cs c16Case, keepOpen bool, patience time.Duration) (res fzf.VerifHTTPResult, panicked string, hung bool, waited bool) {
	r, _, p, h, w := c16ImplState(cs, keepOpen, patience)
	return r, p, h, w
}

// c16ImplState also returns the state string the getHandler answered with: the oracle of the case, or (Dump) what the
// real Terminal.dumpStatus returned for the list of the case.
func c16ImplState(cs c16Case, keepOpen bool, patience time.Duration) (res fzf.VerifHTTPResult, state string, panicked string, hung bool, waited bool) {
	client, server := net.Pipe()
	chunks := make([][]byte, len(cs.Chunks))
	for i, c := range cs.Chunks {
		chunks[i] = unlat(c)
	}
	go func() {
		for _, ch := range chunks {
			if len(ch) == 0 {
				continue
			}
			if _, err := client.Write(ch); err != nil {
				break
			}
		}
		if !keepOpen {
			client.Close()
		}
	}()
	type out struct {
		r fzf.VerifHTTPResult
		s string
		p string
	}
	items := make([]string, len(cs.Items))
	for i, it := range cs.Items {
		items[i] = string(unlat(it))
	}
	done := make(chan out, 1)
	go func() {
		var o out
		defer func() {
			if r := recover(); r != nil {
				o.p = fmt.Sprint(r)
			}
			done <- o
		}()
		if cs.Dump {
			d := fzf.VerifHandleHTTPDump(server, string(unlat(cs.Key)), items, cs.Sel, string(unlat(cs.Query)), cs.Cy, cs.Ready)
			o.r, o.s = d.VerifHTTPResult, d.State
		} else {
			o.s = string(unlat(cs.State))
			o.r = fzf.VerifHandleHTTP(server, string(unlat(cs.Key)), o.s, cs.Ready)
		}
	}()
	if keepOpen {
		select {
		case o := <-done:
			server.Close()
			client.Close()
			return o.r, o.s, o.p, false, false
		case <-time.After(patience): // a complete request must be answered without waiting for the client to close
			waited = true
			client.Close()
		}
	}
	select {
	case o := <-done:
		server.Close()
		client.Close()
		return o.r, o.s, o.p, false, waited
	case <-time.After(8 * time.Second): // the stream is closed after the last write: nothing should wait for the 10 s deadline
		server.Close()
		client.Close()
		return res, "", "", true, waited
	}
}

func c16Status(resp string) int {
	if len(resp) >= 12 && strings.HasPrefix(resp, "HTTP/1.1 ") {
		n, err := strconv.Atoi(resp[9:12])
		if err == nil {
			return n
		}
	}
	return -1
}

func c16Check(c *Ctx, cs c16Case) {
	if cs.Kind == "listen" {
		c16CheckListen(c, cs)
		return
	}
	if cs.Kind == "live" {
		c16CheckLive(c, cs)
		return
	}
	if cs.Kind == "serve" {
		c16CheckServe(c, cs)
		return
	}
	if cs.Dump { // hand-written replays: only indices of the list, each once
		sel, seen := []int{}, map[int]bool{}
		for _, i := range cs.Sel {
			if i >= 0 && i < len(cs.Items) && !seen[i] {
				sel = append(sel, i)
				seen[i] = true
			}
		}
		cs.Sel = sel
	}
	rep := c.Rep
	key := string(unlat(cs.Key))
	stream := []byte{}
	chunksV := []Val{}
	for _, ch := range cs.Chunks {
		b := unlat(ch)
		stream = append(stream, b...)
		chunksV = append(chunksV, Bytes(string(b)))
	}
	// spec: is the stream a complete request (acceptable POST, or GET with its blank line)?
	sb := c.Model.Call(1604, L(Bytes(key), Bytes(string(stream))))
	specBody, specHas := "", false
	if sb.IsList && len(sb.L) == 1 {
		specBody, specHas = sb.L[0].Str(), true
	}
	whole := len(cs.Chunks) == 1 && len(stream) <= 4096
	completeGet := false
	if i := bytes.Index(stream, []byte("\r\n")); i >= 0 && bytes.Contains(stream, []byte("\r\n\r\n")) {
		gm := c.Model.Call(1607, Bytes(string(stream[:i+2])))
		completeGet = gm.IsList && len(gm.L) == 1
	}
	keepOpen := cs.Open && whole && (specHas || completeGet) && (rep.NDisagree() < 3 || c.Replay != "") // enough evidence: stop paying for waits
	res, state, pan, hung, waited := c16ImplState(cs, keepOpen, 2*time.Second)
	stallShape := false // the known finding: everything after the blank line ends with CRLF
	if i := bytes.Index(stream, []byte("\r\n\r\n")); specHas && i >= 0 && bytes.HasSuffix(stream[i+4:], []byte("\r\n")) {
		stallShape = true
	}
	if waited && !stallShape {
		// liveness observations are re-tried with more patience (still below the 10 s deadline) before they count
		res, state, pan, hung, waited = c16ImplState(cs, keepOpen, 7*time.Second)
	}
	rep.mu.Lock()
	rep.ImplTraces++
	rep.mu.Unlock()
	canon, _ := json.Marshal(cs)
	if pan != "" || hung {
		what := "panic: " + pan
		if hung {
			what = "no answer within 8 s although the client closed the connection"
		}
		rep.Eval(string(canon), true)
		rep.Disagreement(Disagreement{Kind: "spec", Name: "total", Input: cs, Impl: what, Expect: "an HTTP answer"})
		return
	}
	code := c16Status(res.Response)

	// ---- model ----
	pend := c.Model.Call(1602, L(Bytes(key), L(chunksV...)))
	verdict := L(I(1))
	var mparsed c16Parsed
	if pend.IsList && len(pend.L) == 1 {
		mparsed = c16Parse(pend.L[0].Str())
		if mparsed.Panic != "" {
			rep.Disagreement(Disagreement{Kind: "spec", Name: "total", Input: cs, Impl: "parseSingleActionList panics: " + mparsed.Panic, Expect: "an error value"})
			return
		}
		verdict = mparsed.verdict()
	}
	if !res.GetCalled {
		state = string(unlat(cs.State)) // not looked at by the handler
	}
	mv := c.Model.Call(1601, L(Bytes(key), Bytes(state), verdict, B(cs.Ready), L(chunksV...)))
	// projected observables of the implementation in the model's shape
	implActs := L()
	if res.Delivered {
		implActs = L(I(1))
	}
	implGet := L()
	if res.GetCalled {
		implGet = L(I(res.Limit>>32), I(res.Limit&0xffffffff), I(res.Offset>>32), I(res.Offset&0xffffffff))
	}
	okCorr := mv.IsList && len(mv.L) == 4
	if okCorr {
		mActs := L()
		if len(mv.L[2].L) == 1 {
			mActs = L(I(1))
		}
		okCorr = mv.L[1].Equal(Bytes(res.Response)) && mActs.Equal(implActs) && mv.L[3].Equal(implGet)
		if okCorr && res.Delivered {
			// the delivered action list is the parse of the body the model hands over
			okCorr = sameActions(res.ActionTypes, res.ActionArgs, mparsed.Types, mparsed.Args)
		}
	}
	if !okCorr {
		rep.Disagreement(Disagreement{Kind: "corr", Name: "corr:C16.handle", Input: cs,
			Impl:   map[string]interface{}{"response": lat([]byte(res.Response)), "delivered": res.Delivered, "types": res.ActionTypes, "args": res.ActionArgs, "get": implGet.String()},
			Expect: mv.String()})
	}

	// ---- the property's own spec on the implementation's outputs ----
	rep.mu.Lock()
	rep.SpecChecks++
	rep.mu.Unlock()
	viol := func(name string, impl, expect interface{}) {
		rep.Disagreement(Disagreement{Kind: "spec", Name: name, Input: cs, Impl: impl, Expect: expect})
	}
	implSummary := map[string]interface{}{"response": lat([]byte(res.Response)), "delivered": res.Delivered, "get_called": res.GetCalled}
	// response_wf
	wf := c.Model.Call(1603, Bytes(res.Response))
	if wf.IsList || wf.I < 0 || int(wf.I) != code {
		viol("response_wf", implSummary, "status line, headers, blank line, Content-Length = body length")
	}
	// auth: without the key bytes anywhere in the stream nothing is accepted or revealed
	keyInStream := true
	if key != "" {
		keyInStream = c.Model.Call(1605, L(Bytes(key), Bytes(string(stream)))).I == 1
		if !keyInStream && (res.Delivered || res.GetCalled || (code != 401 && code != 400)) {
			viol("auth", implSummary, "401 (or 400), no action, no state: the key does not occur in the stream")
		}
	}
	// auth_exact_key: the configured key is the exact byte string.  One that no header value can equal (white space at an
	// end, blank) is still a configured key: everything is refused, whatever the framing (unpresentable_key_refused); and a
	// request written at once is served only if what it presents as a whole is that very key.
	if key != "" {
		through := res.Delivered || res.GetCalled || (code != 401 && code != 400)
		if c.Model.Call(1612, Bytes(key)).I != 1 {
			rep.Count("key=unpresentable(white space at an end)")
			if through {
				viol("auth_exact_key", implSummary, "401 (or 400), no action, no state: the configured key "+strconv.Quote(key)+
					" begins or ends with white space, a header value never does, so no request presents exactly this key")
			}
		} else if through && len(cs.Chunks) == 1 && len(stream) <= 4096 {
			if pk := c.Model.Call(1613, Bytes(string(stream))).Str(); pk != key {
				viol("auth_exact_key", implSummary, map[string]interface{}{"status": "401 (or 400), no action, no state", "configured": lat([]byte(key)), "presented": lat([]byte(pk))})
			}
		}
	}
	// get_no_actions
	if bytes.HasPrefix(stream, []byte("GET")) && res.Delivered {
		viol("get_no_actions", implSummary, "a GET never delivers actions")
	}
	// accept_sound / post_is_bind_parse: whatever is executed is the action list of a well-formed authorised POST
	var sparsed c16Parsed
	if specHas {
		sparsed = c16Parse(specBody)
	}
	specAccept := specHas && !sparsed.Failed && len(sparsed.Types) > 0 && sparsed.Panic == ""
	if res.Delivered {
		if !specAccept {
			viol("malformed_rejected", implSummary, "no action: the stream is not a well-formed authorised POST with a valid action list")
		} else if !sameActions(res.ActionTypes, res.ActionArgs, sparsed.Types, sparsed.Args) {
			viol("post_is_bind_parse", map[string]interface{}{"types": res.ActionTypes, "args": res.ActionArgs},
				map[string]interface{}{"body": lat([]byte(specBody)), "types": sparsed.Types, "args": sparsed.Args})
		}
	}
	// malformed_rejected: 200/503 only for an answered GET or an acceptable POST
	if (code == 200 || code == 503) && !res.GetCalled && !specAccept {
		viol("malformed_rejected", implSummary, "400 or 401")
	}
	if code != 200 && code != 400 && code != 401 && code != 503 {
		viol("response_wf", implSummary, "status 200, 400, 401 or 503")
	}
	// a GET is answered only after the key check, with the parameters of its request line
	if res.GetCalled && !bytes.HasPrefix(stream, []byte("GET /")) {
		viol("get_requires_key", implSummary, "state is only returned to a GET request")
	}
	// get_request_params / get_params_safe: the getHandler is given what the request line at the start of the stream asks
	// for, and never a negative number (the condition under which the status dump cannot index outside its lists)
	var specGet Val
	if res.GetCalled {
		specGet = c.Model.Call(1609, Bytes(string(stream)))
		if res.Limit < 0 || res.Offset < 0 {
			viol("get_params_safe", map[string]interface{}{"limit": res.Limit, "offset": res.Offset, "response": lat([]byte(res.Response))},
				"limit and offset in 0 .. 2^63-1: Terminal.dumpStatus indexes its lists with offset+i")
		} else if !specGet.Equal(implGet) {
			viol("get_request_params", map[string]interface{}{"limit": res.Limit, "offset": res.Offset},
				"the limit/offset of the request line (high/low halves): "+specGet.String())
		}
	}
	// answer_verbatim: the body of the answer is the message, byte for byte - the state for a GET, the parser's own error
	// text for a refused action list
	if res.GetCalled || (whole && specHas && sparsed.Failed) {
		want, wantCode := state+"\n", 200
		switch {
		case !res.GetCalled:
			want, wantCode = sparsed.Err+"\n", 400
		case state == "":
			want, wantCode = "{\"error\":\"timeout\"}\n", 503
		}
		bv := c.Model.Call(1611, Bytes(res.Response))
		if code != wantCode || !bv.IsList || len(bv.L) != 1 || bv.L[0].Str() != want {
			viol("answer_verbatim", implSummary, map[string]interface{}{"status": wantCode, "body": lat([]byte(want))})
		}
	}
	// get_dump_window: what the real status dump shows is the window [offset, offset+limit) of the list and of the selection
	if cs.Dump && res.GetCalled && len(specGet.L) == 4 {
		c16CheckDump(c, cs, state, specGet, viol)
	}
	// completeness on unsegmented small requests: an acceptable POST written at once is executed
	if whole && specAccept && cs.Ready && !(res.Delivered && code == 200) {
		viol("wellformed_accepted", implSummary, "200 and the actions of "+strconv.Quote(specBody))
	}

	// no_wedge: a complete request written at once is answered while the connection is still open
	if keepOpen {
		rep.Count("kept_open")
		mw := c.Model.Call(1608, L(chunksV...))
		if mw.IsList || (mw.I == 1) != waited {
			rep.Disagreement(Disagreement{Kind: "corr", Name: "corr:C16.waits_for_close", Input: cs, Impl: waited, Expect: mw.String()})
		}
		if waited {
			// known finding: the scan loop asks for one more token when the body ends with CRLF
			if stallShape {
				rep.Disagreement(Disagreement{Kind: "spec", Name: "no_wedge", Input: cs, Impl: implSummary, Known: "stall-body-ends-crlf",
					Expect: "an answer without the client closing its side"})
			} else {
				viol("no_wedge", implSummary, "an answer without the client closing its side (complete request; waited 2 s, then 7 s)")
			}
		}
	}

	// ---- bookkeeping ----
	nontrivial := res.Delivered || res.GetCalled || code == 401
	rep.Eval(string(canon), nontrivial)
	rep.Sample(cs)
	rep.Count(fmt.Sprintf("status=%d", code))
	if res.Delivered {
		rep.Count("delivered")
	}
	if res.GetCalled {
		rep.Count("get_answered")
		if cs.Dump {
			rep.Count("get_answered_by_real_dump")
		}
		if res.Limit > 1<<32 || res.Offset > 1<<32 {
			rep.Count("get_param>2^32")
		}
	}
	if bytes.Contains(stream, []byte("%")) || bytes.Contains([]byte(state), []byte("%")) {
		rep.Count("percent_sign_in_request_or_state")
	}
	if key != "" {
		rep.Count("key=set")
		if !keyInStream {
			rep.Count("key_absent_from_stream")
		}
	} else {
		rep.Count("key=none")
	}
	switch {
	case len(cs.Chunks) <= 1:
		rep.Count("seg=whole")
	case len(cs.Chunks) == len(stream):
		rep.Count("seg=bytewise")
	default:
		rep.Count("seg=pieces")
	}
	switch {
	case len(stream) > 65536:
		rep.Count("size>64K")
	case len(stream) > 4096:
		rep.Count("size>4K")
	default:
		rep.Count("size<=4K")
	}
	if specAccept && !res.Delivered && cs.Ready {
		// acceptable as a whole but refused as segmented / buffered (see the finding in the manifest)
		rep.Count("acceptable_stream_refused_as_segmented")
	}
}

// ---- start decision ----
func c16CheckListen(c *Ctx, cs c16Case) {
	rep := c.Rep
	key := string(unlat(cs.Key))
	addr := string(unlat(cs.Addr))
	canon, _ := json.Marshal(cs)
	host, port, perr := fzf.VerifParseListenAddress(addr)
	impl := L()
	started := false
	nonLocal := false
	switch {
	case strings.HasPrefix(perr, "invalid listen address"):
		impl = L(I(2))
	case perr != "":
		impl = L(I(3))
	default:
		nonLocal = host != "localhost" && host != "127.0.0.1"
		refused := false
		if port == 0 || (nonLocal && key == "") {
			c16EnvMu.Lock()
			os.Setenv("FZF_API_KEY", key)
			ok, serr := fzf.VerifStartHTTP(host, port)
			os.Unsetenv("FZF_API_KEY")
			c16EnvMu.Unlock()
			started = ok
			refused = strings.Contains(serr, "FZF_API_KEY is required")
		}
		if refused {
			impl = L(I(0))
		} else {
			impl = L(I(1), Bytes(host), I(port))
		}
	}
	rep.mu.Lock()
	rep.ImplTraces++
	rep.SpecChecks++
	rep.mu.Unlock()
	mv := c.Model.Call(1606, L(Bytes(addr), Bytes(key)))
	if !mv.Equal(impl) {
		rep.Disagreement(Disagreement{Kind: "corr", Name: "corr:C16.start_decision", Input: cs, Impl: impl.String(), Expect: mv.String()})
	}
	if perr == "" && nonLocal && key == "" && (started || !(len(impl.L) == 1 && impl.L[0].I == 0)) {
		rep.Disagreement(Disagreement{Kind: "spec", Name: "remote_needs_key", Input: cs, Impl: impl.String(), Expect: "refusal: a non-local listener needs FZF_API_KEY"})
	}
	rep.Eval(string(canon), perr == "")
	rep.Count("listen")
	if len(impl.L) == 1 && impl.L[0].I == 0 {
		rep.Count("listen=refused_no_key")
	}
}

// ---- generators ----
var c16Keys = []string{"", "", "", "secret", "secret", "s", "k k", "Secret", "s\xc3\xa9cret", "0", "key:colon"}

var c16Bodies = []string{"up", "down+up", "change-query(abc)", "reload(echo hi)", "accept", "up\r\n", "\r\nup\r\n", "up\n",
	"", "\r\n", "+", "up+", "unknown-action", "execute(foo", "put(\xff)", "change-query(a\r\nb)", "up\r\n+down", "UP", "toggle-all+down+down",
	"change-prompt(>)+first", "transform-query:echo x", "pos(3)", "pos(x)", "ignore", "up up", " up "}

var c16States = []string{"{}", "{\"reading\":false,\"matches\":[]}", "", "x", "{\"a\":\"\r\n\r\nHTTP/1.1 200 OK\"}"}

func c16Name(r *RNG, base string) string {
	switch r.Intn(12) {
	case 0:
		return strings.ToLower(base)
	case 1:
		return strings.ToUpper(base)
	case 2:
		return strings.ReplaceAll(strings.ReplaceAll(base, "K", "K"), "i", "İ") // Kelvin sign / dotted capital I
	case 3:
		return " " + base
	case 4:
		return base + " "
	case 5:
		return strings.ReplaceAll(base, "-", "_")
	case 6:
		b := []byte(base)
		for i := range b {
			if r.Bool() {
				b[i] = strings.ToUpper(string(b[i]))[0]
			} else {
				b[i] = strings.ToLower(string(b[i]))[0]
			}
		}
		return string(b)
	}
	return base
}

func c16Request(r *RNG, key string) []byte { return c16RequestWith(r, key, nil) }

// c16RequestWith: bodyOf (when not nil) supplies the POST bodies
func c16RequestWith(r *RNG, key string, bodyOf func(*RNG) string) []byte {
	get := r.Chance(1, 4)
	line := "POST / HTTP/1.1"
	if get {
		line = Pick(r, []string{"GET / HTTP/1.1", "GET / HTTP/1.1", "GET /?limit=5&offset=2 HTTP/1.1", "GET /?offset=7 HTTP/1.0",
			"GET /?limit=0 HTTP/1.1", "GET /?limit=99999999999999999999&offset=1 HTTP/1.1", "GET /?limit=3=4&x=1&&limit HTTP/1.1",
			"GET /?limit=9223372036854775807&offset=9223372036854775808 HTTP/1.1", "GET /? HTTP/1.1", "GET /?LIMIT=1 HTTP/1.1",
			"GET /x HTTP/1.1", "GET  / HTTP/1.1", "GET /?a=b HTTP", "GET / HTTP", "GET /"})
		if r.Chance(1, 2) { // generated parameters: numbers at the boundaries of the integer types, repeated / unknown / empty names
			line = "GET /?" + c16Query(r) + Pick(r, []string{" HTTP/1.1", " HTTP/1.1", " HTTP/1.1", " HTTP/1.0", " HTTP", ""})
		}
	} else if r.Chance(1, 8) {
		line = Pick(r, []string{"POST /x HTTP/1.1", "PUT / HTTP/1.1", "post / http/1.1", "POST / HTTP", "POST / HTT", " POST / HTTP/1.1",
			"POST / HTTP/1.1 GET / HTTP", "", "DELETE / HTTP/1.1", "POST  / HTTP/1.1"})
	}
	body := Pick(r, c16Bodies)
	if r.Chance(1, 10) {
		body = strings.Repeat(Pick(r, []string{"up+", "down+", "x"}), r.Range(1, 40)) + "up"
	} else if r.Chance(1, 5) { // names and arguments made of characters that mean something to printf, JSON, HTTP, the action syntax
		body = c16SpecialBody(r, false)
	}
	if bodyOf != nil {
		body = bodyOf(r)
	}
	hdrs := []string{}
	if r.Chance(4, 5) {
		hdrs = append(hdrs, "Host: localhost:6266")
	}
	if r.Chance(1, 3) {
		hdrs = append(hdrs, Pick(r, []string{"User-Agent: curl/8.5.0", "Accept: */*", "no colon here", ": empty name", "Content-Type: text/plain",
			"X-Other: secret", "Content-Lengthy: 3", "X-API-Keys: secret", "Expect: 100-continue"}))
	}
	// Content-Length
	if !get || r.Chance(1, 5) {
		n := len(body)
		v := strconv.Itoa(n)
		switch r.Intn(24) {
		case 0:
			v = strconv.Itoa(n + 1)
		case 1:
			v = strconv.Itoa(max(n-1, 0))
		case 2:
			v = "0"
		case 3:
			v = "-1"
		case 4:
			v = "+" + v
		case 5:
			v = Pick(r, []string{"1048576", "1048577", "99999999999999999999", "9223372036854775808"})
			if r.Bool() {
				v = c16Num(r)
			}
		case 6:
			v = Pick(r, []string{"", "abc", "0x10", "1_0", "1 1", "1.0", "-", "+"})
		case 7:
			v = "  " + v + " \t"
		case 8:
			v = " " + v + "　"
		case 9:
			v = "00" + v
		case 10:
			v = strconv.Itoa(n + r.Range(2, 9))
		}
		if !(r.Chance(1, 12)) {
			hdrs = append(hdrs, c16Name(r, "Content-Length")+":"+Pick(r, []string{" ", " ", "", "  "})+v)
			if r.Chance(1, 10) {
				hdrs = append(hdrs, "Content-Length: "+Pick(r, []string{strconv.Itoa(n), "0", "x", strconv.Itoa(n + 1)}))
			}
		}
	}
	// X-API-Key
	if key != "" || r.Chance(1, 6) {
		k := key
		if k == "" {
			k = "secret"
		}
		pv := k
		switch r.Intn(16) {
		case 0:
			pv = k[:len(k)-1]
		case 1:
			pv = k + "x"
		case 2:
			pv = "x" + k
		case 3:
			pv = strings.ToUpper(k)
		case 4:
			pv = ""
		case 5:
			pv = "  " + k + "  "
		case 6:
			pv = " " + k + " \t"
		case 7:
			pv = k + k
		case 8:
			pv = k + "\x00"
		}
		if !r.Chance(1, 8) {
			h := c16Name(r, "X-API-Key") + ":" + Pick(r, []string{" ", " ", "", "\t"}) + pv
			hdrs = append(hdrs, h)
			if r.Chance(1, 8) { // duplicates: the last one counts
				hdrs = append(hdrs, "X-API-Key: "+Pick(r, []string{k, "wrong", ""}))
			}
			if r.Chance(1, 10) {
				hdrs = append([]string{"x-api-key: " + Pick(r, []string{k, "wrong"})}, hdrs...)
			}
		}
	}
	for i := len(hdrs) - 1; i > 0; i-- { // shuffle
		j := r.Intn(i + 1)
		hdrs[i], hdrs[j] = hdrs[j], hdrs[i]
	}
	eol := "\r\n"
	if r.Chance(1, 25) {
		eol = Pick(r, []string{"\n", "\r", "\r\r\n", "\n\r"})
	}
	var b bytes.Buffer
	b.WriteString(line + eol)
	for _, h := range hdrs {
		b.WriteString(h + eol)
	}
	if !r.Chance(1, 15) {
		b.WriteString(eol)
	}
	if get {
		if r.Chance(1, 8) {
			b.WriteString(body)
		}
	} else {
		if r.Chance(1, 20) { // body before headers
			return append([]byte(body+"\r\n"), b.Bytes()...)
		}
		b.WriteString(body)
		if r.Chance(1, 8) {
			b.WriteString(Pick(r, []string{"\r\n", "+down", "garbage after the body", "\r\n\r\nPOST / HTTP/1.1\r\nContent-Length: 2\r\n\r\nup"}))
		}
	}
	return b.Bytes()
}

func c16Mutate(r *RNG, s []byte) []byte {
	n := r.Range(1, 3)
	for i := 0; i < n && len(s) > 0; i++ {
		p := r.Intn(len(s))
		switch r.Intn(6) {
		case 0: // delete
			s = append(append([]byte{}, s[:p]...), s[p+1:]...)
		case 1: // insert
			c := Pick(r, []byte{'\r', '\n', ' ', ':', 'a', 0, 0xff, 0xc2, '\t', '+'})
			s = append(append(append([]byte{}, s[:p]...), c), s[p:]...)
		case 2: // replace
			t := append([]byte{}, s...)
			t[p] = byte(r.Intn(256))
			s = t
		case 3: // early close
			s = append([]byte{}, s[:p]...)
		case 4: // duplicate a slice
			q := min(len(s), p+r.Range(1, 30))
			s = append(append(append([]byte{}, s[:q]...), s[p:q]...), s[q:]...)
		case 5: // swap the bytes of a line end
			if i := bytes.Index(s[p:], []byte("\r\n")); i >= 0 {
				t := append([]byte{}, s...)
				t[p+i], t[p+i+1] = '\n', '\r'
				s = t
			}
		}
	}
	return s
}

func c16Segment(r *RNG, s []byte) []string {
	if len(s) == 0 {
		return []string{}
	}
	cut := func(points []int) []string {
		out := []string{}
		prev := 0
		for _, p := range points {
			if p > prev && p < len(s) {
				out = append(out, lat(s[prev:p]))
				prev = p
			}
		}
		return append(out, lat(s[prev:]))
	}
	switch k := r.Intn(20); {
	case k < 8:
		return []string{lat(s)}
	case k < 11: // two pieces
		return cut([]int{r.Range(1, len(s))})
	case k < 13: // a few random cuts
		pts := []int{}
		p := 0
		for p < len(s) {
			p += r.Range(1, max(2, len(s)/3))
			pts = append(pts, p)
		}
		return cut(pts)
	case k < 15: // at every line end, or between CR and LF
		pts := []int{}
		off := 2
		if r.Bool() {
			off = 1
		}
		for i := 0; i+1 < len(s); i++ {
			if s[i] == '\r' && s[i+1] == '\n' {
				pts = append(pts, i+off)
			}
		}
		return cut(pts)
	case k < 17: // header block | body
		if i := bytes.Index(s, []byte("\r\n\r\n")); i >= 0 {
			return cut([]int{i + 4})
		}
		return []string{lat(s)}
	default: // byte at a time (small streams only)
		if len(s) > 700 {
			return cut([]int{r.Range(1, len(s))})
		}
		pts := make([]int, len(s))
		for i := range pts {
			pts[i] = i + 1
		}
		return cut(pts)
	}
}

// big streams: header lines beyond the initial 4 KiB buffer, bodies beyond the 64 KiB token limit
func c16Big(r *RNG, key string) []byte {
	hk := ""
	if key != "" {
		hk = "X-API-Key: " + key + "\r\n"
	}
	switch r.Intn(6) {
	case 0: // long header line before Content-Length
		return []byte("POST / HTTP/1.1\r\nX-Pad: " + strings.Repeat("p", r.Range(4000, 9000)) + "\r\n" + hk + "Content-Length: 2\r\n\r\nup")
	case 1: // long header line after Content-Length
		return []byte("POST / HTTP/1.1\r\nContent-Length: 2\r\n" + hk + "X-Pad: " + strings.Repeat("p", r.Range(4000, 9000)) + "\r\n\r\nup")
	case 2: // body without line ends around the token limit
		n := Pick(r, []int{65535, 65536, 65537, 70000, 4095, 4096, 4097, 8192})
		body := "change-query(" + strings.Repeat("q", n-14) + ")"
		return []byte("POST / HTTP/1.1\r\n" + hk + "Content-Length: " + strconv.Itoa(len(body)) + "\r\n\r\n" + body)
	case 3: // long body with line ends inside
		n := r.Range(66000, 90000)
		body := "change-query(" + strings.Repeat(strings.Repeat("q", 997)+"\r\n", n/1000) + ")"
		return []byte("POST / HTTP/1.1\r\n" + hk + "Content-Length: " + strconv.Itoa(len(body)) + "\r\n\r\n" + body)
	case 4: // endless request line
		return []byte("POST / HTTP/1.1" + strings.Repeat("x", r.Range(60000, 70000)))
	default: // many headers
		var b bytes.Buffer
		b.WriteString("POST / HTTP/1.1\r\n")
		for i := 0; i < r.Range(200, 700); i++ {
			fmt.Fprintf(&b, "X-H%d: %d\r\n", i, i)
		}
		b.WriteString(hk + "Content-Length: 2\r\n\r\nup")
		return b.Bytes()
	}
}

func c16Gen(r *RNG) c16Case {
	key := Pick(r, c16Keys)
	present := key
	if r.Chance(1, 8) { // keys that are blank, or have white space around them, and clients that present them trimmed or not
		key = c16EnvKey(r)
		present = c16Presented(r, key)
	}
	cs := c16Case{Kind: "http", Key: lat([]byte(key)), State: lat([]byte(Pick(r, c16States))), Ready: true}
	switch r.Intn(8) {
	case 0, 1: // the state is whatever the getHandler says: any bytes
		cs.State = lat([]byte("{\"query\":\"" + c16Text(r, r.Range(0, 4), false) + "\",\"matches\":[{\"index\":0,\"text\":\"" + c16Text(r, r.Range(0, 6), false) + "\"}]}"))
	case 2:
		cs.State = lat([]byte(c16Text(r, r.Range(1, 8), false)))
	case 3, 4, 5: // the real status dump over a list
		cs.Dump, cs.State = true, ""
		items, sel := c16Items(r, false)
		for _, it := range items {
			cs.Items = append(cs.Items, lat([]byte(it)))
		}
		cs.Sel = sel
		cs.Cy = r.Range(-1, len(items)+1)
		if r.Chance(1, 2) {
			cs.Query = lat([]byte(c16Text(r, r.Range(1, 3), false)))
		}
	}
	var s []byte
	switch k := r.Intn(100); {
	case k < 3:
		s = c16Big(r, key)
		if r.Chance(1, 3) {
			p := r.Range(1, len(s))
			cs.Chunks = []string{lat(s[:p]), lat(s[p:])}
		} else {
			cs.Chunks = []string{lat(s)}
		}
		return cs
	case k < 6: // noise
		n := r.Range(0, 60)
		s = make([]byte, n)
		for i := range s {
			s[i] = Pick(r, []byte{'\r', '\n', 'G', 'E', 'T', ' ', '/', 'P', 'O', 'S', 'H', ':', '1', 0, 0xff, 'a'})
		}
	default:
		if cs.Dump && r.Chance(1, 2) { // a GET that gets through to the dump
			s = []byte("GET /?" + c16Query(r) + " HTTP/1.1\r\nHost: localhost\r\n")
			if key != "" {
				s = append(s, []byte("X-API-Key: "+key+"\r\n")...)
			}
			s = append(s, '\r', '\n')
			break
		}
		s = c16Request(r, present)
		if r.Chance(1, 3) {
			s = c16Mutate(r, s)
		}
	}
	cs.Chunks = c16Segment(r, s)
	cs.Open = len(cs.Chunks) == 1 && r.Chance(1, 2)
	return cs
}

var c16Addrs = []string{"", "0", "6266", "localhost:0", "127.0.0.1:0", "0.0.0.0:0", ":0", "a:b:c", "localhost:", "localhost:-1", "localhost:65536",
	"localhost:65535", "localhost:+0", "localhost:-0", "127.0.0.2:0", "LOCALHOST:0", "[::1]:0", "::1", "0.0.0.0:99999", "0.0.0.0:x", "0.0.0.0:8080",
	"localhost: 0", " localhost:0", "127.0.0.1 :0", "localhost:00", "x", "127.1:0", "0:0", "localhost:99999999999999999999", "0.0.0.0:"}

func runC16(c *Ctx) {
	c.Rep.Rule = "connections = generated GET/POST requests (header case and order, duplicates, key prefix/suffix/space variants, Content-Length 0/-1/+n/too big/" +
		"non-numeric, missing blank line, body before headers, trailing data), a third mutated bytewise (delete/insert/replace/early close/duplicate), random noise, " +
		"streams beyond the 4 KiB buffer and the 64 KiB token limit; each written whole, in pieces, at line ends, between CR and LF, or byte by byte, then closed; " +
		"GET parameters at the boundaries of the integer types; states, bodies and list lines made of printf / JSON / HTTP / action syntax; three in eight with the real " +
		"Terminal.dumpStatus over a generated list, selection and query as the getHandler; real fzf --listen processes (kind live) given such a list and sent 5..10 such " +
		"requests each over TCP; listeners started by startHttpServer itself (kind serve) on local and non-local addresses under a generated FZF_API_KEY (none, " +
		"blank-only, white space - ASCII and Unicode - in front / behind / around, ordinary, long, non-UTF-8) and sent 3..7 connections whose X-API-Key is the key, the key " +
		"trimmed on either side, lower-cased, a prefix, another key, or missing; plus --listen addresses with and without FZF_API_KEY. non-trivial = actions delivered, GET answered or 401; distinct by JSON of the case"
	if c.Replay != "" {
		var cs c16Case
		b, err := os.ReadFile(c.Replay)
		if err == nil {
			var w struct{ Input c16Case }
			if json.Unmarshal(b, &w) == nil && w.Input.Kind != "" {
				cs = w.Input
			} else {
				json.Unmarshal(b, &cs)
			}
		}
		c16Check(c, cs)
		return
	}
	for _, f := range corpusFiles(c) {
		var cs c16Case
		b, _ := os.ReadFile(f)
		if json.Unmarshal(b, &cs) == nil && cs.Kind != "" {
			c16Check(c, cs)
			c.Rep.Count("corpus")
		}
	}
	// hypothesis of accept_sound / malformed_rejected / get_no_actions: the real parser does not accept the empty list
	if e := c16Parse(""); e.Panic != "" || (!e.Failed && len(e.Types) > 0) {
		c.Rep.Disagreement(Disagreement{Kind: "spec", Name: "parser_rejects_empty", Input: c16Case{Kind: "http"}, Impl: fmt.Sprint(e), Expect: "parseSingleActionList(\"\") yields no action"})
	}
	// start decisions (sequential: FZF_API_KEY is process-wide)
	for _, a := range c16Addrs {
		for _, k := range []string{"", "k", " ", "\t\n"} {
			c16Check(c, c16Case{Kind: "listen", Addr: lat([]byte(a)), Key: k})
		}
	}
	// the action channel does not take the actions: 503 after channelTimeout (2 s), run alongside the rest
	slow := []c16Case{
		{Kind: "http", Key: "", State: "{}", Ready: false, Chunks: []string{"POST / HTTP/1.1\r\nContent-Length: 2\r\n\r\nup"}},
		{Kind: "http", Key: "k", State: "{}", Ready: false, Chunks: []string{"POST / HTTP/1.1\r\nX-API-Key: k\r\n", "Content-Length: 7\r\n\r\ndown+up"}},
	}
	n := c.N(4000, 120000)
	nlive := c.N(48, 1500)    // real fzf processes behind real sockets, 5..10 requests each
	nserve := c.N(400, 12000) // listeners started by startHttpServer itself under a generated FZF_API_KEY, 3..7 connections each
	parallel(c, n+len(slow)+nlive+nserve, func(i int, r *RNG) {
		if i < len(slow) {
			c16Check(c, slow[i])
			return
		}
		if i < len(slow)+nlive {
			c16Check(c, c16GenLive(r))
			return
		}
		if i < len(slow)+nlive+nserve {
			c16Check(c, c16GenServe(r))
			return
		}
		c16Check(c, c16Gen(r))
	})
}

func init() { runners["C16"] = runC16 }
