package main

// C12, which shell reads the expansion.  The escaper used for {} {q} {N} {+} has to be the one of the shell that RUNS the
// command: the program named by --with-shell when it names one, else $SHELL, else sh (Coq spec running_shell / runs_fish,
// op 1215; theorem executor_dialect_follows_running_shell).  Every case of kind tpl / raw / term carries a value of $SHELL
// and of --with-shell; the round-trip checks of c12.go are made against the dialect the SPEC derives from them, not
// against a flag of the case.  Two more things live here:
//
//   kind quote : QuoteEntry of the executor built under ($SHELL, --with-shell) on a list of hostile strings
//            corr : NewExecutor's shell / arguments (hook VerifParts) and the quoted strings == model (ops 1216, 1221)
//            spec : shell_reads (op 1217: sh_words for a POSIX shell, fish_words for fish) of the quoted strings joined by
//                   blanks == the strings (quote_dialect_follows_running_shell); for a POSIX shell the line also goes to
//                   the real /bin/sh and bash
//   fishExpansion : for a running shell named fish (not installed here) an expansion made of quoted placeholders separated by
//                   blanks must be read by fish_words - the fish manual's quoting rules, Coq spec - as the placeholders'
//                   words (fish_expansion_roundtrip).  A POSIX-quoted expansion handed to fish fails this.
//
// The live sessions (c12term.go) run the real fzf with $SHELL and --with-shell set independently (a fish login shell with
// --with-shell 'sh -c' / 'bash -c' ...); there the argv the started shell sees is the judge.

import (
	"encoding/json"
	"fmt"
	"strings"

	fzf "github.com/junegunn/fzf/src"
	"github.com/junegunn/fzf/src/util"
)

var c12PosixShells = []string{"sh", "bash", "dash", "/bin/sh", "/bin/bash", "/usr/bin/bash", "/bin/dash", "zsh", "/usr/bin/zsh", "ksh",
	"/home/fish/bin/bash", "/usr/bin/notfish", "/opt/fish/sh", "fish.sh", "./sh", "/usr/local/bin/fishy", "/bin/fish/zsh"}
var c12FishShells = []string{"fish", "/usr/bin/fish", "/usr/local/bin/fish", "/opt/homebrew/bin/fish", "./fish", "/home/u/.nix-profile/bin/fish", "/bin/sh/fish"}

// a --with-shell value naming `shell`: blanks around, flags before -c
func c12WithOf(r *RNG, shell string) string {
	w := shell + Pick(r, []string{" -c", " -c", " -c", "  -c", "\t-c", " -e -c", " --norc -c", " -c ", ""})
	if r.Chance(1, 6) {
		w = Pick(r, []string{" ", "  ", "\t"}) + w
	}
	return w
}

// c12GenShells: $SHELL and --with-shell chosen independently; the crossed combinations (a fish login shell with a POSIX
// --with-shell and the other way round) as often as the plain ones
func c12GenShells(r *RNG, cs *c12Case) {
	var env, with string
	switch r.Intn(8) {
	case 0: // fish login shell, commands run by a POSIX shell
		env, with = Pick(r, c12FishShells), c12WithOf(r, Pick(r, c12PosixShells))
	case 1: // POSIX login shell, commands run by fish
		env, with = Pick(r, c12PosixShells), c12WithOf(r, Pick(r, c12FishShells))
	case 2: // no --with-shell: $SHELL decides
		env, with = Pick(r, c12FishShells), Pick(r, []string{"", "", " ", "\t "})
	case 3:
		env, with = Pick(r, c12PosixShells), Pick(r, []string{"", "", " "})
	case 4: // nothing set: sh
		env, with = "", Pick(r, []string{"", " "})
	case 5: // $SHELL unset, --with-shell decides
		env, with = "", c12WithOf(r, Pick(r, [][]string{c12PosixShells, c12FishShells}[r.Intn(2)]))
	case 6:
		env, with = Pick(r, c12FishShells), c12WithOf(r, Pick(r, c12FishShells))
	default:
		env, with = Pick(r, c12PosixShells), c12WithOf(r, Pick(r, c12PosixShells))
	}
	cs.Fish = false
	cs.EnvShell, cs.WithShell = &env, &with
}

// shells installed here, as --with-shell values / as $SHELL
var c12LiveWith = []string{"sh -c", "bash -c", "/bin/sh -c", "/bin/bash -c", "dash -c", " bash  -c", "/usr/bin/bash -c", "bash --norc -c"}
var c12LiveEnvPosix = []string{"/bin/bash", "/bin/dash", "/usr/bin/bash", "", "sh", "bash"}

// c12GenLiveShells: the fzf process gets $SHELL and --with-shell independently; the shell that runs the command is always
// one that is installed (sh, bash, dash), $SHELL may name anything when --with-shell overrides it
func c12GenLiveShells(r *RNG, cs *c12Case) {
	switch r.Intn(6) {
	case 0, 1: // a fish login shell (fish need not be installed: it is never started), commands run by sh / bash
		env := Pick(r, c12FishShells)
		cs.EnvShell, cs.Shell = &env, Pick(r, c12LiveWith)
	case 2: // $SHELL decides
		env := Pick(r, c12LiveEnvPosix)
		cs.EnvShell, cs.Shell = &env, ""
	case 3:
		env := Pick(r, c12PosixShells)
		cs.EnvShell, cs.Shell = &env, Pick(r, c12LiveWith)
	}
}

func c12GenQuote(r *RNG, n int) c12Case {
	cs := c12Case{Kind: "quote"}
	c12GenShells(r, &cs)
	k := Pick(r, []int{1, 1, 2, 3, 4})
	for i := 0; i < k; i++ {
		switch r.Intn(8) {
		case 0:
			cs.Words = append(cs.Words, "")
		case 1:
			cs.Words = append(cs.Words, Pick(r, []string{"C:\\dir\\file", "it's", "a\\b'c", "\\", "'", "\\'", "'\\''", "\\\\", "x'; : > f; #", "a\\", "'a", "\\n"}))
		default:
			cs.Words = append(cs.Words, c12Text(r, n+i, 8))
		}
	}
	return cs
}

func (s *c12State) countShells(cs c12Case) {
	if cs.EnvShell == nil && cs.WithShell == nil && !(cs.Kind == "live" && cs.Shell != "") {
		return
	}
	env, with := cs.shellPair()
	base := func(p string) string { return p[strings.LastIndex(p, "/")+1:] }
	cls := func(p string) string {
		switch {
		case strings.TrimSpace(p) == "":
			return "none"
		case base(strings.Fields(p)[0]) == "fish":
			return "fish"
		}
		return "posix"
	}
	s.c.Rep.Count("shells:$SHELL=" + cls(env) + ",--with-shell=" + cls(with))
}

// placeholders whose words are quoted by the executor
var c12QuotedPh = map[string]bool{"{}": true, "{s}": true, "{+}": true, "{+s}": true, "{s+}": true, "{q}": true, "{fzf:query}": true, "{fzf:prompt}": true}

// fishExpansion: the running shell is fish.  eff is the case with the items the placeholders range over made explicit.
func (s *c12State) fishExpansion(cs, eff c12Case, out string) {
	rep := s.c.Rep
	want := []string{}
	glue := false // the previous part was a placeholder
	for _, p := range eff.Parts {
		switch p.T {
		case "lit":
			if p.S == "" {
				continue
			}
			if strings.Trim(p.S, " ") != "" {
				rep.Count("fish:not_judged(literal text)")
				return
			}
			glue = false
		case "ph":
			ws, ok := c12Meaning(eff, p.S)
			if !c12QuotedPh[p.S] || !ok || glue {
				rep.Count("fish:not_judged(placeholder not quoted or glued)")
				return
			}
			want = append(want, ws...)
			glue = true
		default:
			rep.Count("fish:not_judged(escaped placeholder)")
			return
		}
	}
	env, with := cs.shellPair()
	rep.SpecChecks++
	rep.Count("fish_roundtrip_checks")
	got, ok := c12OptWords(s.c.Model.Call(1217, L(Bytes(env), Bytes(with), Bytes(out))))
	if !ok || !c12SameWords(got, want) {
		var impl interface{} = map[string]interface{}{"command": out, "fish_reads": got}
		if !ok {
			impl = fmt.Sprintf("command %q is not a line of fish-quoted words (fish_words = None)", out)
		}
		rep.Disagreement(Disagreement{Kind: "spec", Name: "fish_expansion_roundtrip", Input: cs, Impl: impl, Expect: want})
		return
	}
	for _, w := range want {
		for i := 0; i < len(w); i++ {
			s.fishBytes[w[i]] = true
		}
	}
}

func (s *c12State) checkQuote(cs c12Case) {
	c, rep := s.c, s.c.Rep
	env, with := cs.shellPair()
	d := s.dialect(env, with)
	quoted := make([]string, len(cs.Words))
	var shell string
	var args []string
	pan := ""
	func() {
		defer func() {
			if r := recover(); r != nil {
				pan = fmt.Sprint(r)
			}
		}()
		c12UnderShell(env, func() {
			shell, args = util.NewExecutor(with).VerifParts()
			for i, w := range cs.Words {
				quoted[i] = fzf.VerifQuoteEntry(with, w)
			}
		})
	}()
	rep.ImplTraces++
	if pan != "" {
		rep.Disagreement(Disagreement{Kind: "spec", Name: "no_crash", Input: cs, Impl: "panic: " + pan, Expect: "no panic"})
		return
	}
	if args == nil {
		args = []string{}
	}
	// corr: NewExecutor == model (shell, arguments), QuoteEntry == model
	mv := c.Model.Call(1216, L(Bytes(env), Bytes(with)))
	if !mv.IsList || len(mv.L) != 3 || mv.L[0].Str() != shell || !mv.L[1].Equal(Strs(args)) {
		s.corr(Disagreement{Kind: "corr", Name: "corr:C12.new_executor", Input: cs, Impl: fmt.Sprintf("shell %q args %q", shell, args), Expect: mv.String()})
	}
	for i, w := range cs.Words {
		if q := c.Model.Call(1221, L(Bytes(env), Bytes(with), Bytes(w))); q.Str() != quoted[i] {
			s.corr(Disagreement{Kind: "corr", Name: "corr:C12.executor_quote", Input: cs, Impl: quoted[i], Expect: q.Str()})
			break
		}
	}
	// spec: the shell the command is given to (first word of --with-shell, else $SHELL, else sh) ...
	rep.SpecChecks++
	if shell != d.running {
		rep.Disagreement(Disagreement{Kind: "spec", Name: "executor_runs_the_documented_shell", Input: cs, Impl: shell, Expect: d.running})
	}
	// ... reads the quoted strings back as the strings
	line := strings.Join(quoted, " ")
	want := append([]string{}, cs.Words...)
	rep.SpecChecks++
	got, ok := c12OptWords(c.Model.Call(1217, L(Bytes(env), Bytes(with), Bytes(line))))
	meta := false
	for _, w := range cs.Words {
		meta = meta || c12HasMeta(w)
	}
	nontrivial := false
	switch {
	case ok && c12SameWords(got, want):
		nontrivial = meta
		if !d.fish {
			s.shellJob(c12ShellJob{cs: cs, snippet: c12Printf(line), want: want, kind: "spec", name: "shell_quote_roundtrip"})
		}
	case d.fish:
		var impl interface{} = map[string]interface{}{"quoted": line, "fish_reads": got}
		if !ok {
			impl = fmt.Sprintf("%q is not a line of fish-quoted words (fish_words = None)", line)
		}
		rep.Disagreement(Disagreement{Kind: "spec", Name: "quote_dialect_follows_running_shell", Input: cs, Impl: impl, Expect: want})
	default:
		var impl interface{} = map[string]interface{}{"quoted": line, "sh_reads": got}
		if !ok {
			impl = fmt.Sprintf("%q is not made of plain shell words (sh_words = None)", line)
		}
		s.specOrCorr(cs, "quote_dialect_follows_running_shell", c12Printf(line), impl, want)
	}
	key, _ := json.Marshal(cs)
	rep.Eval(string(key), nontrivial)
	rep.Sample(cs)
	rep.Count("kind=quote")
	s.countShells(cs)
}
