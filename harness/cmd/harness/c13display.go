package main

// C13, display side: "items never change after they have been read" also has to hold against the OTHER readers of
// item text - the terminal goroutine that draws the list while the matcher workers search it.
//
//  H  textmem: Chars.Lines / Terminal.itemLines on real items in both representations (bytes, runes); the holder of the
//     returned lines re-slices, appends and assigns as it likes (a random program over the real Go slices); the item must
//     read the same afterwards (spec item_text_frozen(lines)) and lines, capacities and registers must equal the
//     extracted memory model                                                           model op 1330
//  I  display: the real fzf in a pty.  Random records (ASCII and not, narrower and wider than the window, multi-line
//     under --read0, tabs, ANSI), random display options (wrap, hscroll, ellipsis, tabstop, gap, layout, pointer/marker
//     widths, preview, header lines, tail), slow and fast input, random UI actions, resizes and typed/changed queries.
//     After EVERY step: every item fzf reports must be the record that was read (spec items_frozen(display), op 1331);
//     every query must list exactly the sequential filter of the records (spec search_equals_sequential_filter(display):
//     op 1332 for literal exact queries, a fresh `fzf --filter` for the other query languages); at the end
//     everything is accepted and must come out as it went in (spec accepted_output_is_input(display)).
//     Thorough tier: the same sessions against a -race build of fzf; any report is a violation (R1 classified).

import (
	"encoding/json"
	"errors"
	"fmt"
	"os"
	"os/exec"
	"path/filepath"
	"regexp"
	"sort"
	"strconv"
	"strings"
	"sync/atomic"
	"time"

	fzf "github.com/junegunn/fzf/src"
	"github.com/junegunn/fzf/src/util"
)

// ---------------------------------------------------------------- H: text memory

type c13POp struct {
	T  int   `json:"t"` // 0 sub | 1 append runes | 2 append slice | 3 set
	R  int   `json:"r"`
	A  int   `json:"a,omitempty"`
	B  int   `json:"b,omitempty"`
	Xs []int `json:"xs,omitempty"`
	X  int   `json:"x,omitempty"`
}

type c13TextCase struct {
	Text     string   `json:"text"`
	Which    int      `json:"which"` // 0 Chars.Lines, 1 Terminal.itemLines
	Wrap     bool     `json:"wrap,omitempty"`
	Multi    bool     `json:"multi,omitempty"`
	MaxLines int      `json:"maxlines"`
	WrapCols int      `json:"wrapcols"`
	SignW    int      `json:"signw"`
	Tabstop  int      `json:"tabstop"`
	Prog     []c13POp `json:"prog"`
}

// append with Go's in-place rule and exact growth (a fresh array is held by nobody else; the model allocates exactly)
func c13AppendExact(s []rune, xs []rune) []rune {
	if len(s)+len(xs) <= cap(s) {
		return append(s, xs...)
	}
	t := make([]rune, len(s)+len(xs))
	copy(t, s)
	copy(t[len(s):], xs)
	return t
}

func c13RunProg(regs [][]rune, prog []c13POp) [][]rune {
	for _, o := range prog {
		if len(regs) == 0 {
			return regs
		}
		s := regs[o.R%len(regs)]
		switch o.T {
		case 0:
			cp := cap(s)
			i := o.A % (cp + 1)
			j := i + o.B%(cp-i+1)
			regs = append(regs, s[i:j])
		case 1:
			xs := make([]rune, len(o.Xs))
			for k, x := range o.Xs {
				xs[k] = rune(x)
			}
			regs = append(regs, c13AppendExact(s, xs))
		case 2:
			xs := append([]rune{}, regs[o.B%len(regs)]...)
			regs = append(regs, c13AppendExact(s, xs))
		default:
			if len(s) > 0 {
				s[o.A%len(s)] = rune(o.X)
			}
		}
	}
	return regs
}

func c13ProgVal(prog []c13POp) Val {
	vs := make([]Val, len(prog))
	for i, o := range prog {
		switch o.T {
		case 0:
			vs[i] = L(I(0), I(o.R), I(o.A), I(o.B))
		case 1:
			vs[i] = L(I(1), I(o.R), Ints(o.Xs))
		case 2:
			vs[i] = L(I(2), I(o.R), I(o.B))
		default:
			vs[i] = L(I(3), I(o.R), I(o.A), I(o.X))
		}
	}
	return L(vs...)
}

// the report keeps 25 disagreements per kind: a broken copy makes hundreds of text-memory cases fail, which must not
// crowd out what the display sessions (run later) have to say
var c13TextSpecN, c13TextCorrN, c13DispSpecN atomic.Int32

func c13TextMem(c *Ctx, cs c13Case) {
	tc := cs.TextMem
	if tc == nil {
		return
	}
	rep := c.Rep
	key, _ := json.Marshal(cs)
	orig := tc.Text
	var ch *util.Chars
	var item *fzf.Item
	if tc.Which == 0 {
		x := util.ToChars([]byte(orig))
		ch = &x
	} else {
		var next int32
		cl := fzf.NewChunkList(fzf.NewChunkCache(), fzf.VerifItemBuilder(&next))
		cl.Push([]byte(orig))
		chunks, _, _ := cl.Snapshot(0)
		item = fzf.VerifCellItem(chunks[0], 0)
		ch = fzf.VerifItemChars(item)
	}
	inBytes := ch.IsBytes()
	runes := []rune(orig)
	capv := len(runes)
	if !inBytes {
		capv = cap(ch.ToRunes())
	}
	var pan string
	var lines [][]rune
	var ov bool
	var atReturn []Val
	func() {
		defer func() {
			if r := recover(); r != nil {
				pan = fmt.Sprint(r)
			}
		}()
		if tc.Which == 0 {
			lines, ov = ch.Lines(tc.Multi, tc.MaxLines, tc.WrapCols, tc.SignW, tc.Tabstop)
		} else {
			lines, ov = fzf.VerifItemLines(item, tc.Wrap, tc.Multi, tc.MaxLines, tc.WrapCols+3, 1, 1, tc.SignW, tc.Tabstop)
		}
		for _, l := range lines {
			atReturn = append(atReturn, L(Runes(l), I(cap(l))))
		}
		lines = c13RunProg(lines, tc.Prog)
	}()
	c13Inc(&rep.ImplTraces, 1)
	rep.Eval(string(key), !inBytes && len(lines) > 0)
	if inBytes {
		rep.Count("textmem:bytes")
	} else {
		rep.Count("textmem:runes")
	}
	if pan != "" {
		rep.Disagreement(Disagreement{Kind: "spec", Name: "no_crash", Input: cs, Impl: pan, Expect: "no panic"})
		return
	}
	after := ch.ToString()
	c13Inc(&rep.SpecChecks, 1)
	if after != orig && (c13TextSpecN.Add(1) <= 4 || c.Replay != "") {
		rep.Disagreement(Disagreement{Kind: "spec", Name: "item_text_frozen(lines)", Input: cs,
			Impl:   fmt.Sprintf("after the holder of the lines wrote into them the item reads %q", after),
			Expect: fmt.Sprintf("%q (the record as it was read)", orig)})
	}
	regs := make([]Val, len(lines))
	for i, l := range lines {
		regs[i] = Runes(l)
	}
	impl := L(Runes([]rune(after)), B(ov), L(atReturn...), L(regs...))
	mv := c.Model.Call(1330, L(B(inBytes), Runes(runes), I(capv), I(tc.Which), B(tc.Wrap), B(tc.Multi), I(tc.MaxLines),
		I(tc.WrapCols), I(tc.SignW), I(tc.Tabstop), c13ProgVal(tc.Prog), B(true)))
	if !mv.Equal(impl) && (c13TextCorrN.Add(1) <= 4 || c.Replay != "") {
		rep.Disagreement(Disagreement{Kind: "corr", Name: "corr:C13.textmem", Input: cs, Impl: impl.String(), Expect: mv.String()})
	}
	if len(tc.Prog) <= 3 {
		rep.Sample(cs)
	}
}

// runes that are their own grapheme cluster and whose width the model's simple_ovf knows
var c13SimpleAscii = []rune("abcdefgh ij  klm-_/.")
var c13SimpleWide = []rune("éüñ日本한ｗ")

func c13GenTextMem(r *RNG) c13Case {
	tc := &c13TextCase{Which: r.Intn(2), MaxLines: Pick(r, []int{1, 1, 2, 3, 5, 1000000, 1000000, 0}),
		SignW: r.Intn(4), Tabstop: Pick(r, []int{1, 2, 4, 8, 8})}
	nonASCII := r.Chance(2, 3)
	n := Pick(r, []int{0, 1, 2, 5, 9, 17, 30, 45, 60})
	rs := make([]rune, 0, n)
	for i := 0; i < n; i++ {
		switch k := r.Intn(20); {
		case k < 2:
			rs = append(rs, '\n')
		case k < 3:
			rs = append(rs, '\t')
		case k < 7 && nonASCII:
			rs = append(rs, Pick(r, c13SimpleWide))
		default:
			rs = append(rs, Pick(r, c13SimpleAscii))
		}
	}
	if nonASCII && n > 0 && r.Chance(3, 4) {
		rs[r.Intn(n)] = Pick(r, c13SimpleWide)
	}
	if n > 0 && r.Chance(1, 5) {
		rs[n-1] = '\n'
	}
	tc.Text = string(rs)
	if tc.Which == 0 {
		tc.Multi = r.Chance(2, 3)
		tc.WrapCols = Pick(r, []int{0, 0, 0, 1, 2, 3, 5, 8, 13, 20})
	} else {
		tc.Wrap = r.Chance(1, 2)
		tc.Multi = r.Chance(1, 2)
		tc.WrapCols = Pick(r, []int{1, 2, 3, 5, 8, 13, 20})
	}
	k := r.Range(1, 8)
	for i := 0; i < k; i++ {
		o := c13POp{R: r.Intn(12), A: r.Intn(64), B: r.Intn(64)}
		switch x := r.Intn(10); {
		case x < 3:
			o.T = 0
		case x < 6:
			o.T = 1
			o.A, o.B = 0, 0
			o.Xs = [][]int{{183, 183}, {46, 46}, {8230}, {}, {62, 62, 62, 62, 62, 62, 62, 62}}[r.Intn(5)]
		case x < 7:
			o.T = 2
			o.A = 0
		default:
			o.T = 3
			o.B = 0
			o.X = Pick(r, []int{183, 63, 10, 26085})
		}
		tc.Prog = append(tc.Prog, o)
	}
	return c13Case{Kind: "textmem", TextMem: tc}
}

// ---------------------------------------------------------------- I: display sessions

type c13DispStep struct {
	Act   string `json:"act,omitempty"`   // action list POSTed to --listen
	Cols  int    `json:"cols,omitempty"`  // resize
	Rows  int    `json:"rows,omitempty"`  //
	Query string `json:"query,omitempty"` // new query, then the search check
	HasQ  bool   `json:"hasq,omitempty"`
	Typed bool   `json:"typed,omitempty"` // the query is typed key by key instead of change-query
}

type c13DispCase struct {
	Items  []string      `json:"items"`
	Read0  bool          `json:"read0,omitempty"`
	Slow   int           `json:"slow,omitempty"` // the input arrives in this many bursts, 30 ms apart (0: a file)
	Args   []string      `json:"args"`           // display options
	Match  []string      `json:"match"`          // matching options
	Mode   string        `json:"mode"`           // literal: one exact case-sensitive literal term (oracle op 1332) | free: oracle `fzf --filter`
	Ansi   bool          `json:"ansi,omitempty"`
	HLines int           `json:"hlines,omitempty"`
	Tail   int           `json:"tail,omitempty"`
	Cols   int           `json:"cols"`
	Rows   int           `json:"rows"`
	Steps  []c13DispStep `json:"steps"`
}

var c13SGR = regexp.MustCompile("\x1b\\[[0-9;]*m")

func (s *Session) screenLen() int {
	s.mu.Lock()
	defer s.mu.Unlock()
	return len(s.screen)
}

// wait until fzf has written nothing to the terminal for `quiet` (the draw that follows an event is asynchronous)
func c13Settle(s *Session, quiet, max time.Duration) {
	deadline := time.Now().Add(max)
	last := s.screenLen()
	lastChange := time.Now()
	for time.Now().Before(deadline) {
		time.Sleep(2 * time.Millisecond)
		if n := s.screenLen(); n != last {
			last, lastChange = n, time.Now()
		} else if time.Since(lastChange) >= quiet {
			return
		}
	}
}

var c13DispSlowFail atomic.Int32 // eventually-checks that ran into their deadline in this run

func c13DispDeadline() time.Duration {
	if c13DispSlowFail.Load() > 2 {
		return 2 * time.Second // already reported: do not wait 10 s in every other session
	}
	return 10 * time.Second
}

type c13DispRun struct {
	c      *Ctx
	cs     c13Case
	dc     *c13DispCase
	plain  []string // what fzf must report for each item of the list (records after the header lines), by item index
	fzfBin string
	race   string // directory for race reports ("" = not a race build)
	failed bool
}

func (d *c13DispRun) fail(name string, impl, expect interface{}) {
	d.failed = true
	if c13DispSpecN.Add(1) > 10 && d.c.Replay == "" {
		d.c.Rep.Count("display:further_failures_not_listed")
		return
	}
	d.c.Rep.Disagreement(Disagreement{Kind: "spec", Name: name, Input: d.cs, Impl: impl, Expect: expect})
}

func (d *c13DispRun) sep() string {
	if d.dc.Read0 {
		return "\x00"
	}
	return "\n"
}

func (d *c13DispRun) first() int { // index of the first item that is in the list once everything is loaded (--tail drops the older ones)
	if d.dc.Tail > 0 && len(d.plain) > d.dc.Tail {
		return len(d.plain) - d.dc.Tail
	}
	return 0
}

func c13RunesVals(ss []string) Val {
	vs := make([]Val, len(ss))
	for i, s := range ss {
		vs[i] = Runes([]rune(s))
	}
	return L(vs...)
}

// spec: every item fzf reports is the record that was read
func (d *c13DispRun) frozen(st *FzfState, when string) bool {
	if st == nil {
		return true
	}
	reported := []Val{}
	add := func(it FzfItem) { reported = append(reported, L(I(it.Index), Runes([]rune(it.Text)))) }
	for _, m := range st.Matches {
		add(m)
	}
	for _, m := range st.Selected {
		add(m)
	}
	if st.Current != nil {
		add(*st.Current)
	}
	c13Inc(&d.c.Rep.SpecChecks, 1)
	bad := d.c.Model.Call(1331, L(c13RunesVals(d.plain), L(reported...)))
	if len(bad.L) == 0 {
		return true
	}
	ix := int(bad.L[0].I)
	got := ""
	for _, m := range append(append([]FzfItem{}, st.Matches...), st.Selected...) {
		if m.Index == ix {
			got = m.Text
		}
	}
	want := "(no such record)"
	if ix >= 0 && ix < len(d.plain) {
		want = d.plain[ix]
	}
	d.fail("items_frozen(display)", fmt.Sprintf("%s: item %d reads %q (%d items differ)", when, ix, got, len(bad.L)),
		fmt.Sprintf("%q (the record as it was read)", want))
	return false
}

func c13SortedIdx(ms []FzfItem) []int {
	out := make([]int, len(ms))
	for i, m := range ms {
		out[i] = m.Index
	}
	sort.Ints(out)
	return out
}

func c13SameInts(a, b []int) bool {
	if len(a) != len(b) {
		return false
	}
	for i := range a {
		if a[i] != b[i] {
			return false
		}
	}
	return true
}

// the sequential filter of the records for query q: indexes, ascending
func (d *c13DispRun) oracle(q string) ([]int, bool) {
	first := d.first()
	if d.dc.Mode == "literal" {
		if q == "" {
			out := []int{}
			for i := first; i < len(d.plain); i++ {
				out = append(out, i)
			}
			return out, true
		}
		v := d.c.Model.Call(1332, L(Runes([]rune(q)), I(first), c13RunesVals(d.plain[first:])))
		out := make([]int, len(v.L))
		for i, x := range v.L {
			out[i] = int(x.I)
		}
		return out, true
	}
	// a fresh fzf that never drew anything, on the same input
	args := append(append([]string{}, d.dc.Match...), "--filter", q)
	if d.dc.Read0 {
		args = append(args, "--read0", "--print0")
	}
	if d.dc.Ansi {
		args = append(args, "--ansi")
	}
	out, _, code := RunFzf(d.c, args, []byte(strings.Join(d.dc.Items, d.sep())+d.sep()))
	if code != 0 && code != 1 {
		return nil, false
	}
	// map the printed records back to indexes (records are distinct by construction; duplicates keep input order)
	want := map[string][]int{}
	for i, it := range d.plain { // fzf prints the text without the colour codes under --ansi
		want[it] = append(want[it], i)
	}
	res := []int{}
	for _, rec := range strings.Split(out, d.sep()) {
		if rec == "" {
			continue
		}
		ixs := want[rec]
		if len(ixs) == 0 {
			return nil, false
		}
		res = append(res, ixs[0])
		want[rec] = ixs[1:]
	}
	sort.Ints(res)
	return res, true
}

// spec (eventually, generous deadline, retried): what fzf lists for q is the sequential filter of the records
func (d *c13DispRun) search(s *Session, q string) {
	want, ok := d.oracle(q)
	if !ok {
		d.c.Rep.Count("display:oracle_unavailable")
		return
	}
	c13Inc(&d.c.Rep.SpecChecks, 1)
	pred := func(st *FzfState) bool {
		return st.Query == q && !st.Reading && c13SameInts(c13SortedIdx(st.Matches), want)
	}
	st, good := s.WaitFor(pred, c13DispDeadline())
	for try := 0; try < 2 && !good && !s.Exited(); try++ {
		time.Sleep(100 * time.Millisecond)
		st, good = s.WaitFor(pred, c13DispDeadline()/4)
	}
	if good {
		if len(want) > 0 && len(want) < len(d.plain)-d.first() {
			d.c.Rep.Count("display:search_nontrivial")
		}
		d.frozen(st, fmt.Sprintf("with query %q", q))
		return
	}
	if s.Exited() {
		return
	}
	c13DispSlowFail.Add(1)
	got := "no answer"
	if st != nil {
		got = fmt.Sprintf("query %q reading=%v lists items %v", st.Query, st.Reading, c13SortedIdx(st.Matches))
		if !d.frozen(st, fmt.Sprintf("with query %q", q)) {
			return // the changed item is the better report
		}
	}
	d.fail("search_equals_sequential_filter(display)", got, fmt.Sprintf("query %q lists items %v (sequential filter of the records)", q, want))
}

func c13Quote(q string) string { // change-query argument: pick a bracket pair that does not occur
	for _, p := range []string{"()", "[]", "{}", "<>", "~~", "!!", "@@", "##", "$$", "%%", "^^", "&&", "**", ";;", "//", "||", "::"} {
		if !strings.ContainsAny(q, p) {
			return p[:1] + q + p[1:]
		}
	}
	return ""
}

func c13Display(c *Ctx, cs c13Case) { c13DisplayWith(c, cs, c.Fzf, "") }

func c13DisplayWith(c *Ctx, cs c13Case, fzfBin string, raceDir string) {
	dc := cs.Disp
	if dc == nil || len(dc.Items) == 0 {
		return
	}
	rep := c.Rep
	d := &c13DispRun{c: c, cs: cs, dc: dc, fzfBin: fzfBin, race: raceDir}
	hl := dc.HLines
	if hl > len(dc.Items) {
		hl = len(dc.Items)
	}
	d.plain = make([]string, len(dc.Items)-hl)
	for i := range d.plain {
		d.plain[i] = d13Plain(dc, i+hl)
	}
	args := append([]string{"--multi"}, dc.Args...)
	args = append(args, dc.Match...)
	if dc.Read0 {
		args = append(args, "--read0", "--print0")
	}
	if dc.Ansi {
		args = append(args, "--ansi")
	}
	if dc.HLines > 0 {
		args = append(args, "--header-lines="+strconv.Itoa(dc.HLines))
	}
	if dc.Tail > 0 {
		args = append(args, "--tail="+strconv.Itoa(dc.Tail))
	}
	input := []byte(strings.Join(dc.Items, d.sep()) + d.sep())
	so := SessionOpts{Args: args, Stdin: input, Cols: dc.Cols, Rows: dc.Rows}
	if raceDir != "" {
		so.Env = append(so.Env, "GORACE=halt_on_error=0 exitcode=0 log_path="+filepath.Join(raceDir, "race"))
	}
	var tmp string
	if dc.Slow > 1 {
		base := c.Work
		if base == "" {
			base = os.TempDir()
		}
		os.MkdirAll(base, 0755)
		tmp, _ = os.MkdirTemp(base, "disp")
		defer os.RemoveAll(tmp)
		per := (len(dc.Items) + dc.Slow - 1) / dc.Slow
		cmd := []string{}
		for k := 0; k*per < len(dc.Items); k++ {
			hi := (k + 1) * per
			if hi > len(dc.Items) {
				hi = len(dc.Items)
			}
			p := filepath.Join(tmp, fmt.Sprintf("part%d", k))
			os.WriteFile(p, []byte(strings.Join(dc.Items[k*per:hi], d.sep())+d.sep()), 0600)
			cmd = append(cmd, "cat "+p)
		}
		so.Stdin = nil
		so.StdinTTY = true
		so.Env = append(so.Env, "FZF_DEFAULT_COMMAND="+strings.Join(cmd, "; sleep 0.03; "))
	}
	cc := *c
	cc.Fzf = fzfBin
	s, err := StartSession(&cc, so)
	c13Inc(&rep.ImplTraces, 1)
	if err != nil {
		rep.Count("display:start_failed")
		rep.Disagreement(Disagreement{Kind: "corr", Name: "corr:C13.display_session_start", Input: cs, Impl: err.Error(), Expect: "fzf starts"})
		return
	}
	defer s.Close()
	key, _ := json.Marshal(cs)
	quiet := 12 * time.Millisecond
	if raceDir != "" {
		quiet = 60 * time.Millisecond
	}
	c13Settle(s, quiet, time.Second)
	crashed := func() bool {
		if cr := s.Crash(); cr != "" {
			d.fail("no_crash(display)", cr, "fzf keeps running")
			return true
		}
		return false
	}
	gone := false
	for i, stp := range dc.Steps {
		if d.failed || s.Exited() {
			break
		}
		if stp.Cols > 0 && stp.Rows > 0 {
			s.Resize(stp.Cols, stp.Rows)
		}
		if stp.Act != "" {
			if err := s.PostSync(stp.Act); err != nil {
				if errors.Is(err, ErrGone) {
					gone = true
					break
				}
				rep.Count("display:post_error")
				rep.Disagreement(Disagreement{Kind: "corr", Name: "corr:C13.display_driver", Input: cs, Impl: err.Error(), Expect: "action list accepted"})
				return
			}
		}
		if stp.HasQ {
			if stp.Typed {
				s.SendKeys([]byte{0x05, 0x15}) // end-of-line, unix-line-discard: an empty query whatever was there
				for _, r := range stp.Query {
					s.SendKeys([]byte(string(r)))
					time.Sleep(time.Duration(1+i%3) * time.Millisecond)
				}
			} else if qq := c13Quote(stp.Query); qq != "" {
				s.Post("change-query" + qq)
			} else {
				continue
			}
		}
		c13Settle(s, quiet, time.Second)
		if stp.HasQ {
			d.search(s, stp.Query)
		} else if st, err := s.Get(); err == nil {
			d.frozen(st, fmt.Sprintf("after step %d (%s)", i, stp.Act))
		}
		if crashed() {
			return
		}
	}
	if !d.failed && !gone && !s.Exited() {
		// everything back in the list, read it, accept it
		s.Post("change-query()")
		total := len(d.plain) - d.first()
		st, ok := s.WaitFor(func(st *FzfState) bool {
			return st.Query == "" && !st.Reading && st.MatchCount == total && len(st.Matches) == total
		},
			c13DispDeadline())
		if !ok && !s.Exited() {
			c13DispSlowFail.Add(1)
			if st == nil || d.frozen(st, "at the end") {
				d.fail("search_equals_sequential_filter(display)", fmt.Sprintf("at the end, empty query: %+v", c13Head(fmt.Sprint(st), 300)), fmt.Sprintf("all %d records listed", total))
			}
		} else if ok {
			c13Settle(s, quiet, time.Second)
			if st2, err := s.Get(); err == nil {
				st = st2
			}
			if d.frozen(st, "at the end, after everything was drawn") {
				if err := s.Post("change-multi+select-all+accept"); err == nil || errors.Is(err, ErrGone) {
					out, code, exited := s.Wait(10 * time.Second)
					c13Inc(&rep.SpecChecks, 1)
					got := strings.Split(strings.TrimSuffix(out, d.sep()), d.sep())
					want := append([]string{}, d.plain[d.first():]...)
					sort.Strings(got)
					sort.Strings(want)
					if !exited {
						rep.Count("display:accept_timeout")
					} else if code != 0 || strings.Join(got, "\x01") != strings.Join(want, "\x01") {
						diff := ""
						for k := range want {
							if k >= len(got) || got[k] != want[k] {
								diff = fmt.Sprintf("first difference (sorted): want %q", want[k])
								if k < len(got) {
									diff += fmt.Sprintf(" got %q", got[k])
								}
								break
							}
						}
						d.fail("accepted_output_is_input(display)", fmt.Sprintf("exit code %d, %d records printed; %s", code, len(got), diff),
							fmt.Sprintf("exit code 0 and the %d records as they were read", len(want)))
					}
				}
			}
		}
	}
	crashed()
	rep.Eval(string(key), true)
	rep.Count("display:" + dc.Mode)
	if dc.Read0 {
		rep.Count("display:read0")
	}
	if dc.Slow > 1 {
		rep.Count("display:slow_input")
	}
	if len(dc.Steps) <= 3 {
		rep.Sample(cs)
	}
	if raceDir != "" {
		s.Close()
		c13RaceReports(c, cs, raceDir)
	}
}

// ---- generator

var c13DispWords = []string{"alpha", "bravo", "chart", "delta", "echo", "fox", "golf", "hotel", "india", "jul", "kilo", "lima", "mike", "nov",
	"oscar", "papa", "quebec", "romeo", "sierra", "tango", "uni", "victor", "whisky", "xray", "yankee", "zulu", "Src", "Main", "README", "x", "yy"}
var c13DispAccent = []string{"café", "naïve", "über", "señor", "Ærø", "żółć", "日本語", "한국어", "ｗｉｄｅ", "中文字符", "🙂", "ét́", "Ελλάς", "при"}

func c13GenDispLine(r *RNG, width int, flavour int, ansi bool, tabs bool, tag string) string {
	var b strings.Builder
	b.WriteString(tag)
	n := 0
	for w := 0; n < width; w++ {
		sepc := " "
		if tabs && r.Chance(1, 4) {
			sepc = "\t"
		} else if r.Chance(1, 12) {
			sepc = "/"
		}
		b.WriteString(sepc)
		word := Pick(r, c13DispWords)
		if flavour > 0 && r.Chance(1, 3) {
			word = Pick(r, c13DispAccent)
		}
		if r.Chance(1, 2) {
			word += strconv.Itoa(r.Intn(1000))
		}
		if ansi && r.Chance(1, 3) {
			word = fmt.Sprintf("\x1b[%dm%s\x1b[0m", Pick(r, []int{1, 4, 31, 32, 44}), word)
			n -= 9
		}
		b.WriteString(word)
		n += len([]rune(word)) + 1
	}
	return b.String()
}

func c13GenDisplay(r *RNG) c13Case {
	dc := &c13DispCase{Cols: Pick(r, []int{24, 40, 40, 60, 80, 80, 100, 132}), Rows: Pick(r, []int{8, 12, 16, 24, 24, 40})}
	dc.Read0 = r.Chance(1, 2)
	dc.Ansi = r.Chance(1, 6)
	if r.Chance(1, 4) {
		dc.Slow = Pick(r, []int{2, 3, 5})
	}
	n := Pick(r, []int{1, 2, 3, 5, 8, 8, 15, 30, 30, 130})
	for i := 0; i < n; i++ {
		flavour := 0
		if r.Chance(3, 5) {
			flavour = 1
		}
		tabs := r.Chance(1, 8)
		nl := 1
		if dc.Read0 {
			nl = Pick(r, []int{1, 1, 2, 3, 6})
		}
		ls := make([]string, nl)
		for k := range ls {
			var w int
			switch r.Intn(4) {
			case 0:
				w = r.Range(1, dc.Cols/2)
			case 1:
				w = r.Range(dc.Cols-12, dc.Cols+6)
			default:
				w = r.Range(dc.Cols+8, 3*dc.Cols)
			}
			tag := ""
			if k == 0 {
				tag = fmt.Sprintf("i%02d", i)
			}
			ls[k] = c13GenDispLine(r, w, flavour, dc.Ansi, tabs, tag)
		}
		it := strings.Join(ls, "\n")
		if r.Chance(1, 10) {
			it += "  "
		}
		dc.Items = append(dc.Items, it)
	}
	// display options
	opt := func(num, den int, a ...string) {
		if r.Chance(num, den) {
			dc.Args = append(dc.Args, Pick(r, a))
		}
	}
	opt(1, 3, "--wrap")
	opt(1, 6, "--wrap-sign=>>", "--wrap-sign=", "--wrap-sign=↳ ")
	opt(1, 5, "--no-hscroll")
	opt(1, 4, "--hscroll-off=0", "--hscroll-off=1", "--hscroll-off=5", "--hscroll-off=20", "--hscroll-off=1000")
	opt(1, 5, "--keep-right")
	opt(1, 3, "--ellipsis=", "--ellipsis=.", "--ellipsis=..", "--ellipsis=…", "--ellipsis=<<>>", "--ellipsis=日")
	opt(1, 3, "--tabstop=1", "--tabstop=2", "--tabstop=4", "--tabstop=13")
	if dc.Read0 {
		opt(1, 5, "--no-multi-line")
	}
	opt(1, 6, "--gap", "--gap=2")
	opt(1, 6, "--highlight-line")
	opt(1, 2, "--layout=reverse", "--layout=reverse-list")
	opt(1, 4, "--height=50%", "--height=90%", "--height=6")
	opt(1, 5, "--border", "--list-border", "--style=full")
	opt(1, 4, "--info=inline", "--info=hidden", "--info=inline-right")
	opt(1, 5, "--scroll-off=0", "--scroll-off=3", "--scroll-off=100")
	opt(1, 6, "--pointer=", "--pointer=>>", "--pointer=日")
	opt(1, 6, "--marker=", "--marker=**", "--marker-multi-line=abc")
	opt(1, 6, "--cycle")
	opt(1, 6, "--track")
	opt(1, 4, "--tac")
	opt(1, 3, "--no-sort")
	opt(1, 8, "--no-color", "--color=light", "--color=bw")
	if r.Chance(1, 8) {
		dc.Args = append(dc.Args, "--preview=printf %s {} | head -c 2000", Pick(r, []string{"--preview-window=right,40%", "--preview-window=up,3,wrap", "--preview-window=hidden"}))
	}
	opt(1, 8, "--header=first header\nsecond header")
	if r.Chance(2, 3) {
		dc.Mode = "literal"
		dc.Match = []string{"-e", "+x", "+i", "--literal"}
		if n > 3 && r.Chance(1, 6) {
			dc.HLines = r.Range(1, 2)
		}
		if n > 4 && r.Chance(1, 6) {
			dc.Tail = Pick(r, []int{1, 3, n / 2, 100})
		}
	} else {
		dc.Mode = "free"
		dc.Match = Pick(r, [][]string{{}, {}, {"-e"}, {"-i"}, {"+i"}, {"--nth=2", "--color=nth:underline"}, {"--nth=2..", "--color=nth:regular,fg:dim"},
			{"--with-nth=2.."}, {"--with-nth=1,3..", "--nth=1"}, {"--scheme=path"}, {"--tiebreak=index"}, {"--literal"}})
	}
	// steps
	acts := []string{"down", "up", "down+down+down", "page-down", "page-up", "half-page-down", "last", "first", "offset-up", "offset-down",
		"toggle-wrap", "toggle-wrap", "toggle-multi-line", "toggle-multi-line", "toggle-hscroll", "toggle-preview", "toggle", "toggle+down",
		"toggle-all", "deselect-all", "toggle-sort", "toggle-track", "clear-screen", "refresh-preview", "change-prompt(>> )",
		"change-header(new header)", "toggle-header", "pos(3)", "pos(-1)", "change-pointer(=>)", "change-ghost(type here)",
		"change-preview-window(up,5|right,30%|hidden)", "change-multi(3)", "change-multi", "change-list-label( L )",
		// the focused item's text becomes the query and is then edited in place
		"replace-query+backward-delete-char+put(Z)", "replace-query+beginning-of-line+put(··)+delete-char", "replace-query+backward-kill-word+put(x)",
		"down+replace-query+beginning-of-line+forward-word+kill-word+put(··)", "transform-query(printf %s {} | cut -c1-20)"}
	probe := func() string {
		it := d13Plain(dc, r.Intn(len(dc.Items)))
		lines := strings.Split(it, "\n")
		rs := []rune(Pick(r, lines))
		if dc.Mode == "free" {
			// a word of the item, sometimes with an operator of the extended query language
			ws := strings.FieldsFunc(string(rs), func(c rune) bool { return c == ' ' || c == '\t' || c == '/' })
			if len(ws) == 0 {
				return "a"
			}
			w := Pick(r, ws)
			switch r.Intn(8) {
			case 0:
				return "'" + w
			case 1:
				return "!" + w
			case 2:
				return w + " " + Pick(r, ws)
			case 3:
				return strings.ToLower(w)
			}
			return w
		}
		for try := 0; try < 8; try++ {
			l := r.Range(2, 9)
			if len(rs) < l {
				l = len(rs)
			}
			if l == 0 {
				break
			}
			var off int
			switch k := r.Intn(10); {
			case k < 5: // around the right edge of the window, where a line is cut
				off = dc.Cols - r.Range(0, 14)
			case k < 6:
				off = 0
			case k < 7:
				off = len(rs) - l
			default:
				off = r.Intn(len(rs))
			}
			if off < 0 {
				off = 0
			}
			if off > len(rs)-l {
				off = len(rs) - l
			}
			q := string(rs[off : off+l])
			if strings.TrimSpace(q) != q || strings.ContainsAny(q, "\t\n\x1b") || q == "" {
				continue
			}
			return q
		}
		return fmt.Sprintf("i%02d", r.Intn(len(dc.Items)))
	}
	ns := r.Range(2, 7)
	for i := 0; i < ns; i++ {
		st := c13DispStep{}
		switch k := r.Intn(10); {
		case k < 4:
			st.HasQ = true
			st.Query = probe()
			st.Typed = r.Chance(1, 2) && c13Typeable(st.Query)
		case k < 5:
			st.Cols, st.Rows = Pick(r, []int{20, 30, 40, 60, 80, 120}), Pick(r, []int{6, 10, 16, 24, 30})
		default:
			st.Act = Pick(r, acts)
			if r.Chance(1, 3) {
				st.Act += "+" + Pick(r, acts)
			}
		}
		dc.Steps = append(dc.Steps, st)
	}
	return c13Case{Kind: "display", Disp: dc}
}

func d13Plain(dc *c13DispCase, i int) string {
	if dc.Ansi {
		return c13SGR.ReplaceAllString(dc.Items[i], "")
	}
	return dc.Items[i]
}

func c13Typeable(q string) bool {
	for _, r := range q {
		if r < 0x20 || r == 0x7f {
			return false
		}
	}
	return true
}

// ---- race build (thorough tier)

func c13RepoDir(c *Ctx) string {
	root := filepath.Dir(filepath.Dir(c.Corpus))
	cmd := exec.Command("go", "list", "-m", "-f", "{{.Dir}}", "github.com/junegunn/fzf")
	cmd.Dir = filepath.Join(root, "harness")
	cmd.Env = append(os.Environ(), "GOFLAGS=-mod=mod", "GOPROXY=off", "GOSUMDB=off", "GOTOOLCHAIN=local")
	out, err := cmd.Output()
	if err != nil {
		return ""
	}
	return strings.TrimSpace(string(out))
}

// The property is about the loader, the matcher workers, their caches and the items they share with the display:
// a report counts when one of the two racing accesses is made by (or on the memory of) one of those.  Races between the
// terminal's own goroutines (event loop vs previewer, ...) are somebody else's business; they are counted and a sample
// is kept in the evidence, not reported here.
var c13RaceRelevant = regexp.MustCompile(`src\.\(\*(Matcher|ChunkList|ChunkCache|Reader|Pattern|Item|Merger|Chunk)\)|src\.(Tokenize|Transform|buildItem)|util\.\(\*Chars\)|util\.(ToChars|RunesToChars)|/src/algo\.|fzf/src/algo\.|printHighlighted|itemLines`)

func c13RaceReports(c *Ctx, cs c13Case, dir string) {
	files, _ := filepath.Glob(filepath.Join(dir, "race.*"))
	for _, f := range files {
		b, _ := os.ReadFile(f)
		os.Remove(f)
		log := string(b)
		if !strings.Contains(log, "WARNING: DATA RACE") {
			continue
		}
		blocks := strings.Split(log, "WARNING: DATA RACE")[1:]
		c.Rep.CountN("race:display_reports", len(blocks))
		for _, b := range blocks {
			accesses := b
			if i := strings.Index(b, "\nGoroutine "); i >= 0 {
				accesses = b[:i] // the two racing stacks, without "created at"
			}
			if !c13RaceRelevant.MatchString(accesses) {
				c.Rep.Count("race:display_reports_outside_property(terminal internals)")
				c.Rep.mu.Lock()
				if _, ok := c.Rep.Extra["race_outside_property_sample"]; !ok {
					c.Rep.Extra["race_outside_property_sample"] = c13Head("WARNING: DATA RACE"+b, 1500)
				}
				c.Rep.mu.Unlock()
				continue
			}
			known := ""
			if strings.Contains(accesses, "util.(*Chars).TrimLength()") {
				known = "R1"
			}
			c.Rep.Disagreement(Disagreement{Kind: "spec", Name: "race_detector_clean(display)", Input: cs,
				Impl: c13Head("WARNING: DATA RACE"+b, 6000), Expect: "no data race reported", Known: known})
			if known == "" {
				break
			}
		}
	}
}

func c13DisplayRace(c *Ctx, cases []c13Case) {
	repo := c13RepoDir(c)
	if repo == "" {
		c.Rep.Count("race:display_unavailable")
		return
	}
	bin := filepath.Join(c.Work, "fzf_race")
	cmd := exec.Command("go", "build", "-race", "-o", bin, ".")
	cmd.Dir = repo
	cmd.Env = append(os.Environ(), "CGO_ENABLED=1", "GOFLAGS=-mod=mod", "GOPROXY=off", "GOSUMDB=off", "GOTOOLCHAIN=local")
	if out, err := cmd.CombinedOutput(); err != nil {
		c.Rep.Extra["race_detector_display"] = "unavailable: " + c13Head(strings.TrimSpace(string(out)), 400)
		c.Rep.Count("race:display_unavailable")
		return
	}
	c.Rep.Extra["race_detector_display"] = fmt.Sprintf("go build -race of fzf ok; %d sessions", len(cases))
	parallel(c, len(cases), func(i int, _ *RNG) {
		dir, err := os.MkdirTemp(c.Work, "race")
		if err != nil {
			return
		}
		defer os.RemoveAll(dir)
		c13DisplayWith(c, cases[i], bin, dir)
		c.Rep.Count("race:display_sessions")
	})
}
