package main

// C17, colour stream: the --color language (base schemes, NAME:COLOR:ATTR... entries, `regular`) and the options that
// assign the theme (--color[=SPEC], --no-color, +c), spread over options file, $FZF_DEFAULT_OPTS and the command line.
//   spec  color_denote           the theme ParseOptions returns == the documented denotation (coq/spec/ColorSpec.v,
//                                evaluated by op 1722 on the same entries), or both reject
//   spec  color_layering         layered parse == the single concatenated vector
//   spec  color_later_overrides  an entry NAME:regular:COLOR[:ATTR..] settles NAME whatever was said about NAME before
//   spec  color_total            never a panic
//   corr  corr:C17.color_opts    model (coq/model/ColorModel.v) == implementation on the rendered strings
//   raw strings (kind color-str): fragments of the language glued together at random, as the values of successive --color
//   options: never a panic (color_total), model == implementation (op 1721), and
//   spec  color_concat           --color=S1,S2 == --color=S1 --color=S2
// The built-in themes are read from the implementation (hook VerifBaseTheme) before every case and handed to spec and
// model as an input.

import (
	"fmt"
	"os"
	"path/filepath"
	"sort"
	"strings"

	fzf "github.com/junegunn/fzf/src"
)

type c17ColorOpt struct {
	K       int        `json:"k"`                 // 0 --color=ENTRIES   1 --color (no value)   2 --no-color
	Entries [][]string `json:"entries,omitempty"` // the ':'-separated words of each entry
	Form    int        `json:"form,omitempty"`    // 0 --color=SPEC   1 --color SPEC ; 0 --no-color  1 +c
}

type c17ColorCase struct {
	Kind    string        `json:"kind"` // "color"
	NoColor bool          `json:"no_color_env,omitempty"`
	HasFile bool          `json:"has_file,omitempty"`
	File    []c17ColorOpt `json:"file,omitempty"`
	Env     []c17ColorOpt `json:"env,omitempty"`
	Args    []c17ColorOpt `json:"args"`
	Ctx     []string      `json:"ctx,omitempty"` // unrelated flags put in front of the command line
	// later-overrides probe: Args[Probe] is a single complete entry for ProbeSlot, nothing after it names that slot or a base scheme
	Probe     int    `json:"probe,omitempty"`
	ProbeSlot string `json:"probe_slot,omitempty"`
}

// Go field of tui.ColorTheme -> documented colour name
var c17SlotOfField = map[string]string{
	"Input": "query", "Disabled": "disabled", "Fg": "fg", "Bg": "bg", "ListFg": "list-fg", "ListBg": "list-bg", "Nth": "nth",
	"SelectedFg": "selected-fg", "SelectedBg": "selected-bg", "SelectedMatch": "selected-hl", "PreviewFg": "preview-fg",
	"PreviewBg": "preview-bg", "DarkBg": "current-bg", "Gutter": "gutter", "Prompt": "prompt", "InputBg": "input-bg",
	"InputBorder": "input-border", "InputLabel": "input-label", "Match": "hl", "Current": "current-fg", "CurrentMatch": "current-hl",
	"Spinner": "spinner", "Info": "info", "Cursor": "pointer", "Marker": "marker", "Header": "header", "HeaderBg": "header-bg",
	"HeaderBorder": "header-border", "HeaderLabel": "header-label", "Separator": "separator", "Scrollbar": "scrollbar",
	"Border": "border", "PreviewBorder": "preview-border", "PreviewLabel": "preview-label", "PreviewScrollbar": "preview-scrollbar",
	"BorderLabel": "label", "ListLabel": "list-label", "ListBorder": "list-border", "GapLine": "gap-line",
}

var c17AttrNames = []string{"bold", "dim", "italic", "underline", "blink", "reverse", "strikethrough"}

func c17SlotName(field string) string {
	if n, ok := c17SlotOfField[field]; ok {
		return n
	}
	return "field:" + field
}

// attribute bits in the numbering of ColorSpec.v
func c17AttrBits(s fzf.VerifColorSlot) int {
	a := 0
	for i, on := range []bool{s.Bold, s.Dim, s.Italic, s.Underline, s.Blink, s.Reverse, s.StrikeThrough} {
		if on {
			a |= 1 << i
		}
	}
	if s.Regular {
		a |= 256
	}
	if s.Other != 0 {
		a |= 512
	}
	return a
}

func c17ThemeVal(v fzf.VerifThemeView) Val {
	slots := make([]Val, len(v.Slots))
	for i, s := range v.Slots {
		slots[i] = L(Bytes(c17SlotName(s.Field)), I(s.Color), I(c17AttrBits(s)))
	}
	return L(B(v.Colored), L(slots...))
}

func c17AttrText(a int) string {
	parts := []string{}
	if a&256 != 0 {
		parts = append(parts, "regular")
	}
	for i, n := range c17AttrNames {
		if a&(1<<i) != 0 {
			parts = append(parts, n)
		}
	}
	if a&^0x17f != 0 {
		parts = append(parts, fmt.Sprintf("other(%d)", a&^0x17f))
	}
	if len(parts) == 0 {
		return "-"
	}
	return strings.Join(parts, "+")
}

// canonical text of a theme: one line per colour name, sorted
func c17ThemeLines(colored bool, slots map[string][2]int) string {
	lines := make([]string, 0, len(slots)+1)
	for n, ca := range slots {
		lines = append(lines, fmt.Sprintf("%s %d %s", n, ca[0], c17AttrText(ca[1])))
	}
	sort.Strings(lines)
	return fmt.Sprintf("colored=%v\n", colored) + strings.Join(lines, "\n")
}

func c17ThemeOfView(v fzf.VerifThemeView) string {
	m := map[string][2]int{}
	for _, s := range v.Slots {
		m[c17SlotName(s.Field)] = [2]int{s.Color, c17AttrBits(s)}
	}
	return c17ThemeLines(v.Colored, m)
}

func c17ThemeOfVal(v Val) string {
	if len(v.L) != 2 {
		return "!" + v.String()
	}
	m := map[string][2]int{}
	for _, s := range v.L[1].L {
		if len(s.L) != 3 {
			return "!" + v.String()
		}
		m[s.L[0].Str()] = [2]int{int(s.L[1].I), int(s.L[2].I)}
	}
	return c17ThemeLines(v.L[0].I != 0, m)
}

func c17SlotLine(theme, slot string) string {
	for _, l := range strings.Split(theme, "\n") {
		if strings.HasPrefix(l, slot+" ") {
			return l
		}
	}
	return ""
}

func c17ThemeDiff(a, b string) string {
	if a == b {
		return ""
	}
	la, lb := strings.Split(a, "\n"), strings.Split(b, "\n")
	if len(la) != len(lb) {
		return fmt.Sprintf("%q vs %q", a, b)
	}
	out := []string{}
	for i := range la {
		if la[i] != lb[i] {
			out = append(out, fmt.Sprintf("%q vs %q", la[i], lb[i]))
		}
	}
	return strings.Join(out, "; ")
}

func c17Bases() Val {
	names := []string{"dark", "light", "16", "bw", "empty"}
	vs := make([]Val, len(names))
	for i, n := range names {
		vs[i] = c17ThemeVal(fzf.VerifBaseTheme(n))
	}
	return L(vs...)
}

func c17CoptsVal(os []c17ColorOpt) []Val {
	out := []Val{}
	for _, o := range os {
		switch o.K {
		case 0:
			es := make([]Val, len(o.Entries))
			for i, e := range o.Entries {
				es[i] = Strs(e)
			}
			out = append(out, L(I(0), L(es...)))
		case 1:
			out = append(out, L(I(1)))
		default:
			out = append(out, L(I(2)))
		}
	}
	return out
}

// the words of one layer, given the rendering of each option's value by the spec
func c17ColorWords(os []c17ColorOpt, rendered []Val) []string {
	ws := []string{}
	for i, o := range os {
		spec := rendered[i].L[1].Str()
		switch {
		case o.K == 0 && o.Form == 1 && spec != "" && spec[0] != '-' && spec[0] != '+':
			ws = append(ws, "--color", spec)
		case o.K == 0:
			ws = append(ws, "--color="+spec)
		case o.K == 1 && o.Form == 1:
			ws = append(ws, "--color=")
		case o.K == 1:
			ws = append(ws, "--color")
		case o.Form == 1:
			ws = append(ws, "+c")
		default:
			ws = append(ws, "--no-color")
		}
	}
	return ws
}

// ParseOptions under the given layers -> canonical theme text, "error: ..." or "PANIC ..."
func c17ColorImpl(c *Ctx, noColor bool, hasFile bool, file, env, args []string) (res string) {
	defer func() {
		if r := recover(); r != nil {
			res = fmt.Sprintf("PANIC %v", r)
		}
	}()
	os.Unsetenv("RUNEWIDTH_EASTASIAN")
	if noColor {
		os.Setenv("NO_COLOR", "1")
		defer os.Unsetenv("NO_COLOR")
	} else {
		os.Unsetenv("NO_COLOR")
	}
	if hasFile {
		p := filepath.Join(c.Work, "c17-opts-file")
		os.WriteFile(p, []byte(c17Quote(file)+"\n"), 0600)
		os.Setenv("FZF_DEFAULT_OPTS_FILE", p)
	} else {
		os.Unsetenv("FZF_DEFAULT_OPTS_FILE")
	}
	os.Setenv("FZF_DEFAULT_OPTS", c17Quote(env))
	o, err := fzf.ParseOptions(true, args)
	if err != nil {
		return "error: " + err.Error()
	}
	return c17ThemeOfView(fzf.VerifOptionsTheme(o))
}

func c17Status(s string) string {
	if strings.HasPrefix(s, "error") {
		return "error"
	}
	return s
}

func c17CheckColor(c *Ctx, cc c17ColorCase) {
	rep := c.Rep
	bases := c17Bases()
	t0 := bases.L[4]
	if cc.NoColor {
		t0 = bases.L[3]
	}
	file := cc.File
	if !cc.HasFile {
		file = nil
	}
	all := append(append(append([]c17ColorOpt{}, file...), cc.Env...), cc.Args...)
	sv := c.Model.Call(1722, L(bases, t0, L(c17CoptsVal(all)...)))
	if len(sv.L) != 4 || len(sv.L[0].L) != len(all) {
		rep.Disagreement(Disagreement{Kind: "corr", Name: "corr:C17.color_render", Input: cc, Impl: "", Expect: sv.String()})
		return
	}
	rendered := sv.L[0].L
	wf := sv.L[1].I == 1
	want := "error"
	if len(sv.L[2].L) == 1 {
		want = c17ThemeOfVal(sv.L[2].L[0])
		// "nth: only supports attributes"
		if l := c17SlotLine(want, "nth"); !strings.HasPrefix(l, "nth -2 ") {
			want = "error"
		}
	}
	fw := c17ColorWords(file, rendered[:len(file)])
	ew := c17ColorWords(cc.Env, rendered[len(file):len(file)+len(cc.Env)])
	aw := append(append([]string{}, cc.Ctx...), c17ColorWords(cc.Args, rendered[len(file)+len(cc.Env):])...)
	if !c17CleanForShell(fw) || !c17CleanForShell(ew) {
		rep.Count("color:unquotable")
		return
	}
	impl := c17ColorImpl(c, cc.NoColor, cc.HasFile, fw, ew, aw)
	rep.ImplTraces++
	rep.SpecChecks++
	key := fmt.Sprintf("color:%v:%q:%q:%q", cc.NoColor, fw, ew, aw)
	rep.Eval(key, !strings.HasPrefix(impl, "error") && len(all) >= 1)
	rep.Count("color:" + c17Status(impl)[:2])
	rep.Sample(map[string]interface{}{"file": fw, "env": ew, "args": aw})
	if strings.HasPrefix(impl, "PANIC") {
		rep.Disagreement(Disagreement{Kind: "spec", Name: "color_total", Input: cc, Impl: impl, Expect: "a theme or an error, never a panic"})
		return
	}
	// the documented denotation, evaluated against what the implementation returned
	if wf {
		rep.Count("color:wf")
		if c17Status(impl) != want {
			d := c17ThemeDiff(c17Status(impl), want)
			rep.Disagreement(Disagreement{Kind: "spec", Name: "color_denote", Input: cc,
				Impl: fmt.Sprintf("file %q env %q args %q => %s", fw, ew, aw, d), Expect: "implementation (left) == documented meaning (right)"})
		}
	}
	// correspondence with the model on the rendered strings
	mt := c17Outcome(sv.L[3], func(v Val) string { return "\n" + c17ThemeOfVal(v) })
	if strings.HasPrefix(mt, "ok\n\n") {
		mt = mt[4:]
		if l := c17SlotLine(mt, "nth"); !strings.HasPrefix(l, "nth -2 ") {
			mt = "error"
		}
	}
	if mt != c17Status(impl) {
		rep.Disagreement(Disagreement{Kind: "corr", Name: "corr:C17.color_opts", Input: cc,
			Impl: fmt.Sprintf("file %q env %q args %q => %s", fw, ew, aw, c17ThemeDiff(c17Status(impl), mt)), Expect: "impl (left) == model (right)"})
	}
	if strings.HasPrefix(impl, "error") {
		return
	}
	// layering: file, then environment, then command line == one vector in that order
	if cc.HasFile || len(cc.Env) > 0 {
		flat := c17ColorImpl(c, cc.NoColor, false, nil, nil, append(append(append([]string{}, fw...), ew...), aw...))
		rep.SpecChecks++
		rep.Count("color:layering")
		if flat != impl {
			rep.Disagreement(Disagreement{Kind: "spec", Name: "color_layering", Input: cc,
				Impl: fmt.Sprintf("file %q env %q args %q: layered vs single vector: %s", fw, ew, aw, c17ThemeDiff(impl, c17Status(flat))), Expect: "equal themes"})
		}
	}
	// later overrides earlier: a complete entry for a name decides that name, whatever was said before
	if cc.ProbeSlot != "" && cc.Probe < len(cc.Args) {
		ra := rendered[len(file)+len(cc.Env):]
		tail := c17ColorWords(cc.Args[cc.Probe:], ra[cc.Probe:])
		alone := c17ColorImpl(c, false, false, nil, nil, tail)
		rep.SpecChecks++
		rep.Count("color:override")
		if a, b := c17SlotLine(impl, cc.ProbeSlot), c17SlotLine(alone, cc.ProbeSlot); a != b || a == "" {
			rep.Disagreement(Disagreement{Kind: "spec", Name: "color_later_overrides", Input: cc,
				Impl:   fmt.Sprintf("file %q env %q args %q => %q", fw, ew, aw, a),
				Expect: fmt.Sprintf("%q as from %q alone (the last entry for %s begins with regular and gives a colour)", b, tail, cc.ProbeSlot)})
		}
	}
}

// ---------------------------------------------------------------- generators

var c17SlotSpellings = []string{"query", "input", "input-fg", "disabled", "fg", "bg", "list-fg", "list-bg", "preview-fg", "preview-bg",
	"current-fg", "fg+", "current-bg", "bg+", "selected-fg", "selected-bg", "nth", "gutter", "hl", "current-hl", "hl+", "selected-hl",
	"border", "preview-border", "separator", "scrollbar", "preview-scrollbar", "label", "list-label", "list-border", "preview-label",
	"prompt", "input-bg", "input-border", "input-label", "header-border", "header-label", "spinner", "info", "pointer", "marker",
	"header", "header-fg", "header-bg", "gap-line"}

var c17SlotCanon = map[string]string{"input": "query", "input-fg": "query", "fg+": "current-fg", "bg+": "current-bg", "hl+": "current-hl", "header-fg": "header"}

func c17CanonSlot(s string) string {
	s = strings.ToLower(s)
	if n, ok := c17SlotCanon[s]; ok {
		return n
	}
	return s
}

var c17ColourWords = []string{"black", "red", "green", "yellow", "blue", "magenta", "cyan", "white", "bright-black", "gray", "grey",
	"bright-red", "bright-green", "bright-yellow", "bright-blue", "bright-magenta", "bright-cyan", "bright-white"}

func c17Colour(r *RNG) string {
	switch r.Intn(6) {
	case 0:
		return Pick(r, c17ColourWords)
	case 1:
		return fmt.Sprintf("#%06x", r.Intn(1<<24))
	case 2:
		return fmt.Sprintf("#%06X", r.Intn(1<<24))
	case 3:
		return Pick(r, []string{"-1", "0", "1", "15", "16", "255", "+7", "007", "-0", "+255", "254", "100"})
	default:
		return fmt.Sprint(r.Range(-1, 255))
	}
}

func c17BadComp(r *RNG) string {
	return Pick(r, []string{"256", "-2", "#12345", "#1234567", "#gggggg", "reg", "bolder", "1e2", "0x10", " 1", "--1", "+-1", "1_0", "#", "-",
		"+", "é", "１", "bright", "bright-", "under line", "99999999999999999999", "-99999999999999999999", "regular ", "none", "default"})
}

func c17Comp(r *RNG, bad bool) string {
	if bad && r.Chance(1, 4) {
		return c17BadComp(r)
	}
	switch r.Intn(10) {
	case 0, 1, 2:
		return c17Colour(r)
	case 3, 4, 5, 6:
		return Pick(r, append([]string{"strong"}, c17AttrNames...))
	case 7, 8:
		return "regular"
	default:
		return ""
	}
}

func c17ColorEntry(r *RNG, focus []string, bad bool) []string {
	if r.Chance(1, 14) {
		return []string{c17Mixcase(r, Pick(r, []string{"dark", "light", "16", "bw", "no"}))}
	}
	slot := Pick(r, focus)
	if r.Chance(1, 4) {
		slot = Pick(r, c17SlotSpellings)
	}
	if slot == "nth" && r.Chance(3, 4) {
		// nth takes attributes only; colours on nth are rejected at the end (kept as a rare case)
		e := []string{slot}
		for i, n := 0, r.Range(1, 3); i < n; i++ {
			e = append(e, Pick(r, append([]string{"regular", ""}, c17AttrNames...)))
		}
		return e
	}
	e := []string{c17Mixcase(r, slot)}
	if bad && r.Chance(1, 6) {
		e[0] = Pick(r, []string{"", "foreground", "fg ", "hl++", "dark", "bw", "current", "fg-", "ｆｇ"})
	}
	n := r.Range(1, 4)
	if bad && r.Chance(1, 8) {
		n = 0
	}
	for i := 0; i < n; i++ {
		e = append(e, c17Mixcase(r, c17Comp(r, bad)))
	}
	return e
}

func c17ColorOpts(r *RNG, focus []string, lo, hi int, bad bool) []c17ColorOpt {
	out := []c17ColorOpt{}
	for i, n := 0, r.Range(lo, hi); i < n; i++ {
		switch {
		case r.Chance(1, 16):
			out = append(out, c17ColorOpt{K: 1, Form: r.Intn(2)})
		case r.Chance(1, 16):
			out = append(out, c17ColorOpt{K: 2, Form: r.Intn(2)})
		default:
			o := c17ColorOpt{K: 0, Form: r.Intn(2)}
			for j, m := 0, r.Range(1, 4); j < m; j++ {
				o.Entries = append(o.Entries, c17ColorEntry(r, focus, bad))
			}
			if bad && r.Chance(1, 10) {
				o.Entries = append(o.Entries, []string{""}) // trailing comma
			}
			out = append(out, o)
		}
	}
	return out
}

var c17ColorCtx = []string{"--bold", "--no-bold", "--black", "--no-black", "--ansi", "--no-mouse", "--multi", "--border", "--no-unicode",
	"--highlight-line", "--cycle", "--reverse"}

func c17GenColorCase(r *RNG) c17ColorCase {
	cc := c17ColorCase{Kind: "color"}
	bad := r.Chance(1, 5)
	// a few names get most of the entries, so that the same name is addressed again and again
	focus := []string{}
	for i, n := 0, r.Range(1, 3); i < n; i++ {
		s := Pick(r, c17SlotSpellings)
		focus = append(focus, s)
		// and its other spellings
		for _, t := range c17SlotSpellings {
			if t != s && c17CanonSlot(t) == c17CanonSlot(s) {
				focus = append(focus, t)
			}
		}
	}
	cc.NoColor = r.Chance(1, 10)
	if r.Chance(1, 4) {
		cc.HasFile = true
		cc.File = c17ColorOpts(r, focus, 0, 2, bad)
	}
	if r.Chance(1, 2) {
		cc.Env = c17ColorOpts(r, focus, 0, 2, bad)
	}
	cc.Args = c17ColorOpts(r, focus, 0, 3, bad)
	for i, n := 0, r.Intn(3); i < n; i++ {
		cc.Ctx = append(cc.Ctx, Pick(r, c17ColorCtx))
	}
	if !bad && r.Chance(1, 2) {
		// later-overrides probe: a complete entry for one of the focus names, followed only by entries for other names
		slot := focus[0]
		if c17CanonSlot(slot) == "nth" {
			return cc
		}
		e := []string{Pick(r, focus[:1]), "regular"}
		pos := r.Range(2, 3)
		for i, n := 2, r.Range(3, 5); i < n; i++ {
			if i == pos {
				e = append(e, c17Colour(r))
			} else {
				e = append(e, Pick(r, append([]string{""}, c17AttrNames...)))
			}
		}
		if len(e) <= pos {
			e = append(e, c17Colour(r))
		}
		cc.Probe = len(cc.Args)
		cc.ProbeSlot = c17CanonSlot(slot)
		cc.Args = append(cc.Args, c17ColorOpt{K: 0, Form: r.Intn(2), Entries: [][]string{e}})
		for _, o := range c17ColorOpts(r, c17SlotSpellings, 0, 2, false) {
			keep := o.K == 0
			for _, en := range o.Entries {
				if len(en) < 2 || c17CanonSlot(en[0]) == cc.ProbeSlot {
					keep = false
				}
			}
			if keep {
				cc.Args = append(cc.Args, o)
			}
		}
	}
	return cc
}

// ---------------------------------------------------------------- raw strings

var c17ColorFrags = []string{"fg", "bg", "hl", "hl+", "fg+", "bg+", "nth", "query", "input-fg", "pointer", "header", "gap-line", "list-border",
	":", ":", ":", ",", ",", "::", ",,", ":,", "dark", "light", "16", "bw", "no", "regular", "bold", "strong", "dim", "italic", "underline", "blink",
	"reverse", "strikethrough", "red", "bright-red", "gray", "grey", "-1", "0", "7", "255", "256", "-2", "+3", "#ff0000", "#FF00aa", "#ff00", "#", "x", "-",
	"+", " ", "FG", "Bold", "REGULAR", "é", "bright-", "black"}

func c17GenColorStr(r *RNG) string {
	var sb strings.Builder
	if r.Chance(1, 3) {
		for i, n := 0, r.Range(0, 9); i < n; i++ {
			sb.WriteString(Pick(r, c17ColorFrags))
		}
		return sb.String()
	}
	// mostly inside the language, with the odd stray fragment
	for i, n := 0, r.Range(1, 3); i < n; i++ {
		if i > 0 {
			sb.WriteString(",")
		}
		if r.Chance(1, 8) {
			sb.WriteString(c17Mixcase(r, Pick(r, []string{"dark", "light", "16", "bw", "no"})))
			continue
		}
		sb.WriteString(c17Mixcase(r, Pick(r, c17SlotSpellings)))
		for j, m := 0, r.Range(1, 3); j < m; j++ {
			sb.WriteString(":")
			if r.Chance(1, 12) {
				sb.WriteString(Pick(r, c17ColorFrags))
			} else {
				sb.WriteString(c17Mixcase(r, c17Comp(r, false)))
			}
		}
	}
	if r.Chance(1, 12) {
		sb.WriteString(Pick(r, []string{",", ":", ",,", " "}))
	}
	return sb.String()
}

func c17ColorArgs(ss []string) []string {
	out := make([]string, len(ss))
	for i, s := range ss {
		out[i] = "--color=" + s
	}
	return out
}

func c17CheckColorStr(c *Ctx, cs c17Case) {
	rep := c.Rep
	bases := c17Bases()
	impl := c17ColorImpl(c, false, false, nil, nil, c17ColorArgs(cs.Strs))
	rep.ImplTraces++
	rep.SpecChecks++
	rep.Eval("color-str:"+strings.Join(cs.Strs, "\x00"), !strings.HasPrefix(impl, "error"))
	rep.Count("color-str:" + c17Status(impl)[:2])
	if strings.HasPrefix(impl, "PANIC") {
		rep.Disagreement(Disagreement{Kind: "spec", Name: "color_total", Input: cs, Impl: impl, Expect: "a theme or an error, never a panic"})
		return
	}
	items := make([]Val, len(cs.Strs))
	for i, s := range cs.Strs {
		items[i] = L(I(0), Bytes(s))
	}
	mt := c17Outcome(c.Model.Call(1721, L(bases, bases.L[4], L(items...))), func(v Val) string { return "\n" + c17ThemeOfVal(v) })
	if strings.HasPrefix(mt, "ok\n\n") {
		mt = mt[4:]
		if l := c17SlotLine(mt, "nth"); !strings.HasPrefix(l, "nth -2 ") {
			mt = "error"
		}
	}
	if mt != c17Status(impl) {
		rep.Disagreement(Disagreement{Kind: "corr", Name: "corr:C17.color_opts", Input: cs,
			Impl: fmt.Sprintf("%q => %s", c17ColorArgs(cs.Strs), c17ThemeDiff(c17Status(impl), mt)), Expect: "impl (left) == model (right)"})
	}
	// one option with the values joined by commas == the options one after the other
	if len(cs.Strs) >= 2 {
		nonempty := true
		for _, s := range cs.Strs {
			nonempty = nonempty && s != ""
		}
		if nonempty {
			joined := c17ColorImpl(c, false, false, nil, nil, []string{"--color=" + strings.Join(cs.Strs, ",")})
			rep.SpecChecks++
			if c17Status(joined) != c17Status(impl) {
				rep.Disagreement(Disagreement{Kind: "spec", Name: "color_concat", Input: cs,
					Impl:   fmt.Sprintf("%q => %s", c17ColorArgs(cs.Strs), c17ThemeDiff(c17Status(impl), c17Status(joined))),
					Expect: fmt.Sprintf("the same as --color=%s (right)", strings.Join(cs.Strs, ","))})
			}
		}
	}
}

func c17RunColor(c *Ctx) {
	r := c.Rng
	for i, n := 0, c.N(1000, 30000); i < n; i++ {
		ss := []string{}
		for j, m := 0, r.Range(1, 3); j < m; j++ {
			ss = append(ss, c17GenColorStr(r))
		}
		if c17CleanForShell(ss) {
			c17RunS(c, c17Case{Kind: "color-str", Strs: ss})
		}
	}
	for i, n := 0, c.N(2500, 80000); i < n; i++ {
		c17CheckColorS(c, c17GenColorCase(r))
	}
}
