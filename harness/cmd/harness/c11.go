package main

import (
	"encoding/hex"
	"encoding/json"
	"fmt"
	"os"
	"strconv"
	"strings"
	"sync/atomic"
	"unicode/utf8"

	fzf "github.com/junegunn/fzf/src"
)

// ---- replayable case ----

type c11State struct {
	Fg   int      `json:"fg"`
	Bg   int      `json:"bg"`
	Attr int      `json:"attr"`
	Lbg  int      `json:"lbg"`
	URL  []string `json:"url,omitempty"` // nil or [uri, params] (hex)
}

// one element of a grammar-generated stream
//   T=0 text (control-free, whole UTF-8)   T=1 SGR with decimal parameters Dig (well-formed, in the documented domain)
//   T=2 other sequence (CSI not SGR, OSC, ESC x, SO/SI), raw bytes   T=3 OSC-8 open/close   T=4 "c BS" pair
//   T=5 SGR outside the documented domain (colon forms, empty / truncated parameters): correspondence only
//   T=6 SGR with omitted parameters and/or a last parameter written with sub-parameters (':'): plain parameters Dig
//       ("" = omitted) then, when Sub is not empty, one parameter whose sub-parameters are Sub ("" = omitted), e.g.
//       Dig=["1"], Sub=["38","2","","10","20","30"] is ESC[1;38:2::10:20:30m.  The spec (sgr_xwf) says whether the
//       sequence is inside the claimed domain; inside it the colouring equality is checked, outside it model = code only
type c11Item struct {
	T   int      `json:"t"`
	Hex string   `json:"hex,omitempty"`
	Dig []string `json:"dig,omitempty"`
	Sub []string `json:"sub,omitempty"`
}

type c11Case struct {
	Kind  string     `json:"kind"` // bytes | inter | sgr | utf8 | proc | disp | tostr (the last two: c11disp.go)
	Hex   string     `json:"hex,omitempty"`
	State *c11State  `json:"state,omitempty"`
	Items []c11Item  `json:"items,omitempty"`
	Lines []string   `json:"lines,omitempty"` // proc: hex per line
	Color bool       `json:"color,omitempty"` // proc: --color=always style (theme coloured)
	// disp: what fzf shows in a terminal.  Rows: the input lines (after a plain filler line that carries the cursor),
	// each a stream of items; Nth: --with-nth expression ("" = option absent); Delim: -d ("" = absent); Theme: --color
	Rows  [][]c11Item `json:"rows,omitempty"`
	Nth   string      `json:"nth,omitempty"`
	Delim string      `json:"delim,omitempty"`
	Theme string      `json:"theme,omitempty"`
}

func unhex(s string) string { b, _ := hex.DecodeString(s); return string(b) }
func tohex(s string) string { return hex.EncodeToString([]byte(s)) }

func (it c11Item) render() string {
	if it.T == 6 {
		s := "\x1b[" + strings.Join(it.Dig, ";")
		if len(it.Sub) > 0 {
			if len(it.Dig) > 0 {
				s += ";"
			}
			s += strings.Join(it.Sub, ":")
		}
		return s + "m"
	}
	if it.T == 1 || it.T == 5 {
		if it.Hex != "" {
			return unhex(it.Hex)
		}
		return "\x1b[" + strings.Join(it.Dig, ";") + "m"
	}
	return unhex(it.Hex)
}

func c11Render(items []c11Item) string {
	var b strings.Builder
	for _, it := range items {
		b.WriteString(it.render())
	}
	return b.String()
}

// ---- value encodings (mirror coq/wire/W_Ansi.v) ----

func c11StateVal(s *fzf.VerifAnsiState) Val {
	u := L()
	if s.HasURL {
		u = L(Bytes(s.URI), Bytes(s.Params))
	}
	return L(I(s.Fg), I(s.Bg), I(s.Attr), I(s.Lbg), u)
}
func c11StateOptVal(s *fzf.VerifAnsiState) Val {
	if s == nil {
		return L()
	}
	return L(c11StateVal(s))
}
func (s *c11State) impl() *fzf.VerifAnsiState {
	if s == nil {
		return nil
	}
	r := &fzf.VerifAnsiState{Fg: s.Fg, Bg: s.Bg, Attr: s.Attr, Lbg: s.Lbg}
	if s.URL != nil {
		r.HasURL, r.URI, r.Params = true, unhex(s.URL[0]), unhex(s.URL[1])
	}
	return r
}

type c11Extract struct {
	Trimmed string
	Offsets []fzf.VerifAnsiOffset
	HasOff  bool
	State   *fzf.VerifAnsiState
	Panic   string
}

func c11DoExtract(s string, st *fzf.VerifAnsiState) (r c11Extract) {
	defer func() {
		if e := recover(); e != nil {
			r.Panic = fmt.Sprint(e)
		}
	}()
	r.Trimmed, r.Offsets, r.HasOff, r.State = fzf.VerifExtractColor(s, st)
	return
}

func (r c11Extract) val() Val {
	if r.Panic != "" {
		return L(I(-7))
	}
	offs := L()
	if r.HasOff {
		vs := []Val{}
		for _, o := range r.Offsets {
			c := o.Color
			vs = append(vs, L(I(o.Begin), I(o.End), c11StateVal(&c)))
		}
		offs = L(L(vs...))
	}
	return L(Bytes(r.Trimmed), offs, c11StateOptVal(r.State))
}

// omitted or given number, and the xsgr record of AnsiSpec.v (mirror of as_optz / as_xsgr)
func c11OptNum(d string) Val {
	if d == "" {
		return L()
	}
	n, _ := strconv.Atoi(d)
	return L(I(n))
}
func (it c11Item) xsgrVal() Val {
	ps := []Val{}
	for _, d := range it.Dig {
		ps = append(ps, c11OptNum(d))
	}
	last := L()
	if len(it.Sub) > 0 {
		subs := []Val{}
		for _, d := range it.Sub {
			subs = append(subs, c11OptNum(d))
		}
		last = L(L(subs...))
	}
	return L(L(ps...), last)
}

// reference reading of a T=6 sequence from the state st, and whether it lies in the claimed domain
func c11XApply(c *Ctx, it c11Item, st Val) (Val, bool) {
	w := c.Model.Call(1110, L(it.xsgrVal(), st))
	if len(w.L) != 2 {
		return L(), false
	}
	return w.L[0], w.L[1].I == 1
}

func hasCtl(s string) bool { return strings.ContainsAny(s, "\x1b\x0e\x0f\x08") }

// per-rune (fg,bg,attr) from the implementation's spans; n runes
func c11Expand(offs []fzf.VerifAnsiOffset, n int) []Val {
	out := make([]Val, n)
	for i := range out {
		out[i] = L(I(-1), I(-1), I(0))
	}
	for _, o := range offs {
		for i := o.Begin; i < o.End && i < n; i++ {
			if i >= 0 {
				out[i] = L(I(o.Color.Fg), I(o.Color.Bg), I(o.Color.Attr))
			}
		}
	}
	return out
}

var c11CorrSeen int32

func c11Bad(c *Ctx, kind, name string, cs c11Case, impl, expect interface{}) {
	// the report keeps 50 disagreements: never let model/impl differences crowd out a failing spec check
	if kind == "corr" && atomic.AddInt32(&c11CorrSeen, 1) > 10 {
		return
	}
	c.Rep.Disagreement(Disagreement{Kind: kind, Name: name, Input: cs, Impl: impl, Expect: expect})
}

// checks common to every byte string (arbitrary or generated): scanner, strip, spans, model correspondence
func c11CheckString(c *Ctx, cs c11Case, s string, st *fzf.VerifAnsiState) c11Extract {
	rep := c.Rep
	sv := Bytes(s)
	// scanner: implementation vs grammar (spec) and vs model
	a, b := -2, -2
	func() {
		defer func() { recover() }()
		a, b = fzf.VerifNextAnsi(s)
	}()
	got := L(I(a), I(b))
	rep.SpecChecks++
	if want := c.Model.Call(1102, sv); !got.Equal(want) {
		c11Bad(c, "spec", "scanner_eq_grammar", cs, got.String(), want.String())
	}
	if m := c.Model.Call(1101, sv); !got.Equal(m) {
		c11Bad(c, "corr", "corr:C11.next_ansi", cs, got.String(), m.String())
	}
	// extractColor
	r := c11DoExtract(s, st)
	rep.ImplTraces++
	if r.Panic != "" {
		c11Bad(c, "spec", "total", cs, r.Panic, "no panic")
		return r
	}
	if m := c.Model.Call(1103, L(sv, c11StateOptVal(st))); !r.val().Equal(m) {
		c11Bad(c, "corr", "corr:C11.extract_color", cs, r.val().String(), m.String())
	}
	rep.SpecChecks++
	if want := c.Model.Call(1104, sv); !Bytes(r.Trimmed).Equal(want) {
		c11Bad(c, "spec", "strip_spec", cs, tohex(r.Trimmed), tohex(want.Str()))
	}
	if !hasCtl(s) && r.Trimmed != s {
		c11Bad(c, "spec", "strip_plain", cs, tohex(r.Trimmed), tohex(s))
	}
	// spans: ordered, disjoint, inside the kept text (runes counted piece by piece)
	if r.HasOff {
		rep.SpecChecks++
		kept := int(c.Model.Call(1108, sv).I)
		lo, ok := 0, true
		for _, o := range r.Offsets {
			if o.Begin < lo || o.End < o.Begin {
				ok = false
			}
			lo = o.End
		}
		if lo > kept {
			ok = false
		}
		if !ok {
			c11Bad(c, "spec", "spans_wf", cs, fmt.Sprint(r.Offsets), fmt.Sprintf("ordered, disjoint, within [0,%d]", kept))
		}
		if n := utf8.RuneCountInString(r.Trimmed); lo > n {
			// known deviation: an escape sequence splitting a multi-byte character (ill-formed text pieces
			// that join into one character); outside the domain of "within the text", counted only
			if kept == n {
				c11Bad(c, "spec", "spans_within_text", cs, fmt.Sprint(r.Offsets), n)
			} else {
				rep.Count("span_beyond_text(split multibyte char)")
			}
		}
		if st != nil && len(r.Offsets) > 0 {
			f := r.Offsets[0]
			if f.Begin != 0 || !c11StateVal(&f.Color).Equal(c11StateVal(st)) {
				c11Bad(c, "spec", "state_carry", cs, fmt.Sprint(f), "first span starts at 0 with the carried state")
			}
		}
	} else if st != nil {
		c11Bad(c, "spec", "state_carry", cs, "no spans", "first span carries the previous state")
	}
	return r
}

func c11SgrVal(st *fzf.VerifAnsiState) Val {
	if st == nil {
		return L(I(-1), I(-1), I(0))
	}
	return L(I(st.Fg), I(st.Bg), I(st.Attr))
}

func c11Check(c *Ctx, cs c11Case) {
	rep := c.Rep
	key, _ := json.Marshal(cs)
	switch cs.Kind {
	case "bytes":
		s := unhex(cs.Hex)
		st := cs.State.impl()
		r := c11CheckString(c, cs, s, st)
		rep.Eval(string(key), r.Trimmed != s)
		rep.Count("kind=bytes")
	case "inter":
		s := c11Render(cs.Items)
		st := cs.State.impl()
		r := c11CheckString(c, cs, s, st)
		if r.Panic != "" {
			return
		}
		text := ""
		inDomain := true
		items := []Val{}
		for _, it := range cs.Items {
			switch it.T {
			case 0:
				text += unhex(it.Hex)
				items = append(items, L(I(0), Bytes(unhex(it.Hex))))
			case 1:
				ps := []int{}
				for _, d := range it.Dig {
					n, _ := strconv.Atoi(d)
					ps = append(ps, n)
				}
				items = append(items, L(I(1), Ints(ps)))
			case 5:
				inDomain = false
			case 6:
				if _, wf := c11XApply(c, it, L(I(-1), I(-1), I(0))); wf {
					items = append(items, L(I(3), it.xsgrVal()))
					rep.Count("inter:sgr-with-omitted-or-sub-parameters(in-domain)")
				} else {
					inDomain = false
				}
			default:
				items = append(items, L(I(2)))
			}
		}
		rep.SpecChecks++
		if r.Trimmed != text {
			c11Bad(c, "spec", "strip_interleaving", cs, tohex(r.Trimmed), tohex(text))
		}
		if inDomain {
			rep.SpecChecks++
			n := utf8.RuneCountInString(text)
			got := L(c11Expand(r.Offsets, n)...)
			want := c.Model.Call(1109, L(L(items...), c11SgrVal(st)))
			if !got.Equal(want) {
				c11Bad(c, "spec", "colour_chars", cs, got.String(), want.String())
			}
			rep.Count("inter=in-domain")
		} else {
			rep.Count("inter=out-of-domain(corr only)")
		}
		rep.Eval(string(key), len(cs.Items) > 1)
		rep.Count("kind=inter")
		if st != nil {
			rep.Count("carried_state")
		}
	case "sgr":
		// one SGR sequence against the reference interpreter
		it := cs.Items[0]
		code := it.render()
		st := cs.State.impl()
		var got fzf.VerifAnsiState
		pan := ""
		func() {
			defer func() {
				if e := recover(); e != nil {
					pan = fmt.Sprint(e)
				}
			}()
			got = fzf.VerifInterpretCode(code, st)
		}()
		if pan != "" {
			c11Bad(c, "spec", "total", cs, pan, "no panic")
			return
		}
		if m := c.Model.Call(1105, L(Bytes(code), c11StateOptVal(st))); !c11StateVal(&got).Equal(m) {
			c11Bad(c, "corr", "corr:C11.interpret_code", cs, c11StateVal(&got).String(), m.String())
		}
		if it.T == 1 {
			ps := []int{}
			for _, d := range it.Dig {
				n, _ := strconv.Atoi(d)
				ps = append(ps, n)
			}
			w := c.Model.Call(1106, L(Ints(ps), c11SgrVal(st)))
			if len(w.L) == 2 && w.L[1].I == 1 {
				rep.SpecChecks++
				if !c11SgrVal(&got).Equal(w.L[0]) {
					c11Bad(c, "spec", "sgr_eq", cs, c11SgrVal(&got).String(), w.L[0].String())
				}
				// lbg and link are not touched by SGR
				if st != nil && (got.Lbg != st.Lbg || got.HasURL != st.HasURL || got.URI != st.URI) {
					c11Bad(c, "spec", "sgr_keeps_link", cs, c11StateVal(&got).String(), c11StateVal(st).String())
				}
				rep.Count("sgr=in-domain")
			}
		} else if it.T == 6 {
			if want, wf := c11XApply(c, it, c11SgrVal(st)); wf {
				rep.SpecChecks++
				if !c11SgrVal(&got).Equal(want) {
					c11Bad(c, "spec", "sgr_sub_eq", cs, c11SgrVal(&got).String(), want.String())
				}
				if st != nil && (got.Lbg != st.Lbg || got.HasURL != st.HasURL || got.URI != st.URI) {
					c11Bad(c, "spec", "sgr_keeps_link", cs, c11StateVal(&got).String(), c11StateVal(st).String())
				}
				rep.Count("sgr=in-domain(omitted/sub-parameters)")
			} else {
				rep.Count("sgr=out-of-domain(corr only)")
			}
		} else {
			rep.Count("sgr=out-of-domain(corr only)")
		}
		rep.Eval(string(key), true)
		rep.Count("kind=sgr")
	case "utf8":
		s := unhex(cs.Hex)
		_, n1 := utf8.DecodeRuneInString(s)
		_, n2 := utf8.DecodeLastRuneInString(s)
		got := L(I(n1), I(n2), I(utf8.RuneCountInString(s)))
		if m := c.Model.Call(1107, Bytes(s)); !got.Equal(m) {
			c11Bad(c, "corr", "corr:C11.utf8", cs, got.String(), m.String())
		}
		rep.Eval(string(key), len(s) > 1)
		rep.Count("kind=utf8")
	case "proc":
		var in strings.Builder
		want := []string{}
		for _, h := range cs.Lines {
			l := unhex(h)
			in.WriteString(l + "\n")
			want = append(want, c.Model.Call(1104, Bytes(l)).Str())
		}
		args := []string{"--ansi", "-f", ""}
		if cs.Color {
			args = []string{"--ansi", "--no-color", "-f", ""}
		}
		out, errs, code := RunFzf(c, args, []byte(in.String()))
		rep.ImplTraces++
		rep.SpecChecks++
		exp := strings.Join(want, "\n") + "\n"
		if out != exp || (code != 0 && len(want) > 0) {
			c11Bad(c, "spec", "proc_strip", cs, map[string]interface{}{"stdout": tohex(out), "stderr": errs, "exit": code}, tohex(exp))
		}
		rep.Eval(string(key), true)
		rep.Count("kind=proc")
		rep.CountN("proc_lines", len(cs.Lines))
	case "disp":
		c11CheckDisp(c, cs)
		rep.Eval(string(key), true)
		rep.Count("kind=disp")
	case "tostr":
		c11CheckToStr(c, cs)
		rep.Eval(string(key), true)
		rep.Count("kind=tostr")
	}
	rep.Sample(cs)
}

// ---- generators ----

var c11Texts = []string{"a", "b", "foo", " ", "x y", "é", "日本", "😀", "0", "m", ";", "[", "]", "\\", "K", "\n", "8", "~", "\t", "\x7f", "€"}

func c11GenText(r *RNG) string {
	n := r.Range(1, 3)
	s := ""
	for i := 0; i < n; i++ {
		s += Pick(r, c11Texts)
	}
	return s
}

func c11Num(r *RNG, max int) string {
	n := r.Intn(max + 1)
	if r.Chance(1, 4) {
		n = Pick(r, []int{0, 1, 7, 8, 15, 16, 255, max})
		if n > max {
			n = max
		}
	}
	s := strconv.Itoa(n)
	if r.Chance(1, 12) {
		s = "0" + s
	}
	return s
}

var c11Simple = []int{0, 1, 2, 3, 4, 5, 7, 9, 22, 23, 24, 25, 27, 29, 30, 31, 33, 37, 39, 40, 42, 47, 49, 90, 93, 97, 100, 104, 107, 6, 8, 21, 53, 50, 89, 98, 108, 10, 110}

// well-formed SGR in the documented domain
func c11GenSgr(r *RNG) c11Item {
	it := c11Item{T: 1}
	n := r.Range(0, 4)
	for i := 0; i < n; i++ {
		switch r.Intn(6) {
		case 0:
			it.Dig = append(it.Dig, Pick(r, []string{"38", "48"}), "5", c11Num(r, 255))
		case 1:
			it.Dig = append(it.Dig, Pick(r, []string{"38", "48"}), "2", c11Num(r, 255), c11Num(r, 255), c11Num(r, 255))
		default:
			d := strconv.Itoa(Pick(r, c11Simple))
			if r.Chance(1, 16) {
				d = "0" + d
			}
			it.Dig = append(it.Dig, d)
		}
	}
	return it
}

// SGR with omitted parameters / an extended colour written with sub-parameters.  Mostly inside the claimed domain
// (every parameter omitted; plain parameters then 38:5:n, 38:2:r:g:b or 38:2::r:g:b, 48 likewise); one in six is a
// near miss (some parameters omitted, a colour-space identifier, a missing or an extra part, another head) where only
// model = code is compared
func c11GenXSgr(r *RNG) c11Item {
	it := c11Item{T: 6}
	if r.Chance(1, 6) {
		n := r.Range(1, 4)
		for i := 0; i < n; i++ {
			it.Dig = append(it.Dig, "")
		}
		if r.Chance(1, 4) { // near miss: one of them given
			it.Dig[r.Intn(n)] = strconv.Itoa(Pick(r, c11Simple))
		}
		return it
	}
	if r.Chance(2, 3) {
		it.Dig = c11GenSgr(r).Dig
	}
	head := Pick(r, []string{"38", "48"})
	if r.Chance(1, 16) {
		head = "0" + head
	}
	switch r.Intn(5) {
	case 0, 1:
		it.Sub = []string{head, "2", "", c11Num(r, 255), c11Num(r, 255), c11Num(r, 255)}
	case 2, 3:
		it.Sub = []string{head, "2", c11Num(r, 255), c11Num(r, 255), c11Num(r, 255)}
	default:
		it.Sub = []string{head, "5", c11Num(r, 255)}
	}
	if r.Chance(1, 6) { // near misses
		switch r.Intn(6) {
		case 0:
			it.Sub[r.Intn(len(it.Sub))] = ""
		case 1:
			it.Sub = it.Sub[:len(it.Sub)-1]
		case 2:
			it.Sub = append(it.Sub, c11Num(r, 255))
		case 3:
			it.Sub[0] = Pick(r, []string{"4", "58", "1", "39"})
		case 4:
			it.Sub[len(it.Sub)-1] = Pick(r, []string{"256", "300", "65536"})
		default:
			if len(it.Dig) > 0 {
				it.Dig[r.Intn(len(it.Dig))] = ""
			} else {
				it.Dig = []string{""}
			}
		}
	}
	return it
}

// SGR-looking sequences outside the domain
func c11GenOddSgr(r *RNG) c11Item {
	alts := []string{"\x1b[;1m", "\x1b[1;m", "\x1b[38:5:196m", "\x1b[38:5:196;1m", "\x1b[38;5m", "\x1b[38;2;1;2m", "\x1b[38;7;1m",
		"\x1b[48:2:1:2:3m", "\x1b[38;5;300m", "\x1b[38;2;256;1;1m", "\x1b[1:2m", "\x1b[?1m", "\x1b[3?m", "\x1b[99999999999999999999m",
		"\x1b[38;5;4294967297m", "\x1b[38;2;65536;0;0m", "\x1b[;m", "\x1b[:m", "\x1b[38;38;5;1m", "\x1b[38;5;1;48m", "\x1b[18446744073709551615m",
		"\x1b[38;2;1;2;3;4m", "\x1b(1m", "\x1b[1;;2m"}
	s := Pick(r, alts)
	if r.Chance(1, 3) {
		// random parameter soup
		s = "\x1b["
		n := r.Range(1, 6)
		for i := 0; i < n; i++ {
			s += Pick(r, []string{"38", "48", "5", "2", "0", "1", "", "255", "256", "39", "31", "?", "07"})
			if i < n-1 {
				s += Pick(r, []string{";", ";", ";", ":"})
			}
		}
		s += "m"
	}
	return c11Item{T: 5, Hex: tohex(s)}
}

func c11GenOther(r *RNG) c11Item {
	alts := []string{"\x1b[K", "\x1b[0K", "\x1b[1K", "\x1b[2J", "\x1b[10;20H", "\x1b[?25l", "\x1b[?1049h", "\x1b(B", "\x1b)A", "\x1b\\A",
		"\x0e", "\x0f", "\x1b=", "\x1b>", "\x1b7", "\x1bM", "\x1bc", "\x1bé", "\x1b ", "\x1b]0;title\x07", "\x1b]2;t\x1b\\",
		"\x1b]133;A\x07", "\x1b]52:c\x07", "\x1b[@", "\x1b[1;2;3R", "\x1b[5n"}
	return c11Item{T: 2, Hex: tohex(Pick(r, alts))}
}

func c11GenOsc8(r *RNG) c11Item {
	term := Pick(r, []string{"\x07", "\x1b\\"})
	alts := []string{"\x1b]8;;http://a.b/c" + term, "\x1b]8;id=1;http://x" + term, "\x1b]8;;" + term, "\x1b]8;a=b:c=d;file:///t;x" + term, "\x1b]8;;u" + term}
	return c11Item{T: 3, Hex: tohex(Pick(r, alts))}
}

func c11GenState(r *RNG) *c11State {
	if r.Chance(2, 5) {
		return nil
	}
	col := func() int {
		return Pick(r, []int{-1, -1, 0, 1, 7, 8, 15, 16, 196, 255, 1<<24 | 0x102030, 1<<24 | 0xffffff, 1 << 24})
	}
	st := &c11State{Fg: col(), Bg: col(), Attr: 0, Lbg: -1}
	for _, b := range []int{1, 2, 4, 8, 16, 64, 128} {
		if r.Chance(1, 4) {
			st.Attr |= b
		}
	}
	if r.Chance(1, 6) {
		st.Lbg = Pick(r, []int{0, 4, 196})
	}
	if r.Chance(1, 5) {
		st.URL = []string{tohex("http://u"), tohex(Pick(r, []string{"", "id=7"}))}
	}
	if st.Fg == -1 && st.Bg == -1 && st.Attr == 0 && st.Lbg < 0 && st.URL == nil {
		st.Fg = 2 // a carried state is always a coloured one (extractColor returns nil otherwise)
	}
	return st
}

func c11GenInter(r *RNG, allowOdd bool) c11Case { return c11GenInterX(r, allowOdd, false) }

// xs: one SGR in three has omitted parameters / sub-parameters (c11GenXSgr)
func c11GenInterX(r *RNG, allowOdd, xs bool) c11Case {
	cs := c11Case{Kind: "inter", State: c11GenState(r)}
	n := r.Range(1, 9)
	closeForm := false // previous item was the bare OSC-8 close form ESC ]8;;ESC (a following '\' would belong to it)
	for i := 0; i < n; i++ {
		k := r.Intn(12)
		if closeForm && k < 4 {
			t := c11GenText(r)
			for strings.HasPrefix(t, "\\") {
				t = "a" + t
			}
			cs.Items = append(cs.Items, c11Item{T: 0, Hex: tohex(t)})
			closeForm = false
			continue
		}
		closeForm = false
		switch {
		case k < 4:
			cs.Items = append(cs.Items, c11Item{T: 0, Hex: tohex(c11GenText(r))})
		case k < 8:
			if xs && r.Chance(1, 3) {
				cs.Items = append(cs.Items, c11GenXSgr(r))
			} else {
				cs.Items = append(cs.Items, c11GenSgr(r))
			}
		case k == 8:
			cs.Items = append(cs.Items, c11GenOther(r))
		case k == 9:
			it := c11GenOsc8(r)
			if r.Chance(1, 5) && i == n-1 {
				it = c11Item{T: 3, Hex: tohex("\x1b]8;;\x1b")}
				closeForm = true
			}
			cs.Items = append(cs.Items, it)
		case k == 10:
			ch := Pick(r, []string{"a", "_", "é", "日", " ", "😀", "\t"})
			cs.Items = append(cs.Items, c11Item{T: 4, Hex: tohex(ch + "\x08")})
		default:
			if allowOdd {
				cs.Items = append(cs.Items, c11GenOddSgr(r))
			} else {
				cs.Items = append(cs.Items, c11GenSgr(r))
			}
		}
	}
	return cs
}

var c11Alpha = []byte{0x1b, 0x1b, 0x1b, '[', '[', ']', ']', '(', ')', '\\', '0', '1', '8', '9', ';', ';', ':', '?', 'm', 'm', 'K', 'A', 'z', '@',
	0x07, 0x08, 0x08, 0x0e, 0x0f, '\n', ' ', 'a', 0x7f, 0x1f, 0x80, 0xbf, 0xc3, 0xa9, 0xe2, 0x82, 0xac, 0xf0, 0x9f, 0x98, 0x80, 0xff, 0xed, 0xa0, 0xc0, 0xf4, 0x90, 0x00}

func c11GenBytes(r *RNG) c11Case {
	var b []byte
	switch r.Intn(4) {
	case 0, 1: // soup over a control-heavy alphabet
		n := r.Range(0, 14)
		if r.Chance(1, 10) {
			n = r.Range(15, 60)
		}
		for i := 0; i < n; i++ {
			b = append(b, Pick(r, c11Alpha))
		}
	case 2: // a generated stream with a few bytes damaged
		b = []byte(c11Render(c11GenInter(r, true).Items))
		m := r.Range(1, 3)
		for i := 0; i < m && len(b) > 0; i++ {
			p := r.Intn(len(b))
			switch r.Intn(3) {
			case 0:
				b = append(b[:p], b[p+1:]...)
			case 1:
				b[p] = Pick(r, c11Alpha)
			default:
				b = append(b[:p], append([]byte{Pick(r, c11Alpha)}, b[p:]...)...)
			}
		}
	default: // truncated stream
		b = []byte(c11Render(c11GenInter(r, true).Items))
		if len(b) > 0 {
			b = b[:r.Intn(len(b)+1)]
		}
	}
	return c11Case{Kind: "bytes", Hex: hex.EncodeToString(b), State: c11GenState(r)}
}

func c11GenUtf8(r *RNG) c11Case {
	al := []byte{0x00, 'a', 0x7f, 0x80, 0x8f, 0x90, 0x9f, 0xa0, 0xbf, 0xc0, 0xc1, 0xc2, 0xdf, 0xe0, 0xe1, 0xec, 0xed, 0xee, 0xef, 0xf0, 0xf1, 0xf3, 0xf4, 0xf5, 0xff}
	n := r.Range(0, 6)
	b := make([]byte, n)
	for i := range b {
		b[i] = Pick(r, al)
	}
	return c11Case{Kind: "utf8", Hex: hex.EncodeToString(b)}
}

func c11GenProc(r *RNG, nlines int) c11Case {
	cs := c11Case{Kind: "proc", Color: r.Bool()}
	for i := 0; i < nlines; i++ {
		var s string
		if r.Chance(3, 4) {
			s = c11Render(c11GenInter(r, true).Items)
		} else {
			s = unhex(c11GenBytes(r).Hex)
		}
		// one record per line, whole UTF-8, no NUL/CR (reader and Chars would transform those: not this property)
		s = strings.NewReplacer("\n", "", "\r", "", "\x00", "").Replace(s)
		if !utf8.ValidString(s) {
			s = strings.ToValidUTF8(s, "?")
		}
		cs.Lines = append(cs.Lines, tohex(s))
	}
	return cs
}

func runC11(c *Ctx) {
	c.Rep.Rule = "byte strings: (i) arbitrary bytes over a control-heavy alphabet, damaged and truncated streams; (ii) grammar-generated interleavings of text, well-formed SGR (256-colour, 24-bit in the ';' form and in the ':' sub-parameter forms 38:5:n / 38:2:r:g:b / 38:2::r:g:b after plain parameters, resets incl. all-omitted parameters), OSC-8 with BEL/ST, other CSI/OSC/ESC-x/SO/SI, c-BS pairs, with and without a carried state; (iii) single SGR sequences in and outside the documented domain; (iv) UTF-8 helper model; (v) fzf --ansi -f '' processes; (vi) the fzf process in a pseudo terminal, every character of every list row with its colour and attributes: several lines with states running from line to line, and one line under --with-nth (field lists, ranges, negative numbers, default and literal delimiters) with states opened, changed and switched off in shown and hidden fields; (vii) ansiState.ToString on states of the whole colour/attribute domain. non-trivial = something was stripped / more than one item; distinct by JSON of the case"
	if c.Replay != "" {
		var cs c11Case
		b, err := os.ReadFile(c.Replay)
		if err == nil {
			var w struct{ Input c11Case }
			if json.Unmarshal(b, &w) == nil && w.Input.Kind != "" {
				cs = w.Input
			} else {
				json.Unmarshal(b, &cs)
			}
		}
		c11Check(c, cs)
		return
	}
	for _, f := range corpusFiles(c) {
		var cs c11Case
		b, _ := os.ReadFile(f)
		if json.Unmarshal(b, &cs) == nil && cs.Kind != "" {
			c11Check(c, cs)
			c.Rep.Count("corpus")
		}
	}
	parallel(c, c.N(10000, 200000), func(i int, r *RNG) { c11Check(c, c11GenInter(r, r.Chance(1, 4))) })
	parallel(c, c.N(6000, 150000), func(i int, r *RNG) {
		it := c11GenSgr(r)
		if r.Chance(1, 3) {
			it = c11GenOddSgr(r)
		}
		c11Check(c, c11Case{Kind: "sgr", Items: []c11Item{it}, State: c11GenState(r)})
	})
	parallel(c, c.N(3000, 100000), func(i int, r *RNG) { c11Check(c, c11GenUtf8(r)) })
	parallel(c, c.N(12000, 300000), func(i int, r *RNG) { c11Check(c, c11GenBytes(r)) })
	np := c.N(6, 60)
	if c.Scale > 1 {
		np = 12
	}
	for i := 0; i < np; i++ {
		c11Check(c, c11GenProc(c.Rng, 200))
	}
	// (added last so that the streams above keep their per-seed cases)
	// omitted parameters and the sub-parameter (':') forms of the extended colours: single sequences, then streams
	parallel(c, c.N(2000, 50000), func(i int, r *RNG) {
		c11Check(c, c11Case{Kind: "sgr", Items: []c11Item{c11GenXSgr(r)}, State: c11GenState(r)})
	})
	parallel(c, c.N(3000, 60000), func(i int, r *RNG) { c11Check(c, c11GenInterX(r, r.Chance(1, 8), true)) })
	// what reaches the screen (c11disp.go): lines and --with-nth fields in a pseudo terminal; ansiState.ToString
	parallel(c, c.N(3000, 60000), func(i int, r *RNG) { c11Check(c, c11GenToStr(r)) })
	parallel(c, c.N(400, 5000), func(i int, r *RNG) { c11Check(c, c11GenDisp(r)) })
}

func init() { runners["C11"] = runC11 }
