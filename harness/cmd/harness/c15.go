package main

// C15 — the screen shows the actual state.
// Runs the real fzf under a pty (pty.go) in the plain configuration, drives it with random action histories
// through --listen, interprets the terminal byte stream (pty_c15.go) and after EVERY step
//   (spec) evaluates RenderSpec.check_faithful (op 1504) on the captured screen and the state reported by GET /
//   (corr) compares the screen with the extracted RenderModel.render (op 1502) of that state; at the end of a
//          session the whole history is replayed through the incremental-redraw machine (op 1503) as well.
// The scroll offset is not reported by GET; it is tracked with the extracted constrain (op 1501), one call per step
// (one action list = one render).  Arbitrary-Unicode lists: only the width bound and the prompt/info/header rows.
// The header is part of the state although GET / does not report it: header actions (toggle-header, hide-header,
// show-header, change-header, transform-header) are tracked from what the harness sends (c15hdr.go), every screen is
// judged against the configuration of ITS step, and histories with header actions go through the dynamic-header
// machine (op 1508, RenderDynModel) instead of op 1503.

import (
	"encoding/json"
	"fmt"
	"os"
	"os/exec"
	"regexp"
	"strconv"
	"strings"
	"sync"
	"sync/atomic"
	"time"
)

type c15Case struct {
	W       int      `json:"w"`
	H       int      `json:"h"`
	Layout  int      `json:"layout"` // 0 default, 1 reverse, 2 reverse-list
	Info    int      `json:"info"`   // 0 default, 1 inline, 2 hidden, 3 inline-right
	Prompt  string   `json:"prompt,omitempty"` // --prompt ("" = default "> ")
	Sep     bool     `json:"sep"`
	Header  []string `json:"header"`
	HLines  int      `json:"hlines"`
	Multi   int      `json:"multi"` // 0 off, -1 unlimited, k limit
	HScroll bool     `json:"hscroll"`
	Unicode bool     `json:"unicode"` // arbitrary Unicode list: width bound only
	Tabstop  int    `json:"tabstop,omitempty"`  // --tabstop (0 = default 8); items may contain TABs
	Ansi     bool   `json:"ansi,omitempty"`     // --ansi: items carry SGR sequences (colour offsets without a query)
	Wrap     bool   `json:"wrap,omitempty"`     // --wrap: long items take several rows
	WrapSign string `json:"wrap_sign,omitempty"`
	Read0    bool   `json:"read0,omitempty"`    // --read0: items may contain newlines (multi-line items)
	Ghost    string `json:"ghost,omitempty"`    // --ghost: text shown in the place of an empty query (c15ghost.go)
	Lines   []string `json:"lines"`
	Actions []string `json:"actions"`
}

var c15Layouts = []string{"default", "reverse", "reverse-list"}
var c15Infos = []string{"default", "inline", "hidden", "inline-right"}

func (cs *c15Case) args() []string {
	a := []string{"--no-unicode", "--no-color", "--no-scrollbar", "--no-mouse",
		"--layout=" + c15Layouts[cs.Layout], "--info=" + c15Infos[cs.Info]}
	if !cs.HScroll {
		a = append(a, "--no-hscroll")
	}
	if cs.Prompt != "" {
		a = append(a, "--prompt="+cs.Prompt)
	}
	if cs.Tabstop > 0 {
		a = append(a, "--tabstop="+strconv.Itoa(cs.Tabstop))
	}
	if cs.Ansi {
		a = append(a, "--ansi")
	}
	if cs.Wrap {
		a = append(a, "--wrap", "--wrap-sign="+cs.WrapSign)
	}
	if cs.Read0 {
		a = append(a, "--read0")
	}
	if cs.Ghost != "" {
		a = append(a, "--ghost="+cs.Ghost)
	}
	if !cs.Sep {
		a = append(a, "--no-separator")
	}
	if len(cs.Header) > 0 {
		a = append(a, "--header="+strings.Join(cs.Header, "\n"))
	}
	if cs.HLines > 0 {
		a = append(a, "--header-lines="+strconv.Itoa(cs.HLines))
	}
	if cs.Multi < 0 {
		a = append(a, "--multi")
	} else if cs.Multi > 0 {
		a = append(a, "--multi="+strconv.Itoa(cs.Multi))
	}
	return a
}


func (cs *c15Case) cfgVal() Val { return cs.cfgValH(cs.Header, cs.HLines) }

// hdrVals: the --header lines and the first nhl --header-lines lines as the model takes them
func (cs *c15Case) hdrVals(header []string, nhl int) (Val, Val) {
	hdr := []Val{}
	for _, h := range header {
		hdr = append(hdr, runesVal(h))
	}
	hl := []Val{}
	texts := cs.texts()
	for i := 0; i < nhl && i < len(texts); i++ {
		hl = append(hl, runesVal(texts[i]))
	}
	return L(hdr...), L(hl...)
}

// cfgValH: the configuration with the header as it stands at some point of the history (see c15hdr.go)
func (cs *c15Case) cfgValH(header []string, nhl int) Val {
	hdr, hl := cs.hdrVals(header, nhl)
	multi := cs.Multi
	if multi < 0 {
		multi = 2147483647
	}
	ts := cs.Tabstop
	if ts <= 0 {
		ts = 8
	}
	return L(I(cs.W), I(cs.H), I(cs.Layout), I(cs.Info), B(cs.Sep), hdr, hl, I(multi), I(ts))
}

var c15SGR = regexp.MustCompile("\x1b\\[[0-9;]*m")

// texts: the items as fzf shows them (SGR sequences removed under --ansi)
func (cs *c15Case) texts() []string {
	if !cs.Ansi {
		return cs.Lines
	}
	out := make([]string, len(cs.Lines))
	for i, l := range cs.Lines {
		out[i] = c15SGR.ReplaceAllString(l, "")
	}
	return out
}

// mrows: items may take several rows (outside RenderModel: judged by RenderSpec.check_mrows, op 1506)
func (cs *c15Case) mrows() bool { return cs.Wrap || cs.Read0 }

// exact: the whole screen is compared with the extracted render
func (cs *c15Case) exact() bool { return !cs.Unicode && !cs.mrows() }

func (cs *c15Case) modeVal() Val {
	return L(B(cs.Wrap), B(cs.Read0), runesVal(cs.WrapSign), L(I('.'), I('|'), I('\'')))
}

func (cs *c15Case) stdin() []byte {
	sep := "\n"
	if cs.Read0 {
		sep = "\x00"
	}
	var b strings.Builder
	for _, l := range cs.Lines {
		b.WriteString(l)
		b.WriteString(sep)
	}
	return []byte(b.String())
}

func (cs *c15Case) promptLines() int {
	if cs.Info == 1 || (cs.Info >= 2 && !cs.Sep) {
		return 1
	}
	return 2
}
func (cs *c15Case) maxItems() int { return cs.maxItemsH(len(cs.Header), cs.HLines) }
func (cs *c15Case) maxItemsH(nheader, nhl int) int {
	return max(cs.H-nheader-nhl-cs.promptLines(), 0)
}

// c15In: what the input area holds besides the query GET / reports (tracked from the actions sent)
type c15In struct {
	prompt string
	ghost  string
	cx     int // cursor inside the query, -1: not known
}

func c15View(st *FzfState, cy, off int, in c15In) Val {
	prompt := in.prompt
	ms := make([]Val, len(st.Matches))
	for i, m := range st.Matches {
		ms[i] = L(I(m.Index), runesVal(m.Text))
	}
	sel := make([]Val, len(st.Selected))
	for i, m := range st.Selected {
		sel[i] = I(m.Index)
	}
	// [7] ghost text, [8] cursor: read by ops 1509 / 1510 only
	return L(runesVal(st.Query), L(ms...), I(st.TotalCount), I(cy), I(off), L(sel...), runesVal(prompt), runesVal(in.ghost), I(max(in.cx, 0)))
}

func valRows(v Val) []string {
	out := make([]string, len(v.L))
	for i, r := range v.L {
		out[i] = strings.TrimRight(r.RuneStr(), " ")
	}
	return out
}

func rowsVal(rows []string) Val {
	vs := make([]Val, len(rows))
	for i, r := range rows {
		vs[i] = runesVal(r)
	}
	return L(vs...)
}

func c15Clause(code int) string {
	switch {
	case code == 1:
		return "faithful.height"
	case code == 2:
		return "faithful.prompt_row"
	case code == 3:
		return "faithful.info_row"
	case code == 6:
		return "multi_row_items(every row of a wrapped / multi-line item shows its item's text and nothing else)"
	case code == 4:
		return "info_visible(the matched/total counter is on the row the info style dictates)"
	case code == 7:
		return "faithful.prompt_row(the prompt row shows the current query)"
	case code >= 100 && code < 1000:
		return fmt.Sprintf("rows_faithful/pointer_marker_exact(slot %d)", code-100)
	case code >= 1000 && code < 2000:
		return fmt.Sprintf("header_not_in_list(--header line %d)", code-1000)
	case code >= 2000 && code < 5000:
		return fmt.Sprintf("header_not_in_list(--header-lines line %d)", code-2000)
	default:
		return fmt.Sprintf("width_bound(row %d)", code-5000)
	}
}

// subsequence match, the lists of the exact stream are lower-case so that fuzzy matching is just this
func c15Subseq(q, line string) bool {
	qr := []rune(q)
	if len(qr) == 0 {
		return true
	}
	k := 0
	for _, ch := range line {
		switch ch { // fzf normalises accents by default
		case 'é':
			ch = 'e'
		case 'ü':
			ch = 'u'
		case 'ñ':
			ch = 'n'
		case 'ø':
			ch = 'o'
		}
		if ch == qr[k] {
			k++
			if k == len(qr) {
				return true
			}
		}
	}
	return false
}

func (cs *c15Case) expectCount(q string) int {
	n := 0
	texts := cs.texts()
	for i := cs.HLines; i < len(texts); i++ {
		if c15Subseq(q, texts[i]) {
			n++
		}
	}
	return n
}

// effect of an action list on the query (only the query-changing actions the generator uses)
func c15Query(q string, actions string) string {
	q2, _ := c15Edit(q, len([]rune(q)), actions) // c15ghost.go; edits at the end of the query
	return q2
}

// the prompt string after an action list (change-prompt)
func c15Prompt(p string, actions string) string {
	for _, a := range strings.Split(actions, "+") {
		if strings.HasPrefix(a, "change-prompt(") && strings.HasSuffix(a, ")") {
			p = a[14 : len(a)-1]
		}
	}
	return p
}

type c15Failure struct {
	Step   int
	Kind   string
	Name   string
	Impl   interface{}
	Expect interface{}
	Known  string
}

var c15Timeout = 10 * time.Second

// c15RunOnce runs one session; returns the first failure (nil if none), the number of steps compared and an
// infrastructure error (session could not be started / died), which is not a verdict about the property.
func c15RunOnce(c *Ctx, cs *c15Case, count bool, timeout time.Duration) (*c15Failure, int, error) {
	s, err := StartSession(c, SessionOpts{Args: cs.args(), Stdin: cs.stdin(), Cols: cs.W, Rows: cs.H})
	if err != nil {
		return nil, 0, err
	}
	defer s.Close()
	vt := newVT(cs.W, cs.H)
	cfg := cs.cfgVal()
	cfg0 := cfg
	mode := cs.modeVal()
	maxl := cs.maxItems()
	// the header as the actions sent so far leave it (GET / does not report it): every screen is judged against
	// the configuration of its own step
	hdr := newC15Hdr(cs)
	dyn := false // some step changed the header: the history is replayed through the dynamic-header machine (op 1508)
	total := len(cs.Lines) - cs.HLines
	off := 0
	query := ""
	cx := 0
	ghost := cs.Ghost
	// sessions with a ghost text: the spec and the render that know about it (ops 1509 / 1510)
	ghostMode := cs.ghostMode()
	opSpec, opRender := 1504, 1502
	if ghostMode {
		opSpec, opRender = 1509, 1510
	}
	prompt := cs.Prompt
	if prompt == "" {
		prompt = "> "
	}
	type hist struct {
		view Val // [query, matches, total, cy(raw), sel]
		rows []string
		hdr  Val // [visible, [--header lines], [--header-lines lines]] after the step
	}
	var history []hist
	steps := 0
	// the dynamic-header machine (op 1508) on the steps compared so far plus, when cur is given, the current one:
	// one [cy, off, rows] per step
	machine := func(cur *hist) Val {
		hs := history
		if cur != nil {
			hs = append(append([]hist{}, history...), *cur)
		}
		if len(hs) == 0 {
			return L()
		}
		h0 := hs[0].view
		v0 := L(h0.L[0], h0.L[1], h0.L[2], h0.L[3], I(0), h0.L[4], h0.L[6])
		ds := []Val{}
		for _, h := range hs[1:] {
			ds = append(ds, L(h.hdr, h.view))
		}
		return c.Model.Call(1508, L(cfg0, hs[0].hdr, v0, L(ds...)))
	}
	// known finding reverse-list-header-remnant: in the reverse-list layout (header inside the list window) the
	// faithful incremental model itself leaves header text in list rows when the header goes away.  A failing
	// screen is that finding exactly when it is the screen the model predicts for this history.
	remnantDomain := cs.exact() && cs.Layout == 2 && cs.HLines == 0
	for step := -1; step < len(cs.Actions); step++ {
		if step >= 0 {
			act := cs.Actions[step]
			if err := s.PostSync(act); err != nil {
				if s.Crash() != "" {
					return &c15Failure{Step: step, Kind: "spec", Name: "no_crash", Impl: s.Crash(), Expect: "no panic"}, steps, nil
				}
				return nil, steps, fmt.Errorf("post %q: %v", act, err)
			}
			query, cx = c15Edit(query, cx, act)
			prompt = c15Prompt(prompt, act)
			ghost = c15Ghost(ghost, act)
			if c15HasHeaderAction(act) {
				hdr.apply(act)
				dyn = true
				cfg = cs.cfgValH(hdr.header(), hdr.hlines(cs))
				maxl = cs.maxItemsH(len(hdr.header()), hdr.hlines(cs))
			}
		}
		hdrStep := step >= 0 && c15HasHeaderAction(cs.Actions[step])
		var pos, cy, noff int
		var view Val
		var wantRows []string
		var rows []string
		curHist := func() *hist {
			hh, hl := cs.hdrVals(hdr.Lines, cs.HLines)
			return &hist{view: L(view.L[0], view.L[1], view.L[2], I(pos), view.L[5], L(B(true), B(true), B(hdrStep), B(true), B(false)), view.L[6]),
				hdr: L(B(hdr.Visible), hh, hl)}
		}
		var predicted []string // the machine's screen for this step (remnantDomain only), computed on demand
		isRemnant := func() bool {
			if !remnantDomain || !dyn || len(history) == 0 || rows == nil || wantRows == nil {
				return false
			}
			if predicted == nil {
				res := machine(curHist())
				if len(res.L) != len(history)+1 || len(res.L[len(history)].L) != 3 {
					return false
				}
				predicted = valRows(res.L[len(history)].L[2])
			}
			same, faithful := len(predicted) == len(rows), true
			for r := range rows {
				if r >= len(predicted) || rows[r] != predicted[r] {
					same = false
				}
				if r >= len(wantRows) || rows[r] != wantRows[r] {
					faithful = false
				}
			}
			return same && !faithful
		}
		want := -1
		if !cs.Unicode {
			want = cs.expectCount(query)
		}
		var st *FzfState
		// the screen is faithful to the header the windows of the reverse-list layout still show (hdr.stale())
		isStaleHeader := func() bool {
			if !hdr.stale() || st == nil || rows == nil {
				return false
			}
			sh, snl := hdr.shown(cs)
			co := c.Model.Call(1501, L(I(st.MatchCount), I(cs.maxItemsH(len(sh), snl)), I(3), I(pos), I(off)))
			if len(co.L) != 2 {
				return false
			}
			v2 := c15View(st, int(co.L[0].I), int(co.L[1].I), c15In{prompt, ghost, cx})
			for _, x := range c.Model.Call(opSpec, L(cs.cfgValH(sh, snl), v2, rowsVal(rows))).L {
				code := int(x.I)
				if !cs.exact() && (code >= 100 && code < 1000 || code >= 2000 && code < 5000) {
					continue
				}
				return false
			}
			return true
		}
		_ = mode
		var ok bool
		st, ok = s.WaitFor(func(st *FzfState) bool {
			return !st.Reading && st.TotalCount == total && st.Query == query && (want < 0 || st.MatchCount == want) &&
				len(st.Matches) == st.MatchCount
		}, timeout)
		if !ok || st == nil {
			if s.Crash() != "" {
				return &c15Failure{Step: step, Kind: "spec", Name: "no_crash", Impl: s.Crash(), Expect: "no panic"}, steps, nil
			}
			got := "nil"
			if st != nil {
				got = fmt.Sprintf("reading=%v total=%d query=%q matchCount=%d", st.Reading, st.TotalCount, st.Query, st.MatchCount)
			}
			return &c15Failure{Step: step, Kind: "corr", Name: "corr:C15.state_reached", Impl: got,
				Expect: fmt.Sprintf("total=%d query=%q matchCount=%d", total, query, want)}, steps, nil
		}
		var modelErr error
		expect := func() {
			pos = max(st.Position, 0)
			if cs.mrows() { // the scroll offset of multi-row lists is not tracked: the spec asks for SOME offset
				cy, noff = min(pos, max(st.MatchCount-1, 0)), 0
				view = c15View(st, cy, 0, c15In{prompt, ghost, cx})
				return
			}
			co := c.Model.Call(1501, L(I(st.MatchCount), I(maxl), I(3), I(pos), I(off)))
			if len(co.L) != 2 {
				modelErr = fmt.Errorf("model constrain: %s", co.String())
				return
			}
			cy, noff = int(co.L[0].I), int(co.L[1].I)
			view = c15View(st, cy, noff, c15In{prompt, ghost, cx})
			if cs.exact() {
				wantRows = valRows(c.Model.Call(opRender, L(cfg, view)))
			}
		}
		expect()
		if modelErr != nil {
			return nil, steps, modelErr
		}
		// clauses of the spec that fail on the current screen (Unicode lists: text of list rows is not compared,
		// the width is judged by the terminal's own column count)
		var widths []int
		var bad []int
		var judgeNow func() bool
		var mrowsInfo []int
		judged, judgedOK := -1, false
		judge := func() bool {
			vt.Sync(s)
			if !cs.exact() && judged == vt.consumed { // nothing new on the terminal since the last look
				return judgedOK
			}
			ok := judgeNow()
			judged, judgedOK = vt.consumed, ok
			return ok
		}
		judgeNow = func() bool {
			rows, widths = vt.Rows()
			if cs.Read0 {
				for r := range rows { // a cut multi-line item ends with the line-feed glyph: not part of the text
					rows[r] = strings.TrimSuffix(rows[r], "\u240a")
				}
			}
			bad = nil
			if cs.exact() {
				for r := range rows {
					if r >= len(wantRows) || rows[r] != wantRows[r] {
						return false
					}
				}
				return true
			}
			fv := c.Model.Call(opSpec, L(cfg, view, rowsVal(rows)))
			for _, x := range fv.L {
				code := int(x.I)
				if code >= 100 && code < 1000 || code >= 2000 {
					continue
				}
				bad = append(bad, code)
			}
			if cs.mrows() {
				mv := c.Model.Call(1506, L(cfg, mode, view, rowsVal(rows)))
				if len(mv.L) > 0 {
					bad = append(bad, 6)
					mrowsInfo = mv.IntList()
				}
			}
			for r, w := range widths {
				if w > cs.W {
					bad = append(bad, 5000+r)
				}
			}
			return len(bad) == 0
		}
		// eventually-equal: the render goroutine may be a frame behind the event loop, and the result list of a
		// new query may arrive after GET answered with the old one (same counts): look again at both
		deadline := time.Now().Add(timeout)
		remnantSeen := 0
		for i := 0; ; i++ {
			if judge() || time.Now().After(deadline) || s.Exited() {
				break
			}
			if (remnantDomain && dyn || hdr.stale()) && i >= 30 && i%10 == 0 {
				// the screen the classifier of a known finding predicts, seen three times 100 ms apart: no need to wait
				if isRemnant() || isStaleHeader() {
					remnantSeen++
					if remnantSeen >= 3 {
						break
					}
				} else {
					remnantSeen = 0
				}
			}
			if vt.Overflow > 0 && time.Now().Add(timeout).After(deadline.Add(500*time.Millisecond)) {
				break // printed past the last column: reported at once (half a second to let the frame finish, for the report)
			}
			if i < 20 {
				time.Sleep(time.Millisecond)
			} else {
				time.Sleep(10 * time.Millisecond)
			}
			if i >= 10 && i%5 == 0 {
				if st2, err := s.Get(); err == nil && !st2.Reading && st2.TotalCount == total && st2.Query == query &&
					(want < 0 || st2.MatchCount == want) && len(st2.Matches) == st2.MatchCount {
					st = st2
					judged = -1
					predicted = nil
					expect()
					if modelErr != nil {
						return nil, steps, modelErr
					}
				}
			}
		}
		if cs.Unicode && len(bad) == 0 {
			// a frame that is still being drawn could hide an over-wide row: look once more when the stream is quiet
			for i := 0; i < 20; i++ {
				time.Sleep(2 * time.Millisecond)
				before := vt.consumed
				vt.Sync(s)
				if vt.consumed == before {
					break
				}
			}
			judge()
		}
		steps++
		if s.Crash() != "" {
			return &c15Failure{Step: step, Kind: "spec", Name: "no_crash", Impl: s.Crash(), Expect: "no panic"}, steps, nil
		}
		// ---- (5a) spec on the implementation's screen ----
		if count {
			c.Rep.mu.Lock()
			c.Rep.SpecChecks++
			c.Rep.mu.Unlock()
		}
		// width bound, straight from the terminal: nothing was printed past the last column, and the last
		// column of every row stays blank except on the info/separator rows (they may fill the row)
		overflowFailure := func() *c15Failure {
			return &c15Failure{Step: step, Kind: "spec", Name: "width_bound(printed past the last column)",
				Impl: map[string]interface{}{"overflow_events": vt.Overflow, "rows": rows}, Expect: "0"}
		}
		if vt.Overflow > 0 && !cs.exact() {
			return overflowFailure(), steps, nil
		}
		if cs.exact() {
			fv := c.Model.Call(opSpec, L(cfg, view, rowsVal(rows)))
			bad = nil
			for _, x := range fv.L {
				bad = append(bad, int(x.I))
			}
			for r, w := range widths {
				if w > cs.W {
					bad = append(bad, 5000+r)
				}
			}
		}
		if len(bad) == 0 && vt.Overflow > 0 {
			return overflowFailure(), steps, nil
		}
		if len(bad) > 0 {
			f := &c15Failure{Step: step, Kind: "spec", Name: c15Clause(bad[0]),
				Impl: map[string]interface{}{"screen": rows, "failing_clauses": bad, "state": c15StateBrief(st, cy, noff),
					"printed_past_last_column": vt.Overflow}}
			if cs.exact() {
				f.Expect = wantRows
			} else if bad[0] == 6 && len(mrowsInfo) == 3 {
				// what the list rows should show for the scroll offset that explains most of the screen
				v2 := c15View(st, cy, mrowsInfo[1], c15In{prompt, ghost, cx})
				exp := map[string]string{}
				for _, e := range c.Model.Call(1507, L(cfg, mode, v2)).L {
					if len(e.L) == 2 {
						exp[fmt.Sprintf("row %02d", e.L[0].I)] = strings.TrimRight(e.L[1].RuneStr(), " ")
					}
				}
				f.Expect = map[string]interface{}{"best_offset": mrowsInfo[1], "rows_that_differ": mrowsInfo[2], "list_rows": exp}
			} else if len(bad) == 1 && (bad[0] == 2 || bad[0] == 3) {
				// prompt and info rows do not depend on the width of the list texts: the model's rows classify
				wantRows = valRows(c.Model.Call(opRender, L(cfg, view)))
			}
			// known finding: stale characters after a shortened info text that fills the row (see KNOWN_FINDINGS)
			if k := c15KnownInfoStale(cs, bad, rows, wantRows, st); k != "" {
				f.Known = k
			}
			if f.Known == "" && isRemnant() {
				f.Known = "reverse-list-header-remnant"
			}
			// known finding: reverse-list with --header-lines and no --header - hiding the header resizes nothing
			if f.Known == "" && isStaleHeader() {
				f.Known = "hide-header-keeps-header-lines"
			}
			return f, steps, nil
		}
		// ---- (5b) model vs implementation ----
		if cs.exact() {
			for r := range rows {
				if rows[r] != wantRows[r] {
					return &c15Failure{Step: step, Kind: "corr", Name: "corr:C15.render",
						Impl: map[string]interface{}{"screen": rows, "state": c15StateBrief(st, cy, noff)}, Expect: wantRows}, steps, nil
				}
			}
			ms := view.L[1]
			hh, hl := cs.hdrVals(hdr.Lines, cs.HLines)
			history = append(history, hist{view: L(view.L[0], ms, view.L[2], I(pos), view.L[5], L(B(true), B(true), B(hdrStep), B(true), B(false)), view.L[6]), rows: rows,
				hdr: L(B(hdr.Visible), hh, hl)})
		}
		off = noff
		if count {
			key := fmt.Sprintf("%d %d %d %d %v|%s|%d %d|%s", cs.W, cs.H, cs.Layout, cs.Info, cs.Unicode, st.Query, cy, noff, strings.Join(rows, "\n"))
			c.Rep.Eval(key, st.MatchCount > 0 && step >= 0)
		}
	}
	// the incremental-redraw machine on the whole history (it has no ghost text: RenderGhostModel is a full render)
	if cs.exact() && len(history) > 0 && !ghostMode {
		h0 := history[0].view
		v0 := L(h0.L[0], h0.L[1], h0.L[2], h0.L[3], I(0), h0.L[4], h0.L[6])
		us := []Val{}
		for _, h := range history[1:] {
			us = append(us, h.view)
		}
		var res Val
		switch {
		case !dyn:
			res = c.Model.Call(1503, L(cfg0, v0, L(us...)))
		case cs.Layout == 2 && cs.HLines > 0:
			// reverse-list with --header-lines: the header lives in windows of its own, outside RenderDynModel
			return nil, steps, nil
		default:
			res = machine(nil)
		}
		if len(res.L) != len(history) {
			return &c15Failure{Step: len(cs.Actions) - 1, Kind: "corr", Name: "corr:C15.incremental", Impl: "history of " + strconv.Itoa(len(history)), Expect: res.String()}, steps, nil
		}
		for k, h := range history {
			mr := valRows(res.L[k].L[2])
			for r := range h.rows {
				if r >= len(mr) || mr[r] != h.rows[r] {
					return &c15Failure{Step: k - 1, Kind: "corr", Name: "corr:C15.incremental",
						Impl: map[string]interface{}{"screen": h.rows}, Expect: mr}, steps, nil
				}
			}
		}
	}
	return nil, steps, nil
}

func c15StateBrief(st *FzfState, cy, off int) map[string]interface{} {
	sel := []int{}
	for _, m := range st.Selected {
		sel = append(sel, m.Index)
	}
	return map[string]interface{}{"query": st.Query, "matchCount": st.MatchCount, "totalCount": st.TotalCount,
		"position": st.Position, "cy": cy, "offset": off, "selected": sel}
}

// K-C15-info-stale: printInfoImpl does not clear the info row when a separator is configured; it relies on the
// separator to overwrite the rest of the row, but prints no separator when the text fills the row
// (fillLength <= 0), so characters of a previous longer text stay behind the new one.
// Accept only: the single failing clause is the info (or inline prompt) row, the expected text is a proper
// prefix of what is shown, the separator is on and the shown text reaches the end of the usable width.
func c15KnownInfoStale(cs *c15Case, bad []int, rows, want []string, st *FzfState) string {
	if !cs.Sep || len(bad) != 1 || cs.Info >= 2 || want == nil {
		return ""
	}
	if (cs.Info == 0 && bad[0] != 3) || (cs.Info == 1 && bad[0] != 2) {
		return ""
	}
	// the row that carries the info text
	idx := cs.H - 1
	if cs.Layout == 1 {
		idx = 0
	}
	if cs.Info == 0 {
		idx = cs.H - 2
		if cs.Layout == 1 {
			idx = 1
		}
	}
	if idx < 0 || idx >= len(rows) || idx >= len(want) {
		return ""
	}
	if cs.exact() { // exact stream: nothing else may differ
		for r := range rows {
			if r != idx && rows[r] != want[r] {
				return ""
			}
		}
	}
	if !strings.HasPrefix(rows[idx], want[idx]) || len(rows[idx]) <= len(want[idx]) {
		return ""
	}
	if len([]rune(want[idx])) < cs.W-3 { // fillLength > 0 would have drawn a separator
		return ""
	}
	return "info-stale-tail"
}

// ---- generators ----

func c15Line(r *RNG, w int, uni bool) string {
	var n int
	switch r.Intn(6) {
	case 0:
		n = r.Range(0, 3)
	case 1, 2:
		n = r.Range(max(w-6, 0), w+2) // around the truncation boundary (W-3)
	case 3:
		n = r.Range(w, 2*w+10)
	default:
		n = r.Range(1, max(w-4, 1))
	}
	var sb strings.Builder
	if uni {
		pool := []rune("abc xyz 01-_/.日本語한글中文字テスト🙂🚀éüñßøΩжЮ\u0301\u0308あ。，")
		for i := 0; i < n; i++ {
			sb.WriteRune(pool[r.Intn(len(pool))])
		}
		return sb.String()
	}
	pool := []rune("abcdefghij klmnop_-./:0123456789 ab ae  ")
	if r.Chance(1, 5) {
		pool = append(pool, []rune("éüñßø")...) // width-1 non-ASCII
	}
	for i := 0; i < n; i++ {
		sb.WriteRune(pool[r.Intn(len(pool))])
	}
	return sb.String()
}

func c15Gen(c *Ctx, r *RNG, uni bool) *c15Case {
	cs := &c15Case{Unicode: uni}
	if c.Thorough() {
		switch r.Intn(4) {
		case 0:
			cs.W, cs.H = r.Range(4, 12), r.Range(3, 6)
		case 1:
			cs.W, cs.H = r.Range(120, 200), r.Range(30, 60)
		default:
			cs.W, cs.H = r.Range(8, 120), r.Range(4, 40)
		}
	} else {
		cs.W, cs.H = r.Range(20, 120), r.Range(8, 40)
		if r.Chance(1, 4) {
			cs.W = r.Range(20, 30)
		}
	}
	cs.Layout = r.Intn(3)
	cs.Info = r.Intn(4)
	if cs.Info == 1 && cs.W < 16 { // the inline prefix " < " is cut in narrower windows: outside the model
		cs.Info = Pick(r, []int{0, 2})
	}
	cs.Sep = !r.Chance(1, 5)
	if r.Chance(1, 2) {
		cs.Multi = Pick(r, []int{-1, -1, 1, 2, 3, 10})
	}
	pl := cs.promptLines()
	room := cs.H - pl - 1 // keep at least one list row
	if room > 0 && r.Chance(1, 2) {
		n := r.Range(1, min(room, 3))
		for i := 0; i < n; i++ {
			h := c15Line(r, cs.W, false)
			if strings.TrimSpace(h) == "" {
				h = "hdr" + strconv.Itoa(i)
			}
			cs.Header = append(cs.Header, h)
		}
		room -= n
	}
	maxl := max(cs.H-pl-len(cs.Header), 1)
	var nl int
	switch r.Intn(5) {
	case 0:
		nl = r.Range(0, 3)
	case 1:
		nl = r.Range(max(maxl-2, 0), maxl+2)
	case 2:
		nl = r.Range(3*maxl, 3*maxl+40)
	default:
		nl = r.Range(1, 3*maxl)
	}
	for i := 0; i < nl; i++ {
		cs.Lines = append(cs.Lines, c15Line(r, cs.W, uni))
	}
	if room > 0 && nl > 0 && r.Chance(1, 3) {
		cs.HLines = r.Range(1, min(room, min(3, nl)))
	}
	typing := !uni && r.Chance(2, 3)
	cs.HScroll = !typing && r.Chance(1, 2)
	prompts := []string{"> ", "Q: ", "$ ", ">>> ", "p>"}
	plen := 2
	if cs.W >= 12 {
		plen = 4 // change-prompt may install any of the prompts above
		if r.Chance(1, 3) {
			cs.Prompt = Pick(r, prompts)
		}
	}
	// narrow windows: keep the query inside the prompt row (and the inline info on it)
	maxq := min(5, cs.W-plen-2)
	if cs.Info == 1 {
		maxq = min(maxq, cs.W-18-plen)
	}
	if maxq <= 0 {
		typing = false
	}
	na := r.Range(5, 30)
	if c.Thorough() {
		na = r.Range(5, 60)
	}
	q := ""
	atEnd := true // the cursor is at the end of the query (typed characters go where the cursor is)
	move := []string{"up", "down", "up", "down", "page-up", "page-down", "half-page-up", "half-page-down", "first", "last"}
	selA := []string{"toggle", "toggle+down", "toggle+up", "toggle+down", "select-all", "deselect-all", "toggle-all", "select", "deselect", "clear-selection", "toggle+down+toggle+down"}
	letters := []string{"a", "b", "e", "1", "0", "k", "_", "."}
	// actions that repaint only the prompt line: cursor motion inside a non-empty query, change-prompt
	cursor := []string{"backward-char", "backward-char", "forward-char", "beginning-of-line", "end-of-line", "backward-word", "forward-word"}
	for i := 0; i < na; i++ {
		var a string
		k := r.Intn(12)
		switch {
		case k < 4:
			a = Pick(r, move)
			if r.Chance(1, 4) {
				// first/last/pos run constrain() inside the action, so they may only END an action list:
				// then action-time and render-time constrain see the same (cy, offset) and the harness can
				// track the offset with one constrain per step
				a = Pick(r, move[:8]) + "+" + a
			}
		case k == 4:
			a = "pos(" + strconv.Itoa(r.Range(-nl-2, nl+2)) + ")"
		case k < 7 && cs.Multi != 0:
			a = Pick(r, selA)
		case k < 9 && typing:
			switch r.Intn(6) {
			case 0, 1, 2:
				if len(q) < maxq {
					a = "put(" + Pick(r, letters) + ")"
				} else {
					a = "backward-delete-char"
				}
			case 3:
				a = "backward-delete-char"
			case 4:
				a = "clear-query"
			default:
				a = "change-query(" + Pick(r, letters) + Pick(r, []string{"", "", "1", ".a", "_1"}) + ")"
				if len(c15Query(q, a)) > maxq {
					a = "clear-query"
				}
			}
			if !atEnd && (strings.HasPrefix(a, "put(") || a == "backward-delete-char") {
				a = "end-of-line+" + a
			}
			atEnd = true
			q = c15Query(q, a)
		case k < 11 && typing && q != "" && r.Chance(3, 4):
			a = Pick(r, cursor)
			if r.Chance(1, 5) {
				a += "+" + Pick(r, cursor)
			}
			atEnd = false
		case k < 11 && cs.W >= 12:
			a = "change-prompt(" + Pick(r, prompts) + ")"
		default:
			a = Pick(r, move)
		}
		cs.Actions = append(cs.Actions, a)
	}
	return cs
}

// c15Kind turns a plain exact case into one of the special regions:
//   tabs   items (and header lines) with TABs, --tabstop, and a non-empty query so that highlight offsets precede tabs
//   ansi   --ansi items with SGR-coloured segments (colour offsets without any query), tabs after them
//   wrap   --wrap with lines longer than the window (items take several rows)
//   read0  --read0 multi-line items (sometimes with --wrap)
func c15Kind(cs *c15Case, r *RNG, kind string) {
	if cs.W < 12 || cs.Unicode {
		return
	}
	hasTyping := func() bool {
		for _, a := range cs.Actions {
			if c15Query("", a) != "" {
				return true
			}
		}
		return false
	}
	letters := []rune("abe1abe1kdfgh0._")
	word := func(n int) string {
		var sb strings.Builder
		for i := 0; i < n; i++ {
			sb.WriteRune(letters[r.Intn(len(letters))])
		}
		return sb.String()
	}
	switch kind {
	case "tabs", "ansi":
		cs.HScroll = false
		cs.Tabstop = Pick(r, []int{0, 0, 1, 2, 3, 4, 5, 8, 8, 13})
		for i := range cs.Lines {
			nseg := r.Range(1, 5)
			var sb strings.Builder
			for k := 0; k < nseg; k++ {
				w := word(r.Range(0, 7))
				if kind == "ansi" && r.Chance(1, 2) && w != "" {
					w = "\x1b[" + Pick(r, []string{"31", "1;32", "4", "38;5;200", "7"}) + "m" + w + "\x1b[m"
				}
				sb.WriteString(w)
				if k < nseg-1 {
					if r.Chance(3, 4) {
						sb.WriteByte('\t')
					} else {
						sb.WriteByte(' ')
					}
				}
			}
			if r.Chance(1, 4) { // long: truncation with tabs straddling the cut
				sb.WriteString("\t" + word(cs.W))
			}
			cs.Lines[i] = sb.String()
		}
		if kind == "ansi" {
			cs.Ansi = true
		}
		for i := range cs.Header {
			if r.Chance(1, 2) {
				cs.Header[i] = word(r.Range(1, 4)) + "\t" + cs.Header[i]
			}
		}
		if !hasTyping() && len(cs.Actions) > 0 && cs.W >= 30 {
			cs.Actions[r.Intn(min(3, len(cs.Actions)))] = "change-query(" + Pick(r, []string{"a", "b", "e", "ab", "1"}) + ")"
		}
	case "wrap", "read0":
		cs.HScroll = false
		cs.HLines = 0
		if kind == "wrap" || r.Chance(1, 4) {
			cs.Wrap = true
			cs.WrapSign = Pick(r, []string{"> ", "+ ", "~", ">> ", "| "})
		}
		for i := range cs.Lines {
			if kind == "wrap" {
				switch r.Intn(4) {
				case 0:
					cs.Lines[i] = word(r.Range(0, cs.W-4))
				case 1:
					cs.Lines[i] = word(r.Range(cs.W-5, cs.W-1)) // around one row
				default:
					cs.Lines[i] = word(r.Range(cs.W, 3*cs.W))
				}
			} else {
				nl := r.Range(1, 4)
				parts := []string{}
				for k := 0; k < nl; k++ {
					if r.Chance(1, 5) {
						parts = append(parts, word(r.Range(cs.W, cs.W+20))) // cut with the ellipsis (or wrapped)
					} else {
						parts = append(parts, word(r.Range(0, max(cs.W-8, 1))))
					}
				}
				cs.Lines[i] = strings.Join(parts, "\n")
				cs.Read0 = true
			}
		}
		if kind == "read0" {
			cs.Read0 = true
		}
	}
}

// ---- driver ----

var c15Stop atomic.Bool

// c15Check runs a case, confirms a failure by re-running it (twice) before reporting, and shrinks the action list.
func c15Check(c *Ctx, cs *c15Case) {
	if c15Stop.Load() {
		return
	}
	var f *c15Failure
	var err error
	var steps int
	for attempt := 0; attempt < 3; attempt++ {
		var fa *c15Failure
		fa, steps, err = c15RunOnce(c, cs, attempt == 0, c15Timeout)
		if err != nil {
			continue // infrastructure hiccup (port race, fork failure under load): try again
		}
		if fa == nil {
			f = nil
			break
		}
		f = fa
		if fa.Kind == "spec" && strings.HasPrefix(fa.Name, "width_bound") || fa.Name == "no_crash" {
			break // safety observation: reported at first sight
		}
		if fa.Known == "reverse-list-header-remnant" || fa.Known == "hide-header-keeps-header-lines" {
			break // the screen is exactly the one the classifier predicts: nothing to confirm
		}
	}
	c.Rep.mu.Lock()
	c.Rep.ImplTraces++
	c.Rep.mu.Unlock()
	if err != nil && f == nil {
		c.Rep.Count("session_errors")
		c.Rep.mu.Lock()
		if _, ok := c.Rep.Extra["first_session_error"]; !ok {
			c.Rep.Extra["first_session_error"] = err.Error()
		}
		c.Rep.mu.Unlock()
		return
	}
	c.Rep.CountN("steps_compared", steps)
	c.Rep.Count("layout=" + c15Layouts[cs.Layout])
	c.Rep.Count("info=" + c15Infos[cs.Info])
	c.Rep.Count(fmt.Sprintf("unicode=%v", cs.Unicode))
	if cs.Tabstop > 0 || strings.Contains(strings.Join(cs.Lines, ""), "\t") {
		c.Rep.Count("tabs")
	}
	if cs.Ansi {
		c.Rep.Count("ansi")
	}
	if cs.Wrap {
		c.Rep.Count("wrap")
	}
	if cs.Read0 {
		c.Rep.Count("read0")
	}
	if cs.ghostMode() {
		c.Rep.Count("ghost")
	}
	c.Rep.Count(fmt.Sprintf("header=%d", len(cs.Header)))
	c.Rep.Count(fmt.Sprintf("hlines=%d", cs.HLines))
	if cs.Multi != 0 {
		c.Rep.Count("multi")
	}
	for _, a := range cs.Actions {
		if c15HasHeaderAction(a) {
			c.Rep.Count("header_changes")
			break
		}
	}
	switch {
	case cs.W < 20:
		c.Rep.Count("w<20")
	case cs.W < 40:
		c.Rep.Count("w<40")
	case cs.W < 80:
		c.Rep.Count("w<80")
	default:
		c.Rep.Count("w>=80")
	}
	if f == nil {
		c.Rep.Sample(map[string]interface{}{"w": cs.W, "h": cs.H, "layout": c15Layouts[cs.Layout], "info": c15Infos[cs.Info],
			"lines": len(cs.Lines), "header": len(cs.Header), "hlines": cs.HLines, "multi": cs.Multi, "unicode": cs.Unicode,
			"actions": cs.Actions})
		return
	}
	// shrink: cut the history after the failing step, then drop single actions while the same failure stays
	small := *cs
	if f.Step+1 < len(small.Actions) {
		small.Actions = append([]string{}, small.Actions[:f.Step+1]...)
	}
	if f.Known == "" {
		budget := 12
		for i := 0; i < len(small.Actions) && budget > 0; {
			try := small
			try.Actions = append(append([]string{}, small.Actions[:i]...), small.Actions[i+1:]...)
			budget--
			f2, _, e2 := c15RunOnce(c, &try, false, 3*time.Second)
			if e2 == nil && f2 != nil && f2.Kind == f.Kind && f2.Known == "" && c15SameClass(f2.Name, f.Name) {
				if f2.Step+1 < len(try.Actions) {
					try.Actions = try.Actions[:f2.Step+1]
				}
				small, f = try, f2
			} else {
				i++
			}
		}
	}
	c.Rep.Disagreement(Disagreement{Kind: f.Kind, Name: f.Name, Input: small, Impl: f.Impl, Expect: f.Expect, Known: f.Known})
	if f.Known == "" && c.Rep.NDisagree() >= 3 {
		c15Stop.Store(true)
	}
}

func c15SameClass(a, b string) bool {
	cut := func(s string) string {
		if i := strings.IndexByte(s, '('); i >= 0 {
			return s[:i]
		}
		return s
	}
	return cut(a) == cut(b)
}

// c15TmuxCross: the same command line and actions under tmux; capture-pane must equal the VT interpreter's screen.
// This is a self-check of the harness's screen interpreter on TWO separate fzf processes: a difference counts only
// when it shows in three independent attempts (two processes can legitimately settle in different scroll states).
func c15TmuxCross(c *Ctx, cs *c15Case, id int) {
	for try := 0; try < 3; try++ {
		mine, theirs, done := c15TmuxCrossOnce(c, cs, id*10+try)
		if !done || strings.Join(mine, "\n") == strings.Join(theirs, "\n") {
			if try > 0 && done {
				c.Rep.Count("tmux_cross_check_agreed_on_retry")
			}
			return
		}
		if try == 2 {
			c.Rep.Disagreement(Disagreement{Kind: "corr", Name: "corr:C15.vt_interpreter_vs_tmux", Input: cs, Impl: mine, Expect: theirs})
		}
	}
}

func c15TmuxCrossOnce(c *Ctx, cs *c15Case, id int) (mine, theirs []string, done bool) {
	if _, err := exec.LookPath("tmux"); err != nil {
		c.Rep.Count("tmux_missing")
		return
	}
	// our interpreter's final screen
	s, err := StartSession(c, SessionOpts{Args: cs.args(), Stdin: cs.stdin(), Cols: cs.W, Rows: cs.H})
	if err != nil {
		return
	}
	vt := newVT(cs.W, cs.H)
	// two separate processes are compared, so only actions whose effect does not depend on when the matcher
	// delivers a result are replayed (no typing), and both lists are fully loaded first
	acts := []string{}
	for _, a := range cs.Actions {
		if c15Query("x", a) == "x" {
			acts = append(acts, a)
		}
	}
	total := len(cs.Lines) - cs.HLines
	loaded := func(st *FzfState) bool { return !st.Reading && st.TotalCount == total && len(st.Matches) == total }
	if _, ok := s.WaitFor(loaded, c15Timeout); !ok {
		s.Close()
		return
	}
	for _, a := range acts {
		if s.PostSync(a) != nil {
			s.Close()
			return
		}
	}
	sock := fmt.Sprintf("verif-c15-%d-%d", os.Getpid(), id)
	defer exec.Command("tmux", "-L", sock, "kill-server").Run()
	port := freePort()
	dir, _ := os.MkdirTemp(c.Work, "tmux")
	defer os.RemoveAll(dir)
	os.WriteFile(dir+"/in", cs.stdin(), 0600)
	var sh strings.Builder
	sh.WriteString("#!/bin/sh\nexport FZF_DEFAULT_OPTS= FZF_DEFAULT_COMMAND= TERM=xterm-256color LC_ALL=C.UTF-8\ncd " + shQuote(dir) + "\nexec ")
	sh.WriteString(shQuote(c.Fzf))
	for _, a := range append(cs.args(), "--listen=localhost:"+strconv.Itoa(port)) {
		sh.WriteString(" " + shQuote(a))
	}
	sh.WriteString(" < " + shQuote(dir+"/in") + "\n")
	os.WriteFile(dir+"/run.sh", []byte(sh.String()), 0700)
	if err := exec.Command("tmux", "-L", sock, "-f", "/dev/null", "new-session", "-d", "-x", strconv.Itoa(cs.W), "-y", strconv.Itoa(cs.H), dir+"/run.sh").Run(); err != nil {
		s.Close()
		c.Rep.Count("tmux_start_failed")
		return
	}
	exec.Command("tmux", "-L", sock, "set", "-g", "status", "off").Run()
	t := &Session{Port: port, Dir: dir, done: make(chan struct{}), outEnd: make(chan struct{})}
	okStart := false
	for i := 0; i < 500; i++ {
		if _, err := t.Get(); err == nil {
			okStart = true
			break
		}
		time.Sleep(10 * time.Millisecond)
	}
	if !okStart {
		s.Close()
		c.Rep.Count("tmux_start_failed")
		return
	}
	if _, ok := t.WaitFor(loaded, c15Timeout); !ok {
		s.Close()
		c.Rep.Count("tmux_start_failed")
		return
	}
	for _, a := range acts {
		if t.PostSync(a) != nil {
			s.Close()
			return
		}
	}
	deadline := time.Now().Add(c15Timeout)
	for {
		vt.Sync(s)
		mine, _ = vt.Rows()
		out, _ := exec.Command("tmux", "-L", sock, "capture-pane", "-p").Output()
		theirs = strings.Split(strings.TrimSuffix(string(out), "\n"), "\n")
		for i := range theirs {
			theirs[i] = strings.TrimRight(theirs[i], " ")
		}
		for len(theirs) < cs.H {
			theirs = append(theirs, "")
		}
		if strings.Join(mine, "\n") == strings.Join(theirs, "\n") || time.Now().After(deadline) {
			break
		}
		time.Sleep(20 * time.Millisecond)
	}
	s.Close()
	c.Rep.Count("tmux_cross_checked")
	return mine, theirs, true
}

func shQuote(s string) string { return "'" + strings.ReplaceAll(s, "'", `'\''`) + "'" }

func runC15(c *Ctx) {
	c.Rep.Rule = "one evaluation = one screen compared after a step of a random action history (movement, paging, pos, selection, typing) in a random plain configuration (3 layouts x 3 info styles, separator on/off, --header 0-3, --header-lines 0-3, --multi, window 20x8..120x40 quick / 4x3..200x60 thorough; header actions toggle-header / hide-header / show-header / change-header / transform-header in a third of the sessions, each screen judged against the header of its own step); non-trivial = non-empty result list after at least one action; distinct by configuration + query + scroll position + screen text"
	if c.Replay != "" {
		var cs c15Case
		b, err := os.ReadFile(c.Replay)
		if err == nil {
			var w struct{ Input c15Case }
			if json.Unmarshal(b, &w) == nil && w.Input.W > 0 {
				cs = w.Input
			} else {
				json.Unmarshal(b, &cs)
			}
		}
		if cs.W > 0 {
			c15Check(c, &cs)
		}
		return
	}
	for _, f := range corpusFiles(c) {
		var cs c15Case
		b, _ := os.ReadFile(f)
		if json.Unmarshal(b, &cs) == nil && cs.W > 0 {
			c15Check(c, &cs)
			c.Rep.Count("corpus")
		}
	}
	n := c.N(160, 2000)
	nu := c.N(30, 400)
	cases := make([]*c15Case, 0, n+nu)
	for i := 0; i < n; i++ {
		cs := c15Gen(c, c.Rng.Fork(), false)
		switch i % 8 { // a quarter of the exact sessions exercise tab expansion and colour offsets
		case 3:
			c15Kind(cs, c.Rng.Fork(), "tabs")
		case 7:
			c15Kind(cs, c.Rng.Fork(), Pick(c.Rng, []string{"tabs", "ansi"}))
		case 1: // the header changes now and then in an ordinary history
			c15AddHeaderActions(cs, c.Rng.Fork(), 6, false)
		case 5: // the header comes and goes over short items
			c15KindHdr(cs, c.Rng.Fork())
		}
		if i%16 == 11 { // tabs in items and header lines, and the header changes
			c15AddHeaderActions(cs, c.Rng.Fork(), 5, false)
		}
		if i%16 == 2 || i%16 == 14 { // a ghost text, edits of the query and cursor motions inside it (c15ghost.go)
			c15KindGhost(cs, c.Rng.Fork())
		}
		cases = append(cases, cs)
	}
	for i := 0; i < nu; i++ {
		cs := c15Gen(c, c.Rng.Fork(), true)
		if i%3 == 1 {
			c15AddHeaderActions(cs, c.Rng.Fork(), 5, i%2 == 0)
		}
		if i%5 == 2 && cs.W >= 40 { // the query stays empty in these sessions: the ghost text is on the prompt row throughout
			cs.Ghost = Pick(c.Rng, c15GhostTexts)
		}
		cases = append(cases, cs)
	}
	nh := c.N(24, 300) // sessions made for the header that comes and goes (c15hdr.go)
	for i := 0; i < nh; i++ {
		cs := c15Gen(c, c.Rng.Fork(), false)
		c15KindHdr(cs, c.Rng.Fork())
		cases = append(cases, cs)
	}
	nm := c.N(30, 300) // items that take several rows
	for i := 0; i < nm; i++ {
		cs := c15Gen(c, c.Rng.Fork(), false)
		c15Kind(cs, c.Rng.Fork(), []string{"wrap", "wrap", "read0"}[i%3])
		if i%5 == 3 {
			c15KindGhost(cs, c.Rng.Fork())
		}
		if i%4 == 2 {
			c15AddHeaderActions(cs, c.Rng.Fork(), 5, true)
		}
		cases = append(cases, cs)
	}
	ng := c.N(20, 250) // sessions made for the input area: ghost text, edits at the cursor, cursor motions (c15ghost.go)
	for i := 0; i < ng; i++ {
		cs := c15Gen(c, c.Rng.Fork(), false)
		c15KindGhost(cs, c.Rng.Fork())
		cases = append(cases, cs)
	}
	var wg sync.WaitGroup
	ch := make(chan *c15Case)
	for w := 0; w < 10; w++ {
		wg.Add(1)
		go func() {
			defer wg.Done()
			for cs := range ch {
				c15Check(c, cs)
			}
		}()
	}
	for _, cs := range cases {
		ch <- cs
	}
	close(ch)
	wg.Wait()
	// the terminal interpreter itself against tmux
	nt := c.N(6, 40)
	for i := 0; i < nt && i < len(cases) && !c15Stop.Load(); i++ {
		c15TmuxCross(c, cases[i], i)
	}
}

func init() { runners["C15"] = runC15 }
