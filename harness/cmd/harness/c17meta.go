package main

// C17, metamorphic stream over the WHOLE option vocabulary (also the options outside OptionModel):
// "later occurrences override earlier ones": for an option o whose value replaces the previous one,
//     parse(P ++ [o=v1] ++ [o=v2] ++ S)  ==  parse(P ++ [o=v2] ++ S)
// as complete configurations (canonical dump of every field of Options, hook VerifDumpOptions),
// for random valid contexts P and S — S contains consumers such as a bare --border that read state
// set by o. A difference is a property violation with the two vectors as replay.

import (
	"fmt"
	"regexp"
	"strings"

	fzf "github.com/junegunn/fzf/src"
)

var c17IndexRe = regexp.MustCompile(`index:-?\d+;`)

type c17MetaOpt struct {
	name string
	vals []string
}

var c17MetaTable = []c17MetaOpt{
	{"--style", []string{"default", "minimal", "full", "full:double", "full:sharp", "full:rounded", "full:thinblock"}},
	{"--border", []string{"rounded", "sharp", "double", "none", "horizontal", "bold", "block", "top"}},
	{"--layout", []string{"default", "reverse", "reverse-list"}},
	{"--info", []string{"default", "inline", "hidden", "inline-right", "right", "inline: < "}},
	{"--height", []string{"40%", "~50%", "10", "100%", "-3"}},
	{"--min-height", []string{"5", "10", "3+"}},
	{"--scheme", []string{"default", "path", "history"}},
	{"--tiebreak", []string{"length", "begin,length", "end", "index", "chunk", "pathname,length"}},
	{"--algo", []string{"v1", "v2"}},
	{"--pointer", []string{">", "*", "▌", ""}},
	{"--marker", []string{">", "+", "┃", ""}},
	{"--prompt", []string{"> ", "$ ", ""}},
	{"--tabstop", []string{"4", "8", "2"}},
	{"--scroll-off", []string{"0", "3", "10"}},
	{"--hscroll-off", []string{"0", "5", "20"}},
	{"--margin", []string{"1", "1,2", "5%", "0,1,2,3"}},
	{"--padding", []string{"1", "2,4", "10%"}},
	{"--ellipsis", []string{"..", "…", ""}},
	{"--separator", []string{"-", "=", ""}},
	{"--scrollbar", []string{"|", "▌", "x"}},
	{"--header", []string{"h1", "h2\nh3", ""}},
	{"--header-lines", []string{"0", "1", "2"}},
	{"--tail", []string{"5", "10", "100"}},
	{"--walker", []string{"file", "file,dir", "dir,follow,hidden"}},
	{"--walker-skip", []string{".git", "a,b", "x/y"}},
	{"--with-shell", []string{"sh -c", "bash -c"}},
	{"--preview", []string{"cat {}", "echo {q}", ""}},
	{"--query", []string{"a", "b c", ""}},
	{"--delimiter", []string{",", ":", "[0-9]+"}},
	{"--nth", []string{"1", "2..", "-1", "1,3"}},
	{"--with-nth", []string{"1", "2..", ".."}},
	{"--accept-nth", []string{"1", "2..", "{1}-{n}"}},
	{"--jump-labels", []string{"abc", "xyz123"}},
	{"--gap", []string{"1", "2"}},
	{"--wrap-sign", []string{">", "↳ "}},
	{"--border-label", []string{"a", "b", ""}},
	{"--border-label-pos", []string{"3", "-3:bottom", "0"}},
	{"--preview-label", []string{"p", "q"}},
	{"--preview-label-pos", []string{"2", "-2:bottom"}},
	{"--list-border", []string{"rounded", "sharp", "none"}},
	{"--input-border", []string{"rounded", "double", "none"}},
	{"--header-border", []string{"rounded", "sharp", "none"}},
	{"--preview-border", []string{"rounded", "left", "none"}},
	{"--list-label", []string{"l1", "l2"}},
	{"--input-label", []string{"i1", "i2"}},
	{"--header-label", []string{"x", "y"}},
	{"--history-size", []string{"5", "10", "1000"}},
	{"--multi", []string{"2", "5", "0"}},
	{"--info-command", []string{"echo a", "echo b"}},
	{"--ghost", []string{"type", "search"}},
	{"--marker-multi-line", []string{"╻┃╹", "abc"}},
	{"--gap-line", []string{"-", "="}},
	{"--tmux", []string{"center", "left,40%", "top,30%", "80%,50%", "right,20,border-native", "bottom,100%,10"}},
	// a value that begins with a base scheme replaces the whole theme, so the earlier occurrence leaves no trace
	{"--color", []string{"dark", "light,fg:red", "16,hl:bold:underline", "bw", "dark,fg:regular:blue,bg:-1", "light,hl+:#ff00ff:italic,fg:underline",
		"bw,fg:bold", "16,fg:regular"}},
}

var c17MetaFlags = []string{"--border", "--no-border", "--preview-window=default", "--preview-window=right,40%", "--preview-window=hidden",
	"--reverse", "--no-reverse", "--multi", "--no-multi", "--cycle", "--no-cycle", "--wrap", "--no-wrap", "--ansi", "--no-ansi", "--tac", "--no-tac",
	"--no-sort", "--sort", "--exact", "--no-exact", "--no-extended", "--extended", "--no-mouse", "--no-unicode", "--unicode", "--bold", "--no-bold",
	"--list-border", "--input-border", "--header-border", "--preview-border", "--no-list-border", "--no-input-border", "--no-header-border",
	"--no-preview-border", "--no-separator", "--no-scrollbar", "--no-info", "--inline-info", "--no-height", "--no-margin", "--no-padding",
	"--header-first", "--no-header-first", "--keep-right", "--no-keep-right", "--no-hscroll", "--hscroll", "--track", "--no-track", "--sync",
	"--print-query", "--print0", "--read0", "--select-1", "--exit-0", "--highlight-line", "--no-highlight-line", "--no-preview", "--no-header",
	"--no-header-lines", "--no-tail", "--no-gap", "--gap", "--no-gap-line", "--gap-line", "--filepath-word", "--literal", "--no-literal", "-i", "+i", "--smart-case",
	"--disabled", "--enabled", "--no-input", "--no-clear", "--clear", "--ambidouble", "--no-ambidouble", "--no-list-label", "--no-input-label",
	"--no-header-label", "--no-border-label", "--no-preview-label", "--no-info-command", "--style=full", "--style=minimal", "--style=default",
	"--no-color", "--color=fg:italic,hl:regular", "--color=bg:7"}

func c17MetaCtx(r *RNG, n int) []string {
	out := []string{}
	for i := 0; i < n; i++ {
		if r.Bool() {
			out = append(out, Pick(r, c17MetaFlags))
		} else {
			o := Pick(r, c17MetaTable)
			out = append(out, o.name+"="+Pick(r, o.vals))
		}
	}
	return out
}

type c17MetaCase struct {
	Kind   string   `json:"kind"` // "override"
	Twice  []string `json:"twice"`
	Once   []string `json:"once"`
	Option string   `json:"option"`
}

func c17MetaParse(args []string) (dump string, errs string, pan string) {
	defer func() {
		if e := recover(); e != nil {
			pan = fmt.Sprint(e)
		}
	}()
	// options.go keeps the border shape chosen by --style=full:SHAPE in a package-level variable; the real binary parses
	// once per process, this harness parses thousands of vectors, so reset it first (applyPreset does that as its first step)
	fzf.ParseOptions(true, []string{"--style=default"})
	opts, err := fzf.ParseOptions(true, args)
	if err != nil {
		return "", err.Error(), ""
	}
	// heightSpec.index records the POSITION of --height in the vector (used to order it against --tmux); positions shift by
	// construction when one occurrence is dropped, so it is not part of the configuration compared here
	return c17IndexRe.ReplaceAllString(fzf.VerifDumpOptions(opts), "index:_;"), "", ""
}

func c17MetaCheck(c *Ctx, mc c17MetaCase) {
	rep := c.Rep
	d2, e2, p2 := c17MetaParse(mc.Twice)
	d1, e1, p1 := c17MetaParse(mc.Once)
	rep.ImplTraces += 2
	rep.SpecChecks++
	rep.Eval("meta:"+strings.Join(mc.Twice, "\x00"), e1 == "" && e2 == "")
	rep.Count("override:checked")
	if p1 != "" || p2 != "" {
		rep.Disagreement(Disagreement{Kind: "spec", Name: "no_crash(ParseOptions)", Input: mc, Impl: p1 + " | " + p2, Expect: "a configuration or an error"})
		return
	}
	if (e1 == "") != (e2 == "") {
		rep.Disagreement(Disagreement{Kind: "spec", Name: "later_overrides_earlier(whole vocabulary)", Input: mc,
			Impl: "twice: " + e2 + " / once: " + e1, Expect: "both accepted or both rejected"})
		return
	}
	if e1 == "" && d1 != d2 {
		// locate the first differing field for the report
		i := 0
		for i < len(d1) && i < len(d2) && d1[i] == d2[i] {
			i++
		}
		lo := max(0, i-80)
		rep.Disagreement(Disagreement{Kind: "spec", Name: "later_overrides_earlier(whole vocabulary)", Input: mc,
			Impl: "…" + d2[lo:min(len(d2), i+80)], Expect: "…" + d1[lo:min(len(d1), i+80)]})
	}
}

func c17RunMeta(c *Ctx) {
	r := c.Rng
	for i, n := 0, c.N(4000, 150000); i < n; i++ {
		o := Pick(r, c17MetaTable)
		v1, v2 := Pick(r, o.vals), Pick(r, o.vals)
		p := c17MetaCtx(r, r.Intn(4))
		s := c17MetaCtx(r, r.Intn(4))
		twice := append(append(append([]string{}, p...), o.name+"="+v1, o.name+"="+v2), s...)
		once := append(append(append([]string{}, p...), o.name+"="+v2), s...)
		c17MetaCheck(c, c17MetaCase{Kind: "override", Twice: twice, Once: once, Option: o.name})
	}
}
