package main

// C19 — directories the walker CANNOT READ (spec/WalkErrSpec.v, model/WalkErrModel.v).
//
// "each file under the given roots exactly once" must hold for everything that can be read when something cannot:
// one unreadable directory costs its own content and nothing else (its siblings, the other branches, the other roots
// are listed as ever).  Three ways to get a directory that its parent lists but that cannot be opened, all of them
// part of the generated case (node attribute x, or names long enough), none needing anything outside the world:
//
//   locked  x=1  mode 000.  Takes effect when the walker runs without privileges: as it is when the harness is not
//                root; when it is root the fzf process is started as uid/gid 65534 (SysProcAttr.Credential) and the
//                in-process walk runs with the effective uid of the harness set to 65534 for its duration.  If neither
//                is possible (probe at start) the directories stay readable and are expected to be listed in full.
//   vanish  x=2  the directory is removed at the moment the walker delivers it (the pusher of the in-process route
//                sees "DIR/", the directory is read only after the callback has returned), and put back after the
//                walk.  Needs `dir` (otherwise it is not delivered and stays).  Worlds without links, roots that
//                do not overlap.  The fzf process sees the world with the directory in place.
//   long         a chain of directories with long names whose path, as fastwalk opens it (cleaned root + "/" + ...),
//                grows beyond PATH_MAX: open fails with ENAMETOOLONG for every user.  Which directories these are is
//                asked of the operating system (open by that very path from the walker's working directory).
//
// The expected listing is the extracted spec's listing of the VISIBLE tree (op 1908), the model is op 1907 (items and
// readFiles' return value); the flags of the tree handed to them come from the generated case (x) and, for long
// paths, from the operating system.  Stripped of the flags the tree must be the spec's unfolding (op 1906).

import (
	"fmt"
	"os"
	"os/exec"
	"path/filepath"
	"strings"
	"syscall"
)

const c19Nobody = 65534

// how a walker without privileges is obtained: "self" (the harness has none), "drop" (root: drop for the walk),
// "none" (root, but dropping does not work here: mode-000 directories stay readable)
var c19Unpriv = "none"

// do mode-000 directories take effect (for the resolver, the flags and the expectations)?
var c19LockEff = false

type c19HookX struct {
	drop    bool   // run the walk with effective uid 65534
	vanish  string // absolute path of the directory that vanishes when listed ("" = none)
	restore func() // puts it back
}

func c19SetupUnpriv(c *Ctx) {
	if os.Geteuid() != 0 {
		c19Unpriv, c19LockEff = "self", true
		c.Rep.Extra["unprivileged_walker"] = c19Unpriv
		return
	}
	c19Unpriv, c19LockEff = "none", false
	defer func() { c.Rep.Extra["unprivileged_walker"] = c19Unpriv }()
	// uid 65534 must be able to reach the worlds and the fzf binary: search permission on the scratch directories
	// this run owns (never beyond two levels, never on a directory that is not ours)
	for _, start := range []string{c.Work, filepath.Dir(c.Fzf)} {
		p, err := filepath.Abs(start)
		if err != nil {
			return
		}
		for lvl := 0; p != "/" && p != "."; lvl, p = lvl+1, filepath.Dir(p) {
			fi, err := os.Stat(p)
			if err != nil {
				return
			}
			if fi.Mode().Perm()&0001 != 0 {
				continue
			}
			st, ok := fi.Sys().(*syscall.Stat_t)
			if !ok || st.Uid != 0 || lvl > 2 {
				return
			}
			if os.Chmod(p, fi.Mode().Perm()|0011) != nil {
				return
			}
		}
	}
	// probe: the binary runs as 65534 in the scratch directory, and a mode-000 directory refuses it
	probe := filepath.Join(c.Work, "c19probe")
	os.RemoveAll(probe)
	if os.MkdirAll(filepath.Join(probe, "locked"), 0755) != nil {
		return
	}
	defer os.RemoveAll(probe)
	os.Chmod(probe, 0755)
	os.Chmod(filepath.Join(probe, "locked"), 0)
	defer os.Chmod(filepath.Join(probe, "locked"), 0755)
	cmd := exec.Command(c.Fzf, "--version")
	cmd.Dir = probe
	cmd.SysProcAttr = &syscall.SysProcAttr{Credential: &syscall.Credential{Uid: c19Nobody, Gid: c19Nobody}}
	if cmd.Run() != nil {
		return
	}
	if err := syscall.Seteuid(c19Nobody); err != nil {
		return
	}
	_, errLocked := os.ReadDir(filepath.Join(probe, "locked"))
	_, errOpen := os.ReadDir(probe)
	if err := syscall.Seteuid(0); err != nil {
		panic("cannot get the effective uid back: " + err.Error())
	}
	if errLocked == nil || errOpen != nil {
		return
	}
	c19Unpriv, c19LockEff = "drop", true
}

// ---------- the world on disk: long paths, locks ----------

// creates directory n (and what is below it) inside `at` without ever naming it by an absolute path
func c19MaterialiseDeep(w string, n *c19Node, at string) error {
	saved, err := os.Getwd()
	if err != nil {
		return err
	}
	if err := os.Chdir(at); err != nil {
		return err
	}
	defer os.Chdir(saved)
	var rec func(n *c19Node) error
	rec = func(n *c19Node) error {
		if n.N == "" || n.N == "." || n.N == ".." || strings.Contains(n.N, "/") {
			return fmt.Errorf("bad name %q", n.N)
		}
		switch n.K {
		case 0:
			return os.WriteFile(n.N, nil, 0644)
		case 2:
			return os.Symlink(strings.Replace(n.T, "$W", w, 1), n.N)
		}
		if err := os.Mkdir(n.N, 0755); err != nil {
			return err
		}
		if err := os.Chdir(n.N); err != nil {
			return err
		}
		for _, ch := range n.C {
			if err := rec(ch); err != nil {
				return err
			}
		}
		return os.Chdir("..")
	}
	return rec(n)
}

func c19EachLocked(nodes []*c19Node, at string, post bool, f func(p string)) {
	for _, n := range nodes {
		if n.K != 1 || len(at)+len(n.N) > 3000 {
			continue
		}
		p := at + "/" + n.N
		if n.X == 1 && !post {
			f(p)
		}
		c19EachLocked(n.C, p, post, f)
		if n.X == 1 && post {
			f(p)
		}
	}
}

// mode 000 on the directories marked x=1 (children first), and back (parents first)
func c19Lock(nodes []*c19Node, w string) {
	c19EachLocked(nodes, w, true, func(p string) { os.Chmod(p, 0) })
}
func c19Unlock(nodes []*c19Node, w string) {
	c19EachLocked(nodes, w, false, func(p string) { os.Chmod(p, 0755) })
}

const c19OPath = 0x200000 // O_PATH

// os.Lstat (follow=false) / os.Stat (follow=true) of an absolute path, reduced to the mode; also for paths longer
// than PATH_MAX (taken in pieces, each opened relative to the one before)
func c19StatMode(path string, follow bool) (os.FileMode, error) {
	if len(path) < 4000 {
		var fi os.FileInfo
		var err error
		if follow {
			fi, err = os.Stat(path)
		} else {
			fi, err = os.Lstat(path)
		}
		if err != nil {
			return 0, err
		}
		return fi.Mode(), nil
	}
	comps := []string{}
	for _, c := range strings.Split(path, "/") {
		if c != "" {
			comps = append(comps, c)
		}
	}
	if len(comps) == 0 || !strings.HasPrefix(path, "/") {
		return 0, fmt.Errorf("not an absolute path")
	}
	fd, err := syscall.Open("/", c19OPath|syscall.O_DIRECTORY, 0)
	if err != nil {
		return 0, err
	}
	defer func() { syscall.Close(fd) }()
	i := 0
	for i < len(comps)-1 {
		chunk := comps[i]
		j := i + 1
		for j < len(comps)-1 && len(chunk)+1+len(comps[j]) < 3000 {
			chunk += "/" + comps[j]
			j++
		}
		nfd, err := syscall.Openat(fd, chunk, c19OPath|syscall.O_DIRECTORY, 0)
		if err != nil {
			return 0, err
		}
		syscall.Close(fd)
		fd = nfd
		i = j
	}
	flags := c19OPath
	if !follow {
		flags |= syscall.O_NOFOLLOW
	}
	lfd, err := syscall.Openat(fd, comps[len(comps)-1], flags, 0)
	if err != nil {
		return 0, err
	}
	defer syscall.Close(lfd)
	var st syscall.Stat_t
	if err := syscall.Fstat(lfd, &st); err != nil {
		return 0, err
	}
	mode := os.FileMode(st.Mode & 0777)
	switch st.Mode & syscall.S_IFMT {
	case syscall.S_IFDIR:
		mode |= os.ModeDir
	case syscall.S_IFLNK:
		mode |= os.ModeSymlink
	}
	return mode, nil
}

// ---------- what the walker can read ----------

type c19Err struct {
	kind   string // locked | vanish | long | mixtures joined by +
	drop   bool
	vanish []string // canonical path (from W) of the directory that vanishes, nil = none
	long   bool
	world  *c19Node
	w      string // the world directory on disk
}

func c19MaxPath(nodes []*c19Node, at int) int {
	m := at
	for _, n := range nodes {
		l := at + 1 + len(n.N)
		if n.K == 1 {
			l = c19MaxPath(n.C, l)
		}
		if l > m {
			m = l
		}
	}
	return m
}

func c19FindX(nodes []*c19Node, canon []string, x int, out *[][]string) {
	for _, n := range nodes {
		if n.K != 1 {
			continue
		}
		c := append(append([]string{}, canon...), n.N)
		if n.X == x {
			*out = append(*out, c)
		}
		c19FindX(n.C, c, x, out)
	}
}

// nil for an ordinary world
func c19ErrWorld(cs c19Case, w string) *c19Err {
	e := &c19Err{world: &c19Node{K: 1, C: cs.World}, w: w}
	kinds := []string{}
	var locked, vanish [][]string
	c19FindX(cs.World, nil, 1, &locked)
	c19FindX(cs.World, nil, 2, &vanish)
	if len(locked) > 0 {
		kinds = append(kinds, "locked("+c19Unpriv+")")
		e.drop = c19Unpriv == "drop"
	}
	if len(vanish) > 0 {
		kinds = append(kinds, "vanish")
		e.vanish = vanish[0] // one per world
	}
	if c19MaxPath(cs.World, len(w)) > 3500 {
		kinds = append(kinds, "long")
		e.long = true
	}
	if len(kinds) == 0 {
		return nil
	}
	e.kind = strings.Join(kinds, "+")
	return e
}

func (e *c19Err) hookX(run c19Run) c19HookX {
	hx := c19HookX{drop: e.drop}
	if e.vanish != nil && run.Opts[1] {
		n := c19NodeAt(e.world, e.vanish)
		if n != nil && n.K == 1 {
			p := e.w + "/" + strings.Join(e.vanish, "/")
			node, w := n, e.w
			hx.vanish = p
			hx.restore = func() {
				if _, err := os.Lstat(p); err == nil {
					return // was never removed
				}
				if os.Mkdir(p, 0755) == nil {
					c19Materialise(w, node.C, p)
				}
			}
		}
	}
	return hx
}

// the roots of the case as [root, [uentry...], rd] for this route and run; the number of unreadable directories in
// them; ok=false when the tree without its flags is not the unfolding the spec computed
func (e *c19Err) flagged(cs c19Case, w string, rootsV Val, via string, run c19Run) (Val, int, bool) {
	oracle := map[string]bool{}
	flag := func(canon []string, joined string) bool {
		n := c19NodeAt(e.world, canon)
		if n != nil && n.X == 1 && c19LockEff {
			return false
		}
		if n != nil && n.X == 2 && via == "hook" && run.Opts[1] {
			return false
		}
		if len(joined) > 3900 {
			// ask the operating system, by the very path the walker opens, from the walker's working directory
			if r, ok := oracle[joined]; ok {
				return r
			}
			fd, err := syscall.Open(joined, syscall.O_RDONLY|syscall.O_DIRECTORY, 0)
			if err == nil {
				syscall.Close(fd)
			}
			oracle[joined] = err == nil
			return err == nil
		}
		return true
	}
	old, _ := os.Getwd()
	if err := os.Chdir(filepath.Join(w, cs.Cwd)); err != nil {
		return Val{}, 0, false
	}
	fv, fstats, _, ok := c19RootsF(cs, w, flag)
	os.Chdir(old)
	if !ok || len(fv.L) != len(rootsV.L) {
		return Val{}, 0, false
	}
	out := []Val{}
	for i, r := range fv.L {
		if !c19Strip(r.L[1]).Equal(rootsV.L[i].L[1]) {
			return Val{}, 0, false
		}
		out = append(out, L(Bytes(strings.Replace(cs.Roots[i], "$W", w, 1)), r.L[1], r.L[2]))
		if r.L[2].I == 0 {
			fstats["unreadable"]++
		}
	}
	return L(out...), fstats["unreadable"], true
}

// [uentry...] -> [entry...]: the flags taken off
func c19Strip(v Val) Val {
	out := []Val{}
	for _, e := range v.L {
		out = append(out, L(e.L[0], e.L[1], c19Strip(e.L[2])))
	}
	return L(out...)
}

// ---------- generator ----------

func c19NoLinks(nodes []*c19Node) {
	for _, n := range nodes {
		if n.K == 2 {
			n.K, n.T = 0, ""
		}
		if n.K == 1 {
			c19NoLinks(n.C)
		}
	}
}

func c19IsPrefix(a, b []string) bool { // a is a prefix of b (or equal)
	if len(a) > len(b) {
		return false
	}
	for i := range a {
		if a[i] != b[i] {
			return false
		}
	}
	return true
}

// a world of the ordinary generator with one way of making a directory unreadable worked into it
func c19GenErr(r *RNG) c19Case {
	cs := c19Gen(r)
	world := &c19Node{K: 1, C: cs.World}
	rnode := c19Lookup(world, "R")
	kind := Pick(r, []int{0, 0, 1, 1, 2})
	if kind == 1 {
		c19NoLinks(cs.World)
	}
	// roots: more often than in the ordinary stream several of them (what is lost with a walk that is given up early is
	// the rest of its root AND the roots that follow); never overlapping in the vanish worlds
	switch k := r.Intn(10); {
	case k < 3:
		cs.Cwd, cs.Roots = "", []string{Pick(r, []string{"R", "./R", "R/", "$W/R"}), Pick(r, []string{"ext", "$W/ext", "./ext/"})}
	case k < 5:
		cs.Cwd, cs.Roots = "", []string{Pick(r, []string{"ext", "$W/ext"}), Pick(r, []string{"R", "$W/R", "R//"})}
	case k < 7:
		cs.Cwd, cs.Roots = "R", []string{Pick(r, []string{".", "./"})}
	case k < 8:
		cs.Cwd, cs.Roots = "", []string{Pick(r, []string{"R", "$W/R"})}
	default:
		if kind == 1 {
			cs.Cwd, cs.Roots = "", []string{"R"}
		} // else: whatever the ordinary generator chose
	}
	rootCanons := [][]string{}
	cwd := []string{}
	if cs.Cwd != "" {
		cwd = strings.Split(cs.Cwd, "/")
	}
	for _, rt := range cs.Roots {
		if res, ok := c19Resolve(world, cwd, rt, 0); ok {
			rootCanons = append(rootCanons, res)
		}
	}
	var dirs, files, links []c19Loc
	c19Collect(cs.World, nil, &dirs, &files, &links)
	// candidates: directories strictly below a root
	below := []c19Loc{}
	for _, d := range dirs {
		for _, rc := range rootCanons {
			if len(d.canon) > len(rc) && c19IsPrefix(rc, d.canon) {
				below = append(below, d)
				break
			}
		}
	}
	filler := func(nm string) *c19Node {
		return &c19Node{K: 1, N: nm, C: []*c19Node{{K: 0, N: "in"}, {K: 1, N: "sub", C: []*c19Node{{K: 0, N: "deeper"}}}}}
	}
	switch kind {
	case 0: // locked
		n := Pick(r, []int{1, 1, 2})
		for i := 0; i < n; i++ {
			if len(below) > 0 && r.Chance(4, 5) {
				d := Pick(r, below)
				// never above a root: the root itself could not be reached
				above := false
				for _, rc := range rootCanons {
					if len(d.canon) < len(rc) && c19IsPrefix(d.canon, rc) {
						above = true
					}
				}
				if !above {
					d.node.X = 1
					continue
				}
			}
			nm := Pick(r, []string{"locked", "no entry", ".priv", "zz"})
			if rnode != nil && c19Lookup(rnode, nm) == nil {
				f := filler(nm)
				f.X = 1
				// first, last or in the middle of its siblings
				at := r.Intn(len(rnode.C) + 1)
				rnode.C = append(rnode.C[:at], append([]*c19Node{f}, rnode.C[at:]...)...)
			}
		}
	case 1: // vanish
		if len(below) > 0 && r.Chance(4, 5) {
			Pick(r, below).node.X = 2
		} else if rnode != nil {
			nm := Pick(r, []string{"gone", "tmp dir", ".cache", "a0"})
			if c19Lookup(rnode, nm) == nil {
				f := filler(nm)
				f.X = 2
				at := r.Intn(len(rnode.C) + 1)
				rnode.C = append(rnode.C[:at], append([]*c19Node{f}, rnode.C[at:]...)...)
			} else if len(below) > 0 {
				Pick(r, below).node.X = 2
			}
		}
		for i := range cs.Runs {
			if i < 2 || r.Bool() {
				cs.Runs[i].Opts[1] = true
			}
		}
	default: // long
		host := rnode
		if len(below) > 0 && r.Chance(1, 2) {
			host = Pick(r, below).node
		}
		if host != nil {
			n := Pick(r, []int{120, 200, 250, 255, 255})
			fill := Pick(r, []string{"d", "x", "L", "0"})
			levels := 4300/(n+1) + 1 + r.Intn(3)
			var chain *c19Node
			for i := levels; i >= 1; i-- {
				nm := strings.Repeat(fill, n-len(fmt.Sprint(i))) + fmt.Sprint(i)
				lvl := &c19Node{K: 1, N: nm}
				switch r.Intn(8) {
				case 0:
					lvl.C = append(lvl.C, &c19Node{K: 0, N: "f"})
				case 1:
					lvl.C = append(lvl.C, &c19Node{K: 0, N: ".hf"}, &c19Node{K: 1, N: "e"})
				case 2:
					lvl.C = append(lvl.C, &c19Node{K: 1, N: "e", C: []*c19Node{{K: 0, N: "g"}}})
				}
				if chain != nil {
					lvl.C = append(lvl.C, chain)
				}
				chain = lvl
			}
			if c19Lookup(host, chain.N) == nil {
				at := r.Intn(len(host.C) + 1)
				host.C = append(host.C[:at], append([]*c19Node{chain}, host.C[at:]...)...)
			}
		}
		// skip entries with a separator make the spec reverse every path (List.rev is quadratic): base names only,
		// and two runs instead of four
		if len(cs.Runs) > 2 {
			cs.Runs = cs.Runs[:2]
		}
		for i := range cs.Runs {
			keep := []string{}
			for _, sk := range cs.Runs[i].Skips {
				if !strings.Contains(sk, "/") {
					keep = append(keep, sk)
				}
			}
			cs.Runs[i].Skips = keep
		}
	}
	// the default option set and file,dir more often than by chance (the chain / the locked directory must be met)
	for i := range cs.Runs {
		if r.Chance(1, 3) {
			cs.Runs[i].Opts = [4]bool{true, true, r.Bool(), true}
		}
	}
	return cs
}
