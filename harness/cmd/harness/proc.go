package main

import (
	"bytes"
	"context"
	"os"
	"os/exec"
	"time"
)

// RunFzf runs the fzf binary built from /repo's working tree (c.Fzf) non-interactively.
// Returns stdout, stderr, exit code (-1 on timeout / start failure).
func RunFzf(c *Ctx, args []string, stdin []byte, env ...string) (string, string, int) {
	ctx, cancel := context.WithTimeout(context.Background(), 30*time.Second)
	defer cancel()
	cmd := exec.CommandContext(ctx, c.Fzf, args...)
	cmd.Stdin = bytes.NewReader(stdin)
	var out, errb bytes.Buffer
	cmd.Stdout = &out
	cmd.Stderr = &errb
	cmd.Env = append([]string{"PATH=" + os.Getenv("PATH"), "HOME=" + os.Getenv("HOME"), "TERM=xterm-256color",
		"TMPDIR=" + c.Work, "SHELL=/bin/sh", "FZF_DEFAULT_OPTS=", "FZF_DEFAULT_COMMAND="}, env...)
	err := cmd.Run()
	code := 0
	if err != nil {
		if ee, ok := err.(*exec.ExitError); ok {
			code = ee.ExitCode()
		} else {
			code = -1
		}
	}
	if ctx.Err() != nil {
		code = -1
	}
	return out.String(), errb.String(), code
}
