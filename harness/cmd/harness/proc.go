package main

import (
	"bytes"
	"context"
	"os"
	"os/exec"
	"time"
)

// RunFzf runs the fzf binary built from /repo's working tree (c.Fzf) non-interactively.
// Returns stdout, stderr, exit code (-1 on timeout / start failure).
func RunFzf(c *Ctx, args []string, stdin []byte, env ...string) (string, string, int) {
	// a process that could not be STARTED (fork/exec failing on an overloaded machine) says nothing about fzf:
	// it is started again, a few times, before -1 is returned
	for try := 0; ; try++ {
		out, errs, code, started := runFzfOnce(c, args, stdin, env...)
		if started || try >= 4 {
			return out, errs, code
		}
		time.Sleep(time.Duration(200*(try+1)) * time.Millisecond)
	}
}

func runFzfOnce(c *Ctx, args []string, stdin []byte, env ...string) (string, string, int, bool) {
	ctx, cancel := context.WithTimeout(context.Background(), 60*time.Second)
	defer cancel()
	cmd := exec.CommandContext(ctx, c.Fzf, args...)
	cmd.Stdin = bytes.NewReader(stdin)
	var out, errb bytes.Buffer
	cmd.Stdout = &out
	cmd.Stderr = &errb
	cmd.Env = append([]string{"PATH=" + os.Getenv("PATH"), "HOME=" + os.Getenv("HOME"), "TERM=xterm-256color",
		"TMPDIR=" + c.Work, "SHELL=/bin/sh", "FZF_DEFAULT_OPTS=", "FZF_DEFAULT_COMMAND="}, env...)
	err := cmd.Run()
	code := 0
	started := true
	if err != nil {
		if ee, ok := err.(*exec.ExitError); ok {
			code = ee.ExitCode()
		} else {
			code = -1
			started = cmd.ProcessState != nil // nil: the process never ran
		}
	}
	if ctx.Err() != nil {
		code = -1
	}
	return out.String(), errb.String(), code, started
}
