package main

// C06, proc cases with a search scope: every record is its OWN item, so whatever fzf derives from an item's
// content (the fields searched under --nth, the text shown under --with-nth) is derived from that record alone.
//   fzf --filter Q -e +i --literal [--nth ES | --with-nth ES] [-d SEP] through every filter path of core.go
//   spec  query_listing (op 611, RecordNthSpec.v over FieldSpec.v): the searchable items whose own record is
//         found, in stream order (--no-sort paths) / as a multiset (sorting paths); the original record is printed

import (
	"fmt"
	"strconv"
	"strings"
)

func (cs *c06Case) scoped() bool { return cs.Nth != "" || cs.WithNth != "" }

// "2", "-1", "2..", "..3", "1..2", ".." separated by commas -> [[0,n] | [1,a?,b?] ...]
func c06ParseExprs(s string) (Val, error) {
	out := []Val{}
	opt := func(t string) (Val, error) {
		if t == "" {
			return L(), nil
		}
		n, err := strconv.Atoi(t)
		if err != nil || n == 0 {
			return L(), fmt.Errorf("bad bound %q", t)
		}
		return L(I(n)), nil
	}
	for _, e := range strings.Split(s, ",") {
		if i := strings.Index(e, ".."); i >= 0 {
			a, err1 := opt(e[:i])
			b, err2 := opt(e[i+2:])
			if err1 != nil || err2 != nil {
				return L(), fmt.Errorf("bad expression %q", e)
			}
			out = append(out, L(I(1), a, b))
			continue
		}
		n, err := strconv.Atoi(e)
		if err != nil || n == 0 {
			return L(), fmt.Errorf("bad expression %q", e)
		}
		out = append(out, L(I(0), I(n)))
	}
	return L(out...), nil
}

// c06ScopeSpec: the extra fzf arguments of a scoped case and what the spec says is listed (texts, in order)
func c06ScopeSpec(c *Ctx, cs *c06Case, data []byte) ([]string, []string, error) {
	args := []string{}
	delimV := L()
	if cs.Delim != "" {
		if strings.ContainsAny(cs.Delim, "\\.+*?()|[]{}^$") || strings.Contains(cs.Delim, cs.Query) {
			return nil, nil, fmt.Errorf("delimiter %q is not a plain literal", cs.Delim)
		}
		args = append(args, "-d", cs.Delim)
		delimV = L(Runes([]rune(cs.Delim)))
	}
	var scopeV Val
	switch {
	case cs.Nth != "" && cs.WithNth != "":
		return nil, nil, fmt.Errorf("--nth together with --with-nth is not specified here")
	case cs.Nth != "":
		es, err := c06ParseExprs(cs.Nth)
		if err != nil {
			return nil, nil, err
		}
		args = append(args, "--nth", cs.Nth)
		scopeV = L(I(1), es)
	default:
		es, err := c06ParseExprs(cs.WithNth)
		if err != nil {
			return nil, nil, err
		}
		args = append(args, "--with-nth", cs.WithNth)
		scopeV = L(I(2), es)
	}
	if cs.Query == "" || strings.ContainsAny(cs.Query, " \t\n\r!^$'|\\") {
		return nil, nil, fmt.Errorf("query %q is not a plain literal term", cs.Query)
	}
	var v Val
	c06Timed("cpu_s:spec611", func() {
		v = c.Model.Call(611, L(B(cs.Read0), B(cs.Tac), I(cs.HL), I(cs.Tail), delimV, scopeV,
			Runes([]rune(cs.Query)), Runes([]rune(string(data)))))
	})
	want := []string{}
	for _, it := range v.L {
		if !it.IsList || len(it.L) != 2 { // the driver does not know the op / a decoding error: never pass silently
			c.Rep.Disagreement(Disagreement{Kind: "corr", Name: "corr:C06.spec611_unavailable", Input: cs, Impl: "-", Expect: c06Clip(v.String())})
			return nil, nil, fmt.Errorf("spec 611: %s", c06Clip(v.String()))
		}
		want = append(want, it.L[1].RuneStr())
	}
	return args, want, nil
}

// ---------- generator: records made of fields ----------

var c06Letters = []string{"a", "b", "c", "d", "a", "b", "c", "d", "é", "한"}

func c06Word(r *RNG, minLen int) string {
	w := ""
	for i, n := 0, r.Range(minLen, Pick(r, []int{1, 1, 2, 3})); i < n; i++ {
		w += Pick(r, c06Letters)
	}
	return w
}

// one record: fields separated AWK-style (blanks) or by the literal sep; the other kind of separator appears
// inside fields as ordinary content
func c06FieldRecord(r *RNG, sep string, read0 bool) string {
	var b strings.Builder
	if r.Chance(1, 6) {
		b.WriteString(Pick(r, []string{" ", "\t", "  "}))
	}
	nf := Pick(r, []int{0, 1, 1, 2, 2, 2, 3, 3, 4, 6})
	for i := 0; i < nf; i++ {
		if sep == "" {
			w := c06Word(r, 1)
			if r.Chance(1, 8) {
				w += Pick(r, []string{",", ":", "::"}) + c06Word(r, 0)
			}
			if read0 && r.Chance(1, 10) {
				w += "\n" + c06Word(r, 0)
			}
			b.WriteString(w)
			if i < nf-1 || r.Chance(1, 4) {
				b.WriteString(Pick(r, []string{" ", " ", "\t", "  ", " \t "}))
			}
		} else {
			w := c06Word(r, 0)
			if r.Chance(1, 6) {
				w += Pick(r, []string{" ", "\t", " "}) + c06Word(r, 0)
			}
			if read0 && r.Chance(1, 10) {
				w += "\n"
			}
			b.WriteString(w)
			if i < nf-1 || r.Chance(1, 4) {
				b.WriteString(sep)
				if r.Chance(1, 8) {
					b.WriteString(" ")
				}
			}
		}
	}
	return b.String()
}

// c06GenScope: a stream of fielded records, a filter path (biased to the streaming one: it matches each record
// the moment it is read, with its own scratch state), --nth or --with-nth, a one-letter query
func c06GenScope(r *RNG) *c06Case {
	cs := &c06Case{Kind: "proc", Read0: r.Chance(1, 4)}
	d := delimOf(cs.Read0)
	if r.Chance(1, 3) {
		cs.Delim = Pick(r, []string{",", ":", "::", ",", ";"})
	}
	nrec := r.Range(0, Pick(r, []int{2, 4, 8, 30, 120, 350}))
	var b strings.Builder
	for i := 0; i < nrec; i++ {
		if r.Chance(1, 15) { // an empty record
		} else {
			b.WriteString(c06FieldRecord(r, cs.Delim, cs.Read0))
		}
		if i < nrec-1 || r.Chance(2, 3) {
			b.WriteByte(d)
		}
	}
	if b.Len() > 0 {
		cs.Segs = []c06Seg{{1, []byte(b.String())}}
	}
	cs.Cuts = c06SmallCuts(r, b.Len())
	exprs := []string{"1", "2", "2", "3", "-1", "-2", "2..", "..2", "2..3", "1,3", "3,1", "-1,1", "..", "4", "..-2"}
	if r.Chance(2, 3) {
		cs.Nth = Pick(r, exprs)
	} else {
		cs.WithNth = Pick(r, exprs)
	}
	cs.Query = Pick(r, []string{"a", "b", "c", "d", "é", "한", "ab"})
	if r.Chance(1, 4) {
		cs.HL = Pick(r, []int{1, 1, 2, max(nrec/2, 1)})
	}
	switch r.Intn(12) {
	case 0, 1, 2, 3, 4: // streaming
		cs.NoSort = true
	case 5: // --no-sort with --tail: collecting
		cs.NoSort = true
		cs.Tail = Pick(r, []int{1, 2, 3, 100, max(nrec/2, 1), nrec + 1})
	case 6:
		cs.NoSort, cs.Tac = true, true
	case 7:
		cs.NoSort, cs.Sync = true, true
	case 8:
		cs.Tac = true
	case 9:
		cs.Sync = true
	case 10: // default path with --tail
		cs.Tail = Pick(r, []int{1, 2, 3, 100, max(nrec/2, 1), nrec + 1})
	}
	if nrec <= 400 && r.Chance(1, 6) {
		cs.Probes = []int{r.Intn(nrec + 1)}
	}
	return cs
}
