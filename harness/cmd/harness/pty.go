package main

// pty.go — drive the real fzf binary (c.Fzf, built from the working tree) in a pseudo terminal and
// talk to it through --listen.  Shared by C08, C09, C13, C14, C15, C20.  No cgo.
//
// API (everything else in this file is private):
//
//   s, err := StartSession(c, SessionOpts{Args, Lines|Stdin, Cols, Rows, Env, NoListen})
//        opens /dev/ptmx, sets the window size, starts fzf with
//          stdin  = a file holding the candidate list (Lines joined by "\n", or the raw bytes Stdin;
//                   StdinTTY=true gives the pty slave instead, for FZF_DEFAULT_COMMAND / reload runs)
//          stderr = pty slave, which is also the controlling terminal (/dev/tty) of a new session
//          stdout = a pipe (the printed result)
//          env    = PATH HOME TERM=xterm-256color SHELL=/bin/sh FZF_DEFAULT_OPTS= FZF_DEFAULT_COMMAND= + a
//                   private TMPDIR (s.Dir) + opts.Env
//        adds --listen=localhost:PORT on a free port (retries on a lost race), drains the master
//        continuously, answers every ESC[6n with ESC[1;1R, and returns once the first frame was drawn
//        and the event loop answers (so keys can be typed at once).
//   s.Post(actions) error          POST an action list ("a+b(arg)+c"); an error carries the HTTP status/body.
//                                  ErrGone when the process has exited (the POST that makes fzf exit can
//                                  lose its answer; callers tolerate that).
//   s.Get() (*FzfState, error)     GET /?limit=100000  -> parsed JSON (query, position, matchCount, totalCount,
//                                  reading, progress, sort, current, matches[], selected[] in selection order)
//   s.Sync() error                 returns after every action list POSTed before it has been processed by the
//                                  event loop (marker hand-shake through execute-silent; POSTs are run in order).
//                                  Typed keys travel on another channel and are NOT ordered with POSTs: after
//                                  SendKeys use WaitFor on an observable effect (e.g. the query), then Sync.
//   s.PostSync(actions) error      Post(actions + marker) + wait: one HTTP round trip less than Post;Sync
//   s.SendKeys(b)                  write raw bytes to the terminal (typed keys)
//   s.Resize(cols, rows)           TIOCSWINSZ (the kernel sends SIGWINCH to fzf)
//   s.Signal(sig)                  signal the fzf process
//   s.Wait(timeout) (stdout, exitCode, ok)   ok=false on timeout; exitCode -1 if killed by a signal
//   s.Exited() bool
//   s.Kill() / s.Close()           Close = Kill + Wait + remove s.Dir; always call it (defer)
//   s.Screen() []byte              every byte fzf wrote to the terminal so far (copy)
//   s.Crash() string               "" or the first "panic:" / "goroutine N [" / "fatal error:" excerpt seen on the terminal
//   s.WaitFor(pred, timeout)       poll Get until pred(state) (eventually-equal comparisons)
//
// Measured on this machine (PTYSELFTEST, 8 sessions in parallel): start-up to first frame ≈ 10 ms,
// Post+Sync+Get ≈ 3.5 ms (≈ 280 round trips/s per session); 20 sessions of the self test in 0.4 s.

import (
	"bytes"
	"encoding/json"
	"errors"
	"fmt"
	"io"
	"net"
	"os"
	"os/exec"
	"path/filepath"
	"strconv"
	"strings"
	"sync"
	"sync/atomic"
	"syscall"
	"time"

	"golang.org/x/sys/unix"
)

type SessionOpts struct {
	Args     []string
	Lines    []string // candidate list (each + "\n"); ignored when Stdin != nil
	Stdin    []byte   // raw stdin bytes
	StdinTTY bool     // stdin is the terminal (no list on stdin)
	Cols     int      // default 80
	Rows     int      // default 24
	Env      []string
	NoListen bool // do not add --listen (Post/Get/Sync unavailable)
	StdinPipe bool // stdin is a pipe that stays open: Lines/Stdin are written first, more input through Session.Feed
	NoSync   bool // with --listen: do not run the first Sync (its marker is written by execute-silent, that is through the
	// shell: a session whose shell cannot be started would never pass it); the start is complete when GET answers
}

type FzfItem struct {
	Index int    `json:"index"`
	Text  string `json:"text"`
}

type FzfState struct {
	Reading    bool      `json:"reading"`
	Progress   int       `json:"progress"`
	Query      string    `json:"query"`
	Position   int       `json:"position"`
	Sort       bool      `json:"sort"`
	TotalCount int       `json:"totalCount"`
	MatchCount int       `json:"matchCount"`
	Current    *FzfItem  `json:"current"`
	Matches    []FzfItem `json:"matches"`
	Selected   []FzfItem `json:"selected"`
}

var ErrGone = errors.New("fzf process has exited")

type Session struct {
	Dir  string // private TMPDIR
	Port int
	Args []string

	cmd     *exec.Cmd
	master  *os.File
	mu      sync.Mutex
	screen  []byte
	crash   string
	stdout  bytes.Buffer
	outEnd  chan struct{}
	done    chan struct{} // closed when the process has been reaped
	code    int
	marker  int64
	nonce   string
	exited  atomic.Bool
	relOnce sync.Once
	feed    *os.File // write end of the stdin pipe (SessionOpts.StdinPipe)
}

// Feed appends bytes to the candidate input of a session started with StdinPipe.
func (s *Session) Feed(b []byte) error {
	if s.feed == nil {
		return errors.New("session has no stdin pipe")
	}
	_, err := s.feed.Write(b)
	return err
}

// CloseFeed ends the input of a session started with StdinPipe.
func (s *Session) CloseFeed() {
	if s.feed != nil {
		s.feed.Close()
	}
}

func openPty(cols, rows int) (master *os.File, slave *os.File, err error) {
	fd, err := unix.Open("/dev/ptmx", unix.O_RDWR|unix.O_NOCTTY|unix.O_CLOEXEC, 0)
	if err != nil {
		return nil, nil, err
	}
	if err = unix.IoctlSetPointerInt(fd, unix.TIOCSPTLCK, 0); err != nil {
		unix.Close(fd)
		return nil, nil, err
	}
	n, err := unix.IoctlGetInt(fd, unix.TIOCGPTN)
	if err != nil {
		unix.Close(fd)
		return nil, nil, err
	}
	if err = unix.IoctlSetWinsize(fd, unix.TIOCSWINSZ, &unix.Winsize{Row: uint16(rows), Col: uint16(cols)}); err != nil {
		unix.Close(fd)
		return nil, nil, err
	}
	sfd, err := unix.Open("/dev/pts/"+strconv.Itoa(n), unix.O_RDWR|unix.O_NOCTTY|unix.O_CLOEXEC, 0)
	if err != nil {
		unix.Close(fd)
		return nil, nil, err
	}
	// NOFLSH: a ctrl-c / ctrl-z / ctrl-\ byte typed while the line discipline is cooked (that is: after fzf has
	// restored the terminal on its way out, before we have noticed the exit) would otherwise make the kernel throw
	// away the output we have not read yet -- including the mode-restoring sequences the C14 check looks for.
	if ta, e := unix.IoctlGetTermios(sfd, unix.TCGETS); e == nil && os.Getenv("PTY_FLSH") == "" {
		ta.Lflag |= unix.NOFLSH
		unix.IoctlSetTermios(sfd, unix.TCSETS, ta)
	}
	return os.NewFile(uintptr(fd), "ptmx"), os.NewFile(uintptr(sfd), "pts"), nil
}

var (
	portMu     sync.Mutex
	portsUsed  = map[int]bool{}
	portsFreed []int // ports of closed sessions, oldest first; the oldest become available again beyond 4000 entries
)

// releasePort: the port of a closed session may be handed out again, but not soon (the 4000 most recently released
// ones stay blocked).  Without this a long run uses up the numbers the kernel hands out for bind(0) -- only the odd
// half of the ephemeral range, about 14 000 -- and sessions end up with port 0.
func releasePort(p int) {
	if p == 0 {
		return
	}
	portMu.Lock()
	portsFreed = append(portsFreed, p)
	if len(portsFreed) > 4000 {
		delete(portsUsed, portsFreed[0])
		portsFreed = portsFreed[1:]
	}
	portMu.Unlock()
}

// freePort asks the kernel for an unused port; ports already handed out by this process are skipped.
func freePort() int {
	portMu.Lock()
	defer portMu.Unlock()
	// A port that was handed out before is kept bound until a fresh one has been found: this kernel gives the port
	// of a listener that has just been closed out again and again (seen: the same number 17 times in a row), so that
	// closing before the next attempt made all 20 attempts collide in long runs and the session got port 0.
	var held []net.Listener
	defer func() {
		for _, l := range held {
			l.Close()
		}
	}()
	for try := 0; try < 200; try++ {
		l, err := net.Listen("tcp", "127.0.0.1:0")
		if err != nil {
			return 0
		}
		p := l.Addr().(*net.TCPAddr).Port
		if !portsUsed[p] {
			portsUsed[p] = true
			l.Close()
			return p
		}
		held = append(held, l)
	}
	return 0
}

// StartSession starts fzf; retries when the chosen port was taken in the meantime.
func StartSession(c *Ctx, o SessionOpts) (*Session, error) {
	var last error
	for try := 0; try < 5; try++ {
		s, err, retry := startOnce(c, o)
		if err == nil {
			return s, nil
		}
		last = err
		if !retry {
			break
		}
	}
	return nil, last
}

func startOnce(c *Ctx, o SessionOpts) (*Session, error, bool) {
	if o.Cols == 0 {
		o.Cols = 80
	}
	if o.Rows == 0 {
		o.Rows = 24
	}
	base := c.Work
	if base == "" {
		base = os.TempDir()
	}
	os.MkdirAll(base, 0755)
	dir, err := os.MkdirTemp(base, "pty")
	if err != nil {
		return nil, err, false
	}
	master, slave, err := openPty(o.Cols, o.Rows)
	if err != nil {
		os.RemoveAll(dir)
		return nil, err, false
	}
	s := &Session{Dir: dir, master: master, outEnd: make(chan struct{}), done: make(chan struct{}),
		nonce: strconv.FormatInt(time.Now().UnixNano()&0xffffff, 36) + strconv.Itoa(os.Getpid()%1000)}
	args := append([]string{}, o.Args...)
	if !o.NoListen {
		s.Port = freePort()
		args = append(args, "--listen=localhost:"+strconv.Itoa(s.Port))
	}
	s.Args = args
	cmd := exec.Command(c.Fzf, args...)
	cmd.Dir = dir
	var inFile *os.File
	if o.StdinTTY {
		cmd.Stdin = slave
	} else {
		data := o.Stdin
		if data == nil {
			var b bytes.Buffer
			for _, l := range o.Lines {
				b.WriteString(l)
				b.WriteByte('\n')
			}
			data = b.Bytes()
		}
		if o.StdinPipe {
			ir, iw, perr := os.Pipe()
			if perr != nil {
				master.Close()
				slave.Close()
				os.RemoveAll(dir)
				return nil, perr, false
			}
			inFile = ir
			s.feed = iw
			cmd.Stdin = ir
			go func(d []byte) { iw.Write(d) }(data)
		} else {
			p := filepath.Join(dir, "stdin")
			os.WriteFile(p, data, 0600)
			inFile, _ = os.Open(p)
			cmd.Stdin = inFile
		}
	}
	cmd.Stderr = slave
	pr, pw, _ := os.Pipe()
	cmd.Stdout = pw
	cmd.Env = append([]string{"PATH=" + os.Getenv("PATH"), "HOME=" + os.Getenv("HOME"), "TERM=xterm-256color",
		"TMPDIR=" + dir, "SHELL=/bin/sh", "FZF_DEFAULT_OPTS=", "FZF_DEFAULT_COMMAND=", "LANG=C.UTF-8", "LC_ALL=C.UTF-8"}, o.Env...)
	cmd.SysProcAttr = &syscall.SysProcAttr{Setsid: true, Setctty: true, Ctty: 2} // fd 2 (stderr) = slave in the child
	err = cmd.Start()
	slave.Close()
	pw.Close()
	if inFile != nil {
		inFile.Close()
	}
	if err != nil {
		s.CloseFeed()
		master.Close()
		pr.Close()
		os.RemoveAll(dir)
		return nil, err, false
	}
	s.cmd = cmd
	go s.drain()
	go func() { io.Copy(&lockedWriter{s}, pr); pr.Close(); close(s.outEnd) }()
	go func() {
		err := cmd.Wait()
		code := 0
		if err != nil {
			if ee, ok := err.(*exec.ExitError); ok {
				code = ee.ExitCode()
			} else {
				code = -1
			}
		}
		s.code = code
		s.exited.Store(true)
		close(s.done)
	}()
	// wait for: first bytes on the terminal, and (with --listen) the event loop answering a marker
	deadline := time.Now().Add(10 * time.Second)
	for {
		if s.exited.Load() {
			// the exit can be noticed before the drain goroutine has read what fzf wrote on its way out (seen on a
			// loaded machine: "code 2" with an empty screen, so that a lost race for the port was not retried)
			for w := 0; w < 200 && len(s.Screen()) == 0; w++ {
				time.Sleep(5 * time.Millisecond)
			}
			scr := string(s.Screen())
			retry := strings.Contains(scr, "failed to listen")
			s.Close()
			return nil, fmt.Errorf("fzf exited during start-up (code %d): %s", s.code, scr), retry
		}
		s.mu.Lock()
		n := len(s.screen)
		s.mu.Unlock()
		if n > 0 {
			if o.NoListen {
				break
			}
			if _, err := s.Get(); err == nil {
				break
			}
		}
		if time.Now().After(deadline) {
			scr := string(s.Screen())
			s.Close()
			return nil, fmt.Errorf("fzf did not start within 10 s: %q", scr), false
		}
		time.Sleep(500 * time.Microsecond)
	}
	if !o.NoListen && !o.NoSync {
		// the marker is written into OUR private directory, so this also proves that the server that answered is ours
		// (another process may have taken the port between freePort and fzf's bind: then our fzf has exited)
		if err := s.Sync(); err != nil {
			scr := string(s.Screen())
			retry := s.exited.Load() || strings.Contains(scr, "failed to listen")
			s.Close()
			return nil, fmt.Errorf("first sync: %v (%s)", err, scr), retry
		}
	} else if o.NoListen {
		time.Sleep(30 * time.Millisecond)
	}
	return s, nil, false
}

type lockedWriter struct{ s *Session }

func (w *lockedWriter) Write(p []byte) (int, error) {
	w.s.mu.Lock()
	w.s.stdout.Write(p)
	w.s.mu.Unlock()
	return len(p), nil
}

var crashMarks = [][]byte{[]byte("panic:"), []byte("fatal error:"), []byte("goroutine ")}

// drain reads the master until EIO/EOF, answers cursor-position queries, records everything.
func (s *Session) drain() {
	buf := make([]byte, 65536)
	answered := 0 // number of ESC[6n already answered
	for {
		n, err := s.master.Read(buf)
		if n > 0 {
			s.mu.Lock()
			s.screen = append(s.screen, buf[:n]...)
			// look at a window that overlaps the previous chunk so that split sequences are seen
			from := len(s.screen) - n - 16
			if from < 0 {
				from = 0
			}
			tail := s.screen[from:]
			if s.crash == "" {
				for _, m := range crashMarks {
					if i := bytes.Index(tail, m); i >= 0 {
						if string(m) == "goroutine " && !bytes.Contains(tail[i:], []byte(" [")) {
							continue
						}
						e := i + 400
						if e > len(tail) {
							e = len(tail)
						}
						s.crash = string(tail[i:e])
						break
					}
				}
			}
			total := bytes.Count(s.screen, []byte("\x1b[6n"))
			s.mu.Unlock()
			for ; answered < total; answered++ {
				s.master.Write([]byte("\x1b[1;1R"))
			}
		}
		if err != nil {
			return
		}
	}
}

func (s *Session) Screen() []byte {
	s.mu.Lock()
	defer s.mu.Unlock()
	return append([]byte(nil), s.screen...)
}

func (s *Session) Crash() string {
	s.mu.Lock()
	defer s.mu.Unlock()
	return s.crash
}

func (s *Session) Exited() bool { return s.exited.Load() }

func (s *Session) SendKeys(b []byte) error {
	_, err := s.master.Write(b)
	return err
}

func (s *Session) Resize(cols, rows int) error {
	return unix.IoctlSetWinsize(int(s.master.Fd()), unix.TIOCSWINSZ, &unix.Winsize{Row: uint16(rows), Col: uint16(cols)})
}

func (s *Session) Signal(sig syscall.Signal) error {
	if s.cmd == nil || s.cmd.Process == nil {
		return ErrGone
	}
	return s.cmd.Process.Signal(sig)
}

func (s *Session) Kill() {
	if s.cmd != nil && s.cmd.Process != nil && !s.exited.Load() {
		s.cmd.Process.Kill()
	}
}

// Wait waits for the process to exit; returns what it printed on stdout and its exit status.
func (s *Session) Wait(timeout time.Duration) (string, int, bool) {
	select {
	case <-s.done:
	case <-time.After(timeout):
		return "", 0, false
	}
	select {
	case <-s.outEnd:
	case <-time.After(2 * time.Second): // a grandchild may hold the pipe; do not hang on it
	}
	s.mu.Lock()
	defer s.mu.Unlock()
	return s.stdout.String(), s.code, true
}

func (s *Session) Close() {
	s.CloseFeed()
	s.Kill()
	select {
	case <-s.done:
	case <-time.After(5 * time.Second):
	}
	s.master.Close()
	os.RemoveAll(s.Dir)
	s.relOnce.Do(func() { releasePort(s.Port) })
}

// ---- --listen client (raw HTTP/1.1 over TCP; the server closes the connection after one answer) ----

func (s *Session) roundTrip(req string) (status int, body string, err error) {
	if s.Port == 0 {
		return 0, "", errors.New("session started without --listen")
	}
	var conn net.Conn
	for try := 0; ; try++ {
		conn, err = net.DialTimeout("tcp", "127.0.0.1:"+strconv.Itoa(s.Port), 2*time.Second)
		if err == nil {
			break
		}
		if s.exited.Load() {
			return 0, "", ErrGone
		}
		if try >= 3 {
			return 0, "", err
		}
		time.Sleep(time.Millisecond)
	}
	defer conn.Close()
	conn.SetDeadline(time.Now().Add(15 * time.Second))
	if _, err = io.WriteString(conn, req); err != nil {
		if s.exited.Load() {
			return 0, "", ErrGone
		}
		return 0, "", err
	}
	data, err := io.ReadAll(conn)
	if len(data) == 0 {
		if s.exited.Load() || s.waitExit(300*time.Millisecond) {
			return 0, "", ErrGone
		}
		if err == nil {
			err = errors.New("empty HTTP answer")
		}
		return 0, "", err
	}
	head, rest, _ := bytes.Cut(data, []byte("\r\n\r\n"))
	line, _, _ := bytes.Cut(head, []byte("\r\n"))
	f := strings.Fields(string(line))
	if len(f) >= 2 {
		status, _ = strconv.Atoi(f[1])
	}
	return status, string(rest), nil
}

func (s *Session) waitExit(d time.Duration) bool {
	select {
	case <-s.done:
		return true
	case <-time.After(d):
		return false
	}
}

func (s *Session) Post(actions string) error {
	req := "POST / HTTP/1.1\r\nHost: localhost\r\nContent-Length: " + strconv.Itoa(len(actions)) + "\r\n\r\n" + actions
	st, body, err := s.roundTrip(req)
	if err != nil {
		return err
	}
	if st != 200 {
		return fmt.Errorf("POST %q: HTTP %d %s", actions, st, strings.TrimSpace(body))
	}
	return nil
}

func (s *Session) Get() (*FzfState, error) {
	st, body, err := s.roundTrip("GET /?limit=100000 HTTP/1.1\r\nHost: localhost\r\n\r\n")
	if err != nil {
		return nil, err
	}
	if st != 200 {
		return nil, fmt.Errorf("GET: HTTP %d %s", st, strings.TrimSpace(body))
	}
	var out FzfState
	if err := json.Unmarshal([]byte(body), &out); err != nil {
		return nil, fmt.Errorf("GET: %v in %q", err, body)
	}
	return &out, nil
}

func (s *Session) nextMarker() (string, string) {
	k := atomic.AddInt64(&s.marker, 1)
	name := "m_" + s.nonce + "_" + strconv.FormatInt(k, 10) // the nonce keeps a stray POST of another session from faking a marker
	return name, filepath.Join(s.Dir, name)
}

func (s *Session) waitMarker(path string) error {
	// 30 s: the marker needs a fork+exec of the shell by fzf; on a machine running several suites at once that alone
	// has been seen to take longer than 10 s (five sessions of one thorough run, none reproducible)
	deadline := time.Now().Add(30 * time.Second)
	for i := 0; ; i++ {
		if _, err := os.Stat(path); err == nil {
			os.Remove(path)
			return nil
		}
		if s.exited.Load() {
			return ErrGone
		}
		if time.Now().After(deadline) {
			return errors.New("sync marker not seen within 30 s")
		}
		if i < 200 {
			time.Sleep(100 * time.Microsecond)
		} else {
			time.Sleep(time.Millisecond)
		}
	}
}

// Sync: every action list queued before this call has been processed when it returns.
// (the event loop runs action lists in order; execute-silent runs the command before going on)
func (s *Session) Sync() error {
	name, path := s.nextMarker()
	if err := s.Post("execute-silent(: > " + name + ")"); err != nil {
		return err
	}
	return s.waitMarker(path)
}

// PostSync posts actions followed by the marker in ONE list.  Do not use with actions that end fzf.
func (s *Session) PostSync(actions string) error {
	name, path := s.nextMarker()
	if err := s.Post(actions + "+execute-silent(: > " + name + ")"); err != nil {
		return err
	}
	return s.waitMarker(path)
}

// WaitFor polls GET until pred holds (eventually-equal within timeout); returns the last state seen.
func (s *Session) WaitFor(pred func(*FzfState) bool, timeout time.Duration) (*FzfState, bool) {
	deadline := time.Now().Add(timeout)
	var last *FzfState
	for i := 0; ; i++ {
		st, err := s.Get()
		if err == nil {
			last = st
			if pred(st) {
				return st, true
			}
		} else if errors.Is(err, ErrGone) {
			return last, false
		}
		if time.Now().After(deadline) {
			return last, false
		}
		if i < 50 {
			time.Sleep(time.Millisecond)
		} else {
			time.Sleep(10 * time.Millisecond)
		}
	}
}

// ---- self test: runners["PTYSELFTEST"] ----

func runPtySelfTest(c *Ctx) {
	c.Rep.Rule = "pty library self test: 50 lines, change-query(3)+down, GET, accept; non-trivial = every one"
	n := c.N(20, 200)
	lines := []string{}
	for i := 1; i <= 50; i++ {
		lines = append(lines, fmt.Sprintf("line %d", i))
	}
	var startNs, rtNs, rts int64
	run := func(i int, r *RNG) {
		height := []string{"--height=12", "--height=100%", "--no-height"}[i%3]
		t0 := time.Now()
		s, err := StartSession(c, SessionOpts{Args: []string{height, "--no-sort"}, Lines: lines, Cols: 60, Rows: 20})
		if err != nil {
			c.Rep.Disagreement(Disagreement{Kind: "spec", Name: "pty.start", Input: i, Impl: err.Error(), Expect: "started"})
			return
		}
		defer s.Close()
		atomic.AddInt64(&startNs, int64(time.Since(t0)))
		fail := func(what string, got, want interface{}) {
			c.Rep.Disagreement(Disagreement{Kind: "spec", Name: "pty." + what, Input: i, Impl: got, Expect: want})
		}
		t1 := time.Now()
		if err := s.Post("change-query(3)+down"); err != nil {
			fail("post", err.Error(), "200")
			return
		}
		if err := s.Sync(); err != nil {
			fail("sync", err.Error(), "ok")
			return
		}
		// the list converges asynchronously: 14 lines contain a 3
		st, ok := s.WaitFor(func(st *FzfState) bool { return st.Query == "3" && st.MatchCount == 14 }, 10*time.Second)
		atomic.AddInt64(&rtNs, int64(time.Since(t1)))
		if !ok {
			fail("state", st, "query 3, 14 matches")
			return
		}
		// 30 measured round trips: Post+Sync+Get
		t2 := time.Now()
		for k := 0; k < 30; k++ {
			if err := s.PostSync(Pick(r, []string{"up", "down"})); err != nil {
				fail("postsync", err.Error(), "ok")
				return
			}
			if _, err := s.Get(); err != nil {
				fail("get", err.Error(), "ok")
				return
			}
		}
		atomic.AddInt64(&rtNs, int64(time.Since(t2)))
		atomic.AddInt64(&rts, 31)
		s.Post("first+up")
		s.Sync()
		st, _ = s.Get()
		if st == nil || st.Position != 1 || st.Current == nil || st.Current.Text != "line 13" || st.TotalCount != 50 {
			fail("state2", st, "position 1 = line 13 (matches of 3 in input order: 3, 13, 23, 30..39, 43)")
			return
		}
		// a typed key goes through the terminal
		s.SendKeys([]byte("0"))
		st, ok = s.WaitFor(func(st *FzfState) bool { return st.Query == "30" && st.MatchCount == 1 }, 10*time.Second)
		if !ok {
			fail("typed", st, "query 30, 1 match")
			return
		}
		if err := s.Post("accept"); err != nil && !errors.Is(err, ErrGone) {
			fail("accept", err.Error(), "200 or connection lost")
		}
		out, code, ok := s.Wait(10 * time.Second)
		if !ok || code != 0 || out != "line 30\n" {
			fail("result", fmt.Sprintf("%q code=%d exited=%v", out, code, ok), "\"line 30\\n\" code=0")
		}
		if cr := s.Crash(); cr != "" {
			fail("crash", cr, "")
		}
		c.Rep.Eval(fmt.Sprint("selftest", i), true)
		c.Rep.Count(height)
	}
	par := 8
	var wg sync.WaitGroup
	ch := make(chan int)
	t0 := time.Now()
	for w := 0; w < par; w++ {
		wg.Add(1)
		go func() {
			defer wg.Done()
			for i := range ch {
				run(i, NewRNG(c.Seed+uint64(i)))
			}
		}()
	}
	for i := 0; i < n; i++ {
		ch <- i
	}
	close(ch)
	wg.Wait()
	c.Rep.Extra["sessions"] = n
	c.Rep.Extra["wall_s"] = time.Since(t0).Seconds()
	if n > 0 && rts > 0 {
		c.Rep.Extra["mean_startup_ms"] = float64(startNs) / float64(n) / 1e6
		c.Rep.Extra["mean_post_sync_get_ms"] = float64(rtNs) / float64(rts) / 1e6
		c.Rep.Extra["round_trips_per_s_per_session"] = float64(rts) / (float64(rtNs) / 1e9)
	}
}

func init() { runners["PTYSELFTEST"] = runPtySelfTest }
