package main

// c18proc.go — C18 at the level of the PROGRAM: the history file as the real fzf binary maintains it across runs.
//
// A case is a file system of two history files (H, O: missing / empty / with entries), a candidate list, and a
// sequence of runs of the binary on a pty.  Each run has its own option words spread over the three layers
// ($FZF_DEFAULT_OPTS_FILE, $FZF_DEFAULT_OPTS, command line): --history FILE / --history=FILE, --history-size N /
// --history-size=N in either order, overridden earlier values, --no-history, other words in between; an optional
// --query; steps at the prompt (set / extend / shorten the query, previous-history, next-history), either typed on
// the terminal (ctrl-p / ctrl-n / characters) or POSTed as actions; and an ending: accept with or without a match
// (exit status 0 / 1), print-query, accept-or-print-query, become, abort (esc, ctrl-c, ctrl-g), SIGTERM, SIGINT.
// Among the steps there are ATTEMPTS (step type 5, c18Attempts): actions that end the session - and submit the query -
// only when there is an item to act on (become with an item placeholder {} / {+} {n} / {1}, accept-non-empty) and are
// ignored otherwise; they are mostly tried on a query that matches nothing (`fzf -f` is the oracle, the match list has
// settled), once or several times in a row, and the session then goes on (more steps, any ending).  An attempt that
// finds an item is the ending of the run (what follows is not carried out).
//
// After EVERY STEP, while the session is open (Kind "spec"):
//   edits_never_written (program runs, session still open)   nothing has been submitted yet, so every file stores the
//                                          entries it stored when the run began (HistoryLoopProofs.open_session_unchanged)
// After EVERY run the spec is evaluated on what the program left behind (Kind "spec"):
//   sessions_keep_last_n (program runs)   every file holds HistoryProcSpec.proc_step of what it held before: the last
//                                          N of (entries ++ [query]) if the option list of the run names this file with
//                                          limit N (eff_config: LAST --history, LAST --history-size, default 1000), the
//                                          ending submits and the query is non-empty; unchanged otherwise
//   edits_come_back (program runs)        what every previous/next showed = the navigation spec over the entries that
//                                          were stored when the run began
// and the whole case is compared with the extracted model of options.go/terminal.go (op 1805; Kind "corr") and with the
// model of the action loop that takes the attempts as steps (op 1808, HistoryLoopModel.run_lsession; the spec's reading
// of the steps, HistoryLoopSpec.amounts_to, op 1809).
// A size given in an EARLIER LAYER than --history is forgotten by fzf (finding c17-history-size-layering, reproduced by
// the model: Properties/C18.history_options_layers_refuted): such a run is classified under that id iff the files are
// exactly what the faithful model predicts.
//
// Timing: every observation is made after a hand-shake (POST: marker; typed keys: a sentinel character that is typed
// after the keys and seen in the query); the ending is sent when the match list has settled for the query; a case
// that fails is run a second time from scratch and reported only if it fails again.

import (
	"encoding/json"
	"fmt"
	"os"
	"path/filepath"
	"strings"
	"sync"
	"sync/atomic"
	"syscall"
	"time"
)

type c18Tok struct {
	K  string `json:"k"`            // hist | nohist | size | other
	P  string `json:"p,omitempty"`  // hist: which file (H | O)
	N  int    `json:"n,omitempty"`  // size
	W  string `json:"w,omitempty"`  // other: the word
	Eq bool   `json:"eq,omitempty"` // --opt=value instead of --opt value
}

type c18PStep struct {
	T int    `json:"t"` // 0 set the query to S, 1 previous-history, 2 next-history, 3 append S, 4 delete the last K characters,
	// 5 attempt: action c18Attempts[K] that ends the session only if the match list is not empty and is ignored otherwise
	S string `json:"s,omitempty"`
	K int    `json:"k,omitempty"`
}

type c18PSess struct {
	Layers [][]c18Tok `json:"layers"` // [options file, FZF_DEFAULT_OPTS, command line]
	Query  *string    `json:"query,omitempty"`
	Via    string     `json:"via"` // post | keys
	Steps  []c18PStep `json:"steps"`
	End    string     `json:"end"` // accept | print-query | accept-or-print-query | become | abort | sigterm | sigint
	Var    int        `json:"var,omitempty"`
}

type c18PCase struct {
	Kind     string             `json:"kind"` // "proc"
	Files    map[string]*string `json:"files"`
	Items    []string           `json:"items"`
	Sessions []c18PSess         `json:"sessions"`
}

const c18Sentinel = "#"

var c18ProcSeq int64
var c18ShrinkMu sync.Mutex
var c18Shrunk = map[string]int{}

func c18TokWords(t c18Tok, paths map[string]string) []string {
	switch t.K {
	case "hist":
		if t.Eq {
			return []string{"--history=" + paths[t.P]}
		}
		return []string{"--history", paths[t.P]}
	case "nohist":
		return []string{"--no-history"}
	case "size":
		if t.Eq {
			return []string{fmt.Sprintf("--history-size=%d", t.N)}
		}
		return []string{"--history-size", fmt.Sprint(t.N)}
	}
	return []string{t.W}
}

func c18TokVal(t c18Tok) Val {
	switch t.K {
	case "hist":
		return L(I(0), Bytes(t.P))
	case "nohist":
		return L(I(1))
	case "size":
		return L(I(2), I(t.N))
	}
	return L(I(3))
}

func c18LayersVal(ls [][]c18Tok) Val {
	out := []Val{}
	for _, l := range ls {
		ws := []Val{}
		for _, t := range l {
			ws = append(ws, c18TokVal(t))
		}
		out = append(out, L(ws...))
	}
	return L(out...)
}

func c18FsVal(p *string) Val {
	if p == nil {
		return L()
	}
	return L(Bytes(*p))
}

func c18ReadFile(path string) *string {
	b, err := os.ReadFile(path)
	if err != nil {
		return nil
	}
	s := string(b)
	return &s
}

func c18Show(p *string) string {
	if p == nil {
		return "<missing>"
	}
	return fmt.Sprintf("%q", *p)
}

// what one run left behind
type c18PObs struct {
	Files map[string]*string
	Seen  []string
	Input string
	Code  int
	Ops   []Val // the steps as the model sees them (edits carry the text the prompt actually showed)
	EndV  int
	EndName string // the ending that took place (the configured one, or the attempt that fired)
	LSteps  []Val  // the steps as the model of the action loop sees them: Ops plus the attempts [5, ending, has_item]
}

type c18PRun struct {
	c     *Ctx
	cs    c18PCase
	dir   string
	paths map[string]string
	fails []Disagreement
	stats map[string]int
}

func (x *c18PRun) fail(kind, name string, impl, expect interface{}, known string) {
	x.fails = append(x.fails, Disagreement{Kind: kind, Name: name, Input: x.cs, Impl: impl, Expect: expect, Known: known})
}

var c18EndKeys = map[string][]string{
	"accept":                {"\r"},
	"abort":                 {"\x03", "\x07", "\x1b"},
	"print-query":           {"\x14"}, // ctrl-t, bound below
	"accept-or-print-query": {"\x0f"}, // ctrl-o
	"become":                {"\x19"}, // ctrl-y
}

const c18FixedBind = "--bind=ctrl-t:print-query,ctrl-o:accept-or-print-query,ctrl-y:become(true)"

// Actions that end the session (and submit the query) only when there is something to act on - become with an item
// placeholder needs a current item, accept-non-empty needs a non-empty list - and are IGNORED otherwise: the session
// goes on and nothing has been submitted.  EndV: the ending the action amounts to when it fires.
type c18Attempt struct {
	Act  string // POSTed action
	Bind string // key name for --bind
	Key  string // the byte typed
	EndV int
}

var c18Attempts = []c18Attempt{
	{"become(echo {})", "ctrl-x", "\x18", 3},
	{"become(echo {+} {n})", "ctrl-]", "\x1d", 3},
	{"become(true {1})", "ctrl-^", "\x1e", 3},
	{"accept-non-empty", "ctrl-r", "\x12", 0},
}

func runeTrim(s string, k int) string {
	r := []rune(s)
	if k > len(r) {
		k = len(r)
	}
	return string(r[:len(r)-k])
}

// typedSync: type the sentinel, wait until the prompt shows it, take it back.  Returns the query without it.
func c18TypedSync(s *Session) (string, bool) {
	s.SendKeys([]byte(c18Sentinel))
	st, ok := s.WaitFor(func(f *FzfState) bool { return strings.HasSuffix(f.Query, c18Sentinel) }, 10*time.Second)
	if !ok || st == nil {
		return "", false
	}
	q := strings.TrimSuffix(st.Query, c18Sentinel)
	s.SendKeys([]byte("\x7f"))
	_, ok = s.WaitFor(func(f *FzfState) bool { return f.Query == q }, 10*time.Second)
	return q, ok
}

// one run of the binary; "" or a description of why the run could not be carried out
func (x *c18PRun) session(si int, before map[string]*string) (c18PObs, string) {
	c, ss := x.c, x.cs.Sessions[si]
	obs := c18PObs{Files: map[string]*string{}, Seen: []string{}}
	args := []string{c18FixedBind}
	for _, at := range c18Attempts {
		args = append(args, "--bind="+at.Bind+":"+at.Act)
	}
	env := []string{}
	for li, l := range ss.Layers {
		ws := []string{}
		for _, t := range l {
			ws = append(ws, c18TokWords(t, x.paths)...)
		}
		switch li {
		case 0:
			if len(ws) > 0 {
				p := filepath.Join(x.dir, fmt.Sprintf("optsfile%d", si))
				os.WriteFile(p, []byte(strings.Join(ws, "\n")+"\n"), 0600)
				env = append(env, "FZF_DEFAULT_OPTS_FILE="+p)
			}
		case 1:
			env = append(env, "FZF_DEFAULT_OPTS="+strings.Join(ws, " "))
		default:
			args = append(args, ws...)
		}
	}
	if ss.Query != nil {
		args = append(args, "--query="+*ss.Query)
		obs.Ops = append(obs.Ops, L(I(0), Bytes(*ss.Query)))
		obs.LSteps = append(obs.LSteps, L(I(0), Bytes(*ss.Query)))
	}
	// A start can fail for reasons that have nothing to do with fzf (the --listen port was taken by another process
	// between choosing it and fzf's bind: exit status 2 before anything was drawn).  Nothing has happened to the files
	// then beyond NewHistory creating them, so the start is simply tried again.
	var s *Session
	var err error
	for try := 0; try < 5; try++ {
		s, err = StartSession(c, SessionOpts{Args: args, Lines: x.cs.Items, Env: env})
		if err == nil {
			break
		}
		x.stats["proc:start_retried"]++
		time.Sleep(time.Duration(50*(try+1)) * time.Millisecond)
	}
	if err != nil {
		return obs, "start: " + err.Error()
	}
	defer s.Close()
	st, err := s.Get()
	if err != nil {
		return obs, "get: " + err.Error()
	}
	cur := st.Query
	if ss.Query != nil && cur != *ss.Query {
		obs.Ops[0] = L(I(0), Bytes(cur))
		obs.LSteps[0] = L(I(0), Bytes(cur))
		x.stats["edit_differs"]++
	}
	keys := ss.Via == "keys"
	observe := func() (string, bool) {
		if keys {
			return c18TypedSync(s)
		}
		g, err := s.Get()
		if err != nil {
			return "", false
		}
		return g.Query, true
	}
	// the match list has settled for the query the prompt shows; is it non-empty?  (`fzf -f` is the oracle)
	settle := func() bool {
		_, _, fc := RunFzf(c, []string{"-f", cur}, []byte(strings.Join(x.cs.Items, "\n")+"\n"))
		matched := fc == 0
		s.WaitFor(func(f *FzfState) bool { return f.Query == cur && !f.Reading && (f.MatchCount > 0) == matched }, 10*time.Second)
		return matched
	}
	// while the session is open nothing has been submitted: every file stores what it stored when the run began
	// (a missing file that --history names has been created empty by then: no entries either way)
	openCheck := func(k int, what string) bool {
		c.Rep.mu.Lock()
		c.Rep.SpecChecks++
		c.Rep.mu.Unlock()
		for _, n := range []string{"H", "O"} {
			now := c18ReadFile(x.paths[n])
			if now == nil && before[n] == nil || now != nil && before[n] != nil && *now == *before[n] || now != nil && before[n] == nil && *now == "" {
				continue
			}
			got, want := x.entries(now), x.entries(before[n])
			if got.Equal(want) {
				continue
			}
			x.fail("spec", "edits_never_written (program runs, session still open)",
				fmt.Sprintf("run %d, after step %d (%s) the session is still open (query %q) and nothing has been submitted: file %s before %s now %s = entries %s",
					si, k, what, cur, n, c18Show(before[n]), c18Show(now), c18StrsText(got)),
				"entries "+c18StrsText(want), "")
			return false
		}
		return true
	}
	var fired *c18Attempt
	for k, stp := range ss.Steps {
		var act, typed string
		want := cur
		switch stp.T {
		case 5:
			at := c18Attempts[((stp.K%len(c18Attempts))+len(c18Attempts))%len(c18Attempts)]
			typed, act = at.Key, at.Act
			if settle() {
				fired = &at // there is an item to act on: the action ends the session
				x.stats["proc:attempts_that_end_the_run"]++
			} else {
				x.stats["proc:attempts_on_empty_list"]++
			}
			obs.LSteps = append(obs.LSteps, L(I(5), I(at.EndV), B(fired != nil)))
		case 0:
			want = stp.S
			typed = "\x15" + stp.S
			act = "change-query(" + stp.S + ")"
			if stp.S == "" {
				act = "clear-query"
			}
		case 1:
			typed, act = "\x10", "prev-history"
			if stp.K == 1 {
				act = "previous-history"
			}
		case 2:
			typed, act = "\x0e", "next-history"
		case 3:
			want = cur + stp.S
			typed, act = stp.S, "put("+stp.S+")"
		case 4:
			want = runeTrim(cur, stp.K)
			n := stp.K
			if n < 1 {
				n = 1
			}
			typed = strings.Repeat("\x7f", n)
			act = strings.TrimSuffix(strings.Repeat("backward-delete-char+", n), "+")
		}
		if fired != nil {
			if keys {
				s.SendKeys([]byte(typed))
			} else {
				s.Post(act) // the answer may be lost with the process
			}
			break
		}
		if keys {
			s.SendKeys([]byte(typed))
		} else if err := s.PostSync(act); err != nil {
			return obs, fmt.Sprintf("step %d (%s): %v crash=%s", k, act, err, s.Crash())
		}
		got, ok := observe()
		if !ok {
			return obs, fmt.Sprintf("step %d (%s): the prompt could not be observed; crash=%s", k, act, s.Crash())
		}
		cur = got
		if stp.T == 1 || stp.T == 2 {
			obs.Ops = append(obs.Ops, L(I(stp.T)))
			obs.LSteps = append(obs.LSteps, L(I(stp.T)))
			obs.Seen = append(obs.Seen, got)
		} else {
			if got != want {
				x.stats["edit_differs"]++
			}
			if stp.T != 5 || got != want {
				obs.Ops = append(obs.Ops, L(I(0), Bytes(got)))
				obs.LSteps = append(obs.LSteps, L(I(0), Bytes(got)))
			}
		}
		if !openCheck(k, act) {
			obs.Input = cur
			return obs, ""
		}
	}
	obs.Input = cur
	endName := ss.End
	matched := true
	if fired != nil {
		endName = "attempt:" + fired.Act
	} else {
		// let the match list settle for the final query, so that accept meets the list the query asks for
		matched = settle()
	}
	switch endName {
	default:
		if fired != nil {
			break // already sent
		}
		if keys {
			ks := c18EndKeys[ss.End]
			s.SendKeys([]byte(ks[ss.Var%len(ks)]))
		} else {
			act := ss.End
			if act == "become" {
				act = "become(true)"
			}
			s.Post(act) // the answer may be lost with the process
		}
	case "sigterm", "sigint":
		// fzf deliberately ignores SIGINT while a command of an execute action is running (the marker command of the
		// last hand-shake may not have been reaped yet): the signal is sent again until the process is gone
		sig := syscall.SIGTERM
		if ss.End == "sigint" {
			sig = syscall.SIGINT
		}
		for try := 0; try < 14 && !s.Exited(); try++ {
			s.Signal(sig)
			if s.waitExit(time.Second) {
				break
			}
		}
	}
	_, code, ok := s.Wait(15 * time.Second)
	if !ok {
		return obs, fmt.Sprintf("the run did not end within 15 s after %s (%s); crash=%s", endName, ss.Via, s.Crash())
	}
	obs.Code = code
	obs.EndName = endName
	if fired != nil {
		obs.EndV = fired.EndV
		x.stats[fmt.Sprintf("end=%s exit=%d", endName, code)]++
		for _, n := range []string{"H", "O"} {
			obs.Files[n] = c18ReadFile(x.paths[n])
		}
		return obs, ""
	}
	switch ss.End {
	case "accept":
		obs.EndV = 1
		if code == 0 {
			obs.EndV = 0
		}
	case "accept-or-print-query":
		obs.EndV = 2
		if matched {
			obs.EndV = 0
		}
	case "print-query":
		obs.EndV = 2
	case "become":
		obs.EndV = 3
	default:
		obs.EndV = 4
	}
	x.stats[fmt.Sprintf("end=%s exit=%d", ss.End, code)]++
	for _, n := range []string{"H", "O"} {
		obs.Files[n] = c18ReadFile(x.paths[n])
	}
	return obs, ""
}

func (x *c18PRun) entries(p *string) Val {
	if p == nil {
		return x.c.Model.Call(1803, Bytes(""))
	}
	return x.c.Model.Call(1803, Bytes(*p))
}

// run the whole case once in a fresh directory
func c18ProcOnce(c *Ctx, cs c18PCase) *c18PRun {
	id := atomic.AddInt64(&c18ProcSeq, 1)
	base := c.Work
	if base == "" {
		base = os.TempDir()
	}
	dir := filepath.Join(base, fmt.Sprintf("c18p-%d", id))
	os.MkdirAll(dir, 0755)
	defer os.RemoveAll(dir)
	x := &c18PRun{c: c, cs: cs, dir: dir, paths: map[string]string{"H": filepath.Join(dir, "hist"), "O": filepath.Join(dir, "other")},
		stats: map[string]int{}}
	before := map[string]*string{}
	for _, n := range []string{"H", "O"} {
		os.Remove(x.paths[n])
		if f := cs.Files[n]; f != nil {
			os.WriteFile(x.paths[n], []byte(*f), 0600)
			v := *f
			before[n] = &v
		} else {
			before[n] = nil
		}
	}
	filesV := L(L(Bytes("H"), c18FsVal(before["H"])), L(Bytes("O"), c18FsVal(before["O"])))
	sessV := []Val{}
	lsessV := []Val{}
	all := []c18PObs{}
	for si := range cs.Sessions {
		obs, problem := x.session(si, before)
		if problem != "" {
			x.fail("spec", "session_runs", fmt.Sprintf("run %d: %s", si, problem), "the run starts, answers and ends", "")
			return x
		}
		if len(x.fails) > 0 { // a check made while the session was open failed
			return x
		}
		ss := cs.Sessions[si]
		lv := c18LayersVal(ss.Layers)
		sessV = append(sessV, L(lv, L(obs.Ops...), I(obs.EndV)))
		all = append(all, obs)
		sp := c.Model.Call(1806, lv) // [config the option list asks for, layered_ok]
		if len(sp.L) != 2 {
			x.fail("corr", "corr:C18.eff_config", "-", sp.String(), "")
			return x
		}
		cfg, layeredOk := sp.L[0], sp.L[1].I != 0
		// the model's prediction for the case so far (needed to classify the layering finding)
		mv := c.Model.Call(1805, L(filesV, L(sessV...)))
		var mOne Val
		if len(mv.L) == len(sessV) && len(mv.L[si].L) == 4 {
			mOne = mv.L[si]
		}
		implFiles := L(c18FsVal(obs.Files["H"]), c18FsVal(obs.Files["O"]))
		c.Rep.mu.Lock()
		c.Rep.SpecChecks++
		c.Rep.mu.Unlock()
		specBad := false
		for _, n := range []string{"H", "O"} {
			got := x.entries(obs.Files[n])
			want := c.Model.Call(1807, L(cfg, I(obs.EndV), Bytes(obs.Input), Bytes(n), x.entries(before[n])))
			if got.Equal(want) {
				continue
			}
			specBad = true
			known := ""
			if !layeredOk && mOne.IsList && len(mOne.L) == 4 && mOne.L[0].Equal(implFiles) && !mOne.L[1].Equal(cfg) {
				known = "c17-history-size-layering"
			}
			x.fail("spec", "sessions_keep_last_n (program runs)",
				fmt.Sprintf("run %d (options ask for %s; ended by %s, exit status %d, query %q): file %s before %s after %s = entries %s",
					si, c18CfgText(cfg), obs.EndName, obs.Code, obs.Input, n, c18Show(before[n]), c18Show(obs.Files[n]), c18StrsText(got)),
				"entries "+c18StrsText(want), known)
			break
		}
		// navigation: what previous/next showed, over the entries stored in the configured file when the run began
		if len(cfg.L) == 2 && len(obs.Seen) > 0 {
			want := c.Model.Call(1804, L(x.entries(before[cfg.L[0].Str()]), L(obs.Ops...)))
			if !want.Equal(Strs(obs.Seen)) {
				specBad = true
				x.fail("spec", "edits_come_back (program runs)", fmt.Sprintf("run %d: previous/next showed %q", si, obs.Seen), "shown "+c18StrsText(want), "")
			}
		}
		// correspondence with the model of options.go / terminal.go: file bytes, shown strings, query at the end
		if !specBad {
			if !mOne.IsList || len(mOne.L) != 4 {
				x.fail("corr", "corr:C18.run_psession", implFiles.String(), mv.String(), "")
			} else if !mOne.L[0].Equal(implFiles) || !mOne.L[2].Equal(Strs(obs.Seen)) || !mOne.L[3].Equal(Bytes(obs.Input)) {
				x.fail("corr", "corr:C18.run_psession", L(implFiles, Strs(obs.Seen), Bytes(obs.Input)).String(), mOne.String(), "")
			}
		}
		if specBad {
			return x
		}
		// correspondence with the model of the action loop (attempts included as steps): files, shown strings, query,
		// and the ending that took place; and the spec's reading of the steps (amounts_to) against what was observed
		{
			given := obs.EndV
			if strings.HasPrefix(obs.EndName, "attempt:") {
				given = 4 // never reached
			}
			lsessV = append(lsessV, L(lv, L(obs.LSteps...), I(given)))
			lm := c.Model.Call(1808, L(filesV, L(lsessV...)))
			wantL := L(implFiles, cfg, Strs(obs.Seen), Bytes(obs.Input), I(obs.EndV))
			if len(lm.L) != len(lsessV) || len(lm.L[si].L) != 5 {
				x.fail("corr", "corr:C18.run_lsession", wantL.String(), lm.String(), "")
			} else if g := lm.L[si]; !g.L[0].Equal(implFiles) || !g.L[2].Equal(Strs(obs.Seen)) || !g.L[3].Equal(Bytes(obs.Input)) || !g.L[4].Equal(I(obs.EndV)) {
				if len(x.fails) == 0 { // a layering finding is reported once, by the checks above
					x.fail("corr", "corr:C18.run_lsession", wantL.String(), g.String(), "")
				}
			}
			am := c.Model.Call(1809, L(L(obs.LSteps...), I(given)))
			if !am.Equal(L(L(obs.Ops...), I(obs.EndV))) {
				x.fail("corr", "corr:C18.amounts_to", L(L(obs.Ops...), I(obs.EndV)).String(), am.String(), "")
			}
		}
		for _, n := range []string{"H", "O"} {
			before[n] = obs.Files[n]
		}
	}
	// bookkeeping for the evidence
	rec := 0
	for i, o := range all {
		if o.EndV != 4 && o.Input != "" {
			rec++
		}
		x.stats["proc:via="+cs.Sessions[i].Via]++
		x.stats["proc:nav_steps"] += len(o.Seen)
	}
	x.stats["proc:recorded_submissions"] += rec
	x.stats[fmt.Sprintf("proc:runs=%d", len(cs.Sessions))]++
	if rec > 0 {
		x.stats["nontrivial"] = 1
	}
	return x
}

func c18CfgText(v Val) string {
	if len(v.L) != 2 {
		return "no history"
	}
	return fmt.Sprintf("file %s, limit %d", v.L[0].Str(), v.L[1].I)
}

func c18StrsText(v Val) string {
	out := []string{}
	for _, e := range v.L {
		out = append(out, e.Str())
	}
	return fmt.Sprintf("%q", out)
}

func c18ProcCheck(c *Ctx, cs c18PCase) {
	x := c18ProcOnce(c, cs)
	unknown := func(x *c18PRun) bool {
		for _, d := range x.fails {
			if d.Known == "" {
				return true
			}
		}
		return false
	}
	if unknown(x) {
		// timing-dependent observations: run the case again from scratch before reporting
		c.Rep.Count("proc:retried")
		for _, d := range x.fails {
			if d.Known == "" {
				c.Rep.mu.Lock()
				l, _ := c.Rep.Extra["proc_first_attempt_failures"].([]string)
				if len(l) < 10 {
					c.Rep.Extra["proc_first_attempt_failures"] = append(l, fmt.Sprintf("%s: %v", d.Name, d.Impl))
				}
				c.Rep.mu.Unlock()
				break
			}
		}
		x = c18ProcOnce(c, cs)
		if unknown(x) && c.Replay == "" {
			// the first three failures of each check are reduced and reported; further ones are only counted
			name := ""
			for _, d := range x.fails {
				if d.Known == "" {
					name = d.Name
					break
				}
			}
			c18ShrinkMu.Lock()
			c18Shrunk[name]++
			k := c18Shrunk[name]
			c18ShrinkMu.Unlock()
			if k > 3 {
				c.Rep.Count("proc:further_failures_of " + name)
				c.Rep.Eval(fmt.Sprint("more", k, name), false)
				return
			}
			x = c18ProcShrink(c, x, unknown)
			cs = x.cs
		}
	}
	key, _ := json.Marshal(cs)
	c.Rep.Eval(string(key), x.stats["nontrivial"] == 1)
	c.Rep.mu.Lock()
	c.Rep.ImplTraces++
	c.Rep.mu.Unlock()
	for _, d := range x.fails {
		c.Rep.Disagreement(d)
	}
	for k, v := range x.stats {
		if k != "nontrivial" {
			c.Rep.CountN(k, v)
		}
	}
	c.Rep.Count("proc:cases")
	if len(cs.Sessions) <= 2 {
		c.Rep.Sample(cs)
	}
}

// c18ProcShrink: greedy reduction of a failing case (runs after the failing one, earlier runs, steps, single option words,
// the other file); every candidate is run for real and kept only if it still fails with the
// same check name.  At most 40 runs of the program sequence.
func c18ProcShrink(c *Ctx, x *c18PRun, unknown func(*c18PRun) bool) *c18PRun {
	name := ""
	for _, d := range x.fails {
		if d.Known == "" {
			name = d.Name
			break
		}
	}
	budget := 40
	still := func(cand c18PCase) *c18PRun {
		if budget <= 0 {
			return nil
		}
		budget--
		y := c18ProcOnce(c, cand)
		for _, d := range y.fails {
			if d.Known == "" && d.Name == name {
				return y
			}
		}
		return nil
	}
	clone := func(cs c18PCase) c18PCase {
		b, _ := json.Marshal(cs)
		var out c18PCase
		json.Unmarshal(b, &out)
		return out
	}
	best := x
	// the failing run is the last one that was executed: cut what follows
	for n := 1; n < len(best.cs.Sessions); n++ {
		cand := clone(best.cs)
		cand.Sessions = cand.Sessions[:n]
		if y := still(cand); y != nil {
			best = y
			break
		}
	}
	for changed := true; changed && budget > 0; {
		changed = false
		for i := 0; i < len(best.cs.Sessions) && len(best.cs.Sessions) > 1; i++ {
			cand := clone(best.cs)
			cand.Sessions = append(cand.Sessions[:i], cand.Sessions[i+1:]...)
			if y := still(cand); y != nil {
				best, changed = y, true
				i--
			}
		}
		for i := range best.cs.Sessions {
			for k := 0; k < len(best.cs.Sessions[i].Steps); k++ {
				cand := clone(best.cs)
				st := cand.Sessions[i].Steps
				cand.Sessions[i].Steps = append(st[:k], st[k+1:]...)
				if y := still(cand); y != nil {
					best, changed = y, true
					k--
				}
			}
			for li := 0; li < len(best.cs.Sessions[i].Layers); li++ {
				for k := 0; k < len(best.cs.Sessions[i].Layers[li]); k++ {
					cand := clone(best.cs)
					l := cand.Sessions[i].Layers[li]
					cand.Sessions[i].Layers[li] = append(l[:k], l[k+1:]...)
					if y := still(cand); y != nil {
						best, changed = y, true
						k--
					}
				}
			}
		}
		if best.cs.Files["O"] != nil {
			cand := clone(best.cs)
			cand.Files["O"] = nil
			if y := still(cand); y != nil {
				best, changed = y, true
			}
		}
	}
	return best
}

// c18ProcParse recognises a program-level case (bare, or wrapped in a replay file)
func c18ProcParse(b []byte) (c18PCase, bool) {
	var w struct{ Input c18PCase }
	if json.Unmarshal(b, &w) == nil && w.Input.Kind == "proc" {
		return w.Input, true
	}
	var cs c18PCase
	if json.Unmarshal(b, &cs) == nil && cs.Kind == "proc" {
		return cs, true
	}
	return cs, false
}

// ---- generator ----

var c18Items = []string{"apple", "banana", "cherry", "date", "elder berry", "fig"}

func c18ProcGen(r *RNG) c18PCase {
	alpha := []string{"a", "e", "r", "p", "n", "a", "e", "z", "q", " ", "é", "'"}
	word := func() string {
		if r.Chance(1, 8) {
			return ""
		}
		n := r.Range(1, 4)
		s := ""
		for i := 0; i < n; i++ {
			s += Pick(r, alpha)
		}
		return s
	}
	cs := c18PCase{Kind: "proc", Files: map[string]*string{}, Items: c18Items}
	// the limit of the case: small, or none at all (default 1000, with a file about that long)
	limit := Pick(r, []int{1, 1, 2, 2, 3, 3, 4, 5})
	big := r.Chance(1, 14)
	genFile := func(maxEntries int) *string {
		switch r.Intn(8) {
		case 0:
			return nil
		case 1:
			s := ""
			return &s
		}
		n := r.Range(0, maxEntries)
		parts := []string{}
		for i := 0; i < n; i++ {
			if r.Chance(1, 12) {
				parts = append(parts, "")
			} else {
				parts = append(parts, word()+"w")
			}
		}
		s := strings.Join(parts, "\n")
		if r.Chance(2, 3) {
			s += "\n"
		}
		if r.Chance(1, 8) {
			s = "\n\n" + s + "\n"
		}
		return &s
	}
	if big {
		n := r.Range(997, 1003)
		var b strings.Builder
		for i := 0; i < n; i++ {
			fmt.Fprintf(&b, "e%d\n", i)
		}
		s := b.String()
		cs.Files["H"] = &s
	} else {
		cs.Files["H"] = genFile(limit + 3)
	}
	cs.Files["O"] = genFile(3)
	others := []string{"--cycle", "--no-mouse", "--info=inline", "--no-bold", "--reverse", "--no-hscroll", "--prompt=Q:"}
	ns := r.Range(1, 5)
	if big {
		ns = r.Range(2, 4)
	}
	for i := 0; i < ns; i++ {
		ss := c18PSess{Via: "post"}
		if r.Chance(2, 5) {
			ss.Via = "keys"
		}
		// the history words of this run, in order
		toks := []c18Tok{}
		hist := c18Tok{K: "hist", P: "H", Eq: r.Bool()}
		size := c18Tok{K: "size", N: limit, Eq: r.Bool()}
		if r.Chance(1, 10) { // an earlier size that the later one overrides
			toks = append(toks, c18Tok{K: "size", N: Pick(r, []int{1, 2, 7, 1000}), Eq: r.Bool()})
		}
		if r.Chance(1, 10) { // an earlier file that the later one overrides
			toks = append(toks, c18Tok{K: "hist", P: "O", Eq: r.Bool()})
		}
		if r.Chance(1, 12) {
			toks = append(toks, c18Tok{K: "nohist"})
		}
		switch {
		case big:
			toks = append(toks, hist)
		case r.Bool():
			toks = append(toks, hist, size)
		default:
			toks = append(toks, size, hist)
		}
		if r.Chance(1, 14) { // something that follows and wins
			switch r.Intn(3) {
			case 0:
				toks = append(toks, c18Tok{K: "nohist"})
			case 1:
				toks = append(toks, c18Tok{K: "hist", P: "O", Eq: r.Bool()})
			default:
				toks = append(toks, c18Tok{K: "hist", P: "H", Eq: r.Bool()})
			}
		}
		// other words in between
		mixed := []c18Tok{}
		for _, t := range toks {
			if r.Chance(1, 5) {
				mixed = append(mixed, c18Tok{K: "other", W: Pick(r, others)})
			}
			mixed = append(mixed, t)
		}
		// spread over the layers
		ss.Layers = [][]c18Tok{{}, {}, {}}
		switch d := r.Intn(12); {
		case d < 5:
			ss.Layers[2] = mixed
		case d < 7:
			ss.Layers[1] = mixed
		case d < 8:
			ss.Layers[0] = mixed
		case d < 10 || big:
			a := r.Range(0, len(mixed))
			b := r.Range(a, len(mixed))
			ss.Layers[0], ss.Layers[1], ss.Layers[2] = mixed[:a], mixed[a:b], mixed[b:]
		default:
			// file and size in different layers, the size never in an earlier layer than the last file
			ab := Pick(r, [][2]int{{0, 1}, {0, 2}, {1, 2}})
			var la, lb []c18Tok
			switch r.Intn(4) {
			case 0: // the limit travels with the History object into the layer that names the file again
				la = []c18Tok{{K: "hist", P: Pick(r, []string{"H", "O"}), Eq: r.Bool()}, size}
				lb = []c18Tok{hist}
			case 1: // a later layer sets the limit of the file named earlier
				la = []c18Tok{hist}
				lb = []c18Tok{size}
			case 2: // ... and overrides the one given there
				la = []c18Tok{{K: "size", N: Pick(r, []int{1, 2, 7, 1000}), Eq: r.Bool()}, hist}
				lb = []c18Tok{size}
			default:
				la = []c18Tok{size, hist}
				if r.Bool() {
					la = []c18Tok{hist, size}
				}
				lb = []c18Tok{{K: "other", W: Pick(r, others)}}
			}
			ss.Layers[ab[0]], ss.Layers[ab[1]] = la, lb
		}
		if r.Chance(1, 2) {
			q := word()
			ss.Query = &q
		}
		nst := r.Range(0, 6)
		if ss.Query == nil && nst == 0 {
			nst = 1
		}
		for j := 0; j < nst; j++ {
			switch d := r.Intn(20); {
			case d < 6:
				ss.Steps = append(ss.Steps, c18PStep{T: 0, S: word()})
			case d < 13:
				ss.Steps = append(ss.Steps, c18PStep{T: 1, K: r.Intn(2)})
			case d < 16:
				ss.Steps = append(ss.Steps, c18PStep{T: 2})
			case d < 18:
				w := word()
				if w == "" {
					w = "n"
				}
				ss.Steps = append(ss.Steps, c18PStep{T: 3, S: w})
			default:
				ss.Steps = append(ss.Steps, c18PStep{T: 4, K: r.Range(1, 2)})
			}
		}
		// attempts: actions that end the session only when the list is not empty (become with an item placeholder,
		// accept-non-empty), mostly tried on a query that matches nothing - where they must be ignored and leave no trace -
		// once or several times in a row, somewhere among the other steps; the session then goes on to its ending
		if r.Chance(1, 3) {
			block := []c18PStep{}
			if r.Chance(4, 5) {
				w := word() + Pick(r, []string{"z", "q", "zq"})
				if r.Chance(1, 4) {
					block = append(block, c18PStep{T: 3, S: Pick(r, []string{"z", "q"})})
				} else {
					block = append(block, c18PStep{T: 0, S: w})
				}
			}
			for k := Pick(r, []int{1, 1, 1, 2, 3}); k > 0; k-- {
				block = append(block, c18PStep{T: 5, K: r.Intn(len(c18Attempts))})
			}
			at := r.Range(0, len(ss.Steps))
			steps := append([]c18PStep{}, ss.Steps[:at]...)
			steps = append(steps, block...)
			ss.Steps = append(steps, ss.Steps[at:]...)
		}
		switch d := r.Intn(20); {
		case d < 11:
			ss.End = "accept"
		case d < 14:
			ss.End = "abort"
		case d < 16:
			ss.End = "print-query"
		case d < 17:
			ss.End = "accept-or-print-query"
		case d < 18:
			ss.End = "become"
		case d < 19:
			ss.End = "sigterm"
		default:
			ss.End = "sigint"
		}
		ss.Var = r.Intn(6)
		cs.Sessions = append(cs.Sessions, ss)
	}
	return cs
}

func c18ProcRun(c *Ctx) {
	n := c.N(160, 5000)
	parallel(c, n, func(i int, r *RNG) { c18ProcCheck(c, c18ProcGen(r)) })
}
