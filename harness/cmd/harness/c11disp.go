package main

// c11disp.go — C11 observed where the colours end up: on the screen.
//
// ansi.go only computes spans; which state a line or a FIELD of a line starts from is decided in core.go
// (ansiProcessor: state carried from line to line; the --with-nth loop: "ESC[m" + <state before the field> put in
// front of every field so that it can be shown out of context).  None of that is reachable through a hook (it is
// inline in Run), so the real binary is started in a pseudo terminal (pty.go), its output is interpreted by a small
// terminal emulator that keeps colour and attributes per cell (c11Screen), and every character of every list row is
// compared with the colour a terminal printing the whole input would give that character:
//
//   kind "disp"   Rows: lines as streams of items (c11Item), Nth: --with-nth expression ("" = none), Delim: -d
//                 ("" = default AWK-style fields), Theme: --color base scheme.
//       spec  display_text           the row shows exactly the characters of the selected fields, in order
//       spec  display_colour_chars   each of them in the colour/attributes AnsiNthSpec.shown_chars gives it
//                                    (op 1111: pieces = the fields of the lines, state carried through ALL of them,
//                                    shown or hidden)
//       corr  corr:C11.with_nth_display   the screen against the model of the core.go loop (op 1112)
//   kind "tostr"  one state: ansiState.ToString (hook) against its model (op 1113), and the spec on its output:
//       spec  tostring_restores_state     the parameters it prints, applied to the RESET state by the reference SGR
//                                    interpreter, give the state back (and are in the documented domain)
//
// The first input line is a plain filler that carries the cursor (the current line is drawn with the theme's own
// colours).  Timing: a mismatch is only reported when all lines are loaded, the terminal has been quiet for a while,
// the same mismatch is still there, AND a second, fresh session shows it again.

import (
	"fmt"
	"strconv"
	"strings"
	"sync"
	"sync/atomic"
	"time"
	"unicode/utf8"

	fzf "github.com/junegunn/fzf/src"
	"github.com/rivo/uniseg"
)

// ---------- terminal emulator with colours ----------

type c11Cell struct {
	ch           rune // 0 = continuation cell of a wide character
	fg, bg, attr int
}

type c11Screen struct {
	W, H         int
	cells        [][]c11Cell
	r, c         int
	sr, sc       int
	atEnd        bool
	fg, bg, attr int
	pending      []byte
}

func newC11Screen(w, h int) *c11Screen {
	v := &c11Screen{W: w, H: h, fg: -1, bg: -1}
	v.cells = make([][]c11Cell, h)
	for i := range v.cells {
		v.cells[i] = v.blankRow()
	}
	return v
}

func (v *c11Screen) blank() c11Cell { return c11Cell{ch: ' ', fg: -1, bg: -1} }
func (v *c11Screen) blankRow() []c11Cell {
	row := make([]c11Cell, v.W)
	for i := range row {
		row[i] = v.blank()
	}
	return row
}

func (v *c11Screen) clamp() {
	if v.r < 0 {
		v.r = 0
	}
	if v.r >= v.H {
		v.r = v.H - 1
	}
	if v.c < 0 {
		v.c = 0
	}
	if v.c >= v.W {
		v.c = v.W - 1
	}
}

func (v *c11Screen) putRune(ch rune) {
	w := uniseg.StringWidth(string(ch))
	if w == 0 {
		return
	}
	if v.atEnd || v.c+w > v.W {
		v.c = v.W - w
		if v.c < 0 {
			return
		}
	}
	row := v.cells[v.r]
	if row[v.c].ch == 0 && v.c > 0 {
		row[v.c-1].ch = ' '
	}
	if v.c+w < v.W && row[v.c+w].ch == 0 {
		row[v.c+w].ch = ' '
	}
	row[v.c] = c11Cell{ch: ch, fg: v.fg, bg: v.bg, attr: v.attr}
	if w == 2 {
		row[v.c+1] = c11Cell{ch: 0, fg: v.fg, bg: v.bg, attr: v.attr}
	}
	v.c += w
	if v.c >= v.W {
		v.c = v.W - 1
		v.atEnd = true
	}
}

// erased cells take the current background (bce), no attributes
func (v *c11Screen) eraseLine(r, from, to int) {
	for i := from; i < to && i < v.W; i++ {
		v.cells[r][i] = c11Cell{ch: ' ', fg: -1, bg: v.bg}
	}
}

func c11Atoi(s string) int {
	n := 0
	for _, ch := range s {
		if ch >= '0' && ch <= '9' {
			n = n*10 + int(ch-'0')
		}
	}
	return n
}

// SGR as a terminal reads it: an omitted parameter is 0
func (v *c11Screen) sgr(params string) {
	ps := strings.Split(params, ";")
	for i := 0; i < len(ps); i++ {
		n := c11Atoi(ps[i])
		switch {
		case n == 0:
			v.fg, v.bg, v.attr = -1, -1, 0
		case n == 1:
			v.attr |= 1
		case n == 2:
			v.attr |= 2
		case n == 3:
			v.attr |= 4
		case n == 4:
			v.attr |= 8
		case n == 5:
			v.attr |= 16
		case n == 7:
			v.attr |= 64
		case n == 9:
			v.attr |= 128
		case n == 22:
			v.attr &^= 3
		case n == 23:
			v.attr &^= 4
		case n == 24:
			v.attr &^= 8
		case n == 25:
			v.attr &^= 16
		case n == 27:
			v.attr &^= 64
		case n == 29:
			v.attr &^= 128
		case n >= 30 && n <= 37:
			v.fg = n - 30
		case n == 39:
			v.fg = -1
		case n >= 40 && n <= 47:
			v.bg = n - 40
		case n == 49:
			v.bg = -1
		case n >= 90 && n <= 97:
			v.fg = n - 90 + 8
		case n >= 100 && n <= 107:
			v.bg = n - 100 + 8
		case n == 38 || n == 48:
			col, used := -1, 0
			if i+2 < len(ps) && c11Atoi(ps[i+1]) == 5 {
				col, used = c11Atoi(ps[i+2]), 2
			} else if i+4 < len(ps) && c11Atoi(ps[i+1]) == 2 {
				col, used = 1<<24|c11Atoi(ps[i+2])<<16|c11Atoi(ps[i+3])<<8|c11Atoi(ps[i+4]), 4
			} else {
				return
			}
			if n == 38 {
				v.fg = col
			} else {
				v.bg = col
			}
			i += used
		}
	}
}

func (v *c11Screen) csi(params string, final byte) {
	if final == 'm' {
		if !strings.HasPrefix(params, "?") && !strings.HasPrefix(params, ">") {
			v.sgr(params)
		}
		return
	}
	private := strings.HasPrefix(params, "?")
	nums := []int{}
	for _, p := range strings.Split(strings.TrimLeft(params, "?>="), ";") {
		nums = append(nums, c11Atoi(p))
	}
	arg := func(i, def int) int {
		if i < len(nums) && nums[i] > 0 {
			return nums[i]
		}
		return def
	}
	moved := true
	switch final {
	case 'A':
		v.r -= arg(0, 1)
	case 'B':
		v.r += arg(0, 1)
	case 'C':
		v.c += arg(0, 1)
	case 'D':
		v.c -= arg(0, 1)
	case 'G':
		v.c = arg(0, 1) - 1
	case 'H', 'f':
		v.r = arg(0, 1) - 1
		v.c = arg(1, 1) - 1
	case 'J':
		mode := 0
		if len(nums) > 0 {
			mode = nums[0]
		}
		switch mode {
		case 0:
			v.eraseLine(v.r, v.c, v.W)
			for r := v.r + 1; r < v.H; r++ {
				v.eraseLine(r, 0, v.W)
			}
		case 1:
			for r := 0; r < v.r; r++ {
				v.eraseLine(r, 0, v.W)
			}
			v.eraseLine(v.r, 0, v.c+1)
		default:
			for r := 0; r < v.H; r++ {
				v.eraseLine(r, 0, v.W)
			}
		}
		moved = false
	case 'K':
		mode := 0
		if len(nums) > 0 {
			mode = nums[0]
		}
		switch mode {
		case 0:
			v.eraseLine(v.r, v.c, v.W)
		case 1:
			v.eraseLine(v.r, 0, v.c+1)
		default:
			v.eraseLine(v.r, 0, v.W)
		}
		moved = false
	case 's':
		v.sr, v.sc = v.r, v.c
	case 'u':
		v.r, v.c = v.sr, v.sc
	case 'h', 'l':
		moved = false
		if private && len(nums) > 0 && nums[0] == 1049 {
			for r := 0; r < v.H; r++ {
				v.eraseLine(r, 0, v.W)
			}
		}
	default:
		moved = false
	}
	if moved {
		v.atEnd = false
		v.clamp()
	}
}

func (v *c11Screen) Feed(data []byte) {
	b := append(v.pending, data...)
	v.pending = nil
	i := 0
	for i < len(b) {
		ch := b[i]
		switch {
		case ch == 0x1b:
			if i+1 >= len(b) {
				v.pending = append([]byte{}, b[i:]...)
				return
			}
			switch b[i+1] {
			case '[':
				j := i + 2
				for j < len(b) && !(b[j] >= 0x40 && b[j] <= 0x7e) {
					j++
				}
				if j >= len(b) {
					v.pending = append([]byte{}, b[i:]...)
					return
				}
				v.csi(string(b[i+2:j]), b[j])
				i = j + 1
			case ']':
				j := i + 2
				end := -1
				for ; j < len(b); j++ {
					if b[j] == 0x07 {
						end = j + 1
						break
					}
					if b[j] == 0x1b && j+1 < len(b) && b[j+1] == '\\' {
						end = j + 2
						break
					}
				}
				if end < 0 {
					v.pending = append([]byte{}, b[i:]...)
					return
				}
				i = end
			case '7':
				v.sr, v.sc = v.r, v.c
				i += 2
			case '8':
				v.r, v.c = v.sr, v.sc
				v.atEnd = false
				i += 2
			case '(', ')':
				if i+2 >= len(b) {
					v.pending = append([]byte{}, b[i:]...)
					return
				}
				i += 3
			default:
				i += 2
			}
		case ch == '\r':
			v.c = 0
			v.atEnd = false
			i++
		case ch == '\n':
			if v.r == v.H-1 {
				copy(v.cells, v.cells[1:])
				v.cells[v.H-1] = v.blankRow()
			} else {
				v.r++
			}
			v.atEnd = false
			i++
		case ch == '\b':
			if v.c > 0 {
				v.c--
			}
			v.atEnd = false
			i++
		case ch < 0x20 || ch == 0x7f:
			i++
		default:
			if !utf8.FullRune(b[i:]) && len(b)-i < utf8.UTFMax {
				v.pending = append([]byte{}, b[i:]...)
				return
			}
			rn, sz := utf8.DecodeRune(b[i:])
			v.putRune(rn)
			i += sz
		}
	}
}

// the characters of row r from column `from` on, without trailing blanks, and their colours
func (v *c11Screen) rowFrom(r, from int) ([]rune, [][3]int) {
	if r < 0 || r >= v.H {
		return nil, nil
	}
	last := -1
	for c := v.W - 1; c >= from; c-- {
		if v.cells[r][c].ch != ' ' {
			last = c
			break
		}
	}
	var rs []rune
	var cols [][3]int
	for c := from; c <= last; c++ {
		if cell := v.cells[r][c]; cell.ch != 0 {
			rs = append(rs, cell.ch)
			cols = append(cols, [3]int{cell.fg, cell.bg, cell.attr})
		}
	}
	return rs, cols
}

// ---------- fields ----------

// byte ranges of the fields of a raw line: default = AWK style (leading blanks belong to no field, a field is
// non-blanks followed by blanks); a literal delimiter ends a field and belongs to it (strings.SplitAfter)
func c11FieldRanges(raw, delim string) [][2]int {
	var out [][2]int
	if delim == "" {
		i := 0
		for i < len(raw) && (raw[i] == ' ' || raw[i] == '\t') {
			i++
		}
		for i < len(raw) {
			b := i
			for i < len(raw) && raw[i] != ' ' && raw[i] != '\t' {
				i++
			}
			for i < len(raw) && (raw[i] == ' ' || raw[i] == '\t') {
				i++
			}
			out = append(out, [2]int{b, i})
		}
		return out
	}
	o := 0
	for _, p := range strings.SplitAfter(raw, delim) {
		out = append(out, [2]int{o, o + len(p)})
		o += len(p)
	}
	return out
}

// field index expression -> 0-based numbers of the fields shown, in order (man page: N, -N, N..M, N.., ..M, ..)
func c11Select(expr string, n int) ([]int, bool) {
	var sel []int
	abs := func(s string) (int, bool) {
		v, err := strconv.Atoi(s)
		if err != nil || v == 0 {
			return 0, false
		}
		if v < 0 {
			v += n + 1
		}
		return v, true
	}
	for _, part := range strings.Split(expr, ",") {
		lo, hi := 1, n
		if i := strings.Index(part, ".."); i >= 0 {
			if a := part[:i]; a != "" {
				v, ok := abs(a)
				if !ok {
					return nil, false
				}
				lo = v
			}
			if b := part[i+2:]; b != "" {
				v, ok := abs(b)
				if !ok {
					return nil, false
				}
				hi = v
			}
		} else {
			v, ok := abs(part)
			if !ok {
				return nil, false
			}
			lo, hi = v, v
		}
		for k := lo; k <= hi; k++ {
			if k >= 1 && k <= n {
				sel = append(sel, k-1)
			}
		}
	}
	return sel, true
}

type c11Piece struct {
	items []Val  // spec items (as_item of W_Ansi.v)
	runes []rune // characters a terminal shows for it
	raw   string
}

func c11SpecItem(c *Ctx, it c11Item, text string) (Val, bool) {
	switch it.T {
	case 0:
		return L(I(0), Bytes(text)), true
	case 1:
		ps := []int{}
		for _, d := range it.Dig {
			n, _ := strconv.Atoi(d)
			ps = append(ps, n)
		}
		w := c.Model.Call(1106, L(Ints(ps), L(I(-1), I(-1), I(0))))
		return L(I(1), Ints(ps)), len(w.L) == 2 && w.L[1].I == 1
	case 5:
		return L(I(2)), false
	case 6:
		_, wf := c11XApply(c, it, L(I(-1), I(-1), I(0)))
		return L(I(3), it.xsgrVal()), wf
	}
	return L(I(2)), true
}

// the pieces of one line: its fields (nth mode) or the whole line (plain mode).  ok=false: the line is outside what
// this check reads (a sequence that holds a delimiter or a blank and is therefore cut in two by the tokenizer);
// inDomain=false: an SGR outside the documented domain
func c11Pieces(c *Ctx, row []c11Item, delim string, fields bool) (pcs []c11Piece, ok, inDomain bool) {
	raw := c11Render(row)
	inDomain = true
	if !fields {
		p := c11Piece{raw: raw}
		for _, it := range row {
			t := ""
			if it.T == 0 {
				t = unhex(it.Hex)
				p.runes = append(p.runes, []rune(t)...)
			}
			v, dom := c11SpecItem(c, it, t)
			inDomain = inDomain && dom
			p.items = append(p.items, v)
		}
		return []c11Piece{p}, true, inDomain
	}
	rs := c11FieldRanges(raw, delim)
	pcs = make([]c11Piece, len(rs))
	for i, r := range rs {
		pcs[i].raw = raw[r[0]:r[1]]
	}
	find := func(p int) int {
		for i, r := range rs {
			if p >= r[0] && p < r[1] {
				return i
			}
		}
		return -1
	}
	o := 0
	for _, it := range row {
		s := it.render()
		if it.T != 0 {
			k := find(o)
			if k < 0 || o+len(s) > rs[k][1] {
				return nil, false, false
			}
			v, dom := c11SpecItem(c, it, "")
			inDomain = inDomain && dom
			pcs[k].items = append(pcs[k].items, v)
			o += len(s)
			continue
		}
		// text: cut at the field boundaries (characters before the first field belong to none: blanks, they change nothing)
		cur, curK := "", -2
		flush := func() {
			if cur != "" && curK >= 0 {
				pcs[curK].items = append(pcs[curK].items, L(I(0), Bytes(cur)))
				pcs[curK].runes = append(pcs[curK].runes, []rune(cur)...)
			}
			cur = ""
		}
		for _, rn := range s {
			k := find(o)
			if k != curK {
				flush()
				curK = k
			}
			cur += string(rn)
			o += utf8.RuneLen(rn)
		}
		flush()
	}
	return pcs, true, inDomain
}

// ---------- the case ----------

const c11Filler = "filler pad tail"
const c11DispCols, c11DispRows = 200, 22

type c11RowExp struct {
	text []rune
	cols []Val // (fg bg attr) per character, from the spec; nil when the line is outside the colouring domain
	corr []Val // the same from the model of the core.go loop; nil when not applicable
}

func c11TrimRight(rs []rune) []rune {
	for len(rs) > 0 && rs[len(rs)-1] == ' ' {
		rs = rs[:len(rs)-1]
	}
	return rs
}

// per-character colours of a model result (text, spans, state) -- the spans expanded like c11Expand
func c11ExpandVal(m Val, n int) []Val {
	out := make([]Val, n)
	for i := range out {
		out[i] = L(I(-1), I(-1), I(0))
	}
	if len(m.L) != 3 || len(m.L[1].L) != 1 {
		return out
	}
	for _, o := range m.L[1].L[0].L {
		if len(o.L) != 3 || len(o.L[2].L) < 3 {
			continue
		}
		for i := int(o.L[0].I); i < int(o.L[1].I) && i < n; i++ {
			if i >= 0 {
				out[i] = L(o.L[2].L[0], o.L[2].L[1], o.L[2].L[2])
			}
		}
	}
	return out
}

func c11DispArgs(cs c11Case) []string {
	args := []string{"--ansi", "--no-sort"}
	if cs.Nth != "" {
		args = append(args, "--with-nth", cs.Nth)
	}
	if cs.Delim != "" {
		args = append(args, "-d", cs.Delim)
	}
	if cs.Theme != "" {
		args = append(args, "--color="+cs.Theme)
	}
	return args
}

// what every list row must show; ok=false: case outside what the check reads (counted, not judged)
func c11DispExpect(c *Ctx, cs c11Case) (exp []c11RowExp, ok bool) {
	fields := cs.Nth != ""
	var all []c11Piece // the pieces of all lines so far, in input order
	allDomain := true
	for _, row := range cs.Rows {
		raw := c11Render(row)
		if strings.ContainsAny(raw, "\n\r\x00\t") || !utf8.ValidString(raw) {
			return nil, false
		}
		pcs, ok, dom := c11Pieces(c, row, cs.Delim, fields)
		if !ok {
			return nil, false
		}
		allDomain = allDomain && dom
		base := len(all)
		all = append(all, pcs...)
		sel := []int{0}
		if fields {
			s, ok := c11Select(cs.Nth, len(pcs))
			if !ok {
				return nil, false
			}
			sel = s
			// a line that is ONE field gets no "ESC[m" in front (core.go: len(tokens) > 1); when the expression
			// shows that field twice the second copy starts in the state the first one ends in.  Marginal, reported
			// (DESIGN §5 C11), outside what is judged here
			if len(pcs) <= 1 && len(sel) > 1 {
				return nil, false
			}
		}
		var e c11RowExp
		selV := []Val{}
		for _, k := range sel {
			e.text = append(e.text, pcs[k].runes...)
			selV = append(selV, I(base+k))
		}
		n := len(e.text)
		e.text = c11TrimRight(e.text)
		if uniseg.StringWidth(string(e.text)) > c11DispCols-10 {
			return nil, false
		}
		if cs.Theme == "bw" {
			// colours switched off: the sequences are only removed, nothing is coloured
			e.cols = make([]Val, len(e.text))
			for i := range e.cols {
				e.cols[i] = L(I(-1), I(-1), I(0))
			}
		} else if allDomain {
			pv := make([]Val, len(all))
			for i, p := range all {
				pv[i] = L(p.items...)
			}
			w := c.Model.Call(1111, L(L(pv...), L(I(-1), I(-1), I(0)), L(selV...)))
			if len(w.L) != n {
				return nil, false
			}
			e.cols = w.L[:len(e.text)]
		}
		// the model of the core.go loop: only for the first line after the filler (both states it starts from are
		// nil there; further lines start from states the model does not follow)
		if fields && base == 0 && cs.Theme != "bw" {
			toks := make([]Val, len(pcs))
			for i, p := range pcs {
				toks[i] = Bytes(p.raw)
			}
			selL := []Val{}
			for _, k := range sel {
				selL = append(selL, I(k))
			}
			m := c.Model.Call(1112, L(L(toks...), L(selL...), L(), L()))
			if len(m.L) == 3 && utf8.RuneCountInString(m.L[0].Str()) == n {
				e.corr = c11ExpandVal(m, n)[:len(e.text)]
			}
		}
		exp = append(exp, e)
	}
	return exp, true
}

type c11RowObs struct {
	Row  int      `json:"row"`
	Text string   `json:"text"`
	Cols [][3]int `json:"colours"` // (fg, bg, attr) per character: -1 default, 0..255 palette, 1<<24|rgb; attr bits 1 bold 2 dim 4 italic 8 underline 16 blink 64 reverse 128 strike
}

func c11ColsOf(vs []Val) [][3]int {
	out := make([][3]int, len(vs))
	for i, v := range vs {
		if len(v.L) == 3 {
			out[i] = [3]int{int(v.L[0].I), int(v.L[1].I), int(v.L[2].I)}
		}
	}
	return out
}

func c11SameCols(a, b [][3]int) bool {
	if len(a) != len(b) {
		return false
	}
	for i := range a {
		if a[i] != b[i] {
			return false
		}
	}
	return true
}

// verdict on one screen: "" or the name of the first check that fails, with the row
func c11DispJudge(scr *c11Screen, filler string, exp []c11RowExp) (string, int, c11RowObs) {
	// the filler sits on the first list row (row H-3 of the default layout: prompt, info line, list upwards)
	if rs, _ := scr.rowFrom(scr.H-3, 2); string(rs) != filler {
		return "layout", -1, c11RowObs{Row: scr.H - 3, Text: string(rs)}
	}
	for i, e := range exp {
		r := scr.H - 4 - i
		rs, cols := scr.rowFrom(r, 2)
		obs := c11RowObs{Row: i, Text: string(rs), Cols: cols}
		if string(rs) != string(e.text) {
			return "display_text", i, obs
		}
		if e.cols != nil && !c11SameCols(cols, c11ColsOf(e.cols)) {
			return "display_colour_chars", i, obs
		}
	}
	for i, e := range exp {
		if e.corr != nil {
			r := scr.H - 4 - i
			rs, cols := scr.rowFrom(r, 2)
			if !c11SameCols(cols, c11ColsOf(e.corr)) {
				return "corr:C11.with_nth_display", i, c11RowObs{Row: i, Text: string(rs), Cols: cols}
			}
		}
	}
	return "", -1, c11RowObs{}
}

type c11DispResult struct {
	fail string // "" | check name | "session: ..." (could not observe)
	row  int
	obs  c11RowObs
}

// what the filler line shows (it goes through --with-nth like every line)
func c11FillerShown(cs c11Case) string {
	if cs.Nth == "" {
		return c11Filler
	}
	rs := c11FieldRanges(c11Filler, cs.Delim)
	sel, _ := c11Select(cs.Nth, len(rs))
	out := ""
	for _, k := range sel {
		out += c11Filler[rs[k][0]:rs[k][1]]
	}
	return strings.TrimRight(out, " ")
}

// one session: start fzf, wait until everything is loaded and drawn, judge; a failing verdict must survive a quiet
// terminal and a second look
func c11DispSession(c *Ctx, cs c11Case, exp []c11RowExp) c11DispResult {
	var in strings.Builder
	in.WriteString(c11Filler + "\n")
	for _, row := range cs.Rows {
		in.WriteString(c11Render(row) + "\n")
	}
	s, err := StartSession(c, SessionOpts{Args: c11DispArgs(cs), Stdin: []byte(in.String()), Cols: c11DispCols, Rows: c11DispRows})
	if err != nil {
		return c11DispResult{fail: "session: " + err.Error()}
	}
	defer s.Close()
	total := len(cs.Rows) + 1
	if _, ok := s.WaitFor(func(st *FzfState) bool { return !st.Reading && st.TotalCount == total }, 20*time.Second); !ok {
		return c11DispResult{fail: "session: input not loaded within 20 s"}
	}
	deadline := time.Now().Add(20 * time.Second)
	filler := c11FillerShown(cs)
	var firstBad time.Time
	for {
		c13Settle(s, 30*time.Millisecond, 3*time.Second)
		scr := newC11Screen(c11DispCols, c11DispRows)
		scr.Feed(s.Screen())
		name, row, obs := c11DispJudge(scr, filler, exp)
		if name == "" {
			return c11DispResult{}
		}
		if firstBad.IsZero() {
			firstBad = time.Now()
		}
		// stable: still wrong 400 ms after it was first seen wrong, with a terminal that has been quiet for 250 ms
		if time.Since(firstBad) > 400*time.Millisecond {
			c13Settle(s, 250*time.Millisecond, 5*time.Second)
			scr = newC11Screen(c11DispCols, c11DispRows)
			scr.Feed(s.Screen())
			if n2, r2, o2 := c11DispJudge(scr, filler, exp); n2 != "" {
				return c11DispResult{fail: n2, row: r2, obs: o2}
			}
			return c11DispResult{}
		}
		if time.Now().After(deadline) {
			return c11DispResult{fail: name, row: row, obs: obs}
		}
		time.Sleep(50 * time.Millisecond)
	}
}

var c11DispConfirm sync.Mutex
var c11DispReported atomic.Int32 // display failures reported so far in this run

func c11CheckDisp(c *Ctx, cs c11Case) {
	rep := c.Rep
	exp, ok := c11DispExpect(c, cs)
	if !ok {
		rep.Count("disp=outside(not judged)")
		return
	}
	if c11DispReported.Load() >= 4 && c.Replay == "" {
		// four confirmed reports are on file: the remaining sessions would each cost the patience of a failing one
		rep.Count("disp=not run(four failures already reported)")
		return
	}
	res := c11DispSession(c, cs, exp)
	rep.ImplTraces++
	if res.fail != "" {
		// a second, fresh session, one at a time (the machine may be busy): only what shows twice is reported
		c11DispConfirm.Lock()
		res2 := c11DispSession(c, cs, exp)
		c11DispConfirm.Unlock()
		if res2.fail == "" || strings.HasPrefix(res2.fail, "session:") != strings.HasPrefix(res.fail, "session:") {
			rep.Count("disp=transient(not confirmed by a second session)")
			res = res2
			if strings.HasPrefix(res.fail, "session:") {
				res.fail = ""
			}
		} else {
			res = res2
		}
	}
	nchars := 0
	for _, e := range exp {
		rep.SpecChecks++
		if e.cols != nil {
			rep.SpecChecks++
			rep.Count("disp_rows=colour-domain")
		} else {
			rep.Count("disp_rows=text-only(SGR outside the domain)")
		}
		nchars += len(e.text)
	}
	rep.CountN("disp_chars", nchars)
	if res.fail != "" {
		c11DispReported.Add(1)
	}
	switch {
	case res.fail == "":
	case strings.HasPrefix(res.fail, "session:"), res.fail == "layout":
		// could not observe (twice): not a verdict on the property, but not silent either
		c11Bad(c, "corr", "corr:C11.display_observable", cs, res.fail+" "+res.obs.Text, "a list whose first row is the filler line")
	case res.fail == "display_text":
		c11Bad(c, "spec", "display_text", cs, res.obs, map[string]interface{}{"row": res.row, "text": string(exp[res.row].text)})
	case res.fail == "display_colour_chars":
		c11Bad(c, "spec", "display_colour_chars", cs, res.obs,
			map[string]interface{}{"row": res.row, "text": string(exp[res.row].text), "colours": c11ColsOf(exp[res.row].cols)})
	default:
		c11Bad(c, "corr", res.fail, cs, res.obs,
			map[string]interface{}{"row": res.row, "text": string(exp[res.row].text), "colours": c11ColsOf(exp[res.row].corr)})
	}
	if cs.Nth != "" {
		rep.Count("disp=with-nth")
		if cs.Delim != "" {
			rep.Count("disp=with-nth,-d")
		}
	} else {
		rep.Count("disp=plain")
		rep.CountN("disp_plain_lines", len(cs.Rows))
	}
}

// ---------- ansiState.ToString ----------

func c11CheckToStr(c *Ctx, cs c11Case) {
	rep := c.Rep
	st := cs.State.impl()
	if st == nil {
		return
	}
	got, pan := "", ""
	func() {
		defer func() {
			if e := recover(); e != nil {
				pan = fmt.Sprint(e)
			}
		}()
		got = fzf.VerifAnsiStateToString(st)
	}()
	rep.ImplTraces++
	if pan != "" {
		c11Bad(c, "spec", "total", cs, pan, "no panic")
		return
	}
	if m := c.Model.Call(1113, c11StateVal(st)); got != m.Str() {
		c11Bad(c, "corr", "corr:C11.state_to_string", cs, tohex(got), tohex(m.Str()))
	}
	// spec: inside the domain of states (palette 0..255 / 24-bit colours, the seven attributes, no hyperlink) the
	// string is ONE SGR sequence whose parameters, read by the reference interpreter from the reset state, give
	// the state back
	w := c.Model.Call(1114, c11SgrVal(st))
	if len(w.L) == 2 && w.L[1].I == 1 && !st.HasURL && st.Attr&^0xdf == 0 {
		rep.SpecChecks++
		ok := strings.HasPrefix(got, "\x1b[") && strings.HasSuffix(got, "m")
		var ps []int
		if ok {
			for _, p := range strings.Split(got[2:len(got)-1], ";") {
				n, err := strconv.Atoi(p)
				if err != nil || n < 0 {
					ok = false
					break
				}
				ps = append(ps, n)
			}
		}
		if ok {
			a := c.Model.Call(1106, L(Ints(ps), L(I(-1), I(-1), I(0))))
			ok = len(a.L) == 2 && a.L[1].I == 1 && a.L[0].Equal(c11SgrVal(st))
		}
		if !ok {
			c11Bad(c, "spec", "tostring_restores_state", cs, tohex(got), "ESC[ p1;..;pn m with sgr_apply ps reset = "+c11SgrVal(st).String()+", e.g. ps = "+w.L[0].String())
		}
		rep.Count("tostr=in-domain")
	} else {
		rep.Count("tostr=outside(corr only)")
	}
}

// ---------- generators ----------

var c11Words = []string{"alpha", "bravo", "ab", "x", "foo", "é", "日本", "a1", "zz", "€5", "K", "m", "q"}

// SGR for the display streams: mostly changes that keep part of the state alive (attributes on, attributes off,
// one colour), so that states run across field and line boundaries; sometimes anything from the documented domain
func c11GenDispSgr(r *RNG) c11Item {
	switch r.Intn(10) {
	case 0:
		return c11GenSgr(r)
	case 1:
		it := c11Item{T: 6}
		if r.Chance(1, 2) {
			it.Dig = c11GenSgr(r).Dig
		}
		head := Pick(r, []string{"38", "48"})
		switch r.Intn(3) {
		case 0:
			it.Sub = []string{head, "2", "", c11Num(r, 255), c11Num(r, 255), c11Num(r, 255)}
		case 1:
			it.Sub = []string{head, "2", c11Num(r, 255), c11Num(r, 255), c11Num(r, 255)}
		default:
			it.Sub = []string{head, "5", c11Num(r, 255)}
		}
		return it
	}
	it := c11Item{T: 1}
	n := r.Range(1, 3)
	for i := 0; i < n; i++ {
		switch k := r.Intn(20); {
		case k < 6:
			it.Dig = append(it.Dig, Pick(r, []string{"1", "2", "3", "4", "5", "7", "9"}))
		case k < 11:
			it.Dig = append(it.Dig, Pick(r, []string{"22", "23", "24", "25", "27", "29"}))
		case k < 14:
			it.Dig = append(it.Dig, strconv.Itoa(Pick(r, []int{30, 31, 32, 33, 34, 35, 36, 37, 90, 91, 95, 97})))
		case k == 14:
			it.Dig = append(it.Dig, "38", "5", c11Num(r, 255))
		case k == 15:
			it.Dig = append(it.Dig, Pick(r, []string{"38", "48"}), "2", c11Num(r, 255), c11Num(r, 255), c11Num(r, 255))
		case k < 18:
			it.Dig = append(it.Dig, strconv.Itoa(Pick(r, []int{40, 41, 42, 44, 47, 100, 103, 107})))
		case k == 18:
			it.Dig = append(it.Dig, Pick(r, []string{"39", "49"}))
		default:
			it.Dig = append(it.Dig, "0")
		}
	}
	return it
}

// one line: nf fields separated by sep (blanks when sep == ""); sequences stand before, inside and after the words,
// and now and then make up a field of their own
func c11GenDispRow(r *RNG, nf int, delim string) []c11Item {
	var row []c11Item
	text := func(s string) {
		if n := len(row); n > 0 && row[n-1].T == 0 {
			row[n-1].Hex = tohex(unhex(row[n-1].Hex) + s)
		} else {
			row = append(row, c11Item{T: 0, Hex: tohex(s)})
		}
	}
	seq := func() {
		switch k := r.Intn(14); {
		case k < 11:
			row = append(row, c11GenDispSgr(r))
		case k == 11:
			it := c11GenOther(r)
			for strings.ContainsAny(unhex(it.Hex), " \t") {
				it = c11GenOther(r)
			}
			row = append(row, it)
		case k == 12:
			row = append(row, c11GenOsc8(r))
		default:
			row = append(row, c11Item{T: 4, Hex: tohex(Pick(r, []string{"a", "_", "é", "日"}) + "\x08")})
		}
	}
	if delim == "" && r.Chance(1, 8) {
		text(" ")
	}
	for f := 0; f < nf; f++ {
		if r.Chance(1, 12) { // a field that is nothing but a sequence
			seq()
		} else {
			if r.Chance(1, 3) {
				seq()
			}
			w := Pick(r, c11Words)
			if rs := []rune(w); len(rs) > 1 && r.Chance(1, 2) { // a change in the middle of the word
				k := r.Range(1, len(rs)-1)
				text(string(rs[:k]))
				seq()
				text(string(rs[k:]))
			} else {
				text(w)
			}
			if r.Chance(1, 4) {
				seq()
				if r.Chance(1, 2) {
					text(Pick(r, c11Words))
				}
			}
		}
		if f < nf-1 || r.Chance(1, 6) {
			if delim == "" {
				text(Pick(r, []string{" ", " ", " ", "  "}))
			} else {
				text(delim)
			}
		}
	}
	if r.Chance(1, 3) {
		row = append(row, c11Item{T: 1, Dig: Pick(r, [][]string{nil, {"0"}})})
	}
	return row
}

func c11GenNthExpr(r *RNG, n int) string {
	idx := func() int {
		if n == 0 {
			return 1
		}
		k := r.Range(1, n)
		if r.Chance(1, 5) {
			k = -r.Range(1, n)
		}
		if r.Chance(1, 20) {
			k = n + 1
		}
		return k
	}
	var parts []string
	m := Pick(r, []int{1, 1, 2, 2, 2, 3})
	for i := 0; i < m; i++ {
		switch r.Intn(8) {
		case 0:
			parts = append(parts, strconv.Itoa(idx())+"..")
		case 1:
			parts = append(parts, ".."+strconv.Itoa(idx()))
		case 2:
			a, b := idx(), idx()
			if a < 0 && b > 0 { // not a valid expression (ParseRange)
				a, b = b, a
			}
			parts = append(parts, strconv.Itoa(a)+".."+strconv.Itoa(b))
		default:
			parts = append(parts, strconv.Itoa(idx()))
		}
	}
	return strings.Join(parts, ",")
}

// with-nth: ONE line after the filler (see DESIGN §5 C11: with --with-nth the state a line starts from lags one
// line behind; reported as a finding, not generated here).  plain: several lines, states run from line to line
func c11GenDisp(r *RNG) c11Case {
	cs := c11Case{Kind: "disp", Theme: Pick(r, []string{"16", "16", "16", "dark", "dark", "", "", "light", "light", "bw"})}
	if r.Chance(2, 3) {
		cs.Delim = Pick(r, []string{"", "", "", "", ",", "|", "--"})
		nf := r.Range(2, 5)
		if r.Chance(1, 10) {
			nf = 1
		}
		row := c11GenDispRow(r, nf, cs.Delim)
		cs.Rows = [][]c11Item{row}
		cs.Nth = c11GenNthExpr(r, len(c11FieldRanges(c11Render(row), cs.Delim)))
	} else {
		n := r.Range(1, 6)
		for i := 0; i < n; i++ {
			cs.Rows = append(cs.Rows, c11GenDispRow(r, r.Range(1, 3), ""))
		}
	}
	return cs
}

func c11GenToStr(r *RNG) c11Case {
	st := c11GenState(r)
	for st == nil {
		st = c11GenState(r)
	}
	if r.Chance(1, 3) { // any palette / 24-bit colour, any attribute set
		col := func() int {
			switch r.Intn(4) {
			case 0:
				return -1
			case 1:
				return r.Intn(256)
			case 2:
				return 1<<24 | r.Intn(1<<24)
			}
			return Pick(r, []int{0, 7, 8, 15, 16, 255, 1 << 24, 1<<24 | 0xffffff})
		}
		st.Fg, st.Bg = col(), col()
		st.Attr = r.Intn(256) &^ 32
		if r.Chance(1, 10) {
			st.Attr |= 1024 // BoldForce
		}
		if st.Fg == -1 && st.Bg == -1 && st.Attr == 0 && st.Lbg < 0 && st.URL == nil {
			st.Attr = 1
		}
	}
	if r.Chance(1, 12) { // outside the domain: model = code only
		st.Fg = Pick(r, []int{256, 300, 1 << 23, -2, 1<<24 - 1})
	}
	return c11Case{Kind: "tostr", State: st}
}
